(* C01 — wire functions over the shared encoder model (Enc/JsonEnc.v) and the JSON
   grammar/parser (Enc/JsonParse.v). *)
From Coq Require Import List ZArith Bool.
From Coq.Strings Require Import Byte.
Import ListNotations.
From Zap Require Import Base.Wire Enc.Bytes Enc.Fields Enc.JsonEnc Enc.JsonParse Enc.WireEnc Enc.Wf.

Definition json_line (ec : ecase) : option bytes :=
  let c := ec_cfg ec in
  encode_entry c false (with_chain c false (ec_ctxs ec)) (ec_ent ec) (ec_fs ec).

(* observation: (line) — or () if the call panicked *)
Definition model (i : sx) : sx :=
  match json_line (dec_case i) with Some out => SL [SB out] | None => SL [] end.

(* the property's oracle: exactly one JSON object, then the configured line ending,
   no control character or line break inside the object *)
Definition spec (i o : sx) : bool :=
  match sx_l o with
  | [SB out] => line_ok (resolved_le (ec_cfg (dec_case i))) out
  | _ => false
  end.

(* assumption monitor: the oracle texts of the case (strconv floats, encoding/json values) are well formed *)
Definition wf_case (ec : ecase) : bool :=
  forallb wf_flds (ec_ctxs ec) && wf_flds (ec_fs ec) && wf_entry (ec_ent ec).
Definition wf (i : sx) : bool := wf_case (dec_case i).

(* C01 — stub *)
From Zap Require Import Base.Wire C01.Model.

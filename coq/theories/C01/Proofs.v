(* C01 — proofs specific to the property (the shared refinement is in Enc/Refine*.v). *)
From Coq Require Import List ZArith Bool.
From Coq.Strings Require Import Byte.
Import ListNotations.
From Zap Require Import Base.Wire Enc.Bytes Enc.Fields Enc.JsonEnc Enc.JsonParse Enc.WireEnc Enc.JsonAst Enc.Wf Enc.Refine5 C01.Model.

(* a small concrete configuration and entry used by the witnesses *)
Definition cfg0 (layout_escaped nil_guard : bool) (ecaller : senc) : cfg :=
  {| k_message := [x6d]; k_level := []; k_time := [x74]; k_name := []; k_caller := [x63]; k_function := []; k_stack := [];
     skip_line_ending := false; line_ending := []; e_level := SNil; e_time := SActive; e_duration := SNil;
     e_caller := ecaller; e_name := SNil; console_sep := [];
     q_layout_escaped := layout_escaped; q_nil_caller_guard := nil_guard |}.
(* time rendered by a layout whose output contains a double quote: TimeEncoderOfLayout("\"2006\"") *)
Definition ent0 (caller : bool) : entry :=
  {| lvl_text := []; lvl_string := []; time_zero := false;
     time_val := {| t_nanos := 0; t_rend := RLayout [x22; x31; x39; x37; x30; x22] |}; time_col := [];
     name := []; caller_defined := caller; caller_text := []; caller_string := [x66; x3a; x31];
     func := []; message := [x68; x69]; stack := [] |}.

Definition line_of (c : cfg) (ent : entry) : option bytes := encode_entry c false (with_chain c false []) ent [].

(* pre-fix behaviour 1 (repaired by "fix: escape the text produced by a time layout"):
   AppendTimeLayout wrote the formatted time raw, so a layout producing a quote gave an invalid line *)
Lemma layout_orig_refuted :
  exists out, line_of (cfg0 false true SActive) (ent0 false) = Some out /\ line_ok [NL] out = false.
Proof. eexists. split; [vm_compute; reflexivity|vm_compute; reflexivity]. Qed.
Lemma layout_fixed_ok :
  exists out, line_of (cfg0 true true SActive) (ent0 false) = Some out /\ line_ok [NL] out = true.
Proof. eexists. split; [vm_compute; reflexivity|vm_compute; reflexivity]. Qed.

(* pre-fix behaviour 2 (repaired by "fix: JSON encoder no longer panics when CallerKey is set but
   EncodeCaller is nil"): the call panics *)
Lemma nilcaller_orig_refuted : line_of (cfg0 true false SNil) (ent0 true) = None.
Proof. vm_compute. reflexivity. Qed.
Lemma nilcaller_fixed_ok :
  exists out, line_of (cfg0 true true SNil) (ent0 true) = Some out /\ line_ok [NL] out = true.
Proof. eexists. split; [vm_compute; reflexivity|vm_compute; reflexivity]. Qed.

(* the refinement, instantiated for the JSON encoder (spaced = false) *)
Theorem json_refines c ctxs ent fs :
  q_nil_caller_guard c = true -> forallb wf_flds ctxs = true -> wf_flds fs = true -> wf_entry ent = true ->
  encode_entry c false (with_chain c false ctxs) ent fs =
    Some (pv false (TObj (entry_members c ctxs ent fs)) ++ resolved_le c).
Proof. apply entry_bytes. Qed.

(* the wire-level link *)
From Zap Require Import Enc.Parse3 Enc.Parse4.
Lemma dec_cfg_quirks s : q_nil_caller_guard (dec_cfg s) = true /\ q_layout_escaped (dec_cfg s) = true.
Proof. split; reflexivity. Qed.
Theorem wire_thm i : wf i = true -> spec i (model i) = true.
Proof.
  unfold wf, wf_case, spec, model, json_line. intros Hw.
  apply andb_true_iff in Hw as [Hw We]. apply andb_true_iff in Hw as [Wc Wf'].
  destruct (entry_valid_wf (ec_cfg (dec_case i)) (ec_ctxs (dec_case i)) (ec_ent (dec_case i)) (ec_fs (dec_case i))
              eq_refl eq_refl Wc Wf' We) as (out & E & L).
  rewrite E. cbn [sx_l]. unfold line_ok. now rewrite L.
Qed.

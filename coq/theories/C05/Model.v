(* C05 wire model: decodes a case (core tree, AtomicLevel cells, observer leaf ids, history of
   operations), runs the model of C05/Cores.v on it, and defines the property's oracle [spec],
   which is written against the path specification ([delivered], [hooks_due], [accepts],
   [min_delivered]) and never calls [check]/[enabled]/[level_of].  No proofs in this file.

   input  = (tree cells obs ops [mode])     mode 1: the harness built the root logger with Config.Build
                                            of a live zap.Config on cell 0 - the Config's own ioCore is the
                                            first branch (leaf 900) of the tee shown; the model does not read it
     tree  = (0 id en) leaf | (1) no-op | (2 t ...) NewTee | (3 t h) RegisterHooks
           | (4 t en) NewIncreaseLevelCore (on error the wrapped core is kept and the error counted)
           | (5 t) sampler that never drops (first = 2^30) | (6 t) NewLazyWith | (7 t) t.With(fields)
           | (8 t first thereafter) NewSamplerWithOptions(t, 1h, first, thereafter): it really drops
     en    = (0 t) zapcore.Level t | (1 a) AtomicLevel cell a | (2 #tbl) LevelEnablerFunc, tbl[l+128] <> 0
     cells = (v ...) initial AtomicLevel values;  obs = (id ...) leaves that are observer cores
     op    = (0 a v [hk]) SetLevel | (1 fam l) log call | (2 l) Core.Enabled(l)
           | (3) (Logger.Level, LevelOf(core)) | (4 n) zapgrpc V(n)
           | (5 [k [t]]) a new logger is derived from the current one and becomes the current one:
               k = 0 With(fields) | 1 WithLazy(fields) | 2 Named | 3 WithOptions(AddCallerSkip)
                 | 4 Sugar().Desugar() | 5 WithOptions(IncreaseLevel(zapcore.Level t))
                 | 6 WithOptions(zap.Hooks(hook t)) | 7 WithOptions(WrapCore(c => zapcore.RegisterHooks(c, hook t))):
                   one more hook, number t, registered on the CURRENT logger's core - the loggers derived
                   before (the parent, its other children: the siblings) keep their own hook lists
           | (6 a route hk #text) the text is sent to cell a by route (C05/Updates.v: 1 UnmarshalText,
               2 flag.TextVar, 3 encoding/json, 4 yaml.v3, 5 HTTP PUT with a JSON body, 6 HTTP PUT with a
               form) through a handle of kind hk (0 the variable the cores were built from, 1 a copy of
               the struct made now, 2 the Level field of a live zap.Config, 3 a copy made before the cores
               were built / the handler registered with an http.ServeMux).  A handle IS its cell: the
               model does not look at hk
           | (7 a hk) Level() read through a handle of kind hk of cell a
           | (8 j) the j-th logger derived so far (0 = the root) becomes the current one
   observation = (nerr (o ...)), one o per op:
     (6 ..) -> (ok lu lo): ok = the route reported success, lu / lo = Level() read afterwards through
             the handle used / through the variable the cores were built from;  (7 ..) -> Level()
     call -> ((ev ...) (count ...) evals ((k d) ...)): ev = (0 id)/(1 h) in write order for IO leaves and
             hooks, count per observer leaf, evals = user payload evaluations, (k d) = the decision
             sampler number k (pre-order position among the samplers of the tree) reported through its
             SamplerHook during the call, d = 1 dropped / 0 sampled;  others -> value or ()
   The oracle takes the samplers' decisions from the observation (which entries a sampler drops is
   C11's) and judges the delivery given them; the model predicts them with sampler.go's counters. *)
From Coq Require Import List ZArith Bool Lia Arith.
From Coq.Strings Require Import Byte.
Import ListNotations.
From Zap Require Import Base.Wire C05.Cores C05.Sampling C05.Updates.
Open Scope Z_scope.

Definition tbl_fn (tb : list bool) : level -> bool := fun l => nth (Z.to_nat (l + 128)) tb false.
Definition dec_en (s : sx) : enabler :=
  match sx_z (sx_nth s 0) with
  | 0 => ELvl (sx_z (sx_nth s 1))
  | 1 => EAtom (sx_n (sx_nth s 1))
  | _ => EFn (tbl_fn (map (fun b => negb (Byte.eqb b x00)) (sx_b (sx_nth s 1))))
  end.

Definition sum (l : list nat) : nat := fold_right Nat.add 0%nat l.

(* builds the tree bottom-up in world w (the initial cell values); [ok] is the validation
   NewIncreaseLevelCore performs; returns the core and the number of rejected constructions *)
Fixpoint build_with (ok : world -> core -> enabler -> bool) (w : world) (s : sx) {struct s} : core * nat :=
  match s with
  | SL (SZ tag :: args) =>
      match tag, args with
      | 0, [id; en] => (Leaf (sx_n id) (dec_en en), 0%nat)
      | 2, cs => let rs := map (build_with ok w) cs in (new_tee (map fst rs), sum (map snd rs))
      | 3, [c; h] => let '(c', n) := build_with ok w c in (Hooked c' (sx_n h), n)
      | 4, [c; en] => let '(c', n) := build_with ok w c in
                      if ok w c' (dec_en en) then (Filter c' (dec_en en), n) else (c', S n)
      | 5, [c] => let '(c', n) := build_with ok w c in (Sampled c', n)
      | 8, [c; _; _] => let '(c', n) := build_with ok w c in (Sampled c', n)
      | 6, [c] => let '(c', n) := build_with ok w c in (Lazy c', n)
      | 7, [c] => let '(c', n) := build_with ok w c in (with_core c', n)
      | _, _ => (Nop, 0%nat)
      end
  | _ => (Nop, 0%nat)
  end.

(* (first, thereafter) of every sampler, in pre-order: the numbering of C05/Sampling.v (NewTee's
   collapsing, a rejected increase and With keep the order of the samplers) *)
Fixpoint sparams (s : sx) {struct s} : list (Z * Z) :=
  match s with
  | SL (SZ tag :: args) =>
      match tag, args with
      | 2, cs => flat_map sparams cs
      | 3, [c; _] => sparams c
      | 4, [c; _] => sparams c
      | 5, [c] => (1073741824, 0) :: sparams c
      | 6, [c] => sparams c
      | 7, [c] => sparams c
      | 8, [c; fi; th] => (sx_z fi, sx_z th) :: sparams c
      | _, _ => []
      end
  | _ => []
  end.

Definition dec_fam (z : Z) : fam :=
  match z with
  | 0 => FLogger | 1 => FCheck | 2 => FSugar | 3 => FSugarf | 4 => FSugarw | 5 => FSugarln
  | 6 => FZapio | 7 => FStdLog | 8 => FGrpcDirect | 9 => FGrpcLn | 10 => FGrpcPrint | _ => FGrpcPrintln
  end.

(* the message a front-end family logs in the harness: 0 "m", 1 "payload" (formatted from the
   Stringer argument), 2 "line" (zapio) - the sampler counts per level and message *)
Definition msg_class (f : fam) : nat :=
  match f with
  | FLogger | FCheck | FSugarw | FStdLog => 0
  | FZapio => 2
  | _ => 1
  end%nat.

Inductive op :=
| OSet (a : nat) (v : Z) | OCall (f : fam) (l : level) | OEnabled (l : level)
| OLevel | OV (n : Z) | ODerive (k : Z) (t : level)
| OUpd (a : nat) (r : Z) (t : bytes) | OHandle (a : nat) | OSel (j : nat).
Definition dec_op (s : sx) : op :=
  match sx_z (sx_nth s 0) with
  | 0 => OSet (sx_n (sx_nth s 1)) (sx_z (sx_nth s 2))
  | 1 => OCall (dec_fam (sx_z (sx_nth s 1))) (sx_z (sx_nth s 2))
  | 2 => OEnabled (sx_z (sx_nth s 1))
  | 3 => OLevel
  | 4 => OV (sx_z (sx_nth s 1))
  | 5 => ODerive (sx_z (sx_nth s 1)) (sx_z (sx_nth s 2))
  | 6 => OUpd (sx_n (sx_nth s 1)) (sx_z (sx_nth s 2)) (sx_b (sx_nth s 4))
  | 7 => OHandle (sx_n (sx_nth s 1))
  | _ => OSel (sx_n (sx_nth s 1))
  end.

(* the core of a logger derived from the logger over c.  [ok] is NewIncreaseLevelCore's validation:
   zap.IncreaseLevel (options.go) keeps the core on error *)
Definition derive (ok : world -> core -> enabler -> bool) (w : world) (c : core) (k : Z) (t : level) : core :=
  match k with
  | 0 => with_core c                                     (* l.core = l.core.With(fields) *)
  | 1 => Lazy c                                          (* WrapCore(NewLazyWith(core, fields)) *)
  | 5 => if ok w c (ELvl t) then Filter c (ELvl t) else c
  | 6 | 7 => Hooked c (Z.to_nat t)                       (* l.core = RegisterHooks(l.core, hook t): a NEW
                                                            hooked core; the hook list of c is a value *)
  | _ => c                                               (* clone(): the same core *)
  end.

Definition world_of (cells : sx) : world := fun a => sx_z (nth a (sx_l cells) (SZ 0)).
Definition is_io (obs : list nat) (id : nat) : bool := negb (existsb (Nat.eqb id) obs).
Definition count (id : nat) (l : list nat) : nat := length (filter (Nat.eqb id) l).

Definition enc_event (x : writer) : sx :=
  match x with WLeaf i => SL [SZ 0; of_nat i] | WHook h => SL [SZ 1; of_nat h] end.
Definition dec_event (s : sx) : writer :=
  if sx_z (sx_nth s 0) =? 0 then WLeaf (sx_n (sx_nth s 1)) else WHook (sx_n (sx_nth s 1)).
Definition visible (obs : list nat) (x : writer) : bool :=
  match x with WLeaf i => is_io obs i | WHook _ => true end.

(* state carried along a history: the cells, the current logger's core, the cores of all loggers
   derived so far (root first).  [ok] = the validation of NewIncreaseLevelCore, [uv] = the level a
   text stores by a route: the model runs the code's, the oracle the specification's *)
Definition lstate := (world * core * list core)%type.
Definition next_state (ok : world -> core -> enabler -> bool) (uv : Z -> bytes -> option level)
    (w : world) (c : core) (cs : list core) (o : op) : lstate :=
  match o with
  | OSet a v => (set_cell w a v, c, cs)
  | OUpd a r t => (apply_value w a (uv r t), c, cs)
  | ODerive k t => let c' := derive ok w c k t in (w, c', cs ++ [c'])
  | OSel j => (w, nth j cs c, cs)
  | _ => (w, c, cs)
  end.

(* ---------------- the model's observation ---------------- *)
Definition enc_report (dec : decisions) (k : nat) : sx := SL [of_nat k; of_bool (dec k)].
(* the samplers an observation reports as having dropped the entry *)
Definition reported_drop (reports : list sx) : decisions :=
  fun k => existsb (fun r => Nat.eqb (sx_n (sx_nth r 0)) k && sx_bool (sx_nth r 1)) reports.

Definition model_op (obs : list nat) (ps : list (Z * Z)) (st : counters) (w : world) (c : core) (o : op) : sx :=
  match o with
  | OSet _ _ | ODerive _ _ | OSel _ => SL []
  | OUpd a r t =>
      let w' := apply_upd w a r t in
      SL [of_bool (is_some (upd_value r t)); SZ (w' a); SZ (w' a)]
  | OHandle a => SZ (w a)
  | OCall f l =>
      let dec := counter_dec st ps l (msg_class f) in
      let ws := call_writers_s dec w c f l in
      SL [SL (map enc_event (filter (visible obs) ws));
          SL (map (fun id => of_nat (count id (leaves_of ws))) obs);
          of_nat (payload_evals_s dec w c (is_io obs) f l);
          SL (map (enc_report dec) (call_consulted dec w c f l))]
  | OEnabled l => of_bool (enabled w c l)
  | OLevel => SL [SZ (level_of w c); SZ (level_of w c)]
  | OV n => of_bool (grpc_v w c n)
  end.
(* the counters after the operation: every sampler reached by the call has counted the entry *)
Definition next_counters (ps : list (Z * Z)) (st : counters) (w : world) (c : core) (o : op) : counters :=
  match o with
  | OCall f l => let m := msg_class f in bump st (call_consulted (counter_dec st ps l m) w c f l) l m
  | _ => st
  end.
Fixpoint model_ops (obs : list nat) (ps : list (Z * Z)) (st : counters) (w : world) (c : core) (cs : list core)
    (ops : list op) : list sx :=
  match ops with
  | [] => []
  | o :: r => model_op obs ps st w c o ::
              (let '(w', c', cs') := next_state increase_ok upd_value w c cs o in
               model_ops obs ps (next_counters ps st w c o) w' c' cs' r)
  end.

Definition model (i : sx) : sx :=
  let w0 := world_of (sx_nth i 1) in
  let obs := map sx_n (sx_l (sx_nth i 2)) in
  let '(c, nerr) := build_with increase_ok w0 (sx_nth i 0) in
  SL [of_nat nerr; SL (model_ops obs (sparams (sx_nth i 0)) (fun _ _ _ => 0) w0 c [c] (map dec_op (sx_l (sx_nth i 3))))].

(* ---------------- the oracle ---------------- *)
Fixpoint nat_list_eqb (a b : list nat) : bool :=
  match a, b with
  | [], [] => true
  | x :: a', y :: b' => Nat.eqb x y && nat_list_eqb a' b'
  | _, _ => false
  end.

(* NewIncreaseLevelCore must reject exactly the enablers that allow a valid level at which the
   wrapped core delivers nothing *)
Definition spec_increase_ok (w : world) (c : core) (en : enabler) : bool :=
  forallb (fun l => negb (on w en l) || accepts w c l) valid_levels.

(* the reported level v is consistent with delivery: nothing is delivered at a valid level below
   it, and if it is a valid level something is delivered at it *)
Definition level_ok_b (w : world) (c : core) (v : level) : bool :=
  forallb (fun l => negb (l <? v) || negb (accepts w c l)) valid_levels &&
  (negb (is_valid v) || accepts w c v).
Definition cells_in_range_b (w : world) (c : core) : bool :=
  forallb (fun a => (min_level <=? w a) && (w a <=? InvalidL)) (cells c).

Definition spec_op (obs : list nat) (w : world) (c : core) (o : op) (x : sx) : bool :=
  match o with
  | OSet _ _ | ODerive _ _ | OSel _ => true
  | OUpd a r t =>
      (* the route succeeds exactly on a level name; afterwards every handle of the cell - the one
         used and the one the cores were built from - reads what the text names (the old value when
         it names nothing) *)
      let w' := spec_apply_upd w a r t in
      Bool.eqb (sx_bool (sx_nth x 0)) (is_some (spec_upd_value r t)) &&
      Z.eqb (sx_z (sx_nth x 1)) (w' a) && Z.eqb (sx_z (sx_nth x 2)) (w' a)
  | OHandle a => Z.eqb (sx_z x) (w a)
  | OCall f l =>
      let ws := map dec_event (sx_l (sx_nth x 0)) in
      (* the samplers that reported a drop during this call; the leaves beneath them are excused *)
      let dec := reported_drop (sx_l (sx_nth x 3)) in
      let d := delivered_s dec w c 0 l in
      let ev := sx_n (sx_nth x 2) in
      let fields := if carries_fields f then length (filter (is_io obs) d) else 0%nat in
      (* every IO leaf on an enabled path, in tree order, and no other *)
      nat_list_eqb (leaves_of ws) (filter (is_io obs) d) &&
      (* every observer leaf as often as it lies on an enabled path *)
      nat_list_eqb (map sx_n (sx_l (sx_nth x 1))) (map (fun id => count id d) obs) &&
      (* hooks: once per hooked core whose wrapped core accepts, never otherwise *)
      nat_list_eqb (hooks_of ws) (hooks_due_s dec w c 0 l) &&
      (* payload evaluations: one marshalling per IO leaf written; the message is formatted once
         when the level is enabled (a sampler may still drop the entry afterwards), never when it is
         disabled below DPanic (from DPanic upwards a disabled call may still build the message for
         the terminal action) *)
      (if accepts w c l then Nat.eqb ev (fields + (if formats_message f then 1 else 0))
       else if l <? DPanicL then Nat.eqb ev 0
       else Nat.leb ev (if formats_message f then 1 else 0))
  | OEnabled l => Bool.eqb (sx_bool x) (accepts w c l)
  | OLevel =>
      let v := sx_z (sx_nth x 0) in
      Z.eqb v (sx_z (sx_nth x 1)) && level_ok_b w c v &&
      (negb (cells_in_range_b w c) || Z.eqb v (min_delivered w c))
  | OV n => Bool.eqb (sx_bool x) (accepts w c (grpc_level n))
  end.
Fixpoint spec_ops (obs : list nat) (w : world) (c : core) (cs : list core) (ops : list op) (xs : list sx) : bool :=
  match ops, xs with
  | [], [] => true
  | o :: r, x :: xs' =>
      spec_op obs w c o x &&
      (let '(w', c', cs') := next_state spec_increase_ok spec_upd_value w c cs o in spec_ops obs w' c' cs' r xs')
  | _, _ => false
  end.

Definition spec (i o : sx) : bool :=
  let w0 := world_of (sx_nth i 1) in
  let obs := map sx_n (sx_l (sx_nth i 2)) in
  let '(c, nerr) := build_with spec_increase_ok w0 (sx_nth i 0) in
  Nat.eqb (sx_n (sx_nth o 0)) nerr &&
  spec_ops obs w0 c [c] (map dec_op (sx_l (sx_nth i 3))) (sx_l (sx_nth o 1)).

(* ---------------- sibling loggers: hook lists are values ---------------- *)
(* Any number of loggers derived from each other (root = number 0), in any order, by the derive kinds
   above, and calls through any of them at any time.  Model: every derivation builds a new core VALUE
   from the core of the logger it starts from ([derive]); nothing that happens later - in particular a
   second registration on the same parent - touches a core built earlier. *)
Inductive sop :=
| SDerive (j : nat) (k : Z) (t : level)   (* logger number (length so far) := derive kind k of logger j *)
| SCall (j : nat) (f : fam) (l : level).  (* a call through logger j *)

Fixpoint srun (w : world) (root : core) (cs : list core) (ops : list sop) : list (list nat * list nat) :=
  match ops with
  | [] => []
  | SDerive j k t :: r => srun w root (cs ++ [derive increase_ok w (nth j cs root) k t]) r
  | SCall j f l :: r =>
      let ws := call_writers w (nth j cs root) f l in (leaves_of ws, hooks_of ws) :: srun w root cs r
  end.

(* Specification, written without cores: a logger IS the list of hook numbers registered on its own
   derivation path from the root, in registration order.  A call through logger j delivers what the
   root delivers, fires the hooks of the root's tree that are due and then - iff the entry is
   accepted - exactly the hooks on j's own path, once each, and no hook of any sibling. *)
Definition registers_hook (k : Z) : bool := (k =? 6) || (k =? 7).
Definition keeps_delivery (o : sop) : bool :=
  match o with SDerive _ k _ => negb (k =? 5) | SCall _ _ _ => true end.
Fixpoint sspec (w : world) (root : core) (ps : list (list nat)) (ops : list sop) : list (list nat * list nat) :=
  match ops with
  | [] => []
  | SDerive j k t :: r =>
      sspec w root (ps ++ [if registers_hook k then nth j ps [] ++ [Z.to_nat t] else nth j ps []]) r
  | SCall j f l :: r =>
      (delivered w root l, hooks_due w root l ++ (if accepts w root l then nth j ps [] else [])) :: sspec w root ps r
  end.

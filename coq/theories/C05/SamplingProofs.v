(* C05: proofs about samplers that really drop (C05/Sampling.v).  The call-time tree [resolve]
   (dropping samplers replaced by the no-op core) carries the theorems of C05/CoreProofs.v over
   to [check_s] for EVERY decision function. *)
From Coq Require Import List Bool ZArith Lia Arith.
Import ListNotations.
From Zap Require Import C05.Cores C05.CoreProofs C05.Sampling.
Open Scope Z_scope.

(* ---------------- unfolding equations for the tee ---------------- *)
Definition tee_list (c : core) : list core := match c with Tee cs => cs | _ => [] end.
Lemma check_s_tee_nil dec w k l e : check_s dec w (Tee []) k l e = e.
Proof. reflexivity. Qed.
Lemma check_s_tee_cons dec w c r k l e :
  check_s dec w (Tee (c :: r)) k l e = check_s dec w (Tee r) (k + nsamp c) l (check_s dec w c k l e).
Proof. reflexivity. Qed.
Lemma consulted_tee_cons dec w c r k l :
  consulted dec w (Tee (c :: r)) k l = consulted dec w c k l ++ consulted dec w (Tee r) (k + nsamp c) l.
Proof. reflexivity. Qed.
Lemma resolve_tee_nil dec k : resolve dec (Tee []) k = Tee [].
Proof. reflexivity. Qed.
Lemma resolve_tee_cons dec c r k :
  resolve dec (Tee (c :: r)) k = Tee (resolve dec c k :: tee_list (resolve dec (Tee r) (k + nsamp c))).
Proof. reflexivity. Qed.
Lemma resolve_tee_is_tee dec r k : resolve dec (Tee r) k = Tee (tee_list (resolve dec (Tee r) k)).
Proof. reflexivity. Qed.
Lemma paths_s_tee_cons c r k : paths_s (Tee (c :: r)) k = paths_s c k ++ paths_s (Tee r) (k + nsamp c).
Proof. reflexivity. Qed.
Lemma hooks_due_s_tee_cons dec w c r k l :
  hooks_due_s dec w (Tee (c :: r)) k l = hooks_due_s dec w c k l ++ hooks_due_s dec w (Tee r) (k + nsamp c) l.
Proof. reflexivity. Qed.
Lemma enabled_tee_cons w c r l : enabled w (Tee (c :: r)) l = if enabled w c l then true else enabled w (Tee r) l.
Proof. reflexivity. Qed.
Lemma hooks_due_tee_cons w c r l : hooks_due w (Tee (c :: r)) l = hooks_due w c l ++ hooks_due w (Tee r) l.
Proof. reflexivity. Qed.

(* ---------------- Check leaves the entry alone where nothing is delivered ---------------- *)
Lemma check_noop w c l e : appended w c l = [] -> check w c l e = e.
Proof.
  intros H. destruct e as [d|].
  - pose proof (check_cores w c l (Some d)) as Hc. rewrite H, app_nil_r in Hc. cbn [cores_of] in Hc.
    destruct (check w c l (Some d)) as [d'|] eqn:E.
    + cbn [cores_of] in Hc. rewrite Hc. reflexivity.
    + apply check_none in E. destruct E as [E _]. discriminate E.
  - apply check_none. split; [reflexivity|exact H].
Qed.
Lemma check_disabled w c l e : enabled w c l = false -> check w c l e = e.
Proof. intros H. apply check_noop. apply appended_not_accepted. rewrite <- enabled_accepts. exact H. Qed.

(* ---------------- the call-time tree ---------------- *)
(* dropping only ever disables *)
Lemma enabled_resolve dec w l c : forall k, enabled w (resolve dec c k) l = true -> enabled w c l = true.
Proof.
  induction c as [i en| |cs IH|c h IH|c en IH|c IH|c IH] using core_ind'; intros k.
  - auto.
  - auto.
  - revert k. induction IH as [|c r Hc _ IHr]; intros k; [auto|].
    rewrite resolve_tee_cons.
    change (enabled w (Tee (resolve dec c k :: tee_list (resolve dec (Tee r) (k + nsamp c)))) l)
      with (if enabled w (resolve dec c k) l then true else enabled w (Tee (tee_list (resolve dec (Tee r) (k + nsamp c)))) l).
    rewrite <- resolve_tee_is_tee.
    change (enabled w (Tee (c :: r)) l) with (if enabled w c l then true else enabled w (Tee r) l).
    destruct (enabled w (resolve dec c k) l) eqn:E.
    + intros _. rewrite (Hc k E). reflexivity.
    + intros H. rewrite (IHr _ H). destruct (enabled w c l); reflexivity.
  - cbn [resolve enabled]. apply IH.
  - cbn [resolve enabled]. intros H. apply andb_true_iff in H. destruct H as [H1 H2].
    rewrite H1, (IH k H2). reflexivity.
  - cbn [resolve]. destruct (dec k); cbn [enabled]; [discriminate|apply IH].
  - cbn [resolve enabled]. apply IH.
Qed.

(* Check with the decisions = Check of the call-time tree *)
Lemma check_s_resolve dec w l c : forall k e,
  check_s dec w c k l e = check w (resolve (effective dec l) c k) l e.
Proof.
  induction c as [i en| |cs IH|c h IH|c en IH|c IH|c IH] using core_ind'; intros k e.
  - reflexivity.
  - reflexivity.
  - revert k e. induction IH as [|c r Hc _ IHr]; intros k e; [reflexivity|].
    rewrite check_s_tee_cons, resolve_tee_cons.
    change (check w (Tee (resolve (effective dec l) c k :: tee_list (resolve (effective dec l) (Tee r) (k + nsamp c)))) l e)
      with (check w (Tee (tee_list (resolve (effective dec l) (Tee r) (k + nsamp c)))) l (check w (resolve (effective dec l) c k) l e)).
    rewrite <- resolve_tee_is_tee, <- Hc. apply IHr.
  - cbn [check_s resolve check]. rewrite IH. reflexivity.
  - cbn [check_s resolve check]. destruct (on w en l); cbn [andb]; [|reflexivity].
    destruct (enabled w (resolve (effective dec l) c k) l) eqn:E.
    + rewrite (enabled_resolve _ w l c k E). apply IH.
    + destruct (enabled w c l); [|reflexivity]. rewrite IH. apply check_disabled. exact E.
  - cbn [check_s resolve]. unfold effective at 1.
    destruct (is_valid l) eqn:V; cbn [andb].
    + destruct (dec k).
      * cbn [check]. destruct (enabled w c l); reflexivity.
      * cbn [check]. destruct (enabled w (resolve (effective dec l) c (S k)) l) eqn:E.
        -- rewrite (enabled_resolve _ w l c (S k) E). apply IH.
        -- destruct (enabled w c l); [|reflexivity]. rewrite IH. apply check_disabled. exact E.
    + cbn [check]. destruct (enabled w (resolve (effective dec l) c (S k)) l) eqn:E.
      * rewrite (enabled_resolve _ w l c (S k) E). apply IH.
      * destruct (enabled w c l); [|reflexivity]. rewrite IH. apply check_disabled. exact E.
  - cbn [check_s resolve check]. apply IH.
Qed.

(* ---------------- the specification on the call-time tree ---------------- *)
Lemma delivered_s_tee_cons dec w c r k l :
  delivered_s dec w (Tee (c :: r)) k l = delivered_s dec w c k l ++ delivered_s dec w (Tee r) (k + nsamp c) l.
Proof. unfold delivered_s. rewrite paths_s_tee_cons, filter_app, map_app. reflexivity. Qed.
Lemma delivered_s_leaf dec w i en k l : delivered_s dec w (Leaf i en) k l = if on w en l then [i] else [].
Proof. unfold delivered_s, spath_on. cbn. rewrite !andb_true_r. destruct (on w en l); reflexivity. Qed.
Lemma delivered_s_filter dec w c en k l :
  delivered_s dec w (Filter c en) k l = if on w en l then delivered_s dec w c k l else [].
Proof.
  unfold delivered_s. cbn [paths_s]. induction (paths_s c k) as [|p ps IH]; cbn [map filter].
  - destruct (on w en l); reflexivity.
  - destruct p as [[ens ss] id]. cbn [spath_on forallb].
    destruct (on w en l) eqn:E; cbn [andb].
    + destruct (forallb (fun en0 => on w en0 l) ens && forallb (fun s => negb (dec s)) ss); cbn [map snd]; rewrite IH; reflexivity.
    + exact IH.
Qed.
Lemma delivered_s_sampled dec w c k l :
  delivered_s dec w (Sampled c) k l = if dec k then [] else delivered_s dec w c (S k) l.
Proof.
  unfold delivered_s. cbn [paths_s]. induction (paths_s c (S k)) as [|p ps IH]; cbn [map filter].
  - destruct (dec k); reflexivity.
  - destruct p as [[ens ss] id]. cbn [spath_on forallb].
    destruct (dec k) eqn:E; cbn [negb andb].
    + rewrite andb_false_r. exact IH.
    + destruct (forallb (fun en0 => on w en0 l) ens && forallb (fun s => negb (dec s)) ss); cbn [map snd]; rewrite IH; reflexivity.
Qed.

Lemma delivered_s_resolve dec w l c : forall k, delivered_s dec w c k l = delivered w (resolve dec c k) l.
Proof.
  induction c as [i en| |cs IH|c h IH|c en IH|c IH|c IH] using core_ind'; intros k.
  - rewrite delivered_s_leaf. cbn [resolve]. rewrite delivered_leaf. reflexivity.
  - reflexivity.
  - revert k. induction IH as [|c r Hc _ IHr]; intros k; [reflexivity|].
    rewrite delivered_s_tee_cons, resolve_tee_cons, delivered_tee_cons, <- resolve_tee_is_tee, Hc, IHr. reflexivity.
  - cbn [resolve]. rewrite delivered_hooked, <- IH. reflexivity.
  - cbn [resolve]. rewrite delivered_s_filter, delivered_filter, IH. reflexivity.
  - cbn [resolve]. rewrite delivered_s_sampled. destruct (dec k); [reflexivity|].
    rewrite delivered_sampled. apply IH.
  - cbn [resolve]. rewrite delivered_lazy, <- IH. reflexivity.
Qed.
Lemma accepts_s_resolve dec w l c k : accepts_s dec w c k l = accepts w (resolve dec c k) l.
Proof. unfold accepts_s, accepts. rewrite delivered_s_resolve. reflexivity. Qed.

Lemma hooks_due_s_resolve dec w l c : forall k, hooks_due_s dec w c k l = hooks_due w (resolve dec c k) l.
Proof.
  induction c as [i en| |cs IH|c h IH|c en IH|c IH|c IH] using core_ind'; intros k.
  - reflexivity.
  - reflexivity.
  - revert k. induction IH as [|c r Hc _ IHr]; intros k; [reflexivity|].
    rewrite hooks_due_s_tee_cons, resolve_tee_cons, hooks_due_tee_cons, <- resolve_tee_is_tee, Hc, IHr. reflexivity.
  - cbn [hooks_due_s resolve hooks_due]. rewrite IH, accepts_s_resolve. reflexivity.
  - cbn [hooks_due_s resolve hooks_due]. rewrite IH. reflexivity.
  - cbn [hooks_due_s resolve]. destruct (dec k); [reflexivity|]. cbn [hooks_due]. apply IH.
  - cbn [hooks_due_s resolve hooks_due]. apply IH.
Qed.

(* ---------------- the decisions only matter pointwise ---------------- *)
Lemma resolve_ext dec dec' c : (forall j, dec j = dec' j) -> forall k, resolve dec c k = resolve dec' c k.
Proof.
  intros H. induction c as [i en| |cs IH|c h IH|c en IH|c IH|c IH] using core_ind'; intros k; cbn [resolve]; try reflexivity.
  - revert k. induction IH as [|c r Hc _ IHr]; intros k; [reflexivity|].
    specialize (IHr (k + nsamp c)%nat). injection IHr as IHr. rewrite Hc, IHr. reflexivity.
  - rewrite IH. reflexivity.
  - rewrite IH. reflexivity.
  - rewrite H, IH. reflexivity.
  - rewrite IH. reflexivity.
Qed.
Lemma delivered_s_ext dec dec' w c k l : (forall j, dec j = dec' j) -> delivered_s dec w c k l = delivered_s dec' w c k l.
Proof. intros H. rewrite !delivered_s_resolve, (resolve_ext dec dec' c H). reflexivity. Qed.
Lemma hooks_due_s_ext dec dec' w c k l : (forall j, dec j = dec' j) -> hooks_due_s dec w c k l = hooks_due_s dec' w c k l.
Proof. intros H. rewrite !hooks_due_s_resolve, (resolve_ext dec dec' c H). reflexivity. Qed.

(* no sampler drops: the tree of Cores.v *)
Lemma resolve_no_drop c : forall k, resolve no_drop c k = c.
Proof.
  induction c as [i en| |cs IH|c h IH|c en IH|c IH|c IH] using core_ind'; intros k; cbn [resolve no_drop]; try reflexivity.
  - revert k. induction IH as [|c r Hc _ IHr]; intros k; [reflexivity|].
    specialize (IHr (k + nsamp c)%nat). injection IHr as IHr. rewrite Hc, IHr. reflexivity.
  - rewrite IH. reflexivity.
  - rewrite IH. reflexivity.
  - rewrite IH. reflexivity.
  - rewrite IH. reflexivity.
Qed.
Lemma effective_no_drop l j : effective no_drop l j = no_drop j.
Proof. unfold effective, no_drop. apply andb_false_r. Qed.

Theorem sampler_no_drop_thm w c k l e :
  check_s no_drop w c k l e = check w c l e /\
  delivered_s no_drop w c k l = delivered w c l /\
  hooks_due_s no_drop w c k l = hooks_due w c l.
Proof.
  split; [|split].
  - rewrite check_s_resolve, (resolve_ext _ no_drop c (effective_no_drop l)), resolve_no_drop. reflexivity.
  - rewrite delivered_s_resolve, resolve_no_drop. reflexivity.
  - rewrite hooks_due_s_resolve, resolve_no_drop. reflexivity.
Qed.

(* ---------------- the theorems of CoreProofs.v, with dropping samplers ---------------- *)
(* whatever was registered before stays registered, in place, whatever any sampler decides *)
Theorem sampler_check_keeps_thm dec w c k l e :
  cores_of (check_s dec w c k l e) = cores_of e ++ cores_of (check_s dec w c k l None).
Proof. rewrite !check_s_resolve. apply check_cores. Qed.

Theorem sampler_delivery_thm dec w c k l e :
  leaves_of (cores_of (check_s dec w c k l e)) = leaves_of (cores_of e) ++ delivered_s (effective dec l) w c k l.
Proof. rewrite check_s_resolve, delivery_thm, delivered_s_resolve. reflexivity. Qed.

Theorem sampler_hooks_thm dec w c k l e :
  hooks_of (cores_of (check_s dec w c k l e)) = hooks_of (cores_of e) ++ hooks_due_s (effective dec l) w c k l.
Proof. rewrite check_s_resolve, hooks_thm, hooks_due_s_resolve. reflexivity. Qed.

(* a tee delivers to each branch independently: a drop in one branch takes nothing from another *)
Theorem sampler_tee_independent_thm dec w c r k l :
  delivered_s dec w (Tee []) k l = [] /\
  delivered_s dec w (Tee (c :: r)) k l = delivered_s dec w c k l ++ delivered_s dec w (Tee r) (k + nsamp c) l.
Proof. split; [reflexivity|apply delivered_s_tee_cons]. Qed.

(* a sampler takes away exactly the leaves beneath itself, and only when it drops *)
Theorem sampler_local_thm dec w c k l :
  delivered_s dec w (Sampled c) k l = (if dec k then [] else delivered_s dec w c (S k) l) /\
  incl (delivered_s dec w c k l) (delivered w c l).
Proof.
  split; [apply delivered_s_sampled|].
  revert k. induction c as [i en| |cs IH|c h IH|c en IH|c IH|c IH] using core_ind'; intros k.
  - rewrite delivered_s_leaf, delivered_leaf. apply incl_refl.
  - apply incl_refl.
  - revert k. induction IH as [|c r Hc _ IHr]; intros k; [apply incl_refl|].
    rewrite delivered_s_tee_cons, delivered_tee_cons. apply incl_app.
    + apply incl_appl. apply Hc.
    + apply incl_appr. apply IHr.
  - rewrite delivered_hooked. apply (IH k).
  - rewrite delivered_s_filter, delivered_filter. destruct (on w en l); [apply IH|apply incl_refl].
  - rewrite delivered_s_sampled, delivered_sampled. destruct (dec k); [apply incl_nil_l|apply IH].
  - rewrite delivered_lazy. apply (IH k).
Qed.

(* ---------------- front ends ---------------- *)
Lemma accepts_resolve dec w c k l : accepts w c l = false -> accepts w (resolve dec c k) l = false.
Proof.
  intros H. rewrite <- enabled_accepts in *. destruct (enabled w (resolve dec c k) l) eqn:E; [|reflexivity].
  rewrite (enabled_resolve dec w l c k E) in H. discriminate H.
Qed.

Lemma call_writers_s_eq dec w c f l :
  call_writers_s dec w c f l = appended w (resolve (effective dec l) c 0) l.
Proof.
  unfold call_writers_s, logger_check_s.
  destruct (reaches_check w c f l) eqn:R.
  - destruct ((l <? DPanicL) && negb (enabled w c l)) eqn:E.
    + apply andb_true_iff in E. destruct E as [_ E]. apply negb_true_iff in E. rewrite enabled_accepts in E.
      symmetry. apply appended_not_accepted. apply accepts_resolve. exact E.
    + rewrite check_s_resolve. reflexivity.
  - destruct (accepts w c l) eqn:A.
    + rewrite (reaches_check_accepted w c f l A) in R. discriminate R.
    + symmetry. apply appended_not_accepted. apply accepts_resolve. exact A.
Qed.

Theorem sampler_front_ends_thm dec w c f l :
  leaves_of (call_writers_s dec w c f l) = delivered_s (effective dec l) w c 0 l /\
  hooks_of (call_writers_s dec w c f l) = hooks_due_s (effective dec l) w c 0 l.
Proof.
  rewrite call_writers_s_eq, appended_leaves, appended_hooks, delivered_s_resolve, hooks_due_s_resolve.
  split; reflexivity.
Qed.

(* a disabled entry stays silent whatever the samplers decide *)
Theorem sampler_disabled_silent_thm dec w c io f l :
  enabled w c l = false ->
  call_writers_s dec w c f l = [] /\ (l < DPanicL -> payload_evals_s dec w c io f l = 0%nat).
Proof.
  intros H. assert (Hw : call_writers_s dec w c f l = []).
  { rewrite call_writers_s_eq. apply appended_not_accepted. apply accepts_resolve. rewrite <- enabled_accepts. exact H. }
  split; [exact Hw|]. intros Hl. unfold payload_evals_s. rewrite Hw. cbn [leaves_of flat_map filter length].
  destruct (disabled_silent_thm w c io f l H) as [_ Hp]. specialize (Hp Hl). unfold payload_evals in Hp.
  destruct (formats_message f && reaches_check w c f l); [lia|]. destruct (carries_fields f); reflexivity.
Qed.

(* With (which re-wraps a sampler around the same counters) changes nothing *)
Lemma nsamp_with_core c : nsamp (with_core c) = nsamp c.
Proof.
  induction c as [i en| |cs IH|c h IH|c en IH|c IH|c IH] using core_ind'; cbn [with_core nsamp]; try reflexivity; try exact IH.
  - induction IH as [|c r Hc _ IHr]; [reflexivity|]. cbn [map]. rewrite Hc, IHr. reflexivity.
  - rewrite IH. reflexivity.
Qed.
Lemma resolve_with_core dec c : forall k, resolve dec (with_core c) k = with_core (resolve dec c k).
Proof.
  induction c as [i en| |cs IH|c h IH|c en IH|c IH|c IH] using core_ind'; intros k; cbn [with_core resolve]; try reflexivity.
  - revert k. induction IH as [|c r Hc _ IHr]; intros k; [reflexivity|].
    cbn [map]. specialize (IHr (k + nsamp c)%nat). cbn [with_core] in IHr. injection IHr as IHr.
    rewrite nsamp_with_core, Hc, IHr. reflexivity.
  - rewrite IH. reflexivity.
  - rewrite IH. reflexivity.
  - destruct (dec k); [reflexivity|]. cbn [with_core]. rewrite IH. reflexivity.
  - apply IH.
Qed.
Theorem sampler_with_preserves_thm dec w c k l e :
  cores_of (check_s dec w (with_core c) k l e) = cores_of (check_s dec w c k l e).
Proof. rewrite !check_s_resolve, resolve_with_core. apply check_with_core. Qed.

(* ---------------- Check asks only the samplers it reaches ---------------- *)
Lemma check_s_agree dec dec' w l c : forall k e,
  (forall j, In j (consulted dec w c k l) -> dec j = dec' j) ->
  check_s dec w c k l e = check_s dec' w c k l e /\ consulted dec w c k l = consulted dec' w c k l.
Proof.
  induction c as [i en| |cs IH|c h IH|c en IH|c IH|c IH] using core_ind'; intros k e H.
  - split; reflexivity.
  - split; reflexivity.
  - revert k e H. induction IH as [|c r Hc _ IHr]; intros k e H; [split; reflexivity|].
    rewrite !check_s_tee_cons, !consulted_tee_cons in *.
    destruct (Hc k e) as [A1 A2]. { intros j Hj. apply H. apply in_or_app. left. exact Hj. }
    destruct (IHr (k + nsamp c)%nat (check_s dec w c k l e)) as [B1 B2]. { intros j Hj. apply H. apply in_or_app. right. exact Hj. }
    rewrite <- A1, <- A2, B1, B2. split; reflexivity.
  - cbn [check_s consulted] in *. destruct (IH k e H) as [A1 A2]. rewrite A1, A2. split; reflexivity.
  - cbn [check_s consulted] in *. destruct (on w en l && enabled w c l); [apply IH; exact H|split; reflexivity].
  - cbn [check_s consulted] in *. destruct (enabled w c l); [|split; reflexivity].
    destruct (is_valid l).
    + rewrite <- (H k (or_introl eq_refl)). destruct (dec k) eqn:D; [split; reflexivity|].
      destruct (IH (S k) e) as [A1 A2]. { intros j Hj. apply H. right. exact Hj. }
      rewrite A1, A2. split; reflexivity.
    + apply IH. exact H.
  - cbn [check_s consulted] in *. apply IH. exact H.
Qed.
Lemma consulted_valid dec w l c : forall k j, In j (consulted dec w c k l) -> is_valid l = true.
Proof.
  induction c as [i en| |cs IH|c h IH|c en IH|c IH|c IH] using core_ind'; intros k j; cbn [consulted].
  - intros [].
  - intros [].
  - revert k. induction IH as [|c r Hc _ IHr]; intros k; [intros []|].
    intros Hj. apply in_app_or in Hj. destruct Hj as [Hj|Hj]; [apply (Hc k j Hj)|apply (IHr _ Hj)].
  - apply IH.
  - destruct (on w en l && enabled w c l); [apply IH|intros []].
  - destruct (enabled w c l); [|intros []]. destruct (is_valid l); [reflexivity|apply IH].
  - apply IH.
Qed.

Lemma call_writers_s_agree dec dec' w c f l :
  (forall j, In j (call_consulted dec w c f l) -> dec j = dec' j) ->
  call_writers_s dec w c f l = call_writers_s dec' w c f l.
Proof.
  unfold call_consulted, call_writers_s, logger_check_s. intros H.
  destruct (reaches_check w c f l); [|reflexivity].
  destruct ((l <? DPanicL) && negb (enabled w c l)); [reflexivity|].
  destruct (check_s_agree dec dec' w l c 0%nat None H) as [A _]. rewrite A. reflexivity.
Qed.
Lemma call_consulted_valid dec w c f l j : In j (call_consulted dec w c f l) -> is_valid l = true.
Proof.
  unfold call_consulted. destruct (reaches_check w c f l); [|intros []].
  destruct ((l <? DPanicL) && negb (enabled w c l)); [intros []|]. apply consulted_valid.
Qed.

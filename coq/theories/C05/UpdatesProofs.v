(* C05: proofs about the update routes of a shared AtomicLevel (definitions: C05/Updates.v). *)
From Coq Require Import List Bool ZArith Lia Arith.
From Coq.Strings Require Import Byte.
Import ListNotations.
From Zap Require Import Base.Wire C05.Cores C05.CoreProofs C05.Updates.
Open Scope Z_scope.

(* ---------------- the text a route accepts ---------------- *)
Lemma assoc_b_In {A} (t : list (bytes * A)) s v : assoc_b t s = Some v -> In (s, v) t.
Proof.
  induction t as [|[k x] r IH]; cbn [assoc_b]; [discriminate|].
  destruct (bytes_eqb k s) eqn:E.
  - apply bytes_eqb_eq in E. subst k. intros [= ->]. left. reflexivity.
  - intros H. right. exact (IH H).
Qed.

(* the switch of unmarshalText and the table of names hold the same pairs (in another order, plus
   the empty text) *)
Lemma cases_names s : s <> [] -> assoc_b unmarshal_cases s = assoc_b level_names s.
Proof.
  intros Hs. unfold unmarshal_cases, level_names. cbn [assoc_b].
  assert (Hnil : bytes_eqb [] s = false) by (destruct s; [congruence|reflexivity]).
  rewrite Hnil.
  destruct (bytes_eqb s_debug s) eqn:E1; [reflexivity|].
  destruct (bytes_eqb s_info s) eqn:E2; [reflexivity|].
  destruct (bytes_eqb s_warn s) eqn:E3; [reflexivity|].
  destruct (bytes_eqb s_warning s) eqn:E4.
  { apply bytes_eqb_eq in E4. subst s. reflexivity. }
  destruct (bytes_eqb s_error s) eqn:E5; [reflexivity|].
  destruct (bytes_eqb s_dpanic s) eqn:E6; [reflexivity|].
  destruct (bytes_eqb s_panic s) eqn:E7; [reflexivity|].
  destruct (bytes_eqb s_fatal s) eqn:E8; reflexivity.
Qed.

(* every case of the switch is its own lower-casing *)
Lemma cases_lower t v : unmarshal_text t = Some v -> unmarshal_text (ascii_lower t) = Some v.
Proof.
  intros H. apply assoc_b_In in H. unfold unmarshal_cases in H. cbn [In] in H.
  repeat (destruct H as [H|H]; [injection H as <- <-; reflexivity|]). destruct H.
Qed.

Lemma ascii_lower_nil t : ascii_lower t = [] -> t = [].
Proof. destruct t; [reflexivity|discriminate]. Qed.

Theorem upd_value_spec r t : upd_value r t = spec_upd_value r t.
Proof.
  unfold upd_value, spec_upd_value. destruct t as [|b t'].
  - cbn [is_nil]. rewrite andb_true_r. destruct (r =? RPutForm); reflexivity.
  - cbn [is_nil]. rewrite andb_false_r. unfold level_unmarshal_text, spec_parse.
    set (t := b :: t').
    assert (Hl : ascii_lower t <> []) by (intros E; apply ascii_lower_nil in E; discriminate E).
    rewrite <- (cases_names _ Hl). fold (unmarshal_text (ascii_lower t)).
    destruct (unmarshal_text t) as [v|] eqn:E; [|reflexivity].
    symmetry. apply cases_lower. exact E.
Qed.

Lemma upd_result_spec u : upd_result u = spec_upd_result u.
Proof. destruct u as [v|r t]; [reflexivity|apply upd_value_spec]. Qed.

Lemma spec_apply_upd_eq w a r t b : spec_apply_upd w a r t b = apply_value w a (spec_upd_value r t) b.
Proof. unfold spec_apply_upd, apply_value. destruct (spec_upd_value r t); reflexivity. Qed.

(* ---------------- histories ---------------- *)
Lemma ulatest_snoc_call hc w0 pre k f l a : ulatest hc w0 (pre ++ [UCall k f l]) a = ulatest hc w0 pre a.
Proof. unfold ulatest. rewrite rev_app_distr. reflexivity. Qed.

Lemma ulatest_snoc_upd hc w0 pre h u b :
  ulatest hc w0 (pre ++ [UUpd h u]) b = apply_value (ulatest hc w0 pre) (hc h) (upd_result u) b.
Proof.
  rewrite upd_result_spec. unfold ulatest at 1. rewrite rev_app_distr. cbn [rev app find hits].
  destruct (spec_upd_result u) as [v|] eqn:E; cbn [is_some apply_value].
  - unfold set_cell. rewrite andb_true_r. destruct (Nat.eqb (hc h) b); [rewrite E|]; reflexivity.
  - rewrite andb_false_r. reflexivity.
Qed.

Lemma apply_value_ext w w' a o : (forall b, w b = w' b) -> forall b, apply_value w a o b = apply_value w' a o b.
Proof. intros H b. destruct o as [v|]; cbn [apply_value]; [unfold set_cell; destruct (Nat.eqb a b); [reflexivity|apply H]|apply H]. Qed.

Theorem update_history_thm hc cs ops : forall w0 pre w,
  (forall a, w a = ulatest hc w0 pre a) ->
  map (fun ws => (leaves_of ws, hooks_of ws)) (urun hc w cs ops) = uspec hc w0 cs pre ops.
Proof.
  induction ops as [|o r IH]; intros w0 pre w Hw; [reflexivity|].
  destruct o as [h u|k f l]; cbn [urun uspec map].
  - apply IH. intros b. rewrite ulatest_snoc_upd. apply apply_value_ext. exact Hw.
  - rewrite logger_delivery_thm, logger_hooks_thm.
    rewrite (delivered_ext w (ulatest hc w0 pre) _ l Hw), (hooks_due_ext w (ulatest hc w0 pre) l _ Hw).
    f_equal. apply IH. intros b. rewrite ulatest_snoc_call. apply Hw.
Qed.

(* the cells after a history hold what the latest successful update of each stored *)
Lemma ufinal_latest hc ops : forall w0 pre w,
  (forall a, w a = ulatest hc w0 pre a) -> forall a, ufinal hc w ops a = ulatest hc w0 (pre ++ ops) a.
Proof.
  induction ops as [|o r IH]; intros w0 pre w Hw a; [rewrite app_nil_r; apply Hw|].
  replace (pre ++ o :: r) with ((pre ++ [o]) ++ r) by (rewrite <- app_assoc; reflexivity).
  destruct o as [h u|k f l]; cbn [ufinal]; apply IH; intros b.
  - rewrite ulatest_snoc_upd. apply apply_value_ext. exact Hw.
  - rewrite ulatest_snoc_call. apply Hw.
Qed.

Lemma level_ok_ext w w' c v : (forall a, w a = w' a) -> level_ok w c v -> level_ok w' c v.
Proof.
  intros H [Ha Hb]. split.
  - intros l Hv Hl. rewrite <- (delivered_ext w w' c l H). apply Ha; assumption.
  - intros Hv. rewrite <- (delivered_ext w w' c v H). apply Hb. exact Hv.
Qed.
Lemma cells_in_range_ext w w' c : (forall a, w a = w' a) -> cells_in_range w' c -> cells_in_range w c.
Proof. intros H R a Hin. rewrite H. apply R. exact Hin. Qed.

(* after any history of updates, what every derived logger reports agrees with what it delivers
   under the latest value of each cell *)
Theorem update_queries_thm hc w0 ops c :
  let w := ufinal hc w0 ops in
  let wl := ulatest hc w0 ops in
  (forall l, enabled w c l = true <-> delivered wl c l <> []) /\
  level_ok wl c (level_of w c) /\
  (cells_in_range wl c -> level_of w c = min_delivered wl c) /\
  (forall n, grpc_v w c n = true <-> delivered wl c (grpc_level n) <> []).
Proof.
  intros w wl.
  assert (H : forall a, w a = wl a).
  { intros a. unfold w, wl. apply (ufinal_latest hc ops w0 [] w0). intros b. reflexivity. }
  split; [|split; [|split]].
  - intros l. rewrite enabled_accepts, <- (delivered_ext w wl c l H). apply accepts_true.
  - apply (level_ok_ext w wl c _ H). apply level_consistent_thm.
  - intros R. rewrite (level_exact_thm w c (cells_in_range_ext w wl c H R)).
    (* first_valid over pointwise equal predicates *)
    unfold min_delivered, first_valid. assert (E : forall ls, find (accepts w c) ls = find (accepts wl c) ls).
    { induction ls as [|x r IH]; [reflexivity|]. cbn [find]. rewrite (accepts_ext w wl c x H), IH. reflexivity. }
    rewrite E. reflexivity.
  - intros n. unfold grpc_v. rewrite enabled_accepts, <- (delivered_ext w wl c _ H). apply accepts_true.
Qed.

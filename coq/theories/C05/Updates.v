(* C05: every way the API offers to change a shared AtomicLevel.

   level.go
     type AtomicLevel struct { l *atomic.Int32 }          <- a HANDLE: copies of the struct (the one
                                                             held by an ioCore / observer core, zap.Config.Level,
                                                             the handler registered with a mux, a plain copy)
                                                             share the one cell l points to
     func (lvl AtomicLevel) SetLevel(l zapcore.Level)   { lvl.l.Store(int32(l)) }
     func (lvl *AtomicLevel) UnmarshalText(text []byte) error {
         if lvl.l == nil { lvl.l = &atomic.Int32{} }       <- only the zero value gets storage
         var l zapcore.Level
         if err := l.UnmarshalText(text); err != nil { return err }
         lvl.SetLevel(l); return nil }
   http_handler.go
     ServeHTTP PUT: decodePutRequest (JSON body {"level": ...} decoded into a *zapcore.Level, or the
     form value "level", which must not be empty) then lvl.SetLevel(requestedLvl)
   zapcore/level.go
     Level.UnmarshalText: unmarshalText(text) || unmarshalText(asciiToLower(text))
   flag.TextVar / encoding/json / yaml.v3 call UnmarshalText on the value they are given (a live
   AtomicLevel, or the Level field of a live zap.Config).

   In the model an AtomicLevel handle IS the number of its cell ([EAtom a] in C05/Cores.v): an update
   through any handle, by any route, is an update of the cell - [apply_upd].  The histories below
   make the handles explicit (a table from handle names to cells, any number of handles per cell).
   [spec_upd_value], [ulatest], [uspec] are the specification.  No proof scripts in this file. *)
From Coq Require Import List Bool ZArith Lia.
From Coq.Strings Require Import Byte String.
Import ListNotations.
From Zap Require Import Base.Wire C05.Cores.
Open Scope Z_scope.

Definition lit (s : String.string) : bytes := String.list_byte_of_string s.
Definition s_debug : bytes := Eval compute in lit "debug".
Definition s_info : bytes := Eval compute in lit "info".
Definition s_warn : bytes := Eval compute in lit "warn".
Definition s_warning : bytes := Eval compute in lit "warning".
Definition s_error : bytes := Eval compute in lit "error".
Definition s_dpanic : bytes := Eval compute in lit "dpanic".
Definition s_panic : bytes := Eval compute in lit "panic".
Definition s_fatal : bytes := Eval compute in lit "fatal".
(* texts of the examples in Props/C05.v *)
Definition ex_DEBUG : bytes := Eval compute in lit "DEBUG".
Definition ex_trace : bytes := Eval compute in lit "trace".
Definition ex_WaRnInG : bytes := Eval compute in lit "WaRnInG".
Definition ex_Level2 : bytes := Eval compute in lit "Level(2)".

(* a Go switch over string constants: the first (only) matching case *)
Fixpoint assoc_b {A} (t : list (bytes * A)) (s : bytes) : option A :=
  match t with
  | [] => None
  | (k, v) :: r => if bytes_eqb k s then Some v else assoc_b r s
  end.
Definition is_nil {A} (l : list A) : bool := match l with [] => true | _ => false end.
Definition is_some {A} (o : option A) : bool := match o with Some _ => true | None => false end.

(* ================= the code ================= *)
(* asciiToLower *)
Definition lower_byte (b : byte) : byte :=
  let n := Z_of_byte b in if (65 <=? n) && (n <=? 90) then byte_of_Z (n + 32) else b.
Definition ascii_lower (s : bytes) : bytes := map lower_byte s.

(* func (l *Level) unmarshalText(text []byte) bool: the switch, in its order *)
Definition unmarshal_cases : list (bytes * level) :=
  [(s_debug, DebugL); (s_info, InfoL); ([], InfoL); (s_warn, WarnL); (s_warning, WarnL);
   (s_error, ErrorL); (s_dpanic, DPanicL); (s_panic, PanicL); (s_fatal, FatalL)].
Definition unmarshal_text (t : bytes) : option level := assoc_b unmarshal_cases t.
(* func (l *Level) UnmarshalText: !l.unmarshalText(text) && !l.unmarshalText(asciiToLower(text)) -> error *)
Definition level_unmarshal_text (t : bytes) : option level :=
  match unmarshal_text t with
  | Some v => Some v
  | None => unmarshal_text (ascii_lower t)
  end.

(* the routes by which a text reaches a shared AtomicLevel *)
Definition RUnmarshal : Z := 1.   (* al.UnmarshalText(text) *)
Definition RFlag : Z := 2.        (* flag.TextVar(&al, ..) then FlagSet.Parse/Set: al.UnmarshalText *)
Definition RJson : Z := 3.        (* json.Unmarshal into the live AtomicLevel / the live Config *)
Definition RYaml : Z := 4.        (* yaml.Unmarshal into the live AtomicLevel / the live Config *)
Definition RPutJson : Z := 5.     (* ServeHTTP PUT, body {"level": <text>} *)
Definition RPutForm : Z := 6.     (* ServeHTTP PUT, application/x-www-form-urlencoded level=<text> *)
(* the level a route stores, None = the route reports an error and stores nothing.
   decodePutURL refuses the empty form value before parsing; everything else is Level.UnmarshalText *)
Definition upd_value (r : Z) (t : bytes) : option level :=
  if (r =? RPutForm) && is_nil t then None else level_unmarshal_text t.
(* UnmarshalText / ServeHTTP end in lvl.SetLevel(l) on the shared cell *)
Definition apply_value (w : world) (a : nat) (o : option level) : world :=
  match o with Some v => set_cell w a v | None => w end.
Definition apply_upd (w : world) (a : nat) (r : Z) (t : bytes) : world := apply_value w a (upd_value r t).

(* ================= specification ================= *)
(* the names a level is written with ("debug" .. "fatal", the alias "warning"), in any mix of ASCII
   upper and lower case; the empty text stands for the zero value (info), except in a form *)
Definition level_names : list (bytes * level) :=
  [(s_debug, DebugL); (s_info, InfoL); (s_warn, WarnL); (s_error, ErrorL); (s_dpanic, DPanicL);
   (s_panic, PanicL); (s_fatal, FatalL); (s_warning, WarnL)].
Definition spec_parse (t : bytes) : option level := assoc_b level_names (ascii_lower t).
Definition spec_upd_value (r : Z) (t : bytes) : option level :=
  match t with
  | [] => if r =? RPutForm then None else Some InfoL
  | _ => spec_parse t
  end.
Definition spec_apply_upd (w : world) (a : nat) (r : Z) (t : bytes) : world :=
  match spec_upd_value r t with Some v => fun b => if Nat.eqb a b then v else w b | None => w end.

(* ================= histories over handles ================= *)
Inductive upd :=
| USet (v : Z)                       (* handle.SetLevel(v) *)
| UText (r : Z) (t : bytes).         (* text t through route r *)
Definition upd_result (u : upd) : option level :=
  match u with USet v => Some v | UText r t => upd_value r t end.
Definition spec_upd_result (u : upd) : option level :=
  match u with USet v => Some v | UText r t => spec_upd_value r t end.

Inductive uop :=
| UUpd (h : nat) (u : upd)                   (* an update through handle h *)
| UCall (k : nat) (f : fam) (l : level).     (* a call on the k-th logger derived from the shared cells *)

(* [hc h] = the cell handle h points to *)
Fixpoint urun (hc : nat -> nat) (w : world) (cs : list core) (ops : list uop) : list (list writer) :=
  match ops with
  | [] => []
  | UUpd h u :: r => urun hc (apply_value w (hc h) (upd_result u)) cs r
  | UCall k f l :: r => call_writers w (nth k cs Nop) f l :: urun hc w cs r
  end.
Fixpoint ufinal (hc : nat -> nat) (w : world) (ops : list uop) : world :=
  match ops with
  | [] => w
  | UUpd h u :: r => ufinal hc (apply_value w (hc h) (upd_result u)) r
  | UCall _ _ _ :: r => ufinal hc w r
  end.

(* the value of cell a after a prefix of the history: what the latest update that succeeded, through
   ANY handle of the cell and by ANY route, stored - else the initial value *)
Definition hits (hc : nat -> nat) (a : nat) (o : uop) : bool :=
  match o with
  | UUpd h u => Nat.eqb (hc h) a && is_some (spec_upd_result u)
  | UCall _ _ _ => false
  end.
Definition ulatest (hc : nat -> nat) (w0 : world) (pre : list uop) (a : nat) : Z :=
  match find (hits hc a) (rev pre) with
  | Some (UUpd _ u) => match spec_upd_result u with Some v => v | None => w0 a end
  | _ => w0 a
  end.
Fixpoint uspec (hc : nat -> nat) (w0 : world) (cs : list core) (pre ops : list uop) : list (list nat * list nat) :=
  match ops with
  | [] => []
  | UUpd h u :: r => uspec hc w0 cs (pre ++ [UUpd h u]) r
  | UCall k f l :: r =>
      (delivered (ulatest hc w0 pre) (nth k cs Nop) l, hooks_due (ulatest hc w0 pre) (nth k cs Nop) l)
      :: uspec hc w0 cs (pre ++ [UCall k f l]) r
  end.

(* C05: the wire-level link (oracle accepts the model's observation on every input) and the
   refutations of the full statements on the model of the code before the fix commits.
   The theorems about the core tree itself are in C05/CoreProofs.v. *)
From Coq Require Import List Bool ZArith Lia Arith.
From Coq.Strings Require Import Byte.
Import ListNotations.
From Zap Require Import Base.Wire C05.Cores C05.CoreProofs C05.Sampling C05.SamplingProofs C05.Updates C05.UpdatesProofs C05.Model.
Open Scope Z_scope.

(* ---------------- induction over S-expressions ---------------- *)
Section SxInd.
  Variable P : sx -> Prop.
  Hypothesis HZ : forall z, P (SZ z).
  Hypothesis HB : forall b, P (SB b).
  Hypothesis HL : forall l, Forall P l -> P (SL l).
  Fixpoint sx_ind' (s : sx) : P s :=
    match s with
    | SZ z => HZ z
    | SB b => HB b
    | SL l => HL l ((fix go (l : list sx) : Forall P l :=
                      match l with [] => Forall_nil _ | x :: t => Forall_cons _ (sx_ind' x) (go t) end) l)
    end.
End SxInd.

Lemma forallb_pointwise {A} (f g : A -> bool) l : (forall x, f x = g x) -> forallb f l = forallb g l.
Proof. intros H. induction l as [|x r IH]; [reflexivity|]. cbn [forallb]. rewrite H, IH. reflexivity. Qed.

Lemma spec_increase_ok_eq w c en : increase_ok w c en = spec_increase_ok w c en.
Proof.
  unfold increase_ok, spec_increase_ok. apply forallb_pointwise. intros l.
  rewrite enabled_accepts. destruct (accepts w c l), (on w en l); reflexivity.
Qed.

Lemma build_with_ext ok1 ok2 w :
  (forall w c en, ok1 w c en = ok2 w c en) -> forall s, build_with ok1 w s = build_with ok2 w s.
Proof.
  intros Hok s. induction s as [z|b|l IH] using sx_ind'; [reflexivity|reflexivity|].
  destruct l as [|t args]; [reflexivity|]. destruct t as [tag|?|?]; [|reflexivity|reflexivity].
  apply Forall_inv_tail in IH.
  assert (Hmap : map (build_with ok1 w) args = map (build_with ok2 w) args).
  { induction IH as [|x r Hx _ IHr]; [reflexivity|]. cbn [map]. rewrite Hx, IHr. reflexivity. }
  assert (H1 : forall c, args = [c] -> build_with ok1 w c = build_with ok2 w c).
  { intros c ->. apply (Forall_inv IH). }
  assert (H2 : forall c x, args = [c; x] -> build_with ok1 w c = build_with ok2 w c).
  { intros c x ->. apply (Forall_inv IH). }
  assert (H3 : forall c x y, args = [c; x; y] -> build_with ok1 w c = build_with ok2 w c).
  { intros c x y ->. apply (Forall_inv IH). }
  cbn [build_with].
  destruct tag as [|p|p]; [reflexivity| |reflexivity].
  destruct p as [[[|p|]|[|p|]|]|[[|p|]|[|[|p|]|]|]|]; try reflexivity.
  - (* 7 *) destruct args as [|c [|? ?]]; try reflexivity. rewrite (H1 c eq_refl). reflexivity.
  - (* 5 *) destruct args as [|c [|? ?]]; try reflexivity. rewrite (H1 c eq_refl). reflexivity.
  - (* 3 *) destruct args as [|c [|h [|? ?]]]; try reflexivity. rewrite (H2 c h eq_refl). reflexivity.
  - (* 6 *) destruct args as [|c [|? ?]]; try reflexivity. rewrite (H1 c eq_refl). reflexivity.
  - (* 8 *) destruct args as [|c [|fi [|th [|? ?]]]]; try reflexivity. rewrite (H3 c fi th eq_refl). reflexivity.
  - (* 4 *) destruct args as [|c [|en [|? ?]]]; try reflexivity. rewrite (H2 c en eq_refl).
    destruct (build_with ok2 w c) as [c' n]. rewrite Hok. reflexivity.
  - (* 2 *) rewrite Hmap. reflexivity.
Qed.

(* ---------------- decoding the model's own encoding ---------------- *)
Lemma nat_list_eqb_refl l : nat_list_eqb l l = true.
Proof. induction l as [|x r IH]; [reflexivity|]. cbn [nat_list_eqb]. rewrite Nat.eqb_refl, IH. reflexivity. Qed.
Lemma sx_n_of_nat n : sx_n (of_nat n) = n.
Proof. unfold sx_n, of_nat, sx_z. apply Nat2Z.id. Qed.
Lemma dec_enc_event x : dec_event (enc_event x) = x.
Proof. destruct x as [i|h]; unfold dec_event, enc_event, sx_nth; cbn [sx_l nth sx_z Z.eqb]; rewrite sx_n_of_nat; reflexivity. Qed.
Lemma dec_enc_events ws : map dec_event (map enc_event ws) = ws.
Proof. induction ws as [|x r IH]; [reflexivity|]. cbn [map]. rewrite dec_enc_event, IH. reflexivity. Qed.
Lemma map_sx_n_of_nat {A} (f : A -> nat) l : map sx_n (map (fun a => of_nat (f a)) l) = map f l.
Proof. induction l as [|x r IH]; [reflexivity|]. cbn [map]. rewrite sx_n_of_nat, IH. reflexivity. Qed.

Lemma leaves_of_visible obs ws : leaves_of (filter (visible obs) ws) = filter (is_io obs) (leaves_of ws).
Proof.
  induction ws as [|[i|h] r IH]; [reflexivity| |].
  - cbn [filter visible]. change (leaves_of (WLeaf i :: r)) with (i :: leaves_of r). cbn [filter].
    destruct (is_io obs i); [change (leaves_of (WLeaf i :: filter (visible obs) r)) with (i :: leaves_of (filter (visible obs) r))|]; rewrite IH; reflexivity.
  - cbn [filter visible]. change (leaves_of (WHook h :: filter (visible obs) r)) with (leaves_of (filter (visible obs) r)).
    change (leaves_of (WHook h :: r)) with (leaves_of r). exact IH.
Qed.
Lemma hooks_of_visible obs ws : hooks_of (filter (visible obs) ws) = hooks_of ws.
Proof.
  induction ws as [|[i|h] r IH]; [reflexivity| |].
  - cbn [filter visible]. change (hooks_of (WLeaf i :: r)) with (hooks_of r).
    destruct (is_io obs i); [change (hooks_of (WLeaf i :: filter (visible obs) r)) with (hooks_of (filter (visible obs) r))|]; exact IH.
  - cbn [filter visible]. change (hooks_of (WHook h :: filter (visible obs) r)) with (h :: hooks_of (filter (visible obs) r)).
    change (hooks_of (WHook h :: r)) with (h :: hooks_of r). rewrite IH. reflexivity.
Qed.

Lemma level_ok_b_true w c v : level_ok w c v -> level_ok_b w c v = true.
Proof.
  intros [Ha Hb]. unfold level_ok_b. apply andb_true_iff. split.
  - apply forallb_forall. intros l Hin. apply is_valid_In in Hin.
    destruct (l <? v) eqn:E; [|reflexivity]. apply Z.ltb_lt in E. cbn [negb orb].
    specialize (Ha l Hin E). apply accepts_false in Ha. rewrite Ha. reflexivity.
  - destruct (is_valid v) eqn:E; [|reflexivity]. cbn [negb orb]. apply accepts_true. apply Hb. reflexivity.
Qed.
Lemma cells_in_range_b_true w c : cells_in_range_b w c = true -> cells_in_range w c.
Proof.
  unfold cells_in_range_b, cells_in_range. rewrite forallb_forall. intros H a Hin.
  specialize (H a Hin). apply andb_true_iff in H. rewrite !Z.leb_le in H. exact H.
Qed.

(* the decisions the oracle reads back from the model's own report *)
Lemma sx_bool_of_bool b : sx_bool (of_bool b) = b.
Proof. destruct b; reflexivity. Qed.
Lemma reported_drop_enc dec ks j :
  reported_drop (map (enc_report dec) ks) j = existsb (Nat.eqb j) ks && dec j.
Proof.
  unfold reported_drop. induction ks as [|k r IH]; [reflexivity|].
  cbn [map existsb]. rewrite IH. unfold enc_report, sx_nth. cbn [sx_l nth].
  rewrite sx_n_of_nat, sx_bool_of_bool, (Nat.eqb_sym j k).
  destruct (Nat.eqb k j) eqn:E.
  - apply Nat.eqb_eq in E. subst k. destruct (dec j), (existsb (Nat.eqb j) r); reflexivity.
  - reflexivity.
Qed.
Lemma existsb_eqb_In j ks : existsb (Nat.eqb j) ks = true <-> In j ks.
Proof.
  rewrite existsb_exists. split.
  - intros [x [Hx E]]. apply Nat.eqb_eq in E. subst x. exact Hx.
  - intros H. exists j. split; [exact H|apply Nat.eqb_refl].
Qed.

Lemma spec_model_op obs ps st w c o : spec_op obs w c o (model_op obs ps st w c o) = true.
Proof.
  destruct o as [a v|f l|l| |n|k t|a r t|a|j]; cbn [spec_op model_op]; try reflexivity.
  - unfold sx_nth. cbn [sx_l nth].
    set (dec := counter_dec st ps l (msg_class f)).
    set (dec' := reported_drop (map (enc_report dec) (call_consulted dec w c f l))).
    (* the call asked only the samplers it reports, and those only at a sampled level *)
    assert (Hag : forall j, In j (call_consulted dec w c f l) -> dec j = dec' j).
    { intros j Hj. unfold dec'. rewrite reported_drop_enc.
      apply existsb_eqb_In in Hj. rewrite Hj. reflexivity. }
    assert (Heff : forall j, effective dec' l j = dec' j).
    { intros j. unfold effective. destruct (dec' j) eqn:D; [|apply andb_false_r].
      unfold dec' in D. rewrite reported_drop_enc in D. apply andb_true_iff in D. destruct D as [D _].
      apply existsb_eqb_In in D. rewrite (call_consulted_valid dec w c f l j D). reflexivity. }
    assert (Hws : call_writers_s dec w c f l = call_writers_s dec' w c f l)
      by (apply call_writers_s_agree; exact Hag).
    destruct (sampler_front_ends_thm dec' w c f l) as [HL HH].
    rewrite (delivered_s_ext _ _ w c 0%nat l Heff) in HL. rewrite (hooks_due_s_ext _ _ w c 0%nat l Heff) in HH.
    rewrite <- Hws in HL, HH.
    rewrite dec_enc_events, leaves_of_visible, hooks_of_visible, map_sx_n_of_nat, sx_n_of_nat.
    rewrite HL, HH, !nat_list_eqb_refl. cbn [andb].
    unfold payload_evals_s. rewrite HL.
    destruct (accepts w c l) eqn:A.
    + rewrite (reaches_check_accepted w c f l A), andb_true_r. apply Nat.eqb_eq. lia.
    + assert (delivered_s dec' w c 0 l = []) as ->.
      { apply incl_l_nil. assert (delivered w c l = []) as <- by (apply accepts_false; exact A).
        apply sampler_local_thm. }
      cbn [filter length]. destruct (l <? DPanicL) eqn:E.
      * apply Z.ltb_lt in E.
        assert (formats_message f && reaches_check w c f l = false) as ->.
        { destruct (formats_message f) eqn:F; [|reflexivity]. cbn [andb].
          apply reaches_check_disabled; [destruct f; cbn in F |- *; congruence|exact E|rewrite enabled_accepts; exact A]. }
        destruct (carries_fields f); reflexivity.
      * destruct (formats_message f); cbn [andb]; [|destruct (carries_fields f); reflexivity].
        destruct (reaches_check w c f l), (carries_fields f); reflexivity.
  - rewrite enabled_accepts. unfold of_bool, sx_bool, sx_z. destruct (accepts w c l); reflexivity.
  - unfold sx_nth. cbn [sx_l nth sx_z]. rewrite Z.eqb_refl, (level_ok_b_true _ _ _ (level_consistent_thm w c)). cbn [andb].
    destruct (cells_in_range_b w c) eqn:R; [|reflexivity]. cbn [negb orb].
    apply Z.eqb_eq. apply level_exact_thm. apply cells_in_range_b_true. exact R.
  - unfold grpc_v. rewrite enabled_accepts. unfold of_bool, sx_bool, sx_z. destruct (accepts w c (grpc_level n)); reflexivity.
  - (* an update by a route: the code's parse is the specification's *)
    unfold sx_nth. cbn [sx_l nth sx_z]. rewrite sx_bool_of_bool. unfold apply_upd.
    rewrite !spec_apply_upd_eq, (upd_value_spec r t), eqb_reflx, !Z.eqb_refl. reflexivity.
  - cbn [sx_z]. apply Z.eqb_refl.
Qed.

(* the model's and the oracle's state transitions agree, up to the values of the cells *)
Lemma next_state_spec w c cs o :
  next_state spec_increase_ok spec_upd_value w c cs o = next_state increase_ok upd_value w c cs o.
Proof.
  destruct o as [a v|f l|l| |n|k t|a r t|a|j]; cbn [next_state]; try reflexivity.
  - unfold derive. rewrite <- spec_increase_ok_eq. reflexivity.
  - rewrite upd_value_spec. reflexivity.
Qed.

Lemma spec_model_ops obs ps ops : forall st w c cs, spec_ops obs w c cs ops (model_ops obs ps st w c cs ops) = true.
Proof.
  induction ops as [|o r IH]; intros st w c cs; [reflexivity|]. cbn [spec_ops model_ops].
  rewrite spec_model_op. cbn [andb]. rewrite next_state_spec.
  destruct (next_state increase_ok upd_value w c cs o) as [[w' c'] cs']. apply IH.
Qed.

Theorem spec_model i : spec i (model i) = true.
Proof.
  unfold spec, model.
  rewrite <- (build_with_ext increase_ok spec_increase_ok _ spec_increase_ok_eq).
  destruct (build_with increase_ok (world_of (sx_nth i 1)) (sx_nth i 0)) as [c nerr].
  unfold sx_nth at 1 4. cbn [sx_l nth]. rewrite sx_n_of_nat, Nat.eqb_refl. cbn [andb].
  apply spec_model_ops.
Qed.

(* ================= sibling loggers: hook lists are values ================= *)
Lemma derive_cases ok w c k t :
  derive ok w c k t =
  if k =? 0 then with_core c else if k =? 1 then Lazy c
  else if k =? 5 then (if ok w c (ELvl t) then Filter c (ELvl t) else c)
  else if registers_hook k then Hooked c (Z.to_nat t) else c.
Proof.
  destruct k as [|p|p]; [reflexivity| |reflexivity].
  do 3 (try destruct p as [p|p|]); reflexivity.
Qed.

(* what a logger's core must satisfy to BE the hook path p over the root *)
Definition is_path (w : world) (root c : core) (p : list nat) : Prop :=
  forall l, delivered w c l = delivered w root l /\
            hooks_due w c l = hooks_due w root l ++ (if accepts w root l then p else []).

Lemma is_path_root w root : is_path w root root [].
Proof. intros l. split; [reflexivity|]. destruct (accepts w root l); rewrite app_nil_r; reflexivity. Qed.

Lemma is_path_derive w root c p k t :
  (k =? 5) = false -> is_path w root c p ->
  is_path w root (derive increase_ok w c k t) (if registers_hook k then p ++ [Z.to_nat t] else p).
Proof.
  intros K5 HP. rewrite derive_cases, K5.
  destruct (k =? 0) eqn:K0.
  { apply Z.eqb_eq in K0. subst k. cbn [registers_hook Z.eqb orb]. intros l.
    rewrite delivered_with_core, hooks_due_with_core. apply HP. }
  destruct (k =? 1) eqn:K1.
  { apply Z.eqb_eq in K1. subst k. cbn [registers_hook Z.eqb orb]. intros l. apply (HP l). }
  destruct (registers_hook k); [|exact HP].
  intros l. destruct (HP l) as [HD HH]. split; [exact HD|].
  cbn [hooks_due]. rewrite HH. unfold accepts at 1. change (delivered w (Hooked c (Z.to_nat t)) l) with (delivered w c l).
  unfold accepts. rewrite HD. rewrite <- app_assoc. f_equal.
  destruct (delivered w root l); [reflexivity|reflexivity].
Qed.

Lemma is_path_nth w root cs ps :
  Forall2 (is_path w root) cs ps -> forall j, is_path w root (nth j cs root) (nth j ps []).
Proof.
  intros H. induction H as [|c p cs ps Hc _ IH]; intros j.
  - destruct j; apply is_path_root.
  - destruct j; [exact Hc|apply IH].
Qed.

Lemma Forall2_snoc {A B} (R : A -> B -> Prop) l1 l2 a b :
  Forall2 R l1 l2 -> R a b -> Forall2 R (l1 ++ [a]) (l2 ++ [b]).
Proof. intros H Hab. apply Forall2_app; [exact H|constructor; [exact Hab|constructor]]. Qed.

Theorem sibling_hooks_gen w root ops : forall cs ps,
  Forall (fun o => keeps_delivery o = true) ops ->
  Forall2 (is_path w root) cs ps ->
  srun w root cs ops = sspec w root ps ops.
Proof.
  induction ops as [|o r IH]; intros cs ps HK HI; [reflexivity|].
  inversion HK as [|o' r' Ho Hr]; subst o' r'.
  destruct o as [j k t|j f l]; cbn [srun sspec].
  - apply IH; [exact Hr|]. apply Forall2_snoc; [exact HI|].
    cbn [keeps_delivery] in Ho. apply negb_true_iff in Ho.
    apply is_path_derive; [exact Ho|apply is_path_nth; exact HI].
  - rewrite logger_delivery_thm, logger_hooks_thm.
    destruct (is_path_nth w root cs ps HI j l) as [HD HH]. rewrite HD, HH.
    f_equal. apply IH; assumption.
Qed.

Theorem sibling_hooks_thm w root ops :
  Forall (fun o => keeps_delivery o = true) ops ->
  srun w root [root] ops = sspec w root [[]] ops.
Proof.
  intros HK. apply sibling_hooks_gen; [exact HK|]. constructor; [apply is_path_root|constructor].
Qed.

(* registering one more hook on a core: the hooks that were due before, then the new one iff the
   entry is accepted - whatever else was derived from the same core *)
Theorem hook_registration_thm w c h l e :
  hooks_of (cores_of (check w (Hooked c h) l e)) =
  hooks_of (cores_of e) ++ hooks_due w c l ++ (if accepts w c l then [h] else []).
Proof. rewrite hooks_thm. reflexivity. Qed.

(* a step of a wire history never changes a logger derived earlier: derivation only appends *)
Theorem derivation_appends ok uv w c cs o :
  exists tl, snd (next_state ok uv w c cs o) = cs ++ tl.
Proof.
  destruct o; cbn [next_state snd]; try (exists []; rewrite app_nil_r; reflexivity).
  eexists. reflexivity.
Qed.

(* ================= the code before the fixes: the full statements fail ================= *)
Definition w0 : world := fun _ => 0.

(* (#7) hooked.Check tested [downstream != nil]: after an accepting tee branch the entry passed in
   is already non-nil, so the hooks of a declining core fire *)
Definition hook_once_orig_full : Prop :=
  forall w c l, hooks_of (cores_of (check_orig w c l None)) = hooks_due w c l.
Definition hook_witness : core := Tee [Leaf 0 (ELvl DebugL); Hooked (Leaf 1 (ELvl ErrorL)) 7].
Lemma hook_once_orig_refuted : ~ hook_once_orig_full.
Proof. intros H. specialize (H w0 hook_witness InfoL). vm_compute in H. discriminate H. Qed.

(* (#6) multiCore.Level started its minimum at _maxLevel: a tee with every branch disabled
   reports FatalLevel although nothing is delivered at fatal *)
Definition level_consistent_orig_full : Prop :=
  forall w c, level_ok w c (level_of_orig w c).
Definition never : enabler := EFn (fun _ => false).
Definition tee_witness : core := Tee [Leaf 0 never; Leaf 1 never].
Lemma tee_level_orig_refuted : ~ level_consistent_orig_full.
Proof.
  intros H. destruct (H w0 tee_witness) as [_ Hb]. vm_compute in Hb. apply Hb; reflexivity.
Qed.

(* (#8) levelFilterCore.Enabled answered from its own enabler only; NewIncreaseLevelCore validates
   the valid levels only, so at an out-of-range level the filter claims to be enabled while the
   wrapped core rejects the entry *)
Definition enabled_orig_full : Prop :=
  forall w c l, enabled_orig w c l = accepts w c l.
Definition valid_only : enabler := EFn is_valid.
Definition always : enabler := EFn (fun _ => true).
Definition filter_witness : core := Filter (Leaf 0 valid_only) always.
Lemma filter_witness_constructible :
  forallb (fun l => negb (negb (enabled_orig w0 (Leaf 0 valid_only) l) && on w0 always l)) valid_levels = true.
Proof. vm_compute. reflexivity. Qed.
Lemma filter_enabled_orig_refuted : ~ enabled_orig_full.
Proof. intros H. specialize (H w0 filter_witness 100). vm_compute in H. discriminate H. Qed.

(* (new) levelFilterCore.Level returned LevelOf(c.level): once a shared AtomicLevel below the filter
   is raised, the logger keeps reporting the filter's level although nothing is delivered at it *)
Definition stale_witness : core := Filter (Leaf 0 (EAtom 0)) (ELvl WarnL).
Lemma stale_witness_constructible :
  forallb (fun l => negb (negb (enabled_orig w0 (Leaf 0 (EAtom 0)) l) && on w0 (ELvl WarnL) l)) valid_levels = true.
Proof. vm_compute. reflexivity. Qed.
Definition stale_world : world := set_cell w0 0%nat ErrorL.        (* ... then SetLevel(error) *)
Lemma filter_level_orig_refuted :
  level_of_orig stale_world stale_witness = WarnL /\ delivered stale_world stale_witness WarnL = [] /\
  ~ level_ok stale_world stale_witness (level_of_orig stale_world stale_witness).
Proof.
  split; [reflexivity|]. split; [reflexivity|]. intros [_ Hb]. vm_compute in Hb. apply Hb; reflexivity.
Qed.
(* the repaired code on the same witnesses *)
Lemma witnesses_fixed :
  hooks_of (cores_of (check w0 hook_witness InfoL None)) = [] /\
  level_of w0 tee_witness = InvalidL /\
  enabled w0 filter_witness 100 = false /\
  level_of stale_world stale_witness = ErrorL.
Proof. vm_compute. repeat split; reflexivity. Qed.

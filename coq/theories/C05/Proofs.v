(* C05 — stub *)
From Zap Require Import Base.Wire C05.Model.

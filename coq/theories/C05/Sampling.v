(* C05: samplers that really drop, on the core tree of C05/Cores.v.

   zapcore/sampler.go
     func (s *sampler) Check(ent Entry, ce *CheckedEntry) *CheckedEntry {
         if !s.Enabled(ent.Level) { return ce }
         if ent.Level >= _minLevel && ent.Level <= _maxLevel {
             counter := s.counts.get(ent.Level, ent.Message)
             n := counter.IncCheckReset(ent.Time, s.tick)
             if n > s.first && (s.thereafter == 0 || (n-s.first)%s.thereafter != 0) {
                 s.hook(ent, LogDropped)
                 return ce                      <- the entry PASSED IN, with whatever is registered on it
             }
             s.hook(ent, LogSampled)
         }
         return s.Core.Check(ent, ce)
     }
   [Cores.check] models the sampler by its level gate alone (it never drops).  Here every
   [Sampled] node of a tree is numbered by its pre-order position (the first one of the tree
   handed to the functions below is number [k]) and a decision function [dec] says, for the
   call at hand, which samplers' counters answer "drop".  WHICH entries a sampler drops is
   C11's business and is left arbitrary in every theorem; C05's business is what a drop may
   touch: nothing but the sampler's own subtree.  The wire model (C05/Model.v) instantiates
   [dec] with the counters of sampler.go (one goroutine, one tick).

   [paths_s], [delivered_s], [accepts_s], [hooks_due_s] are the specification (root-to-leaf
   paths with the level filters AND the samplers on them); they never call [check_s].
   No proof scripts in this file. *)
From Coq Require Import List Bool ZArith Lia.
Import ListNotations.
From Zap Require Import C05.Cores.
Open Scope Z_scope.

Definition decisions := nat -> bool.      (* true: sampler number k drops this entry *)

(* number of sampler nodes of a tree *)
Fixpoint nsamp (c : core) : nat :=
  match c with
  | Leaf _ _ => 0
  | Nop => 0
  | Tee cs => (fix go (cs : list core) : nat := match cs with [] => 0 | c :: r => nsamp c + go r end) cs
  | Hooked c _ => nsamp c
  | Filter c _ => nsamp c
  | Sampled c => S (nsamp c)
  | Lazy c => nsamp c
  end%nat.

(* ================= the code ================= *)
(* Check.  Enabled is promoted from the embedded Core everywhere ([Cores.enabled]): a sampler
   that is about to drop still answers Enabled = true. *)
Fixpoint check_s (dec : decisions) (w : world) (c : core) (k : nat) (l : level) (e : ce) {struct c} : ce :=
  match c with
  | Leaf id en => if on w en l then add (WLeaf id) e else e
  | Nop => e
  | Tee cs => (fix go (cs : list core) (k : nat) (e : ce) : ce :=
                 match cs with [] => e | c :: r => go r (k + nsamp c)%nat (check_s dec w c k l e) end) cs k e
  | Hooked c h =>
      match check_s dec w c k l e with
      | Some d => if (length (cores_of e) <? length d)%nat then add (WHook h) (Some d) else Some d
      | None => e
      end
  | Filter c en => if on w en l && enabled w c l then check_s dec w c k l e else e
  | Sampled c =>
      if enabled w c l then
        if is_valid l then
          if dec k then e                               (* s.hook(ent, LogDropped); return ce *)
          else check_s dec w c (S k) l e                (* s.hook(ent, LogSampled); s.Core.Check(ent, ce) *)
        else check_s dec w c (S k) l e                  (* out-of-range level: not sampled *)
      else e
  | Lazy c => check_s dec w c k l e
  end.

(* the samplers whose counter this Check increments (and whose hook reports a decision), in
   the order in which they are reached *)
Fixpoint consulted (dec : decisions) (w : world) (c : core) (k : nat) (l : level) {struct c} : list nat :=
  match c with
  | Leaf _ _ => []
  | Nop => []
  | Tee cs => (fix go (cs : list core) (k : nat) : list nat :=
                 match cs with [] => [] | c :: r => consulted dec w c k l ++ go r (k + nsamp c)%nat end) cs k
  | Hooked c _ => consulted dec w c k l
  | Filter c en => if on w en l && enabled w c l then consulted dec w c k l else []
  | Sampled c =>
      if enabled w c l then
        if is_valid l then k :: (if dec k then [] else consulted dec w c (S k) l)
        else consulted dec w c (S k) l
      else []
  | Lazy c => consulted dec w c k l
  end.

(* Logger.check and the front ends (Cores.logger_check / call_writers with the dropping sampler) *)
Definition logger_check_s (dec : decisions) (w : world) (c : core) (l : level) : ce :=
  if (l <? DPanicL) && negb (enabled w c l) then None else check_s dec w c 0 l None.
Definition call_writers_s (dec : decisions) (w : world) (c : core) (f : fam) (l : level) : list writer :=
  if reaches_check w c f l then cores_of (logger_check_s dec w c l) else [].
Definition call_consulted (dec : decisions) (w : world) (c : core) (f : fam) (l : level) : list nat :=
  if reaches_check w c f l then
    if (l <? DPanicL) && negb (enabled w c l) then [] else consulted dec w c 0 l
  else [].
(* user payload evaluations: the message is built as soon as the guards pass (they ask the
   promoted Enabled, which knows nothing of sampling); fields are marshalled per IO leaf written *)
Definition payload_evals_s (dec : decisions) (w : world) (c : core) (io : nat -> bool) (f : fam) (l : level) : nat :=
  ((if formats_message f && reaches_check w c f l then 1 else 0)
   + (if carries_fields f then length (filter io (leaves_of (call_writers_s dec w c f l))) else 0))%nat.

(* ================= specification (independent of check_s) ================= *)
(* every root-to-leaf path: the level filters on it, the samplers on it, the leaf *)
Definition spath := (list enabler * list nat * nat)%type.
Fixpoint paths_s (c : core) (k : nat) {struct c} : list spath :=
  match c with
  | Leaf id en => [([en], [], id)]
  | Nop => []
  | Tee cs => (fix go (cs : list core) (k : nat) : list spath :=
                 match cs with [] => [] | c :: r => paths_s c k ++ go r (k + nsamp c)%nat end) cs k
  | Hooked c _ => paths_s c k
  | Filter c en => map (fun p : spath => let '(ens, ss, id) := p in (en :: ens, ss, id)) (paths_s c k)
  | Sampled c => map (fun p : spath => let '(ens, ss, id) := p in (ens, k :: ss, id)) (paths_s c (S k))
  | Lazy c => paths_s c k
  end.
Definition spath_on (dec : decisions) (w : world) (l : level) (p : spath) : bool :=
  let '(ens, ss, _) := p in
  forallb (fun en => on w en l) ens && forallb (fun s => negb (dec s)) ss.
(* the leaves that must receive the entry: every level filter on the path enables the level and
   no sampler on the path drops the entry *)
Definition delivered_s (dec : decisions) (w : world) (c : core) (k : nat) (l : level) : list nat :=
  map (fun p : spath => snd p) (filter (spath_on dec w l) (paths_s c k)).
Definition accepts_s (dec : decisions) (w : world) (c : core) (k : nat) (l : level) : bool :=
  match delivered_s dec w c k l with [] => false | _ => true end.

(* hooks that must fire: once per hooked core whose wrapped core delivers somewhere, provided
   every filter above enables the level and no sampler above drops *)
Fixpoint hooks_due_s (dec : decisions) (w : world) (c : core) (k : nat) (l : level) {struct c} : list nat :=
  match c with
  | Leaf _ _ => []
  | Nop => []
  | Tee cs => (fix go (cs : list core) (k : nat) : list nat :=
                 match cs with [] => [] | c :: r => hooks_due_s dec w c k l ++ go r (k + nsamp c)%nat end) cs k
  | Hooked c h => hooks_due_s dec w c k l ++ (if accepts_s dec w c k l then [h] else [])
  | Filter c en => if on w en l then hooks_due_s dec w c k l else []
  | Sampled c => if dec k then [] else hooks_due_s dec w c (S k) l
  | Lazy c => hooks_due_s dec w c k l
  end.

(* a sampler only samples the levels _minLevel.._maxLevel: the decision that counts *)
Definition effective (dec : decisions) (l : level) : decisions := fun k => is_valid l && dec k.
Definition no_drop : decisions := fun _ => false.

(* the tree a call sees once the decisions are known: a dropping sampler contributes nothing and
   returns the entry it was given, like the no-op core (proof device, CoreProofs' theorems are
   transported along it) *)
Fixpoint resolve (dec : decisions) (c : core) (k : nat) {struct c} : core :=
  match c with
  | Leaf id en => Leaf id en
  | Nop => Nop
  | Tee cs => Tee ((fix go (cs : list core) (k : nat) : list core :=
                      match cs with [] => [] | c :: r => resolve dec c k :: go r (k + nsamp c)%nat end) cs k)
  | Hooked c h => Hooked (resolve dec c k) h
  | Filter c en => Filter (resolve dec c k) en
  | Sampled c => if dec k then Nop else Sampled (resolve dec c (S k))
  | Lazy c => Lazy (resolve dec c k)
  end.

(* ---------------- the counters of one sampler tree (one goroutine, within one tick) ---------------- *)
(* n > s.first && (s.thereafter == 0 || (n-s.first)%s.thereafter != 0) *)
Definition drop_at (n first thereafter : Z) : bool :=
  (first <? n) && ((thereafter =? 0) || negb ((n - first) mod thereafter =? 0)).
(* counts.get(level, message): [m] names the message (distinct messages of the harness fall into
   distinct buckets) *)
Definition counters := nat -> level -> nat -> Z.
Definition counter_dec (st : counters) (ps : list (Z * Z)) (l : level) (m : nat) : decisions :=
  fun k => let '(fi, th) := nth k ps (1073741824, 0) in drop_at (st k l m + 1) fi th.
Definition bump (st : counters) (ks : list nat) (l : level) (m : nat) : counters :=
  fun k l' m' => if existsb (Nat.eqb k) ks && (l' =? l) && Nat.eqb m' m then st k l' m' + 1 else st k l' m'.

(* Shared model of zap's core tree (used by C05 and C06), following the Go text of
     zapcore/core.go        ioCore.{Enabled,Level,Check}, nopCore
     zaptest/observer       contextObserver.{Level,Check}           (same shape as ioCore)
     zapcore/tee.go         NewTee, multiCore.{Level,Enabled,Check,With}
     zapcore/hook.go        hooked.{Level,Check}
     zapcore/increase_level.go  NewIncreaseLevelCore, levelFilterCore.{Enabled,Level,Check}
     zapcore/sampler.go     sampler.{Level,Check}   (level gate only: first = infinity, never drops)
     zapcore/lazy_with.go   lazyWithCore.{Check,With}   (no Level method: LevelOf scans)
     zapcore/level.go       Level.Enabled, LevelOf
     level.go               AtomicLevel.{Enabled,Level,SetLevel}, LevelEnablerFunc
     zapcore/entry.go       CheckedEntry.AddCore  (nil receiver allocates)
     logger.go              Logger.check (the [lvl < DPanicLevel] pre-check), Logger.Level
     sugar.go / zapgrpc     the guards in front of Logger.check
   The definitions named [.._orig] follow the code BEFORE the fix commits (kept as the
   documentation of the defects: see the [.._refuted] lemmas in C05/Proofs.v); the unsuffixed
   ones follow the repaired code.  No proof scripts in this file. *)
From Coq Require Import List Bool ZArith Lia.
Import ListNotations.
Open Scope Z_scope.

(* ---------------- levels ---------------- *)
Definition level := Z.                 (* zapcore.Level is an int8; nothing below needs the range *)
Definition DebugL : level := -1.
Definition InfoL : level := 0.
Definition WarnL : level := 1.
Definition ErrorL : level := 2.
Definition DPanicL : level := 3.
Definition PanicL : level := 4.
Definition FatalL : level := 5.
Definition min_level : level := DebugL.
Definition max_level : level := FatalL.
Definition InvalidL : level := 6.      (* _maxLevel + 1 *)
(* for lvl := _minLevel; lvl <= _maxLevel; lvl++ *)
Definition valid_levels : list level := [-1; 0; 1; 2; 3; 4; 5].
Definition is_valid (l : level) : bool := (min_level <=? l) && (l <=? max_level).

(* ---------------- enablers ---------------- *)
Definition world := nat -> Z.          (* the value of every AtomicLevel cell *)
Inductive enabler :=
| ELvl (t : level)                     (* a zapcore.Level constant: no Level() method *)
| EAtom (a : nat)                      (* zap.AtomicLevel: reads the cell on every call, has Level() *)
| EFn (f : level -> bool).             (* zap.LevelEnablerFunc: arbitrary, also non-monotone *)

(* Level.Enabled: lvl >= l;  AtomicLevel.Enabled: lvl.Level().Enabled(l) *)
Definition on (w : world) (en : enabler) (l : level) : bool :=
  match en with
  | ELvl t => t <=? l
  | EAtom a => w a <=? l
  | EFn f => f l
  end.

(* the scanning loop of LevelOf *)
Definition first_valid (p : level -> bool) : level :=
  match find p valid_levels with Some l => l | None => InvalidL end.

(* LevelOf(enab): the Level() method when there is one, else the scan *)
Definition level_of_en (w : world) (en : enabler) : level :=
  match en with
  | EAtom a => w a
  | _ => first_valid (on w en)
  end.

(* ---------------- cores ---------------- *)
Inductive core :=
| Leaf (id : nat) (en : enabler)       (* ioCore / observer *)
| Nop                                  (* nopCore *)
| Tee (cs : list core)                 (* multiCore *)
| Hooked (c : core) (h : nat)          (* RegisterHooks(c, funcs...) ; h names the hook set *)
| Filter (c : core) (en : enabler)     (* levelFilterCore *)
| Sampled (c : core)                   (* sampler that never drops: only its level gate *)
| Lazy (c : core).                     (* lazyWithCore *)

Section CoreInd.
  Variable P : core -> Prop.
  Hypothesis HL : forall i en, P (Leaf i en).
  Hypothesis HN : P Nop.
  Hypothesis HT : forall cs, Forall P cs -> P (Tee cs).
  Hypothesis HH : forall c h, P c -> P (Hooked c h).
  Hypothesis HF : forall c en, P c -> P (Filter c en).
  Hypothesis HS : forall c, P c -> P (Sampled c).
  Hypothesis HZ : forall c, P c -> P (Lazy c).
  Fixpoint core_ind' (c : core) : P c :=
    match c with
    | Leaf i en => HL i en
    | Nop => HN
    | Tee cs => HT cs ((fix go (l : list core) : Forall P l :=
                          match l with [] => Forall_nil _ | x :: t => Forall_cons _ (core_ind' x) (go t) end) cs)
    | Hooked c h => HH c h (core_ind' c)
    | Filter c en => HF c en (core_ind' c)
    | Sampled c => HS c (core_ind' c)
    | Lazy c => HZ c (core_ind' c)
    end.
End CoreInd.

(* NewTee: 0 cores -> no-op core, 1 -> the core itself *)
Definition new_tee (cs : list core) : core :=
  match cs with [] => Nop | [c] => c | _ => Tee cs end.

(* Core.With(fields) on the level skeleton (fields are C07's business).  multiCore,
   hooked, levelFilterCore and sampler re-wrap; lazyWithCore.With initialises and
   returns d.Core.With(fields), i.e. the lazy wrapper disappears. *)
Fixpoint with_core (c : core) : core :=
  match c with
  | Leaf id en => Leaf id en
  | Nop => Nop
  | Tee cs => Tee (map with_core cs)
  | Hooked c h => Hooked (with_core c) h
  | Filter c en => Filter (with_core c) en
  | Sampled c => Sampled (with_core c)
  | Lazy c => with_core c
  end.

(* ---------------- CheckedEntry ---------------- *)
Inductive writer := WLeaf (id : nat) | WHook (h : nat).
Definition ce := option (list writer).           (* a nil *CheckedEntry is None *)
Definition cores_of (e : ce) : list writer := match e with None => [] | Some l => l end.
(* AddCore: allocates on a nil receiver, appends *)
Definition add (x : writer) (e : ce) : ce := Some (cores_of e ++ [x]).

(* ================= the repaired code ================= *)

(* Enabled *)
Fixpoint enabled (w : world) (c : core) (l : level) {struct c} : bool :=
  match c with
  | Leaf _ en => on w en l
  | Nop => false
  | Tee cs => (fix go (cs : list core) : bool :=
                 match cs with [] => false | c :: r => if enabled w c l then true else go r end) cs
  | Hooked c _ => enabled w c l                       (* embedded Core *)
  | Filter c en => on w en l && enabled w c l         (* fix: was c.level.Enabled(lvl) alone *)
  | Sampled c => enabled w c l                        (* embedded Core *)
  | Lazy c => enabled w c l                           (* embedded Core *)
  end.

(* Check.  [Lazy]: Check runs on d.Core.With(fields); With never changes the level
   skeleton's behaviour (lemma check_with_core), so the recursion is on c itself. *)
Fixpoint check (w : world) (c : core) (l : level) (e : ce) {struct c} : ce :=
  match c with
  | Leaf id en => if on w en l then add (WLeaf id) e else e
  | Nop => e
  | Tee cs => (fix go (cs : list core) (e : ce) : ce :=
                 match cs with [] => e | c :: r => go r (check w c l e) end) cs e
  | Hooked c h =>
      (* fix: register only when the wrapped core added a core of its own *)
      match check w c l e with
      | Some d => if (length (cores_of e) <? length d)%nat then add (WHook h) (Some d) else Some d
      | None => e
      end
  | Filter c en => if on w en l && enabled w c l then check w c l e else e
  | Sampled c => if enabled w c l then check w c l e else e
  | Lazy c => check w c l e
  end.

(* LevelOf(core) *)
Fixpoint level_of (w : world) (c : core) {struct c} : level :=
  match c with
  | Leaf _ en => level_of_en w en                     (* ioCore.Level = LevelOf(c.LevelEnabler) *)
  | Nop => first_valid (fun _ => false)               (* no Level method: scan *)
  | Tee cs => (fix go (cs : list core) (m : level) : level :=
                 match cs with [] => m
                 | c :: r => go r (if level_of w c <? m then level_of w c else m) end) cs InvalidL
                                                      (* fix: the minimum started at _maxLevel *)
  | Hooked c _ => level_of w c
  | Filter c en => first_valid (fun l => on w en l && enabled w c l)
                                                      (* fix: was LevelOf(c.level) *)
  | Sampled c => level_of w c
  | Lazy c => first_valid (enabled w c)               (* no Level method: scan of the promoted Enabled *)
  end.

(* ================= the code before the fixes ================= *)
Fixpoint enabled_orig (w : world) (c : core) (l : level) {struct c} : bool :=
  match c with
  | Leaf _ en => on w en l
  | Nop => false
  | Tee cs => (fix go (cs : list core) : bool :=
                 match cs with [] => false | c :: r => if enabled_orig w c l then true else go r end) cs
  | Hooked c _ => enabled_orig w c l
  | Filter c en => on w en l                          (* return c.level.Enabled(lvl) *)
  | Sampled c => enabled_orig w c l
  | Lazy c => enabled_orig w c l
  end.

Fixpoint check_orig (w : world) (c : core) (l : level) (e : ce) {struct c} : ce :=
  match c with
  | Leaf id en => if on w en l then add (WLeaf id) e else e
  | Nop => e
  | Tee cs => (fix go (cs : list core) (e : ce) : ce :=
                 match cs with [] => e | c :: r => go r (check_orig w c l e) end) cs e
  | Hooked c h =>
      (* if downstream := h.Core.Check(ent, ce); downstream != nil { return downstream.AddCore(ent, h) }; return ce *)
      match check_orig w c l e with
      | Some d => add (WHook h) (Some d)
      | None => e
      end
  | Filter c en => if on w en l then check_orig w c l e else e
  | Sampled c => if enabled_orig w c l then check_orig w c l e else e
  | Lazy c => check_orig w c l e
  end.

Fixpoint level_of_orig (w : world) (c : core) {struct c} : level :=
  match c with
  | Leaf _ en => level_of_en w en
  | Nop => first_valid (fun _ => false)
  | Tee cs => (fix go (cs : list core) (m : level) : level :=
                 match cs with [] => m
                 | c :: r => go r (if level_of_orig w c <? m then level_of_orig w c else m) end) cs max_level
                                                      (* minLvl := _maxLevel *)
  | Hooked c _ => level_of_orig w c
  | Filter c en => level_of_en w en                   (* LevelOf(c.level) *)
  | Sampled c => level_of_orig w c
  | Lazy c => first_valid (enabled_orig w c)
  end.

(* ---------------- NewIncreaseLevelCore ---------------- *)
(* for l := _maxLevel; l >= _minLevel; l-- { if !core.Enabled(l) && level.Enabled(l) { error } } *)
Definition increase_ok (w : world) (c : core) (en : enabler) : bool :=
  forallb (fun l => negb (negb (enabled w c l) && on w en l)) valid_levels.
Definition new_increase (w : world) (c : core) (en : enabler) : option core :=
  if increase_ok w c en then Some (Filter c en) else None.
(* zap.IncreaseLevel (options.go): on error the core is left unchanged (and a line goes to ErrorOutput) *)
Definition opt_increase (w : world) (c : core) (en : enabler) : core :=
  match new_increase w c en with Some c' => c' | None => c end.

(* ---------------- Logger.check and the front ends ---------------- *)
(* if lvl < DPanicLevel && !log.core.Enabled(lvl) { return nil };  ce := log.core.Check(ent, nil) *)
Definition logger_check (w : world) (c : core) (l : level) : ce :=
  if (l <? DPanicL) && negb (enabled w c l) then None else check w c l None.
Definition logger_check_orig (w : world) (c : core) (l : level) : ce :=
  if (l <? DPanicL) && negb (enabled_orig w c l) then None else check_orig w c l None.

(* zapgrpc Logger.V: l.levelEnabler.Enabled(_grpcToZapLevel[level]); a missing key gives the
   zero Level (info) *)
Definition grpc_level (n : Z) : level :=
  match n with 0 => InfoL | 1 => WarnL | 2 => ErrorL | 3 => FatalL | _ => InfoL end.
Definition grpc_v (w : world) (c : core) (n : Z) : bool := enabled w c (grpc_level n).

(* guards executed before Logger.check is reached *)
Inductive guard :=
| GBelowDPanic      (* sugar.go log/logln: if lvl < DPanicLevel && !Core().Enabled(lvl) { return }
                       zapgrpc printer.Println after the fix *)
| GAlways.          (* zapgrpc Infoln/Warningln/Errorln (and printer.Println before the fix), zapio
                       Writer.Write: nothing happens unless Enabled(lvl) *)
Definition guard_pass (w : world) (c : core) (l : level) (g : guard) : bool :=
  match g with
  | GBelowDPanic => negb (l <? DPanicL) || enabled w c l
  | GAlways => enabled w c l
  end.

(* families of front-end methods; the level is fixed by the method or is a parameter *)
Inductive fam :=
| FLogger        (* Logger.Log/Debug/.../Fatal: check + Write *)
| FCheck         (* Logger.Check(lvl,msg) then ce.Write *)
| FSugar         (* SugaredLogger.Log/Debug/..: s.log(lvl, "", args, nil) *)
| FSugarf        (* ..f *)
| FSugarw        (* ..w *)
| FSugarln       (* ..ln: s.logln *)
| FZapio         (* zapio.Writer.Write: returns early unless Log.Core().Enabled(w.Level), then
                    Writer.log: Log.Check(w.Level, line) then Write *)
| FStdLog        (* NewStdLog/NewStdLogAt/RedirectStdLog*: loggerWriter -> Logger.<Level> *)
| FGrpcDirect    (* zapgrpc Info/Infof/Warning/Warningf/Error/Errorf: delegate.<X> *)
| FGrpcLn        (* zapgrpc Infoln/Warningln/Errorln: levelEnabler guard, then delegate.<X> *)
| FGrpcPrint     (* printer.Print/Printf: Print, Printf, Fatal, Fatalf *)
| FGrpcPrintln.  (* printer.Println: Println, Fatalln *)

Definition guards_of (f : fam) : list guard :=
  match f with
  | FLogger | FCheck | FStdLog => []
  | FZapio => [GAlways]
  | FSugar | FSugarf | FSugarw | FSugarln | FGrpcDirect | FGrpcPrint => [GBelowDPanic]
  | FGrpcLn => [GAlways; GBelowDPanic]
  | FGrpcPrintln => [GBelowDPanic; GBelowDPanic]     (* fix: was [GAlways; GBelowDPanic] *)
  end.
Definition guards_of_orig (f : fam) : list guard :=
  match f with
  | FGrpcPrintln => [GAlways; GBelowDPanic]
  | _ => guards_of f
  end.

(* does a call through family f at level l reach Logger.check? *)
Definition reaches_check (w : world) (c : core) (f : fam) (l : level) : bool :=
  forallb (guard_pass w c l) (guards_of f).

(* the CheckedEntry's core list a call ends up writing to *)
Definition call_writers (w : world) (c : core) (f : fam) (l : level) : list writer :=
  if reaches_check w c f l then cores_of (logger_check w c l) else [].

Definition leaves_of (ws : list writer) : list nat :=
  flat_map (fun x => match x with WLeaf i => [i] | _ => [] end) ws.
Definition hooks_of (ws : list writer) : list nat :=
  flat_map (fun x => match x with WHook h => [h] | _ => [] end) ws.

(* how often user payloads are evaluated by one call: a Stringer among the Sprint-style
   arguments is formatted once as soon as the guards pass (sugar getMessage / gRPC sprintln);
   a call-site ObjectMarshaler field is marshalled once per IO leaf written (observer
   leaves store the field unmarshalled). [io] says which leaf ids are IO cores. *)
Definition formats_message (f : fam) : bool :=
  match f with
  | FSugar | FSugarf | FSugarln | FGrpcDirect | FGrpcLn | FGrpcPrint | FGrpcPrintln => true
  | _ => false
  end.
Definition carries_fields (f : fam) : bool :=
  match f with FLogger | FCheck | FSugarw => true | _ => false end.
Definition payload_evals (w : world) (c : core) (io : nat -> bool) (f : fam) (l : level) : nat :=
  ((if formats_message f && reaches_check w c f l then 1 else 0)
   + (if carries_fields f then length (filter io (leaves_of (call_writers w c f l))) else 0))%nat.

(* ================= specification (independent of check) ================= *)
(* every root-to-leaf path with the level filters on it *)
Fixpoint paths (c : core) : list (list enabler * nat) :=
  match c with
  | Leaf id en => [([en], id)]
  | Nop => []
  | Tee cs => (fix go (cs : list core) : list (list enabler * nat) :=
                 match cs with [] => [] | c :: r => paths c ++ go r end) cs
  | Hooked c _ => paths c
  | Filter c en => map (fun p => (en :: fst p, snd p)) (paths c)
  | Sampled c => paths c
  | Lazy c => paths c
  end.
Definition path_on (w : world) (l : level) (p : list enabler * nat) : bool :=
  forallb (fun en => on w en l) (fst p).
(* the leaves that must receive an entry of level l: those all of whose filters enable l *)
Definition delivered (w : world) (c : core) (l : level) : list nat :=
  map snd (filter (path_on w l) (paths c)).
Definition accepts (w : world) (c : core) (l : level) : bool :=
  match delivered w c l with [] => false | _ => true end.

(* hooks that must fire: once per hooked core whose wrapped core accepts, provided every
   filter above the hooked core enables the level *)
Fixpoint hooks_due (w : world) (c : core) (l : level) : list nat :=
  match c with
  | Leaf _ _ | Nop => []
  | Tee cs => (fix go (cs : list core) : list nat :=
                 match cs with [] => [] | c :: r => hooks_due w c l ++ go r end) cs
  | Hooked c h => hooks_due w c l ++ (if accepts w c l then [h] else [])
  | Filter c en => if on w en l then hooks_due w c l else []
  | Sampled c => hooks_due w c l
  | Lazy c => hooks_due w c l
  end.

(* the minimum valid level at which something is delivered, InvalidLevel when there is none *)
Definition min_delivered (w : world) (c : core) : level := first_valid (accepts w c).

(* AtomicLevel cells a tree reads *)
Definition en_cells (en : enabler) : list nat := match en with EAtom a => [a] | _ => [] end.
Fixpoint cells (c : core) : list nat :=
  match c with
  | Leaf _ en => en_cells en
  | Nop => []
  | Tee cs => (fix go (cs : list core) : list nat := match cs with [] => [] | c :: r => cells c ++ go r end) cs
  | Hooked c _ => cells c
  | Filter c en => en_cells en ++ cells c
  | Sampled c => cells c
  | Lazy c => cells c
  end.

(* AtomicLevel.SetLevel *)
Definition set_cell (w : world) (a : nat) (v : Z) : world := fun b => if Nat.eqb a b then v else w b.

(* Lemmas about the core tree of C05/Cores.v (shared with C06). *)
From Coq Require Import List Bool ZArith Lia Arith.
Import ListNotations.
From Zap Require Import C05.Cores.
Open Scope Z_scope.

(* ---------------- writers ---------------- *)
Lemma leaves_of_app a b : leaves_of (a ++ b) = leaves_of a ++ leaves_of b.
Proof. unfold leaves_of. apply flat_map_app. Qed.
Lemma hooks_of_app a b : hooks_of (a ++ b) = hooks_of a ++ hooks_of b.
Proof. unfold hooks_of. apply flat_map_app. Qed.

Lemma writers_nil ws : leaves_of ws = [] -> hooks_of ws = [] -> ws = [].
Proof. destruct ws as [|[i|h] r]; cbn; intros H1 H2; [reflexivity|discriminate H1|discriminate H2]. Qed.

Lemma cores_of_add x e : cores_of (add x e) = cores_of e ++ [x].
Proof. reflexivity. Qed.

(* ---------------- the specification's equations ---------------- *)
Lemma delivered_tee_nil w l : delivered w (Tee []) l = [].
Proof. reflexivity. Qed.
Lemma delivered_tee_cons w c r l : delivered w (Tee (c :: r)) l = delivered w c l ++ delivered w (Tee r) l.
Proof. unfold delivered. cbn [paths]. rewrite filter_app, map_app. reflexivity. Qed.
Lemma delivered_tee w cs l : delivered w (Tee cs) l = flat_map (fun c => delivered w c l) cs.
Proof. induction cs as [|c r IH]; [reflexivity|]. rewrite delivered_tee_cons, IH. reflexivity. Qed.

Lemma delivered_filter w c en l :
  delivered w (Filter c en) l = if on w en l then delivered w c l else [].
Proof.
  unfold delivered. cbn [paths]. induction (paths c) as [|p ps IH]; cbn [map filter].
  - destruct (on w en l); reflexivity.
  - unfold path_on at 1. cbn [fst snd forallb]. fold (path_on w l p).
    destruct (on w en l) eqn:E; cbn [andb].
    + destruct (path_on w l p); cbn [map]; rewrite IH; reflexivity.
    + exact IH.
Qed.
Lemma delivered_leaf w i en l : delivered w (Leaf i en) l = if on w en l then [i] else [].
Proof. unfold delivered, path_on. cbn. rewrite andb_true_r. destruct (on w en l); reflexivity. Qed.
Lemma delivered_hooked w c h l : delivered w (Hooked c h) l = delivered w c l.
Proof. reflexivity. Qed.
Lemma delivered_sampled w c l : delivered w (Sampled c) l = delivered w c l.
Proof. reflexivity. Qed.
Lemma delivered_lazy w c l : delivered w (Lazy c) l = delivered w c l.
Proof. reflexivity. Qed.
Lemma delivered_nop w l : delivered w Nop l = [].
Proof. reflexivity. Qed.

Lemma accepts_tee_cons w c r l : accepts w (Tee (c :: r)) l = accepts w c l || accepts w (Tee r) l.
Proof. unfold accepts. rewrite delivered_tee_cons. destruct (delivered w c l); reflexivity. Qed.
Lemma accepts_filter w c en l : accepts w (Filter c en) l = on w en l && accepts w c l.
Proof. unfold accepts. rewrite delivered_filter. destruct (on w en l); reflexivity. Qed.
Lemma accepts_false w c l : accepts w c l = false <-> delivered w c l = [].
Proof. unfold accepts. destruct (delivered w c l); split; congruence. Qed.
Lemma accepts_true w c l : accepts w c l = true <-> delivered w c l <> [].
Proof. unfold accepts. destruct (delivered w c l); split; congruence. Qed.

(* ---------------- Enabled agrees with delivery, for every level value ---------------- *)
Lemma enabled_accepts w l c : enabled w c l = accepts w c l.
Proof.
  induction c as [i en| |cs IH|c h IH|c en IH|c IH|c IH] using core_ind'; cbn [enabled].
  - unfold accepts. rewrite delivered_leaf. destruct (on w en l); reflexivity.
  - reflexivity.
  - induction IH as [|c r Hc _ IHr]; [reflexivity|].
    rewrite accepts_tee_cons, <- IHr, Hc. destruct (accepts w c l); reflexivity.
  - exact IH.
  - rewrite accepts_filter, IH. reflexivity.
  - exact IH.
  - exact IH.
Qed.

(* ---------------- Check ---------------- *)
Lemma check_tee_cons w c r l e : check w (Tee (c :: r)) l e = check w (Tee r) l (check w c l e).
Proof. reflexivity. Qed.

(* what Check appends to the entry's core list *)
Definition appended (w : world) (c : core) (l : level) : list writer := cores_of (check w c l None).

(* Check never drops what is already registered, and what it appends does not depend on it.
   A nil entry stays nil exactly when nothing is appended. *)
Lemma check_shape w l c : forall e,
  cores_of (check w c l e) = cores_of e ++ appended w c l /\
  (check w c l e = None <-> e = None /\ appended w c l = []).
Proof.
  unfold appended.
  induction c as [i en| |cs IH|c h IH|c en IH|c IH|c IH] using core_ind'; intros e; cbn [check].
  - destruct (on w en l).
    + cbn [cores_of add app]. split; [reflexivity|]. split; [discriminate|]. intros [_ H]. discriminate H.
    + cbn [cores_of]. rewrite app_nil_r. split; [reflexivity|]. split; [intros ->; auto|intros [-> _]; reflexivity].
  - cbn [cores_of]. rewrite app_nil_r. split; [reflexivity|]. split; [intros ->; auto|intros [-> _]; reflexivity].
  - revert e. induction IH as [|c r Hc _ IHr]; intros e.
    + cbn [cores_of]. rewrite app_nil_r. split; [reflexivity|]. split; [intros ->; auto|intros [-> _]; reflexivity].
    + change (check w (Tee (c :: r)) l e) with (check w (Tee r) l (check w c l e)).
      change (check w (Tee (c :: r)) l None) with (check w (Tee r) l (check w c l None)).
      destruct (IHr (check w c l e)) as [A1 A2]. destruct (IHr (check w c l None)) as [B1 B2].
      destruct (Hc e) as [C1 C2]. cbn [check] in *.
      split.
      * rewrite A1, C1, B1. rewrite app_assoc. reflexivity.
      * rewrite A2, C2. split.
        -- intros [[-> H1] H2]. split; [reflexivity|]. rewrite B1, H1, H2. reflexivity.
        -- intros [-> H]. rewrite B1 in H. apply app_eq_nil in H. destruct H as [H1 H2]. auto.
  - destruct (IH e) as [A1 A2]. destruct (IH None) as [B1 B2]. clear IH B1.
    cbn [cores_of length].
    (* what the hooked core appends to a nil entry *)
    assert (HA : cores_of (match check w c l None with
                           | Some d => if (0 <? length d)%nat then add (WHook h) (Some d) else Some d
                           | None => None end)
                 = match cores_of (check w c l None) with [] => [] | a => a ++ [WHook h] end).
    { destruct (check w c l None) as [[|x d0]|]; reflexivity. }
    rewrite HA. clear HA.
    remember (cores_of (check w c l None)) as A eqn:EA. clear EA.
    destruct (check w c l e) as [d|] eqn:E.
    + cbn [cores_of] in A1. subst d.
      destruct A as [|a A'].
      * rewrite !app_nil_r in *. rewrite Nat.ltb_irrefl. cbn [cores_of].
        split; [reflexivity|]. split; [discriminate|].
        intros [-> _]. destruct A2 as [_ A2]. discriminate A2. auto.
      * assert ((length (cores_of e) <? length (cores_of e ++ a :: A'))%nat = true) as ->.
        { apply Nat.ltb_lt. rewrite app_length. cbn [length]. lia. }
        cbn [cores_of add]. rewrite <- app_assoc.
        split; [reflexivity|]. split; [discriminate|]. intros [_ H]. destruct A'; discriminate H.
    + destruct A2 as [A2 _]. destruct (A2 eq_refl) as [-> ->].
      cbn [cores_of]. split; [reflexivity|]. split; auto.
  - destruct (on w en l && enabled w c l); [apply IH|].
    cbn [cores_of]. rewrite app_nil_r. split; [reflexivity|]. split; [intros ->; auto|intros [-> _]; reflexivity].
  - destruct (enabled w c l); [apply IH|].
    cbn [cores_of]. rewrite app_nil_r. split; [reflexivity|]. split; [intros ->; auto|intros [-> _]; reflexivity].
  - apply IH.
Qed.

Lemma check_cores w c l e : cores_of (check w c l e) = cores_of e ++ appended w c l.
Proof. apply check_shape. Qed.
Lemma check_none w c l e : check w c l e = None <-> e = None /\ appended w c l = [].
Proof. apply check_shape. Qed.

(* equations for what each kind of core appends *)
Lemma appended_leaf w i en l : appended w (Leaf i en) l = if on w en l then [WLeaf i] else [].
Proof. unfold appended. cbn [check]. destruct (on w en l); reflexivity. Qed.
Lemma appended_nop w l : appended w Nop l = [].
Proof. reflexivity. Qed.
Lemma appended_tee_nil w l : appended w (Tee []) l = [].
Proof. reflexivity. Qed.
Lemma appended_tee_cons w c r l : appended w (Tee (c :: r)) l = appended w c l ++ appended w (Tee r) l.
Proof. unfold appended at 1. rewrite check_tee_cons, check_cores. reflexivity. Qed.
Lemma appended_hooked w c h l :
  appended w (Hooked c h) l = match appended w c l with [] => [] | a => a ++ [WHook h] end.
Proof. unfold appended. cbn [check cores_of length]. destruct (check w c l None) as [[|x d0]|]; reflexivity. Qed.
Lemma appended_filter w c en l :
  appended w (Filter c en) l = if on w en l && enabled w c l then appended w c l else [].
Proof. unfold appended. cbn [check]. destruct (on w en l && enabled w c l); reflexivity. Qed.
Lemma appended_sampled w c l : appended w (Sampled c) l = if enabled w c l then appended w c l else [].
Proof. unfold appended. cbn [check]. destruct (enabled w c l); reflexivity. Qed.
Lemma appended_lazy w c l : appended w (Lazy c) l = appended w c l.
Proof. reflexivity. Qed.

(* ---------------- delivery: exactly the leaves all of whose filters enable the level ---------------- *)
Lemma appended_leaves w l c : leaves_of (appended w c l) = delivered w c l.
Proof.
  induction c as [i en| |cs IH|c h IH|c en IH|c IH|c IH] using core_ind'.
  - rewrite appended_leaf, delivered_leaf. destruct (on w en l); reflexivity.
  - reflexivity.
  - induction IH as [|c r Hc _ IHr]; [reflexivity|].
    rewrite appended_tee_cons, leaves_of_app, delivered_tee_cons, Hc, IHr. reflexivity.
  - rewrite appended_hooked, delivered_hooked, <- IH.
    destruct (appended w c l) as [|a A]; [reflexivity|].
    rewrite leaves_of_app. cbn [leaves_of flat_map]. rewrite app_nil_r. reflexivity.
  - rewrite appended_filter, delivered_filter, <- IH.
    destruct (on w en l); cbn [andb]; [|reflexivity].
    destruct (enabled w c l) eqn:E; [reflexivity|].
    rewrite enabled_accepts in E. apply accepts_false in E. rewrite IH, E. reflexivity.
  - rewrite appended_sampled, delivered_sampled, <- IH.
    destruct (enabled w c l) eqn:E; [reflexivity|].
    rewrite enabled_accepts in E. apply accepts_false in E. rewrite IH, E. reflexivity.
  - rewrite appended_lazy, delivered_lazy. exact IH.
Qed.

Theorem delivery_thm w c l e :
  leaves_of (cores_of (check w c l e)) = leaves_of (cores_of e) ++ delivered w c l.
Proof. rewrite check_cores, leaves_of_app, appended_leaves. reflexivity. Qed.

(* nothing delivered -> nothing appended at all (no hook either) *)
Lemma hooks_due_not_accepted w l c : accepts w c l = false -> hooks_due w c l = [].
Proof.
  induction c as [i en| |cs IH|c h IH|c en IH|c IH|c IH] using core_ind'; intros H; cbn [hooks_due]; try reflexivity.
  - induction IH as [|c r Hc _ IHr]; [reflexivity|].
    rewrite accepts_tee_cons in H. apply orb_false_iff in H. destruct H as [H1 H2].
    rewrite (Hc H1), (IHr H2). reflexivity.
  - change (accepts w (Hooked c h) l) with (accepts w c l) in H. rewrite (IH H), H. reflexivity.
  - rewrite accepts_filter in H. destruct (on w en l); [apply IH; exact H|reflexivity].
  - apply IH. exact H.
  - apply IH. exact H.
Qed.

Lemma appended_hooks w l c : hooks_of (appended w c l) = hooks_due w c l.
Proof.
  induction c as [i en| |cs IH|c h IH|c en IH|c IH|c IH] using core_ind'; cbn [hooks_due].
  - rewrite appended_leaf. destruct (on w en l); reflexivity.
  - reflexivity.
  - induction IH as [|c r Hc _ IHr]; [reflexivity|].
    rewrite appended_tee_cons, hooks_of_app, Hc, IHr. reflexivity.
  - rewrite appended_hooked. unfold accepts. rewrite <- appended_leaves, <- IH.
    destruct (appended w c l) as [|a A] eqn:EA; [reflexivity|].
    rewrite hooks_of_app. cbn [hooks_of flat_map app].
    (* a non-empty appended list always contains a leaf: hooks only follow leaves *)
    assert (leaves_of (a :: A) <> []) as Hne.
    { rewrite <- EA, appended_leaves. intros Hd.
      assert (accepts w c l = false) as Hacc by (apply accepts_false; exact Hd).
      pose proof (hooks_due_not_accepted w l c Hacc) as Hh. rewrite <- IH in Hh.
      assert (a :: A = []) as Habs.
      { apply writers_nil; [rewrite <- EA, appended_leaves; exact Hd|exact Hh]. }
      discriminate Habs. }
    destruct (leaves_of (a :: A)); [congruence|reflexivity].
  - rewrite appended_filter, <- IH. destruct (on w en l); cbn [andb]; [|reflexivity].
    destruct (enabled w c l) eqn:E; [reflexivity|].
    rewrite enabled_accepts in E. rewrite IH, (hooks_due_not_accepted w l c E). reflexivity.
  - rewrite appended_sampled, <- IH. destruct (enabled w c l) eqn:E; [reflexivity|].
    rewrite enabled_accepts in E. rewrite IH, (hooks_due_not_accepted w l c E). reflexivity.
  - rewrite appended_lazy. exact IH.
Qed.

Theorem hooks_thm w c l e :
  hooks_of (cores_of (check w c l e)) = hooks_of (cores_of e) ++ hooks_due w c l.
Proof. rewrite check_cores, hooks_of_app, appended_hooks. reflexivity. Qed.

Lemma appended_not_accepted w c l : accepts w c l = false -> appended w c l = [].
Proof.
  intros H. apply writers_nil.
  - rewrite appended_leaves. apply accepts_false. exact H.
  - rewrite appended_hooks. apply hooks_due_not_accepted. exact H.
Qed.

(* ---------------- Logger.check and the front ends ---------------- *)
Lemma logger_check_cores w c l : cores_of (logger_check w c l) = appended w c l.
Proof.
  unfold logger_check. destruct ((l <? DPanicL) && negb (enabled w c l)) eqn:E; [|reflexivity].
  apply andb_true_iff in E. destruct E as [_ E]. apply negb_true_iff in E.
  rewrite enabled_accepts in E. rewrite (appended_not_accepted w c l E). reflexivity.
Qed.

Lemma guard_pass_accepted w c l g : accepts w c l = true -> guard_pass w c l g = true.
Proof. intros H. destruct g; cbn [guard_pass]; rewrite enabled_accepts, H; [apply orb_true_r|reflexivity]. Qed.
Lemma reaches_check_accepted w c f l : accepts w c l = true -> reaches_check w c f l = true.
Proof.
  intros H. unfold reaches_check. apply forallb_forall. intros g _. apply guard_pass_accepted. exact H.
Qed.

Lemma call_writers_eq w c f l : call_writers w c f l = appended w c l.
Proof.
  unfold call_writers. destruct (reaches_check w c f l) eqn:E; [apply logger_check_cores|].
  destruct (accepts w c l) eqn:A.
  - rewrite (reaches_check_accepted w c f l A) in E. discriminate E.
  - symmetry. apply appended_not_accepted. exact A.
Qed.

Theorem logger_delivery_thm w c f l : leaves_of (call_writers w c f l) = delivered w c l.
Proof. rewrite call_writers_eq. apply appended_leaves. Qed.
Theorem logger_hooks_thm w c f l : hooks_of (call_writers w c f l) = hooks_due w c l.
Proof. rewrite call_writers_eq. apply appended_hooks. Qed.

(* a guard below DPanic stops a disabled call before the message is built *)
Lemma reaches_check_disabled w c f l :
  guards_of f <> [] -> l < DPanicL -> enabled w c l = false -> reaches_check w c f l = false.
Proof.
  intros Hg Hl He. unfold reaches_check.
  destruct (guards_of f) as [|g gs]; [congruence|]. cbn [forallb].
  assert (guard_pass w c l g = false) as ->; [|reflexivity].
  destruct g; cbn [guard_pass]; rewrite He; [|reflexivity].
  assert ((l <? DPanicL) = true) as -> by (apply Z.ltb_lt; exact Hl). reflexivity.
Qed.

Theorem disabled_silent_thm w c io f l :
  enabled w c l = false ->
  call_writers w c f l = [] /\ (l < DPanicL -> payload_evals w c io f l = 0%nat).
Proof.
  intros He. assert (accepts w c l = false) as Ha by (rewrite <- enabled_accepts; exact He).
  assert (call_writers w c f l = []) as Hc by (rewrite call_writers_eq; apply appended_not_accepted; exact Ha).
  split; [exact Hc|]. intros Hl. unfold payload_evals. rewrite Hc. cbn [leaves_of flat_map filter length].
  assert (formats_message f && reaches_check w c f l = false) as ->.
  { destruct (formats_message f) eqn:F; [|reflexivity]. cbn [andb].
    apply reaches_check_disabled; [|exact Hl|exact He]. destruct f; cbn in F |- *; congruence. }
  destruct (carries_fields f); reflexivity.
Qed.

(* ---------------- reported levels ---------------- *)
Lemma is_valid_In l : is_valid l = true <-> In l valid_levels.
Proof.
  unfold is_valid, min_level, max_level, DebugL, FatalL, valid_levels. cbn [In].
  rewrite andb_true_iff, !Z.leb_le. lia.
Qed.

Lemma first_valid_spec p :
  (is_valid (first_valid p) = true /\ p (first_valid p) = true /\
   forall l, is_valid l = true -> l < first_valid p -> p l = false) \/
  (first_valid p = InvalidL /\ forall l, is_valid l = true -> p l = false).
Proof.
  unfold first_valid, valid_levels. cbn [find].
  destruct (p (-1)) eqn:E1; [left; repeat split; [exact E1|intros l Hv Hl; apply is_valid_In in Hv; cbn in Hv; lia]|].
  destruct (p 0) eqn:E2; [left; repeat split; [exact E2|intros l Hv Hl; apply is_valid_In in Hv; cbn in Hv; assert (l = -1) as -> by lia; exact E1]|].
  destruct (p 1) eqn:E3; [left; repeat split; [exact E3|intros l Hv Hl; apply is_valid_In in Hv; cbn in Hv;
    assert (l = -1 \/ l = 0) as [-> | ->] by lia; assumption]|].
  destruct (p 2) eqn:E4; [left; repeat split; [exact E4|intros l Hv Hl; apply is_valid_In in Hv; cbn in Hv;
    assert (l = -1 \/ l = 0 \/ l = 1) as [-> | [-> | ->]] by lia; assumption]|].
  destruct (p 3) eqn:E5; [left; repeat split; [exact E5|intros l Hv Hl; apply is_valid_In in Hv; cbn in Hv;
    assert (l = -1 \/ l = 0 \/ l = 1 \/ l = 2) as [-> | [-> | [-> | ->]]] by lia; assumption]|].
  destruct (p 4) eqn:E6; [left; repeat split; [exact E6|intros l Hv Hl; apply is_valid_In in Hv; cbn in Hv;
    assert (l = -1 \/ l = 0 \/ l = 1 \/ l = 2 \/ l = 3) as [-> | [-> | [-> | [-> | ->]]]] by lia; assumption]|].
  destruct (p 5) eqn:E7; [left; repeat split; [exact E7|intros l Hv Hl; apply is_valid_In in Hv; cbn in Hv;
    assert (l = -1 \/ l = 0 \/ l = 1 \/ l = 2 \/ l = 3 \/ l = 4) as [-> | [-> | [-> | [-> | [-> | ->]]]]] by lia; assumption]|].
  right. split; [reflexivity|]. intros l Hv. apply is_valid_In in Hv. cbn in Hv.
  destruct Hv as [<-|[<-|[<-|[<-|[<-|[<-|[<-|[]]]]]]]]; assumption.
Qed.

Lemma first_valid_ext p q : (forall l, p l = q l) -> first_valid p = first_valid q.
Proof. intros H. unfold first_valid, valid_levels. cbn [find]. rewrite !H. reflexivity. Qed.

(* the reported level v is consistent with delivery *)
Definition level_ok (w : world) (c : core) (v : level) : Prop :=
  (forall l, is_valid l = true -> l < v -> delivered w c l = []) /\
  (is_valid v = true -> delivered w c v <> []).

Lemma first_valid_ok w c p : (forall l, p l = accepts w c l) -> level_ok w c (first_valid p).
Proof.
  intros Hp. destruct (first_valid_spec p) as [[Hv [Ht Hb]]|[Hi Hn]]; split.
  - intros l Hl Hlt. apply accepts_false. rewrite <- Hp. apply Hb; assumption.
  - intros _. apply accepts_true. rewrite <- Hp. exact Ht.
  - intros l Hl _. apply accepts_false. rewrite <- Hp. apply Hn. exact Hl.
  - rewrite Hi. cbn. discriminate.
Qed.

Definition tee_min (w : world) (cs : list core) (m : level) : level :=
  fold_left (fun m c => if level_of w c <? m then level_of w c else m) cs m.
Lemma level_of_tee w cs : level_of w (Tee cs) = tee_min w cs InvalidL.
Proof. cbn [level_of]. unfold tee_min. generalize InvalidL. induction cs as [|c r IH]; intros m; [reflexivity|]. cbn [fold_left]. apply IH. Qed.

Lemma tee_min_cons w c r m :
  tee_min w (c :: r) m = tee_min w r (if level_of w c <? m then level_of w c else m).
Proof. reflexivity. Qed.
Lemma tee_min_spec w cs : forall m,
  tee_min w cs m <= m /\ (forall c, In c cs -> tee_min w cs m <= level_of w c) /\
  (tee_min w cs m = m \/ exists c, In c cs /\ tee_min w cs m = level_of w c).
Proof.
  induction cs as [|c r IH]; intros m.
  - unfold tee_min; cbn [fold_left]. split; [lia|]. split; [intros c []|left; reflexivity].
  - rewrite tee_min_cons.
    destruct (level_of w c <? m) eqn:E; [apply Z.ltb_lt in E|apply Z.ltb_ge in E].
    + destruct (IH (level_of w c)) as [H1 [H2 H3]]. split; [lia|]. split.
      * intros c' [<-|Hin]; [exact H1|apply H2; exact Hin].
      * right. destruct H3 as [H3|[c' [Hin H3]]]; [exists c; split; [left; reflexivity|exact H3]|exists c'; split; [right; exact Hin|exact H3]].
    + destruct (IH m) as [H1 [H2 H3]]. split; [exact H1|]. split.
      * intros c' [<-|Hin]; [lia|apply H2; exact Hin].
      * destruct H3 as [H3|[c' [Hin H3]]]; [left; exact H3|right; exists c'; split; [right; exact Hin|exact H3]].
Qed.

Lemma delivered_tee_nil_iff w cs l : delivered w (Tee cs) l = [] <-> forall c, In c cs -> delivered w c l = [].
Proof.
  induction cs as [|c r IH]; [split; [intros _ c []|reflexivity]|].
  rewrite delivered_tee_cons. split.
  - intros H. apply app_eq_nil in H. destruct H as [H1 H2]. intros c' [<-|Hin]; [exact H1|]. apply IH; assumption.
  - intros H. rewrite (H c (or_introl eq_refl)). cbn [app]. apply IH. intros c' Hin. apply H. right. exact Hin.
Qed.

Theorem level_consistent_thm w c : level_ok w c (level_of w c).
Proof.
  induction c as [i en| |cs IH|c h IH|c en IH|c IH|c IH] using core_ind'.
  - assert (Hscan : level_ok w (Leaf i en) (first_valid (on w en))).
    { apply first_valid_ok. intros l. unfold accepts. rewrite delivered_leaf. destruct (on w en l); reflexivity. }
    destruct en as [t|a|f]; cbn [level_of level_of_en]; try exact Hscan.
    split.
    + intros l _ Hl. rewrite delivered_leaf. cbn [on]. assert ((w a <=? l) = false) as -> by (apply Z.leb_gt; exact Hl). reflexivity.
    + intros _. rewrite delivered_leaf. cbn [on]. rewrite Z.leb_refl. discriminate.
  - cbn [level_of]. apply first_valid_ok. reflexivity.
  - rewrite level_of_tee. destruct (tee_min_spec w cs InvalidL) as [H1 [H2 H3]]. split.
    + intros l Hv Hl. apply delivered_tee_nil_iff. intros c Hin.
      rewrite Forall_forall in IH. destruct (IH c Hin) as [Ha _]. apply Ha; [exact Hv|]. specialize (H2 c Hin). lia.
    + intros Hv. destruct H3 as [H3|[c [Hin H3]]].
      * rewrite H3 in Hv. cbn in Hv. discriminate Hv.
      * rewrite Forall_forall in IH. destruct (IH c Hin) as [_ Hb]. rewrite H3 in *.
        intros Hd. apply (Hb Hv). rewrite delivered_tee_nil_iff in Hd. apply Hd. exact Hin.
  - exact IH.
  - cbn [level_of]. apply first_valid_ok. intros l. rewrite accepts_filter, enabled_accepts. reflexivity.
  - exact IH.
  - cbn [level_of]. apply first_valid_ok. intros l. rewrite enabled_accepts. reflexivity.
Qed.

(* uniqueness: a consistent level that is a valid level or InvalidLevel is the minimum *)
Lemma level_ok_unique w c v :
  level_ok w c v -> (is_valid v = true \/ v = InvalidL) -> v = min_delivered w c.
Proof.
  intros [Ha Hb] Hr. unfold min_delivered.
  destruct (first_valid_spec (accepts w c)) as [[Hv [Ht Hbelow]]|[Hi Hn]].
  - set (u := first_valid (accepts w c)) in *.
    destruct Hr as [Hvv| ->].
    + destruct (Z.lt_trichotomy u v) as [Hlt|[Heq|Hgt]]; [|symmetry; exact Heq|].
      * specialize (Ha u Hv Hlt). apply accepts_false in Ha. congruence.
      * specialize (Hbelow v Hvv Hgt). apply accepts_true in Hb; [congruence|exact Hvv].
    + assert (u < InvalidL) as Hlt.
      { unfold is_valid, InvalidL, max_level, FatalL in *. apply andb_true_iff in Hv. destruct Hv as [_ Hv]. apply Z.leb_le in Hv. lia. }
      specialize (Ha u Hv Hlt). apply accepts_false in Ha. congruence.
  - rewrite Hi. destruct Hr as [Hvv| ->]; [|reflexivity].
    specialize (Hb Hvv). apply accepts_true in Hb. rewrite (Hn v Hvv) in Hb. discriminate Hb.
Qed.

Definition cells_in_range (w : world) (c : core) : Prop :=
  forall a, In a (cells c) -> min_level <= w a <= InvalidL.

Lemma first_valid_range p : is_valid (first_valid p) = true \/ first_valid p = InvalidL.
Proof. destruct (first_valid_spec p) as [[H _]|[H _]]; [left|right]; exact H. Qed.

Lemma cells_tee_in c cs a : In c cs -> In a (cells c) -> In a (cells (Tee cs)).
Proof.
  induction cs as [|x r IH]; intros [] Ha; cbn [cells]; apply in_or_app.
  - subst x. left. exact Ha.
  - right. apply IH; assumption.
Qed.

Lemma level_of_range w c : cells_in_range w c -> is_valid (level_of w c) = true \/ level_of w c = InvalidL.
Proof.
  induction c as [i en| |cs IH|c h IH|c en IH|c IH|c IH] using core_ind'; intros Hr.
  - destruct en as [t|a|f]; cbn [level_of level_of_en]; try apply first_valid_range.
    specialize (Hr a (or_introl eq_refl)). unfold is_valid, min_level, max_level, InvalidL, DebugL, FatalL in *.
    destruct (Z.eq_dec (w a) 6) as [E|E]; [right; exact E|left].
    apply andb_true_iff. rewrite !Z.leb_le. lia.
  - apply first_valid_range.
  - rewrite level_of_tee. destruct (tee_min_spec w cs InvalidL) as [_ [_ [H3|[c [Hin H3]]]]].
    + right. exact H3.
    + rewrite H3. rewrite Forall_forall in IH. apply (IH c Hin).
      intros a Ha. apply Hr. apply (cells_tee_in c cs a Hin Ha).
  - apply IH. exact Hr.
  - apply first_valid_range.
  - apply IH. exact Hr.
  - apply first_valid_range.
Qed.

Theorem level_exact_thm w c : cells_in_range w c -> level_of w c = min_delivered w c.
Proof. intros Hr. apply level_ok_unique; [apply level_consistent_thm|apply level_of_range; exact Hr]. Qed.

(* ---------------- With ---------------- *)
Lemma paths_with_core c : paths (with_core c) = paths c.
Proof.
  induction c as [i en| |cs IH|c h IH|c en IH|c IH|c IH] using core_ind'; cbn [with_core paths]; try congruence.
  induction IH as [|c r Hc _ IHr]; [reflexivity|]. cbn [map]. rewrite Hc, IHr. reflexivity.
Qed.
Lemma delivered_with_core w c l : delivered w (with_core c) l = delivered w c l.
Proof. unfold delivered. rewrite paths_with_core. reflexivity. Qed.
Lemma accepts_with_core w c l : accepts w (with_core c) l = accepts w c l.
Proof. unfold accepts. rewrite delivered_with_core. reflexivity. Qed.
Lemma enabled_with_core w c l : enabled w (with_core c) l = enabled w c l.
Proof. rewrite !enabled_accepts. apply accepts_with_core. Qed.
Lemma hooks_due_with_core w l c : hooks_due w (with_core c) l = hooks_due w c l.
Proof.
  induction c as [i en| |cs IH|c h IH|c en IH|c IH|c IH] using core_ind'; cbn [with_core hooks_due]; try congruence.
  - induction IH as [|c r Hc _ IHr]; [reflexivity|]. cbn [map]. rewrite Hc, IHr. reflexivity.
  - rewrite IH, accepts_with_core. reflexivity.
  - rewrite IH. reflexivity.
Qed.
Lemma appended_with_core w l c : appended w (with_core c) l = appended w c l.
Proof.
  induction c as [i en| |cs IH|c h IH|c en IH|c IH|c IH] using core_ind'; cbn [with_core]; try reflexivity.
  - induction IH as [|c r Hc _ IHr]; [reflexivity|]. cbn [map]. rewrite !appended_tee_cons, Hc, IHr. reflexivity.
  - rewrite !appended_hooked, IH. reflexivity.
  - rewrite !appended_filter, IH, enabled_with_core. reflexivity.
  - rewrite !appended_sampled, IH, enabled_with_core. reflexivity.
  - rewrite appended_lazy. exact IH.
Qed.
Theorem check_with_core w c l e : cores_of (check w (with_core c) l e) = cores_of (check w c l e).
Proof. rewrite !check_cores, appended_with_core. reflexivity. Qed.

(* ---------------- NewTee ---------------- *)
Lemma new_tee_delivered w cs l : delivered w (new_tee cs) l = delivered w (Tee cs) l.
Proof.
  destruct cs as [|c [|c' r]]; cbn [new_tee]; try reflexivity.
  rewrite delivered_tee_cons, delivered_tee_nil, app_nil_r. reflexivity.
Qed.
Lemma new_tee_hooks_due w cs l : hooks_due w (new_tee cs) l = hooks_due w (Tee cs) l.
Proof. destruct cs as [|c [|c' r]]; cbn [new_tee hooks_due]; try reflexivity. rewrite app_nil_r. reflexivity. Qed.

(* ---------------- NewIncreaseLevelCore ---------------- *)
Theorem increase_ok_thm w c en :
  increase_ok w c en = true <-> (forall l, is_valid l = true -> on w en l = true -> delivered w c l <> []).
Proof.
  unfold increase_ok. rewrite forallb_forall. split.
  - intros H l Hv Ho. apply is_valid_In in Hv. specialize (H l Hv). rewrite Ho, andb_true_r, negb_involutive in H.
    rewrite enabled_accepts in H. apply accepts_true. exact H.
  - intros H l Hin. apply is_valid_In in Hin. destruct (on w en l) eqn:Ho; [|rewrite andb_false_r; reflexivity].
    specialize (H l Hin Ho). apply accepts_true in H. rewrite enabled_accepts, H. reflexivity.
Qed.

(* a level-increasing wrapper only ever narrows, at every level value *)
Theorem filter_narrows_thm w c en l :
  delivered w (Filter c en) l = (if on w en l then delivered w c l else []) /\
  incl (delivered w (Filter c en) l) (delivered w c l) /\
  (enabled w (Filter c en) l = true -> enabled w c l = true).
Proof.
  split; [apply delivered_filter|]. split.
  - rewrite delivered_filter. destruct (on w en l); [apply incl_refl|apply incl_nil_l].
  - cbn [enabled]. intros H. apply andb_true_iff in H. apply H.
Qed.

(* ---------------- histories of AtomicLevel changes and log calls ---------------- *)
Inductive hop :=
| HSet (a : nat) (v : Z)                 (* AtomicLevel.SetLevel *)
| HCall (k : nat) (f : fam) (l : level). (* a call on the k-th logger derived from the shared cells *)

Fixpoint hrun (w : world) (cs : list core) (ops : list hop) : list (list writer) :=
  match ops with
  | [] => []
  | HSet a v :: r => hrun (set_cell w a v) cs r
  | HCall k f l :: r => call_writers w (nth k cs Nop) f l :: hrun w cs r
  end.

(* the value of a cell after a prefix of the history: the latest SetLevel on it, else the initial one *)
Definition latest (w0 : world) (pre : list hop) (a : nat) : Z :=
  match find (fun o => match o with HSet b _ => Nat.eqb b a | _ => false end) (rev pre) with
  | Some (HSet _ v) => v
  | _ => w0 a
  end.
Fixpoint hspec (w0 : world) (cs : list core) (pre ops : list hop) : list (list nat * list nat) :=
  match ops with
  | [] => []
  | HSet a v :: r => hspec w0 cs (pre ++ [HSet a v]) r
  | HCall k f l :: r =>
      (delivered (latest w0 pre) (nth k cs Nop) l, hooks_due (latest w0 pre) (nth k cs Nop) l)
      :: hspec w0 cs (pre ++ [HCall k f l]) r
  end.

Lemma on_ext w w' en l : (forall a, w a = w' a) -> on w en l = on w' en l.
Proof. intros H. destruct en; cbn [on]; [reflexivity|rewrite H; reflexivity|reflexivity]. Qed.
Lemma delivered_ext w w' c l : (forall a, w a = w' a) -> delivered w c l = delivered w' c l.
Proof.
  intros H. unfold delivered. f_equal. apply filter_ext. intros p. unfold path_on.
  induction (fst p) as [|en r IH]; [reflexivity|]. cbn [forallb]. rewrite IH, (on_ext w w' en l H). reflexivity.
Qed.
Lemma accepts_ext w w' c l : (forall a, w a = w' a) -> accepts w c l = accepts w' c l.
Proof. intros H. unfold accepts. rewrite (delivered_ext w w' c l H). reflexivity. Qed.
Lemma hooks_due_ext w w' l c : (forall a, w a = w' a) -> hooks_due w c l = hooks_due w' c l.
Proof.
  intros H. induction c as [i en| |cs IH|c h IH|c en IH|c IH|c IH] using core_ind'; cbn [hooks_due]; try congruence.
  - induction IH as [|c r Hc _ IHr]; [reflexivity|]. rewrite Hc, IHr. reflexivity.
  - rewrite IH, (accepts_ext w w' c l H). reflexivity.
  - rewrite IH, (on_ext w w' en l H). reflexivity.
Qed.

Lemma latest_snoc_set w0 pre a v b :
  latest w0 (pre ++ [HSet a v]) b = set_cell (latest w0 pre) a v b.
Proof.
  unfold latest, set_cell. rewrite rev_app_distr. cbn [rev app find].
  destruct (Nat.eqb a b); reflexivity.
Qed.
Lemma latest_snoc_call w0 pre k f l b : latest w0 (pre ++ [HCall k f l]) b = latest w0 pre b.
Proof. unfold latest. rewrite rev_app_distr. reflexivity. Qed.

Theorem atomic_history_thm cs ops : forall w0 pre w,
  (forall a, w a = latest w0 pre a) ->
  map (fun ws => (leaves_of ws, hooks_of ws)) (hrun w cs ops) = hspec w0 cs pre ops.
Proof.
  induction ops as [|o r IH]; intros w0 pre w Hw; [reflexivity|].
  destruct o as [a v|k f l]; cbn [hrun hspec map].
  - apply IH. intros b. rewrite latest_snoc_set. unfold set_cell. destruct (Nat.eqb a b); [reflexivity|apply Hw].
  - rewrite logger_delivery_thm, logger_hooks_thm.
    rewrite (delivered_ext w (latest w0 pre) _ l Hw), (hooks_due_ext w (latest w0 pre) l _ Hw).
    f_equal. apply IH. intros b. rewrite latest_snoc_call. apply Hw.
Qed.

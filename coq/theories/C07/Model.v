(* C07 — Logger context is exact and isolated across derived loggers.

   Operational model (follows the Go text):
     logger.go     clone / With / WithLazy / Named / WithOptions(Fields) / Sugar, check
     sugar.go      With / WithLazy / Named / Desugar (delegate to the base Logger)
     options.go    Fields (log.core = log.core.With(fs)), WrapCore
     zapcore/core.go             ioCore.With = clone (encoder Clone) + addFields; Check; Write
     zapcore/console_encoder.go  EncodeEntry / writeContext
     zapcore/tee.go sampler.go hook.go increase_level.go   With = With of the wrapped core(s), re-wrapped
     zapcore/lazy_with.go        lazyWithCore: initOnce, With, Check (sync.Once cell)
     zaptest/observer/observer.go contextObserver.With / Write
   over the shared byte-level encoder model Enc/JsonEnc.v.

   Specification (independent of the above): every logger is its derivation PATH (name segments +
   context items); an entry carries the path's fields, in order, then the call-site fields, under the
   dot-joined non-empty segments; lines are printed from the tree-level semantics Enc/JsonAst.v.

   No proofs in this file. *)
From Coq Require Import List ZArith NArith Bool.
From Coq.Strings Require Import Byte.
Import ListNotations.
From Zap Require Import Base.Wire Enc.Bytes Enc.Decimal Enc.Fields Enc.JsonEnc Enc.JsonAst Enc.WireEnc Enc.Wf.

(* ------------------------------------------------------------------------- *)
(* Fields as the user passes them: static scripts (Enc/Fields.v), or MUTABLE
   marshalers whose output is the value of a world variable at the moment they
   are invoked (the harness: a *int64 shared with the test program).            *)
Inductive sfld :=
| SF (f : fld)
| SMObj (k : bytes)      (* zap.Object(k, m);  m.MarshalLogObject: enc.AddInt64("w", world) *)
| SMInl                  (* zap.Inline(m) *)
| SMArr (k : bytes)      (* zap.Array(k, a);   a.MarshalLogArray: enc.AppendInt64(world) *)
| SMStr (k : bytes).     (* zap.Stringer(k, s); s.String() = decimal world *)
Definition k_w : bytes := [x77].
Definition eval (w : Z) (s : sfld) : fld :=
  match s with
  | SF f => f
  | SMObj k => FObject k (Obj [FInt k_w w] None)
  | SMInl => FInline (Obj [FInt k_w w] None)
  | SMArr k => FArray k (Arr [EInt w] None false)
  | SMStr k => FStringer k (OOk (print_Z w))
  end.
Definition evals (w : Z) (fs : list sfld) : list fld := map (eval w) fs.

(* ------------------------------------------------------------------------- *)
(* The encoder configuration the harness uses for every io core (fixed):
   MessageKey msg, LevelKey level (LowercaseLevelEncoder), NameKey logger (nil
   EncodeName = FullNameEncoder), no time/caller/function/stacktrace key,
   EpochTimeEncoder / SecondsDurationEncoder for time and duration FIELDS,
   default line ending, ConsoleSeparator tab.                                    *)
Definition DOT : byte := x2e.
Definition s_msg : bytes := [x6d; x73; x67].
Definition s_level : bytes := [x6c; x65; x76; x65; x6c].
Definition s_logger : bytes := [x6c; x6f; x67; x67; x65; x72].
Definition s_debug : bytes := [x64; x65; x62; x75; x67].
Definition s_info : bytes := [x69; x6e; x66; x6f].
Definition s_warn : bytes := [x77; x61; x72; x6e].
Definition s_error : bytes := [x65; x72; x72; x6f; x72].
Definition c07_cfg : cfg :=
  {| k_message := s_msg; k_level := s_level; k_time := []; k_name := s_logger;
     k_caller := []; k_function := []; k_stack := [];
     skip_line_ending := false; line_ending := [];
     e_level := SActive; e_time := SActive; e_duration := SActive; e_caller := SNil; e_name := SNil;
     console_sep := [TAB];
     q_layout_escaped := true; q_nil_caller_guard := true |}.
(* LEVELS.  zapcore.Level as its number: Debug -1, Info 0, Warn 1, Error 2 (the levels the programs log at;
   DPanic and above have side effects and are other properties'); thresholds range over every Level.
   A LevelEnabler is a static Level or an AtomicLevel -- a variable of the configuration that the program
   changes with SetLevel between operations, shared by every core built over it and by every core DERIVED
   from those (ioCore.With / contextObserver.With / levelFilterCore.With copy the LevelEnabler, i.e. the
   pointer).  [lenv]: the value of every AtomicLevel, by index.  Like the world [w], the level state is
   carried by the operation that reads it: a logging call [OLog n hi ...] has [hi : lvq] = its own level and
   the values the AtomicLevels have when it is made.  A DERIVATION carries none: no With / WithLazy /
   Named / WithOptions(Fields) / Sugar / Desugar reads a level (see [derive], [pwith], [rwith], [kwith]). *)
Inductive lref := LStat (l : Z) | LAtom (a : nat).
Definition lenv := list Z.
Record lvq := { lv : Z; le : lenv }.
Definition at_lvl (l : Z) : lvq := {| lv := l; le := [] |}.
Definition lresolve (e : lenv) (r : lref) : Z := match r with LStat l => l | LAtom a => nth a e 0%Z end.
(* LowercaseLevelEncoder / Level.String *)
Definition lvl_txt (l : Z) : bytes :=
  if (l <? 0)%Z then s_debug else if (l =? 0)%Z then s_info else if (l =? 1)%Z then s_warn else s_error.
(* the zapcore.Entry built by Logger.check: name, level, message (time is not encoded: no TimeKey) *)
Definition mk_entry (hi : Z) (nm msg : bytes) : entry :=
  {| lvl_text := lvl_txt hi; lvl_string := lvl_txt hi; time_zero := false;
     time_val := {| t_nanos := 0; t_rend := RInt 0 |}; time_col := [];
     name := nm; caller_defined := false; caller_text := []; caller_string := [];
     func := []; message := msg; stack := [] |}.

(* consoleEncoder.EncodeEntry (console_encoder.go), for any configuration: the
   columns the slice encoder collects, fmt.Fprint of each joined by the separator,
   the message, writeContext, the stack, the line ending. *)
Definition senc_nil (s : senc) : bool := match s with SNil => true | _ => false end.
Definition console_cols (c : cfg) (ent : entry) : list bytes :=
  (if negb (is_nil (k_time c)) && negb (senc_nil (e_time c)) && negb (time_zero ent)
   then match e_time c with SActive => [time_col ent] | _ => [] end else []) ++
  (if negb (is_nil (k_level c)) && negb (senc_nil (e_level c))
   then match e_level c with SActive => [lvl_text ent] | _ => [] end else []) ++
  (if negb (is_nil (name ent)) && negb (is_nil (k_name c))
   then match e_name c with SNoop => [] | _ => [name ent] end else []) ++
  (if caller_defined ent then
     (if negb (is_nil (k_caller c)) && negb (senc_nil (e_caller c))
      then match e_caller c with SActive => [caller_text ent] | _ => [caller_string ent] end else []) ++
     (if negb (is_nil (k_function c)) then [func ent] else [])
   else []).
(* addSeparatorIfNecessary *)
Definition add_csep (c : cfg) (line : bytes) : bytes := if is_nil line then line else line ++ console_sep c.
Definition console_line (c : cfg) (ctx : st) (ent : entry) (fs : list fld) : bytes :=
  let line0 := join (console_sep c) (console_cols c ent) in
  let line1 := if negb (is_nil (k_message c)) then add_csep c line0 ++ message ent else line0 in
  (* writeContext: clone of the context encoder (spaced), call-site fields, close namespaces *)
  let cb := buf (close_ns (enc_flds c true fs ctx)) in
  let line2 := if is_nil cb then line1 else add_csep c line1 ++ [LBRACE] ++ cb ++ [RBRACE] in
  let line3 := if negb (is_nil (stack ent)) && negb (is_nil (k_stack c)) then line2 ++ [NL] ++ stack ent else line2 in
  line3 ++ resolved_le c.

(* ------------------------------------------------------------------------- *)
(* Cores.  [pcore]: what Core.With returns (no lazyWithCore inside: every With
   implementation forwards to the wrapped core's With, and lazyWithCore.With
   returns d.Core.With(fields)).  Leaves keep the two things With copies: the
   sink (ioCore.out / contextObserver.logs) and the accumulated context
   (encoder buffer + openNamespaces / context slice).                            *)
Inductive pcore :=
| PIo (console : bool) (sink : nat) (s : st)       (* ioCore over a json / console encoder *)
| PObs (sink : nat) (ctx : list sfld)              (* contextObserver: Fields stored as given *)
| PTee (l : list pcore)                            (* multiCore *)
| PSamp (c : pcore)                                (* sampler (never dropping: first = 2^30), with a SamplerHook *)
| PHook (c : pcore)                                (* hooked *)
| PFilt (thr : lref) (c : pcore).                  (* levelFilterCore{core, level}; the level: static or an AtomicLevel *)

(* the root composition as the harness builds it; [LLazy id] is a lazyWithCore
   whose sync.Once + Core pointer is cell [id] of the store *)
Inductive lcomp :=
| LIo (console : bool) (sink : nat)
| LObs (sink : nat)
| LTee (l : list lcomp)
| LSamp (c : lcomp) | LHook (c : lcomp) | LFilt (thr : lref) (c : lcomp)
| LLazy (id : nat) (fs : list sfld) (c : lcomp).

(* a Logger's core field *)
Inductive kcore :=
| LRoot                                            (* the root composition itself *)
| LPure (p : pcore)                                (* a With result *)
| LLazyW (id : nat) (fs : list sfld) (inner : kcore).   (* NewLazyWith(inner, fs), by Logger.WithLazy *)

(* cells already initialised (Once done): id -> the replaced d.Core *)
Definition store := list (nat * pcore).
Fixpoint lookup {A} (id : nat) (l : list (nat * A)) : option A :=
  match l with
  | [] => None
  | (k, v) :: r => if Nat.eqb k id then Some v else lookup id r
  end.

(* Core.With on With results *)
Fixpoint pwith (w : Z) (fs : list sfld) (p : pcore) : pcore :=
  match p with
  | PIo co k s => PIo co k (enc_flds c07_cfg co (evals w fs) s)   (* clone: Clone copies the bytes; addFields *)
  | PObs k ctx => PObs k (ctx ++ fs)                                     (* append(ctx[:len:len], fields...) *)
  | PTee l => PTee (map (pwith w fs) l)
  | PSamp c => PSamp (pwith w fs c)
  | PHook c => PHook (pwith w fs c)
  | PFilt thr c => PFilt thr (pwith w fs c)   (* &levelFilterCore{c.core.With(fields), c.level}: no validation, no level read *)
  end.

(* lazyWithCore.initOnce: d.Once.Do(func() { d.core = d.originalCore.With(d.fields) }); returns d.core *)
Definition init_once (force : store -> pcore * store) (id : nat) (sg : store) : pcore * store :=
  match lookup id sg with
  | Some p => (p, sg)
  | None => let '(p, sg') := force sg in (p, (id, p) :: sg')
  end.

(* Core.With on the root composition (leaves are in their initial state) *)
Fixpoint rwith (w : Z) (fs : list sfld) (c : lcomp) (sg : store) {struct c} : pcore * store :=
  match c with
  | LIo co k => (pwith w fs (PIo co k empty), sg)
  | LObs k => (pwith w fs (PObs k []), sg)
  | LTee l =>
      let '(l', sg') :=
        (fix go (l : list lcomp) (sg : store) {struct l} : list pcore * store :=
           match l with
           | [] => ([], sg)
           | x :: r => let '(x', sg1) := rwith w fs x sg in
                       let '(r', sg2) := go r sg1 in (x' :: r', sg2)
           end) l sg in
      (PTee l', sg')
  | LSamp c => let '(p, sg') := rwith w fs c sg in (PSamp p, sg')
  | LHook c => let '(p, sg') := rwith w fs c sg in (PHook p, sg')
  | LFilt thr c => let '(p, sg') := rwith w fs c sg in (PFilt thr p, sg')
  | LLazy id lfs inner =>
      (* d.initOnce(); return d.Core.With(fields) *)
      let '(cur, sg1) := init_once (rwith w lfs inner) id sg in (pwith w fs cur, sg1)
  end.

(* Core.With on a Logger's core *)
Fixpoint kwith (root : lcomp) (w : Z) (fs : list sfld) (k : kcore) (sg : store) {struct k} : pcore * store :=
  match k with
  | LRoot => rwith w fs root sg
  | LPure p => (pwith w fs p, sg)
  | LLazyW id lfs inner =>
      let '(cur, sg1) := init_once (kwith root w lfs inner) id sg in (pwith w fs cur, sg1)
  end.

(* LevelEnabler.Enabled: Level.Enabled(lvl) = lvl >= l; AtomicLevel.Enabled reads the variable NOW.
   Leaves are built at DebugLevel or below a LevelEnabler of their own: an ioCore / contextObserver with
   LevelEnabler L is [PFilt L leaf] -- ioCore.Check and contextObserver.Check are `if c.Enabled(ent.Level)
   { return ce.AddCore(ent, c) }; return ce`, their Enabled is L.Enabled, their With keeps L: line by line
   what levelFilterCore{leaf, L} does with an always-enabled leaf (see [dec_comp], tag 8). *)
Definition admits (thr : lref) (hi : lvq) : bool := (lresolve (le hi) thr <=? lv hi)%Z.
Fixpoint penabled (hi : lvq) (p : pcore) : bool :=
  match p with
  | PIo _ _ _ | PObs _ _ => true
  | PTee l => existsb (penabled hi) l
  | PSamp c | PHook c => penabled hi c           (* embedded Core *)
  | PFilt thr c => admits thr hi && penabled hi c (* c.level.Enabled(lvl) && c.core.Enabled(lvl) *)
  end.
Fixpoint renabled (hi : lvq) (c : lcomp) : bool :=
  match c with
  | LIo _ _ | LObs _ => true
  | LTee l => existsb (renabled hi) l
  | LSamp c | LHook c => renabled hi c
  | LFilt thr c => admits thr hi && renabled hi c
  | LLazy _ _ inner => renabled hi inner          (* d.originalCore.Enabled(level): the immutable original core *)
  end.
Fixpoint kenabled (root : lcomp) (hi : lvq) (k : kcore) : bool :=
  match k with
  | LRoot => renabled hi root
  | LPure p => penabled hi p
  | LLazyW _ _ inner => kenabled root hi inner    (* d.originalCore.Enabled(level) *)
  end.

(* what one logging call makes observable *)
Inductive ev :=
| ESamp                               (* the sampler's hook saw LogSampled *)
| EHook (nm msg : bytes)              (* a hooked core's function saw Entry{LoggerName, Message} *)
| EOut (sink : nat) (o : option bytes).   (* a line reached a sink (None: the encoder panicked) *)

Section Log.
Variable ent : entry.
Variable hi : lvq.                    (* the level of the call and the level state when it is made *)
Variable w : Z.                       (* the world when the call is made *)
Variable fs : list sfld.              (* call-site fields *)

(* Core.Check(ent, ce) followed by ce.Write(fields): (events during Check, events during Write in
   the order the cores were added, ce != nil afterwards) *)
Definition res := (list ev * list ev * bool)%type.
Fixpoint plog (p : pcore) (nn : bool) {struct p} : res :=
  match p with
  | PIo false k s => ([], [EOut k (encode_entry c07_cfg false s ent (evals w fs))], true)
  | PIo true k s => ([], [EOut k (Some (console_line c07_cfg s ent (evals w fs)))], true)
  | PObs k ctx =>
      (* Write records ctx ++ fields; the harness renders the recorded entry at once with a fresh JSON encoder *)
      ([], [EOut k (encode_entry c07_cfg false empty ent (evals w (ctx ++ fs)))], true)
  | PTee l =>
      (fix go (l : list pcore) (nn : bool) {struct l} : res :=
         match l with
         | [] => ([], [], nn)
         | x :: r => let '(c1, w1, n1) := plog x nn in
                     let '(c2, w2, n2) := go r n1 in (c1 ++ c2, w1 ++ w2, n2)
         end) l nn
  | PSamp c =>
      if penabled hi c then let '(c1, w1, n1) := plog c nn in (ESamp :: c1, w1, n1) else ([], [], nn)
  | PHook c =>
      (* registered := len(ce.cores); downstream := h.Core.Check(ent, ce); if downstream == nil: return ce;
         if len(downstream.cores) > registered: downstream.AddCore(ent, h).  Every registered core writes
         exactly one event, so the wrapped core registered something iff its write list is not empty. *)
      let '(c1, w1, n1) := plog c nn in
      (c1, if n1 then (if is_nil w1 then w1 else w1 ++ [EHook (name ent) (message ent)]) else w1, n1)
  | PFilt thr c => if admits thr hi && penabled hi c then plog c nn else ([], [], nn)
  end.

Fixpoint rlog (c : lcomp) (sg : store) (nn : bool) {struct c} : res * store :=
  match c with
  | LIo co k => (plog (PIo co k empty) nn, sg)
  | LObs k => (plog (PObs k []) nn, sg)
  | LTee l =>
      (fix go (l : list lcomp) (sg : store) (nn : bool) {struct l} : res * store :=
         match l with
         | [] => (([], [], nn), sg)
         | x :: r => let '((c1, w1, n1), sg1) := rlog x sg nn in
                     let '((c2, w2, n2), sg2) := go r sg1 n1 in ((c1 ++ c2, w1 ++ w2, n2), sg2)
         end) l sg nn
  | LSamp c =>
      if renabled hi c then let '((c1, w1, n1), sg1) := rlog c sg nn in ((ESamp :: c1, w1, n1), sg1)
      else (([], [], nn), sg)
  | LHook c =>
      let '((c1, w1, n1), sg1) := rlog c sg nn in
      ((c1, if n1 then (if is_nil w1 then w1 else w1 ++ [EHook (name ent) (message ent)]) else w1, n1), sg1)
  | LFilt thr c => if admits thr hi && renabled hi c then rlog c sg nn else (([], [], nn), sg)
  | LLazy id lfs inner =>
      (* if !d.originalCore.Enabled(e.Level): return ce;  d.initOnce(); return d.core.Check(e, ce) *)
      if renabled hi inner then
        let '(cur, sg1) := init_once (rwith w lfs inner) id sg in (plog cur nn, sg1)
      else (([], [], nn), sg)
  end.

Definition klog (root : lcomp) (k : kcore) (sg : store) : res * store :=
  match k with
  | LRoot => rlog root sg false
  | LPure p => (plog p false, sg)
  | LLazyW id lfs inner =>
      if kenabled root hi inner then
        let '(cur, sg1) := init_once (kwith root w lfs inner) id sg in (plog cur false, sg1)
      else (([], [], false), sg)
  end.
End Log.

(* ------------------------------------------------------------------------- *)
(* Loggers and derivation programs *)
Record logger := { lname : bytes; lcore : kcore }.
Inductive step :=
| SWith (fs : list sfld) | SWithLazy (fs : list sfld) | SNamed (s : bytes)
| SFields (fs : list sfld)            (* WithOptions(Fields(fs...)) *)
| SSugar | SDesugar.
(* every operation carries the value the world has when it is executed *)
Inductive op :=
| ODerive (parent : nat) (s : step) (w : Z)                          (* node (length nodes) := parent.step *)
| OLog (n : nat) (hi : lvq) (msg : bytes) (fs : list sfld) (w : Z).   (* node n logs at level [lv hi], the AtomicLevels being [le hi] *)

Record state := { nodes : list logger; sto : store; nxt : nat }.

Definition derive (root : lcomp) (lg : logger) (s : step) (w : Z) (sg : store) (nx : nat) : logger * store * nat :=
  match s with
  | SWith fs =>
      if is_nil fs then (lg, sg, nx)                                  (* len(fields) == 0: return log *)
      else let '(p, sg') := kwith root w fs (lcore lg) sg in          (* l := log.clone(); l.core = l.core.With(fields) *)
           ({| lname := lname lg; lcore := LPure p |}, sg', nx)
  | SWithLazy fs =>
      if is_nil fs then (lg, sg, nx)
      else ({| lname := lname lg; lcore := LLazyW nx fs (lcore lg) |}, sg, S nx)   (* WrapCore(NewLazyWith(core, fields)) *)
  | SNamed s =>
      if is_nil s then (lg, sg, nx)                                   (* s == "": return log *)
      else ({| lname := if is_nil (lname lg) then s else lname lg ++ [DOT] ++ s; lcore := lcore lg |}, sg, nx)
  | SFields fs =>
      let '(p, sg') := kwith root w fs (lcore lg) sg in               (* clone; opt.apply: log.core = log.core.With(fs) *)
      ({| lname := lname lg; lcore := LPure p |}, sg', nx)
  | SSugar | SDesugar => (lg, sg, nx)                                 (* clone (callerSkip +-2) *)
  end.

(* Logger.check + CheckedEntry.Write *)
Definition do_log (root : lcomp) (lg : logger) (hi : lvq) (msg : bytes) (fs : list sfld) (w : Z) (sg : store)
  : list ev * store :=
  if kenabled root hi (lcore lg) then        (* lvl < DPanicLevel && !log.core.Enabled(lvl): return nil *)
    let '((c1, w1, _), sg') := klog (mk_entry (lv hi) (lname lg) msg) hi w fs root (lcore lg) sg in
    (c1 ++ w1, sg')
  else ([], sg).

Definition step_op (root : lcomp) (s : state) (o : op) : state * list (list ev) :=
  match o with
  | ODerive p st w =>
      match nth_error (nodes s) p with
      | Some lg => let '(lg', sg', nx') := derive root lg st w (sto s) (nxt s) in
                   ({| nodes := nodes s ++ [lg']; sto := sg'; nxt := nx' |}, [])
      | None => (s, [])
      end
  | OLog n hi msg fs w =>
      match nth_error (nodes s) n with
      | Some lg => let '(evs, sg') := do_log root lg hi msg fs w (sto s) in
                   ({| nodes := nodes s; sto := sg'; nxt := nxt s |}, [evs])
      | None => (s, [])
      end
  end.
Fixpoint run (root : lcomp) (s : state) (ops : list op) : state * list (list ev) :=
  match ops with
  | [] => (s, [])
  | o :: r => let '(s1, e1) := step_op root s o in
              let '(s2, e2) := run root s1 r in (s2, e1 ++ e2)
  end.

(* the root composition as given (no ids) and its labelling: cell ids and sink ids in construction order *)
Inductive comp :=
| CJson | CConsole | CObs
| CTee (l : list comp) | CSamp (c : comp) | CHook (c : comp) | CFilt (thr : lref) (c : comp)
| CLazy (fs : list sfld) (c : comp).
Fixpoint label (c : comp) (nc nk : nat) {struct c} : lcomp * nat * nat :=
  match c with
  | CJson => (LIo false nk, nc, S nk)
  | CConsole => (LIo true nk, nc, S nk)
  | CObs => (LObs nk, nc, S nk)
  | CTee l =>
      let '(l', nc', nk') :=
        (fix go (l : list comp) (nc nk : nat) {struct l} : list lcomp * nat * nat :=
           match l with
           | [] => ([], nc, nk)
           | x :: r => let '(x', nc1, nk1) := label x nc nk in
                       let '(r', nc2, nk2) := go r nc1 nk1 in (x' :: r', nc2, nk2)
           end) l nc nk in
      (LTee l', nc', nk')
  | CSamp c => let '(c', nc', nk') := label c nc nk in (LSamp c', nc', nk')
  | CHook c => let '(c', nc', nk') := label c nc nk in (LHook c', nc', nk')
  | CFilt thr c => let '(c', nc', nk') := label c nc nk in (LFilt thr c', nc', nk')
  | CLazy fs c => let '(c', nc', nk') := label c nc nk in (LLazy nc' fs c', S nc', nk')
  end.
Definition root_of (c : comp) : lcomp := fst (fst (label c 0 0)).
Definition ncells (c : comp) : nat := snd (fst (label c 0 0)).
Definition nsinks (c : comp) : nat := snd (label c 0 0).

(* zap.New(core): unnamed logger over the root composition *)
Definition init (c : comp) : state := {| nodes := [{| lname := []; lcore := LRoot |}]; sto := []; nxt := ncells c |}.
Definition run_events (c : comp) (ops : list op) : list (list ev) := snd (run (root_of c) (init c) ops).

(* ========================================================================= *)
(* Specification.  A logger IS its derivation path. *)
Inductive pitem :=
| PEager (w : Z) (fs : list sfld)        (* With / Fields, made when the world was w *)
| PLazy (id : nat) (fs : list sfld).     (* WithLazy: the id-th lazily evaluated context *)
Record snode := { segs : list bytes; items : list pitem }.
Definition marks := list (nat * Z).      (* lazily evaluated contexts already evaluated: id -> world at that time *)
Record sstate := { snodes : list snode; smarks : marks; snxt : nat }.

Fixpoint join_dot (l : list bytes) : bytes :=
  match l with [] => [] | [x] => x | x :: r => x ++ [DOT] ++ join_dot r end.
Definition path_name (sg : list bytes) : bytes := join_dot (filter (fun s => negb (is_nil s)) sg).

Definition item_fs (it : pitem) : list sfld := match it with PEager _ fs | PLazy _ fs => fs end.
Definition lazy_ids (its : list pitem) : list nat :=
  concat (map (fun it => match it with PLazy id _ => [id] | _ => [] end) its).
Definition mark_or (m : marks) (id : nat) (d : Z) : Z := match lookup id m with Some v => v | None => d end.
(* when the fields of a path item were evaluated, for a sink that serialises at With time (io) *)
Definition item_world (m : marks) (it : pitem) : Z :=
  match it with PEager w _ => w | PLazy id _ => mark_or m id 0 end.
(* the With-contexts an io leaf has accumulated along a chain of items *)
Definition io_ctxs (m : marks) (ch : list pitem) : list (list fld) :=
  map (fun it => evals (item_world m it) (item_fs it)) ch.
(* an observer keeps the Fields themselves *)
Definition obs_ctx (ch : list pitem) : list sfld := concat (map item_fs ch).

(* static facts about the root composition *)
Fixpoint senabled (hi : lvq) (c : lcomp) : bool :=
  match c with
  | LIo _ _ | LObs _ => true
  | LTee l => existsb (senabled hi) l
  | LSamp c | LHook c | LLazy _ _ c => senabled hi c
  | LFilt thr c => admits thr hi && senabled hi c
  end.
Fixpoint all_ids (c : lcomp) : list nat :=
  match c with
  | LIo _ _ | LObs _ => []
  | LTee l => concat (map all_ids l)
  | LSamp c | LHook c | LFilt _ c => all_ids c
  | LLazy id _ c => all_ids c ++ [id]
  end.
(* the lazily evaluated contexts of the root composition an entry of this level reaches *)
Fixpoint log_ids (hi : lvq) (c : lcomp) : list nat :=
  match c with
  | LIo _ _ | LObs _ => []
  | LTee l => concat (map (log_ids hi) l)
  | LSamp c => if senabled hi c then log_ids hi c else []
  | LHook c => log_ids hi c
  | LFilt thr c => if admits thr hi && senabled hi c then log_ids hi c else []
  | LLazy id _ c => if senabled hi c then all_ids c ++ [id] else []
  end.
Fixpoint mark_all (w : Z) (ids : list nat) (m : marks) : marks :=
  match ids with
  | [] => m
  | id :: r => mark_all w r (match lookup id m with Some _ => m | None => (id, w) :: m end)
  end.

(* the line a sink receives, from the tree-level semantics *)
Definition spec_members (hi : Z) (nm msg : bytes) (fields : list fld) : list member :=
  [str_m s_level (lvl_txt hi)] ++ (if is_nil nm then [] else [str_m s_logger nm]) ++ [str_m s_msg msg] ++
  close (ev_flds c07_cfg fields octx0).
Definition json_line (hi : Z) (nm msg : bytes) (fields : list fld) : bytes :=
  pv false (TObj (spec_members hi nm msg fields)) ++ [NL].
Definition console_spec_line (hi : Z) (nm msg : bytes) (fields : list fld) : bytes :=
  lvl_txt hi ++ [TAB] ++ (if is_nil nm then [] else nm ++ [TAB]) ++ msg ++
  (match close (ev_flds c07_cfg fields octx0) with
   | [] => []
   | ms => [TAB] ++ pv true (TObj ms)
   end) ++ [NL].

Section SpecLog.
Variable m : marks.
Variable hi : lvq.
Variable nm msg : bytes.
Variable w : Z.
Variable fs : list sfld.
(* the events of one call from a logger whose path items are [ch0], over the root composition:
   [ch] = lazily evaluated contexts of the composition above this point (innermost first) ++ ch0 *)
Fixpoint swalk (c : lcomp) (ch : list pitem) (nn : bool) {struct c} : res :=
  match c with
  | LIo false k => ([], [EOut k (Some (json_line (lv hi) nm msg (concat (io_ctxs m ch) ++ evals w fs)))], true)
  | LIo true k => ([], [EOut k (Some (console_spec_line (lv hi) nm msg (concat (io_ctxs m ch) ++ evals w fs)))], true)
  | LObs k => ([], [EOut k (Some (json_line (lv hi) nm msg (evals w (obs_ctx ch ++ fs))))], true)
  | LTee l =>
      (fix go (l : list lcomp) (nn : bool) {struct l} : res :=
         match l with
         | [] => ([], [], nn)
         | x :: r => let '(c1, w1, n1) := swalk x ch nn in
                     let '(c2, w2, n2) := go r n1 in (c1 ++ c2, w1 ++ w2, n2)
         end) l nn
  | LSamp c => if senabled hi c then let '(c1, w1, n1) := swalk c ch nn in (ESamp :: c1, w1, n1) else ([], [], nn)
  | LHook c => let '(c1, w1, n1) := swalk c ch nn in
               (c1, if n1 then (if is_nil w1 then w1 else w1 ++ [EHook nm msg]) else w1, n1)
  | LFilt thr c => if admits thr hi && senabled hi c then swalk c ch nn else ([], [], nn)
  | LLazy id lfs c => swalk c (PLazy id lfs :: ch) nn
  end.
End SpecLog.

Definition sderive (sn : snode) (s : step) (w : Z) (nx : nat) : snode * nat :=
  match s with
  | SWith fs => if is_nil fs then (sn, nx) else ({| segs := segs sn; items := items sn ++ [PEager w fs] |}, nx)
  | SWithLazy fs => if is_nil fs then (sn, nx) else ({| segs := segs sn; items := items sn ++ [PLazy nx fs] |}, S nx)
  | SNamed s => ({| segs := segs sn ++ [s]; items := items sn |}, nx)
  | SFields fs => ({| segs := segs sn; items := items sn ++ [PEager w fs] |}, nx)
  | SSugar | SDesugar => (sn, nx)
  end.
(* does this derivation step use the parent's core (and so evaluate what is still pending on its path)? *)
Definition forcing (s : step) : bool :=
  match s with SWith fs => negb (is_nil fs) | SFields _ => true | _ => false end.

Definition sstep (root : lcomp) (s : sstate) (o : op) : sstate * list (list ev) :=
  match o with
  | ODerive p st w =>
      match nth_error (snodes s) p with
      | Some sn =>
          let '(sn', nx') := sderive sn st w (snxt s) in
          let m' := if forcing st then mark_all w (all_ids root ++ lazy_ids (items sn)) (smarks s) else smarks s in
          ({| snodes := snodes s ++ [sn']; smarks := m'; snxt := nx' |}, [])
      | None => (s, [])
      end
  | OLog n hi msg fs w =>
      match nth_error (snodes s) n with
      | Some sn =>
          if senabled hi root then
            (* first use: everything pending on the path is evaluated now; a logger without context of its own
               uses the root composition directly, and reaches only the part of it the level admits *)
            let ids := if is_nil (items sn) then log_ids hi root else all_ids root ++ lazy_ids (items sn) in
            let m' := mark_all w ids (smarks s) in
            let '(c1, w1, _) := swalk m' hi (path_name (segs sn)) msg w fs root (items sn) false in
            ({| snodes := snodes s; smarks := m'; snxt := snxt s |}, [c1 ++ w1])
          else (s, [[]])
      | None => (s, [])
      end
  end.
Fixpoint srun (root : lcomp) (s : sstate) (ops : list op) : sstate * list (list ev) :=
  match ops with
  | [] => (s, [])
  | o :: r => let '(s1, e1) := sstep root s o in
              let '(s2, e2) := srun root s1 r in (s2, e1 ++ e2)
  end.
Definition sinit (c : comp) : sstate := {| snodes := [{| segs := []; items := [] |}]; smarks := []; snxt := ncells c |}.
Definition spec_events (c : comp) (ops : list op) : list (list ev) := snd (srun (root_of c) (sinit c) ops).

(* ========================================================================= *)
(* Wire.
   input  = (comp (op ...) [0 # (level ...)])
            the optional fifth element: the values the AtomicLevels of the configuration are created with
     comp = (0) json | (1) console | (2) observer | (3 (comp ...)) tee | (4 comp) sampler | (5 comp) hooked
          | (6 lref comp) level filter (NewIncreaseLevelCore) | (7 (field ...) comp) lazy
          | (8 lref leaf) a json / console / observer leaf built with that LevelEnabler instead of DebugLevel
     lref = level (a static zapcore.Level, by number: -1 debug, 0 info, 1 warn, 2 error, ...) | (a) AtomicLevel number a
     op   = (0 parent step w) | (1 node level #msg (field ...) w [sugared [(sink ...)]]) | (2 kind ...)
          | (3 a level)
            the optional last element of a logging call: the sinks whose Write FAILS for this call (see
            [apply_faults]); (2 ...): something done by loggers OUTSIDE the tree (cores and sinks of their own;
            same process) at this point of the history -- no part of any judged logger's path: dropped by
            [dec_case]; (3 a level): AtomicLevel a .SetLevel(level) at this point of the history -- not an
            operation on any logger: [dec_ops] turns it into the level state [le] carried by the LATER logging
            calls (the derivations carry none)
     step = (0 (field ...) [sugared]) With | (1 (field ...) [sugared]) WithLazy | (2 #seg [sugared]) Named
          | (3 (field ...) [sugared]) Fields | (4) Sugar | (5) Desugar
     field = as Enc/WireEnc.v, or (100 #key) (101) (102 #key) (103 #key) mutable object / inline / array / stringer
   per-call observation = one per OLog op:  ((aux ...) (sink-0 lines ...) (sink-1 lines ...) ...)
     aux = (0) sampler hook | (1 #name #msg) hook;  line = (#bytes) | () on a panic
   (the whole observation: see [enc_obs2] below)                                                          *)
Definition dec_sfld (s : sx) : sfld :=
  match sx_z (sx_nth s 0) with
  | 100%Z => SMObj (sx_b (sx_nth s 1))
  | 101%Z => SMInl
  | 102%Z => SMArr (sx_b (sx_nth s 1))
  | 103%Z => SMStr (sx_b (sx_nth s 1))
  | _ => SF (dec_fld (sx_size s) s)
  end.
Definition dec_sflds (s : sx) : list sfld := map dec_sfld (sx_l s).
Definition dec_lref (s : sx) : lref :=
  match s with SL (a :: _) => LAtom (sx_n a) | _ => LStat (sx_z s) end.
Fixpoint dec_comp (fuel : nat) (s : sx) : comp :=
  match fuel with
  | O => CJson
  | S f =>
      match sx_z (sx_nth s 0) with
      | 0%Z => CJson
      | 1%Z => CConsole
      | 2%Z => CObs
      | 3%Z => CTee (map (dec_comp f) (sx_l (sx_nth s 1)))
      | 4%Z => CSamp (dec_comp f (sx_nth s 1))
      | 5%Z => CHook (dec_comp f (sx_nth s 1))
      | 6%Z | 8%Z => CFilt (dec_lref (sx_nth s 1)) (dec_comp f (sx_nth s 2))
      | _ => CLazy (dec_sflds (sx_nth s 1)) (dec_comp f (sx_nth s 2))
      end
  end.
Definition dec_step (s : sx) : step :=
  match sx_z (sx_nth s 0) with
  | 0%Z => SWith (dec_sflds (sx_nth s 1))
  | 1%Z => SWithLazy (dec_sflds (sx_nth s 1))
  | 2%Z => SNamed (sx_b (sx_nth s 1))
  | 3%Z => SFields (dec_sflds (sx_nth s 1))
  | 4%Z => SSugar
  | _ => SDesugar
  end.
Definition dec_op (e : lenv) (s : sx) : op :=
  match sx_z (sx_nth s 0) with
  | 0%Z => ODerive (sx_n (sx_nth s 1)) (dec_step (sx_nth s 2)) (sx_z (sx_nth s 3))
  | _ => OLog (sx_n (sx_nth s 1)) {| lv := sx_z (sx_nth s 2); le := e |} (sx_b (sx_nth s 3)) (dec_sflds (sx_nth s 4)) (sx_z (sx_nth s 5))
  end.
(* AtomicLevel.SetLevel *)
Fixpoint set_level (a : nat) (v : Z) (e : lenv) : lenv :=
  match a, e with
  | O, [] => [v]
  | O, _ :: r => v :: r
  | S k, [] => 0%Z :: set_level k v []
  | S k, x :: r => x :: set_level k v r
  end.
Definition is_setlevel (s : sx) : bool := Z.eqb (sx_z (sx_nth s 0)) 3.
Fixpoint dec_ops (e : lenv) (l : list sx) : list op :=
  match l with
  | [] => []
  | s :: r => if is_setlevel s then dec_ops (set_level (sx_n (sx_nth s 1)) (sx_z (sx_nth s 2)) e) r
              else dec_op e s :: dec_ops e r
  end.
(* The slog front end (exp/zapslog/handler.go) is a translation into the operations above: a Handler is
   a core, a name and the pending groups; WithAttrs = core.With(namespaces of the pending groups, if one of
   the attributes is not Skip, then the converted attributes) -- always called, like Fields --;
   WithGroup = a copy with one more pending group; Handle (behind slog.Logger's Enabled gate) =
   Check + Write of the record's attributes, again preceded by the pending groups.
     slog input = (comp (sop ...) 1 #name)
     sop = (2 parent (attr ...) w) WithAttrs | (3 parent #group w) WithGroup | (4 node hi #msg (attr ...) w) Handle
   node k of the slog program is node k+1 of the translation (node 0: zap.New(core); node 1: its Named(name)). *)
Inductive sop :=
| SAttrs (p : nat) (attrs : list sfld) (w : Z)
| SGroup (p : nat) (g : bytes) (w : Z)
| SHandle (n : nat) (hi : lvq) (msg : bytes) (attrs : list sfld) (w : Z).
Definition is_skip (s : sfld) : bool := match s with SF FSkip => true | _ => false end.
(* the loop shared by WithAttrs and Handle *)
Fixpoint add_attrs (gs : list bytes) (added : bool) (attrs : list sfld) : list sfld * bool :=
  match attrs with
  | [] => ([], added)
  | f :: r =>
      let now := negb added && negb (is_nil gs) && negb (is_skip f) in
      let '(rest, a) := add_attrs gs (added || now) r in
      ((if now then map (fun g => SF (FNamespace g)) gs else []) ++ f :: rest, a)
  end.
Fixpoint scompile (gss : list (list bytes)) (l : list sop) : list op :=
  match l with
  | [] => []
  | SAttrs p attrs w :: r =>
      match nth_error gss p with
      | Some gs => let '(fs, added) := add_attrs gs false attrs in
                   ODerive (S p) (SFields fs) w :: scompile (gss ++ [if added then [] else gs]) r
      | None => scompile gss r
      end
  | SGroup p g w :: r =>
      match nth_error gss p with
      | Some gs => ODerive (S p) SSugar w :: scompile (gss ++ [gs ++ [g]]) r
      | None => scompile gss r
      end
  | SHandle n hi msg attrs w :: r =>
      match nth_error gss n with
      | Some gs => OLog (S n) hi msg (fst (add_attrs gs false attrs)) w :: scompile gss r
      | None => scompile gss r
      end
  end.
Definition dec_sop (s : sx) : sop :=
  match sx_z (sx_nth s 0) with
  | 2%Z => SAttrs (sx_n (sx_nth s 1)) (dec_sflds (sx_nth s 2)) (sx_z (sx_nth s 3))
  | 3%Z => SGroup (sx_n (sx_nth s 1)) (sx_b (sx_nth s 2)) (sx_z (sx_nth s 3))
  | _ => SHandle (sx_n (sx_nth s 1)) (at_lvl (sx_z (sx_nth s 2))) (sx_b (sx_nth s 3)) (dec_sflds (sx_nth s 4)) (sx_z (sx_nth s 5))
  end.
(* the operations of the judged tree: everything but the outside activity (2 ...) *)
Definition is_ext (s : sx) : bool := Z.eqb (sx_z (sx_nth s 0)) 2.
Definition tree_ops (i : sx) : list sx := filter (fun s => negb (is_ext s)) (sx_l (sx_nth i 1)).
Definition dec_case (i : sx) : comp * list op :=
  (dec_comp (sx_size (sx_nth i 0)) (sx_nth i 0),
   if sx_bool (sx_nth i 2)
   then ODerive 0 (SNamed (sx_b (sx_nth i 3))) 0 :: scompile [[]] (map dec_sop (sx_l (sx_nth i 1)))
   else dec_ops (map sx_z (sx_l (sx_nth i 4))) (tree_ops i)).
(* per logging call, the sinks whose Write fails for that call *)
Definition dec_faults (i : sx) : list (list nat) :=
  if sx_bool (sx_nth i 2) then []
  else map (fun s => map sx_n (sx_l (sx_nth s 7))) (filter (fun s => negb (Z.eqb (sx_z (sx_nth s 0)) 0) && negb (is_setlevel s)) (tree_ops i)).

Definition is_out (k : nat) (e : ev) : bool := match e with EOut k' _ => Nat.eqb k' k | _ => false end.
Definition enc_ev (e : ev) : sx :=
  match e with
  | ESamp => SL [SZ 0]
  | EHook nm msg => SL [SZ 1; SB nm; SB msg]
  | EOut _ (Some b) => SL [SB b]
  | EOut _ None => SL []
  end.
Definition is_aux (e : ev) : bool := match e with EOut _ _ => false | _ => true end.
Definition enc_log (nk : nat) (evs : list ev) : sx :=
  SL (SL (map enc_ev (filter is_aux evs)) :: map (fun k => SL (map enc_ev (filter (is_out k) evs))) (seq 0 nk)).
Definition enc_obs (nk : nat) (l : list (list ev)) : sx := SL (map (enc_log nk) l).

(* The END-OF-HISTORY view.  Every entry a sink holds is read a second time, after the whole program
   (all later logging calls and derivations, on the same logger and on every other one) has run: for an
   observer the LoggedEntry values ObservedLogs.All() / TakeAll() return at the end (rendered with the world
   put back to the value it had at the call), for an io sink the bytes it was handed.  An entry is a value:
   once recorded it is what its call prescribed, whatever is logged or derived afterwards (in the code:
   contextObserver.Write copies context and call-site fields into a slice of its own -- the heap model of
   that is C07/Alias.v [observer_entries_stable]; ioCore.Write hands the sink a finished buffer).
     observation = ((per-call observation ...) (per-call end view ...))
     per-call end view = ((sink-0 lines ...) (sink-1 lines ...) ...)                                      *)
Definition enc_log_end (nk : nat) (evs : list ev) : sx :=
  SL (map (fun k => SL (map enc_ev (filter (is_out k) evs))) (seq 0 nk)).
Definition enc_end (nk : nat) (l : list (list ev)) : sx := SL (map (enc_log_end nk) l).
Definition enc_obs2 (nk : nat) (l : list (list ev)) : sx := SL [enc_obs nk l; enc_end nk l].

(* FAULTS.  The WriteSyncer of an io leaf may fail a chosen write (error returned, nothing / a part /
   all of the line consumed): ioCore.Write returns that error after the entry was encoded and its buffer
   released, CheckedEntry.Write goes on with the remaining cores and reports the error on the logger's
   ErrorOutput.  A failing sink keeps nothing of that line (the harness's sink: it records a line only when
   it accepts it), so the fault removes that sink's line of that call from the observation -- and nothing
   else: no logger, encoder state or Once cell depends on a sink, so every other sink's line of the same
   call, the hook / sampler events of the call, and EVERY later entry of every logger (delivered to that
   sink or to any other) are what the fault-free history prescribes.  Fields whose encoding fails (a
   marshaler returning an error, a reflection failure, a panicking Stringer) are ordinary fields of the
   shared field model (Enc/Fields.v: the <key>Error member), inside the tree or outside it.             *)
Definition failed (fl : list nat) (e : ev) : bool :=
  match e with EOut k _ => existsb (Nat.eqb k) fl | _ => false end.
Definition drop_failed (fl : list nat) (evs : list ev) : list ev := filter (fun e => negb (failed fl e)) evs.
(* fls: one list of failing sinks per logging call (missing: none) *)
Fixpoint apply_faults (fls : list (list nat)) (l : list (list ev)) : list (list ev) :=
  match l with
  | [] => []
  | evs :: r => match fls with
                | [] => l
                | fl :: fr => drop_failed fl evs :: apply_faults fr r
                end
  end.

Definition model (i : sx) : sx :=
  let '(c, ops) := dec_case i in enc_obs2 (nsinks c) (apply_faults (dec_faults i) (run_events c ops)).
(* the property's oracle: the observation -- what every call made observable at once AND what every sink
   still holds for that call at the end of the history -- is what the path specification prescribes (for the
   sinks that accepted the write) *)
Definition spec (i o : sx) : bool :=
  let '(c, ops) := dec_case i in sx_eqb o (enc_obs2 (nsinks c) (apply_faults (dec_faults i) (spec_events c ops))).

(* well-formedness of the standard-library answers carried by the static fields of a case *)
Definition wf_sfld (s : sfld) : bool := match s with SF f => wf_fld f | _ => true end.
Definition wf_sflds (fs : list sfld) : bool := forallb wf_sfld fs.
Fixpoint wf_comp (c : comp) : bool :=
  match c with
  | CJson | CConsole | CObs => true
  | CTee l => forallb wf_comp l
  | CSamp c | CHook c | CFilt _ c => wf_comp c
  | CLazy fs c => wf_sflds fs && wf_comp c
  end.
Definition wf_step (s : step) : bool :=
  match s with SWith fs | SWithLazy fs | SFields fs => wf_sflds fs | _ => true end.
Definition wf_op (o : op) : bool :=
  match o with ODerive _ s _ => wf_step s | OLog _ _ _ fs _ => wf_sflds fs end.
Definition wf (i : sx) : bool := let '(c, ops) := dec_case i in wf_comp c && forallb wf_op ops.

(* C07 — proofs, part 9: LEVEL STATE.

   The LevelEnablers of a configuration may be AtomicLevels that the program changes (SetLevel) between
   any two operations: the level of a leaf shared by every logger derived over it, the level of a
   zap.IncreaseLevel filter, in both directions, including states in which a filter enables levels the
   core it wraps rejects (which NewIncreaseLevelCore refuses at construction, and which any later SetLevel
   produces).  In the model the level state is an input of the logging call alone ([lvq]); no derivation
   takes one.  Proved here:

     - [level_gate]: whatever the level state, every line a walk delivers is one of the LEVEL-FREE lines of
       the path ([path_lines]: a function of the level NUMBER printed in the line, the name, the message, the
       path's items and the call-site fields -- not of any threshold, static or atomic);
     - [level_open]: when every filter on the way admits the entry, all of them are delivered, in order;
     - [levels_gate_only]: the same for the operational model after ANY program: levels and level states of
       earlier calls, the state under which the logger and its ancestors were derived, the state now -- they
       select the sinks a line reaches, never what the line says;
     - [paths_level_free]: two programs that differ only in the levels and level states of their calls build
       the same loggers (same paths); with static fields every logger then emits the same in both
       ([level_history_static]): the level history is not part of a logger. *)
From Coq Require Import List ZArith NArith Bool Lia.
From Coq.Strings Require Import Byte.
Import ListNotations.
From Zap Require Import Base.Wire Enc.Bytes Enc.Fields Enc.JsonEnc Enc.JsonAst Enc.WireEnc Enc.Wf.
From Zap Require Import C07.Model C07.Proofs C07.Sim C07.Path C07.Main C07.Iso.

(* the lines of a path over a composition, one per sink, in construction order: no level is consulted *)
Fixpoint path_lines (m : marks) (l : Z) (nm msg : bytes) (w : Z) (fs : list sfld) (c : lcomp) (ch : list pitem)
  {struct c} : list ev :=
  match c with
  | LIo false k => [EOut k (Some (json_line l nm msg (concat (io_ctxs m ch) ++ evals w fs)))]
  | LIo true k => [EOut k (Some (console_spec_line l nm msg (concat (io_ctxs m ch) ++ evals w fs)))]
  | LObs k => [EOut k (Some (json_line l nm msg (evals w (obs_ctx ch ++ fs))))]
  | LTee cs => concat (map (fun x => path_lines m l nm msg w fs x ch) cs)
  | LSamp c | LHook c | LFilt _ c => path_lines m l nm msg w fs c ch
  | LLazy id lfs c => path_lines m l nm msg w fs c (PLazy id lfs :: ch)
  end.

Definition res_evs (r : res) : list ev := fst (fst r) ++ snd (fst r).
Definition lines_of (evs : list ev) : list ev := filter (fun e => negb (is_aux e)) evs.

Lemma lines_of_app a b : lines_of (a ++ b) = lines_of a ++ lines_of b.
Proof. apply filter_app. Qed.
Lemma lines_of_path_lines m l nm msg w fs : forall c ch, lines_of (path_lines m l nm msg w fs c ch) = path_lines m l nm msg w fs c ch.
Proof.
  induction c as [co k|k|cs IH|c IH|c IH|thr c IH|id lfs c IH] using lcomp_ind'; intros ch; cbn [path_lines]; auto.
  - destruct co; reflexivity.
  - induction IH as [|x r Hx _ IHr]; cbn [map concat]; [reflexivity|]. now rewrite lines_of_app, Hx, IHr.
Qed.

(* check events are never lines *)
Lemma swalk_check_aux m hi nm msg w fs : forall c ch nn, lines_of (fst (fst (swalk m hi nm msg w fs c ch nn))) = [].
Proof.
  induction c as [co k|k|cs IH|c IH|c IH|thr c IH|id lfs c IH] using lcomp_ind'; intros ch nn.
  - destruct co; reflexivity.
  - reflexivity.
  - rewrite swalk_tee. revert nn. induction IH as [|x r Hx _ IHr]; intros nn; cbn [swalk_list]; [reflexivity|].
    specialize (Hx ch nn). destruct (swalk m hi nm msg w fs x ch nn) as [[c1 w1] n1]. specialize (IHr n1).
    destruct (swalk_list m hi nm msg w fs ch r n1) as [[c2 w2] n2]. cbn [fst] in *. now rewrite lines_of_app, Hx, IHr.
  - cbn [swalk]. destruct (senabled hi c); [|reflexivity]. specialize (IH ch nn).
    destruct (swalk m hi nm msg w fs c ch nn) as [[c1 w1] n1]. cbn [fst] in *. exact IH.
  - cbn [swalk]. specialize (IH ch nn). destruct (swalk m hi nm msg w fs c ch nn) as [[c1 w1] n1]. exact IH.
  - cbn [swalk]. destruct (admits thr hi && senabled hi c); [apply IH|reflexivity].
  - cbn [swalk]. apply IH.
Qed.

(* [level_gate]: the lines a walk delivers, under any level state, are lines of the path, in order
   (a sub-list: the walk of a part that is disabled delivers nothing) *)
Inductive sublist {A} : list A -> list A -> Prop :=
| sub_nil : sublist [] []
| sub_keep x a b : sublist a b -> sublist (x :: a) (x :: b)
| sub_skip x a b : sublist a b -> sublist a (x :: b).
Lemma sublist_refl {A} (l : list A) : sublist l l.
Proof. induction l; constructor; auto. Qed.
Lemma sublist_nil {A} (l : list A) : sublist [] l.
Proof. induction l; constructor; auto. Qed.
Lemma sublist_app {A} (a b c d : list A) : sublist a b -> sublist c d -> sublist (a ++ c) (b ++ d).
Proof. intros H. induction H; cbn [app]; intros Hc; [exact Hc|constructor; auto|constructor; auto]. Qed.
Lemma sublist_In {A} (a b : list A) x : sublist a b -> In x a -> In x b.
Proof. intros H. induction H; cbn [In]; intuition. Qed.

Lemma swalk_write_sub m hi nm msg w fs : forall c ch nn,
  sublist (lines_of (snd (fst (swalk m hi nm msg w fs c ch nn)))) (path_lines m (lv hi) nm msg w fs c ch).
Proof.
  induction c as [co k|k|cs IH|c IH|c IH|thr c IH|id lfs c IH] using lcomp_ind'; intros ch nn.
  - destruct co; apply sublist_refl.
  - apply sublist_refl.
  - rewrite swalk_tee. cbn [path_lines]. revert nn.
    induction IH as [|x r Hx _ IHr]; intros nn; cbn [swalk_list map concat]; [constructor|].
    specialize (Hx ch nn). destruct (swalk m hi nm msg w fs x ch nn) as [[c1 w1] n1]. specialize (IHr n1).
    destruct (swalk_list m hi nm msg w fs ch r n1) as [[c2 w2] n2]. cbn [fst snd] in *.
    rewrite lines_of_app. now apply sublist_app.
  - cbn [swalk path_lines]. destruct (senabled hi c); [|apply sublist_nil]. specialize (IH ch nn).
    destruct (swalk m hi nm msg w fs c ch nn) as [[c1 w1] n1]. exact IH.
  - cbn [swalk path_lines]. specialize (IH ch nn). destruct (swalk m hi nm msg w fs c ch nn) as [[c1 w1] n1]. cbn [fst snd] in *.
    destruct n1; [|exact IH]. destruct (is_nil w1); [exact IH|]. rewrite lines_of_app. cbn [lines_of filter is_aux negb].
    now rewrite app_nil_r.
  - cbn [swalk path_lines]. destruct (admits thr hi && senabled hi c); [apply IH|apply sublist_nil].
  - cbn [swalk path_lines]. apply IH.
Qed.

Theorem level_gate m hi nm msg w fs c ch nn :
  sublist (lines_of (res_evs (swalk m hi nm msg w fs c ch nn))) (path_lines m (lv hi) nm msg w fs c ch).
Proof.
  unfold res_evs. rewrite lines_of_app, swalk_check_aux. cbn [app]. apply swalk_write_sub.
Qed.

(* every filter of the composition admits the entry *)
Fixpoint all_admit (hi : lvq) (c : lcomp) : bool :=
  match c with
  | LIo _ _ | LObs _ => true
  | LTee l => forallb (all_admit hi) l
  | LSamp c | LHook c | LLazy _ _ c => all_admit hi c
  | LFilt thr c => admits thr hi && all_admit hi c
  end.
(* nothing but filters disables a composition -- except that it has no sink at all *)
Lemma silent_no_lines m hi l nm msg w fs : forall c ch, all_admit hi c = true -> senabled hi c = false ->
  path_lines m l nm msg w fs c ch = [].
Proof.
  induction c as [co k|k|cs IH|c IH|c IH|thr c IH|id lfs c IH] using lcomp_ind'; intros ch Ha Hs;
    cbn [all_admit senabled path_lines] in *; try discriminate; auto.
  - induction IH as [|x r Hx _ IHr]; cbn [map concat forallb existsb] in *; [reflexivity|].
    apply andb_true_iff in Ha as [Ha1 Ha2]. apply orb_false_iff in Hs as [Hs1 Hs2].
    now rewrite (Hx ch Ha1 Hs1), (IHr Ha2 Hs2).
  - apply andb_true_iff in Ha as [Ha1 Ha2]. rewrite Ha1 in Hs. cbn [andb] in Hs. auto.
Qed.

Theorem level_open m hi nm msg w fs : forall c ch nn, all_admit hi c = true ->
  lines_of (res_evs (swalk m hi nm msg w fs c ch nn)) = path_lines m (lv hi) nm msg w fs c ch.
Proof.
  intros c ch nn Ha. unfold res_evs. rewrite lines_of_app, swalk_check_aux. cbn [app]. revert ch nn Ha.
  induction c as [co k|k|cs IH|c IH|c IH|thr c IH|id lfs c IH] using lcomp_ind'; intros ch nn Ha.
  - destruct co; reflexivity.
  - reflexivity.
  - rewrite swalk_tee. cbn [path_lines all_admit] in *. revert nn.
    induction IH as [|x r Hx _ IHr]; intros nn; cbn [swalk_list map concat]; [reflexivity|].
    cbn [forallb] in Ha. apply andb_true_iff in Ha as [Ha1 Ha2].
    specialize (Hx ch nn Ha1). destruct (swalk m hi nm msg w fs x ch nn) as [[c1 w1] n1]. specialize (IHr Ha2 n1).
    destruct (swalk_list m hi nm msg w fs ch r n1) as [[c2 w2] n2]. cbn [fst snd] in *.
    now rewrite lines_of_app, Hx, IHr.
  - cbn [swalk path_lines all_admit] in *. destruct (senabled hi c) eqn:Hs.
    + specialize (IH ch nn Ha). destruct (swalk m hi nm msg w fs c ch nn) as [[c1 w1] n1]. exact IH.
    + cbn [fst snd lines_of filter]. symmetry. now apply (silent_no_lines m hi).
  - cbn [swalk path_lines all_admit] in *. specialize (IH ch nn Ha).
    destruct (swalk m hi nm msg w fs c ch nn) as [[c1 w1] n1]. cbn [fst snd] in *.
    destruct n1; [|exact IH]. destruct (is_nil w1); [exact IH|]. rewrite lines_of_app. cbn [lines_of filter is_aux negb].
    now rewrite app_nil_r.
  - cbn [swalk path_lines all_admit] in *. apply andb_true_iff in Ha as [Ha1 Ha2]. rewrite Ha1. cbn [andb].
    destruct (senabled hi c) eqn:Hs; [now apply IH|]. cbn [fst snd lines_of filter]. symmetry. now apply (silent_no_lines m hi).
  - cbn [swalk path_lines all_admit] in *. now apply IH.
Qed.

(* ---------- the operational model, after any program ---------- *)
(* [levels_gate_only]: the call [OLog n hi msg fs w] issued after ANY program -- whatever the levels and the
   level states of its calls, whatever the AtomicLevels were when logger n and its ancestors were derived,
   whatever they are now ([le hi]) -- delivers nothing but lines of n's own path *)
Theorem levels_gate_only c ops n sn hi msg fs w :
  wf_comp c = true -> forallb wf_op ops = true -> wf_sflds fs = true ->
  nth_error (snodes (sfinal c ops)) n = Some sn ->
  sublist (lines_of (emits c ops n hi msg fs w))
          (path_lines (mark_all w (log_marks hi (root_of c) (items sn)) (smarks (sfinal c ops)))
                      (lv hi) (path_name (segs sn)) msg w fs (root_of c) (items sn)).
Proof.
  intros Hc Hops Hfs Hn. rewrite (emits_path c ops n sn hi msg fs w Hc Hops Hfs Hn). unfold path_emits.
  destruct (senabled hi (root_of c)); [|apply sublist_nil].
  pose proof (level_gate (mark_all w (log_marks hi (root_of c) (items sn)) (smarks (sfinal c ops))) hi
                (path_name (segs sn)) msg w fs (root_of c) (items sn) false) as H.
  unfold res_evs in H.
  destruct (swalk _ hi (path_name (segs sn)) msg w fs (root_of c) (items sn) false) as [[c1 w1] n1]. exact H.
Qed.
(* ... and all of them when every filter admits the entry *)
Theorem levels_open_all c ops n sn hi msg fs w :
  wf_comp c = true -> forallb wf_op ops = true -> wf_sflds fs = true ->
  nth_error (snodes (sfinal c ops)) n = Some sn -> all_admit hi (root_of c) = true ->
  lines_of (emits c ops n hi msg fs w) =
    path_lines (mark_all w (log_marks hi (root_of c) (items sn)) (smarks (sfinal c ops)))
               (lv hi) (path_name (segs sn)) msg w fs (root_of c) (items sn).
Proof.
  intros Hc Hops Hfs Hn Ha. rewrite (emits_path c ops n sn hi msg fs w Hc Hops Hfs Hn). unfold path_emits.
  pose proof (level_open (mark_all w (log_marks hi (root_of c) (items sn)) (smarks (sfinal c ops))) hi
                (path_name (segs sn)) msg w fs (root_of c) (items sn) false Ha) as H.
  unfold res_evs in H.
  destruct (senabled hi (root_of c)) eqn:Hs.
  - destruct (swalk _ hi (path_name (segs sn)) msg w fs (root_of c) (items sn) false) as [[c1 w1] n1]. exact H.
  - symmetry. now apply (silent_no_lines _ hi).
Qed.

(* ---------- the level history is not part of a logger ---------- *)
(* two operations that differ at most in the level and the level state of a logging call *)
Definition relevel (o1 o2 : op) : Prop :=
  match o1, o2 with
  | ODerive p s w, ODerive p' s' w' => p = p' /\ s = s' /\ w = w'
  | OLog n _ msg fs w, OLog n' _ msg' fs' w' => n = n' /\ msg = msg' /\ fs = fs' /\ w = w'
  | _, _ => False
  end.
Lemma sstep_log_keeps root s n hi msg fs w :
  snodes (fst (sstep root s (OLog n hi msg fs w))) = snodes s /\ snxt (fst (sstep root s (OLog n hi msg fs w))) = snxt s.
Proof.
  cbn [sstep]. destruct (nth_error (snodes s) n) as [sn|]; [|auto]. destruct (senabled hi root); [|auto].
  destruct (swalk _ hi (path_name (segs sn)) msg w fs root (items sn) false) as [[c1 w1] n1]. auto.
Qed.
Lemma sstep_relevel root s1 s2 o1 o2 : relevel o1 o2 ->
  snodes s1 = snodes s2 -> snxt s1 = snxt s2 ->
  snodes (fst (sstep root s1 o1)) = snodes (fst (sstep root s2 o2)) /\
  snxt (fst (sstep root s1 o1)) = snxt (fst (sstep root s2 o2)).
Proof.
  intros Hr Hn Hx. destruct o1 as [p st w|n hi msg fs w]; destruct o2 as [p' st' w'|n' hi' msg' fs' w']; cbn [relevel] in Hr; try contradiction.
  - destruct Hr as (<- & <- & <-). cbn [sstep]. rewrite <- Hn, <- Hx.
    destruct (nth_error (snodes s1) p) as [sn|]; [|auto]. destruct (sderive sn st w (snxt s1)) as [sn' nx']. cbn [fst snodes snxt]. auto.
  - destruct Hr as (<- & <- & <- & <-).
    destruct (sstep_log_keeps root s1 n hi msg fs w) as [-> ->].
    destruct (sstep_log_keeps root s2 n hi' msg fs w) as [-> ->]. auto.
Qed.
Lemma srun_relevel root : forall ops1 ops2 s1 s2, Forall2 relevel ops1 ops2 ->
  snodes s1 = snodes s2 -> snxt s1 = snxt s2 ->
  snodes (fst (srun root s1 ops1)) = snodes (fst (srun root s2 ops2)).
Proof.
  induction ops1 as [|o1 r1 IH]; intros ops2 s1 s2 HF Hn Hx; inversion HF as [|? o2 ? r2 Ho Hr]; subst; [exact Hn|].
  cbn [srun]. destruct (sstep_relevel root s1 s2 o1 o2 Ho Hn Hx) as [Hn' Hx'].
  destruct (sstep root s1 o1) as [t1 e1]. destruct (sstep root s2 o2) as [t2 e2]. cbn [fst] in *.
  specialize (IH r2 t1 t2 Hr Hn' Hx'). destruct (srun root t1 r1) as [u1 f1]. destruct (srun root t2 r2) as [u2 f2]. exact IH.
Qed.
(* [paths_level_free]: the loggers of a program are the same loggers whatever the levels and level states *)
Theorem paths_level_free c ops1 ops2 : Forall2 relevel ops1 ops2 -> snodes (sfinal c ops1) = snodes (sfinal c ops2).
Proof. intros H. unfold sfinal. now apply srun_relevel. Qed.

Lemma relevel_static ops1 ops2 : Forall2 relevel ops1 ops2 -> forallb static_op ops1 = true -> forallb static_op ops2 = true.
Proof.
  intros H. induction H as [|o1 o2 r1 r2 Ho _ IH]; [auto|]. cbn [forallb]. intros Hs. apply andb_true_iff in Hs as [H1 H2].
  rewrite (IH H2), andb_true_r. destruct o1, o2; cbn [relevel] in Ho; try contradiction.
  - destruct Ho as (_ & <- & _). exact H1.
  - destruct Ho as (_ & _ & <- & _). exact H1.
Qed.
(* [level_history_static]: with static fields, what ANY logger emits at a given level and level state is the
   same after two programs that differ only in the levels and level states of their earlier calls -- among them
   the states under which the logger and its ancestors were derived *)
Theorem level_history_static c ops1 ops2 n sn hi msg fs w :
  wf_comp c = true -> forallb wf_op ops1 = true -> forallb wf_op ops2 = true -> wf_sflds fs = true ->
  static_comp c = true -> forallb static_op ops1 = true -> static_sflds fs = true ->
  Forall2 relevel ops1 ops2 -> nth_error (snodes (sfinal c ops1)) n = Some sn ->
  emits c ops1 n hi msg fs w = emits c ops2 n hi msg fs w.
Proof.
  intros Hc H1 H2 Hfs Hsc Hs1 Hsf HR Hn.
  apply (isolated_static_thm c ops1 ops2 n n sn sn hi msg fs w w); auto.
  now rewrite <- (paths_level_free c ops1 ops2 HR).
Qed.

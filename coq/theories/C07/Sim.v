(* C07 — proofs, part 2: the store of lazyWithCore cells against the specification's marks.
   Root composition: Core.With ([rwith]) and Check/Write ([rlog]) evaluate exactly the cells the
   specification marks, once, and produce the expected pure core / the specification's events. *)
From Coq Require Import List ZArith NArith Bool Lia.
From Coq.Strings Require Import Byte.
Import ListNotations.
From Zap Require Import Base.Wire Enc.Bytes Enc.Fields Enc.JsonEnc Enc.JsonAst.
From Zap Require Import C07.Model C07.Proofs.

(* ---------- generic list facts ---------- *)
Lemma Forall_concat_map {A B} (P : B -> Prop) (f : A -> list B) (l : list A) :
  Forall P (concat (map f l)) <-> Forall (fun x => Forall P (f x)) l.
Proof.
  induction l as [|x r IH]; cbn [map concat]; [split; constructor|].
  rewrite Forall_app, IH. split; [intros [H1 H2]; now constructor|intros H; inversion H; auto].
Qed.
Lemma NoDup_app_inv {A} (a b : list A) : NoDup (a ++ b) -> NoDup a /\ NoDup b /\ (forall x, In x a -> ~ In x b).
Proof.
  induction a as [|x r IH]; cbn [app]; intros H.
  - repeat split; [constructor|exact H|intros x []].
  - inversion H as [|? ? Hx Hr]; subst. destruct (IH Hr) as (H1 & H2 & H3). repeat split.
    + constructor; [|exact H1]. intros Hin. apply Hx. apply in_app_iff. now left.
    + exact H2.
    + intros y [<-|Hy] Hb; [apply Hx; apply in_app_iff; now right|exact (H3 y Hy Hb)].
Qed.
Lemma lookup_cons_ne {A} id k (v : A) l : k <> id -> lookup id ((k, v) :: l) = lookup id l.
Proof. intros H. cbn [lookup]. apply Nat.eqb_neq in H. now rewrite H. Qed.
Lemma lookup_cons_eq {A} id (v : A) l : lookup id ((id, v) :: l) = Some v.
Proof. cbn [lookup]. now rewrite Nat.eqb_refl. Qed.
Lemma mem_false id ids : ~ In id ids -> mem id ids = false.
Proof. intros H. destruct (mem id ids) eqn:E; [apply mem_In in E; contradiction|reflexivity]. Qed.
Lemma lookup_mark_all_out w ids m id : ~ In id ids -> lookup id (mark_all w ids m) = lookup id m.
Proof. intros H. rewrite lookup_mark_all, (mem_false _ _ H). destruct (lookup id m); reflexivity. Qed.
Lemma lookup_mark_all_marked w ids m id : marked m id -> lookup id (mark_all w ids m) = lookup id m.
Proof. unfold marked. intros H. rewrite lookup_mark_all. destruct (lookup id m); [reflexivity|congruence]. Qed.

(* ---------- cells of the root composition ---------- *)
Fixpoint cells (c : lcomp) : list (nat * list sfld * lcomp) :=
  match c with
  | LIo _ _ | LObs _ => []
  | LTee l => concat (map cells l)
  | LSamp c | LHook c | LFilt _ c => cells c
  | LLazy id fs c => cells c ++ [(id, fs, c)]
  end.
(* cell [id] holds [content] iff the specification has marked it *)
Definition cell_ok (m : marks) (sg : store) (id : nat) (content : pcore) : Prop :=
  lookup id sg = match lookup id m with Some _ => Some content | None => None end.
Definition rcell_ok (m : marks) (sg : store) (x : nat * list sfld * lcomp) : Prop :=
  let '(id, fs, c) := x in
  cell_ok m sg id (pexp m c [PLazy id fs]) /\ (marked m id -> all_marked m (all_ids c)).
Definition root_ok (m : marks) (sg : store) (c : lcomp) : Prop := Forall (rcell_ok m sg) (cells c).

Lemma root_ok_tee m sg l : root_ok m sg (LTee l) <-> Forall (root_ok m sg) l.
Proof. unfold root_ok. cbn [cells]. apply Forall_concat_map. Qed.
Lemma root_ok_lazy m sg id fs c :
  root_ok m sg (LLazy id fs c) <-> root_ok m sg c /\ rcell_ok m sg (id, fs, c).
Proof.
  unfold root_ok. cbn [cells]. rewrite Forall_app. split; intros [H1 H2]; (split; [exact H1|]).
  - now inversion H2.
  - constructor; [exact H2|constructor].
Qed.

Lemma cells_ids : forall c id fs c', In (id, fs, c') (cells c) -> In id (all_ids c) /\ incl (all_ids c') (all_ids c).
Proof.
  induction c as [co k|k|l IH|c IH|c IH|thr c IH|id0 lfs c IH] using lcomp_ind'; intros id fs c' Hin; cbn [cells all_ids] in *;
    try contradiction; try (now apply (IH id fs c')).
  - apply in_concat in Hin as (xs & Hxs & Hin). apply in_map_iff in Hxs as (x & <- & Hx).
    rewrite Forall_forall in IH. destruct (IH x Hx id fs c' Hin) as [H1 H2]. split.
    + apply in_concat. exists (all_ids x). split; [now apply in_map|exact H1].
    + intros y Hy. apply in_concat. exists (all_ids x). split; [now apply in_map|now apply H2].
  - apply in_app_iff in Hin as [Hin|[E|[]]].
    + destruct (IH id fs c' Hin) as [H1 H2]. split; [apply in_app_iff; now left|].
      intros y Hy. apply in_app_iff. left. now apply H2.
    + injection E as <- <- <-. split; [apply in_app_iff; right; now left|]. intros y Hy. apply in_app_iff. now left.
Qed.

Lemma root_ok_frame m sg m' sg' c :
  (forall id, In id (all_ids c) -> lookup id sg' = lookup id sg /\ lookup id m' = lookup id m) ->
  root_ok m sg c -> root_ok m' sg' c.
Proof.
  intros Hf H. unfold root_ok in *. rewrite Forall_forall in *. intros [[id fs] c'] Hin.
  specialize (H _ Hin). destruct (cells_ids c id fs c' Hin) as [Hid Hsub]. cbn [rcell_ok] in *.
  destruct H as [Hc Hm]. destruct (Hf id Hid) as [Hs Hmk]. split.
  - unfold cell_ok in *. rewrite Hs, Hmk, Hc. destruct (lookup id m); [|reflexivity]. f_equal.
    apply pexp_ext. intros i Hi. symmetry. apply Hf. apply in_app_iff in Hi as [Hi|Hi]; [now apply Hsub|].
    rewrite lazy_ids_cons_lazy in Hi. destruct Hi as [<-|[]]. exact Hid.
  - unfold marked, all_marked in *. rewrite Hmk. intros Hmm. specialize (Hm Hmm).
    rewrite Forall_forall in *. intros i Hi. unfold marked. destruct (Hf i (Hsub i Hi)) as [_ ->]. now apply Hm.
Qed.

Lemma log_ids_incl hi : forall c, incl (log_ids hi c) (all_ids c).
Proof.
  induction c as [co k|k|l IH|c IH|c IH|thr c IH|id lfs c IH] using lcomp_ind'; cbn [log_ids all_ids]; try (intros x []); auto.
  - intros x Hx. apply in_concat in Hx as (xs & Hxs & Hx). apply in_map_iff in Hxs as (y & <- & Hy).
    rewrite Forall_forall in IH. apply in_concat. exists (all_ids y). split; [now apply in_map|now apply (IH y Hy)].
  - destruct (senabled hi c); [exact IH|intros x []].
  - destruct (admits thr hi && senabled hi c); [exact IH|intros x []].
  - destruct (senabled hi c); [apply incl_refl|intros x []].
Qed.

(* Enabled is a static fact of the root composition (lazyWithCore asks its immutable original core) *)
Lemma renabled_senabled hi : forall c, renabled hi c = senabled hi c.
Proof.
  induction c as [co k|k|l IH|c IH|c IH|thr c IH|id lfs c IH] using lcomp_ind'; cbn [renabled senabled]; auto;
    try (now rewrite IH).
Qed.

(* a composition that is disabled at this level emits nothing and registers nothing *)
Lemma swalk_disabled m hi nm msg w fs : forall c ch nn, senabled hi c = false ->
  swalk m hi nm msg w fs c ch nn = ([], [], nn).
Proof.
  induction c as [co k|k|l IH|c IH|c IH|thr c IH|id lfs c IH] using lcomp_ind'; intros ch nn H; cbn [senabled] in H; try discriminate.
  - rewrite swalk_tee. revert nn. induction IH as [|x r Hx _ IHr]; intros nn; cbn [swalk_list]; [reflexivity|].
    cbn [existsb] in H. apply orb_false_iff in H as [H1 H2]. rewrite (Hx ch nn H1). now rewrite (IHr H2 nn).
  - cbn [swalk]. now rewrite H.
  - cbn [swalk]. rewrite (IH ch nn H). now destruct nn.
  - cbn [swalk]. now rewrite H.
  - cbn [swalk]. now apply IH.
Qed.

(* the specification's walk only reads the marks of the cells an entry of this level reaches *)
Lemma swalk_ext m1 m2 hi nm msg w fs : forall c ch nn,
  (forall id, In id (log_ids hi c ++ lazy_ids ch) -> lookup id m1 = lookup id m2) ->
  swalk m1 hi nm msg w fs c ch nn = swalk m2 hi nm msg w fs c ch nn.
Proof.
  induction c as [co k|k|l IH|c IH|c IH|thr c IH|id lfs c IH] using lcomp_ind'; intros ch nn H; cbn [log_ids] in H.
  - cbn [swalk]. rewrite (io_ctxs_ext m1 m2 ch); [reflexivity|exact H].
  - reflexivity.
  - rewrite !swalk_tee. revert nn. induction IH as [|x r Hx _ IHr]; intros nn; cbn [swalk_list]; [reflexivity|].
    cbn [map concat] in H. rewrite (Hx ch nn).
    + destruct (swalk m2 hi nm msg w fs x ch nn) as [[c1 w1] n1]. rewrite IHr; [reflexivity|].
      intros id Hin. apply H. apply in_app_iff in Hin as [Hin|Hin]; apply in_app_iff; [left; apply in_app_iff; now right|now right].
    + intros id Hin. apply H. apply in_app_iff in Hin as [Hin|Hin]; apply in_app_iff; [left; apply in_app_iff; now left|now right].
  - cbn [swalk]. destruct (senabled hi c); [|reflexivity]. now rewrite (IH ch nn H).
  - cbn [swalk]. now rewrite (IH ch nn H).
  - cbn [swalk]. destruct (admits thr hi && senabled hi c); [|reflexivity]. now rewrite (IH ch nn H).
  - cbn [swalk]. destruct (senabled hi c) eqn:Een; [|now rewrite !swalk_disabled].
    apply IH. intros i Hin. apply H. rewrite lazy_ids_cons_lazy in Hin.
    apply in_app_iff in Hin as [Hin|[<-|Hin]]; apply in_app_iff.
    + left. apply in_app_iff. left. now apply (log_ids_incl hi c).
    + left. apply in_app_iff. right. now left.
    + now right.
Qed.

(* ---------- Core.With on the root composition ---------- *)
Definition rwith_ok (w : Z) (c : lcomp) : Prop :=
  forall fs sg m, NoDup (all_ids c) -> root_ok m sg c ->
  exists sg', rwith w fs c sg = (pexp (mark_all w (all_ids c) m) c [PEager w fs], sg') /\
              root_ok (mark_all w (all_ids c) m) sg' c /\
              (forall id, ~ In id (all_ids c) -> lookup id sg' = lookup id sg).

(* lazyWithCore.initOnce on a cell of the root composition: evaluated now unless it already was *)
Lemma init_once_root w id lfs c : rwith_ok w c ->
  forall sg m, NoDup (all_ids c ++ [id]) -> root_ok m sg (LLazy id lfs c) ->
  exists sg', init_once (rwith w lfs c) id sg = (pexp (mark_all w (all_ids c ++ [id]) m) c [PLazy id lfs], sg') /\
              root_ok (mark_all w (all_ids c ++ [id]) m) sg' (LLazy id lfs c) /\
              (forall i, ~ In i (all_ids c ++ [id]) -> lookup i sg' = lookup i sg).
Proof.
  intros Hrw sg m Hnd Hok. apply NoDup_app_inv in Hnd as (Hndc & _ & Hdisj).
  assert (Hid : ~ In id (all_ids c)) by (intros Hin; apply (Hdisj id Hin); now left).
  apply root_ok_lazy in Hok as [Hokc [Hcell Hcl]]. unfold init_once, cell_ok in *. rewrite Hcell.
  destruct (lookup id m) as [v|] eqn:Em.
  - assert (Hall : all_marked m (all_ids c ++ [id])).
    { apply all_marked_app. split; [apply Hcl; unfold marked; congruence|]. constructor; [unfold marked; congruence|constructor]. }
    rewrite (mark_all_marked w _ m Hall). exists sg. split; [reflexivity|]. split; [|auto].
    apply root_ok_lazy. split; [exact Hokc|]. split; [unfold cell_ok; now rewrite Hcell, Em|exact Hcl].
  - destruct (Hrw lfs sg m Hndc Hokc) as (sg1 & Erw & Hok1 & Hfr1). rewrite Erw.
    set (m1 := mark_all w (all_ids c) m) in *.
    assert (Em1 : lookup id m1 = None) by (unfold m1; rewrite lookup_mark_all_out, Em; auto).
    assert (Emm : mark_all w (all_ids c ++ [id]) m = (id, w) :: m1).
    { rewrite mark_all_app. fold m1. cbn [mark_all]. now rewrite Em1. }
    rewrite Emm. set (m' := (id, w) :: m1) in *.
    assert (Hagree : forall i, In i (all_ids c) -> lookup i m' = lookup i m1).
    { intros i Hi. unfold m'. apply lookup_cons_ne. intros ->. contradiction. }
    assert (Hcontent : pexp m1 c [PEager w lfs] = pexp m' c [PLazy id lfs]).
    { pose proof (pexp_lazy_eager m' id w lfs (lookup_cons_eq id w m1) c [] []) as Hle. cbn [app] in Hle.
      rewrite Hle. apply pexp_ext. intros i Hi. symmetry. apply Hagree. apply in_app_iff in Hi as [Hi|Hi]; [exact Hi|destruct Hi]. }
    exists ((id, pexp m1 c [PEager w lfs]) :: sg1). split; [now rewrite Hcontent|]. split.
    + apply root_ok_lazy. split.
      * apply (root_ok_frame m1 sg1); [|exact Hok1]. intros i Hi. split; [|now apply Hagree].
        apply lookup_cons_ne. intros ->. contradiction.
      * split.
        -- unfold cell_ok, m'. rewrite !lookup_cons_eq. now rewrite Hcontent.
        -- intros _. unfold m'. change ((id, w) :: m1) with (mark_all w [] ((id, w) :: m1)).
           eapply Forall_impl; [|apply (all_marked_mark_all w (all_ids c) m)]. fold m1.
           intros i Hi. unfold marked in *. cbn [mark_all lookup]. destruct (Nat.eqb id i); [discriminate|exact Hi].
    + intros i Hi. rewrite lookup_cons_ne.
      * apply Hfr1. intros Hin. apply Hi. apply in_app_iff. now left.
      * intros ->. apply Hi. apply in_app_iff. right. now left.
Qed.

Lemma rwith_list_spec w l : Forall (rwith_ok w) l ->
  forall fs sg m, NoDup (concat (map all_ids l)) -> Forall (root_ok m sg) l ->
  exists sg', rwith_list w fs l sg =
                (map (fun x => pexp (mark_all w (concat (map all_ids l)) m) x [PEager w fs]) l, sg') /\
              Forall (root_ok (mark_all w (concat (map all_ids l)) m) sg') l /\
              (forall id, ~ In id (concat (map all_ids l)) -> lookup id sg' = lookup id sg).
Proof.
  induction 1 as [|x r Hx _ IH]; intros fs sg m Hnd Hok; cbn [map concat rwith_list] in *.
  - exists sg. repeat split; auto.
  - inversion Hok as [|? ? Hokx Hokr]; subst. apply NoDup_app_inv in Hnd as (Hndx & Hndr & Hdisj).
    destruct (Hx fs sg m Hndx Hokx) as (sg1 & E1 & Hok1 & Hfr1). rewrite E1.
    set (m1 := mark_all w (all_ids x) m) in *.
    assert (Hokr1 : Forall (root_ok m1 sg1) r).
    { rewrite Forall_forall in *. intros y Hy. apply (root_ok_frame m sg); [|now apply Hokr].
      intros id Hid. assert (Hn : ~ In id (all_ids x)).
      { intros Hin. apply (Hdisj id Hin). apply in_concat. exists (all_ids y). split; [now apply in_map|exact Hid]. }
      split; [now apply Hfr1|]. unfold m1. now apply lookup_mark_all_out. }
    destruct (IH fs sg1 m1 Hndr Hokr1) as (sg2 & E2 & Hok2 & Hfr2). rewrite E2.
    rewrite mark_all_app. fold m1. set (m2 := mark_all w (concat (map all_ids r)) m1) in *.
    assert (Hagree : forall id, In id (all_ids x) -> lookup id m2 = lookup id m1).
    { intros id Hid. unfold m2. apply lookup_mark_all_marked. unfold m1. now apply marked_mark_all_in. }
    exists sg2. split; [|split].
    + f_equal. f_equal. apply pexp_ext. intros id Hid. symmetry. apply Hagree.
      apply in_app_iff in Hid as [Hid|Hid]; [exact Hid|destruct Hid].
    + constructor; [|exact Hok2]. apply (root_ok_frame m1 sg1); [|exact Hok1].
      intros id Hid. split; [|now apply Hagree]. apply Hfr2. intros Hin. exact (Hdisj id Hid Hin).
    + intros id Hid. rewrite Hfr2, Hfr1; auto; intros Hin; apply Hid; apply in_app_iff; auto.
Qed.

Lemma rwith_spec w : forall c, rwith_ok w c.
Proof.
  induction c as [co k|k|l IH|c IH|c IH|thr c IH|id lfs c IH] using lcomp_ind'; intros fs sg m Hnd Hok.
  - exists sg. cbn [rwith all_ids mark_all]. split; [|split; auto].
    change (PIo co k empty) with (pexp m (LIo co k) []). now rewrite pwith_pexp.
  - exists sg. cbn [rwith all_ids mark_all]. split; [|split; auto].
    change (PObs k []) with (pexp m (LObs k) []). now rewrite pwith_pexp.
  - cbn [all_ids] in *. apply root_ok_tee in Hok.
    destruct (rwith_list_spec w l IH fs sg m Hnd Hok) as (sg' & E & Hok' & Hfr).
    exists sg'. rewrite rwith_tee, E. cbn [pexp]. split; [reflexivity|]. split; [now apply root_ok_tee|exact Hfr].
  - destruct (IH fs sg m Hnd Hok) as (sg' & E & Hok' & Hfr). exists sg'. cbn [rwith pexp all_ids]. now rewrite E.
  - destruct (IH fs sg m Hnd Hok) as (sg' & E & Hok' & Hfr). exists sg'. cbn [rwith pexp all_ids]. now rewrite E.
  - destruct (IH fs sg m Hnd Hok) as (sg' & E & Hok' & Hfr). exists sg'. cbn [rwith pexp all_ids]. now rewrite E.
  - cbn [all_ids] in *. destruct (init_once_root w id lfs c IH sg m Hnd Hok) as (sg' & E & Hok' & Hfr).
    exists sg'. cbn [rwith]. rewrite E. split; [|split; assumption]. cbn [pexp]. now rewrite pwith_pexp.
Qed.

(* ---------- Check + Write on the root composition ---------- *)
Definition rlog_ok (hi : lvq) (nm msg : bytes) (w : Z) (fs : list sfld) (c : lcomp) : Prop :=
  forall sg m nn, wf_lcomp c = true -> NoDup (all_ids c) -> root_ok m sg c ->
  exists sg', rlog (mk_entry (lv hi) nm msg) hi w fs c sg nn =
                (swalk (mark_all w (log_ids hi c) m) hi nm msg w fs c [] nn, sg') /\
              root_ok (mark_all w (log_ids hi c) m) sg' c /\
              (forall id, ~ In id (all_ids c) -> lookup id sg' = lookup id sg).

Lemma rlog_list_spec hi nm msg w fs l : Forall (rlog_ok hi nm msg w fs) l ->
  forall sg m nn, forallb wf_lcomp l = true -> NoDup (concat (map all_ids l)) -> Forall (root_ok m sg) l ->
  exists sg', rlog_list (mk_entry (lv hi) nm msg) hi w fs l sg nn =
                (swalk_list (mark_all w (concat (map (log_ids hi) l)) m) hi nm msg w fs [] l nn, sg') /\
              Forall (root_ok (mark_all w (concat (map (log_ids hi) l)) m) sg') l /\
              (forall id, ~ In id (concat (map all_ids l)) -> lookup id sg' = lookup id sg).
Proof.
  induction 1 as [|x r Hx _ IH]; intros sg m nn Hwf Hnd Hok; cbn [map concat rlog_list swalk_list forallb] in *.
  - exists sg. repeat split; auto.
  - apply andb_true_iff in Hwf as [Hwx Hwr].
    inversion Hok as [|? ? Hokx Hokr]; subst. apply NoDup_app_inv in Hnd as (Hndx & Hndr & Hdisj).
    destruct (Hx sg m nn Hwx Hndx Hokx) as (sg1 & E1 & Hok1 & Hfr1). rewrite E1.
    set (m1 := mark_all w (log_ids hi x) m) in *.
    assert (Hout : forall id, ~ In id (all_ids x) -> lookup id m1 = lookup id m).
    { intros id Hn. unfold m1. apply lookup_mark_all_out. intros Hin. apply Hn. now apply (log_ids_incl hi x). }
    assert (Hokr1 : Forall (root_ok m1 sg1) r).
    { rewrite Forall_forall in *. intros y Hy. apply (root_ok_frame m sg); [|now apply Hokr].
      intros id Hid. assert (Hn : ~ In id (all_ids x)).
      { intros Hin. apply (Hdisj id Hin). apply in_concat. exists (all_ids y). split; [now apply in_map|exact Hid]. }
      split; [now apply Hfr1|now apply Hout]. }
    rewrite mark_all_app. fold m1. set (m2 := mark_all w (concat (map (log_ids hi) r)) m1) in *.
    assert (Hagree : forall id, In id (all_ids x) -> lookup id m2 = lookup id m1).
    { intros id Hid. unfold m2. apply lookup_mark_all_out. intros Hin.
      apply in_concat in Hin as (xs & Hxs & Hin). apply in_map_iff in Hxs as (y & <- & Hy).
      apply (Hdisj id Hid). apply in_concat. exists (all_ids y). split; [now apply in_map|now apply (log_ids_incl hi y)]. }
    rewrite (swalk_ext m2 m1 hi nm msg w fs x [] nn).
    2:{ intros id Hin. apply Hagree. apply in_app_iff in Hin as [Hin|[]]. now apply (log_ids_incl hi x). }
    destruct (swalk m1 hi nm msg w fs x [] nn) as [[c1 w1] n1].
    destruct (IH sg1 m1 n1 Hwr Hndr Hokr1) as (sg2 & E2 & Hok2 & Hfr2). rewrite E2. fold m2.
    destruct (swalk_list m2 hi nm msg w fs [] r n1) as [[c2 w2] n2].
    exists sg2. split; [reflexivity|]. split.
    + constructor; [|exact Hok2]. apply (root_ok_frame m1 sg1); [|exact Hok1].
      intros id Hid. split; [|now apply Hagree]. apply Hfr2. intros Hin. exact (Hdisj id Hid Hin).
    + intros id Hid. rewrite Hfr2, Hfr1; auto; intros Hin; apply Hid; apply in_app_iff; auto.
Qed.

Lemma rlog_spec hi nm msg w fs : wf_sflds fs = true -> forall c, rlog_ok hi nm msg w fs c.
Proof.
  intros Hfs.
  induction c as [co k|k|l IH|c IH|c IH|thr c IH|id lfs c IH] using lcomp_ind'; intros sg m nn Hwf Hnd Hok.
  - exists sg. cbn [rlog log_ids mark_all]. split; [|split; auto].
    change (PIo co k empty) with (pexp m (LIo co k) []). now rewrite plog_pexp.
  - exists sg. cbn [rlog log_ids mark_all]. split; [|split; auto].
    change (PObs k []) with (pexp m (LObs k) []). now rewrite plog_pexp.
  - cbn [all_ids log_ids wf_lcomp] in *. apply root_ok_tee in Hok.
    destruct (rlog_list_spec hi nm msg w fs l IH sg m nn Hwf Hnd Hok) as (sg' & E & Hok' & Hfr).
    exists sg'. rewrite rlog_tee, swalk_tee, E. split; [reflexivity|]. split; [now apply root_ok_tee|exact Hfr].
  - cbn [rlog swalk log_ids all_ids wf_lcomp] in *. rewrite (renabled_senabled hi c).
    destruct (senabled hi c).
    + destruct (IH sg m nn Hwf Hnd Hok) as (sg' & E & Hok' & Hfr). exists sg'. rewrite E.
      destruct (swalk _ hi nm msg w fs c [] nn) as [[c1 w1] n1]. auto.
    + exists sg. cbn [mark_all]. auto.
  - cbn [rlog swalk log_ids all_ids wf_lcomp] in *.
    destruct (IH sg m nn Hwf Hnd Hok) as (sg' & E & Hok' & Hfr). exists sg'. rewrite E.
    destruct (swalk _ hi nm msg w fs c [] nn) as [[c1 w1] n1]. auto.
  - cbn [rlog swalk log_ids all_ids wf_lcomp] in *. rewrite (renabled_senabled hi c). destruct (admits thr hi && senabled hi c).
    + exact (IH sg m nn Hwf Hnd Hok).
    + exists sg. cbn [mark_all]. auto.
  - cbn [all_ids log_ids wf_lcomp] in *. apply andb_true_iff in Hwf as [Hwl Hwc].
    cbn [rlog]. rewrite (renabled_senabled hi c). destruct (senabled hi c) eqn:Een.
    2:{ exists sg. cbn [mark_all swalk]. rewrite swalk_disabled by exact Een. auto. }
    destruct (init_once_root w id lfs c (rwith_spec w c) sg m Hnd Hok) as (sg' & E & Hok' & Hfr).
    exists sg'. cbn [swalk]. rewrite E. split; [|split; assumption]. f_equal.
    apply plog_pexp; [exact Hfs|exact Hwc|]. cbn [wf_items forallb]. unfold wf_item. cbn [item_fs]. now rewrite Hwl.
Qed.

(* C07 — the two aliasing hazards, in explicit heap models (a pure functional model is trivially
   isolated, so the places where isolation is about sharing of mutable memory get a heap):

   1. contextObserver.With (zaptest/observer/observer.go):
        context: append(co.context[:len(co.context):len(co.context)], fields...)
      Go slices (array id, offset, len, cap); append writes in place iff len+n <= cap, else allocates.
      The three-index slice caps the capacity at the length, so append never writes into the array a
      sibling shares.  [observer_with_no_alias]: for every tree of observers built in any order the
      heap-level contexts are the pure lists ctx ++ fields.  [observer_two_index_refuted]: with
      append(co.context, fields...) a sibling's field leaks into another sibling.

   1b. contextObserver.Write (same file):
        all := make([]zapcore.Field, 0, len(fields)+len(co.context)); all = append(all, co.context...);
        all = append(all, fields...); co.logs.add(LoggedEntry{ent, all})
      The recorded entry owns a new array.  [observer_entries_stable]: for every program of With and Write
      steps on any tree of observers, in any order, under any growth policy, every recorded entry READ AT THE
      END of the program is the pure list (context of its logger ++ its call-site fields) it was when it was
      recorded, and [observer_entries_reread]: reading it after any further operations gives what reading
      it at once gave.  [observer_write_append_refuted]: with all := append(co.context, fields...) the second
      entry logged through a logger whose context has spare capacity (With(a,b).With(c): len 3, cap 4)
      overwrites the call-site field of the first.

   2. ioCore.With = clone (jsonEncoder.Clone: a buffer no other encoder holds, bytes copied) +
      addFields (appends in place into the clone's buffer).  [clone_fresh_buffer]: every other live
      encoder's bytes are unchanged.  [clone_shared_refuted]: a Clone sharing buf changes the parent. *)
From Coq Require Import List ZArith Bool Lia PeanoNat.
From Coq.Strings Require Import Byte.
Import ListNotations.
From Zap Require Import Base.Wire.

(* ---------- arrays and heaps ---------- *)
Definition upd {A} (h : list A) (i : nat) (a : A) : list A := firstn i h ++ [a] ++ skipn (S i) h.
Lemma upd_length {A} (h : list A) i a : i < length h -> length (upd h i a) = length h.
Proof.
  intros H. unfold upd. rewrite !app_length, firstn_length, skipn_length. cbn [length]. lia.
Qed.
Lemma nth_upd_same {A} (h : list A) i a d : i < length h -> nth i (upd h i a) d = a.
Proof.
  intros H. unfold upd. rewrite app_nth2; rewrite firstn_length, Nat.min_l by lia; [|lia].
  now rewrite Nat.sub_diag.
Qed.
Lemma nth_upd_other {A} (h : list A) : forall i j a d, i < length h -> i <> j -> nth j (upd h i a) d = nth j h d.
Proof.
  induction h as [|x r IH]; intros i j a d Hi Hne; cbn [length] in Hi; [lia|].
  destruct i as [|i'].
  - unfold upd. cbn [firstn skipn app]. destruct j as [|j']; [lia|reflexivity].
  - change (upd (x :: r) (S i') a) with (x :: upd r i' a).
    destruct j as [|j']; [reflexivity|]. cbn [nth]. apply IH; lia.
Qed.

Section Slices.
Variable T : Type.
Variable d : T.                             (* content of never-written cells *)
Variable newcap : nat -> nat -> nat.        (* the runtime's growth policy: new capacity, given the old one and the needed length *)
Hypothesis newcap_ge : forall c n, n <= newcap c n.

Definition heap := list (list T).
Record slice := { arr : nat; off : nat; len : nat; cap : nat }.
Definition cells (h : heap) (s : slice) : list T := nth (arr s) h [].
Definition read (h : heap) (s : slice) : list T := firstn (len s) (skipn (off s) (cells h s)).
Definition valid (h : heap) (s : slice) : Prop :=
  arr s < length h /\ off s + cap s <= length (cells h s) /\ len s <= cap s.
(* s[:len(s):len(s)] *)
Definition slice3 (s : slice) : slice := {| arr := arr s; off := off s; len := len s; cap := len s |}.
Definition write_at (a : list T) (p : nat) (xs : list T) : list T := firstn p a ++ xs ++ skipn (p + length xs) a.
(* append(s, xs...) *)
Definition append (h : heap) (s : slice) (xs : list T) : heap * slice :=
  let n := length xs in
  if len s + n <=? cap s then
    (upd h (arr s) (write_at (cells h s) (off s + len s) xs),
     {| arr := arr s; off := off s; len := len s + n; cap := cap s |})
  else
    let c := newcap (cap s) (len s + n) in
    (h ++ [read h s ++ xs ++ repeat d (c - (len s + n))],
     {| arr := length h; off := 0; len := len s + n; cap := c |}).

(* contextObserver.With, and the two-index variant *)
Definition obs_with (h : heap) (ctx : slice) (fs : list T) : heap * slice := append h (slice3 ctx) fs.
Definition obs_with_two_index (h : heap) (ctx : slice) (fs : list T) : heap * slice := append h ctx fs.

Lemma read_length h s : valid h s -> length (read h s) = len s.
Proof. intros (H1 & H2 & H3). unfold read. rewrite firstn_length, skipn_length. lia. Qed.
Lemma write_at_nil a p : write_at a p [] = a.
Proof. unfold write_at. cbn [length app]. rewrite Nat.add_0_r. apply firstn_skipn. Qed.

(* one With: the new observer's context is ctx ++ fs, every existing slice reads as before *)
Lemma obs_with_step h ctx fs : valid h ctx ->
  read (fst (obs_with h ctx fs)) (snd (obs_with h ctx fs)) = read h ctx ++ fs /\
  valid (fst (obs_with h ctx fs)) (snd (obs_with h ctx fs)) /\
  (forall s, valid h s -> read (fst (obs_with h ctx fs)) s = read h s /\ valid (fst (obs_with h ctx fs)) s).
Proof.
  intros Hv. pose proof Hv as (H1 & H2 & H3). unfold obs_with, append. cbn [slice3 len cap arr off].
  destruct fs as [|f fs'].
  - (* no fields: len + 0 <= len, the in-place branch writes nothing *)
    cbn [length]. rewrite Nat.add_0_r, Nat.leb_refl. cbn [fst snd].
    change (cells h (slice3 ctx)) with (cells h ctx). rewrite write_at_nil.
    assert (Hr : forall s, read (upd h (arr ctx) (cells h ctx)) s = read h s /\ (valid h s -> valid (upd h (arr ctx) (cells h ctx)) s)).
    { intros s. assert (Hc : cells (upd h (arr ctx) (cells h ctx)) s = cells h s).
      { unfold cells. destruct (Nat.eq_dec (arr ctx) (arr s)) as [E|E].
        - rewrite <- E. now apply nth_upd_same.
        - now apply nth_upd_other. }
      unfold read, valid. rewrite Hc, upd_length by exact H1. auto. }
    split; [|split].
    + rewrite app_nil_r. unfold read at 1. cbn [len off arr]. apply (proj1 (Hr ctx)).
    + destruct (Hr {| arr := arr ctx; off := off ctx; len := len ctx; cap := len ctx |}) as [_ Hvv]. apply Hvv.
      unfold valid, cells in *. cbn [arr off len cap]. lia.
    + intros s Hs. destruct (Hr s) as [Hr1 Hr2]. auto.
  - (* at least one field: len + n > len = cap, a new array *)
    assert (Hlt : (len ctx + length (f :: fs') <=? len ctx) = false) by (apply Nat.leb_gt; cbn [length]; lia).
    rewrite Hlt. cbn [fst snd]. set (n := length (f :: fs')) in *. set (c := newcap (len ctx) (len ctx + n)).
    assert (Hrd : read h (slice3 ctx) = read h ctx) by reflexivity. rewrite Hrd.
    set (newa := read h ctx ++ (f :: fs') ++ repeat d (c - (len ctx + n))).
    assert (Hnew : cells (h ++ [newa]) {| arr := length h; off := 0; len := len ctx + n; cap := c |} = newa).
    { unfold cells. cbn [arr]. rewrite app_nth2 by lia. now rewrite Nat.sub_diag. }
    assert (Hlen : length newa = c).
    { unfold newa. rewrite !app_length, (read_length h ctx Hv), repeat_length. fold n. pose proof (newcap_ge (len ctx) (len ctx + n)). fold c in H. lia. }
    split; [|split].
    + unfold read at 1. rewrite Hnew. cbn [len off skipn]. unfold newa. rewrite app_assoc.
      rewrite firstn_app. rewrite app_length, (read_length h ctx Hv). fold n.
      rewrite Nat.sub_diag. cbn [firstn]. rewrite app_nil_r. apply firstn_all2. rewrite app_length, (read_length h ctx Hv). fold n. lia.
    + unfold valid. rewrite Hnew, Hlen. cbn [arr off len cap]. rewrite app_length. cbn [length].
      pose proof (newcap_ge (len ctx) (len ctx + n)). fold c in H. lia.
    + intros s (S1 & S2 & S3).
      assert (Hc : cells (h ++ [newa]) s = cells h s) by (unfold cells; now rewrite app_nth1).
      unfold read, valid. rewrite Hc, app_length. cbn [length]. repeat split; auto; lia.
Qed.

(* trees of observers, derived in any order: heap-level contexts vs. the pure lists *)
Fixpoint orun (h : heap) (obs : list slice) (ops : list (nat * list T)) : heap * list slice :=
  match ops with
  | [] => (h, obs)
  | (p, fs) :: r =>
      match nth_error obs p with
      | Some ctx => orun (fst (obs_with h ctx fs)) (obs ++ [snd (obs_with h ctx fs)]) r
      | None => orun h obs r
      end
  end.
Fixpoint prun (ctxs : list (list T)) (ops : list (nat * list T)) : list (list T) :=
  match ops with
  | [] => ctxs
  | (p, fs) :: r =>
      match nth_error ctxs p with
      | Some ctx => prun (ctxs ++ [ctx ++ fs]) r
      | None => prun ctxs r
      end
  end.

Theorem observer_no_alias ops : forall h obs, Forall (valid h) obs ->
  map (read (fst (orun h obs ops))) (snd (orun h obs ops)) = prun (map (read h) obs) ops.
Proof.
  induction ops as [|[p fs] r IH]; intros h obs Hv; [reflexivity|]. cbn [orun prun].
  rewrite nth_error_map. destruct (nth_error obs p) as [ctx|] eqn:E; cbn [option_map]; [|now apply IH].
  assert (Hc : valid h ctx). { rewrite Forall_forall in Hv. apply Hv. eapply nth_error_In; exact E. }
  destruct (obs_with_step h ctx fs Hc) as (Hr & Hvn & Hold).
  rewrite IH.
  - f_equal. rewrite map_app. cbn [map]. rewrite Hr. f_equal. apply map_ext_in. intros s Hs.
    rewrite Forall_forall in Hv. now apply Hold, Hv.
  - apply Forall_app. split; [|constructor; [exact Hvn|constructor]].
    rewrite Forall_forall in *. intros s Hs. now apply Hold, Hv.
Qed.

(* ---------- recorded entries: With and Write steps, entries re-read at the end ---------- *)
(* contextObserver.Write.  make() returns an array no existing slice refers to (a new heap index), of
   exactly len(context)+len(fields) cells; the two appends fill it in place (never beyond its capacity). *)
Definition obs_write (h : heap) (ctx : slice) (fs : list T) : heap * slice :=
  let xs := read h ctx ++ fs in
  (h ++ [xs], {| arr := length h; off := 0; len := length xs; cap := length xs |}).
(* the variant that re-uses the logger's own array when it has room *)
Definition obs_write_append (h : heap) (ctx : slice) (fs : list T) : heap * slice := append h ctx fs.

Lemma obs_write_step h ctx fs :
  read (fst (obs_write h ctx fs)) (snd (obs_write h ctx fs)) = read h ctx ++ fs /\
  valid (fst (obs_write h ctx fs)) (snd (obs_write h ctx fs)) /\
  (forall s, valid h s -> read (fst (obs_write h ctx fs)) s = read h s /\ valid (fst (obs_write h ctx fs)) s).
Proof.
  unfold obs_write. cbn [fst snd]. set (xs := read h ctx ++ fs).
  assert (Hnew : cells (h ++ [xs]) {| arr := length h; off := 0; len := length xs; cap := length xs |} = xs).
  { unfold cells. cbn [arr]. rewrite app_nth2 by lia. now rewrite Nat.sub_diag. }
  split; [|split].
  - unfold read. rewrite Hnew. cbn [len off skipn]. apply firstn_all.
  - unfold valid. rewrite Hnew. cbn [arr off len cap]. rewrite app_length. cbn [length]. lia.
  - intros s (S1 & S2 & S3).
    assert (Hc : cells (h ++ [xs]) s = cells h s) by (unfold cells; now rewrite app_nth1).
    unfold read, valid. rewrite Hc, app_length. cbn [length]. repeat split; auto; lia.
Qed.

Inductive oop := OWith (p : nat) (fs : list T) | OWrite (p : nat) (fs : list T).
Record ostate := { oheap : heap; oobs : list slice; ologs : list slice }.
Section Run.
Variable wr : heap -> slice -> list T -> heap * slice.      (* the Write under consideration *)
Fixpoint orunw (st : ostate) (ops : list oop) : ostate :=
  match ops with
  | [] => st
  | OWith p fs :: r =>
      match nth_error (oobs st) p with
      | Some ctx => orunw {| oheap := fst (obs_with (oheap st) ctx fs);
                             oobs := oobs st ++ [snd (obs_with (oheap st) ctx fs)]; ologs := ologs st |} r
      | None => orunw st r
      end
  | OWrite p fs :: r =>
      match nth_error (oobs st) p with
      | Some ctx => orunw {| oheap := fst (wr (oheap st) ctx fs); oobs := oobs st;
                             ologs := ologs st ++ [snd (wr (oheap st) ctx fs)] |} r
      | None => orunw st r
      end
  end.
End Run.
(* the pure reading: contexts and recorded entries are values *)
Fixpoint prunw (ctxs logs : list (list T)) (ops : list oop) : list (list T) * list (list T) :=
  match ops with
  | [] => (ctxs, logs)
  | OWith p fs :: r =>
      match nth_error ctxs p with
      | Some ctx => prunw (ctxs ++ [ctx ++ fs]) logs r
      | None => prunw ctxs logs r
      end
  | OWrite p fs :: r =>
      match nth_error ctxs p with
      | Some ctx => prunw ctxs (logs ++ [ctx ++ fs]) r
      | None => prunw ctxs logs r
      end
  end.
Definition oreads (st : ostate) : list (list T) * list (list T) :=
  (map (read (oheap st)) (oobs st), map (read (oheap st)) (ologs st)).
Definition ovalid (st : ostate) : Prop := Forall (valid (oheap st)) (oobs st) /\ Forall (valid (oheap st)) (ologs st).

Lemma Forall_keep (h h' : heap) (l : list slice) :
  (forall s, valid h s -> read h' s = read h s /\ valid h' s) -> Forall (valid h) l ->
  map (read h') l = map (read h) l /\ Forall (valid h') l.
Proof.
  intros Hk Hv. split.
  - apply map_ext_in. intros s Hs. rewrite Forall_forall in Hv. now apply Hk, Hv.
  - rewrite Forall_forall in *. intros s Hs. now apply Hk, Hv.
Qed.

(* every logger's context and EVERY RECORDED ENTRY, read in the final heap, is its pure value *)
Theorem observer_entries_stable ops : forall st, ovalid st ->
  oreads (orunw obs_write st ops) = prunw (fst (oreads st)) (snd (oreads st)) ops /\ ovalid (orunw obs_write st ops).
Proof.
  induction ops as [|[p fs|p fs] r IH]; intros st [Ho Hl]; [split; [reflexivity|now split]| |];
    cbn [orunw prunw]; unfold oreads at 2 3; cbn [fst snd]; rewrite nth_error_map;
    destruct (nth_error (oobs st) p) as [ctx|] eqn:E; cbn [option_map]; try (apply IH; now split).
  - assert (Hc : valid (oheap st) ctx). { rewrite Forall_forall in Ho. apply Ho. eapply nth_error_In; exact E. }
    destruct (obs_with_step (oheap st) ctx fs Hc) as (Hr & Hvn & Hold).
    destruct (Forall_keep _ _ _ Hold Ho) as [Ro Vo]. destruct (Forall_keep _ _ _ Hold Hl) as [Rl Vl].
    set (st1 := {| oheap := fst (obs_with (oheap st) ctx fs); oobs := oobs st ++ [snd (obs_with (oheap st) ctx fs)]; ologs := ologs st |}).
    assert (V1 : ovalid st1).
    { split; cbn [st1 oheap oobs ologs]; [|exact Vl]. apply Forall_app. split; [exact Vo|constructor; [exact Hvn|constructor]]. }
    destruct (IH st1 V1) as [I1 I2]. split; [|exact I2]. rewrite I1. unfold oreads. cbn [st1 oheap oobs ologs fst snd].
    rewrite map_app. cbn [map]. now rewrite Hr, Ro, Rl.
  - destruct (obs_write_step (oheap st) ctx fs) as (Hr & Hvn & Hold).
    destruct (Forall_keep _ _ _ Hold Ho) as [Ro Vo]. destruct (Forall_keep _ _ _ Hold Hl) as [Rl Vl].
    set (st1 := {| oheap := fst (obs_write (oheap st) ctx fs); oobs := oobs st; ologs := ologs st ++ [snd (obs_write (oheap st) ctx fs)] |}).
    assert (V1 : ovalid st1).
    { split; cbn [st1 oheap oobs ologs]; [exact Vo|]. apply Forall_app. split; [exact Vl|constructor; [exact Hvn|constructor]]. }
    destruct (IH st1 V1) as [I1 I2]. split; [|exact I2]. rewrite I1. unfold oreads. cbn [st1 oheap oobs ologs fst snd].
    rewrite map_app. cbn [map]. now rewrite Hr, Ro, Rl.
Qed.

(* the pure program only ever ADDS entries *)
Lemma prunw_app a : forall b cs ls,
  prunw cs ls (a ++ b) = prunw (fst (prunw cs ls a)) (snd (prunw cs ls a)) b.
Proof.
  induction a as [|[p fs|p fs] r IH]; intros b cs ls; cbn [app prunw]; [reflexivity| |];
    destruct (nth_error cs p); apply IH.
Qed.
Lemma prunw_logs_prefix ops : forall cs ls, exists rest, snd (prunw cs ls ops) = ls ++ rest.
Proof.
  induction ops as [|[p fs|p fs] r IH]; intros cs ls; cbn [prunw].
  - exists []. now rewrite app_nil_r.
  - destruct (nth_error cs p); apply IH.
  - destruct (nth_error cs p) as [ctx|]; [|apply IH].
    destruct (IH cs (ls ++ [ctx ++ fs])) as [rest Hr]. exists ((ctx ++ fs) :: rest). rewrite Hr. now rewrite <- app_assoc.
Qed.
Lemma orunw_app wr a : forall b st, orunw wr st (a ++ b) = orunw wr (orunw wr st a) b.
Proof.
  induction a as [|[p fs|p fs] r IH]; intros b st; cbn [app orunw]; [reflexivity| |];
    destruct (nth_error (oobs st) p); apply IH.
Qed.

(* snapshot twice: the entries recorded by [ops1], read again after ANY further operations [ops2]
   (later entries of the same logger, of any other logger, later derivations), are what they were when
   read immediately after [ops1] *)
Theorem observer_entries_reread ops1 ops2 st : ovalid st ->
  firstn (length (ologs (orunw obs_write st ops1)))
         (snd (oreads (orunw obs_write st (ops1 ++ ops2)))) = snd (oreads (orunw obs_write st ops1)).
Proof.
  intros Hv. rewrite orunw_app.
  destruct (observer_entries_stable ops1 st Hv) as [E1 V1].
  destruct (observer_entries_stable ops2 _ V1) as [E2 _].
  rewrite E2. destruct (prunw_logs_prefix ops2 (fst (oreads (orunw obs_write st ops1))) (snd (oreads (orunw obs_write st ops1)))) as [rest Hr].
  rewrite Hr. unfold oreads at 1. cbn [snd].
  replace (length (ologs (orunw obs_write st ops1))) with (length (map (read (oheap (orunw obs_write st ops1))) (ologs (orunw obs_write st ops1)))) by apply map_length.
  change (map (read (oheap (orunw obs_write st ops1))) (ologs (orunw obs_write st ops1))) with (snd (oreads (orunw obs_write st ops1))).
  rewrite firstn_app, Nat.sub_diag, firstn_all. cbn [firstn]. apply app_nil_r.
Qed.
End Slices.

(* the two-index variant: runtime growth by doubling, a chain of three Withs leaves spare capacity,
   two children of the last logger share the cell after it *)
Definition double_cap (c n : nat) : nat := Nat.max (2 * c) n.
Lemma double_cap_ge c n : n <= double_cap c n.
Proof. unfold double_cap. lia. Qed.
Fixpoint orun2 (h : heap nat) (obs : list slice) (ops : list (nat * list nat)) : heap nat * list slice :=
  match ops with
  | [] => (h, obs)
  | (p, fs) :: r =>
      match nth_error obs p with
      | Some ctx => orun2 (fst (obs_with_two_index nat 0 double_cap h ctx fs)) (obs ++ [snd (obs_with_two_index nat 0 double_cap h ctx fs)]) r
      | None => orun2 h obs r
      end
  end.
Definition nil_slice : slice := {| arr := 0; off := 0; len := 0; cap := 0 |}.
Definition alias_witness : list (nat * list nat) := [(0, [1]); (1, [2]); (2, [3]); (3, [10]); (3, [20])].
(* node 4 = root.With(1).With(2).With(3).With(10) should read [1;2;3;10] *)
Lemma observer_two_index_refuted :
  let '(h, obs) := orun2 [[]] [nil_slice] alias_witness in
  map (read nat h) obs <> prun nat (map (read nat [[]]) [nil_slice]) alias_witness /\
  nth 4 (map (read nat h) obs) [] = [1; 2; 3; 20].
Proof. vm_compute. split; [discriminate|reflexivity]. Qed.
(* the same program under the code as it is (three-index slice) *)
Example observer_three_index_witness :
  let '(h, obs) := orun nat 0 double_cap [[]] [nil_slice] alias_witness in
  map (read nat h) obs = [[]; [1]; [1; 2]; [1; 2; 3]; [1; 2; 3; 10]; [1; 2; 3; 20]].
Proof. vm_compute. reflexivity. Qed.

(* Write re-using the logger's array: With(1,2).With(3) leaves len 3, cap 4; two entries logged through
   that logger with one call-site field each share cell 3 *)
Definition write_witness : list (oop nat) := [OWith nat 0 [1; 2]; OWith nat 1 [3]; OWrite nat 2 [10]; OWrite nat 2 [20]].
Definition ost0 : ostate nat := {| oheap := [[]]; oobs := [nil_slice]; ologs := [] |}.
Lemma observer_write_append_refuted :
  let st := orunw nat 0 double_cap (obs_write_append nat 0 double_cap) ost0 write_witness in
  snd (oreads nat st) <> snd (prunw nat [[]] [] write_witness) /\
  snd (oreads nat st) = [[1; 2; 3; 20]; [1; 2; 3; 20]] /\
  (* ... although each entry, read immediately after its own call, was right *)
  snd (oreads nat (orunw nat 0 double_cap (obs_write_append nat 0 double_cap) ost0 (firstn 3 write_witness))) = [[1; 2; 3; 10]].
Proof. vm_compute. split; [discriminate|split; reflexivity]. Qed.
(* the same program under the code as it is *)
Example observer_write_witness :
  snd (oreads nat (orunw nat 0 double_cap (obs_write nat) ost0 write_witness)) = [[1; 2; 3; 10]; [1; 2; 3; 20]].
Proof. vm_compute. reflexivity. Qed.

(* ---------- encoder buffers ---------- *)
Definition bheap := list bytes.                       (* buffer id -> content *)
Record enc := { ebuf : nat; ens : nat }.               (* jsonEncoder: buf, openNamespaces *)
Definition bread (h : bheap) (e : enc) : bytes := nth (ebuf e) h [].
(* jsonEncoder.Clone: clone() takes a buffer no live encoder holds, then copies the bytes into it *)
Definition clone (h : bheap) (e : enc) : bheap * enc := (h ++ [bread h e], {| ebuf := length h; ens := ens e |}).
Definition clone_shared (h : bheap) (e : enc) : bheap * enc := (h, {| ebuf := ebuf e; ens := ens e |}).
(* addFields: appends into the encoder's own buffer, in place *)
Definition add_bytes (h : bheap) (e : enc) (bs : bytes) (dns : nat) : bheap * enc :=
  (upd h (ebuf e) (bread h e ++ bs), {| ebuf := ebuf e; ens := ens e + dns |}).
(* ioCore.With *)
Definition io_with (h : bheap) (e : enc) (bs : bytes) (dns : nat) : bheap * enc :=
  add_bytes (fst (clone h e)) (snd (clone h e)) bs dns.
Definition io_with_shared (h : bheap) (e : enc) (bs : bytes) (dns : nat) : bheap * enc :=
  add_bytes (fst (clone_shared h e)) (snd (clone_shared h e)) bs dns.

Theorem clone_fresh_buffer_thm h e bs dns : ebuf e < length h ->
  bread (fst (io_with h e bs dns)) (snd (io_with h e bs dns)) = bread h e ++ bs /\
  ens (snd (io_with h e bs dns)) = ens e + dns /\
  (forall e0, ebuf e0 < length h -> bread (fst (io_with h e bs dns)) e0 = bread h e0).
Proof.
  intros He. unfold io_with, clone, add_bytes. cbn [fst snd ebuf ens].
  assert (Hb : bread (h ++ [bread h e]) {| ebuf := length h; ens := ens e |} = bread h e).
  { unfold bread at 1. cbn [ebuf]. rewrite app_nth2 by lia. now rewrite Nat.sub_diag. }
  rewrite Hb. split; [|split; [reflexivity|]].
  - unfold bread at 1. cbn [ebuf]. apply nth_upd_same. rewrite app_length. cbn [length]. lia.
  - intros e0 H0. unfold bread at 1. rewrite nth_upd_other by (rewrite ?app_length; cbn [length]; lia). unfold bread. now rewrite app_nth1.
Qed.

Lemma clone_shared_refuted :
  exists h e bs, ebuf e < length h /\ bread (fst (io_with_shared h e bs 0)) e <> bread h e.
Proof. exists [[x7b]], {| ebuf := 0; ens := 0 |}, [x61]. split; [cbn; lia|]. vm_compute. discriminate. Qed.

(* placeholder *)

(* C07 — sink faults (Model.v [apply_faults]): a failing WriteSyncer removes its own line of that call from
   the observation and nothing else. *)
From Coq Require Import List ZArith Bool Lia PeanoNat.
From Coq.Strings Require Import Byte.
Import ListNotations.
From Zap Require Import Base.Wire C07.Model C07.Main.

Lemma faults_length fls : forall l, length (apply_faults fls l) = length l.
Proof.
  induction fls as [|fl fr IH]; intros [|evs r]; cbn [apply_faults length]; try reflexivity. now rewrite IH.
Qed.

Lemma faults_nil l : apply_faults [] l = l.
Proof. now destruct l. Qed.

Lemma drop_failed_nil evs : drop_failed [] evs = evs.
Proof.
  unfold drop_failed. induction evs as [|e r IH]; [reflexivity|]. cbn [filter].
  replace (negb (failed [] e)) with true by now destruct e. now rewrite IH.
Qed.

Lemma faults_none n : forall l, apply_faults (repeat [] n) l = l.
Proof.
  induction n as [|n IH]; intros [|evs r]; cbn [repeat apply_faults]; try reflexivity.
  now rewrite drop_failed_nil, IH.
Qed.

Lemma fault_free n l : apply_faults (repeat [] n) l = l /\ length (apply_faults (repeat [] n) l) = length l.
Proof. split; [apply faults_none|apply faults_length]. Qed.

Lemma nth_faults fls : forall l j,
  nth j (apply_faults fls l) [] = drop_failed (nth j fls []) (nth j l []).
Proof.
  induction fls as [|fl fr IH]; intros l j.
  - rewrite faults_nil. replace (nth j [] []) with (@nil nat) by now destruct j. now rewrite drop_failed_nil.
  - destruct l as [|evs r]; cbn [apply_faults].
    + replace (nth j [] []) with (@nil ev) by now destruct j. reflexivity.
    + destruct j as [|j]; cbn [nth]; [reflexivity|]. apply IH.
Qed.

(* a sink that did not fail the write of call j holds for call j exactly what the fault-free history
   prescribes (in particular: every LATER entry of a sink that failed an earlier write) *)
Theorem fault_local fls l j k : existsb (Nat.eqb k) (nth j fls []) = false ->
  filter (is_out k) (nth j (apply_faults fls l) []) = filter (is_out k) (nth j l []).
Proof.
  intros Hk. rewrite nth_faults. unfold drop_failed.
  induction (nth j l []) as [|e r IH]; [reflexivity|]. cbn [filter].
  destruct (is_out k e) eqn:Eo.
  - destruct e as [| |k' o]; cbn [is_out] in Eo; try discriminate.
    apply Nat.eqb_eq in Eo. subst k'. cbn [failed]. rewrite Hk. cbn [negb filter is_out].
    rewrite Nat.eqb_refl. now rewrite IH.
  - destruct (negb (failed (nth j fls []) e)); cbn [filter]; [rewrite Eo|]; exact IH.
Qed.

(* the sampler-hook / hooked-function events of a call are untouched by sink failures *)
Theorem fault_aux fls l j :
  filter is_aux (nth j (apply_faults fls l) []) = filter is_aux (nth j l []).
Proof.
  rewrite nth_faults. unfold drop_failed.
  induction (nth j l []) as [|e r IH]; [reflexivity|]. cbn [filter].
  destruct e as [| |k o]; cbn [failed negb filter is_aux]; try now rewrite IH.
  destruct (existsb (Nat.eqb k) (nth j fls [])); cbn [negb filter is_aux]; exact IH.
Qed.

(* the failing sink holds nothing of that call *)
Theorem fault_dropped fls l j k : existsb (Nat.eqb k) (nth j fls []) = true ->
  filter (is_out k) (nth j (apply_faults fls l) []) = [].
Proof.
  intros Hk. rewrite nth_faults. unfold drop_failed.
  induction (nth j l []) as [|e r IH]; [reflexivity|]. cbn [filter].
  destruct (negb (failed (nth j fls []) e)) eqn:Ef; [|exact IH]. cbn [filter].
  destruct (is_out k e) eqn:Eo; [|exact IH].
  destruct e as [| |k' o]; cbn [is_out] in Eo; try discriminate.
  apply Nat.eqb_eq in Eo. subst k'. cbn [failed] in Ef. rewrite Hk in Ef. discriminate.
Qed.

(* exactness under every assignment of sink failures to the calls of every program *)
Theorem faults_exact c ops fls : wf_comp c = true -> forallb wf_op ops = true ->
  apply_faults fls (run_events c ops) = apply_faults fls (spec_events c ops).
Proof. intros Hc Hops. now rewrite (exact_thm c ops Hc Hops). Qed.

(* C07 — proofs, part 4: the simulation between the operational model (loggers holding cores, a
   store of Once cells) and the path specification, for every program and every order of operations;
   the theorems of the property. *)
From Coq Require Import List ZArith NArith Bool Lia.
From Coq.Strings Require Import Byte.
Import ListNotations.
From Zap Require Import Base.Wire Enc.Bytes Enc.Fields Enc.JsonEnc Enc.JsonAst Enc.WireEnc Enc.Wf.
From Zap Require Import C07.Model C07.Proofs C07.Sim C07.Path.

(* ---------- names ---------- *)
Definition nonempty (s : bytes) : bool := negb (is_nil s).
Lemma join_dot_snoc l s : join_dot (l ++ [s]) = if is_nil l then s else join_dot l ++ [DOT] ++ s.
Proof.
  induction l as [|x r IH]; [reflexivity|]. cbn [app is_nil].
  destruct r as [|y r']; [reflexivity|]. cbn [app] in *. cbn [join_dot] in *. rewrite IH. cbn [is_nil].
  now rewrite <- !app_assoc.
Qed.
Lemma join_dot_nil_iff l : Forall (fun s => s <> []) l -> is_nil (join_dot l) = is_nil l.
Proof.
  destruct l as [|x r]; [reflexivity|]. intros H. inversion H as [|? ? Hx _]; subst. cbn [is_nil].
  destruct r as [|y r']; cbn [join_dot]; destruct x; try congruence; reflexivity.
Qed.
(* Logger.Named on the dot-joined non-empty segments *)
Lemma path_name_snoc sg s :
  path_name (sg ++ [s]) =
    if is_nil s then path_name sg
    else if is_nil (path_name sg) then s else path_name sg ++ [DOT] ++ s.
Proof.
  unfold path_name. rewrite filter_app. cbn [filter]. destruct s as [|b r]; cbn [is_nil negb].
  - now rewrite app_nil_r.
  - rewrite join_dot_snoc. rewrite join_dot_nil_iff; [reflexivity|].
    apply Forall_forall. intros x Hx. apply filter_In in Hx as [_ Hx]. destruct x; [discriminate|discriminate].
Qed.

(* ---------- generic ---------- *)
Lemma Forall2_nth_error {A B} (R : A -> B -> Prop) l1 l2 n : Forall2 R l1 l2 ->
  match nth_error l1 n, nth_error l2 n with
  | Some a, Some b => R a b
  | None, None => True
  | _, _ => False
  end.
Proof.
  intros H. revert n. induction H as [|a b r1 r2 Hab _ IH]; intros [|n]; cbn [nth_error]; auto. apply IH.
Qed.
Lemma Forall2_impl_in' {A B} (R R' : A -> B -> Prop) l1 l2 :
  (forall a b, In a l1 -> In b l2 -> R a b -> R' a b) -> Forall2 R l1 l2 -> Forall2 R' l1 l2.
Proof.
  intros H F. induction F as [|a b r1 r2 Hab _ IH]; constructor.
  - apply H; [now left|now left|exact Hab].
  - apply IH. intros x y Hx Hy. apply H; now right.
Qed.
Lemma NoDup_app_intro {A} (a b : list A) : NoDup a -> NoDup b -> (forall x, In x a -> ~ In x b) -> NoDup (a ++ b).
Proof.
  intros Ha Hb Hd. induction Ha as [|x r Hx _ IH]; cbn [app]; [exact Hb|]. constructor.
  - intros Hin. apply in_app_iff in Hin as [Hin|Hin]; [contradiction|]. apply (Hd x); [now left|exact Hin].
  - apply IH. intros y Hy. apply Hd. now right.
Qed.
Lemma prefixes_lazy_ids its a id fs : In (a, PLazy id fs) (prefixes its) -> In id (lazy_ids its).
Proof.
  intros H. destruct (prefixes_split _ _ _ H) as (b & ->). rewrite lazy_ids_app, lazy_ids_cons_lazy.
  apply in_app_iff. right. now left.
Qed.
Lemma prefixes_lazy_sub its a it : In (a, it) (prefixes its) -> incl (lazy_ids a) (lazy_ids its).
Proof.
  intros H. destruct (prefixes_split _ _ _ H) as (b & ->). rewrite lazy_ids_app. intros x Hx. apply in_app_iff. now left.
Qed.

(* ---------- the invariant ---------- *)
Definition node_rel (m : marks) (root : lcomp) (lg : logger) (sn : snode) : Prop :=
  lname lg = path_name (segs sn) /\ lcore lg = expect m root (items sn).
Definition node_ok (m : marks) (sg : store) (root : lcomp) (nx : nat) (sn : snode) : Prop :=
  path_ok m sg root (items sn) /\ NoDup (all_ids root ++ lazy_ids (items sn)) /\ wf_items (items sn) = true /\
  Forall (fun id => id < nx) (lazy_ids (items sn)).
(* loggers that hold the same cell reached it along the same path *)
Definition share (sns : list snode) : Prop :=
  forall sn1 sn2 a1 a2 id fs1 fs2, In sn1 sns -> In sn2 sns ->
    In (a1, PLazy id fs1) (prefixes (items sn1)) -> In (a2, PLazy id fs2) (prefixes (items sn2)) ->
    a1 = a2 /\ fs1 = fs2.
Record Inv (root : lcomp) (s : state) (ss : sstate) : Prop := {
  inv_nxt : nxt s = snxt ss;
  inv_nodes : Forall2 (node_rel (smarks ss) root) (nodes s) (snodes ss);
  inv_root : root_ok (smarks ss) (sto s) root;
  inv_path : Forall (node_ok (smarks ss) (sto s) root (snxt ss)) (snodes ss);
  inv_share : share (snodes ss);
  inv_rootids : Forall (fun id => id < snxt ss) (all_ids root);
  inv_fresh : forall id, snxt ss <= id -> lookup id (smarks ss) = None /\ lookup id (sto s) = None
}.

Lemma all_marked_mext m m' l : mext m m' -> all_marked m l -> all_marked m' l.
Proof.
  intros He H. eapply Forall_impl; [|exact H]. intros id Hm. unfold marked in *.
  destruct (lookup id m) as [v|] eqn:E; [|congruence]. rewrite (He id v E). discriminate.
Qed.

(* a logger's core does not depend on marks made later *)
Lemma expect_mext m m' sg root : mext m m' -> forall its, path_ok m sg root its -> expect m' root its = expect m root its.
Proof.
  intros He. induction its as [|it its IH] using rev_ind; intros Hp; [reflexivity|].
  apply path_ok_snoc in Hp as [Hp0 Hit]. destruct it as [w fs|id fs].
  - rewrite !expect_snoc_eager. f_equal. apply pexp_ext. intros i Hi. cbn [item_ok] in Hit.
    apply (mext_agree m m' _ He Hit). rewrite lazy_ids_app in Hi. cbn [lazy_ids map concat] in Hi. now rewrite !app_nil_r in Hi.
  - rewrite !expect_snoc_lazy. f_equal. now apply IH.
Qed.

(* an item of another logger's path, whose cell is not touched *)
Lemma item_ok_other m sg m' sg' root a id fs : mext m m' ->
  lookup id sg' = lookup id sg -> lookup id m' = lookup id m ->
  item_ok m sg root (a, PLazy id fs) -> item_ok m' sg' root (a, PLazy id fs).
Proof.
  intros He Hs Hm [Hc Hcl]. cbn [item_ok]. split.
  - unfold cell_ok in *. rewrite Hs, Hm, Hc. destruct (lookup id m) as [v|] eqn:E; [|reflexivity]. f_equal.
    assert (Hall : all_marked m (all_ids root ++ lazy_ids a)) by (apply Hcl; unfold marked; congruence).
    apply pexp_ext. intros i Hi. symmetry. rewrite lazy_ids_app in Hi. cbn [lazy_ids map concat] in Hi. rewrite app_nil_r in Hi.
    rewrite app_assoc in Hi. apply in_app_iff in Hi as [Hi|[<-|[]]]; [|congruence].
    now apply (mext_agree m m' _ He Hall).
  - unfold marked in *. rewrite Hm. intros Hmm. apply (all_marked_mext m m' _ He). now apply Hcl.
Qed.

(* what an operation on logger [p] leaves true of every logger *)
Lemma force_preserved root s ss p w F sg' :
  Inv root s ss -> In p (snodes ss) -> incl F (all_ids root ++ lazy_ids (items p)) ->
  root_ok (mark_all w F (smarks ss)) sg' root ->
  path_ok (mark_all w F (smarks ss)) sg' root (items p) ->
  (forall id, ~ In id (all_ids root ++ lazy_ids (items p)) -> lookup id sg' = lookup id (sto s)) ->
  Inv root {| nodes := nodes s; sto := sg'; nxt := nxt s |}
           {| snodes := snodes ss; smarks := mark_all w F (smarks ss); snxt := snxt ss |}.
Proof.
  intros HI Hp HF Hroot' Hpath' Hfr. destruct HI as [Hnx Hnodes Hroot Hpaths Hshare Hrids Hfresh].
  set (m := smarks ss) in *. set (m' := mark_all w F m) in *.
  assert (He : mext m m') by apply mext_mark_all.
  rewrite Forall_forall in Hpaths.
  destruct (Hpaths p Hp) as (Hpp & Hndp & _ & Hltp).
  assert (HFlt : forall id, In id F -> id < snxt ss).
  { intros id Hid. apply HF in Hid. apply in_app_iff in Hid as [Hid|Hid].
    - rewrite Forall_forall in Hrids. now apply Hrids.
    - rewrite Forall_forall in Hltp. now apply Hltp. }
  constructor; cbn [nodes sto nxt snodes smarks snxt].
  - exact Hnx.
  - eapply Forall2_impl_in'; [|exact Hnodes].
    intros lg sn _ Hsn [Hn Hc]. split; [exact Hn|]. rewrite Hc. symmetry.
    destruct (Hpaths sn Hsn) as (Hq & _). now apply (expect_mext m m' (sto s)).
  - exact Hroot'.
  - apply Forall_forall. intros q Hq. destruct (Hpaths q Hq) as (Hpq & Hndq & Hwq & Hltq).
    split; [|auto]. unfold path_ok in *. rewrite Forall_forall in *. intros [a it] Hin.
    specialize (Hpq _ Hin). destruct it as [w0 fs0|id fs].
    + cbn [item_ok] in *. now apply (all_marked_mext m m').
    + destruct (in_dec Nat.eq_dec id (lazy_ids (items p))) as [Hidp|Hidp].
      * destruct (prefixes_lazy_in _ _ Hidp) as (a' & fs' & Hin').
        destruct (Hshare q p a a' id fs fs' Hq Hp Hin Hin') as [-> ->]. now apply Hpath'.
      * assert (Hidq : In id (lazy_ids (items q))) by (eapply prefixes_lazy_ids; exact Hin).
        assert (Hnr : ~ In id (all_ids root)).
        { intros Hr. apply NoDup_app_inv in Hndq as (_ & _ & Hd). exact (Hd id Hr Hidq). }
        assert (Hout : ~ In id (all_ids root ++ lazy_ids (items p))) by (intros H; apply in_app_iff in H as [H|H]; contradiction).
        apply (item_ok_other m (sto s)); [exact He|now apply Hfr| |exact Hpq].
        unfold m'. apply lookup_mark_all_out. intros HinF. apply Hout. now apply HF.
  - exact Hshare.
  - exact Hrids.
  - intros id Hid. destruct (Hfresh id Hid) as [H1 H2]. split.
    + unfold m'. rewrite lookup_mark_all_out; [exact H1|]. intros HinF. apply HFlt in HinF. lia.
    + rewrite Hfr; [exact H2|]. intros Hin. apply in_app_iff in Hin as [Hin|Hin].
      * rewrite Forall_forall in Hrids. apply Hrids in Hin. lia.
      * rewrite Forall_forall in Hltp. apply Hltp in Hin. lia.
Qed.

(* adding a logger *)
Lemma add_node root s ss lg sn nx' :
  Inv root s ss -> node_rel (smarks ss) root lg sn -> node_ok (smarks ss) (sto s) root nx' sn ->
  snxt ss <= nx' -> share (snodes ss ++ [sn]) ->
  Inv root {| nodes := nodes s ++ [lg]; sto := sto s; nxt := nx' |}
           {| snodes := snodes ss ++ [sn]; smarks := smarks ss; snxt := nx' |}.
Proof.
  intros [Hnx Hnodes Hroot Hpaths Hshare Hrids Hfresh] Hrel Hok Hle Hsh.
  constructor; cbn [nodes sto nxt snodes smarks snxt].
  - reflexivity.
  - apply Forall2_app; [exact Hnodes|]. constructor; [exact Hrel|constructor].
  - exact Hroot.
  - apply Forall_app. split; [|constructor; [exact Hok|constructor]].
    eapply Forall_impl; [|exact Hpaths]. intros q (H1 & H2 & H3 & H4). repeat split; auto.
    eapply Forall_impl; [|exact H4]. intros x Hx; cbn beta in *; lia.
  - exact Hsh.
  - eapply Forall_impl; [|exact Hrids]. intros x Hx; cbn beta in *; lia.
  - intros id Hid. apply Hfresh. lia.
Qed.

(* the lazily evaluated entries of a new logger's path are its parent's, plus at most a fresh one *)
Lemma share_add sns p sn nx fs0 : share sns -> In p sns ->
  (forall q, In q sns -> Forall (fun id => id < nx) (lazy_ids (items q))) ->
  (forall a id fs, In (a, PLazy id fs) (prefixes (items sn)) ->
     In (a, PLazy id fs) (prefixes (items p)) \/ (a = items p /\ id = nx /\ fs = fs0)) ->
  share (sns ++ [sn]).
Proof.
  intros Hsh Hp Hlt Hnew.
  assert (Hcls : forall sn' a id fs, In sn' (sns ++ [sn]) -> In (a, PLazy id fs) (prefixes (items sn')) ->
            (exists q, In q sns /\ In (a, PLazy id fs) (prefixes (items q))) \/ (a = items p /\ id = nx /\ fs = fs0)).
  { intros sn' a id fs Hin He. apply in_app_iff in Hin as [Hin|[<-|[]]].
    - left. now exists sn'.
    - destruct (Hnew a id fs He) as [H|H]; [left; now exists p|now right]. }
  intros sn1 sn2 a1 a2 id fs1 fs2 H1 H2 E1 E2.
  destruct (Hcls _ _ _ _ H1 E1) as [(q1 & Hq1 & E1')|(-> & -> & ->)];
    destruct (Hcls _ _ _ _ H2 E2) as [(q2 & Hq2 & E2')|(-> & Hid & ->)].
  - exact (Hsh q1 q2 a1 a2 id fs1 fs2 Hq1 Hq2 E1' E2').
  - subst id. apply prefixes_lazy_ids in E1'. specialize (Hlt q1 Hq1). rewrite Forall_forall in Hlt. apply Hlt in E1'. lia.
  - apply prefixes_lazy_ids in E2'. specialize (Hlt q2 Hq2). rewrite Forall_forall in Hlt. apply Hlt in E2'. lia.
  - auto.
Qed.

Lemma Inv_lt root s ss q : Inv root s ss -> In q (snodes ss) -> Forall (fun id => id < snxt ss) (lazy_ids (items q)).
Proof. intros HI Hq. pose proof (inv_path _ _ _ HI) as H. rewrite Forall_forall in H. now destruct (H q Hq) as (_ & _ & _ & ?). Qed.

(* ---------- one operation ---------- *)
Lemma wf_items_snoc its it : wf_items (its ++ [it]) = wf_items its && wf_sflds (item_fs it).
Proof. unfold wf_items. rewrite forallb_app. cbn [forallb]. unfold wf_item. now rewrite andb_true_r. Qed.

Lemma derive_eager_sim root s ss lg sn fs w :
  wf_lcomp root = true -> Inv root s ss -> In sn (snodes ss) -> node_rel (smarks ss) root lg sn -> wf_sflds fs = true ->
  let '(p, sg') := kwith root w fs (lcore lg) (sto s) in
  Inv root {| nodes := nodes s ++ [{| lname := lname lg; lcore := LPure p |}]; sto := sg'; nxt := nxt s |}
           {| snodes := snodes ss ++ [{| segs := segs sn; items := items sn ++ [PEager w fs] |}];
              smarks := mark_all w (all_ids root ++ lazy_ids (items sn)) (smarks ss); snxt := snxt ss |}.
Proof.
  intros Hwr HI Hsn [Hname Hcore] Hwf.
  pose proof (inv_path _ _ _ HI) as Hpaths. rewrite Forall_forall in Hpaths.
  destruct (Hpaths sn Hsn) as (Hp & Hnd & Hwi & Hlt).
  destruct (kwith_expect root w (items sn) fs (sto s) (smarks ss) Hnd (inv_root _ _ _ HI) Hp) as (sg' & E & Hroot' & Hpath' & Hfr).
  rewrite Hcore, E.
  set (m' := mark_all w (all_ids root ++ lazy_ids (items sn)) (smarks ss)) in *.
  pose proof (force_preserved root s ss sn w _ sg' HI Hsn (incl_refl _) Hroot' Hpath' Hfr) as HI'. fold m' in HI'.
  rewrite (inv_nxt _ _ _ HI) in *.
  apply (add_node root _ _ _ _ (snxt ss) HI'); cbn [snodes smarks sto snxt segs items].
  - split; cbn [lname lcore segs items]; [exact Hname|]. now rewrite expect_snoc_eager.
  - unfold node_ok. cbn [items]. repeat split.
    + apply path_ok_snoc. split; [exact Hpath'|]. cbn [item_ok]. apply all_marked_mark_all.
    + rewrite lazy_ids_app. cbn [lazy_ids map concat]. now rewrite !app_nil_r.
    + rewrite wf_items_snoc, Hwi. exact Hwf.
    + rewrite lazy_ids_app. cbn [lazy_ids map concat]. now rewrite !app_nil_r.
  - lia.
  - apply (share_add _ sn _ (snxt ss) []); [exact (inv_share _ _ _ HI)|exact Hsn| |].
    + intros q Hq. exact (Inv_lt root s ss q HI Hq).
    + cbn [items]. intros a id fs' Hin. left. rewrite prefixes_snoc in Hin. apply in_app_iff in Hin as [Hin|[E'|[]]]; [exact Hin|discriminate].
Qed.

Lemma same_node_sim root s ss lg sn sn' :
  Inv root s ss -> In sn (snodes ss) -> node_rel (smarks ss) root lg sn' -> items sn' = items sn ->
  Inv root {| nodes := nodes s ++ [lg]; sto := sto s; nxt := nxt s |}
           {| snodes := snodes ss ++ [sn']; smarks := smarks ss; snxt := snxt ss |}.
Proof.
  intros HI Hsn Hrel Hit. rewrite (inv_nxt _ _ _ HI).
  pose proof (inv_path _ _ _ HI) as Hpaths. rewrite Forall_forall in Hpaths.
  apply (add_node root s ss lg sn' (snxt ss) HI Hrel); [|lia|].
  - unfold node_ok. rewrite Hit. now apply Hpaths.
  - apply (share_add _ sn _ (snxt ss) []); [exact (inv_share _ _ _ HI)|exact Hsn| |].
    + intros q Hq. exact (Inv_lt root s ss q HI Hq).
    + rewrite Hit. intros a id fs Hin. now left.
Qed.

Lemma step_sim root s ss o : wf_lcomp root = true -> Inv root s ss -> wf_op o = true ->
  snd (step_op root s o) = snd (sstep root ss o) /\ Inv root (fst (step_op root s o)) (fst (sstep root ss o)).
Proof.
  intros Hwr HI Hwf. destruct o as [p st w|n hi msg fs w]; cbn [step_op sstep].
  - (* derivation *)
    pose proof (Forall2_nth_error _ _ _ p (inv_nodes _ _ _ HI)) as Hnth.
    destruct (nth_error (nodes s) p) as [lg|] eqn:E1; destruct (nth_error (snodes ss) p) as [sn|] eqn:E2; try contradiction; [|auto].
    assert (Hsn : In sn (snodes ss)) by (eapply nth_error_In; exact E2).
    destruct Hnth as [Hname Hcore].
    destruct st as [fs|fs|sgm|fs| |]; cbn [derive sderive forcing wf_op wf_step] in *.
    + (* With *)
      destruct fs as [|f fs']; cbn [is_nil negb].
      * split; [reflexivity|]. cbn [fst]. apply (same_node_sim root s ss lg sn sn HI Hsn); [now split|reflexivity].
      * pose proof (derive_eager_sim root s ss lg sn (f :: fs') w Hwr HI Hsn (conj Hname Hcore) Hwf) as H.
        destruct (kwith root w (f :: fs') (lcore lg) (sto s)) as [pc sg']. split; [reflexivity|exact H].
    + (* WithLazy *)
      destruct fs as [|f fs']; cbn [is_nil negb].
      * split; [reflexivity|]. cbn [fst]. apply (same_node_sim root s ss lg sn sn HI Hsn); [now split|reflexivity].
      * split; [reflexivity|]. cbn [fst]. rewrite (inv_nxt _ _ _ HI).
        pose proof (inv_path _ _ _ HI) as Hpaths. rewrite Forall_forall in Hpaths.
        destruct (Hpaths sn Hsn) as (Hp & Hnd & Hwi & Hlt).
        destruct (inv_fresh _ _ _ HI (snxt ss) (le_n _)) as [Hfm Hfs].
        apply (add_node root s ss _ _ (S (snxt ss)) HI); cbn [segs items lname lcore].
        -- split; cbn [lname lcore segs items]; [exact Hname|]. now rewrite expect_snoc_lazy, Hcore.
        -- unfold node_ok. cbn [items]. repeat split.
           ++ apply path_ok_snoc. split; [exact Hp|]. cbn [item_ok]. split.
              ** unfold cell_ok. now rewrite Hfm, Hfs.
              ** unfold marked. now rewrite Hfm.
           ++ rewrite lazy_ids_app. cbn [lazy_ids map concat app]. rewrite app_assoc. apply NoDup_app_intro; [exact Hnd|repeat constructor; intros []|].
              intros x Hx [<-|[]]. apply in_app_iff in Hx as [Hx|Hx].
              ** pose proof (inv_rootids _ _ _ HI) as Hr. rewrite Forall_forall in Hr. apply Hr in Hx. lia.
              ** rewrite Forall_forall in Hlt. apply Hlt in Hx. lia.
           ++ rewrite wf_items_snoc, Hwi. exact Hwf.
           ++ rewrite lazy_ids_app. apply Forall_app. split; [eapply Forall_impl; [|exact Hlt]; intros x Hx; cbn beta in *; lia|].
              cbn [lazy_ids map concat app]. constructor; [lia|constructor].
        -- lia.
        -- apply (share_add _ sn _ (snxt ss) (f :: fs')); [exact (inv_share _ _ _ HI)|exact Hsn| |].
           ++ intros q Hq. exact (Inv_lt root s ss q HI Hq).
           ++ cbn [items]. intros a id fs0 Hin. rewrite prefixes_snoc in Hin.
              apply in_app_iff in Hin as [Hin|[E'|[]]]; [now left|]. injection E' as <- <- <-. now right.
    + (* Named *)
      split; [now destruct (is_nil sgm)|].
      assert (Hrel : node_rel (smarks ss) root
                (if is_nil sgm then lg else {| lname := if is_nil (lname lg) then sgm else lname lg ++ [DOT] ++ sgm; lcore := lcore lg |})
                {| segs := segs sn ++ [sgm]; items := items sn |}).
      { split; cbn [segs items].
        - rewrite path_name_snoc. destruct (is_nil sgm); [exact Hname|]. cbn [lname]. now rewrite Hname.
        - destruct (is_nil sgm); exact Hcore. }
      pose proof (same_node_sim root s ss _ sn _ HI Hsn Hrel eq_refl) as H.
      destruct (is_nil sgm); exact H.
    + (* Fields *)
      pose proof (derive_eager_sim root s ss lg sn fs w Hwr HI Hsn (conj Hname Hcore) Hwf) as H.
      destruct (kwith root w fs (lcore lg) (sto s)) as [pc sg']. split; [reflexivity|exact H].
    + split; [reflexivity|]. cbn [fst]. apply (same_node_sim root s ss lg sn sn HI Hsn); [now split|reflexivity].
    + split; [reflexivity|]. cbn [fst]. apply (same_node_sim root s ss lg sn sn HI Hsn); [now split|reflexivity].
  - (* a logging call *)
    pose proof (Forall2_nth_error _ _ _ n (inv_nodes _ _ _ HI)) as Hnth.
    destruct (nth_error (nodes s) n) as [lg|] eqn:E1; destruct (nth_error (snodes ss) n) as [sn|] eqn:E2; try contradiction; [|auto].
    assert (Hsn : In sn (snodes ss)) by (eapply nth_error_In; exact E2).
    destruct Hnth as [Hname Hcore]. cbn [wf_op] in Hwf.
    pose proof (inv_path _ _ _ HI) as Hpaths. rewrite Forall_forall in Hpaths.
    destruct (Hpaths sn Hsn) as (Hp & Hnd & Hwi & Hlt).
    unfold do_log. rewrite Hcore, kenabled_expect.
    destruct (senabled hi root) eqn:Hen.
    + destruct (klog_expect root hi (lname lg) msg w fs Hwf Hwr Hen (items sn) (sto s) (smarks ss) Hwi Hnd (inv_root _ _ _ HI) Hp)
        as (sg' & E & Hroot' & Hpath' & Hfr).
      rewrite E, Hname. fold (log_marks hi root (items sn)).
      destruct (swalk _ hi (path_name (segs sn)) msg w fs root (items sn) false) as [[c1 w1] n1]. cbn [fst snd].
      split; [reflexivity|].
      assert (Hincl : incl (log_marks hi root (items sn)) (all_ids root ++ lazy_ids (items sn))).
      { unfold log_marks. destruct (is_nil (items sn)); [|apply incl_refl].
        intros x Hx. apply in_app_iff. left. now apply (log_ids_incl hi root). }
      exact (force_preserved root s ss sn w _ sg' HI Hsn Hincl Hroot' Hpath' Hfr).
    + split; [reflexivity|]. destruct s, ss; exact HI.
Qed.

Theorem run_sim root : wf_lcomp root = true -> forall ops s ss, Inv root s ss -> forallb wf_op ops = true ->
  snd (run root s ops) = snd (srun root ss ops).
Proof.
  intros Hwr. induction ops as [|o r IH]; intros s ss HI Hwf; [reflexivity|].
  cbn [forallb] in Hwf. apply andb_true_iff in Hwf as [Hwo Hwr'].
  destruct (step_sim root s ss o Hwr HI Hwo) as [He HI']. cbn [run srun].
  destruct (step_op root s o) as [s1 e1]. destruct (sstep root ss o) as [ss1 e1']. cbn [fst snd] in *. subst e1'.
  specialize (IH s1 ss1 HI' Hwr'). destruct (run root s1 r) as [s2 e2]. destruct (srun root ss1 r) as [ss2 e2'].
  cbn [snd] in *. now subst.
Qed.

(* ---------- the labelled root composition ---------- *)
Definition label_list :=
  fix go (l : list comp) (nc nk : nat) {struct l} : list lcomp * nat * nat :=
    match l with
    | [] => ([], nc, nk)
    | x :: r => let '(x', nc1, nk1) := label x nc nk in
                let '(r', nc2, nk2) := go r nc1 nk1 in (x' :: r', nc2, nk2)
    end.
Lemma label_tee l nc nk : label (CTee l) nc nk = let '(l', nc', nk') := label_list l nc nk in (LTee l', nc', nk').
Proof. reflexivity. Qed.

Lemma label_ids : forall c nc nk,
  nc <= snd (fst (label c nc nk)) /\ all_ids (fst (fst (label c nc nk))) = seq nc (snd (fst (label c nc nk)) - nc) /\
  wf_lcomp (fst (fst (label c nc nk))) = wf_comp c.
Proof.
  induction c as [| | |l IH|c IH|c IH|thr c IH|fs c IH] using comp_ind'; intros nc nk;
    try (cbn [label fst snd all_ids wf_lcomp wf_comp]; rewrite Nat.sub_diag; auto; fail).
  - rewrite label_tee.
    assert (H : nc <= snd (fst (label_list l nc nk)) /\
                concat (map all_ids (fst (fst (label_list l nc nk)))) = seq nc (snd (fst (label_list l nc nk)) - nc) /\
                forallb wf_lcomp (fst (fst (label_list l nc nk))) = forallb wf_comp l).
    { revert nc nk. induction IH as [|x r Hx _ IHr]; intros nc nk; cbn [label_list].
      - cbn [fst snd map concat forallb]. rewrite Nat.sub_diag. auto.
      - specialize (Hx nc nk). destruct (label x nc nk) as [[x' nc1] nk1]. cbn [fst snd] in Hx. destruct Hx as (H1 & H2 & H3).
        specialize (IHr nc1 nk1). destruct (label_list r nc1 nk1) as [[r' nc2] nk2]. cbn [fst snd] in *.
        destruct IHr as (H4 & H5 & H6). cbn [map concat forallb]. rewrite H2, H5, H3, H6. split; [lia|]. split; [|reflexivity].
        replace (nc2 - nc) with ((nc1 - nc) + (nc2 - nc1)) by lia. rewrite seq_app. f_equal. f_equal. lia. }
    destruct (label_list l nc nk) as [[l' nc'] nk']. cbn [fst snd all_ids wf_lcomp wf_comp] in *. exact H.
  - specialize (IH nc nk). cbn [label]. destruct (label c nc nk) as [[c' nc'] nk']. exact IH.
  - specialize (IH nc nk). cbn [label]. destruct (label c nc nk) as [[c' nc'] nk']. exact IH.
  - specialize (IH nc nk). cbn [label]. destruct (label c nc nk) as [[c' nc'] nk']. exact IH.
  - specialize (IH nc nk). cbn [label]. destruct (label c nc nk) as [[c' nc'] nk']. cbn [fst snd all_ids wf_lcomp wf_comp] in *.
    destruct IH as (H1 & H2 & H3). rewrite H2, H3. split; [lia|]. split; [|reflexivity].
    replace (S nc' - nc) with ((nc' - nc) + 1) by lia. rewrite seq_app. cbn [seq]. f_equal. f_equal. lia.
Qed.

Lemma init_inv c : wf_comp c = true -> wf_lcomp (root_of c) = true /\ Inv (root_of c) (init c) (sinit c).
Proof.
  intros Hwf. destruct (label_ids c 0 0) as (_ & Hids & Hwl). fold (root_of c) in Hids, Hwl. fold (ncells c) in Hids.
  rewrite Nat.sub_0_r in Hids. split; [now rewrite Hwl|].
  constructor; cbn [init sinit nodes sto nxt snodes smarks snxt].
  - reflexivity.
  - constructor; [|constructor]. split; reflexivity.
  - unfold root_ok. apply Forall_forall. intros [[id fs] c'] _. cbn [rcell_ok]. split; [reflexivity|]. intros H. now elim H.
  - constructor; [|constructor]. cbn [items]. repeat split; cbn [lazy_ids map concat]; try constructor.
    rewrite app_nil_r, Hids. apply seq_NoDup.
  - intros sn1 sn2 a1 a2 id fs1 fs2 [<-|[]] _ [].
  - rewrite Hids. apply Forall_forall. intros id Hid. apply in_seq in Hid. lia.
  - intros id _. split; reflexivity.
Qed.

(* ========================================================================= *)
(* C07_exact: for every root composition and every program (any tree shape, any order of derivations
   and uses), what each logging call makes observable on every sink is what its logger's own
   derivation path prescribes *)
Theorem exact_thm c ops : wf_comp c = true -> forallb wf_op ops = true -> run_events c ops = spec_events c ops.
Proof.
  intros Hc Hops. destruct (init_inv c Hc) as [Hwr HI]. unfold run_events, spec_events.
  exact (run_sim (root_of c) Hwr ops (init c) (sinit c) HI Hops).
Qed.

Theorem spec_model i : wf i = true -> spec i (model i) = true.
Proof.
  unfold wf, spec, model. destruct (dec_case i) as [c ops]. intros H. apply andb_true_iff in H as [Hc Hops].
  rewrite (exact_thm c ops Hc Hops).
  assert (R : forall x, sx_eqb x x = true).
  { fix IH 1. intros [z|b|l]; cbn [sx_eqb].
    - apply Z.eqb_refl.
    - now apply bytes_eqb_eq.
    - induction l as [|y r IHr]; [reflexivity|]. now rewrite IH, IHr. }
  apply R.
Qed.

(* C07 — the third aliasing hazard: the process-wide buffer pool (internal/bufferpool) that hands out the
   context buffers of derived loggers.

     jsonEncoder.clone (json_encoder.go):   clone.buf = bufferpool.Get()         -- kept for the logger's life
     ioCore.With (core.go):                 clone (Clone copies the context bytes into that buffer) + addFields
     jsonEncoder.EncodeEntry:               final.buf = bufferpool.Get(); prefix, context bytes, call-site fields
     ioCore.Write (core.go):                buf := EncodeEntry(...); _, err = c.out.Write(buf.Bytes()); buf.Free();
                                            if err != nil { return err }            -- ONE Free on both branches

   The pool is a multiset of buffer ids; Get takes any free buffer (which one: a choice carried by the
   operation, so that every behaviour of sync.Pool is covered -- LIFO, stealing from another P, dropping
   everything at a GC) or allocates, and resets it; Free puts the id back.  A buffer that is put back twice can
   be handed out twice: then two derived loggers hold ONE context buffer and the second derivation rewrites the
   first logger's context -- a sibling's fields show up under another logger's name.

   [pool_contexts_exact]: with ioCore.Write as written (one Free whether the sink's Write succeeded or failed)
   every program of With and Write steps -- any tree, any order, any sink failures, any pool choices -- keeps
   "free buffers are distinct and held by no live logger", so every logger's context read in the FINAL heap is
   the pure value (context of its parent ++ its own bytes) and every delivered line is prefix ++ context of its
   own logger ++ call-site bytes.
   [pool_double_free_refuted]: with a second Free on the error branch (NOT zap's code: the class of mutation
   the check must catch) one failed write followed by two sibling derivations makes both siblings read the
   second one's context. *)
From Coq Require Import List ZArith Bool Lia PeanoNat.
From Coq.Strings Require Import Byte.
Import ListNotations.
From Zap Require Import Base.Wire C07.Alias.

Definition remove_at {A} (k : nat) (l : list A) : list A := firstn k l ++ skipn (S k) l.

Lemma remove_at_split {A} (l1 : list A) a l2 : remove_at (length l1) (l1 ++ a :: l2) = l1 ++ l2.
Proof.
  unfold remove_at. rewrite firstn_app, Nat.sub_diag, firstn_all. cbn [firstn]. rewrite app_nil_r.
  rewrite skipn_app. rewrite skipn_all2 by lia.
  replace (S (length l1) - length l1) with 1 by lia. reflexivity.
Qed.

Lemma nodup_snoc {A} (l : list A) a : NoDup l -> ~ In a l -> NoDup (l ++ [a]).
Proof.
  induction l as [|x r IH]; intros Hn Hi; cbn [app].
  - constructor; [intros []|constructor].
  - inversion Hn as [|? ? Hx Hr]; subst. constructor.
    + rewrite in_app_iff. intros [H|[H|[]]]; [now apply Hx|]. subst. apply Hi. now left.
    + apply IH; [assumption|]. intros H. apply Hi. now right.
Qed.

Lemma nth_error_map_some {A B} (f : A -> B) (l : list A) : forall n,
  nth_error (map f l) n = match nth_error l n with Some a => Some (f a) | None => None end.
Proof.
  induction l as [|x r IH]; intros [|n]; cbn [map nth_error]; try reflexivity. apply IH.
Qed.

(* ---------- the pool ---------- *)
Record pst := {
  ph : bheap;            (* buffer id -> content *)
  pfree : list nat;      (* the pool: ids of the buffers that were put back *)
  plive : list nat;      (* logger k's context buffer (jsonEncoder.buf of its ioCore's encoder) *)
  pout : list bytes      (* the lines the sink accepted *)
}.

(* bufferpool.Get: the pk-th free buffer if there is one (any choice), else a new one; reset *)
Definition pget (h : bheap) (free : list nat) (pk : nat) : bheap * nat * list nat :=
  match nth_error free pk with
  | Some id => (upd h id [], id, remove_at pk free)
  | None => (h ++ [[]], length h, free)
  end.

Inductive pop :=
| PWith (n : nat) (bs : bytes) (pk : nat)                    (* logger (length plive) := logger n .With(fields that serialise to bs) *)
| PWrite (n : nat) (pre fs : bytes) (ok : bool) (pk : nat).  (* logger n writes an entry; the sink's Write succeeds (ok) or fails *)

(* [kfail]: how many times the error branch of ioCore.Write frees the entry buffer (zap: 1) *)
Definition pstep (kfail : nat) (s : pst) (o : pop) : pst :=
  match o with
  | PWith n bs pk =>
      match nth_error (plive s) n with
      | Some e =>
          let '(h1, id, fr) := pget (ph s) (pfree s) pk in
          (* clone.buf.Write(enc.buf.Bytes()) reads the parent's buffer AFTER the clone's was taken and reset *)
          {| ph := upd h1 id (nth e h1 [] ++ bs); pfree := fr; plive := plive s ++ [id]; pout := pout s |}
      | None => s
      end
  | PWrite n pre fs ok pk =>
      match nth_error (plive s) n with
      | Some e =>
          let '(h1, id, fr) := pget (ph s) (pfree s) pk in
          let h2 := upd h1 id (pre ++ nth e h1 [] ++ fs) in
          {| ph := h2; pfree := repeat id (if ok then 1 else kfail) ++ fr; plive := plive s;
             pout := if ok then pout s ++ [nth id h2 []] else pout s |}
      | None => s
      end
  end.

(* what is observable: every logger's context, every delivered line *)
Definition preads (s : pst) : list bytes * list bytes := (map (fun e => nth e (ph s) []) (plive s), pout s).

(* the pure semantics *)
Definition pure_step (cs : list bytes * list bytes) (o : pop) : list bytes * list bytes :=
  match o with
  | PWith n bs _ =>
      match nth_error (fst cs) n with Some c => (fst cs ++ [c ++ bs], snd cs) | None => cs end
  | PWrite n pre fs ok _ =>
      match nth_error (fst cs) n with
      | Some c => (fst cs, if ok then snd cs ++ [pre ++ c ++ fs] else snd cs)
      | None => cs
      end
  end.

Definition pinv (s : pst) : Prop :=
  NoDup (pfree s) /\ NoDup (plive s) /\
  (forall id, In id (pfree s) -> id < length (ph s)) /\
  (forall id, In id (plive s) -> id < length (ph s)) /\
  (forall id, In id (pfree s) -> ~ In id (plive s)).

Lemma pget_ok h free live pk h1 id fr :
  NoDup free -> (forall x, In x free -> x < length h) -> (forall x, In x live -> x < length h) ->
  (forall x, In x free -> ~ In x live) -> pget h free pk = (h1, id, fr) ->
  id < length h1 /\ length h <= length h1 /\ ~ In id fr /\ ~ In id live /\ NoDup fr /\
  (forall x, In x fr -> In x free) /\ nth id h1 [] = [] /\
  (forall x, x < length h -> x <> id -> nth x h1 [] = nth x h []).
Proof.
  intros Hnd Hf Hl Hdis. unfold pget. destruct (nth_error free pk) as [i|] eqn:E; intros H; inversion H; subst; clear H.
  - destruct (nth_error_split free pk E) as (l1 & l2 & Hfree & Hlen). subst free pk.
    rewrite remove_at_split. apply NoDup_remove in Hnd as [Hnd Hni].
    assert (Hin : In id (l1 ++ id :: l2)) by (rewrite in_app_iff; right; now left).
    assert (Hid : id < length h) by now apply Hf.
    rewrite upd_length by assumption. repeat split; try assumption; try lia.
    + now apply Hdis.
    + intros x Hx. rewrite in_app_iff in *. destruct Hx; [now left|right; now right].
    + now apply nth_upd_same.
    + intros x Hx Hne. apply nth_upd_other; [assumption|]. intros ->. now apply Hne.
  - rewrite app_length. cbn [length]. repeat split; try assumption; try lia.
    + intros Hi. apply Hf in Hi. lia.
    + intros Hi. apply Hl in Hi. lia.
    + intros x Hx. exact Hx.
    + rewrite app_nth2 by lia. now rewrite Nat.sub_diag.
    + intros x Hx _. now apply app_nth1.
Qed.

Lemma pool_step_exact s o : pinv s -> pinv (pstep 1 s o) /\ preads (pstep 1 s o) = pure_step (preads s) o.
Proof.
  intros (Hnf & Hnl & Hbf & Hbl & Hdis).
  destruct o as [n bs pk|n pre fs ok pk]; unfold pstep, pure_step, preads at 2 3; cbn [fst snd];
    rewrite nth_error_map_some; destruct (nth_error (plive s) n) as [e|] eqn:En;
    try (split; [repeat split; assumption|reflexivity]).
  - (* With *)
    destruct (pget (ph s) (pfree s) pk) as [[h1 id] fr] eqn:G.
    destruct (pget_ok _ _ _ _ _ _ _ Hnf Hbf Hbl Hdis G) as (Hid & Hlen & Hnfr & Hnlv & Hndfr & Hsub & _ & Hsame).
    assert (He : In e (plive s)) by (eapply nth_error_In; eassumption).
    assert (Hne : forall x, In x (plive s) -> x <> id) by (intros x Hx ->; now apply Hnlv).
    assert (Hrd : forall x, In x (plive s) -> nth x (upd h1 id (nth e h1 [] ++ bs)) [] = nth x (ph s) []).
    { intros x Hx. rewrite nth_upd_other by (try assumption; intros E; symmetry in E; revert E; now apply Hne).
      apply Hsame; [now apply Hbl|now apply Hne]. }
    split.
    + unfold pinv. cbn [ph pfree plive pout]. rewrite upd_length by assumption. repeat split.
      * assumption.
      * now apply nodup_snoc.
      * intros x Hx. apply Hsub, Hbf in Hx. lia.
      * intros x Hx. rewrite in_app_iff in Hx. destruct Hx as [Hx|[<-|[]]]; [apply Hbl in Hx; lia|assumption].
      * intros x Hx. rewrite in_app_iff. intros [Hy|[<-|[]]]; [revert Hy; now apply Hdis, Hsub|now apply Hnfr].
    + unfold preads. cbn [ph pfree plive pout]. f_equal. rewrite map_app. cbn [map]. f_equal.
      * apply map_ext_in. exact Hrd.
      * f_equal. rewrite nth_upd_same by assumption. f_equal. apply Hsame; [now apply Hbl|now apply Hne].
  - (* Write: one Free, whether the sink accepted the line or not *)
    destruct (pget (ph s) (pfree s) pk) as [[h1 id] fr] eqn:G.
    destruct (pget_ok _ _ _ _ _ _ _ Hnf Hbf Hbl Hdis G) as (Hid & Hlen & Hnfr & Hnlv & Hndfr & Hsub & _ & Hsame).
    assert (He : In e (plive s)) by (eapply nth_error_In; eassumption).
    assert (Hne : forall x, In x (plive s) -> x <> id) by (intros x Hx ->; now apply Hnlv).
    assert (Hfree : repeat id (if ok then 1 else 1) ++ fr = id :: fr) by now destruct ok.
    split.
    + unfold pinv. cbn [ph pfree plive pout]. rewrite Hfree, upd_length by assumption. repeat split.
      * now constructor.
      * assumption.
      * intros x [<-|Hx]; [assumption|]. apply Hsub, Hbf in Hx. lia.
      * intros x Hx. apply Hbl in Hx. lia.
      * intros x [<-|Hx]; [assumption|]. now apply Hdis, Hsub.
    + unfold preads. cbn [ph pfree plive pout]. f_equal.
      * apply map_ext_in. intros x Hx.
        rewrite nth_upd_other by (try assumption; intros E; symmetry in E; revert E; now apply Hne).
        apply Hsame; [now apply Hbl|now apply Hne].
      * destruct ok; [|reflexivity]. f_equal. f_equal. rewrite nth_upd_same by assumption.
        f_equal. f_equal. apply Hsame; [now apply Hbl|now apply Hne].
Qed.

Theorem pool_contexts_exact ops : forall s, pinv s ->
  preads (fold_left (pstep 1) ops s) = fold_left pure_step ops (preads s) /\ pinv (fold_left (pstep 1) ops s).
Proof.
  induction ops as [|o r IH]; intros s Hs; cbn [fold_left]; [now split|].
  destruct (pool_step_exact s o Hs) as [Hi Hr]. rewrite <- Hr. now apply IH.
Qed.

(* ---------- the mutation: a second Free on the error branch ---------- *)
(* root (empty context); 1 = root.With("s"); an entry of 1 whose sink Write fails; then the siblings
   2 = 1.With("a"), 3 = 1.With("b") *)
Definition pool0 : pst := {| ph := [[]]; pfree := []; plive := [0]; pout := [] |}.
Definition pool_witness : list pop :=
  [PWith 0 [x73] 0; PWrite 1 [x7b] [x7d] false 0; PWith 1 [x61] 0; PWith 1 [x62] 0].
Lemma pool0_inv : pinv pool0.
Proof.
  unfold pinv, pool0. cbn [ph pfree plive pout]. repeat split.
  - constructor.
  - constructor; [intros []|constructor].
  - intros id [].
  - intros id [<-|[]]. cbn. lia.
  - intros id [].
Qed.
Lemma pool_double_free_refuted :
  fst (preads (fold_left (pstep 2) pool_witness pool0)) = [[]; [x73]; [x73; x62]; [x73; x62]] /\
  fst (fold_left pure_step pool_witness (preads pool0)) = [[]; [x73]; [x73; x61]; [x73; x62]] /\
  fst (preads (fold_left (pstep 1) pool_witness pool0)) = [[]; [x73]; [x73; x61]; [x73; x62]].
Proof. vm_compute. repeat split; reflexivity. Qed.

(* C07 — proofs, part 3: a Logger's core against its derivation path.  [expect] is the core a logger
   with path items [its] holds; Core.With ([kwith]) and Check/Write ([klog]) on it evaluate exactly
   the pending lazily-evaluated items of the path (and of the root composition), once. *)
From Coq Require Import List ZArith NArith Bool Lia.
From Coq.Strings Require Import Byte.
Import ListNotations.
From Zap Require Import Base.Wire Enc.Bytes Enc.Fields Enc.JsonEnc Enc.JsonAst.
From Zap Require Import C07.Model C07.Proofs C07.Sim.

(* every item of a path with the items before it *)
Fixpoint prefixes_from (pre its : list pitem) : list (list pitem * pitem) :=
  match its with [] => [] | it :: r => (pre, it) :: prefixes_from (pre ++ [it]) r end.
Definition prefixes (its : list pitem) := prefixes_from [] its.
Lemma prefixes_from_snoc its : forall pre it,
  prefixes_from pre (its ++ [it]) = prefixes_from pre its ++ [(pre ++ its, it)].
Proof.
  induction its as [|x r IH]; intros pre it; cbn [app prefixes_from].
  - now rewrite app_nil_r.
  - rewrite IH. now rewrite <- app_assoc.
Qed.
Lemma prefixes_snoc its it : prefixes (its ++ [it]) = prefixes its ++ [(its, it)].
Proof. unfold prefixes. now rewrite prefixes_from_snoc. Qed.
Lemma prefixes_from_split its : forall pre a it, In (a, it) (prefixes_from pre its) ->
  exists a' b, a = pre ++ a' /\ its = a' ++ it :: b.
Proof.
  induction its as [|x r IH]; intros pre a it Hin; cbn [prefixes_from] in Hin; [contradiction|].
  destruct Hin as [E|Hin].
  - injection E as <- <-. exists [], r. now rewrite app_nil_r.
  - destruct (IH _ _ _ Hin) as (a' & b & -> & ->). exists (x :: a'), b. now rewrite <- app_assoc.
Qed.
Lemma prefixes_split its a it : In (a, it) (prefixes its) -> exists b, its = a ++ it :: b.
Proof. intros H. destruct (prefixes_from_split its [] a it H) as (a' & b & -> & ->). now exists b. Qed.
Lemma prefixes_lazy_in its : forall id, In id (lazy_ids its) -> exists a fs, In (a, PLazy id fs) (prefixes its).
Proof.
  induction its as [|it its IH] using rev_ind; intros id Hin; [destruct Hin|].
  rewrite lazy_ids_app in Hin. rewrite prefixes_snoc. apply in_app_iff in Hin as [Hin|Hin].
  - destruct (IH id Hin) as (a & fs & H). exists a, fs. apply in_app_iff. now left.
  - destruct it as [w fs|id' fs]; [destruct Hin|]. destruct Hin as [<-|[]]. exists its, fs. apply in_app_iff. right. now left.
Qed.

(* the core of a logger whose path items are [its] *)
Fixpoint expect_from (m : marks) (root : lcomp) (k0 : kcore) (pre its : list pitem) : kcore :=
  match its with
  | [] => k0
  | PLazy id fs :: r => expect_from m root (LLazyW id fs k0) (pre ++ [PLazy id fs]) r
  | PEager w fs :: r => expect_from m root (LPure (pexp m root (pre ++ [PEager w fs]))) (pre ++ [PEager w fs]) r
  end.
Definition expect (m : marks) (root : lcomp) (its : list pitem) : kcore := expect_from m root LRoot [] its.
Lemma expect_from_snoc m root its : forall k0 pre it,
  expect_from m root k0 pre (its ++ [it]) =
    match it with
    | PLazy id fs => LLazyW id fs (expect_from m root k0 pre its)
    | PEager w fs => LPure (pexp m root (pre ++ its ++ [it]))
    end.
Proof.
  induction its as [|x r IH]; intros k0 pre it; cbn [app expect_from].
  - destruct it; reflexivity.
  - destruct x as [w0 fs0|id0 fs0]; rewrite IH; destruct it; rewrite <- ?app_assoc; reflexivity.
Qed.
Lemma expect_snoc_lazy m root its id fs : expect m root (its ++ [PLazy id fs]) = LLazyW id fs (expect m root its).
Proof. unfold expect. now rewrite expect_from_snoc. Qed.
Lemma expect_snoc_eager m root its w fs :
  expect m root (its ++ [PEager w fs]) = LPure (pexp m root (its ++ [PEager w fs])).
Proof. unfold expect. now rewrite expect_from_snoc. Qed.

(* what holds of every item of a path: an eager item was made after everything before it had been
   evaluated; the cell of a lazily evaluated item holds the expected core iff it is marked, and then
   everything before it is marked too *)
Definition item_ok (m : marks) (sg : store) (root : lcomp) (x : list pitem * pitem) : Prop :=
  let '(a, it) := x in
  match it with
  | PEager _ _ => all_marked m (all_ids root ++ lazy_ids a)
  | PLazy id fs => cell_ok m sg id (pexp m root (a ++ [PLazy id fs])) /\
                   (marked m id -> all_marked m (all_ids root ++ lazy_ids a))
  end.
Definition path_ok (m : marks) (sg : store) (root : lcomp) (its : list pitem) : Prop :=
  Forall (item_ok m sg root) (prefixes its).
Lemma path_ok_snoc m sg root its it :
  path_ok m sg root (its ++ [it]) <-> path_ok m sg root its /\ item_ok m sg root (its, it).
Proof.
  unfold path_ok. rewrite prefixes_snoc, Forall_app. split; intros [H1 H2]; (split; [exact H1|]).
  - now inversion H2.
  - constructor; [exact H2|constructor].
Qed.

Lemma item_ok_frame m sg m' sg' root a it :
  (forall id, In id (all_ids root ++ lazy_ids (a ++ [it])) -> lookup id sg' = lookup id sg /\ lookup id m' = lookup id m) ->
  item_ok m sg root (a, it) -> item_ok m' sg' root (a, it).
Proof.
  intros Hf H. cbn [item_ok] in *.
  assert (Ham : all_marked m (all_ids root ++ lazy_ids a) -> all_marked m' (all_ids root ++ lazy_ids a)).
  { unfold all_marked. rewrite !Forall_forall. intros Hm i Hi. unfold marked. destruct (Hf i) as [_ ->]; [|now apply Hm].
    rewrite lazy_ids_app. apply in_app_iff in Hi as [Hi|Hi]; apply in_app_iff; [now left|right; apply in_app_iff; now left]. }
  destruct it as [w fs|id fs]; [now apply Ham|]. destruct H as [Hc Hm].
  assert (Hid : In id (all_ids root ++ lazy_ids (a ++ [PLazy id fs]))).
  { rewrite lazy_ids_app. apply in_app_iff. right. apply in_app_iff. right. now left. }
  destruct (Hf id Hid) as [Hs Hmk]. split.
  - unfold cell_ok in *. rewrite Hs, Hmk, Hc. destruct (lookup id m); [|reflexivity]. f_equal.
    apply pexp_ext. intros i Hi. symmetry. now apply Hf.
  - unfold marked in *. rewrite Hmk. intros Hmm. apply Ham. now apply Hm.
Qed.
Lemma path_ok_frame m sg m' sg' root its :
  (forall id, In id (all_ids root ++ lazy_ids its) -> lookup id sg' = lookup id sg /\ lookup id m' = lookup id m) ->
  path_ok m sg root its -> path_ok m' sg' root its.
Proof.
  intros Hf H. unfold path_ok in *. rewrite Forall_forall in *. intros [a it] Hin.
  apply (item_ok_frame m sg); [|now apply H]. destruct (prefixes_split _ _ _ Hin) as (b & ->).
  intros id Hid. apply Hf. rewrite lazy_ids_app in Hid. rewrite lazy_ids_app. cbn [lazy_ids map concat] in *.
  apply in_app_iff in Hid as [Hid|Hid]; apply in_app_iff; [now left|right].
  apply in_app_iff in Hid as [Hid|Hid]; apply in_app_iff; [now left|right].
  rewrite app_nil_r in Hid. apply in_app_iff. now left.
Qed.

(* ---------- Core.With through a logger's core ---------- *)
Definition kforce_ok (root : lcomp) (w : Z) (its : list pitem) : Prop :=
  forall fs sg m, NoDup (all_ids root ++ lazy_ids its) -> root_ok m sg root -> path_ok m sg root its ->
  exists sg', kwith root w fs (expect m root its) sg =
                (pexp (mark_all w (all_ids root ++ lazy_ids its) m) root (its ++ [PEager w fs]), sg') /\
              root_ok (mark_all w (all_ids root ++ lazy_ids its) m) sg' root /\
              path_ok (mark_all w (all_ids root ++ lazy_ids its) m) sg' root its /\
              (forall id, ~ In id (all_ids root ++ lazy_ids its) -> lookup id sg' = lookup id sg).

(* initOnce of the cell of a WithLazy logger *)
Lemma init_once_path root w its id lfs : kforce_ok root w its ->
  forall sg m, NoDup (all_ids root ++ lazy_ids (its ++ [PLazy id lfs])) -> root_ok m sg root ->
  path_ok m sg root (its ++ [PLazy id lfs]) ->
  let m' := mark_all w (all_ids root ++ lazy_ids (its ++ [PLazy id lfs])) m in
  exists sg', init_once (kwith root w lfs (expect m root its)) id sg = (pexp m' root (its ++ [PLazy id lfs]), sg') /\
              root_ok m' sg' root /\ path_ok m' sg' root (its ++ [PLazy id lfs]) /\
              (forall i, ~ In i (all_ids root ++ lazy_ids (its ++ [PLazy id lfs])) -> lookup i sg' = lookup i sg).
Proof.
  intros Hkf sg m Hnd Hroot Hpath m'. subst m'.
  assert (Eids : all_ids root ++ lazy_ids (its ++ [PLazy id lfs]) = (all_ids root ++ lazy_ids its) ++ [id]).
  { rewrite lazy_ids_app. cbn [lazy_ids map concat app]. now rewrite app_assoc. }
  rewrite Eids in *. apply NoDup_app_inv in Hnd as (Hnd0 & _ & Hdisj).
  assert (Hid : ~ In id (all_ids root ++ lazy_ids its)) by (intros Hin; apply (Hdisj id Hin); now left).
  apply path_ok_snoc in Hpath as [Hp0 [Hcell Hcl]]. unfold init_once, cell_ok in *. rewrite Hcell.
  destruct (lookup id m) as [v|] eqn:Em.
  - assert (Hall : all_marked m ((all_ids root ++ lazy_ids its) ++ [id])).
    { apply all_marked_app. split; [apply Hcl; unfold marked; congruence|]. constructor; [unfold marked; congruence|constructor]. }
    rewrite (mark_all_marked w _ m Hall). exists sg. split; [reflexivity|]. split; [exact Hroot|]. split; [|auto].
    apply path_ok_snoc. split; [exact Hp0|]. split; [unfold cell_ok; now rewrite Hcell, Em|exact Hcl].
  - destruct (Hkf lfs sg m Hnd0 Hroot Hp0) as (sg1 & Ekw & Hroot1 & Hp1 & Hfr1). rewrite Ekw.
    set (m1 := mark_all w (all_ids root ++ lazy_ids its) m) in *.
    assert (Em1 : lookup id m1 = None) by (unfold m1; rewrite lookup_mark_all_out, Em; auto).
    assert (Emm : mark_all w ((all_ids root ++ lazy_ids its) ++ [id]) m = (id, w) :: m1).
    { rewrite mark_all_app. fold m1. cbn [mark_all]. now rewrite Em1. }
    rewrite Emm. set (m' := (id, w) :: m1) in *.
    assert (Hagree : forall i, In i (all_ids root ++ lazy_ids its) -> lookup i m' = lookup i m1).
    { intros i Hi. unfold m'. apply lookup_cons_ne. intros ->. contradiction. }
    assert (Hcontent : pexp m1 root (its ++ [PEager w lfs]) = pexp m' root (its ++ [PLazy id lfs])).
    { rewrite (pexp_lazy_eager m' id w lfs (lookup_cons_eq id w m1) root its []).
      apply pexp_ext. intros i Hi. symmetry. apply Hagree.
      rewrite lazy_ids_app in Hi. cbn [lazy_ids map concat] in Hi. rewrite !app_nil_r in Hi. exact Hi. }
    assert (Hallm' : all_marked m' (all_ids root ++ lazy_ids its)).
    { eapply Forall_impl; [|apply (all_marked_mark_all w (all_ids root ++ lazy_ids its) m)]. fold m1.
      intros i Hi. unfold marked, m' in *. cbn [lookup]. destruct (Nat.eqb id i); [discriminate|exact Hi]. }
    exists ((id, pexp m1 root (its ++ [PEager w lfs])) :: sg1). split; [now rewrite Hcontent|]. split; [|split].
    + apply (root_ok_frame m1 sg1); [|exact Hroot1]. intros i Hi.
      assert (Hi' : In i (all_ids root ++ lazy_ids its)) by (apply in_app_iff; now left).
      split; [|now apply Hagree]. apply lookup_cons_ne. intros ->. contradiction.
    + apply path_ok_snoc. split.
      * apply (path_ok_frame m1 sg1); [|exact Hp1]. intros i Hi. split; [|now apply Hagree].
        apply lookup_cons_ne. intros ->. contradiction.
      * split; [|intros _; exact Hallm']. unfold cell_ok, m'. rewrite !lookup_cons_eq. now rewrite Hcontent.
    + intros i Hi. rewrite lookup_cons_ne.
      * apply Hfr1. intros Hin. apply Hi. apply in_app_iff. now left.
      * intros ->. apply Hi. apply in_app_iff. right. now left.
Qed.

Lemma kwith_expect root w : forall its, kforce_ok root w its.
Proof.
  induction its as [|it its IH] using rev_ind; intros fs sg m Hnd Hroot Hpath.
  - cbn [lazy_ids map concat app] in *. rewrite app_nil_r in *. cbn [expect expect_from kwith].
    destruct (rwith_spec w root fs sg m Hnd Hroot) as (sg' & E & Hok & Hfr).
    exists sg'. split; [exact E|]. split; [exact Hok|]. split; [constructor|exact Hfr].
  - destruct it as [w0 fs0|id lfs].
    + (* the logger was made by With/Fields: a pure core *)
      rewrite expect_snoc_eager. cbn [kwith].
      apply path_ok_snoc in Hpath as Hsplit. destruct Hsplit as [Hp0 Hall]. cbn [item_ok] in Hall.
      assert (El : lazy_ids (its ++ [PEager w0 fs0]) = lazy_ids its).
      { rewrite lazy_ids_app. cbn [lazy_ids map concat]. now rewrite app_nil_r. }
      rewrite El, (mark_all_marked w _ m Hall). exists sg. rewrite pwith_pexp. auto.
    + rewrite expect_snoc_lazy. cbn [kwith].
      destruct (init_once_path root w its id lfs IH sg m Hnd Hroot Hpath) as (sg' & E & Hok & Hp & Hfr).
      exists sg'. rewrite E. rewrite pwith_pexp. auto.
Qed.

(* ---------- Enabled through a logger's core ---------- *)
Lemma kenabled_expect root hi m : forall its, kenabled root hi (expect m root its) = senabled hi root.
Proof.
  induction its as [|it its IH] using rev_ind.
  - cbn [expect expect_from kenabled]. apply renabled_senabled.
  - destruct it as [w0 fs0|id lfs].
    + rewrite expect_snoc_eager. cbn [kenabled]. apply penabled_pexp.
    + rewrite expect_snoc_lazy. cbn [kenabled]. exact IH.
Qed.

(* ---------- Check + Write through a logger's core ---------- *)
Definition log_marks (hi : lvq) (root : lcomp) (its : list pitem) : list nat :=
  if is_nil its then log_ids hi root else all_ids root ++ lazy_ids its.

Lemma klog_expect root hi nm msg w fs : wf_sflds fs = true -> wf_lcomp root = true -> senabled hi root = true ->
  forall its sg m, wf_items its = true -> NoDup (all_ids root ++ lazy_ids its) -> root_ok m sg root -> path_ok m sg root its ->
  let m' := mark_all w (log_marks hi root its) m in
  exists sg', klog (mk_entry (lv hi) nm msg) hi w fs root (expect m root its) sg =
                (swalk m' hi nm msg w fs root its false, sg') /\
              root_ok m' sg' root /\ path_ok m' sg' root its /\
              (forall id, ~ In id (all_ids root ++ lazy_ids its) -> lookup id sg' = lookup id sg).
Proof.
  intros Hfs Hwr Hen its sg m Hwi Hnd Hroot Hpath m'. subst m'.
  destruct its as [|it its] using rev_ind.
  - cbn [log_marks is_nil expect expect_from klog lazy_ids map concat] in *. rewrite app_nil_r in *.
    destruct (rlog_spec hi nm msg w fs Hfs root sg m false Hwr Hnd Hroot) as (sg' & E & Hok & Hfr).
    exists sg'. split; [exact E|]. split; [exact Hok|]. split; [constructor|exact Hfr].
  - clear IHits. assert (Enil : is_nil (its ++ [it]) = false) by (destruct its; reflexivity).
    unfold log_marks. rewrite Enil. destruct it as [w0 fs0|id lfs].
    + rewrite expect_snoc_eager. cbn [klog].
      apply path_ok_snoc in Hpath as Hsplit. destruct Hsplit as [Hp0 Hall]. cbn [item_ok] in Hall.
      assert (El : lazy_ids (its ++ [PEager w0 fs0]) = lazy_ids its).
      { rewrite lazy_ids_app. cbn [lazy_ids map concat]. now rewrite app_nil_r. }
      rewrite El, (mark_all_marked w _ m Hall). exists sg. rewrite (plog_pexp m hi nm msg w fs Hfs root _ false Hwr Hwi). auto.
    + rewrite expect_snoc_lazy. cbn [klog]. rewrite kenabled_expect, Hen.
      destruct (init_once_path root w its id lfs (kwith_expect root w its) sg m Hnd Hroot Hpath) as (sg' & E & Hok & Hp & Hfr).
      exists sg'. rewrite E. rewrite (plog_pexp _ hi nm msg w fs Hfs root _ false Hwr Hwi). auto.
Qed.

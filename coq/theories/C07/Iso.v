(* C07 — proofs, part 5: consequences of the simulation — isolation (what a logger emits is a
   function of its own derivation path), WithLazy vs. With, first use / once. *)
From Coq Require Import List ZArith NArith Bool Lia.
From Coq.Strings Require Import Byte.
Import ListNotations.
From Zap Require Import Base.Wire Enc.Bytes Enc.Fields Enc.JsonEnc Enc.JsonAst Enc.WireEnc Enc.Wf.
From Zap Require Import C07.Model C07.Proofs C07.Sim C07.Path C07.Main.

(* ---------- runs ---------- *)
Lemma srun_app root : forall a b ss,
  srun root ss (a ++ b) = let '(s1, e1) := srun root ss a in let '(s2, e2) := srun root s1 b in (s2, e1 ++ e2).
Proof.
  induction a as [|o r IH]; intros b ss; cbn [app srun].
  - destruct (srun root ss b). reflexivity.
  - destruct (sstep root ss o) as [s1 e1]. rewrite IH. destruct (srun root s1 r) as [s2 e2].
    destruct (srun root s2 b) as [s3 e3]. now rewrite app_assoc.
Qed.
Definition sfinal (c : comp) (ops : list op) : sstate := fst (srun (root_of c) (sinit c) ops).
Lemma spec_events_snoc c ops o :
  spec_events c (ops ++ [o]) = spec_events c ops ++ snd (sstep (root_of c) (sfinal c ops) o).
Proof.
  unfold spec_events, sfinal. rewrite srun_app. destruct (srun (root_of c) (sinit c) ops) as [s1 e1].
  cbn [srun fst snd]. destruct (sstep (root_of c) s1 o) as [s2 e2]. cbn [snd]. now rewrite app_nil_r.
Qed.
Lemma sfinal_snoc c ops o : sfinal c (ops ++ [o]) = fst (sstep (root_of c) (sfinal c ops) o).
Proof.
  unfold sfinal. rewrite srun_app. destruct (srun (root_of c) (sinit c) ops) as [s1 e1].
  cbn [srun fst]. destruct (sstep (root_of c) s1 o) as [s2 e2]. reflexivity.
Qed.

(* what the logging call [OLog n hi msg fs w], issued after the program [ops], makes observable *)
Definition emits (c : comp) (ops : list op) (n : nat) (hi : lvq) (msg : bytes) (fs : list sfld) (w : Z) : list ev :=
  last (run_events c (ops ++ [OLog n hi msg fs w])) [].
(* the same, prescribed by the specification from the logger's path [sn] alone and the marks *)
Definition path_emits (root : lcomp) (m : marks) (sn : snode) (hi : lvq) (msg : bytes) (fs : list sfld) (w : Z) : list ev :=
  if senabled hi root then
    let m' := mark_all w (log_marks hi root (items sn)) m in
    let '(c1, w1, _) := swalk m' hi (path_name (segs sn)) msg w fs root (items sn) false in c1 ++ w1
  else [].

Lemma emits_path c ops n sn hi msg fs w :
  wf_comp c = true -> forallb wf_op ops = true -> wf_sflds fs = true ->
  nth_error (snodes (sfinal c ops)) n = Some sn ->
  emits c ops n hi msg fs w = path_emits (root_of c) (smarks (sfinal c ops)) sn hi msg fs w.
Proof.
  intros Hc Hops Hfs Hn. unfold emits. rewrite exact_thm; [|exact Hc|].
  2:{ rewrite forallb_app, Hops. cbn [forallb wf_op]. now rewrite Hfs. }
  rewrite spec_events_snoc. cbn [sstep]. rewrite Hn. unfold path_emits, log_marks.
  destruct (senabled hi (root_of c)).
  - destruct (swalk _ hi (path_name (segs sn)) msg w fs (root_of c) (items sn) false) as [[c1 w1] n1].
    cbn [snd]. now rewrite last_last.
  - cbn [snd]. now rewrite last_last.
Qed.

(* ---------- isolation ---------- *)
Lemma log_marks_incl hi root its : incl (log_marks hi root its) (all_ids root ++ lazy_ids its).
Proof.
  unfold log_marks. destruct (is_nil its); [|apply incl_refl].
  intros x Hx. apply in_app_iff. left. now apply (log_ids_incl hi root).
Qed.
Lemma swalk_ext_full m1 m2 hi nm msg w fs c ch nn :
  (forall id, In id (all_ids c ++ lazy_ids ch) -> lookup id m1 = lookup id m2) ->
  swalk m1 hi nm msg w fs c ch nn = swalk m2 hi nm msg w fs c ch nn.
Proof.
  intros H. apply swalk_ext. intros id Hin. apply H. apply in_app_iff in Hin as [Hin|Hin]; apply in_app_iff; [left|now right].
  now apply (log_ids_incl hi c).
Qed.

(* the events depend on the marks only through the cells of the root composition and of the path *)
Lemma path_emits_ext root m1 m2 sn hi msg fs w :
  (forall id, In id (all_ids root ++ lazy_ids (items sn)) -> lookup id m1 = lookup id m2) ->
  path_emits root m1 sn hi msg fs w = path_emits root m2 sn hi msg fs w.
Proof.
  intros H. unfold path_emits. destruct (senabled hi root); [|reflexivity].
  rewrite (swalk_ext_full (mark_all w (log_marks hi root (items sn)) m1) (mark_all w (log_marks hi root (items sn)) m2)); [reflexivity|].
  intros id Hin. rewrite !lookup_mark_all, (H id Hin). reflexivity.
Qed.

(* C07_isolated: two loggers with the same derivation path, whose lazily evaluated contexts were
   evaluated at the same moments, emit the same — whatever else the two programs derived or logged,
   in whatever order *)
Theorem isolated_thm c ops1 ops2 n1 n2 sn hi msg fs w :
  wf_comp c = true -> forallb wf_op ops1 = true -> forallb wf_op ops2 = true -> wf_sflds fs = true ->
  nth_error (snodes (sfinal c ops1)) n1 = Some sn -> nth_error (snodes (sfinal c ops2)) n2 = Some sn ->
  (forall id, In id (all_ids (root_of c) ++ lazy_ids (items sn)) ->
     lookup id (smarks (sfinal c ops1)) = lookup id (smarks (sfinal c ops2))) ->
  emits c ops1 n1 hi msg fs w = emits c ops2 n2 hi msg fs w.
Proof.
  intros Hc H1 H2 Hfs Hn1 Hn2 Hm. rewrite (emits_path c ops1 n1 sn), (emits_path c ops2 n2 sn); auto.
  now apply path_emits_ext.
Qed.

(* a logger's path never changes: operations only add loggers *)
Lemma sstep_nodes_stable root ss o n sn :
  nth_error (snodes ss) n = Some sn -> nth_error (snodes (fst (sstep root ss o))) n = Some sn.
Proof.
  intros H. destruct o as [p st w|k hi msg fs w]; cbn [sstep].
  - destruct (nth_error (snodes ss) p) as [sp|]; [|exact H]. destruct (sderive sp st w (snxt ss)) as [sn' nx'].
    cbn [fst snodes]. rewrite nth_error_app1; [exact H|]. apply nth_error_Some. congruence.
  - destruct (nth_error (snodes ss) k) as [sk|]; [|exact H]. destruct (senabled hi root); [|exact H].
    destruct (swalk _ hi (path_name (segs sk)) msg w fs root (items sk) false) as [[c1 w1] n1]. exact H.
Qed.
Lemma srun_nodes_stable root ops : forall ss n sn,
  nth_error (snodes ss) n = Some sn -> nth_error (snodes (fst (srun root ss ops))) n = Some sn.
Proof.
  induction ops as [|o r IH]; intros ss n sn H; [exact H|]. cbn [srun].
  pose proof (sstep_nodes_stable root ss o n sn H) as H1. destruct (sstep root ss o) as [s1 e1]. cbn [fst] in H1.
  specialize (IH s1 n sn H1). destruct (srun root s1 r) as [s2 e2]. exact IH.
Qed.
Theorem path_stable c ops extra n sn :
  nth_error (snodes (sfinal c ops)) n = Some sn -> nth_error (snodes (sfinal c (ops ++ extra))) n = Some sn.
Proof.
  intros H. unfold sfinal in *. rewrite srun_app. destruct (srun (root_of c) (sinit c) ops) as [s1 e1]. cbn [fst] in H.
  pose proof (srun_nodes_stable (root_of c) extra s1 n sn H) as H2. destruct (srun (root_of c) s1 extra) as [s2 e2]. exact H2.
Qed.

(* ---------- static fields: nothing depends on the moment of evaluation ---------- *)
Definition static_sfld (s : sfld) : bool := match s with SF _ => true | _ => false end.
Definition static_sflds (fs : list sfld) : bool := forallb static_sfld fs.
Definition static_items (ch : list pitem) : bool := forallb (fun it => static_sflds (item_fs it)) ch.
Fixpoint static_lcomp (c : lcomp) : bool :=
  match c with
  | LIo _ _ | LObs _ => true
  | LTee l => forallb static_lcomp l
  | LSamp c | LHook c | LFilt _ c => static_lcomp c
  | LLazy _ fs c => static_sflds fs && static_lcomp c
  end.
Lemma evals_static w1 w2 fs : static_sflds fs = true -> evals w1 fs = evals w2 fs.
Proof.
  unfold static_sflds, evals. intros H. apply map_ext_in. intros s Hs. rewrite forallb_forall in H.
  specialize (H s Hs). destruct s; [reflexivity|discriminate..].
Qed.
Lemma io_ctxs_static m1 m2 : forall ch1 ch2, static_items ch1 = true -> map item_fs ch1 = map item_fs ch2 ->
  io_ctxs m1 ch1 = io_ctxs m2 ch2.
Proof.
  induction ch1 as [|x r IH]; intros [|y r2] Hs E; try discriminate; [reflexivity|].
  cbn [map] in E. injection E as E1 E2. cbn [static_items forallb] in Hs. apply andb_true_iff in Hs as [Hs1 Hs2].
  cbn [io_ctxs map]. f_equal; [|now apply IH]. rewrite <- E1. now apply evals_static.
Qed.
Lemma obs_ctx_fs ch1 ch2 : map item_fs ch1 = map item_fs ch2 -> obs_ctx ch1 = obs_ctx ch2.
Proof. unfold obs_ctx. now intros ->. Qed.
Lemma static_obs_ctx ch : static_items ch = true -> static_sflds (obs_ctx ch) = true.
Proof.
  induction ch as [|x r IH]; [reflexivity|]. cbn [static_items forallb]. intros H. apply andb_true_iff in H as [H1 H2].
  unfold obs_ctx. cbn [map concat]. unfold static_sflds. rewrite forallb_app. apply andb_true_iff. split; [exact H1|now apply IH].
Qed.

Lemma swalk_static m1 m2 hi nm msg w1 w2 fs : static_sflds fs = true ->
  forall c ch1 ch2 nn, static_lcomp c = true -> static_items ch1 = true -> map item_fs ch1 = map item_fs ch2 ->
  swalk m1 hi nm msg w1 fs c ch1 nn = swalk m2 hi nm msg w2 fs c ch2 nn.
Proof.
  intros Hfs. induction c as [co k|k|l IH|c IH|c IH|thr c IH|id lfs c IH] using lcomp_ind'; intros ch1 ch2 nn Hc Hs E.
  - cbn [swalk]. rewrite (io_ctxs_static m1 m2 ch1 ch2 Hs E), (evals_static w1 w2 fs Hfs). reflexivity.
  - cbn [swalk]. rewrite (obs_ctx_fs ch1 ch2 E). rewrite (evals_static w1 w2); [reflexivity|].
    unfold static_sflds. rewrite forallb_app. apply andb_true_iff. split; [|exact Hfs].
    rewrite <- (obs_ctx_fs ch1 ch2 E). now apply static_obs_ctx.
  - rewrite !swalk_tee. cbn [static_lcomp] in Hc. revert nn. induction IH as [|x r Hx _ IHr]; intros nn; cbn [swalk_list]; [reflexivity|].
    cbn [forallb] in Hc. apply andb_true_iff in Hc as [Hc1 Hc2]. rewrite (Hx ch1 ch2 nn Hc1 Hs E).
    destruct (swalk m2 hi nm msg w2 fs x ch2 nn) as [[c1 v1] n1]. now rewrite (IHr Hc2 n1).
  - cbn [swalk static_lcomp] in *. destruct (senabled hi c); [|reflexivity]. now rewrite (IH ch1 ch2 nn Hc Hs E).
  - cbn [swalk static_lcomp] in *. now rewrite (IH ch1 ch2 nn Hc Hs E).
  - cbn [swalk static_lcomp] in *. destruct (admits thr hi); [|reflexivity]. now rewrite (IH ch1 ch2 nn Hc Hs E).
  - cbn [swalk static_lcomp] in *. apply andb_true_iff in Hc as [Hl Hc]. apply IH; [exact Hc| |].
    + cbn [static_items forallb item_fs]. now rewrite Hl.
    + cbn [map item_fs]. now rewrite E.
Qed.

(* with static fields a logger's events are a function of its name and of the sequence of field lists
   along its path: not of the marks, the worlds, or which steps were lazy *)
Lemma path_emits_static root m1 m2 sn1 sn2 hi msg fs w1 w2 :
  static_lcomp root = true -> static_items (items sn1) = true -> static_sflds fs = true ->
  path_name (segs sn1) = path_name (segs sn2) -> map item_fs (items sn1) = map item_fs (items sn2) ->
  path_emits root m1 sn1 hi msg fs w1 = path_emits root m2 sn2 hi msg fs w2.
Proof.
  intros Hr Hs Hfs En Ei. unfold path_emits. destruct (senabled hi root); [|reflexivity]. rewrite En.
  now rewrite (swalk_static _ (mark_all w2 (log_marks hi root (items sn2)) m2) hi (path_name (segs sn2)) msg w1 w2 fs Hfs
                 root (items sn1) (items sn2) false Hr Hs Ei).
Qed.

Fixpoint static_comp (c : comp) : bool :=
  match c with
  | CJson | CConsole | CObs => true
  | CTee l => forallb static_comp l
  | CSamp c | CHook c | CFilt _ c => static_comp c
  | CLazy fs c => static_sflds fs && static_comp c
  end.
Definition static_step (s : step) : bool :=
  match s with SWith fs | SWithLazy fs | SFields fs => static_sflds fs | _ => true end.
Definition static_op (o : op) : bool :=
  match o with ODerive _ s _ => static_step s | OLog _ _ _ fs _ => static_sflds fs end.

Lemma static_label : forall c nc nk, static_lcomp (fst (fst (label c nc nk))) = static_comp c.
Proof.
  induction c as [| | |l IH|c IH|c IH|thr c IH|fs c IH] using comp_ind'; intros nc nk; try reflexivity.
  - rewrite label_tee.
    assert (H : forallb static_lcomp (fst (fst (label_list l nc nk))) = forallb static_comp l).
    { revert nc nk. induction IH as [|x r Hx _ IHr]; intros nc nk; cbn [label_list]; [reflexivity|].
      specialize (Hx nc nk). destruct (label x nc nk) as [[x' nc1] nk1]. cbn [fst] in Hx.
      specialize (IHr nc1 nk1). destruct (label_list r nc1 nk1) as [[r' nc2] nk2]. cbn [fst forallb] in *. now rewrite Hx, IHr. }
    destruct (label_list l nc nk) as [[l' nc'] nk']. exact H.
  - specialize (IH nc nk). cbn [label]. destruct (label c nc nk) as [[c' nc'] nk']. exact IH.
  - specialize (IH nc nk). cbn [label]. destruct (label c nc nk) as [[c' nc'] nk']. exact IH.
  - specialize (IH nc nk). cbn [label]. destruct (label c nc nk) as [[c' nc'] nk']. exact IH.
  - specialize (IH nc nk). cbn [label]. destruct (label c nc nk) as [[c' nc'] nk']. cbn [fst static_lcomp static_comp] in *. now rewrite IH.
Qed.

(* paths of a static program hold static items *)
Lemma sstep_static root ss o : static_op o = true -> Forall (fun sn => static_items (items sn) = true) (snodes ss) ->
  Forall (fun sn => static_items (items sn) = true) (snodes (fst (sstep root ss o))).
Proof.
  intros Ho H. destruct o as [p st w|k hi msg fs w]; cbn [sstep].
  - destruct (nth_error (snodes ss) p) as [sp|] eqn:E; [|exact H].
    assert (Hsp : static_items (items sp) = true).
    { rewrite Forall_forall in H. apply H. eapply nth_error_In; exact E. }
    destruct (sderive sp st w (snxt ss)) as [sn' nx'] eqn:Ed. cbn [fst snodes]. apply Forall_app. split; [exact H|].
    constructor; [|constructor]. cbn [static_op] in Ho.
    destruct st as [fs|fs|sgm|fs| |]; cbn [sderive static_step] in *;
      try (destruct (is_nil fs)); injection Ed as <- _; cbn [items]; try exact Hsp;
      unfold static_items; rewrite forallb_app; cbn [forallb item_fs]; fold (static_items (items sp)); now rewrite Hsp, Ho.
  - destruct (nth_error (snodes ss) k) as [sk|]; [|exact H]. destruct (senabled hi root); [|exact H].
    destruct (swalk _ hi (path_name (segs sk)) msg w fs root (items sk) false) as [[c1 w1] n1]. exact H.
Qed.
Lemma srun_static root ops : forall ss, forallb static_op ops = true ->
  Forall (fun sn => static_items (items sn) = true) (snodes ss) ->
  Forall (fun sn => static_items (items sn) = true) (snodes (fst (srun root ss ops))).
Proof.
  induction ops as [|o r IH]; intros ss Ho H; [exact H|]. cbn [forallb] in Ho. apply andb_true_iff in Ho as [Ho1 Ho2].
  cbn [srun]. pose proof (sstep_static root ss o Ho1 H) as H1. destruct (sstep root ss o) as [s1 e1]. cbn [fst] in H1.
  specialize (IH s1 Ho2 H1). destruct (srun root s1 r) as [s2 e2]. exact IH.
Qed.

(* C07_isolated_static: for programs whose fields are static, two loggers with the same name and the
   same sequence of field lists along their paths emit the same, in any two programs, whenever they log *)
Theorem isolated_static_thm c ops1 ops2 n1 n2 sn1 sn2 hi msg fs w1 w2 :
  wf_comp c = true -> forallb wf_op ops1 = true -> forallb wf_op ops2 = true -> wf_sflds fs = true ->
  static_comp c = true -> forallb static_op ops1 = true -> static_sflds fs = true ->
  nth_error (snodes (sfinal c ops1)) n1 = Some sn1 -> nth_error (snodes (sfinal c ops2)) n2 = Some sn2 ->
  path_name (segs sn1) = path_name (segs sn2) -> map item_fs (items sn1) = map item_fs (items sn2) ->
  emits c ops1 n1 hi msg fs w1 = emits c ops2 n2 hi msg fs w2.
Proof.
  intros Hc H1 H2 Hfs Hsc Hs1 Hsf Hn1 Hn2 En Ei.
  rewrite (emits_path c ops1 n1 sn1), (emits_path c ops2 n2 sn2); auto.
  apply path_emits_static; auto.
  - unfold root_of. now rewrite static_label.
  - assert (H0 : Forall (fun sn => static_items (items sn) = true) (snodes (sinit c))).
    { cbn [sinit snodes]. constructor; [reflexivity|constructor]. }
    pose proof (srun_static (root_of c) ops1 (sinit c) Hs1 H0) as H. fold (sfinal c ops1) in H.
    rewrite Forall_forall in H. apply H. eapply nth_error_In; exact Hn1.
Qed.

(* ---------- WithLazy: first use, once ---------- *)
Definition op_world (o : op) : Z := match o with ODerive _ _ w | OLog _ _ _ _ w => w end.
(* the lazily evaluated contexts an operation uses (evaluates, if they are still pending) *)
Definition used_ids (root : lcomp) (ss : sstate) (o : op) : list nat :=
  match o with
  | ODerive p st _ =>
      match nth_error (snodes ss) p with
      | Some sn => if forcing st then all_ids root ++ lazy_ids (items sn) else []
      | None => []
      end
  | OLog n hi _ _ _ =>
      match nth_error (snodes ss) n with
      | Some sn => if senabled hi root then log_marks hi root (items sn) else []
      | None => []
      end
  end.
Lemma sstep_marks root ss o : smarks (fst (sstep root ss o)) = mark_all (op_world o) (used_ids root ss o) (smarks ss).
Proof.
  destruct o as [p st w|k hi msg fs w]; cbn [sstep used_ids op_world].
  - destruct (nth_error (snodes ss) p) as [sp|]; [|reflexivity]. destruct (sderive sp st w (snxt ss)) as [sn' nx'].
    cbn [fst smarks]. destruct (forcing st); reflexivity.
  - destruct (nth_error (snodes ss) k) as [sk|]; [|reflexivity]. unfold log_marks. destruct (senabled hi root); [|reflexivity].
    destruct (swalk _ hi (path_name (segs sk)) msg w fs root (items sk) false) as [[c1 w1] n1]. reflexivity.
Qed.

(* once: an evaluation world, once recorded, never changes *)
Theorem marks_once root ops : forall ss, mext (smarks ss) (smarks (fst (srun root ss ops))).
Proof.
  induction ops as [|o r IH]; intros ss; [intros id v H; exact H|]. cbn [srun].
  pose proof (sstep_marks root ss o) as Hm. destruct (sstep root ss o) as [s1 e1]. cbn [fst] in Hm.
  specialize (IH s1). destruct (srun root s1 r) as [s2 e2]. cbn [fst] in *.
  intros id v H. apply IH. rewrite Hm. now apply mext_mark_all.
Qed.

(* first use: the world recorded for a pending context is the world of the first later operation that uses it *)
Fixpoint first_use (root : lcomp) (ss : sstate) (ops : list op) (id : nat) : option Z :=
  match ops with
  | [] => None
  | o :: r => if mem id (used_ids root ss o) then Some (op_world o) else first_use root (fst (sstep root ss o)) r id
  end.
Theorem lazy_first_use root ops : forall ss id, lookup id (smarks ss) = None ->
  lookup id (smarks (fst (srun root ss ops))) = first_use root ss ops id.
Proof.
  induction ops as [|o r IH]; intros ss id H; [exact H|]. cbn [srun first_use].
  pose proof (sstep_marks root ss o) as Hm. pose proof (marks_once root r (fst (sstep root ss o))) as Ho.
  destruct (sstep root ss o) as [s1 e1] eqn:Es. cbn [fst] in *.
  specialize (IH s1 id). destruct (srun root s1 r) as [s2 e2]. cbn [fst] in *.
  assert (Hl : lookup id (smarks s1) = if mem id (used_ids root ss o) then Some (op_world o) else None).
  { rewrite Hm, lookup_mark_all, H. reflexivity. }
  destruct (mem id (used_ids root ss o)).
  - now apply Ho.
  - now apply IH.
Qed.

(* ---------- With results and wrappers ---------- *)
(* wrapper_with_commutes, stated on cores directly: With keeps every wrapper and is With at every leaf *)
Fixpoint leaves (p : pcore) : list pcore :=
  match p with
  | PIo _ _ _ | PObs _ _ => [p]
  | PTee l => concat (map leaves l)
  | PSamp c | PHook c | PFilt _ c => leaves c
  end.
Inductive shape := ShLeaf | ShTee (l : list shape) | ShSamp (c : shape) | ShHook (c : shape) | ShFilt (thr : lref) (c : shape).
Fixpoint shape_of (p : pcore) : shape :=
  match p with
  | PIo _ _ _ | PObs _ _ => ShLeaf
  | PTee l => ShTee (map shape_of l)
  | PSamp c => ShSamp (shape_of c)
  | PHook c => ShHook (shape_of c)
  | PFilt thr c => ShFilt thr (shape_of c)
  end.
Theorem wrapper_with_commutes w fs : forall p,
  shape_of (pwith w fs p) = shape_of p /\ leaves (pwith w fs p) = map (pwith w fs) (leaves p).
Proof.
  induction p as [co k s|k ctx|l IH|c IH|c IH|thr c IH] using pcore_ind'; cbn [pwith shape_of leaves map]; auto.
  - split.
    + f_equal. rewrite map_map. apply map_ext_in. intros x Hx. rewrite Forall_forall in IH. now apply IH.
    + rewrite map_map. rewrite concat_map, map_map. f_equal. apply map_ext_in. intros x Hx. rewrite Forall_forall in IH. now apply IH.
  - destruct IH as [-> ->]. auto.
  - destruct IH as [-> ->]. auto.
  - destruct IH as [-> ->]. auto.
Qed.

(* with_compose, byte level: the encoder state after a chain of Withs continues the fold, and the
   line it produces is the print of the tree of ALL the fields in order (namespaces opened by an
   earlier With nest the later ones) *)
Theorem with_compose c sp ctxs1 ctxs2 :
  with_chain c sp (ctxs1 ++ ctxs2) = fold_left (fun s fs => enc_flds c sp fs s) ctxs2 (with_chain c sp ctxs1).
Proof. unfold with_chain. apply fold_left_app. Qed.

(* ---------- WithLazy = With when nothing depends on the moment of evaluation ---------- *)
Definition eagerize_step (s : step) : step := match s with SWithLazy fs => SWith fs | _ => s end.
Definition eagerize (o : op) : op := match o with ODerive p s w => ODerive p (eagerize_step s) w | _ => o end.
Definition same_path (sn sn' : snode) : Prop :=
  segs sn = segs sn' /\ map item_fs (items sn) = map item_fs (items sn').

Lemma sstep_eagerize root ss ss' o : static_lcomp root = true -> static_op o = true ->
  Forall (fun sn => static_items (items sn) = true) (snodes ss) ->
  Forall2 same_path (snodes ss) (snodes ss') ->
  snd (sstep root ss o) = snd (sstep root ss' (eagerize o)) /\
  Forall2 same_path (snodes (fst (sstep root ss o))) (snodes (fst (sstep root ss' (eagerize o)))).
Proof.
  intros Hr Ho Hst HR. destruct o as [p st w|k hi msg fs w]; cbn [eagerize sstep].
  - pose proof (Forall2_nth_error _ _ _ p HR) as Hn.
    destruct (nth_error (snodes ss) p) as [sp|]; destruct (nth_error (snodes ss') p) as [sp'|]; try contradiction; [|auto].
    destruct Hn as [Hs Hi].
    destruct (sderive sp st w (snxt ss)) as [sn nx] eqn:E1.
    destruct (sderive sp' (eagerize_step st) w (snxt ss')) as [sn' nx'] eqn:E2. cbn [fst snd snodes]. split; [reflexivity|].
    apply Forall2_app; [exact HR|]. constructor; [|constructor].
    destruct st as [fs|fs|sgm|fs| |]; cbn [eagerize_step sderive] in *; try (destruct (is_nil fs));
      injection E1 as <- _; injection E2 as <- _; split; cbn [segs items]; auto;
      try (now rewrite Hs); rewrite !map_app, Hi; reflexivity.
  - pose proof (Forall2_nth_error _ _ _ k HR) as Hn.
    destruct (nth_error (snodes ss) k) as [sk|] eqn:Ek; destruct (nth_error (snodes ss') k) as [sk'|]; try contradiction; [|auto].
    destruct Hn as [Hs Hi]. destruct (senabled hi root); [|auto].
    assert (Hsk : static_items (items sk) = true).
    { rewrite Forall_forall in Hst. apply Hst. eapply nth_error_In; exact Ek. }
    assert (Hnil : is_nil (items sk) = is_nil (items sk')).
    { destruct (items sk), (items sk'); try discriminate; reflexivity. }
    rewrite Hs. cbn [static_op] in Ho.
    rewrite (swalk_static _ (mark_all w (if is_nil (items sk') then log_ids hi root else all_ids root ++ lazy_ids (items sk')) (smarks ss'))
               hi (path_name (segs sk')) msg w w fs Ho root (items sk) (items sk') false Hr Hsk Hi).
    destruct (swalk _ hi (path_name (segs sk')) msg w fs root (items sk') false) as [[c1 w1] n1]. cbn [fst snd snodes]. auto.
Qed.

Lemma srun_eagerize root ops : static_lcomp root = true -> forall ss ss', forallb static_op ops = true ->
  Forall (fun sn => static_items (items sn) = true) (snodes ss) ->
  Forall2 same_path (snodes ss) (snodes ss') ->
  snd (srun root ss ops) = snd (srun root ss' (map eagerize ops)).
Proof.
  intros Hr. induction ops as [|o r IH]; intros ss ss' Ho Hst HR; [reflexivity|].
  cbn [forallb] in Ho. apply andb_true_iff in Ho as [Ho1 Ho2]. cbn [map srun].
  destruct (sstep_eagerize root ss ss' o Hr Ho1 Hst HR) as [He HR'].
  pose proof (sstep_static root ss o Ho1 Hst) as Hst'.
  destruct (sstep root ss o) as [s1 e1]. destruct (sstep root ss' (eagerize o)) as [s1' e1']. cbn [fst snd] in *. subst e1'.
  specialize (IH s1 s1' Ho2 Hst' HR'). destruct (srun root s1 r) as [s2 e2]. destruct (srun root s1' (map eagerize r)) as [s2' e2'].
  cbn [snd] in *. now subst.
Qed.

Lemma wf_eagerize ops : forallb wf_op (map eagerize ops) = forallb wf_op ops.
Proof.
  induction ops as [|o r IH]; [reflexivity|]. cbn [map forallb]. rewrite IH. f_equal.
  destruct o as [p [fs|fs|s|fs| |] w|]; reflexivity.
Qed.

(* C07_lazy (static part): replacing every WithLazy by With changes nothing any logger ever emits *)
Theorem lazy_as_with_thm c ops :
  wf_comp c = true -> forallb wf_op ops = true -> static_comp c = true -> forallb static_op ops = true ->
  run_events c (map eagerize ops) = run_events c ops.
Proof.
  intros Hc Hops Hsc Hso. rewrite !exact_thm; auto; [|now rewrite wf_eagerize].
  unfold spec_events. symmetry. apply srun_eagerize; auto.
  - unfold root_of. now rewrite static_label.
  - cbn [sinit snodes]. constructor; [reflexivity|constructor].
  - cbn [sinit snodes]. constructor; [split; reflexivity|constructor].
Qed.

(* the default world of an unmarked lazily evaluated item is never read: at a logging call every
   cell the walk reads ([swalk_ext]) has been marked *)
Theorem spec_marked hi root its w m :
  all_marked (mark_all w (log_marks hi root its) m) (log_ids hi root ++ lazy_ids its).
Proof.
  unfold log_marks. destruct its as [|it r]; cbn [is_nil].
  - cbn [lazy_ids map concat]. rewrite app_nil_r. apply all_marked_mark_all.
  - apply Forall_forall. intros id Hin. apply marked_mark_all_in.
    apply in_app_iff in Hin as [Hin|Hin]; apply in_app_iff; [left; now apply (log_ids_incl hi root)|now right].
Qed.

(* ---------- recorded entries are never rewritten ---------- *)
(* what the calls of a program made observable is a prefix of what they and any later operations
   (further calls from the same logger or any other, further derivations) make observable: the
   end-of-history view of an entry is the entry *)
Lemma run_app root : forall a b s,
  run root s (a ++ b) = let '(s1, e1) := run root s a in let '(s2, e2) := run root s1 b in (s2, e1 ++ e2).
Proof.
  induction a as [|o r IH]; intros b s; cbn [app run].
  - destruct (run root s b). reflexivity.
  - destruct (step_op root s o) as [s1 e1]. rewrite IH. destruct (run root s1 r) as [s2 e2].
    destruct (run root s2 b) as [s3 e3]. now rewrite app_assoc.
Qed.
Lemma run_events_prefix c ops extra : exists rest, run_events c (ops ++ extra) = run_events c ops ++ rest.
Proof.
  unfold run_events. rewrite run_app. destruct (run (root_of c) (init c) ops) as [s1 e1].
  destruct (run (root_of c) s1 extra) as [s2 e2]. now exists e2.
Qed.
Lemma spec_events_prefix c ops extra : exists rest, spec_events c (ops ++ extra) = spec_events c ops ++ rest.
Proof.
  unfold spec_events. rewrite srun_app. destruct (srun (root_of c) (sinit c) ops) as [s1 e1].
  destruct (srun (root_of c) s1 extra) as [s2 e2]. now exists e2.
Qed.
Lemma firstn_map_prefix {A B} (f : A -> B) (l rest : list A) : firstn (length l) (map f (l ++ rest)) = map f l.
Proof.
  rewrite map_app. replace (length l) with (length (map f l)) by apply map_length.
  rewrite firstn_app, Nat.sub_diag, firstn_all. cbn [firstn]. apply app_nil_r.
Qed.
(* the end-of-history view (Model.v [enc_end]) of the calls of [ops], taken after any further
   operations [extra], is their view taken at once -- in the operational model and in the specification *)
Theorem end_view_stable c ops extra nk :
  firstn (length (run_events c ops)) (map (enc_log_end nk) (run_events c (ops ++ extra))) = map (enc_log_end nk) (run_events c ops) /\
  firstn (length (spec_events c ops)) (map (enc_log_end nk) (spec_events c (ops ++ extra))) = map (enc_log_end nk) (spec_events c ops).
Proof.
  destruct (run_events_prefix c ops extra) as [r1 H1]. destruct (spec_events_prefix c ops extra) as [r2 H2].
  rewrite H1, H2. split; apply firstn_map_prefix.
Qed.
(* and that view is the sink columns of the per-call observation (its aux column dropped) *)
Lemma enc_log_end_tail nk evs : enc_log nk evs = SL (SL (map enc_ev (filter is_aux evs)) :: sx_l (enc_log_end nk evs)).
Proof. reflexivity. Qed.

(* C07 — stub *)
From Zap Require Import Base.Wire C07.Model.

(* C07 — proofs, part 1: the expected pure core of a derivation path ([pexp]); Core.With and
   Check/Write on it agree with the path specification (wrappers commute with With; the bytes of a
   line are the print of the tree-level entry, by Enc/Refine5.entry_bytes). *)
From Coq Require Import List ZArith NArith Bool Lia.
From Coq.Strings Require Import Byte.
Import ListNotations.
From Zap Require Import Base.Wire Enc.Bytes Enc.Decimal Enc.Fields Enc.JsonEnc Enc.JsonAst Enc.WireEnc Enc.Wf.
From Zap Require Import Enc.Refine1 Enc.Refine3 Enc.Refine4 Enc.Refine5.
From Zap Require Import C07.Model.

(* ---------- induction principles for the n-ary trees ---------- *)
Section PcoreInd.
  Variable P : pcore -> Prop.
  Hypothesis Hio : forall co k s, P (PIo co k s).
  Hypothesis Hobs : forall k ctx, P (PObs k ctx).
  Hypothesis Htee : forall l, Forall P l -> P (PTee l).
  Hypothesis Hsamp : forall c, P c -> P (PSamp c).
  Hypothesis Hhook : forall c, P c -> P (PHook c).
  Hypothesis Hfilt : forall thr c, P c -> P (PFilt thr c).
  Fixpoint pcore_ind' (p : pcore) : P p :=
    match p with
    | PIo co k s => Hio co k s
    | PObs k ctx => Hobs k ctx
    | PTee l => Htee l ((fix go (l : list pcore) : Forall P l :=
                           match l with [] => Forall_nil P | x :: r => Forall_cons x (pcore_ind' x) (go r) end) l)
    | PSamp c => Hsamp c (pcore_ind' c)
    | PHook c => Hhook c (pcore_ind' c)
    | PFilt thr c => Hfilt thr c (pcore_ind' c)
    end.
End PcoreInd.
Section LcompInd.
  Variable P : lcomp -> Prop.
  Hypothesis Hio : forall co k, P (LIo co k).
  Hypothesis Hobs : forall k, P (LObs k).
  Hypothesis Htee : forall l, Forall P l -> P (LTee l).
  Hypothesis Hsamp : forall c, P c -> P (LSamp c).
  Hypothesis Hhook : forall c, P c -> P (LHook c).
  Hypothesis Hfilt : forall thr c, P c -> P (LFilt thr c).
  Hypothesis Hlazy : forall id fs c, P c -> P (LLazy id fs c).
  Fixpoint lcomp_ind' (c : lcomp) : P c :=
    match c with
    | LIo co k => Hio co k
    | LObs k => Hobs k
    | LTee l => Htee l ((fix go (l : list lcomp) : Forall P l :=
                           match l with [] => Forall_nil P | x :: r => Forall_cons x (lcomp_ind' x) (go r) end) l)
    | LSamp c => Hsamp c (lcomp_ind' c)
    | LHook c => Hhook c (lcomp_ind' c)
    | LFilt thr c => Hfilt thr c (lcomp_ind' c)
    | LLazy id fs c => Hlazy id fs c (lcomp_ind' c)
    end.
End LcompInd.
Section CompInd.
  Variable P : comp -> Prop.
  Hypothesis Hj : P CJson.
  Hypothesis Hc : P CConsole.
  Hypothesis Ho : P CObs.
  Hypothesis Htee : forall l, Forall P l -> P (CTee l).
  Hypothesis Hsamp : forall c, P c -> P (CSamp c).
  Hypothesis Hhook : forall c, P c -> P (CHook c).
  Hypothesis Hfilt : forall thr c, P c -> P (CFilt thr c).
  Hypothesis Hlazy : forall fs c, P c -> P (CLazy fs c).
  Fixpoint comp_ind' (c : comp) : P c :=
    match c with
    | CJson => Hj | CConsole => Hc | CObs => Ho
    | CTee l => Htee l ((fix go (l : list comp) : Forall P l :=
                           match l with [] => Forall_nil P | x :: r => Forall_cons x (comp_ind' x) (go r) end) l)
    | CSamp c => Hsamp c (comp_ind' c)
    | CHook c => Hhook c (comp_ind' c)
    | CFilt thr c => Hfilt thr c (comp_ind' c)
    | CLazy fs c => Hlazy fs c (comp_ind' c)
    end.
End CompInd.

(* ---------- the list loops of the model, named ---------- *)
Definition rwith_list (w : Z) (fs : list sfld) :=
  fix go (l : list lcomp) (sg : store) {struct l} : list pcore * store :=
    match l with
    | [] => ([], sg)
    | x :: r => let '(x', sg1) := rwith w fs x sg in
                let '(r', sg2) := go r sg1 in (x' :: r', sg2)
    end.
Lemma rwith_tee w fs l sg :
  rwith w fs (LTee l) sg = let '(l', sg') := rwith_list w fs l sg in (PTee l', sg').
Proof. reflexivity. Qed.

Definition plog_list (ent : entry) (hi : lvq) (w : Z) (fs : list sfld) :=
  fix go (l : list pcore) (nn : bool) {struct l} : res :=
    match l with
    | [] => ([], [], nn)
    | x :: r => let '(c1, w1, n1) := plog ent hi w fs x nn in
                let '(c2, w2, n2) := go r n1 in (c1 ++ c2, w1 ++ w2, n2)
    end.
Lemma plog_tee ent hi w fs l nn : plog ent hi w fs (PTee l) nn = plog_list ent hi w fs l nn.
Proof. reflexivity. Qed.

Definition swalk_list (m : marks) (hi : lvq) (nm msg : bytes) (w : Z) (fs : list sfld) (ch : list pitem) :=
  fix go (l : list lcomp) (nn : bool) {struct l} : res :=
    match l with
    | [] => ([], [], nn)
    | x :: r => let '(c1, w1, n1) := swalk m hi nm msg w fs x ch nn in
                let '(c2, w2, n2) := go r n1 in (c1 ++ c2, w1 ++ w2, n2)
    end.
Lemma swalk_tee m hi nm msg w fs l ch nn :
  swalk m hi nm msg w fs (LTee l) ch nn = swalk_list m hi nm msg w fs ch l nn.
Proof. reflexivity. Qed.

Definition rlog_list (ent : entry) (hi : lvq) (w : Z) (fs : list sfld) :=
  fix go (l : list lcomp) (sg : store) (nn : bool) {struct l} : res * store :=
    match l with
    | [] => (([], [], nn), sg)
    | x :: r => let '((c1, w1, n1), sg1) := rlog ent hi w fs x sg nn in
                let '((c2, w2, n2), sg2) := go r sg1 n1 in ((c1 ++ c2, w1 ++ w2, n2), sg2)
    end.
Lemma rlog_tee ent hi w fs l sg nn : rlog ent hi w fs (LTee l) sg nn = rlog_list ent hi w fs l sg nn.
Proof. reflexivity. Qed.

(* ---------- marks ---------- *)
Definition marked (m : marks) (id : nat) : Prop := lookup id m <> None.
Definition all_marked (m : marks) (ids : list nat) : Prop := Forall (marked m) ids.
Definition mem (id : nat) (ids : list nat) : bool := existsb (Nat.eqb id) ids.
Lemma mem_In id ids : mem id ids = true <-> In id ids.
Proof.
  unfold mem. rewrite existsb_exists. split.
  - intros (x & Hx & E). apply Nat.eqb_eq in E. now subst.
  - intros H. exists id. split; [exact H|apply Nat.eqb_refl].
Qed.
Lemma mem_app id a b : mem id (a ++ b) = mem id a || mem id b.
Proof. unfold mem. apply existsb_app. Qed.

Lemma lookup_mark_all w ids : forall m id,
  lookup id (mark_all w ids m) =
    match lookup id m with Some v => Some v | None => if mem id ids then Some w else None end.
Proof.
  induction ids as [|x r IH]; intros m id; cbn [mark_all mem existsb].
  - destruct (lookup id m); reflexivity.
  - rewrite IH. destruct (lookup x m) as [vx|] eqn:Ex.
    + destruct (lookup id m) as [v|] eqn:Ei; [reflexivity|].
      destruct (Nat.eqb id x) eqn:E; [|reflexivity]. apply Nat.eqb_eq in E. subst. congruence.
    + cbn [lookup]. destruct (Nat.eqb x id) eqn:E.
      * apply Nat.eqb_eq in E. subst. rewrite Ex, Nat.eqb_refl. reflexivity.
      * rewrite Nat.eqb_sym, E. reflexivity.
Qed.
Lemma mark_all_app w a b m : mark_all w (a ++ b) m = mark_all w b (mark_all w a m).
Proof. revert m. induction a as [|x r IH]; intros m; cbn [app mark_all]; [reflexivity|apply IH]. Qed.
Lemma mark_all_marked w ids m : all_marked m ids -> mark_all w ids m = m.
Proof.
  induction 1 as [|x r Hx _ IH]; cbn [mark_all]; [reflexivity|].
  unfold marked in Hx. destruct (lookup x m); [exact IH|congruence].
Qed.
Lemma marked_mark_all w ids m id : marked m id -> marked (mark_all w ids m) id.
Proof. unfold marked. rewrite lookup_mark_all. destruct (lookup id m); congruence. Qed.
Lemma marked_mark_all_in w ids m id : In id ids -> marked (mark_all w ids m) id.
Proof.
  intros H. unfold marked. rewrite lookup_mark_all. apply mem_In in H. rewrite H.
  destruct (lookup id m); congruence.
Qed.
Lemma all_marked_mark_all w ids m : all_marked (mark_all w ids m) ids.
Proof. apply Forall_forall. intros id H. now apply marked_mark_all_in. Qed.
Lemma all_marked_mono w ids m l : all_marked m l -> all_marked (mark_all w ids m) l.
Proof. intros H. eapply Forall_impl; [|exact H]. intros id. apply marked_mark_all. Qed.
Lemma all_marked_app m a b : all_marked m (a ++ b) <-> all_marked m a /\ all_marked m b.
Proof. apply Forall_app. Qed.
(* marks only grow, and what is marked stays as it is *)
Definition mext (m m' : marks) : Prop := forall id v, lookup id m = Some v -> lookup id m' = Some v.
Lemma mext_mark_all w ids m : mext m (mark_all w ids m).
Proof. intros id v H. rewrite lookup_mark_all, H. reflexivity. Qed.
Lemma mext_agree m m' ids : mext m m' -> all_marked m ids -> forall id, In id ids -> lookup id m' = lookup id m.
Proof.
  intros He Ha id Hin. unfold all_marked in Ha. rewrite Forall_forall in Ha. specialize (Ha id Hin).
  unfold marked in Ha. destruct (lookup id m) as [v|] eqn:E; [|congruence]. now apply He.
Qed.

(* ---------- chains ---------- *)
Lemma io_ctxs_app m a b : io_ctxs m (a ++ b) = io_ctxs m a ++ io_ctxs m b.
Proof. apply map_app. Qed.
Lemma obs_ctx_app a b : obs_ctx (a ++ b) = obs_ctx a ++ obs_ctx b.
Proof. unfold obs_ctx. now rewrite map_app, concat_app. Qed.
Lemma lazy_ids_app a b : lazy_ids (a ++ b) = lazy_ids a ++ lazy_ids b.
Proof. unfold lazy_ids. now rewrite map_app, concat_app. Qed.
Lemma lazy_ids_cons_lazy id fs r : lazy_ids (PLazy id fs :: r) = id :: lazy_ids r.
Proof. reflexivity. Qed.
Lemma lazy_ids_cons_eager w fs r : lazy_ids (PEager w fs :: r) = lazy_ids r.
Proof. reflexivity. Qed.

Lemma io_ctxs_ext m1 m2 ch : (forall id, In id (lazy_ids ch) -> lookup id m1 = lookup id m2) ->
  io_ctxs m1 ch = io_ctxs m2 ch.
Proof.
  induction ch as [|it r IH]; intros H; [reflexivity|]. cbn [io_ctxs map]. f_equal.
  - destruct it as [w fs|id fs]; [reflexivity|]. cbn [item_world item_fs]. unfold mark_or.
    rewrite (H id); [reflexivity|]. rewrite lazy_ids_cons_lazy. now left.
  - apply IH. intros id Hin. apply H. destruct it; [exact Hin|rewrite lazy_ids_cons_lazy; now right].
Qed.

(* ---------- the expected pure core of a chain of path items ---------- *)
Fixpoint pexp (m : marks) (c : lcomp) (ch : list pitem) {struct c} : pcore :=
  match c with
  | LIo co k => PIo co k (with_chain c07_cfg co (io_ctxs m ch))
  | LObs k => PObs k (obs_ctx ch)
  | LTee l => PTee (map (fun x => pexp m x ch) l)
  | LSamp c => PSamp (pexp m c ch)
  | LHook c => PHook (pexp m c ch)
  | LFilt thr c => PFilt thr (pexp m c ch)
  | LLazy id lfs c => pexp m c (PLazy id lfs :: ch)
  end.

(* wrapper_with_commutes: With on any composition of wrappers = With at every leaf, wrappers kept *)
Lemma pwith_pexp m w fs : forall c ch, pwith w fs (pexp m c ch) = pexp m c (ch ++ [PEager w fs]).
Proof.
  induction c as [co k|k|l IH|c IH|c IH|thr c IH|id lfs c IH] using lcomp_ind'; intros ch; cbn [pexp pwith].
  - f_equal. rewrite io_ctxs_app. cbn [io_ctxs map item_world item_fs]. unfold with_chain. now rewrite fold_left_app.
  - f_equal. rewrite obs_ctx_app. f_equal. unfold obs_ctx. cbn [map concat item_fs]. now rewrite app_nil_r.
  - f_equal. rewrite map_map. apply map_ext_in. intros x Hx. rewrite Forall_forall in IH. now apply IH.
  - now rewrite IH.
  - now rewrite IH.
  - now rewrite IH.
  - now rewrite IH.
Qed.

Lemma pexp_ext m1 m2 : forall c ch,
  (forall id, In id (all_ids c ++ lazy_ids ch) -> lookup id m1 = lookup id m2) -> pexp m1 c ch = pexp m2 c ch.
Proof.
  induction c as [co k|k|l IH|c IH|c IH|thr c IH|id lfs c IH] using lcomp_ind'; intros ch H; cbn [pexp all_ids] in *.
  - f_equal. f_equal. apply io_ctxs_ext. exact H.
  - reflexivity.
  - f_equal. apply map_ext_in. intros x Hx. rewrite Forall_forall in IH. apply IH; [exact Hx|].
    intros id Hin. apply H. apply in_app_iff in Hin as [Hin|Hin]; apply in_app_iff; [left|now right].
    apply in_concat. exists (all_ids x). split; [now apply in_map|exact Hin].
  - f_equal. now apply IH.
  - f_equal. now apply IH.
  - f_equal. now apply IH.
  - apply IH. intros i Hin. apply H. rewrite lazy_ids_cons_lazy in Hin.
    apply in_app_iff in Hin as [Hin|[<-|Hin]]; apply in_app_iff.
    + left. apply in_app_iff. now left.
    + left. apply in_app_iff. right. now left.
    + now right.
Qed.

(* a lazily evaluated item whose evaluation world is w is an eager item made at w *)
Lemma pexp_lazy_eager m id w lfs : lookup id m = Some w ->
  forall c a b, pexp m c (a ++ PLazy id lfs :: b) = pexp m c (a ++ PEager w lfs :: b).
Proof.
  intros Hm. induction c as [co k|k|l IH|c IH|c IH|thr c IH|id' lfs' c IH] using lcomp_ind'; intros a b; cbn [pexp].
  - f_equal. f_equal. rewrite !io_ctxs_app. f_equal. cbn [io_ctxs map item_world item_fs]. unfold mark_or. now rewrite Hm.
  - f_equal. rewrite !obs_ctx_app. f_equal.
  - f_equal. apply map_ext_in. intros x Hx. rewrite Forall_forall in IH. now apply IH.
  - now rewrite IH.
  - now rewrite IH.
  - now rewrite IH.
  - apply (IH (PLazy id' lfs' :: a) b).
Qed.

(* ---------- Enabled is a static fact of the composition ---------- *)
Lemma penabled_pexp m hi : forall c ch, penabled hi (pexp m c ch) = senabled hi c.
Proof.
  induction c as [co k|k|l IH|c IH|c IH|thr c IH|id lfs c IH] using lcomp_ind'; intros ch; cbn [pexp penabled senabled]; auto.
  - induction IH as [|x r Hx _ IHr]; cbn [map existsb]; [reflexivity|]. now rewrite Hx, IHr.
  - now rewrite IH.
Qed.

(* ---------- well-formed oracle values ---------- *)
Definition wf_item (it : pitem) : bool := wf_sflds (item_fs it).
Definition wf_items (its : list pitem) : bool := forallb wf_item its.
Fixpoint wf_lcomp (c : lcomp) : bool :=
  match c with
  | LIo _ _ | LObs _ => true
  | LTee l => forallb wf_lcomp l
  | LSamp c | LHook c | LFilt _ c => wf_lcomp c
  | LLazy _ fs c => wf_sflds fs && wf_lcomp c
  end.
Lemma wf_eval w s : wf_sfld s = true -> wf_fld (eval w s) = true.
Proof. destruct s; cbn; auto. Qed.
Lemma wf_evals w fs : wf_sflds fs = true -> wf_flds (evals w fs) = true.
Proof.
  unfold wf_sflds, wf_flds, evals. rewrite !forallb_forall. intros H f Hin.
  apply in_map_iff in Hin as (s & <- & Hs). apply wf_eval. now apply H.
Qed.
Lemma wf_io_ctxs m ch : wf_items ch = true -> forallb wf_flds (io_ctxs m ch) = true.
Proof.
  unfold wf_items, io_ctxs. rewrite !forallb_forall. intros H fs Hin.
  apply in_map_iff in Hin as (it & <- & Hit). apply wf_evals. now apply H.
Qed.
Lemma wf_flds_app a b : wf_flds (a ++ b) = wf_flds a && wf_flds b.
Proof. apply forallb_app. Qed.
Lemma wf_sflds_app a b : wf_sflds (a ++ b) = wf_sflds a && wf_sflds b.
Proof. apply forallb_app. Qed.
Lemma wf_obs_ctx ch : wf_items ch = true -> wf_sflds (obs_ctx ch) = true.
Proof.
  induction ch as [|it r IH]; [reflexivity|]. cbn [wf_items forallb]. intros H. apply andb_true_iff in H as [H1 H2].
  unfold obs_ctx. cbn [map concat]. rewrite wf_sflds_app. apply andb_true_iff. split; [exact H1|now apply IH].
Qed.

(* ---------- the bytes of a line ---------- *)
Lemma ev_chain_flat c ctxs fs : ev_flds c fs (ev_with_chain c ctxs) = ev_flds c (concat ctxs ++ fs) octx0.
Proof.
  unfold ev_with_chain, ev_flds. rewrite fold_left_app. f_equal.
  generalize octx0. induction ctxs as [|x r IH]; intros o; cbn [fold_left concat]; [reflexivity|].
  rewrite fold_left_app. apply IH.
Qed.

Lemma wf_entry_mk hi nm msg : wf_entry (mk_entry hi nm msg) = true.
Proof. reflexivity. Qed.

Lemma members_eq hi nm msg ctxs fs :
  entry_members c07_cfg ctxs (mk_entry hi nm msg) fs = spec_members hi nm msg (concat ctxs ++ fs).
Proof.
  unfold entry_members, spec_members. rewrite ev_chain_flat.
  unfold meta_members, stack_members. cbn [c07_cfg k_level e_level k_time k_name k_caller k_function k_message k_stack
    mk_entry name caller_defined stack lvl_text message is_nil negb andb s_level s_msg s_logger app].
  rewrite app_nil_r. destruct nm as [|b r]; reflexivity.
Qed.

Lemma json_leaf hi nm msg ctxs fs :
  forallb wf_flds ctxs = true -> wf_flds fs = true ->
  encode_entry c07_cfg false (with_chain c07_cfg false ctxs) (mk_entry hi nm msg) fs =
    Some (json_line hi nm msg (concat ctxs ++ fs)).
Proof.
  intros Hc Hf. rewrite (entry_bytes c07_cfg false ctxs _ fs eq_refl Hc Hf (wf_entry_mk hi nm msg)).
  rewrite members_eq. reflexivity.
Qed.

Lemma lvl_txt_nonnil hi : lvl_txt hi <> [].
Proof. unfold lvl_txt. destruct (hi <? 0)%Z, (hi =? 0)%Z, (hi =? 1)%Z; discriminate. Qed.
Lemma lvl_txt_cons hi : exists b r, lvl_txt hi = b :: r.
Proof. unfold lvl_txt. destruct (hi <? 0)%Z, (hi =? 0)%Z, (hi =? 1)%Z; eexists; eexists; reflexivity. Qed.

Lemma console_leaf hi nm msg ctxs fs :
  forallb wf_flds ctxs = true -> wf_flds fs = true ->
  console_line c07_cfg (with_chain c07_cfg true ctxs) (mk_entry hi nm msg) fs =
    console_spec_line hi nm msg (concat ctxs ++ fs).
Proof.
  intros Hc Hf.
  pose proof (with_chain_R c07_cfg true ctxs Hc) as HR.
  pose proof (refine_flds c07_cfg true fs Hf [] _ 0 _ (or_introl eq_refl) HR) as (Hb & Hn & _).
  rewrite ev_chain_flat in Hb, Hn. cbn [app] in Hb.
  set (o := ev_flds c07_cfg (concat ctxs ++ fs) octx0) in *.
  assert (Hcb : buf (close_ns (enc_flds c07_cfg true fs (with_chain c07_cfg true ctxs))) = popen true (close o)).
  { unfold close_ns; cbn [buf]. rewrite Hb, Hn. cbn [plus]. unfold close. rewrite popen_close.
    unfold Refine1.pctx. now rewrite <- !app_assoc. }
  unfold console_line, console_spec_line. rewrite Hcb. fold o.
  assert (Hcols : join (console_sep c07_cfg) (console_cols c07_cfg (mk_entry hi nm msg)) =
                  lvl_txt hi ++ (if is_nil nm then [] else [TAB] ++ nm)).
  { destruct (lvl_txt_cons hi) as (b0 & r0 & E0).
    unfold console_cols. cbn [c07_cfg k_level e_level k_time k_name k_caller k_function e_time e_name e_caller
      mk_entry name caller_defined lvl_text time_zero is_nil negb andb senc_nil s_level s_logger app console_sep].
    destruct nm as [|b r]; cbn [is_nil negb andb app join]; rewrite ?app_nil_r; reflexivity. }
  rewrite Hcols. change (k_message c07_cfg) with s_msg. change (k_stack c07_cfg) with (@nil byte).
  change (stack (mk_entry hi nm msg)) with (@nil byte). change (message (mk_entry hi nm msg)) with msg.
  change (resolved_le c07_cfg) with [NL]. unfold add_csep. change (console_sep c07_cfg) with [TAB].
  cbn [s_msg is_nil negb andb].
  assert (Hne : forall x, is_nil (lvl_txt hi ++ x) = false) by (intros x; destruct (lvl_txt_cons hi) as (b0 & r0 & ->); reflexivity).
  rewrite Hne.
  destruct (close o) as [|m0 ms] eqn:Ecl.
  - cbn [popen map join is_nil]. destruct nm as [|b r]; cbn [is_nil app]; rewrite <- ?app_assoc; cbn [app]; rewrite ?app_nil_r; reflexivity.
  - assert (Hpn : is_nil (popen true (m0 :: ms)) = false).
    { destruct (popen true (m0 :: ms)) eqn:E; [apply popen_nil_iff in E; discriminate|reflexivity]. }
    rewrite Hpn. rewrite <- !app_assoc. rewrite Hne.
    rewrite (pv_obj true (m0 :: ms)).
    destruct nm as [|b r]; cbn [is_nil app]; repeat (progress (rewrite <- ?app_assoc; cbn [app])); reflexivity.
Qed.

(* Check + Write on the expected core of a chain: the specification's walk (whatever the marks are) *)
Lemma plog_pexp m hi nm msg w fs : wf_sflds fs = true ->
  forall c ch nn, wf_lcomp c = true -> wf_items ch = true ->
  plog (mk_entry (lv hi) nm msg) hi w fs (pexp m c ch) nn = swalk m hi nm msg w fs c ch nn.
Proof.
  intros Hfs.
  induction c as [co k|k|l IH|c IH|c IH|thr c IH|id lfs c IH] using lcomp_ind'; intros ch nn Hc Hch.
  - cbn [pexp]. destruct co; cbn [plog swalk].
    + rewrite console_leaf; [reflexivity|now apply wf_io_ctxs|now apply wf_evals].
    + rewrite json_leaf; [reflexivity|now apply wf_io_ctxs|now apply wf_evals].
  - cbn [pexp plog swalk]. change empty with (with_chain c07_cfg false []).
    rewrite json_leaf; [reflexivity|reflexivity|]. apply wf_evals. rewrite wf_sflds_app, wf_obs_ctx, Hfs; auto.
  - cbn [pexp]. rewrite plog_tee, swalk_tee. cbn [wf_lcomp] in Hc. revert nn.
    induction IH as [|x r Hx _ IHr]; intros nn; cbn [map plog_list swalk_list]; [reflexivity|].
    cbn [forallb] in Hc. apply andb_true_iff in Hc as [Hc1 Hc2].
    rewrite (Hx ch nn Hc1 Hch). destruct (swalk m hi nm msg w fs x ch nn) as [[c1 w1] n1].
    rewrite (IHr Hc2 n1). reflexivity.
  - cbn [pexp plog swalk wf_lcomp] in *. rewrite penabled_pexp. rewrite (IH ch nn Hc Hch). reflexivity.
  - cbn [pexp plog swalk wf_lcomp] in *. rewrite (IH ch nn Hc Hch). reflexivity.
  - cbn [pexp plog swalk wf_lcomp] in *. rewrite penabled_pexp. rewrite (IH ch nn Hc Hch). reflexivity.
  - cbn [pexp swalk wf_lcomp] in *. apply andb_true_iff in Hc as [Hl Hc]. apply IH; [exact Hc|].
    cbn [wf_items forallb]. unfold wf_item at 1. cbn [item_fs]. now rewrite Hl.
Qed.

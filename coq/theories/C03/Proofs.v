(* C03 — proofs, part 1: every generated constructor delivers exactly its value.

   The tables are concrete data regenerated from the source, so the statement
   "for every constructor of the table and every value of its parameter type"
   is proved constructor by constructor by symbolic evaluation of the model
   (construct, then AddTo) on a symbolic value of the parameter type; what is
   left after evaluation are (a) fixed-width conversion chains, closed by the
   low-bits theorem (C03/Arith.v), (b) loops over slices, closed by one lemma
   about element-wise loops, (c) the range split of Time.  A constructor whose
   packing is lossy, or whose shape the tactic does not know, makes this file
   fail to compile -- loudly. *)
From Coq Require Import List ZArith Bool Lia String.
From Coq.Strings Require Import Byte.
Import ListNotations.
From Zap Require Import Base.Wire C03.Lang C03.Arith C03.Model.
Local Open Scope Z_scope.

(* what "delivers exactly its value" means for constructor c on key k and value v.
   Ambient state: [la] is what time.Local points to while the Field is built, [lb] what it points to
   while the Field is encoded, [la'] what it points to while the same input is turned into a Field
   a second time.  All three are arbitrary and unrelated: the Field carries everything the encoder
   needs, nothing is re-derived from a process global at a later moment. *)
Definition ctor_ok (la la' lb : Z) (stack : bytes) (c : ctor) (k : bytes) (v : val) : Prop :=
  match construct T ctor_fuel la stack (c_name c) k v with
  | Some f =>
      construct T ctor_fuel la' stack (c_name c) k v = Some f /\
      match addto T (addto_fuel v) lb f with
      | Some cs =>
          expected lb stack (c_name c) (c_param c) k v = Some (norm_calls cs) /\
          fwfb f = true /\
          (payload_self (c_param c) v = true -> fself f = true)
      | None => False
      end
  | None => False
  end.

Arguments wrap : simpl never.
Arguments in_numb : simpl never.
Arguments in_rangeb : simpl never.
Arguments run_loop : simpl never.
Arguments loop1 : simpl never.
Arguments exp_elem : simpl never.
Arguments error_calls : simpl never.
Arguments exp_error_field : simpl never.
Arguments self_equal : simpl nomatch.
Arguments in_typeb t v : simpl nomatch.
Arguments payload_self t v : simpl nomatch.

(* ---------- conversions ---------- *)
Lemma wrap1_id t a z : in_numb t z = true -> same_sw t a = true -> wrap a z = z.
Proof. intros H S. apply in_numb_iff in H. exact (lowbits_sound t a [] z S eq_refl H). Qed.
Lemma wrap2_id t a b z :
  in_numb t z = true -> same_sw t a = true -> chain_ok t [b] = true -> wrap a (wrap b z) = z.
Proof. intros H S C. apply in_numb_iff in H. exact (lowbits_sound t a [b] z S C H). Qed.
Lemma in_numb_same t a z : in_numb t z = true -> same_sw t a = true -> in_numb a z = true.
Proof.
  intros H S. apply andb_true_iff in S as [Sg Sw]. apply Bool.eqb_prop in Sg. apply Z.eqb_eq in Sw.
  unfold in_numb in *. rewrite <- Sg, <- Sw. exact H.
Qed.
Lemma range64 b : in_rangeb 0 (2 ^ 64) b = in_numb NUint64 b. Proof. reflexivity. Qed.
Lemma range32 b : in_rangeb 0 (2 ^ 32) b = in_numb NUint32 b. Proof. reflexivity. Qed.

(* the range test of zap.Time: neither before time.Unix(0, MinInt64) nor after time.Unix(0, MaxInt64) *)
Lemma time_in_range i :
  (i <? -9223372036854775808) = false -> (9223372036854775807 <? i) = false -> in_numb NInt64 i = true.
Proof.
  intros A B. apply Z.ltb_ge in A. apply Z.ltb_ge in B. apply in_numb_iff.
  unfold in_num, in_sw. cbn. lia.
Qed.

(* ---------- loops over slices ---------- *)
Lemma norm_calls_app a b : norm_calls (a ++ b) = norm_calls a ++ norm_calls b.
Proof. unfold norm_calls. apply map_app. Qed.

(* ---------- errors ---------- *)
(* induction over what an error exposes: the members of a group are errors again *)
Section EInfoInd.
  Variable P : einfo -> Prop.
  Definition Pm (o : option einfo) : Prop := match o with Some x => P x | None => True end.
  Hypothesis HMsg : forall m v c, Forall Pm (match c with Some l => l | None => [] end) -> P (EMsg m v c).
  Hypothesis HNilPanic : P ENilPanic.
  Hypothesis HPanic : forall p, P (EPanic p).
  Fixpoint einfo_ind' (e : einfo) : P e :=
    match e with
    | EMsg m v c =>
        HMsg m v c
          (match c as c0 return Forall Pm (match c0 with Some l => l | None => [] end) with
           | None => Forall_nil Pm
           | Some l =>
               (fix go (l : list (option einfo)) : Forall Pm l :=
                  match l with
                  | [] => Forall_nil Pm
                  | o :: r => Forall_cons o (match o as o0 return Pm o0 with Some x => einfo_ind' x | None => I end) (go r)
                  end) l
           end)
    | ENilPanic => HNilPanic
    | EPanic p => HPanic p
    end.
End EInfoInd.

(* the loop over the members of a group: member-wise agreement gives agreement of the loops,
   the point where a failing member ends the loop included *)
Lemma members_rel f d l :
  Forall (Pm (fun x => d x = (norm_calls (fst (f x)), snd (f x)))) l ->
  exp_members d l = (norm_calls (fst (members f l)), snd (members f l)).
Proof.
  induction 1 as [|[x|] r Hx Hr IH]; [reflexivity| |exact IH].
  cbn in Hx. cbn [exp_members members]. fold (exp_members d r). fold (members f r). rewrite Hx. cbn [fst snd].
  destruct (snd (f x)); [reflexivity|]. rewrite IH. reflexivity.
Qed.

(* for EVERY error -- any message, Formatter or not, any group of any depth, nil pointers and
   panicking Error methods anywhere in it -- and every key: what encodeError does to the encoder is,
   up to method classes, the specified delivery of that error, and it fails exactly when specified *)
Lemma norm_enc_error : forall e k, exp_err k e = (norm_calls (fst (enc_error k e)), snd (enc_error k e)).
Proof.
  induction e using einfo_ind'; intros k; [|reflexivity|reflexivity].
  destruct c as [l|].
  - cbn [exp_err enc_error]. rewrite (members_rel (fun x => enc_error ($"error") x) (fun x => exp_err ($"error") x) l).
    + destruct v; reflexivity.
    + induction H as [|[x|] r Hx Hr IH]; constructor; try exact IH; [apply Hx|exact I].
  - destruct v as [t|]; [|reflexivity]. cbn. destruct (bytes_eqb t m); reflexivity.
Qed.

(* ... and the same for the whole ErrorType field (AddTo's epilogue included) *)
Lemma norm_error_calls k e : norm_calls (error_calls k e) = exp_error_field k e.
Proof.
  unfold error_calls, exp_error_field. rewrite norm_enc_error. cbn [fst snd].
  destruct (snd (enc_error k e)); [|rewrite app_nil_r; reflexivity].
  rewrite norm_calls_app. reflexivity.
Qed.
(* the form in which it appears once [norm_calls] has been unfolded by evaluation *)
Lemma norm_error_calls' k e :
  map (fun c : call => match c with (m, k, x) => (class_of m, k, norm_val x) end) (error_calls k e) = exp_error_field k e.
Proof. exact (norm_error_calls k e). Qed.

(* element-wise agreement at EVERY position gives agreement of the loops (the position matters:
   an element may be delivered by address) *)
Lemma oconcati_rel {A} (f g : Z -> A -> option (list call)) (l : list A) :
  (forall i x, In x l -> exists c, f i x = Some c /\ g i x = Some (norm_calls c)) ->
  forall i0, exists cs, oconcati f i0 l = Some cs /\ oconcati g i0 l = Some (norm_calls cs).
Proof.
  induction l as [|x l IH]; intros H i0; cbn.
  - exists []. split; reflexivity.
  - destruct (H i0 x (or_introl eq_refl)) as (c & Hf & Hg).
    destruct (IH (fun i y Hy => H i y (or_intror Hy)) (Z.succ i0)) as (cs & Ef & Eg).
    rewrite Hf, Ef, Hg, Eg. exists (c ++ cs). rewrite norm_calls_app. split; reflexivity.
Qed.

Lemma forallb_In {A} (p : A -> bool) l x : forallb p l = true -> In x l -> p x = true.
Proof. intros H I. rewrite forallb_forall in H. apply H, I. Qed.

(* slices: the payload_self premise talks about the elements, the Field's payload about the slice *)
Lemma slice_self a l (p : val -> bool) :
  implb (a =? 0) (match l with [] => true | _ => false end) = true ->
  negb (a =? 0) || forallb p l = true -> negb (a =? 0) || forallb self_equal l = true.
Proof.
  destruct (a =? 0); cbn; [|reflexivity]. destruct l; [reflexivity|discriminate].
Qed.

(* ---------- the tactic ---------- *)
Ltac wraps := repeat match goal with
  | H : in_numb ?t ?z = true |- context[in_numb ?a ?z] => rewrite (in_numb_same t a z H eq_refl)
  | H : in_numb ?t ?z = true |- context[wrap ?a (wrap ?b ?z)] => rewrite (wrap2_id t a b z H eq_refl eq_refl)
  | H : in_numb ?t ?z = true |- context[wrap ?a ?z] => rewrite (wrap1_id t a z H eq_refl)
  | |- context[in_numb ?a (wrap ?a ?z)] => rewrite in_numb_wrap
  | |- context[in_numb ?a ?z] =>
      lazymatch z with Z0 => idtac | Zpos _ => idtac | Zneg _ => idtac end;
      let b := eval vm_compute in (in_numb a z) in change (in_numb a z) with b
  end.

Ltac destr_val := repeat match goal with
  | H : in_typeb _ ?v = true |- _ => is_var v; destruct v; cbn in H; try discriminate H
  | H : _ && _ = true |- _ => apply andb_true_iff in H; destruct H
  | b : bool |- _ => destruct b
  | t : timev |- _ => destruct t
  end; rewrite ?range64, ?range32 in *.

(* the comparisons of the Time range split *)
Ltac split_cmp := repeat (match goal with
  | |- context[Z.ltb ?a ?b] => let E := fresh "E" in destruct (Z.ltb a b) eqn:E
  end; cbn);
  try match goal with
  | A : (?i <? -9223372036854775808) = false, B : (9223372036854775807 <? ?i) = false |- _ =>
      pose proof (time_in_range i A B)
  end.

(* an element-wise loop over the slice l *)
Ltac loops := try match goal with
  | Hl : forallb (in_typeb ?t) ?l = true |- context[run_loop ?loc ?A ?L ?a ?l] =>
      let cs := fresh "cs" in let E1 := fresh "E" in let E2 := fresh "E" in
      let H := fresh "H" in
      assert (H : forall i x, In x l -> exists c, loop1 loc A L a i x = Some c /\ exp_elem t a i x = Some (norm_calls c));
      [ let i := fresh "i" in let x := fresh "x" in let Hx := fresh "Hx" in
        intros i x Hx; apply (forallb_In _ _ _ Hl) in Hx;
        destruct x; cbn in Hx; try discriminate Hx;
        repeat match goal with o : opq |- _ => destruct o end;
        cbn [loop1 exp_elem]; cbn; (eexists; split; [reflexivity|]);
        cbn; rewrite ?norm_error_calls, ?norm_error_calls'; reflexivity
      | destruct (oconcati_rel (loop1 loc A L a) (exp_elem t a) l H 0) as (cs & E1 & E2);
        unfold run_loop; rewrite E1; cbn; try rewrite E2 ]
  end.

Ltac finish :=
  split; [reflexivity|];   (* the same Field under any other ambient state *)
  split; [cbn; wraps; rewrite ?norm_error_calls, ?norm_error_calls'; try reflexivity|];
  split; [reflexivity|];
  cbn; try (intros _; reflexivity); try tauto;
  try (apply slice_self; assumption).

Ltac solve_ctor :=
  let stack := fresh "stack" in let k := fresh "k" in let v := fresh "v" in let Hv := fresh "Hv" in
  let la := fresh "la" in let la' := fresh "la'" in let lb := fresh "lb" in
  intros la la' lb stack k v Hv; cbn [c_param] in Hv; destr_val;
  unfold ctor_ok; cbn [c_name c_param];
  cbn; repeat (progress wraps; cbn); split_cmp; repeat (progress wraps; cbn);
  loops; finish.

Definition is_dict (c : ctor) : bool := bytes_eqb (intent (c_name c)) ($"dict").

Definition table_ok (l : list ctor) : Prop :=
  Forall (fun c => is_dict c = false ->
                   forall la la' lb stack k v, in_typeb (c_param c) v = true -> ctor_ok la la' lb stack c k v) l.

(* ---------- every constructor of the generated table ---------- *)
Lemma all_ctors_ok : table_ok (t_ctors T).
Proof.
  unfold table_ok, T; cbn [t_ctors]; unfold Gen.Constructors.ctors.
  repeat (apply Forall_cons;
          [ first [ intros D; vm_compute in D; discriminate D | intros _; solve_ctor ] | ]).
  apply Forall_nil.
Qed.

Lemma ctor_ok_in c : In c (t_ctors T) -> is_dict c = false ->
  forall la la' lb stack k v, in_typeb (c_param c) v = true -> ctor_ok la la' lb stack c k v.
Proof. intros I. exact (proj1 (Forall_forall _ _) all_ctors_ok c I). Qed.


(* C03 — stub *)
From Zap Require Import Base.Wire C03.Model.

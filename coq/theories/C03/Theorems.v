(* C03 -- proofs, part 2: the property theorems derived from the per-constructor facts
   (C03/Proofs.v), zap.Any, Field.Equals, the defects of the original code, the wire theorem. *)
From Coq Require Import List ZArith Bool Lia String.
From Coq.Strings Require Import Byte.
Import ListNotations.
From Zap Require Import Base.Wire C03.Lang C03.Arith C03.Model C03.Proofs.
Local Open Scope Z_scope.

(* the same, in words: the Field exists, AddTo does not panic, and the calls the encoder
   receives are, up to the class of the method, exactly the specified delivery of v *)
Theorem roundtrip_thm : forall c, In c (t_ctors T) -> is_dict c = false ->
  forall la lb stack k v, in_typeb (c_param c) v = true ->
  exists f cs, construct T ctor_fuel la stack (c_name c) k v = Some f /\
               addto T (addto_fuel v) lb f = Some cs /\
               expected lb stack (c_name c) (c_param c) k v = Some (norm_calls cs).
Proof.
  intros c I D la lb stack k v Hv. pose proof (ctor_ok_in c I D la la lb stack k v Hv) as H. unfold ctor_ok in H.
  revert H. destruct (construct T ctor_fuel la stack (c_name c) k v) as [f|] eqn:Ec; [|contradiction].
  intros [_ H]. revert H.
  destruct (addto T (addto_fuel v) lb f) as [cs|] eqn:Ea; [|contradiction].
  intros H. exists f, cs. split; [reflexivity|]. split; [exact Ea|]. apply H.
Qed.

(* ==================== induction over values ==================== *)
Section ValInd.
  Variable P : val -> Prop.
  Hypothesis HI : forall z, P (VI z).
  Hypothesis HBool : forall b, P (VBool b).
  Hypothesis HF64 : forall b, P (VF64 b).
  Hypothesis HF32 : forall b, P (VF32 b).
  Hypothesis HC128 : forall r i, P (VC128 r i).
  Hypothesis HC64 : forall r i, P (VC64 r i).
  Hypothesis HStr : forall s, P (VStr s).
  Hypothesis HBytes : forall n s, P (VBytes n s).
  Hypothesis HTime : forall t, P (VTime t).
  Hypothesis HLoc : forall l, P (VLoc l).
  Hypothesis HOpq : forall o, P (VOpq o).
  Hypothesis HNil : P VNil.
  Hypothesis HPtr : forall v, P v -> P (VPtr v).
  Hypothesis HRef : forall a i v, P v -> P (VRef a i v).
  Hypothesis HSlice : forall a l, Forall P l -> P (VSlice a l).
  Hypothesis HWrap : forall w v, P v -> P (VWrap w v).
  Hypothesis HFld : forall t k i s x, P x -> P (VFld t k i s x).
  Hypothesis HCalls : forall l, Forall (fun c => P (snd c)) l -> P (VCalls l).

  Fixpoint val_ind' (v : val) : P v :=
    match v with
    | VI z => HI z | VBool b => HBool b | VF64 b => HF64 b | VF32 b => HF32 b
    | VC128 r i => HC128 r i | VC64 r i => HC64 r i | VStr s => HStr s | VBytes n s => HBytes n s
    | VTime t => HTime t | VLoc l => HLoc l | VOpq o => HOpq o | VNil => HNil
    | VPtr u => HPtr u (val_ind' u)
    | VRef a i u => HRef a i u (val_ind' u)
    | VSlice a l =>
        HSlice a l ((fix go (l : list val) : Forall P l :=
                       match l with
                       | [] => Forall_nil P
                       | x :: r => Forall_cons x (val_ind' x) (go r)
                       end) l)
    | VWrap w u => HWrap w u (val_ind' u)
    | VFld t k i s x => HFld t k i s x (val_ind' x)
    | VCalls l =>
        HCalls l ((fix go (l : list call) : Forall (fun c => P (snd c)) l :=
                     match l with
                     | [] => Forall_nil _
                     | c :: r => Forall_cons c (val_ind' (snd c)) (go r)
                     end) l)
    end.
End ValInd.

(* ==================== Field.Equals ==================== *)
Lemma bytes_eqb_refl a : bytes_eqb a a = true.
Proof. apply bytes_eqb_eq. reflexivity. Qed.
Lemma bytes_eqb_sym a b : bytes_eqb a b = bytes_eqb b a.
Proof.
  destruct (bytes_eqb a b) eqn:E.
  - apply bytes_eqb_eq in E. subst. symmetry. apply bytes_eqb_refl.
  - destruct (bytes_eqb b a) eqn:E'; [|reflexivity]. apply bytes_eqb_eq in E'. subst.
    rewrite bytes_eqb_refl in E. discriminate.
Qed.
Lemma beqb_sym a b : Bool.eqb a b = Bool.eqb b a.
Proof. destruct a, b; reflexivity. Qed.

Lemma f64_eq_sym a b : f64_eq a b = f64_eq b a.
Proof. unfold f64_eq. rewrite (Z.eqb_sym a b). destruct (f64_nan a), (f64_nan b); cbn; try reflexivity.
  destruct (b =? a); cbn; [reflexivity|]. apply andb_comm. Qed.
Lemma f32_eq_sym a b : f32_eq a b = f32_eq b a.
Proof. unfold f32_eq. rewrite (Z.eqb_sym a b). destruct (f32_nan a), (f32_nan b); cbn; try reflexivity.
  destruct (b =? a); cbn; [reflexivity|]. apply andb_comm. Qed.
Lemma f64_eq_refl a : f64_eq a a = negb (f64_nan a).
Proof. unfold f64_eq. rewrite Z.eqb_refl. destruct (f64_nan a); reflexivity. Qed.
Lemma f32_eq_refl a : f32_eq a a = negb (f32_nan a).
Proof. unfold f32_eq. rewrite Z.eqb_refl. destruct (f32_nan a); reflexivity. Qed.

Lemma opq_deep_sym a b : opq_deep a b = opq_deep b a.
Proof.
  unfold opq_deep. rewrite (Z.eqb_sym (oty a)), (Z.eqb_sym (oaddr a) (oaddr b)), (Z.eqb_sym (ocontent a)).
  destruct (oty b =? oty a); cbn; [|reflexivity].
  destruct (oaddr b =? oaddr a) eqn:E.
  - apply Z.eqb_eq in E. rewrite E. destruct (oself a), (oself b); rewrite ?andb_true_r, ?andb_false_r; reflexivity.
  - rewrite !andb_false_r. cbn. destruct (oself a), (oself b); rewrite ?andb_true_r, ?andb_false_r; reflexivity.
Qed.

Lemma deep_eq_sym : forall a other, deep_eq a other = deep_eq other a.
Proof.
  induction a using val_ind'; intros other; destruct other; cbn; try reflexivity.
  - apply Z.eqb_sym.
  - apply beqb_sym.
  - apply f64_eq_sym.
  - apply f32_eq_sym.
  - rewrite (f64_eq_sym r), (f64_eq_sym i). reflexivity.
  - rewrite (f32_eq_sym r), (f32_eq_sym i). reflexivity.
  - apply bytes_eqb_sym.
  - rewrite beqb_sym, bytes_eqb_sym. reflexivity.
  - rewrite (Z.eqb_sym (tinst t)), (Z.eqb_sym (tloc t)). reflexivity.
  - apply Z.eqb_sym.
  - apply opq_deep_sym.
  - apply IHa.
  - (* slices *)
    rewrite (beqb_sym (a =? 0)). destruct (Bool.eqb (addr =? 0) (a =? 0)) eqn:E0; cbn; [|reflexivity].
    rewrite (Z.eqb_sym a addr).
    assert (Hn : negb (a =? 0) = negb (addr =? 0)).
    { apply Bool.eqb_prop in E0. rewrite E0. reflexivity. }
    rewrite Hn. f_equal.
    revert l0. induction H as [|x l Hx Hl IH]; intros [|y l0]; try reflexivity.
    rewrite Hx. f_equal. apply IH.
  - rewrite bytes_eqb_sym, IHa. reflexivity.
  - rewrite (Z.eqb_sym t), (bytes_eqb_sym k), (Z.eqb_sym i), (bytes_eqb_sym s), IHa. reflexivity.
Qed.

Lemma deep_eq_refl : forall a, self_equal a = true -> deep_eq a a = true.
Proof.
  induction a using val_ind'; cbn; intros Hs; try reflexivity; try discriminate.
  - apply Z.eqb_refl.
  - destruct b; reflexivity.
  - rewrite f64_eq_refl. exact Hs.
  - rewrite f32_eq_refl. exact Hs.
  - rewrite !f64_eq_refl. exact Hs.
  - rewrite !f32_eq_refl. exact Hs.
  - apply bytes_eqb_refl.
  - rewrite bytes_eqb_refl. destruct n; reflexivity.
  - rewrite !Z.eqb_refl. reflexivity.
  - apply Z.eqb_refl.
  - unfold opq_deep. rewrite !Z.eqb_refl. cbn. rewrite andb_true_r.
    destruct (oself o); cbn in *; [apply orb_true_r|]. rewrite Hs. reflexivity.
  - apply IHa, Hs.
  - rewrite Z.eqb_refl. replace (Bool.eqb (a =? 0) (a =? 0)) with true by (destruct (a =? 0); reflexivity).
    cbn. destruct (a =? 0); cbn in *; [|reflexivity].
    induction H as [|x l Hx Hl IH]; [reflexivity|]. cbn in Hs. apply andb_true_iff in Hs as [H1 H2].
    rewrite Hx by exact H1. cbn. apply IH, H2.
  - rewrite bytes_eqb_refl. apply IHa, Hs.
  - rewrite !Z.eqb_refl, !bytes_eqb_refl. cbn. apply IHa, Hs.
Qed.

(* the Equals class and the type name only depend on the type *)
Lemma eq_class_ty f g : f_ty f = f_ty g -> eq_class T f = eq_class T g.
Proof. unfold eq_class. intros ->. reflexivity. Qed.

Lemma ifc_eq_some a b :
  (match a with VNil | VLoc _ | VTime _ => true | _ => false end) = true ->
  (match b with VNil | VLoc _ | VTime _ => true | _ => false end) = true ->
  exists r, ifc_eq a b = Some r /\ ifc_eq b a = Some r.
Proof.
  destruct a; try discriminate; destruct b; try discriminate; intros _ _; cbn; eexists; split; try reflexivity.
  - rewrite (Z.eqb_sym (tinst t0)), (Z.eqb_sym (tloc t0)). reflexivity.
  - rewrite Z.eqb_sym. reflexivity.
Qed.

(* Equals on two fields that are as the constructors build them: never panics, symmetric *)
Lemma equals_total_sym f g : fwfb f = true -> fwfb g = true ->
  exists r, equals T f g = Some r /\ equals T g f = Some r.
Proof.
  intros Wf Wg. unfold equals. rewrite (Z.eqb_sym (f_ty g)), (bytes_eqb_sym (f_key g)).
  destruct (f_ty f =? f_ty g) eqn:Et; cbn; [|exists false; split; reflexivity].
  destruct (bytes_eqb (f_key f) (f_key g)); cbn; [|exists false; split; reflexivity].
  apply Z.eqb_eq in Et. pose proof (eq_class_ty f g Et) as Ec.
  unfold fwfb in Wf, Wg. rewrite <- Ec in *. rewrite <- Et in Wg.
  destruct (eq_class T f).
  - destruct (f_ifc f); try discriminate. destruct (f_ifc g); try discriminate.
    rewrite bytes_eqb_sym. eexists; split; reflexivity.
  - rewrite deep_eq_sym. eexists; split; reflexivity.
  - destruct (rassoc (f_ty f) (t_ftypes T)) as [ft|]; [|discriminate].
    destruct (f_ifc f), (f_ifc g); try discriminate; cbn.
    + rewrite (Z.eqb_sym re0), (Z.eqb_sym im0). eexists; split; reflexivity.
    + apply bytes_eqb_eq in Wf. apply bytes_eqb_eq in Wg. subst ft. discriminate Wg.
    + apply bytes_eqb_eq in Wf. apply bytes_eqb_eq in Wg. subst ft. discriminate Wg.
    + rewrite (Z.eqb_sym re0), (Z.eqb_sym im0). eexists; split; reflexivity.
  - rewrite (Z.eqb_sym (f_int g)), (bytes_eqb_sym (f_str g)).
    destruct (f_int f =? f_int g); cbn; [|exists false; split; reflexivity].
    destruct (bytes_eqb (f_str f) (f_str g)); cbn; [|exists false; split; reflexivity].
    apply ifc_eq_some; assumption.
Qed.

Lemma equals_refl f : fwfb f = true -> fself f = true -> equals T f f = Some true.
Proof.
  intros W S. unfold equals. rewrite Z.eqb_refl, bytes_eqb_refl. cbn.
  unfold fwfb in W. unfold fself in S. destruct (eq_class T f).
  - destruct (f_ifc f); try discriminate. rewrite bytes_eqb_refl. reflexivity.
  - rewrite deep_eq_refl by exact S. reflexivity.
  - destruct (rassoc (f_ty f) (t_ftypes T)); [|discriminate].
    destruct (f_ifc f); try discriminate; cbn; rewrite !Z.eqb_refl; reflexivity.
  - rewrite Z.eqb_refl, bytes_eqb_refl. cbn.
    destruct (f_ifc f); try discriminate; cbn; rewrite ?Z.eqb_refl; reflexivity.
Qed.

(* ==================== Dict ==================== *)
Definition dict_field (k : bytes) (v : val) : field :=
  {| f_ty := 2; f_key := k; f_int := 0; f_str := []; f_ifc := VWrap ($"dictObject") v |}.

Lemma dict_construct nm : nm = $"Dict" \/ nm = $"dictField" ->
  forall la stack k v, construct T ctor_fuel la stack nm k v = Some (dict_field k v).
Proof. intros [-> | ->] la stack k v; reflexivity. Qed.

(* the object a Dict field adds holds, in order, what each member adds; it panics exactly when
   a member does *)
Lemma dict_addto lb k a l :
  option_map norm_calls (addto T (addto_fuel (VSlice a l)) lb (dict_field k (VSlice a l))) = exp_dict lb k (VSlice a l).
Proof.
  unfold addto_fuel, exp_dict. remember (S (val_depth (VSlice a l))) as n eqn:En. clear En.
  assert (E : addto T (S n) lb (dict_field k (VSlice a l)) =
              option_map (fun d => [(($"AddObject"), k, d)])
                (option_map VCalls (oconcati (fun _ x => match field_of_val x with Some f => addto T n lb f | None => None end) 0 l))).
  { reflexivity. }
  rewrite E. destruct (oconcati _ 0 l); reflexivity.
Qed.

Lemma dict_names : forall c, In c (t_ctors T) -> is_dict c = true ->
  (c_name c = $"Dict" \/ c_name c = $"dictField") /\ c_param c = TSlice TField.
Proof.
  assert (H : forallb (fun c => implb (is_dict c)
                 ((bytes_eqb (c_name c) ($"Dict") || bytes_eqb (c_name c) ($"dictField")) &&
                  gty_eqb (c_param c) (TSlice TField))) (t_ctors T) = true) by (vm_compute; reflexivity).
  intros c I D. rewrite forallb_forall in H. specialize (H c I). rewrite D in H. cbn in H.
  apply andb_true_iff in H as [Hn Hp]. split.
  - apply orb_true_iff in Hn as [Hn|Hn]; apply bytes_eqb_eq in Hn; [left|right]; exact Hn.
  - destruct (c_param c); try discriminate. destruct g; try discriminate. reflexivity.
Qed.

(* ==================== ambient state ==================== *)
(* A constructor reads nothing from the process: the Field it returns is the same whatever
   time.Local points to while it runs (in particular it never records "the value is in the local
   zone" in place of the zone itself) *)
Theorem construct_amb : forall c, In c (t_ctors T) ->
  forall la la' stack k v, in_typeb (c_param c) v = true ->
  construct T ctor_fuel la stack (c_name c) k v = construct T ctor_fuel la' stack (c_name c) k v.
Proof.
  intros c I la la' stack k v Hv. destruct (is_dict c) eqn:D.
  - destruct (dict_names c I D) as (Hn & _). rewrite !(dict_construct _ Hn). reflexivity.
  - pose proof (ctor_ok_in c I D la la' 0 stack k v Hv) as H. unfold ctor_ok in H.
    destruct (construct T ctor_fuel la stack (c_name c) k v) as [f|]; [|contradiction].
    destruct H as [H _]. symmetry. exact H.
Qed.

(* ... and the specification of every constructor but Dict does not look at the ambient state *)
Lemma expected_amb_free c : is_dict c = false ->
  forall lb lb' stack k v, expected lb stack (c_name c) (c_param c) k v = expected lb' stack (c_name c) (c_param c) k v.
Proof. unfold is_dict, expected. intros D lb lb' stack k v. lazy zeta. rewrite D. reflexivity. Qed.

(* ==================== ObjectValues: the caller's own elements, by address ==================== *)
(* what an array encoder is handed for the slice (identity a, elements l) from position i on: for
   each element, in order, the address of THAT element of THAT slice *)
Fixpoint refs_from (m : name) (a i : Z) (l : list val) : list call :=
  match l with
  | [] => []
  | x :: r => (m, [], VRef a i x) :: refs_from m a (Z.succ i) r
  end.

Lemma refs_loop loc A m a : forall l i,
  oconcati (loop1 loc A (LAppendErr m EElemAddr) a) i l = Some (refs_from m a i l).
Proof.
  induction l as [|x l IH]; intros i; [reflexivity|].
  cbn [oconcati refs_from]. rewrite IH. reflexivity.
Qed.

(* for EVERY slice -- any identity, any length, any elements, aliasing windows included -- the Field
   is built, AddTo does not panic, and the array encoder receives, in order, one AppendObject per
   element whose argument is the address of that very element of the caller's slice *)
Theorem object_values_thm : forall la lb stack k a l,
  exists f, construct T ctor_fuel la stack ($"ObjectValues") k (VSlice a l) = Some f /\
            addto T (addto_fuel (VSlice a l)) lb f = Some [(($"AddArray"), k, VCalls (refs_from ($"AppendObject") a 0 l))].
Proof.
  intros la lb stack k a l. eexists. split; [reflexivity|].
  unfold addto_fuel. remember (S (val_depth (VSlice a l))) as n eqn:En. clear En.
  cbn. unfold run_loop. rewrite refs_loop. reflexivity.
Qed.

(* a pointer to a copy is never the address of the element, whatever the copy holds *)
Lemma copy_is_not_element a i x y : VPtr y <> VRef a i x.
Proof. discriminate. Qed.

(* ==================== Errors: every element exactly as zap.Error delivers it ==================== *)
(* zap.Errors / zap.Any([]error) "choose the same representation as the corresponding typed
   constructor": element i of the slice reaches the array encoder as an object holding EXACTLY the
   calls zap.Error(errs[i]) makes -- for every error value, whatever it exposes beyond Error() (a
   %+v form, members, a nil pointer, a panicking Error method).  An element that reached the
   encoder through anything that only forwards Error() would lose all of that. *)
(* what the encoder receives when the single error x is logged with zap.Error(x) *)
Definition as_error (la lb : Z) (x : val) : option (list call) :=
  option_map snd (deliver la lb [] ($"Error") [] x).
(* the array elements zap.Errors owes for the slice l: nothing for a nil error, else one object
   holding exactly the calls zap.Error makes for that very element *)
Fixpoint error_elems (la lb : Z) (l : list val) : option (list call) :=
  match l with
  | [] => Some []
  | x :: r =>
      match as_error la lb x, error_elems la lb r with
      | Some [], Some cs => Some cs
      | Some c, Some cs => Some ((($"AppendObject"), [], VCalls c) :: cs)
      | _, _ => None
      end
  end.

Lemma error_calls_nonempty k e : error_calls k e <> [].
Proof.
  unfold error_calls. destruct e as [m v [l|]| |p]; cbn; try discriminate.
  destruct v as [t|]; [destruct (bytes_eqb t m)|]; discriminate.
Qed.

Lemma as_error_opq la lb o : as_error la lb (VOpq o) = Some (error_calls ($"error") (oerr o)).
Proof. reflexivity. Qed.
Lemma as_error_nil la lb : as_error la lb VNil = Some [].
Proof. reflexivity. Qed.

Theorem errors_thm : forall la lb stack k a l, forallb (in_typeb (TIface IError)) l = true ->
  exists f cs, construct T ctor_fuel la stack ($"Errors") k (VSlice a l) = Some f /\
               error_elems la lb l = Some cs /\
               addto T (addto_fuel (VSlice a l)) lb f = Some [(($"AddArray"), k, VCalls cs)].
Proof.
  intros la lb stack k a l Hl. eexists. 
  assert (E : exists cs, error_elems la lb l = Some cs /\
              forall A i, oconcati (loop1 lb A (LErrs ($"error")) a) i l = Some cs).
  { induction l as [|x r IH]; [exists []; split; reflexivity|].
    cbn in Hl. apply andb_true_iff in Hl as [Hx Hr]. destruct (IH Hr) as (cs & E1 & E2).
    destruct x; try discriminate Hx.
    - exists ((($"AppendObject"), [], VCalls (error_calls ($"error") (oerr o))) :: cs). split.
      + cbn [error_elems]. rewrite as_error_opq, E1.
        pose proof (error_calls_nonempty ($"error") (oerr o)) as N.
        destruct (error_calls ($"error") (oerr o)); [elim N; reflexivity|reflexivity].
      + intros A i. cbn [oconcati]. rewrite E2. reflexivity.
    - exists cs. split.
      + cbn [error_elems]. rewrite as_error_nil, E1. reflexivity.
      + intros A i. cbn [oconcati]. rewrite E2. reflexivity. }
  destruct E as (cs & E1 & E2). exists cs. split; [reflexivity|]. split; [exact E1|].
  unfold addto_fuel. remember (S (val_depth (VSlice a l))) as n eqn:En. clear En.
  cbn. unfold run_loop. rewrite E2. reflexivity.
Qed.

(* ==================== Equals on the Fields the constructors build ==================== *)
(* [la]: what time.Local pointed to while the Field was built *)
Definition built (la : Z) (stack : bytes) (c : ctor) (k : bytes) (v : val) (f : field) : Prop :=
  In c (t_ctors T) /\ in_typeb (c_param c) v = true /\ construct T ctor_fuel la stack (c_name c) k v = Some f.

Lemma built_facts la stack c k v f : built la stack c k v f ->
  fwfb f = true /\ (payload_self (c_param c) v = true -> fself f = true).
Proof.
  intros (I & Hv & Hc). destruct (is_dict c) eqn:D.
  - destruct (dict_names c I D) as (Hn & Hp). rewrite (dict_construct _ Hn) in Hc. injection Hc as <-.
    split; [reflexivity|]. rewrite Hp in *. destruct v; try discriminate Hv. cbn in Hv.
    apply andb_true_iff in Hv as [H1 _]. intros Hs. cbn in Hs. cbn. apply (slice_self _ _ _ H1 Hs).
  - pose proof (ctor_ok_in c I D la la 0 stack k v Hv) as H. unfold ctor_ok in H. rewrite Hc in H.
    destruct H as [_ H]. destruct (addto T (addto_fuel v) 0 f); [|contradiction]. tauto.
Qed.

Theorem equals_total_thm la1 la2 stack c1 k1 v1 f c2 k2 v2 g :
  built la1 stack c1 k1 v1 f -> built la2 stack c2 k2 v2 g -> equals T f g <> None.
Proof.
  intros B1 B2. destruct (built_facts _ _ _ _ _ _ B1) as [W1 _]. destruct (built_facts _ _ _ _ _ _ B2) as [W2 _].
  destruct (equals_total_sym f g W1 W2) as (r & E & _). rewrite E. discriminate.
Qed.

Theorem equals_sym_thm la1 la2 stack c1 k1 v1 f c2 k2 v2 g :
  built la1 stack c1 k1 v1 f -> built la2 stack c2 k2 v2 g -> equals T f g = equals T g f.
Proof.
  intros B1 B2. destruct (built_facts _ _ _ _ _ _ B1) as [W1 _]. destruct (built_facts _ _ _ _ _ _ B2) as [W2 _].
  destruct (equals_total_sym f g W1 W2) as (r & E1 & E2). rewrite E1, E2. reflexivity.
Qed.

Theorem equals_refl_thm la stack c k v f :
  built la stack c k v f -> payload_self (c_param c) v = true -> equals T f f = Some true.
Proof.
  intros B S. destruct (built_facts _ _ _ _ _ _ B) as [W Hs]. apply equals_refl; [exact W|exact (Hs S)].
Qed.

(* constructors are functions of (key, value) ALONE -- not of the ambient state: Fields built from
   the same input compare equal, also when time.Local was re-pointed between the two calls *)
Theorem equal_inputs_thm la la' stack c k v f g :
  built la stack c k v f -> built la' stack c k v g ->
  f = g /\ (payload_self (c_param c) v = true -> equals T f g = Some true).
Proof.
  intros B1 B2. assert (E : f = g).
  { destruct B1 as (I & Hv & E1). destruct B2 as (_ & _ & E2).
    rewrite (construct_amb c I la la' stack k v Hv) in E1. rewrite E1 in E2. injection E2 as ->. reflexivity. }
  split; [exact E|]. subst g. apply (equals_refl_thm _ _ _ _ _ _ B1).
Qed.

(* Binary/ByteString: equal contents compare equal whether the slice is nil or empty *)
Lemma equals_bytes_content f g : f_ty f = f_ty g -> f_key f = f_key g -> eq_class T f = QBytes ->
  forall n m s, f_ifc f = VBytes n s -> f_ifc g = VBytes m s -> equals T f g = Some true.
Proof.
  intros Et Ek Ec n m s Ef Eg. unfold equals. rewrite Et, Ek, Z.eqb_refl, bytes_eqb_refl. cbn.
  rewrite Ec, Ef, Eg, bytes_eqb_refl. reflexivity.
Qed.

(* ==================== the original Equals (before the two fix: commits) ==================== *)
Definition eq_classes_orig : list (name * eqclass) := [
  (($"BinaryType"), QBytes); (($"ByteStringType"), QBytes);
  (($"ArrayMarshalerType"), QDeep); (($"ObjectMarshalerType"), QDeep);
  (($"ErrorType"), QDeep); (($"ReflectType"), QDeep) ].
Definition T_orig : tables :=
  {| t_ctors := t_ctors T; t_ftypes := t_ftypes T; t_arms := t_arms T; t_wrappers := t_wrappers T;
     t_eq := eq_classes_orig; t_any := t_any T; t_implements := t_implements T |}.

(* the full statement, about the original table *)
Definition equals_total_orig : Prop :=
  forall c k v f, In c (t_ctors T_orig) -> in_typeb (c_param c) v = true ->
    construct T_orig ctor_fuel loc_local [] (c_name c) k v = Some f -> equals T_orig f f <> None.
Definition equals_refl_orig : Prop :=
  forall c k v f, In c (t_ctors T_orig) -> in_typeb (c_param c) v = true ->
    payload_self (c_param c) v = true ->
    construct T_orig ctor_fuel loc_local [] (c_name c) k v = Some f -> equals T_orig f f = Some true.

(* a Stringer whose dynamic type is a slice: not comparable *)
Definition slice_stringer : val :=
  VOpq {| oty := 10; oaddr := 1; ocontent := 0; ocmp := false; oself := true; ostr := [x73]; oerr := eplain [] |}.
Definition nan64 : Z := 0x7FF8000000000000.

Definition ctor_named (n : name) : ctor :=
  match find_ctor n (t_ctors T) with Some c => c | None => {| c_name := []; c_param := TNone; c_body := BDeleg [] KNone None |} end.

Lemma ctor_named_in n c : find_ctor n (t_ctors T) = Some c -> In c (t_ctors T).
Proof.
  induction (t_ctors T) as [|x l IH]; cbn; [discriminate|].
  destruct (bytes_eqb n (c_name x)); [intros [= ->]; left; reflexivity|intros H; right; apply IH, H].
Qed.

Lemma equals_total_orig_refuted : ~ equals_total_orig.
Proof.
  intros H.
  apply (H (ctor_named ($"Stringer")) [x6b] slice_stringer
           {| f_ty := 25; f_key := [x6b]; f_int := 0; f_str := []; f_ifc := slice_stringer |}).
  - apply (ctor_named_in ($"Stringer")). reflexivity.
  - reflexivity.
  - vm_compute. reflexivity.
  - vm_compute. reflexivity.
Qed.

Lemma equals_total_orig_refuted_inline : ~ equals_total_orig.
Proof.
  intros H.
  apply (H (ctor_named ($"Inline")) [] slice_stringer
           {| f_ty := 28; f_key := []; f_int := 0; f_str := []; f_ifc := slice_stringer |}).
  - apply (ctor_named_in ($"Inline")). reflexivity.
  - reflexivity.
  - vm_compute. reflexivity.
  - vm_compute. reflexivity.
Qed.

Lemma equals_refl_orig_refuted : ~ equals_refl_orig.
Proof.
  intros H.
  assert (E := H (ctor_named ($"Complex128")) [x6b] (VC128 nan64 0)
           {| f_ty := 6; f_key := [x6b]; f_int := 0; f_str := []; f_ifc := VC128 nan64 0 |}
           (ctor_named_in ($"Complex128") _ eq_refl) eq_refl eq_refl eq_refl).
  vm_compute in E. discriminate E.
Qed.

(* ==================== Time ==================== *)
Definition min_nano : Z := -9223372036854775808.
Definition max_nano : Z := 9223372036854775807.

Theorem time_thm la lb stack k t :
  match construct T ctor_fuel la stack ($"Time") k (VTime t) with
  | Some f =>
      (* the encoder receives the same instant in the same location, whatever time.Local points to
         when the Field is built ([la]) and when it is encoded ([lb]) *)
      addto T 2 lb f = Some [(($"AddTime"), k, VTime t)] /\
      (* representable as int64 nanoseconds (boundaries included): UnixNano + Location *)
      (min_nano <= tinst t <= max_nano ->
         f = {| f_ty := 16; f_key := k; f_int := tinst t; f_str := []; f_ifc := VLoc (tloc t) |}) /\
      (* otherwise the time.Time itself, unchanged *)
      (~ (min_nano <= tinst t <= max_nano) ->
         f = {| f_ty := 17; f_key := k; f_int := 0; f_str := []; f_ifc := VTime t |})
  | None => False
  end.
Proof.
  destruct t as [i l]. unfold min_nano, max_nano. cbn.
  destruct (i <? -9223372036854775808) eqn:A; cbn.
  - apply Z.ltb_lt in A. split; [reflexivity|]. split; [intros; lia|reflexivity].
  - destruct (9223372036854775807 <? i) eqn:B; cbn.
    + apply Z.ltb_lt in B. split; [reflexivity|]. split; [intros; lia|reflexivity].
    + pose proof (time_in_range i A B) as R. rewrite in_numb_wrap. cbn.
      rewrite (wrap1_id NInt64 NInt64 i R eq_refl).
      apply Z.ltb_ge in A. apply Z.ltb_ge in B.
      split; [reflexivity|]. split; [reflexivity|intros N; elim N; lia].
Qed.

(* ==================== zap.Any ==================== *)
(* the type switch only asks, of the dynamic type, which of the listed interfaces it implements *)
Fixpoint any_lookup_b (tbl : list (gty * name)) (ty : gty) (p : iface -> bool) : name :=
  match tbl with
  | [] => $"Reflect"
  | (TIface i, c) :: r => if p i then c else any_lookup_b r ty p
  | (t, c) :: r => if gty_eqb t ty then c else any_lookup_b r ty p
  end.
Definition spec_any_b (t : gty) (p : iface -> bool) : name :=
  match natural t with
  | Some c => c
  | None => if p IObjM then $"Object" else if p IArrM then $"Array"
            else if p IError then $"NamedError" else if p IStringer then $"Stringer" else $"Reflect"
  end.

Lemma any_lookup_has tbl ty impls : any_lookup tbl ty impls = any_lookup_b tbl ty (has impls).
Proof.
  induction tbl as [|[t c] r IH]; [reflexivity|]. cbn. destruct t; rewrite IH; reflexivity.
Qed.
Lemma spec_any_has ty impls : spec_any ty impls = spec_any_b ty (has impls).
Proof. reflexivity. Qed.

(* the interfaces a case claims for the dynamic type agree with the table (listed types only) *)
Definition consistent (ty : gty) (p : iface -> bool) : Prop :=
  listedb ty = true -> forall i, In i four -> p i = table_impl ty i.

Lemma num_eqb_eq a b : num_eqb a b = true -> a = b.
Proof. destruct a, b; cbn; intros H; try discriminate H; reflexivity. Qed.
Lemma iface_eqb_eq a b : iface_eqb a b = true -> a = b.
Proof. destruct a, b; cbn; intros H; try discriminate H; reflexivity. Qed.
Lemma gty_eqb_eq : forall a b, gty_eqb a b = true -> a = b.
Proof.
  induction a; intros b; destruct b; cbn; intros H; try discriminate H; try reflexivity.
  - apply num_eqb_eq in H. subst. reflexivity.
  - apply iface_eqb_eq in H. subst. reflexivity.
  - apply IHa in H. subst. reflexivity.
  - apply IHa in H. subst. reflexivity.
  - apply iface_eqb_eq in H. subst. reflexivity.
  - apply Z.eqb_eq in H. subst. reflexivity.
Qed.

(* the lookup only depends on p through the interfaces the table lists, all among the four *)
Lemma any_lookup_b_ext tbl ty p q :
  forallb (fun e => match fst e with TIface i => existsb (iface_eqb i) four | _ => true end) tbl = true ->
  (forall i, In i four -> p i = q i) -> any_lookup_b tbl ty p = any_lookup_b tbl ty q.
Proof.
  induction tbl as [|[t c] r IH]; intros F H; [reflexivity|]. cbn in F. apply andb_true_iff in F as [F1 F2].
  cbn. destruct t; try (rewrite (IH F2 H); reflexivity).
  assert (In i four) as I.
  { destruct i; cbn in F1; try discriminate F1; cbn; tauto. }
  rewrite (H i I), (IH F2 H). reflexivity.
Qed.
Lemma spec_any_b_ext ty p q : (forall i, In i four -> p i = q i) -> spec_any_b ty p = spec_any_b ty q.
Proof.
  intros H. unfold spec_any_b. destruct (natural ty); [reflexivity|].
  rewrite (H IObjM), (H IArrM), (H IError), (H IStringer) by (cbn; tauto). reflexivity.
Qed.

(* a type no concrete clause lists falls through to the interface clauses, in their order *)
Lemma any_lookup_b_unlisted tbl ty p :
  existsb (fun e => negb (is_iface (fst e)) && gty_eqb (fst e) ty) tbl = false ->
  any_lookup_b tbl ty p = any_lookup_b (filter (fun e => is_iface (fst e)) tbl) ty p.
Proof.
  induction tbl as [|[t c] r IH]; intros H; [reflexivity|]. cbn in H. apply orb_false_iff in H as [H1 H2].
  cbn [filter fst]. destruct (is_iface t) eqn:It.
  - destruct t; try discriminate It. cbn. rewrite (IH H2). reflexivity.
  - cbn in H1. assert (G : gty_eqb t ty = false) by (destruct (gty_eqb t ty); [discriminate H1|reflexivity]).
    destruct t; try discriminate It; cbn; cbn in G; rewrite ?G; apply IH, H2.
Qed.

(* table facts, by computation on the regenerated table *)
Lemma any_ifaces_four :
  forallb (fun e => match fst e with TIface i => existsb (iface_eqb i) four | _ => true end) (t_any T) = true.
Proof. vm_compute. reflexivity. Qed.
(* the interface clauses, in source order: marshalers, then error, then Stringer *)
Lemma any_iface_order :
  filter (fun e => is_iface (fst e)) (t_any T) =
  [(TIface IObjM, $"Object"); (TIface IArrM, $"Array"); (TIface IError, $"NamedError"); (TIface IStringer, $"Stringer")].
Proof. vm_compute. reflexivity. Qed.
(* every listed concrete type reaches its own typed constructor: no earlier interface clause
   shadows it (time.Time, time.Duration and their pointers are Stringers) and no earlier
   concrete clause is the same type *)
Lemma any_listed_ok :
  forallb (fun e => is_iface (fst e) ||
                    bytes_eqb (any_lookup_b (t_any T) (fst e) (table_impl (fst e)))
                              (spec_any_b (fst e) (table_impl (fst e)))) (t_any T) = true.
Proof. vm_compute. reflexivity. Qed.
Lemma any_listed_natural :
  forallb (fun e => is_iface (fst e) || match natural (fst e) with Some c => bytes_eqb c (snd e) | None => false end)
          (t_any T) = true.
Proof. vm_compute. reflexivity. Qed.

(* Any lists every type that has a typed constructor *)
Lemma natural_listed ty c : natural ty = Some c -> listedb ty = true.
Proof.
  destruct ty; cbn; try discriminate; try (intros _; vm_compute; reflexivity).
  - destruct n; intros _; vm_compute; reflexivity.
  - destruct ty; cbn; try discriminate; try (intros _; vm_compute; reflexivity).
    destruct n; intros _; vm_compute; reflexivity.
  - destruct ty; cbn; try discriminate; try (intros _; vm_compute; reflexivity).
    + destruct n; try discriminate; intros _; vm_compute; reflexivity.
    + destruct i; try discriminate; intros _; vm_compute; reflexivity.
Qed.

Theorem any_thm ty p : consistent ty p -> any_lookup_b (t_any T) ty p = spec_any_b ty p.
Proof.
  intros C. destruct (listedb ty) eqn:L.
  - specialize (C L).
    rewrite (any_lookup_b_ext _ ty p (table_impl ty) any_ifaces_four C), (spec_any_b_ext ty p (table_impl ty) C).
    unfold listedb in L. apply existsb_exists in L as (e & Ie & He). apply andb_true_iff in He as [Hn He].
    apply gty_eqb_eq in He. subst ty.
    pose proof any_listed_ok as F. rewrite forallb_forall in F. specialize (F e Ie).
    destruct (is_iface (fst e)); [discriminate Hn|]. cbn in F. apply bytes_eqb_eq in F. exact F.
  - rewrite (any_lookup_b_unlisted _ ty p L), any_iface_order.
    unfold spec_any_b. destruct (natural ty) eqn:N.
    + rewrite (natural_listed ty n N) in L. discriminate L.
    + cbn. destruct (p IObjM), (p IArrM), (p IError), (p IStringer); reflexivity.
Qed.

(* in terms of the case data: the dynamic type and the list of interfaces it implements *)
Theorem any_thm_list ty impls : consistent ty (has impls) ->
  any_lookup (t_any T) ty impls = spec_any ty impls.
Proof. intros C. rewrite any_lookup_has, spec_any_has. apply any_thm, C. Qed.

(* the order of the switch respects interface shadowing: no concrete clause comes after a clause
   for an interface its type implements *)
Fixpoint no_shadow (tbl : list (gty * name)) (seen : list iface) : bool :=
  match tbl with
  | [] => true
  | (TIface i, _) :: r => no_shadow r (i :: seen)
  | (t, _) :: r => negb (existsb (fun i => table_impl t i) seen) && no_shadow r seen
  end.
Lemma any_no_shadow : no_shadow (t_any T) [] = true.
Proof. vm_compute. reflexivity. Qed.

(* ==================== wire ==================== *)
Lemma sx_eqb_refl s : sx_eqb s s = true.
Proof.
  revert s. fix IH 1. intros [z|b|l]; cbn.
  - apply Z.eqb_refl.
  - apply bytes_eqb_refl.
  - induction l as [|a r IHr]; [reflexivity|]. rewrite IH, IHr. reflexivity.
Qed.

Lemma sx_eqb_eq : forall a b, sx_eqb a b = true -> a = b.
Proof.
  fix IH 1. intros [z|x|l] [z'|x'|l']; cbn; try discriminate.
  - intros H. apply Z.eqb_eq in H. subst. reflexivity.
  - intros H. apply bytes_eqb_eq in H. subst. reflexivity.
  - intros H. f_equal. revert l' H. induction l as [|a l IHl]; intros [|b l'] H; try discriminate H; [reflexivity|].
    apply andb_true_iff in H as [H1 H2]. f_equal; [apply IH, H1 | apply IHl, H2].
Qed.

Lemma of_bool_dec b : negb (sx_z (of_bool b) =? 0) = b.
Proof. destruct b; reflexivity. Qed.

(* decoding is a left inverse of encoding *)
Lemma einfo_codec : forall e, einfo_of_sx (sx_of_einfo e) = e.
Proof.
  induction e using einfo_ind'; [|reflexivity|reflexivity].
  assert (M : forall l, Forall (Pm (fun e => einfo_of_sx (sx_of_einfo e) = e)) l ->
            map (fun x => match x with SZ _ => None | _ => Some (einfo_of_sx x) end)
                (map (fun o => match o with None => SZ 0 | Some x => sx_of_einfo x end) l) = l).
  { induction 1 as [|[x|] r Hx Hr IH]; [reflexivity| |]; cbn [map]; rewrite IH; [|reflexivity].
    cbn in Hx. destruct (sx_of_einfo x) eqn:E; [|rewrite Hx; reflexivity|rewrite Hx; reflexivity].
    (* an encoded error is never a bare integer *)
    destruct x as [m0 [t0|] [l0|]| |p0]; discriminate E. }
  destruct v as [t|], c as [l|]; cbn in *; rewrite ?M by assumption; reflexivity.
Qed.

Lemma codec : forall v, val_of_sx (sx_of_val v) = v.
Proof.
  induction v using val_ind'; cbn; try reflexivity.
  - destruct b; reflexivity.
  - destruct n; reflexivity.
  - destruct t; reflexivity.
  - destruct o as [a b c d e f g]. cbn. rewrite einfo_codec. destruct d, e; reflexivity.
  - rewrite IHv. reflexivity.
  - rewrite IHv. reflexivity.
  - f_equal. rewrite map_map. induction H as [|x l Hx Hl IH]; [reflexivity|]. cbn. rewrite Hx, IH. reflexivity.
  - rewrite IHv. reflexivity.
  - rewrite IHv. reflexivity.
  - f_equal. rewrite map_map. induction H as [|[[m k] x] l Hx Hl IH]; [reflexivity|]. cbn in *. rewrite Hx, IH. reflexivity.
Qed.

Lemma calls_ok_refl cs : calls_ok (sx_of_calls cs) (Some (norm_calls cs)) = true.
Proof. unfold calls_ok, sx_of_calls. rewrite codec. apply sx_eqb_refl. Qed.

Lemma find_ctor_some n l c : find_ctor n l = Some c -> In c l /\ c_name c = n.
Proof.
  induction l as [|x l IH]; cbn; [discriminate|].
  destruct (bytes_eqb n (c_name x)) eqn:E.
  - intros [= ->]. apply bytes_eqb_eq in E. split; [left; reflexivity|symmetry; exact E].
  - intros H. destruct (IH H) as [I N]. split; [right; exact I|exact N].
Qed.

Lemma expected_dict lb stack nm t k v : nm = $"Dict" \/ nm = $"dictField" -> expected lb stack nm t k v = exp_dict lb k v.
Proof. intros [-> | ->]; reflexivity. Qed.

(* a well-formed application: the Field is built, AddTo does not panic and delivers as specified *)
Lemma app_ok lb stack c k v : wf_app lb stack c k v = true ->
  exists f cs, (forall la', construct T ctor_fuel la' stack c k v = Some f) /\
               addto T (addto_fuel v) lb f = Some cs /\
               expected lb stack c (param_of c) k v = Some (norm_calls cs) /\
               fwfb f = true /\ (payload_self (param_of c) v = true -> fself f = true).
Proof.
  unfold wf_app, known, param_of. intros H. apply andb_true_iff in H as [H He]. apply andb_true_iff in H as [Hk Hv].
  destruct (find_ctor c (t_ctors T)) as [ct|] eqn:F; [|discriminate Hk].
  destruct (find_ctor_some _ _ _ F) as [I N]. subst c.
  destruct (is_dict ct) eqn:D.
  - destruct (dict_names ct I D) as (Hn & Hp). rewrite Hp in *.
    destruct v; try discriminate Hv.
    rewrite (expected_dict _ _ _ _ _ _ Hn) in *. pose proof (dict_addto lb k addr l) as A.
    destruct (addto T (addto_fuel (VSlice addr l)) lb (dict_field k (VSlice addr l))) as [cs|] eqn:Ea; cbn [option_map] in A.
    + exists (dict_field k (VSlice addr l)), cs.
      split; [intros la'; apply (dict_construct _ Hn)|]. split; [exact Ea|]. split; [symmetry; exact A|]. split; [reflexivity|].
      cbn in Hv. apply andb_true_iff in Hv as [H1 _]. intros Hs. cbn in Hs. cbn. apply (slice_self _ _ _ H1 Hs).
    + rewrite <- A in He. discriminate He.
  - pose proof (ctor_ok_in ct I D 0 0 lb stack k v Hv) as H. unfold ctor_ok in H.
    destruct (construct T ctor_fuel 0 stack (c_name ct) k v) as [f|] eqn:Ec; [|contradiction].
    destruct H as [_ H].
    destruct (addto T (addto_fuel v) lb f) as [cs|] eqn:Ea; [|contradiction].
    destruct H as (H1 & H2 & H3).
    exists f, cs. split; [intros la'; rewrite <- Ec; apply (construct_amb ct I la' 0 stack k v Hv)|].
    split; [exact Ea|]. split; [exact H1|]. split; [exact H2|exact H3].
Qed.

Lemma consistentb_sound ty impls : consistentb ty impls = true -> consistent ty (has impls).
Proof.
  unfold consistentb, consistent. intros H L i Ii. rewrite L in H. cbn [negb orb] in H.
  apply Bool.eqb_prop. exact (forallb_In _ _ _ H Ii).
Qed.

Lemma ores_nz r : sx_z (sx_of_ores (Some r)) = if r then 1 else 0.
Proof. destruct r; reflexivity. Qed.

Theorem wire_thm : forall i, wf i = true -> spec i (model i) = true.
Proof.
  intros i W. unfold wf in W. unfold spec, model.
  destruct (sx_z (sx_nth i 0)) as [|[p|p|]|p].
  - (* a constructor *)
    apply andb_true_iff in W as [_ W]. destruct (app_ok _ _ _ _ _ W) as (f & cs & Ec & Ea & Ee & _ & _).
    cbn zeta. unfold deliver. rewrite Ec, Ea. unfold sx_nth at 1. cbn [sx_l nth]. rewrite Ee. apply calls_ok_refl.
  - (* Equals (any other tag) *)
    apply andb_true_iff in W as [W1 W2]. unfold wf_triple in W1, W2.
    destruct (dec_triple (sx_nth i 1)) as [[c1 k1] v1] eqn:D1. destruct (dec_triple (sx_nth i 2)) as [[c2 k2] v2] eqn:D2.
    apply andb_true_iff in W1 as [W1 S1]. apply andb_true_iff in W1 as [_ W1].
    apply andb_true_iff in W2 as [W2 S2]. apply andb_true_iff in W2 as [_ W2].
    destruct (app_ok _ _ _ _ _ W1) as (f & cs1 & Ec1 & _ & _ & F1 & Q1).
    destruct (app_ok _ _ _ _ _ W2) as (g & cs2 & Ec2 & _ & _ & F2 & Q2).
    rewrite Ec1, Ec2. destruct (equals_total_sym f g F1 F2) as (r & E12 & E21).
    rewrite E12, E21, (equals_refl f F1 (Q1 S1)), (equals_refl g F2 (Q2 S2)).
    unfold sx_nth at 1 2 3 4. cbn [sx_l nth]. rewrite !ores_nz. cbn [sx_z sx_of_ores].
    destruct (sx_eqb (sx_nth i 1) (sx_nth i 2)) eqn:Es.
    + apply sx_eqb_eq in Es. rewrite Es, D2 in D1. injection D1 as <- <- <-. pose proof (Ec1 0) as Ec10. pose proof (Ec2 0) as Ec20. rewrite Ec10 in Ec20. injection Ec20 as <-.
      rewrite (equals_refl f F1 (Q1 S1)) in E12. injection E12 as <-. reflexivity.
    + destruct r; reflexivity.
  - (* Equals *)
    apply andb_true_iff in W as [W1 W2]. unfold wf_triple in W1, W2.
    destruct (dec_triple (sx_nth i 1)) as [[c1 k1] v1] eqn:D1. destruct (dec_triple (sx_nth i 2)) as [[c2 k2] v2] eqn:D2.
    apply andb_true_iff in W1 as [W1 S1]. apply andb_true_iff in W1 as [_ W1].
    apply andb_true_iff in W2 as [W2 S2]. apply andb_true_iff in W2 as [_ W2].
    destruct (app_ok _ _ _ _ _ W1) as (f & cs1 & Ec1 & _ & _ & F1 & Q1).
    destruct (app_ok _ _ _ _ _ W2) as (g & cs2 & Ec2 & _ & _ & F2 & Q2).
    rewrite Ec1, Ec2. destruct (equals_total_sym f g F1 F2) as (r & E12 & E21).
    rewrite E12, E21, (equals_refl f F1 (Q1 S1)), (equals_refl g F2 (Q2 S2)).
    unfold sx_nth at 1 2 3 4. cbn [sx_l nth]. rewrite !ores_nz. cbn [sx_z sx_of_ores].
    destruct (sx_eqb (sx_nth i 1) (sx_nth i 2)) eqn:Es.
    + apply sx_eqb_eq in Es. rewrite Es, D2 in D1. injection D1 as <- <- <-. pose proof (Ec1 0) as Ec10. pose proof (Ec2 0) as Ec20. rewrite Ec10 in Ec20. injection Ec20 as <-.
      rewrite (equals_refl f F1 (Q1 S1)) in E12. injection E12 as <-. reflexivity.
    + destruct r; reflexivity.
  - (* zap.Any *)
    cbn zeta in *.
    set (ty := gty_of_sx (sx_nth i 1)) in *. set (impls := map (fun s => iface_of_Z (sx_z s)) (sx_l (sx_nth i 2))) in *.
    set (k := sx_b (sx_nth i 3)) in *. set (v := val_of_sx (sx_nth i 4)) in *. set (tc := ss (sx_b (sx_nth i 5))) in *.
    set (la := amb_a (sx_nth i 6)) in *. set (lb := amb_b (sx_nth i 6)) in *.
    apply andb_true_iff in W as [W Wt]. apply andb_true_iff in W as [W Ww]. apply andb_true_iff in W as [_ Wc].
    rewrite (any_thm_list ty impls (consistentb_sound _ _ Wc)).
    destruct (app_ok _ _ _ _ _ Ww) as (f & cs & Ec & Ea & Ee & F1 & Q1).
    destruct (app_ok _ _ _ _ _ Wt) as (g & cs' & Ec' & _ & _ & F2 & Q2).
    unfold deliver. rewrite Ec, Ea, Ec'. unfold sx_nth at 1 2 3 4. cbn [sx_l nth].
    rewrite Wc, Ee, calls_ok_refl. cbn [andb].
    destruct (bytes_eqb (spec_any ty impls) tc) eqn:Et; [|reflexivity].
    apply bytes_eqb_eq in Et. pose proof (Ec 0) as Ec0. pose proof (Ec' 0) as Ec0'. rewrite Et in Ec0. rewrite Ec0 in Ec0'. injection Ec0' as <-.
    rewrite sx_eqb_refl. cbn [andb].
    destruct (payload_self (param_of tc) v) eqn:Ps; [|reflexivity].
    rewrite (equals_refl f F2 (Q2 eq_refl)). reflexivity.
  - (* Equals (negative tag) *)
    apply andb_true_iff in W as [W1 W2]. unfold wf_triple in W1, W2.
    destruct (dec_triple (sx_nth i 1)) as [[c1 k1] v1] eqn:D1. destruct (dec_triple (sx_nth i 2)) as [[c2 k2] v2] eqn:D2.
    apply andb_true_iff in W1 as [W1 S1]. apply andb_true_iff in W1 as [_ W1].
    apply andb_true_iff in W2 as [W2 S2]. apply andb_true_iff in W2 as [_ W2].
    destruct (app_ok _ _ _ _ _ W1) as (f & cs1 & Ec1 & _ & _ & F1 & Q1).
    destruct (app_ok _ _ _ _ _ W2) as (g & cs2 & Ec2 & _ & _ & F2 & Q2).
    rewrite Ec1, Ec2. destruct (equals_total_sym f g F1 F2) as (r & E12 & E21).
    rewrite E12, E21, (equals_refl f F1 (Q1 S1)), (equals_refl g F2 (Q2 S2)).
    unfold sx_nth at 1 2 3 4. cbn [sx_l nth]. rewrite !ores_nz. cbn [sx_z sx_of_ores].
    destruct (sx_eqb (sx_nth i 1) (sx_nth i 2)) eqn:Es.
    + apply sx_eqb_eq in Es. rewrite Es, D2 in D1. injection D1 as <- <- <-. pose proof (Ec1 0) as Ec10. pose proof (Ec2 0) as Ec20. rewrite Ec10 in Ec20. injection Ec20 as <-.
      rewrite (equals_refl f F1 (Q1 S1)) in E12. injection E12 as <-. reflexivity.
    + destruct r; reflexivity.
Qed.

(* ==================== reflective check of the integer packings ==================== *)
(* The packing expression of a constructor (over the parameter) and the unpacking expression of
   the AddTo arm (over f.Integer) are both read as chains of conversions; [roundtrip_ok] checks, for
   every integer constructor of the table, that the concatenated chain returns to the parameter's
   width and signedness without ever going through a narrower type -- by the low-bits theorem this
   is exactly what makes the round trip the identity. *)
Definition is_base (x e : expr) : bool :=
  match x, e with EVar, EVar => true | EInteger, EInteger => true | _, _ => false end.
Fixpoint chain_of (x : expr) (e : expr) : option (list num) :=
  if is_base x e then Some []
  else match e with
       | EConv n a => option_map (fun c => c ++ [n]) (chain_of x a)
       | _ => None
       end.

Lemma chain_of_eval x e : forall ch r z0, (x = EVar \/ x = EInteger) ->
  chain_of x e = Some ch -> eval r x = Some (VI z0) -> eval r e = Some (VI (run_chain ch z0)).
Proof.
  induction e; intros ch r z0 Hx; cbn [chain_of];
    try (destruct Hx as [-> | ->]; cbn [is_base]; try discriminate; intros [= <-] E; exact E).
  destruct (is_base x (EConv n e)) eqn:B.
  { destruct Hx as [-> | ->]; discriminate B. }
  destruct (chain_of x e) as [c|] eqn:C; [|discriminate]. cbn [option_map]. intros [= <-] E.
  cbn [eval]. rewrite (IHe c r z0 Hx eq_refl E). unfold run_chain. rewrite fold_left_app. reflexivity.
Qed.

(* Field.Integer is an int64: the packing must end in int64 (or be an int64-like parameter itself) *)
Definition lands64 (n : num) (c1 : list num) : bool :=
  match rev c1 with [] => same_sw n NInt64 | l :: _ => num_eqb l NInt64 end.
Definition chain_closed (n : num) (ch : list num) : bool :=
  match rev ch with
  | [] => true                                   (* no conversion at all *)
  | last :: r => same_sw n last && chain_ok n (rev r)
  end.

Definition int_ctor_ok (c : ctor) : bool :=
  match c_param c, c_body c with
  | TNum n, BLit ft KKey (Some ie) None None =>
      match assoc ft (t_arms T) with
      | Some (ACall _ (Some ue)) =>
          match chain_of EVar ie, chain_of EInteger ue with
          | Some c1, Some c2 => lands64 n c1 && chain_closed n (c1 ++ c2)
          | _, _ => false
          end
      | _ => false
      end
  | TNum _, BLit _ _ _ _ _ => false
  | _, _ => true            (* not an integer struct-literal constructor: covered by C03_roundtrip only *)
  end.
Definition roundtrip_ok : bool := forallb int_ctor_ok (t_ctors T).

Lemma roundtrip_ok_true : roundtrip_ok = true.
Proof. vm_compute. reflexivity. Qed.

Lemma chain_closed_sound n ch z : chain_closed n ch = true -> in_num n z -> run_chain ch z = z.
Proof.
  unfold chain_closed. intros H Hz. destruct (rev ch) as [|last r] eqn:R.
  - apply (f_equal (@rev num)) in R. rewrite rev_involutive in R. subst ch. reflexivity.
  - apply andb_true_iff in H as [Hs Hc]. apply (f_equal (@rev num)) in R. rewrite rev_involutive in R. cbn in R.
    subst ch. apply (lowbits_sound n last); assumption.
Qed.

Lemma lands64_sound n c1 z : lands64 n c1 = true -> in_num n z -> in_numb NInt64 (run_chain c1 z) = true.
Proof.
  unfold lands64. intros H Hz. destruct (rev c1) as [|l r] eqn:R.
  - apply (f_equal (@rev num)) in R. rewrite rev_involutive in R. subst c1. cbn.
    apply (in_numb_same n); [apply in_numb_iff, Hz|exact H].
  - apply (f_equal (@rev num)) in R. rewrite rev_involutive in R. cbn in R. subst c1.
    apply num_eqb_eq in H. subst l. unfold run_chain. rewrite fold_left_app. cbn. apply in_numb_wrap.
Qed.

(* soundness of the checker: what a passing integer constructor guarantees *)
Theorem roundtrip_ok_sound : roundtrip_ok = true ->
  forall c n ft ie m ue, In c (t_ctors T) ->
    c_param c = TNum n -> c_body c = BLit ft KKey (Some ie) None None ->
    assoc ft (t_arms T) = Some (ACall m (Some ue)) ->
    forall la lb stack z, in_num n z ->
    exists iz, eval (env0 la (VI z) stack) ie = Some (VI iz) /\ in_numb NInt64 iz = true /\
               forall k s x, eval (fenv lb {| f_ty := 0; f_key := k; f_int := iz; f_str := s; f_ifc := x |} VNil) ue = Some (VI z).
Proof.
  intros R c n ft ie m ue I Hp Hb Ha la lb stack z Hz. unfold roundtrip_ok in R.
  pose proof (forallb_In _ _ _ R I) as H. unfold int_ctor_ok in H. rewrite Hp, Hb, Ha in H.
  destruct (chain_of EVar ie) as [c1|] eqn:C1; [|discriminate H].
  destruct (chain_of EInteger ue) as [c2|] eqn:C2; [|discriminate H].
  apply andb_true_iff in H as [HL HC].
  exists (run_chain c1 z). split; [|split].
  - apply (chain_of_eval EVar ie c1 _ z (or_introl eq_refl) C1). reflexivity.
  - apply (lands64_sound n); assumption.
  - intros k s x.
    rewrite (chain_of_eval EInteger ue c2 (fenv lb {| f_ty := 0; f_key := k; f_int := run_chain c1 z; f_str := s; f_ifc := x |} VNil)
               (run_chain c1 z) (or_intror eq_refl) C2 eq_refl).
    f_equal. f_equal. transitivity (run_chain (c1 ++ c2) z).
    + unfold run_chain. rewrite fold_left_app. reflexivity.
    + apply (chain_closed_sound n); assumption.
Qed.

(* C03 -- proofs, part 2: the property theorems derived from the per-constructor facts
   (C03/Proofs.v), zap.Any, Field.Equals, the defects of the original code, the wire theorem. *)
From Coq Require Import List ZArith Bool Lia String.
From Coq.Strings Require Import Byte.
Import ListNotations.
From Zap Require Import Base.Wire C03.Lang C03.Arith C03.Model C03.Proofs.
Local Open Scope Z_scope.

(* the same, in words: the Field exists, AddTo does not panic, and the calls the encoder
   receives are, up to the class of the method, exactly the specified delivery of v *)
Theorem roundtrip_thm : forall c, In c (t_ctors T) -> is_dict c = false ->
  forall stack k v, in_typeb (c_param c) v = true ->
  exists f cs, construct T ctor_fuel stack (c_name c) k v = Some f /\
               addto T (addto_fuel v) f = Some cs /\
               expected stack (c_name c) (c_param c) k v = Some (norm_calls cs).
Proof.
  intros c I D stack k v Hv. pose proof (ctor_ok_in c I D stack k v Hv) as H. unfold ctor_ok in H.
  revert H. destruct (construct T ctor_fuel stack (c_name c) k v) as [f|]; [|contradiction].
  destruct (addto T (addto_fuel v) f) as [cs|]; [|contradiction].
  intros H. exists f, cs. repeat split. apply H.
Qed.

(* C03 -- proofs, part 2: the property theorems derived from the per-constructor facts
   (C03/Proofs.v), zap.Any, Field.Equals, the defects of the original code, the wire theorem. *)
From Coq Require Import List ZArith Bool Lia String.
From Coq.Strings Require Import Byte.
Import ListNotations.
From Zap Require Import Base.Wire C03.Lang C03.Arith C03.Model C03.Proofs.
Local Open Scope Z_scope.

(* the same, in words: the Field exists, AddTo does not panic, and the calls the encoder
   receives are, up to the class of the method, exactly the specified delivery of v *)
Theorem roundtrip_thm : forall c, In c (t_ctors T) -> is_dict c = false ->
  forall stack k v, in_typeb (c_param c) v = true ->
  exists f cs, construct T ctor_fuel stack (c_name c) k v = Some f /\
               addto T (addto_fuel v) f = Some cs /\
               expected stack (c_name c) (c_param c) k v = Some (norm_calls cs).
Proof.
  intros c I D stack k v Hv. pose proof (ctor_ok_in c I D stack k v Hv) as H. unfold ctor_ok in H.
  revert H. destruct (construct T ctor_fuel stack (c_name c) k v) as [f|] eqn:Ec; [|contradiction].
  destruct (addto T (addto_fuel v) f) as [cs|] eqn:Ea; [|contradiction].
  intros H. exists f, cs. split; [reflexivity|]. split; [exact Ea|]. apply H.
Qed.

(* ==================== induction over values ==================== *)
Section ValInd.
  Variable P : val -> Prop.
  Hypothesis HI : forall z, P (VI z).
  Hypothesis HBool : forall b, P (VBool b).
  Hypothesis HF64 : forall b, P (VF64 b).
  Hypothesis HF32 : forall b, P (VF32 b).
  Hypothesis HC128 : forall r i, P (VC128 r i).
  Hypothesis HC64 : forall r i, P (VC64 r i).
  Hypothesis HStr : forall s, P (VStr s).
  Hypothesis HBytes : forall n s, P (VBytes n s).
  Hypothesis HTime : forall t, P (VTime t).
  Hypothesis HLoc : forall l, P (VLoc l).
  Hypothesis HOpq : forall o, P (VOpq o).
  Hypothesis HNil : P VNil.
  Hypothesis HPtr : forall v, P v -> P (VPtr v).
  Hypothesis HSlice : forall a l, Forall P l -> P (VSlice a l).
  Hypothesis HWrap : forall w v, P v -> P (VWrap w v).
  Hypothesis HFld : forall t k i s x, P x -> P (VFld t k i s x).
  Hypothesis HCalls : forall l, Forall (fun c => P (snd c)) l -> P (VCalls l).

  Fixpoint val_ind' (v : val) : P v :=
    match v with
    | VI z => HI z | VBool b => HBool b | VF64 b => HF64 b | VF32 b => HF32 b
    | VC128 r i => HC128 r i | VC64 r i => HC64 r i | VStr s => HStr s | VBytes n s => HBytes n s
    | VTime t => HTime t | VLoc l => HLoc l | VOpq o => HOpq o | VNil => HNil
    | VPtr u => HPtr u (val_ind' u)
    | VSlice a l =>
        HSlice a l ((fix go (l : list val) : Forall P l :=
                       match l with
                       | [] => Forall_nil P
                       | x :: r => Forall_cons x (val_ind' x) (go r)
                       end) l)
    | VWrap w u => HWrap w u (val_ind' u)
    | VFld t k i s x => HFld t k i s x (val_ind' x)
    | VCalls l =>
        HCalls l ((fix go (l : list call) : Forall (fun c => P (snd c)) l :=
                     match l with
                     | [] => Forall_nil _
                     | c :: r => Forall_cons c (val_ind' (snd c)) (go r)
                     end) l)
    end.
End ValInd.

(* ==================== Field.Equals ==================== *)
Lemma bytes_eqb_refl a : bytes_eqb a a = true.
Proof. apply bytes_eqb_eq. reflexivity. Qed.
Lemma bytes_eqb_sym a b : bytes_eqb a b = bytes_eqb b a.
Proof.
  destruct (bytes_eqb a b) eqn:E.
  - apply bytes_eqb_eq in E. subst. symmetry. apply bytes_eqb_refl.
  - destruct (bytes_eqb b a) eqn:E'; [|reflexivity]. apply bytes_eqb_eq in E'. subst.
    rewrite bytes_eqb_refl in E. discriminate.
Qed.
Lemma beqb_sym a b : Bool.eqb a b = Bool.eqb b a.
Proof. destruct a, b; reflexivity. Qed.

Lemma f64_eq_sym a b : f64_eq a b = f64_eq b a.
Proof. unfold f64_eq. rewrite (Z.eqb_sym a b). destruct (f64_nan a), (f64_nan b); cbn; try reflexivity.
  destruct (b =? a); cbn; [reflexivity|]. apply andb_comm. Qed.
Lemma f32_eq_sym a b : f32_eq a b = f32_eq b a.
Proof. unfold f32_eq. rewrite (Z.eqb_sym a b). destruct (f32_nan a), (f32_nan b); cbn; try reflexivity.
  destruct (b =? a); cbn; [reflexivity|]. apply andb_comm. Qed.
Lemma f64_eq_refl a : f64_eq a a = negb (f64_nan a).
Proof. unfold f64_eq. rewrite Z.eqb_refl. destruct (f64_nan a); reflexivity. Qed.
Lemma f32_eq_refl a : f32_eq a a = negb (f32_nan a).
Proof. unfold f32_eq. rewrite Z.eqb_refl. destruct (f32_nan a); reflexivity. Qed.

Lemma opq_deep_sym a b : opq_deep a b = opq_deep b a.
Proof.
  unfold opq_deep. rewrite (Z.eqb_sym (oty a)), (Z.eqb_sym (oaddr a) (oaddr b)), (Z.eqb_sym (ocontent a)).
  destruct (oty b =? oty a); cbn; [|reflexivity].
  destruct (oaddr b =? oaddr a) eqn:E.
  - apply Z.eqb_eq in E. rewrite E. destruct (oself a), (oself b); rewrite ?andb_true_r, ?andb_false_r; reflexivity.
  - rewrite !andb_false_r. cbn. destruct (oself a), (oself b); rewrite ?andb_true_r, ?andb_false_r; reflexivity.
Qed.

Lemma deep_eq_sym : forall a other, deep_eq a other = deep_eq other a.
Proof.
  induction a using val_ind'; intros other; destruct other; cbn; try reflexivity.
  - apply Z.eqb_sym.
  - apply beqb_sym.
  - apply f64_eq_sym.
  - apply f32_eq_sym.
  - rewrite (f64_eq_sym r), (f64_eq_sym i). reflexivity.
  - rewrite (f32_eq_sym r), (f32_eq_sym i). reflexivity.
  - apply bytes_eqb_sym.
  - rewrite beqb_sym, bytes_eqb_sym. reflexivity.
  - rewrite (Z.eqb_sym (tinst t)), (Z.eqb_sym (tloc t)). reflexivity.
  - apply Z.eqb_sym.
  - apply opq_deep_sym.
  - apply IHa.
  - (* slices *)
    rewrite (beqb_sym (a =? 0)). destruct (Bool.eqb (addr =? 0) (a =? 0)) eqn:E0; cbn; [|reflexivity].
    rewrite (Z.eqb_sym a addr).
    assert (Hn : negb (a =? 0) = negb (addr =? 0)).
    { apply Bool.eqb_prop in E0. rewrite E0. reflexivity. }
    rewrite Hn. f_equal.
    revert l0. induction H as [|x l Hx Hl IH]; intros [|y l0]; try reflexivity.
    rewrite Hx. f_equal. apply IH.
  - rewrite bytes_eqb_sym, IHa. reflexivity.
  - rewrite (Z.eqb_sym t), (bytes_eqb_sym k), (Z.eqb_sym i), (bytes_eqb_sym s), IHa. reflexivity.
Qed.

Lemma deep_eq_refl : forall a, self_equal a = true -> deep_eq a a = true.
Proof.
  induction a using val_ind'; cbn; intros Hs; try reflexivity; try discriminate.
  - apply Z.eqb_refl.
  - destruct b; reflexivity.
  - rewrite f64_eq_refl. exact Hs.
  - rewrite f32_eq_refl. exact Hs.
  - rewrite !f64_eq_refl. exact Hs.
  - rewrite !f32_eq_refl. exact Hs.
  - apply bytes_eqb_refl.
  - rewrite bytes_eqb_refl. destruct n; reflexivity.
  - rewrite !Z.eqb_refl. reflexivity.
  - apply Z.eqb_refl.
  - unfold opq_deep. rewrite !Z.eqb_refl. cbn. rewrite andb_true_r.
    destruct (oself o); cbn in *; [apply orb_true_r|]. rewrite Hs. reflexivity.
  - apply IHa, Hs.
  - rewrite Z.eqb_refl. replace (Bool.eqb (a =? 0) (a =? 0)) with true by (destruct (a =? 0); reflexivity).
    cbn. destruct (a =? 0); cbn in *; [|reflexivity].
    induction H as [|x l Hx Hl IH]; [reflexivity|]. cbn in Hs. apply andb_true_iff in Hs as [H1 H2].
    rewrite Hx by exact H1. cbn. apply IH, H2.
  - rewrite bytes_eqb_refl. apply IHa, Hs.
  - rewrite !Z.eqb_refl, !bytes_eqb_refl. cbn. apply IHa, Hs.
Qed.

(* the Equals class and the type name only depend on the type *)
Lemma eq_class_ty f g : f_ty f = f_ty g -> eq_class T f = eq_class T g.
Proof. unfold eq_class. intros ->. reflexivity. Qed.

Lemma ifc_eq_some a b :
  (match a with VNil | VLoc _ | VTime _ => true | _ => false end) = true ->
  (match b with VNil | VLoc _ | VTime _ => true | _ => false end) = true ->
  exists r, ifc_eq a b = Some r /\ ifc_eq b a = Some r.
Proof.
  destruct a; try discriminate; destruct b; try discriminate; intros _ _; cbn; eexists; split; try reflexivity.
  - rewrite (Z.eqb_sym (tinst t0)), (Z.eqb_sym (tloc t0)). reflexivity.
  - rewrite Z.eqb_sym. reflexivity.
Qed.

(* Equals on two fields that are as the constructors build them: never panics, symmetric *)
Lemma equals_total_sym f g : fwfb f = true -> fwfb g = true ->
  exists r, equals T f g = Some r /\ equals T g f = Some r.
Proof.
  intros Wf Wg. unfold equals. rewrite (Z.eqb_sym (f_ty g)), (bytes_eqb_sym (f_key g)).
  destruct (f_ty f =? f_ty g) eqn:Et; cbn; [|exists false; split; reflexivity].
  destruct (bytes_eqb (f_key f) (f_key g)); cbn; [|exists false; split; reflexivity].
  apply Z.eqb_eq in Et. pose proof (eq_class_ty f g Et) as Ec.
  unfold fwfb in Wf, Wg. rewrite <- Ec in *. rewrite <- Et in Wg.
  destruct (eq_class T f).
  - destruct (f_ifc f); try discriminate. destruct (f_ifc g); try discriminate.
    rewrite bytes_eqb_sym. eexists; split; reflexivity.
  - rewrite deep_eq_sym. eexists; split; reflexivity.
  - destruct (rassoc (f_ty f) (t_ftypes T)) as [ft|]; [|discriminate].
    destruct (f_ifc f), (f_ifc g); try discriminate; cbn.
    + rewrite (Z.eqb_sym re0), (Z.eqb_sym im0). eexists; split; reflexivity.
    + apply bytes_eqb_eq in Wf. apply bytes_eqb_eq in Wg. subst ft. discriminate Wg.
    + apply bytes_eqb_eq in Wf. apply bytes_eqb_eq in Wg. subst ft. discriminate Wg.
    + rewrite (Z.eqb_sym re0), (Z.eqb_sym im0). eexists; split; reflexivity.
  - rewrite (Z.eqb_sym (f_int g)), (bytes_eqb_sym (f_str g)).
    destruct (f_int f =? f_int g); cbn; [|exists false; split; reflexivity].
    destruct (bytes_eqb (f_str f) (f_str g)); cbn; [|exists false; split; reflexivity].
    apply ifc_eq_some; assumption.
Qed.

Lemma equals_refl f : fwfb f = true -> fself f = true -> equals T f f = Some true.
Proof.
  intros W S. unfold equals. rewrite Z.eqb_refl, bytes_eqb_refl. cbn.
  unfold fwfb in W. unfold fself in S. destruct (eq_class T f).
  - destruct (f_ifc f); try discriminate. rewrite bytes_eqb_refl. reflexivity.
  - rewrite deep_eq_refl by exact S. reflexivity.
  - destruct (rassoc (f_ty f) (t_ftypes T)); [|discriminate].
    destruct (f_ifc f); try discriminate; cbn; rewrite !Z.eqb_refl; reflexivity.
  - rewrite Z.eqb_refl, bytes_eqb_refl. cbn.
    destruct (f_ifc f); try discriminate; cbn; rewrite ?Z.eqb_refl; reflexivity.
Qed.

(* ==================== Dict ==================== *)
Definition dict_field (k : bytes) (v : val) : field :=
  {| f_ty := 2; f_key := k; f_int := 0; f_str := []; f_ifc := VWrap ($"dictObject") v |}.

Lemma dict_construct nm : nm = $"Dict" \/ nm = $"dictField" ->
  forall stack k v, construct T ctor_fuel stack nm k v = Some (dict_field k v).
Proof. intros [-> | ->] stack k v; reflexivity. Qed.

(* the object a Dict field adds holds, in order, what each member adds; it panics exactly when
   a member does *)
Lemma dict_addto k a l :
  option_map norm_calls (addto T (addto_fuel (VSlice a l)) (dict_field k (VSlice a l))) = exp_dict k (VSlice a l).
Proof.
  unfold addto_fuel, exp_dict. remember (S (val_depth (VSlice a l))) as n eqn:En. clear En.
  assert (E : addto T (S n) (dict_field k (VSlice a l)) =
              option_map (fun d => [(($"AddObject"), k, d)])
                (option_map VCalls (oconcat (fun x => match field_of_val x with Some f => addto T n f | None => None end) l))).
  { reflexivity. }
  rewrite E. destruct (oconcat _ l); reflexivity.
Qed.

Lemma dict_names : forall c, In c (t_ctors T) -> is_dict c = true ->
  (c_name c = $"Dict" \/ c_name c = $"dictField") /\ c_param c = TSlice TField.
Proof.
  assert (H : forallb (fun c => implb (is_dict c)
                 ((bytes_eqb (c_name c) ($"Dict") || bytes_eqb (c_name c) ($"dictField")) &&
                  gty_eqb (c_param c) (TSlice TField))) (t_ctors T) = true) by (vm_compute; reflexivity).
  intros c I D. rewrite forallb_forall in H. specialize (H c I). rewrite D in H. cbn in H.
  apply andb_true_iff in H as [Hn Hp]. split.
  - apply orb_true_iff in Hn as [Hn|Hn]; apply bytes_eqb_eq in Hn; [left|right]; exact Hn.
  - destruct (c_param c); try discriminate. destruct g; try discriminate. reflexivity.
Qed.

(* ==================== Equals on the Fields the constructors build ==================== *)
Definition built (stack : bytes) (c : ctor) (k : bytes) (v : val) (f : field) : Prop :=
  In c (t_ctors T) /\ in_typeb (c_param c) v = true /\ construct T ctor_fuel stack (c_name c) k v = Some f.

Lemma built_facts stack c k v f : built stack c k v f ->
  fwfb f = true /\ (payload_self (c_param c) v = true -> fself f = true).
Proof.
  intros (I & Hv & Hc). destruct (is_dict c) eqn:D.
  - destruct (dict_names c I D) as (Hn & Hp). rewrite (dict_construct _ Hn) in Hc. injection Hc as <-.
    split; [reflexivity|]. rewrite Hp in *. destruct v; try discriminate Hv. cbn in Hv.
    apply andb_true_iff in Hv as [H1 _]. intros Hs. cbn in Hs. cbn. apply (slice_self _ _ _ H1 Hs).
  - pose proof (ctor_ok_in c I D stack k v Hv) as H. unfold ctor_ok in H. rewrite Hc in H.
    destruct (addto T (addto_fuel v) f); [|contradiction]. tauto.
Qed.

Theorem equals_total_thm stack c1 k1 v1 f c2 k2 v2 g :
  built stack c1 k1 v1 f -> built stack c2 k2 v2 g -> equals T f g <> None.
Proof.
  intros B1 B2. destruct (built_facts _ _ _ _ _ B1) as [W1 _]. destruct (built_facts _ _ _ _ _ B2) as [W2 _].
  destruct (equals_total_sym f g W1 W2) as (r & E & _). rewrite E. discriminate.
Qed.

Theorem equals_sym_thm stack c1 k1 v1 f c2 k2 v2 g :
  built stack c1 k1 v1 f -> built stack c2 k2 v2 g -> equals T f g = equals T g f.
Proof.
  intros B1 B2. destruct (built_facts _ _ _ _ _ B1) as [W1 _]. destruct (built_facts _ _ _ _ _ B2) as [W2 _].
  destruct (equals_total_sym f g W1 W2) as (r & E1 & E2). rewrite E1, E2. reflexivity.
Qed.

Theorem equals_refl_thm stack c k v f :
  built stack c k v f -> payload_self (c_param c) v = true -> equals T f f = Some true.
Proof.
  intros B S. destruct (built_facts _ _ _ _ _ B) as [W Hs]. apply equals_refl; [exact W|exact (Hs S)].
Qed.

(* constructors are functions of (key, value); Fields built from the same input compare equal *)
Theorem equal_inputs_thm stack c k v f g :
  built stack c k v f -> built stack c k v g ->
  f = g /\ (payload_self (c_param c) v = true -> equals T f g = Some true).
Proof.
  intros B1 B2. assert (E : f = g).
  { destruct B1 as (_ & _ & E1). destruct B2 as (_ & _ & E2). rewrite E1 in E2. injection E2 as ->. reflexivity. }
  split; [exact E|]. subst g. apply (equals_refl_thm _ _ _ _ _ B1).
Qed.

(* Binary/ByteString: equal contents compare equal whether the slice is nil or empty *)
Lemma equals_bytes_content f g : f_ty f = f_ty g -> f_key f = f_key g -> eq_class T f = QBytes ->
  forall n m s, f_ifc f = VBytes n s -> f_ifc g = VBytes m s -> equals T f g = Some true.
Proof.
  intros Et Ek Ec n m s Ef Eg. unfold equals. rewrite Et, Ek, Z.eqb_refl, bytes_eqb_refl. cbn.
  rewrite Ec, Ef, Eg, bytes_eqb_refl. reflexivity.
Qed.

(* ==================== the original Equals (before the two fix: commits) ==================== *)
Definition eq_classes_orig : list (name * eqclass) := [
  (($"BinaryType"), QBytes); (($"ByteStringType"), QBytes);
  (($"ArrayMarshalerType"), QDeep); (($"ObjectMarshalerType"), QDeep);
  (($"ErrorType"), QDeep); (($"ReflectType"), QDeep) ].
Definition T_orig : tables :=
  {| t_ctors := t_ctors T; t_ftypes := t_ftypes T; t_arms := t_arms T; t_wrappers := t_wrappers T;
     t_eq := eq_classes_orig; t_any := t_any T; t_implements := t_implements T |}.

(* the full statement, about the original table *)
Definition equals_total_orig : Prop :=
  forall c k v f, In c (t_ctors T_orig) -> in_typeb (c_param c) v = true ->
    construct T_orig ctor_fuel [] (c_name c) k v = Some f -> equals T_orig f f <> None.
Definition equals_refl_orig : Prop :=
  forall c k v f, In c (t_ctors T_orig) -> in_typeb (c_param c) v = true ->
    payload_self (c_param c) v = true ->
    construct T_orig ctor_fuel [] (c_name c) k v = Some f -> equals T_orig f f = Some true.

(* a Stringer whose dynamic type is a slice: not comparable *)
Definition slice_stringer : val :=
  VOpq {| oty := 10; oaddr := 1; ocontent := 0; ocmp := false; oself := true; ostr := [x73]; oerr := [] |}.
Definition nan64 : Z := 0x7FF8000000000000.

Definition ctor_named (n : name) : ctor :=
  match find_ctor n (t_ctors T) with Some c => c | None => {| c_name := []; c_param := TNone; c_body := BDeleg [] KNone None |} end.

Lemma ctor_named_in n c : find_ctor n (t_ctors T) = Some c -> In c (t_ctors T).
Proof.
  induction (t_ctors T) as [|x l IH]; cbn; [discriminate|].
  destruct (bytes_eqb n (c_name x)); [intros [= ->]; left; reflexivity|intros H; right; apply IH, H].
Qed.

Lemma equals_total_orig_refuted : ~ equals_total_orig.
Proof.
  intros H.
  apply (H (ctor_named ($"Stringer")) [x6b] slice_stringer
           {| f_ty := 25; f_key := [x6b]; f_int := 0; f_str := []; f_ifc := slice_stringer |}).
  - apply (ctor_named_in ($"Stringer")). reflexivity.
  - reflexivity.
  - vm_compute. reflexivity.
  - vm_compute. reflexivity.
Qed.

Lemma equals_total_orig_refuted_inline : ~ equals_total_orig.
Proof.
  intros H.
  apply (H (ctor_named ($"Inline")) [] slice_stringer
           {| f_ty := 28; f_key := []; f_int := 0; f_str := []; f_ifc := slice_stringer |}).
  - apply (ctor_named_in ($"Inline")). reflexivity.
  - reflexivity.
  - vm_compute. reflexivity.
  - vm_compute. reflexivity.
Qed.

Lemma equals_refl_orig_refuted : ~ equals_refl_orig.
Proof.
  intros H.
  assert (E := H (ctor_named ($"Complex128")) [x6b] (VC128 nan64 0)
           {| f_ty := 6; f_key := [x6b]; f_int := 0; f_str := []; f_ifc := VC128 nan64 0 |}
           (ctor_named_in ($"Complex128") _ eq_refl) eq_refl eq_refl eq_refl).
  vm_compute in E. discriminate E.
Qed.

(* ==================== Time ==================== *)
Definition min_nano : Z := -9223372036854775808.
Definition max_nano : Z := 9223372036854775807.

Theorem time_thm stack k t :
  match construct T ctor_fuel stack ($"Time") k (VTime t) with
  | Some f =>
      (* the encoder receives the same instant in the same location *)
      addto T 2 f = Some [(($"AddTime"), k, VTime t)] /\
      (* representable as int64 nanoseconds (boundaries included): UnixNano + Location *)
      (min_nano <= tinst t <= max_nano ->
         f = {| f_ty := 16; f_key := k; f_int := tinst t; f_str := []; f_ifc := VLoc (tloc t) |}) /\
      (* otherwise the time.Time itself, unchanged *)
      (~ (min_nano <= tinst t <= max_nano) ->
         f = {| f_ty := 17; f_key := k; f_int := 0; f_str := []; f_ifc := VTime t |})
  | None => False
  end.
Proof.
  destruct t as [i l]. unfold min_nano, max_nano. cbn.
  destruct (i <? -9223372036854775808) eqn:A; cbn.
  - apply Z.ltb_lt in A. split; [reflexivity|]. split; [intros; lia|reflexivity].
  - destruct (9223372036854775807 <? i) eqn:B; cbn.
    + apply Z.ltb_lt in B. split; [reflexivity|]. split; [intros; lia|reflexivity].
    + pose proof (time_in_range i A B) as R. rewrite in_numb_wrap. cbn.
      rewrite (wrap1_id NInt64 NInt64 i R eq_refl).
      apply Z.ltb_ge in A. apply Z.ltb_ge in B.
      split; [reflexivity|]. split; [reflexivity|intros N; elim N; lia].
Qed.

(* C03 — a field constructor is a FUNCTION of its arguments, also when it is called from many
   goroutines at once.

   zap.Any and the typed constructors are called concurrently by design (every key/value pair of a
   SugaredLogger call goes through zap.Any, on whatever goroutine logs).  The property "the encoder
   receives exactly the value the constructor was given" is stated, and proved in C03/Theorems.v,
   about a constructor that runs alone.  What carries it over to concurrent use is a fact about the
   SOURCE TEXT: everything a constructor computes with lives in its own frame -- parameters and locals --
   except variables nobody ever writes.  The translator makes that fact explicit
   (Gen/CtorEffects.v, gen/c03_effects.go): for every function that returns a Field, for zap.Any and
   for the functions and methods they reach, the list of accesses to variables outside the frame.

   This file holds
     - the obligation over that table ([pure_ctorsb], [effects_closedb]) and the proof that the
       regenerated table meets it (a constructor that parks its dispatch variable, a scratch Field
       or a cache at package level makes [constructors_pure] fail -- by name);
     - what the obligation buys, proved once and for all over an interleaving semantics
       ([schedule_free]): whatever the other threads are (any number of other tabulated calls, and
       arbitrary other code that writes only what is written anyway) and whatever the schedule,
       a call whose footprint is inside its table entry returns the result it returns alone;
     - the converse on an example ([hoisted_dispatch_interferes]): zap.Any with its dispatch
       variable at package level has a schedule under which Any(k, int64 22864) is a Uint64 field
       holding 0. *)
From Coq Require Import List ZArith Bool Lia String.
From Coq.Strings Require Import Byte.
Import ListNotations.
From Zap Require Import Base.Wire C03.Lang C03.Model.
From Zap Require Gen.CtorEffects.
Local Open Scope Z_scope.

(* ==================== the obligation over the table ==================== *)
Definition mem (g : name) (l : list name) : bool := existsb (bytes_eqb g) l.
Definition is_dot (b : byte) : bool := match b with x2e => true | _ => false end.
(* pkg.Name: a selector on an imported package *)
Definition qualified (g : name) : bool := existsb is_dot g.
Fixpoint has_prefix (p s : bytes) : bool :=
  match p, s with
  | [], _ => true
  | a :: p', b :: s' => Byte.eqb a b && has_prefix p' s'
  | _ :: _, [] => false
  end.
Definition has_suffix (p s : bytes) : bool := has_prefix (rev p) (rev s).
(* the selectors that denote constants: zapcore's FieldType enumeration, the limits of package math *)
Definition const_external (g : name) : bool :=
  (has_prefix ($"zapcore.") g && has_suffix ($"Type") g)
  || mem g [$"math.MinInt64"; $"math.MaxInt64"; $"math.MaxUint64"; $"math.MaxInt32"; $"math.MinInt32"; $"math.MaxUint32"].

(* a variable nobody ever writes: a constant of another package, or a package-level variable of
   zap / zapfield that no code of the package assigns to, increments or takes the address of and
   that is not exported *)
Definition frozen (wrg : list name) (g : name) : bool :=
  if qualified g then const_external g else negb (mem g wrg).

Definition access_okb (wrg : list name) (e : name * access) : bool :=
  match snd e with AWrite => false | ARead => frozen wrg (fst e) end.
Definition pure_tableb (eff : list (name * list (name * access))) (wrg : list name) : bool :=
  forallb (fun e => forallb (access_okb wrg) (snd e)) eff.

(* the offending accesses, for the error message *)
Definition impure_accesses (eff : list (name * list (name * access))) (wrg : list name) : list (name * name * access) :=
  flat_map (fun e => map (fun a => (fst e, fst a, snd a)) (filter (fun a => negb (access_okb wrg a)) (snd e))) eff.

Definition has_entry {A} (l : list (name * A)) (c : name) : bool := is_some (assoc c l).
(* every constructor of the constructor table, zap.Any and its dispatch method are tabulated, and
   so is everything a tabulated function calls or hands on as a function value *)
Definition closed_tableb (eff : list (name * list (name * access))) (calls : list (name * list name)) (ctors : list ctor) : bool :=
  forallb (fun c => has_entry eff (c_name c)) ctors &&
  has_entry eff ($"Any") && has_entry eff ($"anyFieldC.Any") &&
  forallb (fun e => has_entry eff (fst e) && forallb (has_entry eff) (snd e)) calls.

Definition eff : list (name * list (name * access)) := Gen.CtorEffects.ctor_effects.
Definition wrg : list name := Gen.CtorEffects.written_globals.
Definition pure_ctorsb : bool := pure_tableb eff wrg.
Definition effects_closedb : bool := closed_tableb eff Gen.CtorEffects.ctor_calls (t_ctors T).

(* THE OBLIGATION.  A constructor (or zap.Any, or anything they reach) that assigns to a variable
   outside its own frame, or reads one that somebody writes, makes this fail; the list printed in
   the error is [(function, variable, access)]. *)
Lemma constructors_pure_detail : impure_accesses eff wrg = [].
Proof. vm_compute. reflexivity. Qed.
Lemma constructors_pure : pure_ctorsb = true.
Proof. vm_compute. reflexivity. Qed.
Lemma effects_closed : effects_closedb = true.
Proof. vm_compute. reflexivity. Qed.

(* ==================== what it buys: an interleaving semantics ==================== *)
Section Machine.
  Variable R : Type.   (* what a call returns (a Field) *)
  Variable V : Type.   (* what a variable holds *)

  (* A call, as far as the world outside its frame can tell: it reads and writes variables outside
     its frame one access at a time -- everything it does inside its frame is the Coq function
     that continues -- and finally returns. *)
  Inductive prog :=
  | PRet (r : R)
  | PRead (g : name) (k : V -> prog)
  | PWrite (g : name) (x : V) (k : prog).

  Definition store := name -> V.
  Definition upd (st : store) (g : name) (x : V) : store := fun h => if bytes_eqb h g then x else st h.

  (* the call runs alone *)
  Fixpoint run (st : store) (p : prog) : R :=
    match p with
    | PRet r => r
    | PRead g k => run st (k (st g))
    | PWrite g x k => run (upd st g x) k
    end.

  (* footprint: every read is of a variable in [rd], every write of one in [wr] -- on every path,
     whatever values the reads return *)
  Inductive within (rd wr : name -> bool) : prog -> Prop :=
  | WRet r : within rd wr (PRet r)
  | WRead g k : rd g = true -> (forall x, within rd wr (k x)) -> within rd wr (PRead g k)
  | WWrite g x k : wr g = true -> within rd wr k -> within rd wr (PWrite g x k).

  Lemma within_mono (rd wr rd' wr' : name -> bool) p :
    (forall g, rd g = true -> rd' g = true) -> (forall g, wr g = true -> wr' g = true) ->
    within rd wr p -> within rd' wr' p.
  Proof.
    intros Hr Hw H. induction H as [r|g k Hg Hk IH|g x k Hg Hk IH].
    - constructor.
    - constructor; [apply Hr, Hg|exact IH].
    - constructor; [apply Hw, Hg|exact IH].
  Qed.

  Variable fz : name -> bool.   (* the variables nobody writes *)

  (* a pure call: reads frozen variables only, writes nothing outside its frame *)
  Definition pure (p : prog) : Prop := within fz (fun _ => false) p.
  (* any other code of the process: reads what it likes, writes only what is not frozen *)
  Definition other (p : prog) : Prop := within (fun _ => true) (fun g => negb (fz g)) p.

  (* threads: (is this one of the pure calls?, what is left of it) *)
  Definition thread := (bool * prog)%type.
  Definition okt (t : thread) : Prop := if fst t then pure (snd t) else other (snd t).

  (* one atomic step of thread i (a thread that has returned, or an index out of range: no-op) *)
  Fixpoint stepl (i : nat) (st : store) (ts : list thread) {struct ts} : store * list thread :=
    match ts with
    | [] => (st, [])
    | (b, p) :: r =>
        match i with
        | O => match p with
               | PRet _ => (st, ts)
               | PRead g k => (st, (b, k (st g)) :: r)
               | PWrite g x k => (upd st g x, (b, k) :: r)
               end
        | S j => let q := stepl j st r in (fst q, (b, p) :: snd q)
        end
    end.
  (* a schedule: which thread moves next, for as long as the list lasts *)
  Fixpoint exec (sched : list nat) (st : store) (ts : list thread) : store * list thread :=
    match sched with
    | [] => (st, ts)
    | i :: s => let q := stepl i st ts in exec s (fst q) (snd q)
    end.

  (* what each pure call will return if it runs on from here undisturbed *)
  Definition results (st : store) (ts : list thread) : list (option R) :=
    map (fun t : thread => if fst t then Some (run st (snd t)) else None) ts.

  Definition agree (st st' : store) : Prop := forall g, fz g = true -> st g = st' g.

  Lemma run_agree p : pure p -> forall st st', agree st st' -> run st p = run st' p.
  Proof.
    unfold pure. intros H. induction H as [r|g k Hg Hk IH|g x k Hg Hk IH]; intros st st' A.
    - reflexivity.
    - cbn. rewrite <- (A g Hg). apply IH, A.
    - discriminate Hg.
  Qed.

  Lemma results_agree ts : Forall okt ts -> forall st st', agree st st' -> results st ts = results st' ts.
  Proof.
    induction 1 as [|[b p] r Ht Hr IH]; intros st st' A; [reflexivity|].
    unfold results in *. cbn [map fst snd]. rewrite (IH st st' A). destruct b; [|reflexivity].
    cbn in Ht. rewrite (run_agree p Ht st st' A). reflexivity.
  Qed.

  Lemma agree_upd st g x : fz g = false -> agree st (upd st g x).
  Proof.
    intros Hg h Hh. unfold upd. destruct (bytes_eqb h g) eqn:E; [|reflexivity].
    apply bytes_eqb_eq in E. subst h. rewrite Hg in Hh. discriminate Hh.
  Qed.

  Lemma agree_refl st : agree st st.
  Proof. intros g _. reflexivity. Qed.

  Lemma stepl_inv : forall ts i st, Forall okt ts ->
    Forall okt (snd (stepl i st ts)) /\ agree st (fst (stepl i st ts)) /\
    map fst (snd (stepl i st ts)) = map fst ts /\
    results (fst (stepl i st ts)) (snd (stepl i st ts)) = results st ts.
  Proof.
    induction ts as [|[b p] r IH]; intros i st H.
    - cbn [stepl fst snd]. split; [constructor|]. split; [apply agree_refl|]. split; reflexivity.
    - inversion H as [|t r' Ht Hr]; subst. destruct i as [|j].
      + destruct p as [x|g k|g x k]; cbn [stepl fst snd].
        * split; [exact H|]. split; [apply agree_refl|]. split; reflexivity.
        * split; [|split; [apply agree_refl|split; [reflexivity|]]].
          -- constructor; [|exact Hr]. unfold okt in *. cbn [fst snd] in *.
             destruct b; inversion Ht as [|g' k' Hrd Hk|]; subst; apply Hk.
          -- unfold results. cbn [map fst snd]. destruct b; reflexivity.
        * assert (Hg : fz g = false /\ b = false /\ other k).
          { unfold okt in Ht. cbn [fst snd] in Ht. destruct b; inversion Ht as [| |g' x' k' Hw Hk]; subst.
            - discriminate Hw.
            - split; [|split; [reflexivity|exact Hk]]. destruct (fz g); [discriminate Hw|reflexivity]. }
          destruct Hg as (Hg & Hb & Hk). subst b.
          split; [|split; [apply agree_upd, Hg|split; [reflexivity|]]].
          -- constructor; [exact Hk|exact Hr].
          -- unfold results. cbn [map fst snd]. f_equal. symmetry.
             apply (results_agree r Hr). apply agree_upd, Hg.
      + destruct (IH j st Hr) as (A & B & C & D). cbn [stepl fst snd].
        split; [|split; [exact B|split]].
        * constructor; assumption.
        * cbn [map fst]. f_equal. exact C.
        * unfold results in *. cbn [map fst snd]. rewrite D. f_equal. destruct b; [|reflexivity].
          cbn in Ht. rewrite (run_agree p Ht st _ B). reflexivity.
  Qed.

  (* SCHEDULE FREEDOM.  Any number of pure calls and of other threads, any schedule: at every
     moment, what each pure call is going to return is what it returns when it runs alone from the
     initial state. *)
  Theorem exec_inv : forall sched st ts, Forall okt ts ->
    Forall okt (snd (exec sched st ts)) /\
    map fst (snd (exec sched st ts)) = map fst ts /\
    results (fst (exec sched st ts)) (snd (exec sched st ts)) = results st ts.
  Proof.
    induction sched as [|i s IH]; intros st ts H; cbn [exec].
    - repeat split; assumption.
    - destruct (stepl_inv ts i st H) as (A & _ & C & D).
      destruct (IH (fst (stepl i st ts)) _ A) as (A' & C' & D'). repeat split.
      + exact A'.
      + rewrite C'. exact C.
      + rewrite D'. exact D.
  Qed.

  Lemma nth_results st ts j b p : nth_error ts j = Some (b, p) ->
    nth_error (results st ts) j = Some (if b then Some (run st p) else None).
  Proof. intros H. unfold results. rewrite (map_nth_error _ _ _ H). reflexivity. Qed.

  Corollary schedule_free_machine : forall sched st ts, Forall okt ts ->
    forall j p, nth_error ts j = Some (true, p) ->
    exists p', nth_error (snd (exec sched st ts)) j = Some (true, p') /\
               run (fst (exec sched st ts)) p' = run st p /\
               (forall r, p' = PRet r -> r = run st p).
  Proof.
    intros sched st ts H j p Hj. destruct (exec_inv sched st ts H) as (_ & C & D).
    pose proof (nth_results st ts j true p Hj) as E. rewrite <- D in E.
    assert (F : nth_error (map fst (snd (exec sched st ts))) j = Some true).
    { rewrite C. rewrite (map_nth_error fst _ _ Hj). reflexivity. }
    destruct (nth_error (snd (exec sched st ts)) j) as [[b' p']|] eqn:N.
    - rewrite (map_nth_error fst _ _ N) in F. cbn in F. injection F as ->.
      rewrite (nth_results _ _ j true p' N) in E. injection E as E.
      exists p'. repeat split; [exact E|]. intros r ->. cbn in E. exact E.
    - assert (N' : nth_error (map fst (snd (exec sched st ts))) j = None).
      { apply nth_error_None. rewrite map_length. apply nth_error_None. exact N. }
      rewrite N' in F. discriminate F.
  Qed.
End Machine.

Arguments PRet {R V} r.
Arguments PRead {R V} g k.
Arguments PWrite {R V} g x k.

(* ==================== the table meets the semantics ==================== *)
Definition has_access (fp : list (name * access)) (a : access) (g : name) : bool :=
  existsb (fun e => bytes_eqb (fst e) g && match snd e, a with ARead, ARead | AWrite, AWrite => true | _, _ => false end) fp.
(* the program of a call stays inside a table entry *)
Definition fp_within {R V} (fp : list (name * access)) (p : prog R V) : Prop :=
  within R V (has_access fp ARead) (has_access fp AWrite) p.

Lemma has_access_in fp a g : has_access fp a g = true -> In (g, a) fp.
Proof.
  unfold has_access. intros H. apply existsb_exists in H as ((g', a') & I & E).
  apply andb_true_iff in E as [E1 E2]. cbn in E1, E2. apply bytes_eqb_eq in E1. subst g'.
  destruct a', a; try discriminate E2; exact I.
Qed.

Lemma pure_table_entry eff0 wrg0 c fp : pure_tableb eff0 wrg0 = true -> In (c, fp) eff0 ->
  forall g a, In (g, a) fp -> a = ARead /\ frozen wrg0 g = true.
Proof.
  intros H I g a Ia. unfold pure_tableb in H. rewrite forallb_forall in H.
  specialize (H _ I). cbn in H. rewrite forallb_forall in H. specialize (H _ Ia).
  unfold access_okb in H. cbn in H. destruct a; [split; [reflexivity|exact H]|discriminate H].
Qed.

Lemma pure_of_entry {R V} c fp (p : prog R V) : In (c, fp) eff -> fp_within fp p -> pure R V (frozen wrg) p.
Proof.
  intros I H. unfold pure. apply (within_mono R V _ _ _ _ p) with (3 := H).
  - intros g Hg. apply has_access_in in Hg. exact (proj2 (pure_table_entry eff wrg c fp constructors_pure I g ARead Hg)).
  - intros g Hg. apply has_access_in in Hg.
    destruct (pure_table_entry eff wrg c fp constructors_pure I g AWrite Hg) as [E _]. discriminate E.
Qed.

(* a thread of the process: a call of a tabulated function ([Some c]) whose accesses outside its
   frame are those the table lists for c, or any other code ([None]), which reads what it likes and
   writes only variables that are written anyway *)
Definition call_ok {R V} (t : option name * prog R V) : Prop :=
  match fst t with
  | Some c => exists fp, In (c, fp) eff /\ fp_within fp (snd t)
  | None => other R V (frozen wrg) (snd t)
  end.
Definition tagged {R V} (ts : list (option name * prog R V)) : list (thread R V) :=
  map (fun t => (is_some (fst t), snd t)) ts.

Theorem schedule_free {R V} : forall (ts : list (option name * prog R V)), Forall call_ok ts ->
  forall sched st j c p, nth_error ts j = Some (Some c, p) ->
  exists p', nth_error (snd (exec R V sched st (tagged ts))) j = Some (true, p') /\
             run R V (fst (exec R V sched st (tagged ts))) p' = run R V st p /\
             (forall r, p' = PRet r -> r = run R V st p).
Proof.
  intros ts H sched st j c p Hj.
  apply (schedule_free_machine R V (frozen wrg)).
  - unfold tagged. apply Forall_forall. intros t It. apply in_map_iff in It as ((o & q) & <- & Iq).
    rewrite Forall_forall in H. specialize (H _ Iq). unfold call_ok in H. cbn [fst snd] in H.
    unfold okt. cbn [fst snd]. destruct o as [c'|]; cbn [is_some].
    + destruct H as (fp & I & W). exact (pure_of_entry c' fp q I W).
    + exact H.
  - unfold tagged. rewrite (map_nth_error _ _ _ Hj). reflexivity.
Qed.

(* ==================== non-vacuity: the two shapes of zap.Any ==================== *)
(* zap.Any as the source has it: the dispatch variable is a local, the whole call is one step as
   far as the outside is concerned *)
Definition any_local (ty : gty) (impls : list iface) (k : bytes) (v : val) : prog (option field) name :=
  PRet (construct T ctor_fuel loc_local [] (any_lookup (t_any T) ty impls) k v).
(* ... and with the dispatch variable at package level: store the chosen constructor, load it back,
   call what was loaded -- anyFieldC[T].Any's lenient `v, _ := val.(T)` hands the constructor the zero
   value when the value is not of its parameter type *)
Definition zero_of (t : gty) : val :=
  match t with TNum _ => VI 0 | TBool => VBool false | TString => VStr [] | _ => VNil end.
Definition lenient (c : name) (ty : gty) (v : val) : val :=
  match param_of c with
  | TIface _ => v                                     (* (an interface-typed parameter: not needed for the example) *)
  | t => if gty_eqb t ty then v else zero_of t        (* the assertion val.(T) fails: T's zero value *)
  end.
Definition any_hoisted (ty : gty) (impls : list iface) (k : bytes) (v : val) : prog (option field) name :=
  PWrite ($"c") (any_lookup (t_any T) ty impls)
    (PRead ($"c") (fun d => PRet (construct T ctor_fuel loc_local [] d k (lenient d ty v)))).

Lemma any_local_within ty impls k v : fp_within [] (any_local ty impls k v).
Proof. constructor. Qed.
Lemma any_hoisted_within ty impls k v :
  fp_within [(($"c"), AWrite); (($"c"), ARead)] (any_hoisted ty impls k v).
Proof. constructor; [reflexivity|]. constructor; [reflexivity|]. intros x. constructor. Qed.

(* alone, the two are the same function ... *)
Lemma any_hoisted_alone st :
  run _ _ st (any_hoisted (TNum NInt64) [] [x6b] (VI 22864)) = run _ _ st (any_local (TNum NInt64) [] [x6b] (VI 22864)).
Proof. vm_compute. reflexivity. Qed.

(* ... but two goroutines, Any("k", int64(22864)) and Any("k", uint64(7)): thread 0 stores its
   choice, thread 1 stores its own, thread 0 loads -- and returns a Uint64 field holding 0 *)
Lemma hoisted_dispatch_interferes :
  let ts := [(true, any_hoisted (TNum NInt64) [] [x6b] (VI 22864)); (true, any_hoisted (TNum NUint64) [] [x6b] (VI 7))] in
  let st0 : store name := fun _ => [] in
  run _ _ st0 (snd (nth 0 ts (false, PRet None))) =
    Some {| f_ty := 11; f_key := [x6b]; f_int := 22864; f_str := []; f_ifc := VNil |} /\
  nth_error (snd (exec _ _ [0%nat; 1%nat; 0%nat] st0 ts)) 0 =
    Some (true, PRet (Some {| f_ty := 18; f_key := [x6b]; f_int := 0; f_str := []; f_ifc := VNil |})).
Proof. vm_compute. split; reflexivity. Qed.

(* the same two calls of the real shape, same schedule: each returns its own Field *)
Lemma local_dispatch_does_not :
  let ts := [(true, any_local (TNum NInt64) [] [x6b] (VI 22864)); (true, any_local (TNum NUint64) [] [x6b] (VI 7))] in
  let st0 : store name := fun _ => [] in
  nth_error (snd (exec _ _ [0%nat; 1%nat; 0%nat] st0 ts)) 0 =
    Some (true, PRet (Some {| f_ty := 11; f_key := [x6b]; f_int := 22864; f_str := []; f_ifc := VNil |})).
Proof. vm_compute. reflexivity. Qed.

(* the obligation tells the two shapes apart: a table in which Any writes and reads `c` is rejected *)
Lemma hoisted_table_rejected :
  pure_tableb [(($"Any"), [(($"c"), AWrite); (($"c"), ARead)])] [$"c"] = false /\
  pure_tableb [(($"Any"), [(($"c"), ARead)])] [$"c"] = false /\
  pure_tableb [(($"Time"), [(($"time.Local"), ARead)])] [] = false /\
  pure_tableb [(($"Time"), [(($"_minTimeInt64"), ARead); (($"zapcore.TimeType"), ARead)])] [$"c"] = true.
Proof. vm_compute. repeat split; reflexivity. Qed.

(* C03 — Field constructors and zap.Any deliver exactly the value they were given.

   The model of the code is the semantics of C03/Lang.v applied to the tables
   the translator regenerates from the source on every run (Gen/Constructors.v,
   Gen/AddTo.v, Gen/AnyTable.v).  This file adds: the typing of values, the
   SPECIFICATION (written against parameter types and constructor intent only,
   never against the generated tables), and the wire functions.  No proofs. *)
From Coq Require Import List ZArith Bool Lia String.
From Coq.Strings Require Import Byte.
Import ListNotations.
From Zap Require Import Base.Wire C03.Lang.
From Zap Require Gen.Constructors Gen.AddTo Gen.AnyTable.
Local Open Scope Z_scope.

Definition T : tables :=
  {| t_ctors := Gen.Constructors.ctors;
     t_ftypes := Gen.AddTo.ftypes;
     t_arms := Gen.AddTo.arms;
     t_wrappers := Gen.Constructors.wrappers;
     t_eq := Gen.AddTo.eq_classes;
     t_any := Gen.AnyTable.any_table;
     t_implements := Gen.AnyTable.implements |}.

(* ---------- typing of values ---------- *)
Definition in_rangeb (lo hi z : Z) : bool := (lo <=? z) && (z <? hi).

Fixpoint in_typeb (t : gty) (v : val) {struct t} : bool :=
  match t, v with
  | TBool, VBool _ => true
  | TNum n, VI z => in_numb n z
  | TF64, VF64 b => in_rangeb 0 (2 ^ 64) b
  | TF32, VF32 b => in_rangeb 0 (2 ^ 32) b
  | TC128, VC128 r i => in_rangeb 0 (2 ^ 64) r && in_rangeb 0 (2 ^ 64) i
  | TC64, VC64 r i => in_rangeb 0 (2 ^ 32) r && in_rangeb 0 (2 ^ 32) i
  | TString, VStr _ => true
  | TBytes, VBytes n s => implb n (match s with [] => true | _ => false end)
  | TTime, VTime _ => true
  | TLoc, VLoc _ => true
  | TIface IAny, VCalls _ => false        (* not a Go value *)
  | TIface IAny, VRef _ _ _ => false      (* only ever produced by zap's own wrapper loops, never an input *)
  | TIface IAny, _ => true
  | TIface IError, VNil => true           (* a nil error is a documented input; nil marshalers/Stringers are not *)
  | TIface _, VOpq _ => true
  | TAddrOf _, VOpq _ => true
  | TPtr _, VNil => true
  | TPtr t', VPtr u => in_typeb t' u
  | TSlice t', VSlice a l => implb (a =? 0) (match l with [] => true | _ => false end) && forallb (in_typeb t') l
  | TField, VFld _ _ _ _ _ => true
  | TNone, _ => true
  | _, _ => false
  end.

(* ---------- normal form of an observed call list ---------- *)
(* The property is about the VALUE an encoder receives, so calls are compared up to the class of
   the encoder method: AddInt64/AddInt32/.../AppendInt8 all deliver "a signed integer". *)
Definition method_classes : list (name * name) := [
  (($"AddBool"), ($"bool")); (($"AppendBool"), ($"bool"));
  (($"AddInt"), ($"int")); (($"AddInt64"), ($"int")); (($"AddInt32"), ($"int")); (($"AddInt16"), ($"int")); (($"AddInt8"), ($"int"));
  (($"AppendInt"), ($"int")); (($"AppendInt64"), ($"int")); (($"AppendInt32"), ($"int")); (($"AppendInt16"), ($"int")); (($"AppendInt8"), ($"int"));
  (($"AddUint"), ($"uint")); (($"AddUint64"), ($"uint")); (($"AddUint32"), ($"uint")); (($"AddUint16"), ($"uint")); (($"AddUint8"), ($"uint")); (($"AddUintptr"), ($"uint"));
  (($"AppendUint"), ($"uint")); (($"AppendUint64"), ($"uint")); (($"AppendUint32"), ($"uint")); (($"AppendUint16"), ($"uint")); (($"AppendUint8"), ($"uint")); (($"AppendUintptr"), ($"uint"));
  (($"AddFloat64"), ($"f64")); (($"AppendFloat64"), ($"f64")); (($"AddFloat32"), ($"f32")); (($"AppendFloat32"), ($"f32"));
  (($"AddComplex128"), ($"c128")); (($"AppendComplex128"), ($"c128")); (($"AddComplex64"), ($"c64")); (($"AppendComplex64"), ($"c64"));
  (($"AddString"), ($"string")); (($"AppendString"), ($"string"));
  (($"AddBinary"), ($"binary")); (($"AddByteString"), ($"bytestring")); (($"AppendByteString"), ($"bytestring"));
  (($"AddDuration"), ($"duration")); (($"AppendDuration"), ($"duration"));
  (($"AddTime"), ($"time")); (($"AppendTime"), ($"time"));
  (($"AddReflected"), ($"reflect")); (($"AppendReflected"), ($"reflect"));
  (($"AddArray"), ($"array")); (($"AppendArray"), ($"array"));
  (($"AddObject"), ($"object")); (($"AppendObject"), ($"object"));
  (($"OpenNamespace"), ($"namespace")); (($"MarshalLogObject"), ($"inline"))
].

Definition class_of (m : name) : name :=
  match assoc m method_classes with Some c => c | None => ($"?") ++ m end.

Fixpoint norm_val (v : val) : val :=
  match v with
  | VCalls l => VCalls (map (fun c => match c with (m, k, x) => (class_of m, k, norm_val x) end) l)
  | _ => v
  end.
Definition norm_calls (l : list call) : list call :=
  map (fun c => match c with (m, k, x) => (class_of m, k, norm_val x) end) l.

(* ---------- the model: constructor then AddTo ---------- *)
Definition addto_fuel (v : val) : nat := S (S (val_depth v)).

(* [la]: what the process-global time.Local points to while the Field is BUILT, [lb]: what it
   points to while the Field is ENCODED.  They are two independent inputs: a Field is a value that
   is routinely encoded later than it is built (With / WithLazy, buffering and sampling cores, test
   observers), and time.Local is an assignable variable (the `time.Local = time.UTC` idiom). *)
Definition deliver (la lb : Z) (stack : bytes) (c : name) (k : bytes) (v : val) : option (field * list call) :=
  match construct T ctor_fuel la stack c k v with
  | Some f => match addto T (addto_fuel v) lb f with
              | Some cs => Some (f, cs)
              | None => None
              end
  | None => None
  end.

(* zap.Any: the first clause of the type switch that matches the dynamic type *)
Fixpoint any_lookup (tbl : list (gty * name)) (ty : gty) (impls : list iface) : name :=
  match tbl with
  | [] => ($"Reflect")
  | (TIface i, c) :: r => if existsb (iface_eqb i) impls then c else any_lookup r ty impls
  | (t, c) :: r => if gty_eqb t ty then c else any_lookup r ty impls
  end.

(* ==================== SPECIFICATION ==================== *)
Definition num_class (n : num) : name :=
  match n with NDuration => ($"duration") | _ => if num_signed n then ($"int") else ($"uint") end.

(* what a constructor is FOR, where the parameter type does not say it (hand-written) *)
Definition intents : list (name * name) := [
  (($"Binary"), ($"binary")); (($"ByteString"), ($"bytestring"));
  (($"Object"), ($"object")); (($"Array"), ($"array")); (($"Inline"), ($"inline")); (($"Reflect"), ($"reflect"));
  (($"Stringer"), ($"stringer")); (($"Error"), ($"error")); (($"NamedError"), ($"error"));
  (($"Skip"), ($"skip")); (($"Namespace"), ($"namespace")); (($"Stack"), ($"stack")); (($"StackSkip"), ($"stack"));
  (($"Dict"), ($"dict")); (($"dictField"), ($"dict")); (($"nilField"), ($"nil"))
].
Definition intent (nm : name) : name :=
  match assoc nm intents with Some i => i | None => [] end.

(* ---- errors ----
   What a field built from an error value delivers (documentation of zap.NamedError and of zapcore's
   error encoding), stated on what the CALLER's error exposes ([einfo]) -- its message, and beyond
   the message its %+v form when it is a fmt.Formatter, its members when it is an error group:
     - the message, as a string under the key;
     - an error group: under key+"Causes" the array of its non-nil members, in order, each as an object
       holding that member AS AN ERROR under "error" (recursively: its own Verbose / Causes included);
     - else a fmt.Formatter whose %+v text differs from the message: that text under key+"Verbose";
     - a nil pointer on which Error() cannot be called: the string "<nil>";
     - an Error() that panics otherwise: nothing under the key; the panic is reported as the text
       "PANIC=.." under key+"Error" of the FIELD it belongs to (it ends the arrays it is nested in).
   [exp_err] returns the delivery and the failure text, if any. *)
(* the members of a group: [d] is the delivery of one member (under "error"); nil members are not
   delivered; a member that fails is the last one delivered *)
Definition exp_members (d : einfo -> list call * option bytes) : list (option einfo) -> list call * option bytes :=
  fix each (l : list (option einfo)) : list call * option bytes :=
    match l with
    | [] => ([], None)
    | None :: r => each r
    | Some x :: r =>
        match snd (d x) with
        | None => let q := each r in ((($"object"), [], VCalls (fst (d x))) :: fst q, snd q)
        | Some t => ([(($"object"), [], VCalls (fst (d x)))], Some t)
        end
    end.
Fixpoint exp_err (k : bytes) (e : einfo) : list call * option bytes :=
  match e with
  | EPanic p => ([], Some (($"PANIC=") ++ p))
  | ENilPanic => ([(($"string"), k, VStr ($"<nil>"))], None)
  | EMsg m _ (Some l) =>
      let r := exp_members (fun x => exp_err ($"error") x) l in
      ([(($"string"), k, VStr m); (($"array"), k ++ ($"Causes"), VCalls (fst r))], snd r)
  | EMsg m (Some t) None =>
      ((($"string"), k, VStr m) :: (if bytes_eqb t m then [] else [(($"string"), k ++ ($"Verbose"), VStr t)]), None)
  | EMsg m None None => ([(($"string"), k, VStr m)], None)
  end.
(* an error under key k, as a field *)
Definition exp_error_field (k : bytes) (e : einfo) : list call :=
  let q := exp_err k e in
  match snd q with None => fst q | Some t => fst q ++ [(($"string"), k ++ ($"Error"), VStr t)] end.

(* one element of a slice constructor: the same element, in order; nil errors skipped; an error
   is an object holding exactly what zap.Error delivers for THAT error value (message under
   ($"error"), and whatever else the value exposes: Verbose, Causes); a Stringer is its String().  [a] is the
   identity of the caller's slice and [i] the position of the element: where the marshal method
   is on the pointer (ObjectValues) the encoder is handed the address of the caller's OWN
   element i -- not of a copy: a copy renders the same only for as long as nobody looks again
   (an encoder that keeps the marshaler, a marshal method that updates its receiver) *)
Definition exp_elem (t : gty) (a i : Z) (x : val) : option (list call) :=
  match t, x with
  | TBool, VBool _ => Some [(($"bool"), [], x)]
  | TNum n, VI _ => Some [(num_class n, [], x)]
  | TF64, VF64 _ => Some [(($"f64"), [], x)]
  | TF32, VF32 _ => Some [(($"f32"), [], x)]
  | TC128, VC128 _ _ => Some [(($"c128"), [], x)]
  | TC64, VC64 _ _ => Some [(($"c64"), [], x)]
  | TString, VStr _ => Some [(($"string"), [], x)]
  | TBytes, VBytes _ _ => Some [(($"bytestring"), [], x)]
  | TTime, VTime _ => Some [(($"time"), [], x)]
  | TIface IObjM, VOpq _ => Some [(($"object"), [], x)]
  | TAddrOf IObjM, VOpq _ => Some [(($"object"), [], VRef a i x)]
  | TIface IStringer, VOpq o => Some [(($"string"), [], VStr (ostr o))]
  | TIface IError, VNil => Some []
  | TIface IError, VOpq o =>
      Some [(($"object"), [], VCalls (exp_error_field (bs ($"error")) (oerr o)))]
  | _, _ => None
  end.

(* typed constructors: the value itself, under the method class of its type; a nil pointer is an
   explicit null; a slice is an array of its elements (nil and empty alike) *)
Fixpoint exp_typed (t : gty) (k : bytes) (v : val) {struct t} : option (list call) :=
  match t, v with
  | TPtr _, VNil => Some [(($"reflect"), k, VNil)]
  | TPtr t', VPtr u => exp_typed t' k u
  | TSlice t', VSlice a l =>
      option_map (fun cs => [(($"array"), k, VCalls cs)]) (oconcati (exp_elem t' a) 0 l)
  | TBool, VBool _ => Some [(($"bool"), k, v)]
  | TNum n, VI _ => Some [(num_class n, k, v)]
  | TF64, VF64 _ => Some [(($"f64"), k, v)]
  | TF32, VF32 _ => Some [(($"f32"), k, v)]
  | TC128, VC128 _ _ => Some [(($"c128"), k, v)]
  | TC64, VC64 _ _ => Some [(($"c64"), k, v)]
  | TString, VStr _ => Some [(($"string"), k, v)]
  | TTime, VTime _ => Some [(($"time"), k, v)]
  | _, _ => None
  end.

(* Dict: an object holding, in order, what each given field adds (the members are Fields the caller
   hands over ready-made; what a ready-made Field adds is AddTo's business, at the moment [lb] of
   encoding -- this is the only place where the specification mentions the ambient state, and it
   does so only through the caller's own Fields) *)
Definition exp_dict (lb : Z) (k : bytes) (v : val) : option (list call) :=
  match v with
  | VSlice _ l =>
      option_map (fun cs => [(($"object"), k, VCalls (norm_calls cs))])
        (oconcati (fun _ x => match field_of_val x with Some f => addto T (S (val_depth v)) lb f | None => None end) 0 l)
  | _ => None
  end.

(* NOTE what is absent: the delivery of a value does not depend on what time.Local points to,
   neither when the Field is built nor when it is encoded ([lb] reaches Dict's members only): the
   encoder receives the ORIGINAL time -- same instant, same location *)
Definition expected (lb : Z) (stack : bytes) (nm : name) (t : gty) (k : bytes) (v : val) : option (list call) :=
  let i := intent nm in
  if bytes_eqb i ($"binary") then match v with VBytes _ _ => Some [(($"binary"), k, v)] | _ => None end
  else if bytes_eqb i ($"bytestring") then match v with VBytes _ _ => Some [(($"bytestring"), k, v)] | _ => None end
  else if bytes_eqb i ($"object") then match v with VOpq _ => Some [(($"object"), k, v)] | _ => None end
  else if bytes_eqb i ($"array") then match v with VOpq _ => Some [(($"array"), k, v)] | _ => None end
  else if bytes_eqb i ($"inline") then match v with VOpq _ => Some [(($"inline"), [], v)] | _ => None end
  else if bytes_eqb i ($"reflect") then Some [(($"reflect"), k, v)]
  else if bytes_eqb i ($"stringer") then match v with VOpq o => Some [(($"string"), k, VStr (ostr o))] | _ => None end
  else if bytes_eqb i ($"error") then
    match v with
    | VNil => Some []                        (* nil errors are skipped *)
    | VOpq o => Some (exp_error_field (if bytes_eqb nm ($"Error") then bs ($"error") else k) (oerr o))
    | _ => None
    end
  else if bytes_eqb i ($"skip") then Some []
  else if bytes_eqb i ($"namespace") then Some [(($"namespace"), k, VNil)]
  else if bytes_eqb i ($"stack") then Some [(($"string"), k, VStr stack)]
  else if bytes_eqb i ($"nil") then Some [(($"reflect"), k, VNil)]
  else if bytes_eqb i ($"dict") then exp_dict lb k v
  else exp_typed t k v.

(* zap.Any: the typed constructor of the dynamic type; otherwise the marshaler interfaces, then
   error, then Stringer; otherwise reflection *)
Definition base_name (t : gty) : option name :=
  match t with
  | TBool => Some ($"Bool") | TC128 => Some ($"Complex128") | TC64 => Some ($"Complex64")
  | TF64 => Some ($"Float64") | TF32 => Some ($"Float32") | TString => Some ($"String") | TTime => Some ($"Time")
  | TNum NInt => Some ($"Int") | TNum NInt64 => Some ($"Int64") | TNum NInt32 => Some ($"Int32")
  | TNum NInt16 => Some ($"Int16") | TNum NInt8 => Some ($"Int8")
  | TNum NUint => Some ($"Uint") | TNum NUint64 => Some ($"Uint64") | TNum NUint32 => Some ($"Uint32")
  | TNum NUint16 => Some ($"Uint16") | TNum NUint8 => Some ($"Uint8") | TNum NUintptr => Some ($"Uintptr")
  | TNum NDuration => Some ($"Duration")
  | _ => None
  end.
Definition natural (t : gty) : option name :=
  match t with
  | TBytes => Some ($"Binary")
  | TSlice (TNum NUint8) => None            (* []uint8 IS []byte *)
  | TSlice (TIface IError) => Some ($"Errors")
  | TSlice TField => Some ($"dictField")
  | TPtr t' => option_map (fun b => b ++ ($"p")) (base_name t')
  | TSlice t' => option_map (fun b => b ++ ($"s")) (base_name t')
  | _ => base_name t
  end.
Definition spec_any (t : gty) (impls : list iface) : name :=
  match natural t with
  | Some c => c
  | None =>
      if existsb (iface_eqb IObjM) impls then ($"Object")
      else if existsb (iface_eqb IArrM) impls then ($"Array")
      else if existsb (iface_eqb IError) impls then ($"NamedError")
      else if existsb (iface_eqb IStringer) impls then ($"Stringer")
      else ($"Reflect")
  end.
(* the parameter type under which the chosen constructor sees the value *)
Definition any_param (c : name) (t : gty) : gty :=
  match find_ctor c (t_ctors T) with Some ct => c_param ct | None => t end.

(* a value equals itself (no NaN, no func) -- the guard of Equals' reflexivity for payloads that
   are compared with reflect.DeepEqual *)
Fixpoint self_equal (v : val) : bool :=
  match v with
  | VOpq o => oself o || negb (oaddr o =? 0)
  | VF64 b => negb (f64_nan b)
  | VF32 b => negb (f32_nan b)
  | VC128 r i => negb (f64_nan r) && negb (f64_nan i)
  | VC64 r i => negb (f32_nan r) && negb (f32_nan i)
  | VPtr u | VWrap _ u => self_equal u
  | VRef _ _ _ => false                     (* never stored in a Field *)
  | VSlice a l => negb (a =? 0) || forallb self_equal l
  | VFld _ _ _ _ x => self_equal x
  | VCalls _ => false                       (* not a Go value *)
  | _ => true
  end.
(* which parts of a constructor's input end up as a DeepEqual-compared payload *)
Fixpoint payload_self (t : gty) (v : val) {struct t} : bool :=
  match t, v with
  | (TIface _ | TAddrOf _ | TField), _ => self_equal v
  | TPtr t', VPtr u => payload_self t' u
  | TSlice t', VSlice a l => negb (a =? 0) || forallb (payload_self t') l
  | _, _ => true
  end.

(* the interfaces a case claims for a dynamic type that zap.Any lists must be those of the
   translator's implements table (monitor of the table the Any theorem relies on) *)
Definition has (impls : list iface) (i : iface) : bool := existsb (iface_eqb i) impls.
Definition is_iface (t : gty) : bool := match t with TIface _ => true | _ => false end.
Definition listedb (ty : gty) : bool :=
  existsb (fun e => negb (is_iface (fst e)) && gty_eqb (fst e) ty) (t_any T).
Definition table_impl (ty : gty) (i : iface) : bool :=
  existsb (fun q => gty_eqb (fst q) ty && iface_eqb (snd q) i) (t_implements T).
Definition four : list iface := [IObjM; IArrM; IError; IStringer].
Definition consistentb (ty : gty) (impls : list iface) : bool :=
  negb (listedb ty) || forallb (fun i => Bool.eqb (has impls i) (table_impl ty i)) four.

(* what the constructors put into Field.Interface, per Equals class: the facts Equals relies on *)
Definition fwfb (f : field) : bool :=
  match eq_class T f with
  | QBytes => match f_ifc f with VBytes _ _ => true | _ => false end
  | QComplexBits =>
      match rassoc (f_ty f) (t_ftypes T), f_ifc f with
      | Some ft, VC128 _ _ => bytes_eqb ft ($"Complex128Type")
      | Some ft, VC64 _ _ => bytes_eqb ft ($"Complex64Type")
      | _, _ => false
      end
  | QDeep => true
  | QDefault => match f_ifc f with VNil | VLoc _ | VTime _ => true | _ => false end
  end.
Definition fself (f : field) : bool :=
  match eq_class T f with QDeep => self_equal (f_ifc f) | _ => true end.

(* ==================== wire ==================== *)
Definition ss (b : bytes) : name := b.

(* an error's [einfo]: a plain one is just its message *)
Definition sx_of_optb (o : option bytes) : sx := match o with None => SL [] | Some b => SL [SB b] end.
Fixpoint sx_of_einfo (e : einfo) : sx :=
  match e with
  | EMsg m None None => SB m
  | EMsg m v c =>
      SL [SZ 0; SB m; sx_of_optb v;
          match c with
          | None => SL []
          | Some l => SL [SL (map (fun o => match o with None => SZ 0 | Some x => sx_of_einfo x end) l)]
          end]
  | ENilPanic => SL [SZ 1]
  | EPanic p => SL [SZ 2; SB p]
  end.
Fixpoint einfo_of_sx (s : sx) : einfo :=
  match s with
  | SB m => EMsg m None None
  | SL (SZ tag :: args) =>
      match tag, args with
      | 0, [SB m; v; c] =>
          EMsg m (match v with SL [SB b] => Some b | _ => None end)
                 (match c with
                  | SL [SL l] => Some (map (fun x => match x with SZ _ => None | _ => Some (einfo_of_sx x) end) l)
                  | _ => None
                  end)
      | 1, [] => ENilPanic
      | 2, [SB p] => EPanic p
      | _, _ => eplain []
      end
  | _ => eplain []
  end.

Fixpoint sx_of_val (v : val) : sx :=
  match v with
  | VI z => SL [SZ 0; SZ z]
  | VBool b => SL [SZ 1; of_bool b]
  | VF64 b => SL [SZ 2; SZ b]
  | VF32 b => SL [SZ 3; SZ b]
  | VC128 r i => SL [SZ 4; SZ r; SZ i]
  | VC64 r i => SL [SZ 5; SZ r; SZ i]
  | VStr s => SL [SZ 6; SB s]
  | VBytes n s => SL [SZ 7; of_bool n; SB s]
  | VTime t => SL [SZ 8; SZ (tinst t); SZ (tloc t)]
  | VLoc l => SL [SZ 9; SZ l]
  | VOpq o => SL [SZ 10; SZ (oty o); SZ (oaddr o); SZ (ocontent o); of_bool (ocmp o); of_bool (oself o); SB (ostr o); sx_of_einfo (oerr o)]
  | VNil => SL [SZ 11]
  | VPtr u => SL [SZ 12; sx_of_val u]
  | VRef a i u => SL [SZ 17; SZ a; SZ i; sx_of_val u]
  | VSlice a l => SL [SZ 13; SZ a; SL (map sx_of_val l)]
  | VWrap w u => SL [SZ 14; SB (bs w); sx_of_val u]
  | VFld t k i s x => SL [SZ 15; SZ t; SB k; SZ i; SB s; sx_of_val x]
  | VCalls l => SL [SZ 16; SL (map (fun c => match c with (m, k, x) => SL [SB (bs m); SB k; sx_of_val x] end) l)]
  end.

Fixpoint val_of_sx (s : sx) : val :=
  match s with
  | SL (SZ tag :: args) =>
      match tag, args with
      | 0, [SZ z] => VI z
      | 1, [SZ b] => VBool (negb (b =? 0))
      | 2, [SZ b] => VF64 b
      | 3, [SZ b] => VF32 b
      | 4, [SZ r; SZ i] => VC128 r i
      | 5, [SZ r; SZ i] => VC64 r i
      | 6, [SB b] => VStr b
      | 7, [SZ n; SB b] => VBytes (negb (n =? 0)) b
      | 8, [SZ i; SZ l] => VTime {| tinst := i; tloc := l |}
      | 9, [SZ l] => VLoc l
      | 10, [SZ a; SZ b; SZ c; SZ d; SZ e; SB f; g] =>
          VOpq {| oty := a; oaddr := b; ocontent := c; ocmp := negb (d =? 0); oself := negb (e =? 0); ostr := f;
                  oerr := einfo_of_sx g |}
      | 11, [] => VNil
      | 12, [u] => VPtr (val_of_sx u)
      | 17, [SZ a; SZ i; u] => VRef a i (val_of_sx u)
      | 13, [SZ a; SL l] => VSlice a (map val_of_sx l)
      | 14, [SB w; u] => VWrap (ss w) (val_of_sx u)
      | 15, [SZ t; SB k; SZ i; SB s'; x] => VFld t k i s' (val_of_sx x)
      | 16, [SL l] =>
          VCalls (map (fun c => match c with
                                | SL [SB m; SB k; x] => (ss m, k, val_of_sx x)
                                | _ => (($""), [], VNil)
                                end) l)
      | _, _ => VNil
      end
  | _ => VNil
  end.

Definition num_of_Z (z : Z) : num :=
  match z with
  | 0 => NInt | 1 => NInt64 | 2 => NInt32 | 3 => NInt16 | 4 => NInt8
  | 5 => NUint | 6 => NUint64 | 7 => NUint32 | 8 => NUint16 | 9 => NUint8 | 10 => NUintptr
  | _ => NDuration
  end.
Definition iface_of_Z (z : Z) : iface :=
  match z with 0 => IObjM | 1 => IArrM | 2 => IError | 3 => IStringer | _ => IAny end.
Fixpoint gty_of_sx (s : sx) : gty :=
  match s with
  | SL (SZ tag :: args) =>
      match tag, args with
      | 0, [] => TBool
      | 1, [SZ n] => TNum (num_of_Z n)
      | 2, [] => TF64 | 3, [] => TF32 | 4, [] => TC128 | 5, [] => TC64
      | 6, [] => TString | 7, [] => TBytes | 8, [] => TTime | 9, [] => TLoc
      | 10, [SZ i] => TIface (iface_of_Z i)
      | 11, [t] => TPtr (gty_of_sx t)
      | 12, [t] => TSlice (gty_of_sx t)
      | 13, [] => TField
      | 14, [SZ i] => TAddrOf (iface_of_Z i)
      | 15, [] => TNone
      | 16, [SZ i] => TUser i
      | _, _ => TNone
      end
  | _ => TNone
  end.

Definition sx_of_field (f : field) : sx :=
  sx_of_val (VFld (f_ty f) (f_key f) (f_int f) (f_str f) (f_ifc f)).
Definition sx_of_calls (l : list call) : sx := sx_of_val (VCalls l).
Definition panic_sx : sx := SL [SZ (-1)].

Definition param_of (c : name) : gty :=
  match find_ctor c (t_ctors T) with Some ct => c_param ct | None => TNone end.

Definition sx_of_ores (r : option bool) : sx :=
  SZ (match r with Some false => 0 | Some true => 1 | None => 2 end).

(* cases (every case ends with the ambient pair (la lb): the identity of the location time.Local
   pointed to while the Field(s) were built / while they were encoded; for an Equals pair: while
   the first / the second Field was built):
     (0 #name #key val #stack (la lb))                  -> (field calls) | (-1)
     (1 dynty (iface ...) #key val #typedname (la lb)) -> (anyfield anycalls typedfield equals) | (-1)
     (2 (#name #key val) (#name #key val) (la lb))     -> (r12 r21 r11 r22), r = 0 false | 1 true | 2 panic *)
Definition amb_a (s : sx) : Z := sx_z (sx_nth s 0).
Definition amb_b (s : sx) : Z := sx_z (sx_nth s 1).
Definition dec_triple (s : sx) : name * bytes * val :=
  (ss (sx_b (sx_nth s 0)), sx_b (sx_nth s 1), val_of_sx (sx_nth s 2)).

Definition model (i : sx) : sx :=
  match sx_z (sx_nth i 0) with
  | 0 =>
      let '(c, k, v) := (ss (sx_b (sx_nth i 1)), sx_b (sx_nth i 2), val_of_sx (sx_nth i 3)) in
      match deliver (amb_a (sx_nth i 5)) (amb_b (sx_nth i 5)) (sx_b (sx_nth i 4)) c k v with
      | Some (f, cs) => SL [sx_of_field f; sx_of_calls cs]
      | None => panic_sx
      end
  | 1 =>
      let ty := gty_of_sx (sx_nth i 1) in
      let impls := map (fun s => iface_of_Z (sx_z s)) (sx_l (sx_nth i 2)) in
      let k := sx_b (sx_nth i 3) in
      let v := val_of_sx (sx_nth i 4) in
      let tc := ss (sx_b (sx_nth i 5)) in
      let la := amb_a (sx_nth i 6) in let lb := amb_b (sx_nth i 6) in
      match deliver la lb [] (any_lookup (t_any T) ty impls) k v, construct T ctor_fuel la [] tc k v with
      | Some (f, cs), Some g => SL [sx_of_field f; sx_of_calls cs; sx_of_field g; sx_of_ores (equals T f g)]
      | _, _ => panic_sx
      end
  | _ =>
      let '(c1, k1, v1) := dec_triple (sx_nth i 1) in
      let '(c2, k2, v2) := dec_triple (sx_nth i 2) in
      match construct T ctor_fuel (amb_a (sx_nth i 3)) [] c1 k1 v1, construct T ctor_fuel (amb_b (sx_nth i 3)) [] c2 k2 v2 with
      | Some f, Some g =>
          SL [sx_of_ores (equals T f g); sx_of_ores (equals T g f); sx_of_ores (equals T f f); sx_of_ores (equals T g g)]
      | _, _ => panic_sx
      end
  end.

(* the observed calls, normalised, are exactly the expected ones *)
Definition calls_ok (obs : sx) (exp : option (list call)) : bool :=
  match exp, val_of_sx obs with
  | Some e, VCalls l => sx_eqb (sx_of_calls (norm_calls l)) (sx_of_calls e)
  | _, _ => false
  end.

Definition spec (i o : sx) : bool :=
  match sx_z (sx_nth i 0) with
  | 0 =>
      let '(c, k, v) := (ss (sx_b (sx_nth i 1)), sx_b (sx_nth i 2), val_of_sx (sx_nth i 3)) in
      calls_ok (sx_nth o 1) (expected (amb_b (sx_nth i 5)) (sx_b (sx_nth i 4)) c (param_of c) k v)
  | 1 =>
      let ty := gty_of_sx (sx_nth i 1) in
      let impls := map (fun s => iface_of_Z (sx_z s)) (sx_l (sx_nth i 2)) in
      let k := sx_b (sx_nth i 3) in
      let v := val_of_sx (sx_nth i 4) in
      let tc := ss (sx_b (sx_nth i 5)) in
      let want := spec_any ty impls in
      (* Any delivers what the typed constructor of the dynamic type is specified to deliver ... *)
      consistentb ty impls &&
      calls_ok (sx_nth o 1) (expected (amb_b (sx_nth i 6)) [] want (param_of want) k v) &&
      (* ... and, when that constructor is the one the value was built for, the two Fields are
         identical and compare equal *)
      (if bytes_eqb want tc
       then sx_eqb (sx_nth o 0) (sx_nth o 2) && (negb (payload_self (param_of tc) v) || (sx_z (sx_nth o 3) =? 1))
       else true)
  | _ =>
      let r12 := sx_z (sx_nth o 0) in let r21 := sx_z (sx_nth o 1) in
      let r11 := sx_z (sx_nth o 2) in let r22 := sx_z (sx_nth o 3) in
      let '(c1, k1, v1) := dec_triple (sx_nth i 1) in
      let '(c2, k2, v2) := dec_triple (sx_nth i 2) in
      (* never panics; symmetric; reflexive; equal inputs compare equal -- whatever time.Local
         pointed to when either Field was built *)
      negb (r12 =? 2) && negb (r21 =? 2) && negb (r11 =? 2) && negb (r22 =? 2) &&
      (r12 =? r21) && (r11 =? 1) && (r22 =? 1) &&
      (if sx_eqb (sx_nth i 1) (sx_nth i 2) then r12 =? 1 else true)
  end.

(* well-formed case: a known constructor applied to a value of its parameter type, encoded
   canonically (for Dict: members that AddTo accepts); for zap.Any the same for the constructor
   the specification names and for the typed constructor the case compares with, and interface
   claims that agree with the table; for Equals cases the reflexivity guard (DeepEqual-compared
   payloads equal themselves) -- the cases outside that guard are the known finding
   "equals-deepequal-nonreflexive" *)
Definition canon (s : sx) : bool := sx_eqb (sx_of_val (val_of_sx s)) s.
Definition known (c : name) : bool := match find_ctor c (t_ctors T) with Some _ => true | None => false end.
Definition is_some {A} (o : option A) : bool := match o with Some _ => true | None => false end.
Definition wf_app (lb : Z) (stack : bytes) (c : name) (k : bytes) (v : val) : bool :=
  known c && in_typeb (param_of c) v && is_some (expected lb stack c (param_of c) k v).
Definition wf_triple (lb : Z) (s : sx) : bool :=
  let '(c, k, v) := dec_triple s in
  canon (sx_nth s 2) && wf_app lb [] c k v && payload_self (param_of c) v.
Definition wf (i : sx) : bool :=
  match sx_z (sx_nth i 0) with
  | 0 => canon (sx_nth i 3) &&
         wf_app (amb_b (sx_nth i 5)) (sx_b (sx_nth i 4)) (ss (sx_b (sx_nth i 1))) (sx_b (sx_nth i 2)) (val_of_sx (sx_nth i 3))
  | 1 => let ty := gty_of_sx (sx_nth i 1) in
         let impls := map (fun s => iface_of_Z (sx_z s)) (sx_l (sx_nth i 2)) in
         let k := sx_b (sx_nth i 3) in
         let v := val_of_sx (sx_nth i 4) in
         canon (sx_nth i 4) && consistentb ty impls &&
         wf_app (amb_b (sx_nth i 6)) [] (spec_any ty impls) k v && wf_app (amb_b (sx_nth i 6)) [] (ss (sx_b (sx_nth i 5))) k v
  | _ => wf_triple (amb_b (sx_nth i 3)) (sx_nth i 1) && wf_triple (amb_b (sx_nth i 3)) (sx_nth i 2)
  end.

(* C03 — the small languages in which the translator (gen/c03_*.go) describes
   zap's field constructors (field.go, array.go, error.go, exp/zapfield), the
   Field.AddTo and Field.Equals switches (zapcore/field.go) and the type switch
   of zap.Any, together with their semantics.  No proofs in this file.

   Values.  Integers are unbounded Z; every Go conversion is an explicit [wrap].
   A float is its IEEE bit pattern (math.Float64bits / Float64frombits are the
   identity on patterns, so NaN payloads and -0 are ordinary values); a numeric
   conversion of a float is NOT modelled: [eval] returns None on it, so a
   packing that goes through one can never be certified.  time.Time is the pair
   (instant in ns since the epoch, unbounded; location identity).  The location
   the process-global variable time.Local points to is AMBIENT STATE, not a
   constant: [eval], [construct] and [addto] take it as an input ([e_local]),
   so that a Field built at one moment and encoded at another is modelled with
   two independent values of it (time.Unix(0, n) is "n in the location
   time.Local points to at the moment of the call").  User values
   held in interfaces (marshalers, errors, Stringers, reflected values) are
   opaque records carrying exactly the attributes Go's == and
   reflect.DeepEqual depend on.  An error value additionally carries
   everything an encoder can learn from it ([einfo]): not only what Error()
   returns, but whether calling Error() panics (on a nil pointer or otherwise),
   what %+v prints when the dynamic type is a fmt.Formatter, and the member
   errors when it is an error group (Errors() []error) -- so that "the encoder
   is handed the caller's error" and "the encoder is handed something that
   merely forwards Error()" are different observations. *)
From Coq Require Import List ZArith Bool Lia String.
From Coq.Strings Require Import Byte.
Import ListNotations.
From Zap Require Import Base.Wire.
Local Open Scope Z_scope.

(* Names (constructors, FieldType constants, encoder methods, wrapper types) are byte strings;
   [$"abc"] is the literal, evaluated when the definition is elaborated, so that no Coq [string]
   reaches the extracted code. *)
Definition lit (s : string) : bytes := list_byte_of_string s.
Notation "$ s" := (ltac:(let x := eval vm_compute in (lit s) in exact x))
  (at level 0, s at level 0, only parsing).
Definition name := bytes.

(* ---------- numeric types ---------- *)
Inductive num := NInt | NInt64 | NInt32 | NInt16 | NInt8
               | NUint | NUint64 | NUint32 | NUint16 | NUint8 | NUintptr | NDuration.

Definition num_signed (n : num) : bool :=
  match n with NInt | NInt64 | NInt32 | NInt16 | NInt8 | NDuration => true | _ => false end.
(* 64-bit platform: int, uint, uintptr are 64 bits wide (assumption recorded in props/C03.json) *)
Definition num_width (n : num) : Z :=
  match n with
  | NInt8 | NUint8 => 8 | NInt16 | NUint16 => 16 | NInt32 | NUint32 => 32
  | _ => 64
  end.
Definition wrapsw (s : bool) (w z : Z) : Z :=
  if s then (z + 2 ^ (w - 1)) mod 2 ^ w - 2 ^ (w - 1) else z mod 2 ^ w.
Definition wrap (n : num) (z : Z) : Z := wrapsw (num_signed n) (num_width n) z.
Definition in_sw (s : bool) (w z : Z) : Prop :=
  if s then - 2 ^ (w - 1) <= z < 2 ^ (w - 1) else 0 <= z < 2 ^ w.
Definition in_num (n : num) (z : Z) : Prop := in_sw (num_signed n) (num_width n) z.
Definition in_numb (n : num) (z : Z) : bool :=
  if num_signed n then (- 2 ^ (num_width n - 1) <=? z) && (z <? 2 ^ (num_width n - 1))
  else (0 <=? z) && (z <? 2 ^ num_width n).

Definition num_eqb (a b : num) : bool :=
  match a, b with
  | NInt, NInt | NInt64, NInt64 | NInt32, NInt32 | NInt16, NInt16 | NInt8, NInt8
  | NUint, NUint | NUint64, NUint64 | NUint32, NUint32 | NUint16, NUint16 | NUint8, NUint8
  | NUintptr, NUintptr | NDuration, NDuration => true
  | _, _ => false
  end.

(* ---------- Go types ---------- *)
Inductive iface := IObjM | IArrM | IError | IStringer | IAny.
Definition iface_eqb (a b : iface) : bool :=
  match a, b with
  | IObjM, IObjM | IArrM, IArrM | IError, IError | IStringer, IStringer | IAny, IAny => true
  | _, _ => false
  end.

Inductive gty :=
| TBool | TNum (n : num) | TF64 | TF32 | TC128 | TC64 | TString | TBytes | TTime | TLoc
| TIface (i : iface)
| TPtr (t : gty) | TSlice (t : gty)
| TField                 (* zapcore.Field *)
| TAddrOf (i : iface)    (* a type T such that *T implements i (ObjectValues) *)
| TNone                  (* constructor without a value parameter *)
| TUser (id : Z).        (* any other dynamic type (only in zap.Any cases) *)

Fixpoint gty_eqb (a b : gty) : bool :=
  match a, b with
  | TBool, TBool | TF64, TF64 | TF32, TF32 | TC128, TC128 | TC64, TC64
  | TString, TString | TBytes, TBytes | TTime, TTime | TLoc, TLoc | TField, TField | TNone, TNone => true
  | TNum x, TNum y => num_eqb x y
  | TIface x, TIface y => iface_eqb x y
  | TAddrOf x, TAddrOf y => iface_eqb x y
  | TPtr x, TPtr y => gty_eqb x y
  | TSlice x, TSlice y => gty_eqb x y
  | TUser x, TUser y => Z.eqb x y
  | _, _ => false
  end.

(* ---------- values ---------- *)
(* What an error value exposes (zapcore.encodeError looks at all of it):
     EMsg m v c   Error() returns m; v = Some t: the dynamic type implements fmt.Formatter and
                  fmt.Sprintf("%+v", err) = t; c = Some l: it implements Errors() []error (an error group,
                  go.uber.org/multierr style) and that method returns l (None = a nil member)
     ENilPanic    the value is a nil pointer and calling Error() on it panics (value receiver)
     EPanic p     calling Error() panics with a value that prints (%v) as p, and the error is not a nil pointer *)
Inductive einfo :=
| EMsg (msg : bytes) (verbose : option bytes) (causes : option (list (option einfo)))
| ENilPanic
| EPanic (p : bytes).

(* an error with nothing but a message; also the [oerr] of a value that is not an error at all *)
Definition eplain (m : bytes) : einfo := EMsg m None None.

Record opq := { oty : Z;        (* dynamic type identity *)
                oaddr : Z;      (* identity of the referenced object for pointer/map/slice kinds, 0 for value kinds *)
                ocontent : Z;   (* content class: equal iff structurally equal *)
                ocmp : bool;    (* the dynamic type is comparable (== does not panic) *)
                oself : bool;   (* the content equals itself (no NaN / func inside) *)
                ostr : bytes;   (* what String() returns (oracle shipped with the case) *)
                oerr : einfo }. (* what the value exposes as an error (eplain [] for a non-error) *)

Record timev := { tinst : Z; tloc : Z }.
Definition loc_utc : Z := 0.
Definition loc_local : Z := 1.   (* the location time.Local points to when the process starts *)

Inductive val :=
| VI (z : Z) | VBool (b : bool) | VF64 (b : Z) | VF32 (b : Z)
| VC128 (re im : Z) | VC64 (re im : Z)
| VStr (s : bytes) | VBytes (isnil : bool) (s : bytes)
| VTime (t : timev) | VLoc (l : Z)
| VOpq (o : opq) | VNil | VPtr (v : val)
| VRef (a i : Z) (v : val)                   (* the address of element i of the slice with identity a (&xs[i]); v is what
                                                it points at.  A VPtr, by contrast, is a pointer WITHOUT a known identity:
                                                a pointer parameter the constructor dereferences, or the address of a
                                                private copy (&x of a range variable) *)
| VSlice (addr : Z) (l : list val)           (* addr: identity of the backing array and length, 0 for a nil slice *)
| VWrap (w : name) (v : val)                       (* conversion to a zap-internal named type *)
| VFld (ft : Z) (k : bytes) (i : Z) (s : bytes) (x : val)   (* a zapcore.Field *)
| VCalls (l : list (name * bytes * val)).          (* what a zap-owned marshaler did to its encoder *)

Definition call := (name * bytes * val)%type.

(* ---------- expressions ---------- *)
Inductive expr :=
| EVar                                   (* the constructor's value parameter *)
| EInteger | EString | EInterface        (* f.Integer, f.String, f.Interface *)
| EElem                                  (* the loop element of an array wrapper *)
| ENil                                   (* literal nil *)
| EZ (z : Z)
| EConv (n : num) (e : expr)             (* T(e), T an integer type *)
| EF64bits (e : expr) | EF64from (e : expr) | EF32bits (e : expr) | EF32from (e : expr)
| EIfBool (e : expr)                     (* var i int64; if e { i = 1 } *)
| EEqZ (e : expr) (z : Z)                (* e == z *)
| EDeref (e : expr) | EAddr (e : expr)
| EElemAddr                              (* &xs[i]: the address of the slice element itself (the receiver indexed by
                                            the range key) -- NOT the address of a range value variable, which is a
                                            copy ([EAddr EElem]) *)
| EWrapAs (w : name) (e : expr)        (* w(e), w a zap-internal named slice type *)
| EStrConv (e : expr)                    (* string(e), e of a ~string type *)
| EAssert (t : gty) (e : expr)           (* e.(T) *)
| EUnixNano (e : expr) | ELocation (e : expr)
| ETimeUnix0 (e : expr)                  (* time.Unix(0, e): in the location time.Local points to NOW *)
| ETimeIn (t l : expr)                   (* t.In(l) *)
| EBefore (a b : expr) | EAfter (a b : expr) | EOr (a b : expr)
| EIsNil (e : expr) | ENotNil (e : expr)
| EStringOf (e : expr)                   (* e.String() *)
| EStack.                                (* stacktrace.Take(..): environment-dependent text *)

Record env := { e_var : val; e_int : Z; e_str : bytes; e_ifc : val; e_elem : val; e_stack : bytes;
                e_saddr : Z; e_idx : Z;     (* identity of the slice a wrapper loop ranges over, current index *)
                e_local : Z }.              (* AMBIENT state: the location the process-global variable time.Local
                                               points to AT THE MOMENT the expression is evaluated.  It is not a
                                               constant: a Field is built at one moment and encoded at another, and
                                               time.Local may have been re-pointed in between. *)

Definition is_nilv (v : val) : option bool :=
  match v with
  | VNil => Some true
  | VPtr _ | VRef _ _ _ | VOpq _ | VWrap _ _ | VLoc _ => Some false
  | VSlice a _ => Some (a =? 0)
  | VBytes n _ => Some n
  (* a non-pointer, non-interface value stored in an interface is never nil *)
  | _ => Some false
  end.

(* dynamic type test of a type assertion (only the assertions AddTo performs) *)
Definition has_dyn (t : gty) (v : val) : bool :=
  match t, v with
  | TBytes, VBytes _ _ => true
  | TC128, VC128 _ _ => true
  | TC64, VC64 _ _ => true
  | TTime, VTime _ => true
  | TLoc, VLoc _ => true
  | TIface _, (VOpq _ | VWrap _ _ | VPtr _ | VRef _ _ _) => true
  | _, _ => false
  end.

Fixpoint eval (r : env) (e : expr) : option val :=
  match e with
  | EVar => Some (e_var r)
  | EInteger => Some (VI (e_int r))
  | EString => Some (VStr (e_str r))
  | EInterface => Some (e_ifc r)
  | EElem => Some (e_elem r)
  | ENil => Some VNil
  | EZ z => Some (VI z)
  | EConv n a => match eval r a with Some (VI z) => Some (VI (wrap n z)) | _ => None end
  | EF64bits a => match eval r a with Some (VF64 b) => Some (VI b) | _ => None end
  | EF64from a => match eval r a with
                  | Some (VI b) => if in_numb NUint64 b then Some (VF64 b) else None | _ => None end
  | EF32bits a => match eval r a with Some (VF32 b) => Some (VI b) | _ => None end
  | EF32from a => match eval r a with
                  | Some (VI b) => if in_numb NUint32 b then Some (VF32 b) else None | _ => None end
  | EIfBool a => match eval r a with Some (VBool b) => Some (VI (if b then 1 else 0)) | _ => None end
  | EEqZ a z => match eval r a with Some (VI x) => Some (VBool (x =? z)) | _ => None end
  | EDeref a => match eval r a with Some (VPtr v | VRef _ _ v) => Some v | _ => None end   (* nil dereference: panic *)
  | EAddr a => match eval r a with Some v => Some (VPtr v) | None => None end
  | EElemAddr => Some (VRef (e_saddr r) (e_idx r) (e_elem r))
  | EWrapAs w a => match eval r a with Some v => Some (VWrap w v) | None => None end
  | EStrConv a => match eval r a with Some (VStr s) => Some (VStr s) | _ => None end
  | EAssert t a => match eval r a with Some v => if has_dyn t v then Some v else None | None => None end
  | EUnixNano a => match eval r a with Some (VTime t) => Some (VI (wrap NInt64 (tinst t))) | _ => None end
  | ELocation a => match eval r a with Some (VTime t) => Some (VLoc (tloc t)) | _ => None end
  | ETimeUnix0 a => match eval r a with
                    | Some (VI n) => Some (VTime {| tinst := n; tloc := e_local r |}) | _ => None end
  | ETimeIn a l => match eval r a, eval r l with
                   | Some (VTime t), Some (VLoc x) => Some (VTime {| tinst := tinst t; tloc := x |})
                   | _, _ => None end
  | EBefore a b => match eval r a, eval r b with
                   | Some (VTime x), Some (VTime y) => Some (VBool (tinst x <? tinst y)) | _, _ => None end
  | EAfter a b => match eval r a, eval r b with
                  | Some (VTime x), Some (VTime y) => Some (VBool (tinst y <? tinst x)) | _, _ => None end
  | EOr a b => match eval r a with
               | Some (VBool true) => Some (VBool true)
               | Some (VBool false) => match eval r b with Some (VBool y) => Some (VBool y) | _ => None end
               | _ => None end
  | EIsNil a => match eval r a with Some v => option_map VBool (is_nilv v) | None => None end
  | ENotNil a => match eval r a with Some v => option_map (fun b => VBool (negb b)) (is_nilv v) | None => None end
  | EStringOf a => match eval r a with Some (VOpq o) => Some (VStr (ostr o)) | _ => None end
  | EStack => Some (VStr (e_stack r))
  end.

(* ---------- constructor bodies ---------- *)
Inductive kexpr := KKey | KLit (s : name) | KNone.

Inductive body :=
| BLit (ft : name) (k : kexpr) (i s x : option expr)    (* return Field{Key:, Type:, Integer:, String:, Interface:} *)
| BDeleg (c : name) (k : kexpr) (a : option expr)       (* return c(key, a) *)
| BIf (c : expr) (b1 b2 : body).                          (* if c { b1 }; b2 *)

Record ctor := { c_name : name; c_param : gty; c_body : body }.

(* ---------- AddTo arms and array wrappers ---------- *)
Inductive arm :=
| ACall (m : name) (a : option expr)   (* [err =] enc.M(f.Key[, a]) *)
| AInline (a : expr)                     (* err = a.MarshalLogObject(enc) *)
| AStringer (a : expr)                   (* err = encodeStringer(f.Key, a, enc) *)
| AError (a : expr)                      (* err = encodeError(f.Key, a, enc) *)
| ASkip
| AIf (c : expr) (a b : arm).

Inductive loop :=
| LAppend (m : name) (e : expr)        (* for i := range xs { arr.M(e) } *)
| LAppendErr (m : name) (e : expr)     (* ... if err := arr.M(e); err != nil { return err } *)
| LErrs (k : name)                     (* errArray: nil elements skipped, the others appended as an object
                                            whose marshaler runs Error(e).AddTo(enc), Error's key being k *)
| LFields.                               (* dictObject: for _, f := range d { f.AddTo(enc) } *)

(* Equals switch classes *)
Inductive eqclass := QBytes | QDeep | QComplexBits | QDefault.

Record tables := {
  t_ctors : list ctor;
  t_ftypes : list (name * Z);          (* the FieldType enumeration *)
  t_arms : list (name * arm);          (* AddTo: FieldType name -> arm; anything else panics *)
  t_wrappers : list (name * loop);
  t_eq : list (name * eqclass);        (* Equals: explicit cases; anything else is QDefault *)
  t_any : list (gty * name);           (* zap.Any's type switch in source order; default = Reflect *)
  t_implements : list (gty * iface);     (* which listed concrete type implements which listed interface *)
}.

(* How a function touches a variable that is not in its own frame (Gen/CtorEffects.v, written by
   gen/c03_effects.go): AWrite = assigned to, incremented, or its address taken; ARead = any other
   occurrence.  The obligation over that table and what it guarantees are in C03/Effects.v. *)
Inductive access := ARead | AWrite.

Fixpoint assoc {A} (k : name) (l : list (name * A)) : option A :=
  match l with [] => None | (k', a) :: r => if bytes_eqb k k' then Some a else assoc k r end.
Fixpoint rassoc (z : Z) (l : list (name * Z)) : option name :=
  match l with [] => None | (k, z') :: r => if Z.eqb z z' then Some k else rassoc z r end.
Fixpoint find_ctor (n : name) (l : list ctor) : option ctor :=
  match l with [] => None | c :: r => if bytes_eqb n (c_name c) then Some c else find_ctor n r end.

(* ---------- a Field ---------- *)
Record field := { f_ty : Z; f_key : bytes; f_int : Z; f_str : bytes; f_ifc : val }.

Definition bs (s : name) : bytes := s.
Definition keyv (k : kexpr) (key : bytes) : bytes :=
  match k with KKey => key | KLit s => bs s | KNone => [] end.

Definition env0 (loc : Z) (v : val) (stack : bytes) : env :=
  {| e_var := v; e_int := 0; e_str := []; e_ifc := VNil; e_elem := VNil; e_stack := stack; e_saddr := 0; e_idx := 0;
     e_local := loc |}.

Definition opt_eval (r : env) (o : option expr) (dflt : val) : option val :=
  match o with None => Some dflt | Some e => eval r e end.

(* run a constructor body; [self] interprets delegation *)
Fixpoint run_body (T : tables) (self : name -> bytes -> val -> option field)
         (b : body) (key : bytes) (r : env) : option field :=
  match b with
  | BLit ft k i s x =>
      match assoc ft (t_ftypes T), opt_eval r i (VI 0), opt_eval r s (VStr []), opt_eval r x VNil with
      | Some t, Some (VI iz), Some (VStr sv), Some xv =>
          (* Field.Integer is an int64: the translator only accepts int64-typed expressions there,
             the model checks it *)
          if in_numb NInt64 iz then Some {| f_ty := t; f_key := keyv k key; f_int := iz; f_str := sv; f_ifc := xv |}
          else None
      | _, _, _, _ => None
      end
  | BDeleg c k a =>
      match opt_eval r a VNil with
      | Some v => self c (keyv k key) v
      | None => None
      end
  | BIf c b1 b2 =>
      match eval r c with
      | Some (VBool true) => run_body T self b1 key r
      | Some (VBool false) => run_body T self b2 key r
      | _ => None
      end
  end.

(* [loc]: what time.Local points to while the constructor runs *)
Fixpoint construct (T : tables) (fuel : nat) (loc : Z) (stack : bytes) (c : name) (key : bytes) (v : val) : option field :=
  match fuel with
  | O => None
  | S n =>
      match find_ctor c (t_ctors T) with
      | Some ct => run_body T (construct T n loc stack) (c_body ct) key (env0 loc v stack)
      | None => None
      end
  end.

Definition ctor_fuel : nat := 6.

(* ---------- AddTo ---------- *)
Definition fenv (loc : Z) (f : field) (elem : val) : env :=
  {| e_var := VNil; e_int := f_int f; e_str := f_str f; e_ifc := f_ifc f; e_elem := elem; e_stack := [];
     e_saddr := 0; e_idx := 0; e_local := loc |}.
Definition field_of_val (v : val) : option field :=
  match v with VFld t k i s x => Some {| f_ty := t; f_key := k; f_int := i; f_str := s; f_ifc := x |} | _ => None end.

Fixpoint omap {A B} (f : A -> option B) (l : list A) : option (list B) :=
  match l with
  | [] => Some []
  | a :: r => match f a, omap f r with Some b, Some bs => Some (b :: bs) | _, _ => None end
  end.
Fixpoint oconcat {A B} (f : A -> option (list B)) (l : list A) : option (list B) :=
  match l with
  | [] => Some []
  | a :: r => match f a, oconcat f r with Some b, Some bs => Some (b ++ bs) | _, _ => None end
  end.

(* indexed variant: the function also sees the position of the element *)
Fixpoint oconcati {A B} (f : Z -> A -> option (list B)) (i : Z) (l : list A) : option (list B) :=
  match l with
  | [] => Some []
  | a :: r => match f i a, oconcati f (Z.succ i) r with Some b, Some bs => Some (b ++ bs) | _, _ => None end
  end.

(* iteration i of a wrapper loop over the slice with identity a, whose element i is x *)
Definition elem_env (loc : Z) (a i : Z) (x : val) : env :=
  {| e_var := VNil; e_int := 0; e_str := []; e_ifc := VNil; e_elem := x; e_stack := []; e_saddr := a; e_idx := i;
     e_local := loc |}.

(* ---------- errors ---------- *)
(* zapcore.encodeError(key, err, enc) (zapcore/error.go): the calls it makes on enc and the error it
   returns (None = nil; Some t = an error whose Error() is t).
     - err.Error() is called under a recover: a panic on a nil pointer adds the string "<nil>", any
       other panic p becomes the returned error "PANIC=p" (nothing added);
     - the message is added under key;
     - an error group adds, under key+"Causes", the array of its non-nil members, each as an object
       that is encodeError("error", member); a member whose encoding returns an error ends the array
       (the object is appended with what it got so far) and that error is returned;
     - otherwise a fmt.Formatter whose %+v differs from the message adds it under key+"Verbose". *)
(* the loop of zapcore's errArray over the members of a group: [f] encodes one member into a fresh
   object encoder; nil members are skipped; the object is appended; a member whose encoding returns
   an error ends the loop with that error *)
Definition members (f : einfo -> list call * option bytes) : list (option einfo) -> list call * option bytes :=
  fix go (l : list (option einfo)) : list call * option bytes :=
    match l with
    | [] => ([], None)
    | None :: r => go r
    | Some x :: r =>
        let q := f x in
        match snd q with
        | Some t => ([(($"AppendObject"), [], VCalls (fst q))], Some t)
        | None => let q' := go r in ((($"AppendObject"), [], VCalls (fst q)) :: fst q', snd q')
        end
    end.

Fixpoint enc_error (k : bytes) (e : einfo) : list call * option bytes :=
  match e with
  | ENilPanic => ([(($"AddString"), k, VStr ($"<nil>"))], None)
  | EPanic p => ([], Some (($"PANIC=") ++ p))
  | EMsg m v c =>
      match c with
      | Some l =>
          let r := members (fun x => enc_error ($"error") x) l in
          ([(($"AddString"), k, VStr m); (($"AddArray"), k ++ ($"Causes"), VCalls (fst r))], snd r)
      | None =>
          match v with
          | Some t => if bytes_eqb t m then ([(($"AddString"), k, VStr m)], None)
                      else ([(($"AddString"), k, VStr m); (($"AddString"), k ++ ($"Verbose"), VStr t)], None)
          | None => ([(($"AddString"), k, VStr m)], None)
          end
      end
  end.

(* `err = encodeError(f.Key, e, enc)` followed by AddTo's epilogue
   `if err != nil { enc.AddString(fmt.Sprintf("%sError", f.Key), err.Error()) }` (the translator checks
   the epilogue's text): everything an ErrorType field with key k and payload e adds *)
Definition error_calls (k : bytes) (e : einfo) : list call :=
  let q := enc_error k e in
  fst q ++ match snd q with Some t => [(($"AddString"), k ++ ($"Error"), VStr t)] | None => [] end.

(* MarshalLogArray / MarshalLogObject of a zap-internal wrapper type, on the no-error path
   (the recording encoder never fails): what one element of the loop does, then the loop *)
Definition loop1 (loc : Z) (addto : field -> option (list call)) (l : loop) (a i : Z) (x : val) : option (list call) :=
  match l with
  | LAppend m e | LAppendErr m e =>
      match eval (elem_env loc a i x) e with Some v => Some [(m, [], v)] | None => None end
  | LErrs k =>
      match x with
      | VNil => Some []
      | VOpq o => Some [(($"AppendObject"), [], VCalls (error_calls (bs k) (oerr o)))]
      | _ => None
      end
  | LFields =>
      match field_of_val x with Some f => addto f | None => None end
  end.
Definition run_loop (loc : Z) (addto : field -> option (list call)) (l : loop) (a : Z) (xs : list val) : option (list call) :=
  oconcati (loop1 loc addto l a) 0 xs.

Definition slice_elems (v : val) : option (Z * list val) :=
  match v with VSlice a l => Some (a, l) | _ => None end.

(* what enc.AddArray / enc.AddObject / arr.AppendObject receive: a zap-internal wrapper is
   run (its loop is zap's code), a user marshaler is delivered as it is *)
Definition deliver_marshaler (T : tables) (loc : Z) (addto : field -> option (list call)) (v : val) : option val :=
  match v with
  | VWrap w u =>
      match assoc w (t_wrappers T), slice_elems u with
      | Some l, Some (a, xs) => option_map VCalls (run_loop loc addto l a xs)
      | _, _ => None
      end
  | _ => Some v
  end.

Definition is_marshal_method (m : name) : bool :=
  orb (bytes_eqb m ($"AddArray")) (bytes_eqb m ($"AddObject")).

Fixpoint run_arm (T : tables) (loc : Z) (addto : field -> option (list call)) (a : arm) (f : field) : option (list call) :=
  let r := fenv loc f VNil in
  match a with
  | ACall m None => Some [(m, f_key f, VNil)]
  | ACall m (Some e) =>
      match eval r e with
      | Some v =>
          if is_marshal_method m
          then option_map (fun d => [(m, f_key f, d)]) (deliver_marshaler T loc addto v)
          else Some [(m, f_key f, v)]
      | None => None
      end
  | AInline e =>
      match eval r e with
      | Some (VOpq o) => Some [(($"MarshalLogObject"), [], VOpq o)]
      | Some (VWrap w u) => (* a zap-internal object marshaler inlined: its calls go to enc directly *)
          match deliver_marshaler T loc addto (VWrap w u) with Some (VCalls l) => Some l | _ => None end
      | _ => None
      end
  | AStringer e =>
      match eval r e with
      | Some (VOpq o) => Some [(($"AddString"), f_key f, VStr (ostr o))]
      | _ => None
      end
  | AError e =>
      match eval r e with
      | Some (VOpq o) => Some (error_calls (f_key f) (oerr o))
      | _ => None
      end
  | ASkip => Some []
  | AIf c a1 a2 =>
      match eval r c with
      | Some (VBool true) => run_arm T loc addto a1 f
      | Some (VBool false) => run_arm T loc addto a2 f
      | _ => None
      end
  end.

(* Field.AddTo; None = panic (unknown field type, failed assertion).  [loc]: what time.Local points
   to while the Field is being ENCODED -- in general not what it pointed to when the Field was built *)
Fixpoint addto (T : tables) (fuel : nat) (loc : Z) (f : field) : option (list call) :=
  match fuel with
  | O => None
  | S n =>
      match rassoc (f_ty f) (t_ftypes T) with
      | Some ft => match assoc ft (t_arms T) with
                   | Some a => run_arm T loc (addto T n loc) a f
                   | None => None
                   end
      | None => None
      end
  end.

(* depth of nesting of Dict fields inside a value; AddTo needs that much fuel *)
Fixpoint val_depth (v : val) : nat :=
  match v with
  | VPtr u | VWrap _ u | VRef _ _ u => S (val_depth u)
  | VSlice _ l => S (fold_right (fun x acc => Nat.max (val_depth x) acc) O l)
  | VFld _ _ _ _ x => S (val_depth x)
  | _ => O
  end.

(* ---------- Field.Equals ---------- *)
(* interface == : Some b, or None when Go panics ("comparing uncomparable type") *)
Definition opq_eq (a b : opq) : option bool :=
  if negb (oty a =? oty b) then Some false
  else if negb (ocmp a) then None
  else if negb (oaddr a =? 0) then Some (oaddr a =? oaddr b)
  else Some ((ocontent a =? ocontent b) && oself a && oself b).
Definition opq_deep (a b : opq) : bool :=
  (oty a =? oty b) &&
  ((negb (oaddr a =? 0) && (oaddr a =? oaddr b)) || ((ocontent a =? ocontent b) && oself a && oself b)).

(* a float compares equal to itself unless it is a NaN; +0 == -0 *)
Definition f64_nan (b : Z) : bool := (Z.land b 0x7FF0000000000000 =? 0x7FF0000000000000) && negb (Z.land b 0xFFFFFFFFFFFFF =? 0).
Definition f32_nan (b : Z) : bool := (Z.land b 0x7F800000 =? 0x7F800000) && negb (Z.land b 0x7FFFFF =? 0).
Definition f64_eq (a b : Z) : bool :=
  negb (f64_nan a) && negb (f64_nan b) && ((a =? b) || ((Z.land a 0x7FFFFFFFFFFFFFFF =? 0) && (Z.land b 0x7FFFFFFFFFFFFFFF =? 0))).
Definition f32_eq (a b : Z) : bool :=
  negb (f32_nan a) && negb (f32_nan b) && ((a =? b) || ((Z.land a 0x7FFFFFFF =? 0) && (Z.land b 0x7FFFFFFF =? 0))).

(* == on two interface values as stored in Field.Interface by the constructors *)
Definition ifc_eq (a b : val) : option bool :=
  match a, b with
  | VNil, VNil => Some true
  | VOpq x, VOpq y => opq_eq x y
  | VC128 r1 i1, VC128 r2 i2 => Some (f64_eq r1 r2 && f64_eq i1 i2)
  | VC64 r1 i1, VC64 r2 i2 => Some (f32_eq r1 r2 && f32_eq i1 i2)
  | VLoc x, VLoc y => Some (x =? y)
  | VTime x, VTime y => Some ((tinst x =? tinst y) && (tloc x =? tloc y))
  | VBytes _ _, VBytes _ _ => None                       (* []byte is not comparable *)
  | VWrap w _, VWrap w' _ => if bytes_eqb w w' then None else Some false   (* slice types: not comparable *)
  | VPtr _, VPtr _ => None                               (* not produced by any constructor *)
  | _, _ => Some false                                   (* different dynamic types *)
  end.

Definition cbits_eq (a b : val) : option bool :=
  match a, b with
  | VC128 r1 i1, VC128 r2 i2 => Some ((r1 =? r2) && (i1 =? i2))
  | VC64 r1 i1, VC64 r2 i2 => Some ((r1 =? r2) && (i1 =? i2))
  | _, _ => None
  end.

Fixpoint list_eqb {A} (f : A -> A -> bool) (a b : list A) : bool :=
  match a, b with
  | [], [] => true
  | x :: a', y :: b' => f x y && list_eqb f a' b'
  | _, _ => false
  end.

(* reflect.DeepEqual on interface payloads: user values by their attributes; zap's own
   wrapper slices element-wise (nil and empty slices differ) *)
Fixpoint deep_eq (a b : val) {struct a} : bool :=
  match a, b with
  | VNil, VNil => true
  | VOpq x, VOpq y => opq_deep x y
  | VI x, VI y => x =? y
  | VBool x, VBool y => Bool.eqb x y
  | VF64 x, VF64 y => f64_eq x y
  | VF32 x, VF32 y => f32_eq x y
  | VC128 r1 i1, VC128 r2 i2 => f64_eq r1 r2 && f64_eq i1 i2
  | VC64 r1 i1, VC64 r2 i2 => f32_eq r1 r2 && f32_eq i1 i2
  | VStr x, VStr y => bytes_eqb x y
  | VBytes n x, VBytes m y => Bool.eqb n m && bytes_eqb x y
  | VTime x, VTime y => (tinst x =? tinst y) && (tloc x =? tloc y)
  | VLoc x, VLoc y => x =? y
  | VPtr x, VPtr y => deep_eq x y
  | VWrap w x, VWrap w' y => bytes_eqb w w' && deep_eq x y
  | VSlice n x, VSlice m y =>
      (* nil and empty slices differ; the same backing array and length is equal without looking
         at the elements (so NaN elements do not matter) *)
      Bool.eqb (n =? 0) (m =? 0) &&
      (negb (n =? 0) && (n =? m) ||
      (fix go (x y : list val) {struct x} : bool :=
         match x, y with
         | [], [] => true
         | p :: x', q :: y' => deep_eq p q && go x' y'
         | _, _ => false
         end) x y)
  | VFld t k i s x, VFld t' k' i' s' x' =>
      (t =? t') && bytes_eqb k k' && (i =? i') && bytes_eqb s s' && deep_eq x x'
  | _, _ => false
  end.

Definition eq_class (T : tables) (f : field) : eqclass :=
  match rassoc (f_ty f) (t_ftypes T) with
  | Some ft => match assoc ft (t_eq T) with Some q => q | None => QDefault end
  | None => QDefault
  end.

(* Field.Equals: Some b, or None when it panics *)
Definition equals (T : tables) (f g : field) : option bool :=
  if negb (f_ty f =? f_ty g) then Some false
  else if negb (bytes_eqb (f_key f) (f_key g)) then Some false
  else match eq_class T f with
       | QBytes => match f_ifc f, f_ifc g with
                   | VBytes _ x, VBytes _ y => Some (bytes_eqb x y)
                   | _, _ => None     (* failed type assertion *)
                   end
       | QDeep => Some (deep_eq (f_ifc f) (f_ifc g))
       | QComplexBits => cbits_eq (f_ifc f) (f_ifc g)
       | QDefault =>
           (* f == other: Key and Type are already equal; struct == compares Integer, String, Interface
              in that order and stops at the first difference, so an uncomparable Interface only
              panics when the fields before it are equal *)
           if negb (f_int f =? f_int g) then Some false
           else if negb (bytes_eqb (f_str f) (f_str g)) then Some false
           else ifc_eq (f_ifc f) (f_ifc g)
       end.

(* C03 — fixed-width conversions: the low-bits theorem.
   A chain of integer conversions T0 -> T1 -> ... -> Tn -> T0' (T0' of the width and signedness
   of T0) is the identity on T0 iff every intermediate width is >= the width of T0. *)
From Coq Require Import List ZArith Bool Lia.
Import ListNotations.
From Zap Require Import Base.Wire C03.Lang.
Local Open Scope Z_scope.

Lemma num_width_pos n : 0 < num_width n.
Proof. destruct n; cbn; lia. Qed.

Lemma pow2_pos w : 0 <= w -> 0 < 2 ^ w.
Proof. intros; apply Z.pow_pos_nonneg; lia. Qed.

Lemma pow2_split w : 0 < w -> 2 ^ w = 2 * 2 ^ (w - 1).
Proof. intros. replace w with (Z.succ (w - 1)) at 1 by lia. rewrite Z.pow_succ_r by lia. reflexivity. Qed.

Lemma wrapsw_range s w z : 0 < w -> in_sw s w (wrapsw s w z).
Proof.
  intros Hw. unfold in_sw, wrapsw. pose proof (pow2_pos w ltac:(lia)) as Hp.
  pose proof (pow2_split w Hw) as Hs. destruct s.
  - pose proof (Z.mod_pos_bound (z + 2 ^ (w - 1)) (2 ^ w) Hp). lia.
  - apply Z.mod_pos_bound; lia.
Qed.

Lemma wrapsw_id s w z : 0 < w -> in_sw s w z -> wrapsw s w z = z.
Proof.
  intros Hw H. unfold in_sw, wrapsw in *. pose proof (pow2_split w Hw) as Hs. destruct s.
  - rewrite Z.mod_small by lia. lia.
  - apply Z.mod_small; lia.
Qed.

(* a conversion keeps the residue modulo 2^width *)
Lemma wrapsw_mod s w z : 0 < w -> (wrapsw s w z) mod 2 ^ w = z mod 2 ^ w.
Proof.
  intros Hw. unfold wrapsw. pose proof (pow2_pos w ltac:(lia)) as Hp. pose proof (pow2_split w Hw) as Hs.
  destruct s.
  - rewrite Zminus_mod, Z.mod_mod by lia. rewrite <- Zminus_mod. f_equal. lia.
  - apply Z.mod_mod; lia.
Qed.

Lemma mod_mod_pow a v w : 0 <= v <= w -> (a mod 2 ^ w) mod 2 ^ v = a mod 2 ^ v.
Proof.
  intros H. replace w with (v + (w - v)) by lia. rewrite Z.pow_add_r by lia.
  pose proof (pow2_pos v ltac:(lia)). pose proof (pow2_pos (w - v) ltac:(lia)).
  rewrite Z.rem_mul_r by lia. rewrite Z.mul_comm, Z.mod_add by lia. apply Z.mod_mod; lia.
Qed.

(* residues modulo a smaller power of two survive a conversion to a wider type *)
Lemma wrapsw_mod_le s w v z : 0 < v <= w -> (wrapsw s w z) mod 2 ^ v = z mod 2 ^ v.
Proof.
  intros H. rewrite <- (mod_mod_pow (wrapsw s w z) v w) by lia.
  rewrite wrapsw_mod by lia. apply mod_mod_pow; lia.
Qed.

(* the value of a conversion only depends on the residue modulo 2^width *)
Lemma wrapsw_congr s w a b : 0 < w -> a mod 2 ^ w = b mod 2 ^ w -> wrapsw s w a = wrapsw s w b.
Proof.
  intros Hw H. unfold wrapsw. pose proof (pow2_pos w ltac:(lia)) as Hp. destruct s.
  - f_equal. rewrite (Zplus_mod a), (Zplus_mod b), H by lia. reflexivity.
  - exact H.
Qed.

Lemma in_sw_mod_eq s w a b : 0 < w -> in_sw s w a -> in_sw s w b -> a mod 2 ^ w = b mod 2 ^ w -> a = b.
Proof.
  intros Hw Ha Hb H. rewrite <- (wrapsw_id s w a Hw Ha), <- (wrapsw_id s w b Hw Hb).
  apply wrapsw_congr; assumption.
Qed.

(* ---------- chains ---------- *)
Definition run_chain (ch : list num) (z : Z) : Z := fold_left (fun a n => wrap n a) ch z.

Definition same_sw (a b : num) : bool := Bool.eqb (num_signed a) (num_signed b) && (num_width a =? num_width b).
(* every intermediate width >= the width of the source type *)
Definition chain_ok (t0 : num) (ch : list num) : bool := forallb (fun n => num_width t0 <=? num_width n) ch.

Lemma run_chain_mod t0 ch z : chain_ok t0 ch = true ->
  (run_chain ch z) mod 2 ^ num_width t0 = z mod 2 ^ num_width t0.
Proof.
  revert z. induction ch as [|n ch IH]; intros z H; cbn in *; [reflexivity|].
  apply andb_true_iff in H as [Hn Hc]. apply Z.leb_le in Hn.
  unfold run_chain in IH. rewrite IH by assumption. unfold wrap.
  apply wrapsw_mod_le. pose proof (num_width_pos t0). lia.
Qed.

Lemma in_num_sw n z : in_num n z <-> in_sw (num_signed n) (num_width n) z.
Proof. reflexivity. Qed.

Lemma in_numb_iff n z : in_numb n z = true <-> in_num n z.
Proof.
  unfold in_numb, in_num, in_sw. destruct (num_signed n); rewrite andb_true_iff, Z.leb_le, Z.ltb_lt; tauto.
Qed.

Lemma in_numb_wrap n z : in_numb n (wrap n z) = true.
Proof. apply in_numb_iff. apply wrapsw_range, num_width_pos. Qed.

Lemma wrap_id n z : in_num n z -> wrap n z = z.
Proof. apply wrapsw_id, num_width_pos. Qed.

(* LOW-BITS THEOREM, "if": T0 -> chain -> T0' is the identity on T0 *)
Theorem lowbits_sound t0 t0' ch z :
  same_sw t0 t0' = true -> chain_ok t0 ch = true -> in_num t0 z ->
  run_chain (ch ++ [t0']) z = z.
Proof.
  intros Hs Hc Hz. unfold run_chain. rewrite fold_left_app. cbn [fold_left]. fold (run_chain ch z).
  apply andb_true_iff in Hs as [Hsg Hw]. apply Bool.eqb_prop in Hsg. apply Z.eqb_eq in Hw.
  apply (in_sw_mod_eq (num_signed t0) (num_width t0)); [apply num_width_pos| | assumption |].
  - rewrite Hsg, Hw. apply wrapsw_range, num_width_pos.
  - rewrite Hw. unfold wrap. rewrite wrapsw_mod by apply num_width_pos.
    rewrite <- Hw. apply run_chain_mod; assumption.
Qed.

(* "only if": a narrower intermediate type loses a value of T0 *)
Lemma run_chain_congr ch : forall w a b,
  0 < w -> forallb (fun n => w <=? num_width n) ch = true ->
  a mod 2 ^ w = b mod 2 ^ w -> (run_chain ch a) mod 2 ^ w = (run_chain ch b) mod 2 ^ w.
Proof.
  induction ch as [|n ch IH]; intros w a b Hw H Hab; cbn in *; [assumption|].
  apply andb_true_iff in H as [Hn Hc]. apply Z.leb_le in Hn.
  apply IH; try assumption. unfold wrap. rewrite !wrapsw_mod_le by lia. assumption.
Qed.

(* the first type of the chain narrower than w0 *)
Fixpoint split_narrow (w0 : Z) (ch : list num) : option (list num * num * list num) :=
  match ch with
  | [] => None
  | n :: r => if num_width n <? w0 then Some ([], n, r)
              else match split_narrow w0 r with
                   | Some (p, m, q) => Some (n :: p, m, q)
                   | None => None
                   end
  end.

Lemma split_narrow_none w0 ch : split_narrow w0 ch = None -> forallb (fun n => w0 <=? num_width n) ch = true.
Proof.
  induction ch as [|n r IH]; cbn; [reflexivity|]. destruct (num_width n <? w0) eqn:E; [discriminate|].
  destruct (split_narrow w0 r) as [[[p m] q]|]; [discriminate|]. intros _.
  apply Z.ltb_ge in E. rewrite IH by reflexivity. apply Z.leb_le in E. rewrite E. reflexivity.
Qed.

Lemma split_narrow_some w0 ch p m q : split_narrow w0 ch = Some (p, m, q) ->
  ch = p ++ m :: q /\ num_width m < w0 /\ forallb (fun n => w0 <=? num_width n) p = true.
Proof.
  revert p. induction ch as [|n r IH]; intros p; cbn; [discriminate|].
  destruct (num_width n <? w0) eqn:E.
  - intros [= <- <- <-]. apply Z.ltb_lt in E. repeat split; assumption.
  - destruct (split_narrow w0 r) as [[[p' m'] q']|] eqn:S; [|discriminate]. intros [= <- <- <-].
    destruct (IH p' eq_refl) as (-> & Hm & Hp). repeat split; try assumption.
    cbn. apply Z.ltb_ge in E. apply Z.leb_le in E. rewrite E. assumption.
Qed.

Theorem lowbits_complete t0 ch t0' :
  chain_ok t0 ch = false ->
  exists z, in_num t0 z /\ run_chain (ch ++ [t0']) z <> z.
Proof.
  intros Hc. set (w0 := num_width t0).
  destruct (split_narrow w0 ch) as [[[p m] q]|] eqn:S.
  2:{ apply split_narrow_none in S. unfold chain_ok in Hc. fold w0 in Hc. congruence. }
  apply split_narrow_some in S as (-> & Hm & Hp).
  pose proof (num_width_pos m) as Hmp. pose proof (num_width_pos t0) as H0p. fold w0 in H0p.
  (* two members of T0 that agree modulo 2^(width m): 0 and (+/-) 2^(width m) *)
  set (z2 := if num_signed t0 then - 2 ^ num_width m else 2 ^ num_width m).
  assert (Hz2 : in_num t0 z2).
  { unfold in_num, in_sw, z2. fold w0. pose proof (pow2_pos (num_width m) ltac:(lia)).
    destruct (num_signed t0).
    - assert (2 ^ num_width m <= 2 ^ (w0 - 1)) by (apply Z.pow_le_mono_r; lia). lia.
    - assert (2 ^ num_width m < 2 ^ w0) by (apply Z.pow_lt_mono_r; lia). lia. }
  assert (Hz0 : in_num t0 0).
  { unfold in_num, in_sw. fold w0. pose proof (pow2_pos (w0 - 1) ltac:(lia)). pose proof (pow2_pos w0 ltac:(lia)).
    destruct (num_signed t0); lia. }
  assert (Hne : z2 <> 0).
  { unfold z2. pose proof (pow2_pos (num_width m) ltac:(lia)). destruct (num_signed t0); lia. }
  assert (Hcong : z2 mod 2 ^ num_width m = 0 mod 2 ^ num_width m).
  { unfold z2. pose proof (pow2_pos (num_width m) ltac:(lia)). rewrite Z.mod_0_l by lia.
    destruct (num_signed t0).
    - apply Z.mod_opp_l_z; [lia|]. apply Z.mod_same; lia.
    - apply Z.mod_same; lia. }
  (* both are mapped to the same value *)
  assert (Hsame : run_chain ((p ++ m :: q) ++ [t0']) z2 = run_chain ((p ++ m :: q) ++ [t0']) 0).
  { unfold run_chain. rewrite <- !app_assoc. cbn [app]. rewrite !fold_left_app. cbn [fold_left].
    fold (run_chain p z2) (run_chain p 0). f_equal. unfold wrap. apply wrapsw_congr; [assumption|].
    apply run_chain_congr; try assumption.
    eapply forallb_forall. intros n Hn. rewrite forallb_forall in Hp. specialize (Hp n Hn).
    apply Z.leb_le in Hp. apply Z.leb_le. lia. }
  destruct (Z.eq_dec (run_chain ((p ++ m :: q) ++ [t0']) 0) 0) as [E0|E0].
  - exists z2. split; [assumption|]. rewrite Hsame, E0. congruence.
  - exists 0. split; assumption.
Qed.

Theorem lowbits t0 t0' ch : same_sw t0 t0' = true ->
  (chain_ok t0 ch = true <-> forall z, in_num t0 z -> run_chain (ch ++ [t0']) z = z).
Proof.
  intros Hs. split.
  - intros Hc z Hz. apply (lowbits_sound t0); assumption.
  - intros H. destruct (chain_ok t0 ch) eqn:E; [reflexivity|].
    destruct (lowbits_complete t0 ch t0' E) as (z & Hz & Hne). elim Hne. apply H; assumption.
Qed.

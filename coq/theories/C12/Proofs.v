(* C12 -- proofs.  Plan: (1) over a reliable sink the concrete model (bufio + BufferedWriteSyncer,
   fuel, outcome scripts) is shown equal, step by step, to an abstract machine on
   (buffered bytes, phase) [step_abs]; (2) the property's invariants (whole-write grouping,
   bound, sync postcondition, lifecycle, acceptance by the executable oracle) are proved of
   the abstract machine by induction over histories; (3) for arbitrary outcome scripts the
   stream-integrity invariant is proved directly on the concrete model [bflush_weak,
   bwrite_weak, step_weak]; (4) witnesses for the failing variants; (5) the wire theorem. *)
From Coq Require Import List ZArith Bool Arith Lia.
From Coq.Strings Require Import Byte.
Import ListNotations.
From Zap Require Import Base.Wire C12.Model.

Lemma eff_size_pos c : 0 < eff_size c.
Proof. unfold eff_size. destruct (c =? 0)%Z eqn:E0; [lia|]. destruct (c <? 0)%Z eqn:E1; [lia|].
  apply Z.eqb_neq in E0. apply Z.ltb_ge in E1. lia. Qed.
Global Opaque eff_size.

Lemma is_nil_true {A} (l : list A) : is_nil l = true <-> l = [].
Proof. destruct l; cbn; split; congruence. Qed.
Lemma is_nil_false {A} (l : list A) : is_nil l = false <-> l <> [].
Proof. destruct l; cbn; split; congruence. Qed.

(* ---------- reliable sink ---------- *)
Lemma reliable_tl k : reliable k = true -> reliable (tl k) = true.
Proof. destruct k as [|o r]; cbn; [auto|]. intros H. apply andb_true_iff in H. tauto. Qed.
Lemma next_out_rel k : reliable k = true -> o_short (next_out k) = None /\ o_err (next_out k) = false.
Proof. destruct k as [|o r]; cbn; [auto|]. intros H. apply andb_true_iff in H as [H _].
  unfold is_ok in H. destruct (o_short o); [discriminate|]. split; [reflexivity|]. now apply negb_true_iff in H. Qed.
Lemma sink_write_rel k p : reliable k = true -> sink_write k p = (length p, 0, [EW p (length p)], tl k).
Proof. intros H. unfold sink_write. destruct (next_out_rel k H) as [-> ->]. reflexivity. Qed.
Lemma sink_sync_rel k : reliable k = true -> sink_sync k = (0, [ES], tl k).
Proof. intros H. unfold sink_sync. destruct (next_out_rel k H) as [_ ->]. reflexivity. Qed.

Definition clr (b : bufio) : bufio := set_buf b [] 0.
Definition flush_evs (x : bytes) : list ev := if is_nil x then [] else [EW x (length x)].

Lemma bflush_rel b k : berr b = 0 -> reliable k = true ->
  exists k', reliable k' = true /\ bflush b k = (0, clr b, flush_evs (buf b), k').
Proof. intros He Hk. unfold bflush, flush_evs. rewrite He. cbn [Nat.eqb negb].
  destruct (is_nil (buf b)) eqn:E.
  - exists k. split; [exact Hk|]. apply is_nil_true in E. unfold clr, set_buf. destruct b as [sz bf be]; cbn in *. now subst.
  - rewrite (sink_write_rel k (buf b) Hk). rewrite Nat.ltb_irrefl. cbn [andb Nat.eqb].
    exists (tl k). split; [now apply reliable_tl|reflexivity]. Qed.

Lemma bwrite_fits f b k p : berr b = 0 -> length p <= avail b ->
  bwrite (S f) b k p = (length p, 0, set_buf b (buf b ++ p) 0, [], k).
Proof. intros He Hl. cbn [bwrite]. apply Nat.ltb_ge in Hl. rewrite Hl, He. reflexivity. Qed.

Lemma bwrite_big f b k p : berr b = 0 -> buf b = [] -> avail b < length p -> reliable k = true ->
  bwrite (S (S f)) b k p = (length p, 0, clr b, [EW p (length p)], tl k).
Proof. intros He Hb Hl Hk. cbn [bwrite]. apply Nat.ltb_lt in Hl. rewrite Hl, He, Hb. cbn [andb Nat.eqb is_nil].
  rewrite (sink_write_rel k p Hk). rewrite skipn_all. cbn [length set_buf size buf berr avail].
  cbn [Nat.ltb Nat.leb andb Nat.eqb negb app]. unfold clr, set_buf. rewrite Nat.add_0_r. reflexivity. Qed.
Definition mkb (sz : nat) (x : bytes) : bufio := {| size := sz; buf := x; berr := 0 |}.
Lemma mkb_eta b : berr b = 0 -> b = mkb (size b) (buf b).
Proof. destruct b; cbn; intros ->; reflexivity. Qed.

Definition RInv (s : st) : Prop :=
  reliable (k s) = true /\ berr (w s) = 0 /\ length (buf (w s)) <= size (w s) /\
  (inited s = false -> buf (w s) = [] /\ stopped s = false /\ loop s = false) /\
  (inited s = true -> size (w s) = eff_size (cfg s) /\ loop s = negb (stopped s)) /\
  (stopped s = true -> buf (w s) = []).

Definition s_init (s : st) : st := if inited s then s else initialize s.
Lemma s_init_inv s : RInv s -> RInv (s_init s) /\ inited (s_init s) = true /\ cfg (s_init s) = cfg s /\
  stopped (s_init s) = stopped s /\ k (s_init s) = k s /\ buf (w (s_init s)) = buf (w s).
Proof. intros HR. pose proof HR as (Hk & He & Hl & Hu & Hi & Hs). unfold s_init. destruct (inited s) eqn:E.
  - split; [exact HR|]. repeat split; auto.
  - destruct (Hu eq_refl) as (Hb & Hst & Hlo). split.
    + unfold RInv, initialize. cbn. rewrite Hst. repeat split; auto; try lia; try discriminate.
    + unfold initialize. cbn. repeat split; auto. Qed.

(* what Write does, spelled out on (size, buffered bytes, stopped) *)
Definition w_pre (sz : nat) (b bs : bytes) : bool := (sz - length b <? length bs) && negb (is_nil b).
Definition w_b1 sz b bs : bytes := if w_pre sz b bs then [] else b.
Definition w_big sz b bs : bool := sz - length (w_b1 sz b bs) <? length bs.
Definition w_b2 sz b bs : bytes := if w_big sz b bs then [] else w_b1 sz b bs ++ bs.
Definition w_evs (stp : bool) sz b bs : list ev :=
  flush_evs (if w_pre sz b bs then b else []) ++ (if w_big sz b bs then [EW bs (length bs)] else []) ++
  (if stp then flush_evs (w_b2 sz b bs) else []).
Definition w_b3 (stp : bool) sz b bs : bytes := if stp then [] else w_b2 sz b bs.

Lemma write_rel s bs : RInv s ->
  let s0 := s_init s in let sz := size (w s0) in let b := buf (w s0) in
  exists k', reliable k' = true /\
    bws_write true s bs = (upd s0 (mkb sz (w_b3 (stopped s0) sz b bs)) k', RW (length bs) 0, w_evs (stopped s0) sz b bs).
Proof. intros HR. destruct (s_init_inv s HR) as (HR0 & Hin & _). intros s0 sz b. fold s0 in HR0, Hin.
  destruct HR0 as (Hk & He & Hl & _ & _ & Hs).
  unfold bws_write. fold (s_init s). fold s0. unfold avail. fold sz b. fold (w_pre sz b bs).
  assert (Hw : w s0 = mkb sz b) by (apply mkb_eta; exact He).
  (* stage 1: optional pre-flush *)
  assert (S1 : exists k1, reliable k1 = true /\
     (if w_pre sz b bs then bflush (w s0) (k s0) else (0, w s0, [], k s0)) =
       (0, mkb sz (w_b1 sz b bs), flush_evs (if w_pre sz b bs then b else []), k1)).
  { unfold w_b1. destruct (w_pre sz b bs) eqn:P.
    - destruct (bflush_rel (w s0) (k s0) He Hk) as (k1 & Hk1 & ->). exists k1. split; [exact Hk1|]. reflexivity.
    - exists (k s0). split; [exact Hk|]. now rewrite Hw. }
  destruct S1 as (k1 & Hk1 & ->). cbn [Nat.eqb negb].
  (* stage 2: bufio.Write on (size, b1) where b1 = [] or bs fits *)
  assert (S2 : exists k2, reliable k2 = true /\
     bwrite (wfuel bs) (mkb sz (w_b1 sz b bs)) k1 bs =
       (length bs, 0, mkb sz (w_b2 sz b bs), (if w_big sz b bs then [EW bs (length bs)] else []), k2)).
  { unfold wfuel, w_b2. fold (w_big sz b bs). unfold w_big. destruct (sz - length (w_b1 sz b bs) <? length bs) eqn:G.
    - assert (Hb1 : w_b1 sz b bs = []).
      { unfold w_b1 in *. destruct (w_pre sz b bs) eqn:P; [reflexivity|]. unfold w_pre in P. fold b in Hl.
        apply andb_false_iff in P as [P|P]; [rewrite P in G; discriminate|]. apply negb_false_iff, is_nil_true in P. exact P. }
      rewrite Hb1 in *. exists (tl k1). split; [now apply reliable_tl|].
      apply Nat.ltb_lt in G. rewrite bwrite_big; auto.
    - exists k1. split; [exact Hk1|]. apply Nat.ltb_ge in G. rewrite bwrite_fits; auto. }
  destruct S2 as (k2 & Hk2 & ->). cbn [Nat.eqb andb]. unfold w_evs, w_b3.
  destruct (stopped s0) eqn:St; cbn [andb].
  - destruct (bflush_rel (mkb sz (w_b2 sz b bs)) k2 eq_refl Hk2) as (k3 & Hk3 & ->). exists k3. split; [exact Hk3|]. reflexivity.
  - exists k2. split; [exact Hk2|]. now rewrite app_nil_r. Qed.
Definition sync_evs (b : bytes) : list ev := flush_evs b ++ [ES].

Lemma sync_rel s : RInv s -> exists k', reliable k' = true /\
  bws_sync s = (0, upd s (mkb (size (w s)) []) k', sync_evs (buf (w s))).
Proof. intros (Hk & He & Hl & Hu & Hi & Hs). unfold bws_sync, sync_evs. destruct (inited s) eqn:E.
  - destruct (bflush_rel (w s) (k s) He Hk) as (k1 & Hk1 & ->). rewrite (sink_sync_rel k1 Hk1).
    exists (tl k1). split; [now apply reliable_tl|reflexivity].
  - destruct (Hu eq_refl) as (Hb & _). rewrite (sink_sync_rel (k s) Hk). exists (tl (k s)). split; [now apply reliable_tl|].
    rewrite Hb. cbn. f_equal. f_equal. f_equal. rewrite (mkb_eta (w s) He) at 1. now rewrite Hb. Qed.

(* ---------- the abstract machine: (buffered bytes, phase) ---------- *)
Definition phase_of (s : st) : phase := if negb (inited s) then Fresh else if stopped s then Stopped else Running.
Definition is_stopped (p : phase) : bool := match p with Stopped => true | _ => false end.
Definition astep (sz : nat) (a : bytes * phase) (o : op) : (bytes * phase) * res * list ev :=
  let '(b, p) := a in
  match o with
  | Write bs => ((w_b3 (is_stopped p) sz b bs, match p with Fresh => Running | _ => p end),
                 RW (length bs) 0, w_evs (is_stopped p) sz b bs)
  | Sync => (([], p), RS 0, sync_evs b)
  | Tick => if is_running p then (([], p), RT true, sync_evs b) else ((b, p), RT false, [])
  | Stop => match p with
            | Fresh => ((b, p), RStop 0, [])
            | Stopped => ((b, p), RStop 0, [ES])
            | Running => (([], Stopped), RStop 0, sync_evs b)
            end
  end.
Fixpoint arun (sz : nat) (a : bytes * phase) (ops : list op) : (bytes * phase) * list (res * list ev) :=
  match ops with
  | [] => (a, [])
  | o :: r => let '(a1, rs, es) := astep sz a o in let '(a2, tr) := arun sz a1 r in (a2, (rs, es) :: tr)
  end.
Definition abs (s : st) : bytes * phase := (buf (w s), phase_of s).

Ltac rinv Hu Hi :=
  repeat split; auto; try lia; try discriminate;
  try (match goal with H : inited _ = false |- _ => destruct (Hu H) as (? & ? & ?); first [now auto | congruence] end);
  try (match goal with H : inited _ = true |- _ => destruct (Hi H) as (? & ?); first [now auto | congruence] end).

Lemma step_abs s o : RInv s ->
  let '(s1, r, es) := step s o in
  RInv s1 /\ cfg s1 = cfg s /\ astep (eff_size (cfg s)) (abs s) o = (abs s1, r, es).
Proof. intros HR. pose proof HR as (Hk & He & Hl & Hu & Hi & Hs). destruct o as [bs| | |]; unfold step; cbn [step_gen].
  - (* Write *)
    destruct (s_init_inv s HR) as (HR0 & Hin & Hc & Hst & Hk0 & Hb0).
    destruct (write_rel s bs HR) as (k' & Hk' & ->).
    pose proof HR0 as (_ & _ & Hl0 & _ & Hi0 & Hs0). destruct (Hi0 Hin) as (Hsz & Hlo).
    rewrite Hc in Hsz. rewrite Hsz, Hb0, Hst. rewrite Hb0, Hsz in Hl0.
    assert (Hph : is_stopped (phase_of s) = stopped s).
    { unfold phase_of. destruct (inited s) eqn:E; cbn; [destruct (stopped s); reflexivity|]. destruct (Hu eq_refl) as (_ & -> & _). reflexivity. }
    assert (Hbnd : length (w_b3 (stopped s) (eff_size (cfg s)) (buf (w s)) bs) <= eff_size (cfg s)).
    { unfold w_b3. destruct (stopped s); [cbn; lia|]. unfold w_b2, w_big. 
      destruct (eff_size (cfg s) - length (w_b1 (eff_size (cfg s)) (buf (w s)) bs) <? length bs) eqn:G; [cbn; lia|].
      apply Nat.ltb_ge in G. rewrite app_length. 
      assert (length (w_b1 (eff_size (cfg s)) (buf (w s)) bs) <= eff_size (cfg s)); [|lia].
      unfold w_b1. destruct (w_pre _ _ _); [cbn; lia|]. exact Hl0. }
    split; [|split].
    + unfold RInv, upd; cbn. rewrite Hin, Hst. repeat split; auto; try discriminate.
      * now rewrite Hc.
      * now rewrite Hlo, Hst.
      * intros St. unfold w_b3. now rewrite St.
    + cbn. exact Hc.
    + unfold abs, astep. cbn [upd w buf mkb]. rewrite Hph. f_equal. f_equal. f_equal.
      unfold phase_of. cbn [upd inited stopped]. rewrite Hin, Hst. cbn.
      destruct (inited s) eqn:E; cbn; [destruct (stopped s); reflexivity|]. destruct (Hu eq_refl) as (_ & -> & _). reflexivity.
  - (* Sync *)
    destruct (sync_rel s HR) as (k' & Hk' & ->). split; [|split; [reflexivity|]].
    + unfold RInv, upd; cbn. rinv Hu Hi.
    + reflexivity.
  - (* Tick *)
    assert (Hrun : is_running (phase_of s) = loop s).
    { unfold phase_of. destruct (inited s) eqn:E; cbn.
      - destruct (Hi eq_refl) as (_ & ->). destruct (stopped s); reflexivity.
      - destruct (Hu eq_refl) as (_ & _ & ->). reflexivity. }
    unfold abs, astep. rewrite Hrun. destruct (loop s) eqn:L.
    + destruct (sync_rel s HR) as (k' & Hk' & ->). split; [|split; [reflexivity|]].
      * unfold RInv, upd; cbn. rinv Hu Hi.
      * reflexivity.
    + split; [exact HR|split; reflexivity].
  - (* Stop *)
    unfold bws_stop, abs, astep, phase_of. destruct (inited s) eqn:E; cbn [negb].
    + destruct (Hi eq_refl) as (Hsz & Hlo). destruct (stopped s) eqn:St.
      * rewrite (sink_sync_rel (k s) Hk). split; [|split; [reflexivity|]].
        -- unfold RInv, upd; cbn. rewrite E, St. repeat split; auto; try discriminate. now apply reliable_tl.
        -- cbn. rewrite E, St. reflexivity.
      * set (s1 := {| cfg := cfg s; inited := true; stopped := true; loop := false; w := w s; k := k s |}).
        assert (HR1 : RInv s1 -> True) by auto.
        assert (Hs1 : exists k', reliable k' = true /\ bws_sync s1 = (0, upd s1 (mkb (size (w s)) []) k', sync_evs (buf (w s)))).
        { unfold bws_sync, sync_evs, s1. cbn [inited w k].
          destruct (bflush_rel (w s) (k s) He Hk) as (k1 & Hk1 & ->). rewrite (sink_sync_rel k1 Hk1).
          exists (tl k1). split; [now apply reliable_tl|reflexivity]. }
        destruct Hs1 as (k' & Hk' & ->). split; [|split; [reflexivity|]].
        -- unfold RInv, upd, s1; cbn. repeat split; auto; try lia; try discriminate.
        -- reflexivity.
    + split; [exact HR|split; [reflexivity|]]. unfold abs, phase_of. rewrite E. reflexivity. Qed.
Lemma run_abs ops : forall s, RInv s ->
  let '(s1, tr) := run s ops in
  RInv s1 /\ cfg s1 = cfg s /\ arun (eff_size (cfg s)) (abs s) ops = (abs s1, tr).
Proof. induction ops as [|o r IH]; intros s HR; unfold run in *; cbn [run_gen arun]; [auto|].
  pose proof (step_abs s o HR) as H. unfold step in H. destruct (step_gen true s o) as [[s1 rs] es].
  destruct H as (HR1 & Hc & Ha). specialize (IH s1 HR1). destruct (run_gen true s1 r) as [s2 tr].
  destruct IH as (HR2 & Hc2 & Ha2). rewrite Ha. rewrite Hc in Ha2. rewrite Ha2. split; [exact HR2|split; [congruence|reflexivity]]. Qed.

Lemma init_RInv c outs : reliable outs = true -> RInv (init c outs).
Proof. intros H. unfold RInv, init; cbn. repeat split; auto; discriminate. Qed.

(* ---------- abstract invariants ---------- *)
Definition AInv (sz : nat) (a : bytes * phase) : Prop :=
  length (fst a) <= sz /\ (snd a <> Running -> fst a = []).
Lemma w_big_b1 sz b bs : w_big sz b bs = true -> w_b1 sz b bs = [].
Proof. unfold w_big, w_b1, w_pre. destruct ((sz - length b <? length bs) && negb (is_nil b)) eqn:P; [reflexivity|].
  intros G. apply andb_false_iff in P as [P|P]; [congruence|]. now apply negb_false_iff, is_nil_true in P. Qed.
Lemma w_b2_len sz b bs : length b <= sz -> length (w_b2 sz b bs) <= sz.
Proof. intros Hl. unfold w_b2. destruct (w_big sz b bs) eqn:G; [cbn; lia|]. unfold w_big in G. apply Nat.ltb_ge in G.
  rewrite app_length. assert (length (w_b1 sz b bs) <= sz); [|lia]. unfold w_b1. destruct (w_pre sz b bs); cbn; lia. Qed.
Lemma astep_AInv sz a o : AInv sz a -> AInv sz (fst (fst (astep sz a o))).
Proof. destruct a as [b p]. intros [Hl Hp]; cbn [fst snd] in *. destruct o as [bs| | |]; cbn [astep].
  - cbn [fst snd]. split.
    + unfold w_b3. destruct (is_stopped p); [cbn; lia|]. now apply w_b2_len.
    + unfold w_b3. destruct p; cbn; tauto.
  - unfold AInv; cbn [fst snd length]. split; [apply Nat.le_0_l|auto].
  - destruct (is_running p) eqn:R; unfold AInv; cbn [fst snd length]; [split; [apply Nat.le_0_l|auto]|split; auto].
  - destruct p; unfold AInv; cbn [fst snd length]; split; auto; apply Nat.le_0_l. Qed.

(* ---------- (A) whole-write grouping ---------- *)
Lemma received_app a b : received (a ++ b) = received a ++ received b.
Proof. unfold received. now rewrite map_app, concat_app. Qed.
Lemma accepted_app a b : accepted (a ++ b) = accepted a ++ accepted b.
Proof. unfold accepted. now rewrite map_app, concat_app. Qed.


Lemma Grp_flush acc sw b : Grp acc sw b -> Grp acc (sw ++ received (flush_evs b)) [].
Proof. intros (g & r & Ha & Hs & Hb). unfold flush_evs. destruct (is_nil b) eqn:E.
  - apply is_nil_true in E. subst b. exists g, r. cbn. rewrite app_nil_r. auto.
  - exists (g ++ [r]), []. unfold received; cbn. rewrite firstn_all, concat_app, map_app. cbn.
    rewrite !app_nil_r. subst. auto. Qed.
Lemma Grp_append acc sw b bs : Grp acc sw b -> Grp (acc ++ [bs]) sw (b ++ bs).
Proof. intros (g & r & Ha & Hs & Hb). exists g, (r ++ [bs]). rewrite concat_app. cbn. rewrite app_nil_r.
  subst. rewrite app_assoc. auto. Qed.
Lemma Grp_direct acc sw bs : Grp acc sw [] -> Grp (acc ++ [bs]) (sw ++ received [EW bs (length bs)]) [].
Proof. intros (g & r & Ha & Hs & Hb). exists (g ++ [r ++ [bs]]), []. unfold received; cbn.
  rewrite firstn_all, concat_app, map_app. cbn. rewrite !app_nil_r, concat_app. cbn. rewrite app_nil_r, <- Hb. cbn.
  subst. rewrite app_assoc. auto. Qed.

Lemma astep_Grp sz a o acc sw : Grp acc sw (fst a) ->
  let '(a1, r, es) := astep sz a o in Grp (acc ++ acc1 o) (sw ++ received es) (fst a1).
Proof. destruct a as [b p]. cbn [fst]. intros HG.
  assert (Hsync : Grp (acc ++ []) (sw ++ received (sync_evs b)) []).
  { unfold sync_evs. rewrite received_app, app_nil_r. unfold received at 2. cbn. rewrite app_nil_r. now apply Grp_flush. }
  destruct o as [bs| | |]; cbn [astep acc1 fst].
  - unfold w_evs, w_b3. rewrite !received_app, !app_assoc.
    (* stage 1 *)
    assert (S1 : Grp acc (sw ++ received (flush_evs (if w_pre sz b bs then b else []))) (w_b1 sz b bs)).
    { unfold w_b1. destruct (w_pre sz b bs); [now apply Grp_flush|]. cbn. unfold received; cbn. now rewrite app_nil_r. }
    (* stage 2 *)
    assert (S2 : Grp (acc ++ [bs]) ((sw ++ received (flush_evs (if w_pre sz b bs then b else []))) ++
                   received (if w_big sz b bs then [EW bs (length bs)] else [])) (w_b2 sz b bs)).
    { unfold w_b2. destruct (w_big sz b bs) eqn:G.
      - rewrite (w_big_b1 _ _ _ G) in S1. now apply Grp_direct.
      - unfold received at 2; cbn. rewrite app_nil_r. now apply Grp_append. }
    destruct (is_stopped p).
    + now apply Grp_flush.
    + unfold received at 3; cbn. now rewrite app_nil_r.
  - exact Hsync.
  - destruct (is_running p); cbn [fst]; [exact Hsync|]. unfold received; cbn. now rewrite !app_nil_r.
  - destruct p; cbn [fst]; try exact Hsync; unfold received; cbn; now rewrite !app_nil_r. Qed.

Lemma arun_Grp sz ops : forall a acc sw, Grp acc sw (fst a) ->
  let '(a1, tr) := arun sz a ops in Grp (acc ++ accepted ops) (sw ++ received (all_evs tr)) (fst a1).
Proof. induction ops as [|o r IH]; intros a acc sw HG; cbn [arun].
  - unfold accepted, all_evs, received; cbn. now rewrite !app_nil_r.
  - pose proof (astep_Grp sz a o acc sw HG) as H. destruct (astep sz a o) as [[a1 rs] es].
    specialize (IH a1 _ _ H). destruct (arun sz a1 r) as [a2 tr].
    unfold accepted, all_evs in *. cbn [map concat snd]. rewrite received_app, !app_assoc. exact IH. Qed.
(* ---------- (C) the executable oracle accepts the abstract machine ---------- *)
Lemma bytes_eqb_refl a : bytes_eqb a a = true.
Proof. now apply bytes_eqb_eq. Qed.
Lemma strip_nil q0 : strip q0 [] = Some q0.
Proof. destruct q0; reflexivity. Qed.
Lemma firstn_app_len {A} (a b : list A) : firstn (length a) (a ++ b) = a.
Proof. rewrite firstn_app, firstn_all, Nat.sub_diag. cbn. now rewrite app_nil_r. Qed.
Lemma skipn_app_len {A} (a b : list A) : skipn (length a) (a ++ b) = b.
Proof. rewrite skipn_app, skipn_all, Nat.sub_diag. reflexivity. Qed.

Lemma strip_concat q1 q2 : forall x, concat q1 = x ->
  exists q', strip (q1 ++ q2) x = Some (q' ++ q2) /\ concat q' = [].
Proof. induction q1 as [|b r IH]; intros x Hx.
  - cbn in Hx. subst x. exists []. split; [apply strip_nil|reflexivity].
  - destruct (is_nil x) eqn:E.
    + apply is_nil_true in E. subst x. exists (b :: r). split; [|exact E]. rewrite E. apply strip_nil.
    + cbn [app strip]. rewrite E. cbn in Hx. subst x.
      rewrite app_length, firstn_app_len, skipn_app_len, bytes_eqb_refl.
      assert (L : (length b <=? length b + length (concat r)) = true) by (apply Nat.leb_le; lia).
      rewrite L. cbn [andb]. apply IH. reflexivity. Qed.

Lemma all_empty_concat q0 : all_empty q0 = true <-> concat q0 = [].
Proof. induction q0 as [|b r IH]; cbn; [tauto|]. rewrite andb_true_iff, IH, is_nil_true. split.
  - intros [-> ->]. reflexivity.
  - intros H. apply app_eq_nil in H. tauto. Qed.

Lemma deliver_flush q1 q2 x d : concat q1 = x ->
  exists q' d', concat q' = [] /\ forall rest, deliver (q1 ++ q2) d (flush_evs x ++ rest) = deliver (q' ++ q2) d' rest.
Proof. intros Hx. unfold flush_evs. destruct (is_nil x) eqn:E.
  - apply is_nil_true in E. subst x. exists q1, d. split; [exact E|reflexivity].
  - destruct (strip_concat q1 q2 x Hx) as (q' & Hs & Hq). exists q', true. split; [exact Hq|]. intros rest.
    cbn [app deliver]. rewrite Nat.eqb_refl, Hs. reflexivity. Qed.

Definition OInv (os : ost) (a : bytes * phase) : Prop :=
  concat (q os) = fst a /\ ph os = snd a /\ (snd a = Fresh -> dirty os = false).

Lemma flushed_sync qs d b p : concat qs = b ->
  exists q', concat q' = [] /\ flushed (deliver qs d (sync_evs b)) p = Some {| q := q'; dirty := false; ph := p |}.
Proof. intros Hb. unfold sync_evs. rewrite <- (app_nil_r qs).
  destruct (deliver_flush qs [] b d Hb) as (q' & d' & Hq & ->). cbn [deliver]. rewrite app_nil_r.
  exists q'. split; [exact Hq|]. unfold flushed. apply all_empty_concat in Hq. rewrite Hq. reflexivity. Qed.

Lemma astep_oracle sz a o os : AInv sz a -> OInv os a ->
  let '(a1, r, es) := astep sz a o in exists os1, ostep sz os o r es = Some os1 /\ OInv os1 a1.
Proof. destruct a as [b p]. intros HA (Hq & Hp & Hd). pose proof (astep_AInv sz (b, p) o HA) as HA1.
  destruct HA as [Hl Hnr]. cbn [fst snd] in *.
  destruct o as [bs| | |]; cbn [astep] in *.
  - (* Write *)
    cbn [ostep fst snd] in *. rewrite Nat.eqb_refl. cbn [andb Nat.eqb].
    unfold w_evs.
    (* stage 1: optional pre-flush *)
    assert (S1 : exists qa da, concat qa = w_b1 sz b bs /\ forall rest,
       deliver (q os ++ [bs]) (dirty os) (flush_evs (if w_pre sz b bs then b else []) ++ rest) = deliver (qa ++ [bs]) da rest).
    { unfold w_b1. destruct (w_pre sz b bs).
      - destruct (deliver_flush (q os) [bs] b (dirty os) Hq) as (q' & d' & Hq' & H'). exists q', d'. auto.
      - exists (q os), (dirty os). split; [exact Hq|]. intros rest. reflexivity. }
    destruct S1 as (qa & da & Hqa & ->).
    (* stage 2: direct write of bs, or append *)
    assert (S2 : exists qb db, concat qb = w_b2 sz b bs /\ forall rest,
       deliver (qa ++ [bs]) da ((if w_big sz b bs then [EW bs (length bs)] else []) ++ rest) = deliver qb db rest).
    { unfold w_b2. destruct (w_big sz b bs) eqn:G.
      - rewrite (w_big_b1 _ _ _ G) in Hqa.
        assert (Hc : concat (qa ++ [bs]) = bs) by (rewrite concat_app, Hqa; cbn; now rewrite app_nil_r).
        destruct (strip_concat (qa ++ [bs]) [] bs Hc) as (q' & Hs & Hq'). rewrite !app_nil_r in Hs.
        exists q', true. split; [exact Hq'|]. intros rest. cbn [app deliver]. now rewrite Nat.eqb_refl, Hs.
      - exists (qa ++ [bs]), da. split; [|reflexivity]. rewrite concat_app, Hqa. cbn. now rewrite app_nil_r. }
    destruct S2 as (qb & db & Hqb & ->).
    (* stage 3: flush when stopped *)
    assert (S3 : exists qc dc, concat qc = w_b3 (is_stopped p) sz b bs /\
       deliver qb db (if is_stopped p then flush_evs (w_b2 sz b bs) else []) = Some (qc, dc)).
    { unfold w_b3. destruct (is_stopped p).
      - destruct (deliver_flush qb [] _ db Hqb) as (q' & d' & Hq' & H'). specialize (H' []).
        rewrite !app_nil_r in H'. exists q', d'. split; [exact Hq'|]. rewrite H'. reflexivity.
      - exists qb, db. split; [exact Hqb|reflexivity]. }
    destruct S3 as (qc & dc & Hqc & ->).
    destruct HA1 as [Hl1 _]. cbn [fst] in Hl1. unfold qlen. rewrite Hqc.
    apply Nat.leb_le in Hl1. rewrite Hl1. eexists. split; [reflexivity|].
    unfold OInv; cbn [q dirty ph fst snd]. rewrite Hp. split; [exact Hqc|split; [destruct p; reflexivity|]].
    destruct p; discriminate.
  - (* Sync *)
    cbn [ostep Nat.eqb]. destruct (flushed_sync (q os) (dirty os) b (ph os) Hq) as (qf & Hqf & ->). eexists. split; [reflexivity|].
    unfold OInv; cbn. auto.
  - (* Tick *)
    cbn [ostep]. rewrite Hp. destruct p; cbn [is_running].
    + eexists. split; [reflexivity|]. unfold OInv; cbn; auto.
    + destruct (flushed_sync (q os) (dirty os) b Running Hq) as (qf & Hqf & ->). eexists. split; [reflexivity|].
      unfold OInv; cbn. repeat split; auto; try discriminate.
    + eexists. split; [reflexivity|]. unfold OInv; cbn; auto.
  - (* Stop *)
    cbn [ostep Nat.eqb]. rewrite Hp. destruct p.
    + cbn [deliver]. unfold flushed. rewrite (Hd eq_refl). 
      assert (E : all_empty (q os) = true) by (apply all_empty_concat; rewrite Hq; apply Hnr; discriminate).
      rewrite E. eexists. split; [reflexivity|]. unfold OInv; cbn. repeat split; auto; try (rewrite Hq; reflexivity); try discriminate.
    + destruct (flushed_sync (q os) (dirty os) b Stopped Hq) as (qf & Hqf & ->). eexists. split; [reflexivity|].
      unfold OInv; cbn. repeat split; auto; try discriminate.
    + cbn [deliver]. unfold flushed.
      assert (E : all_empty (q os) = true) by (apply all_empty_concat; rewrite Hq; apply Hnr; discriminate).
      rewrite E. eexists. split; [reflexivity|]. unfold OInv; cbn. repeat split; auto; try (rewrite Hq; reflexivity); try discriminate.
Qed.
Lemma arun_oracle sz ops : forall a os, AInv sz a -> OInv os a ->
  let '(a1, tr) := arun sz a ops in exists os1, orun sz os ops tr = Some os1 /\ OInv os1 a1 /\ AInv sz a1.
Proof. induction ops as [|o r IH]; intros a os HA HO; cbn [arun orun].
  - exists os. auto.
  - pose proof (astep_oracle sz a o os HA HO) as H. pose proof (astep_AInv sz a o HA) as HA1.
    destruct (astep sz a o) as [[a1 rs] es]. cbn [fst] in HA1. destruct H as (os1 & Ho & HO1).
    specialize (IH a1 os1 HA1 HO1). destruct (arun sz a1 r) as [a2 tr]. cbn [orun]. rewrite Ho. exact IH. Qed.

Lemma loop_phase s : RInv s -> is_running (phase_of s) = loop s.
Proof. intros (_ & _ & _ & Hu & Hi & _). unfold phase_of. destruct (inited s) eqn:E; cbn.
  - destruct (Hi eq_refl) as (_ & ->). destruct (stopped s); reflexivity.
  - destruct (Hu eq_refl) as (_ & _ & ->). reflexivity. Qed.

Lemma abs_init c outs : abs (init c outs) = ([], Fresh).
Proof. reflexivity. Qed.
Lemma AInv_init sz : AInv sz ([], Fresh).
Proof. split; cbn; [apply Nat.le_0_l|auto]. Qed.

Lemma strong_ok_run c outs ops : reliable outs = true ->
  let '(s, tr) := run (init c outs) ops in strong_ok c ops tr (loop s) = true.
Proof. intros Hr. pose proof (run_abs ops (init c outs) (init_RInv c outs Hr)) as H.
  destruct (run (init c outs) ops) as [s tr]. destruct H as (HR & Hc & Ha). cbn [init cfg] in Ha. rewrite abs_init in Ha.
  assert (HO : OInv oinit ([], Fresh)) by (unfold OInv; cbn; auto).
  pose proof (arun_oracle (eff_size c) ops ([], Fresh) oinit (AInv_init _) HO) as H. rewrite Ha in H.
  destruct H as (os1 & Ho & (_ & Hp & _) & _). unfold strong_ok. rewrite Ho. cbn [abs snd] in Hp. rewrite Hp.
  rewrite (loop_phase s HR). apply eqb_reflx. Qed.

(* ---------- (B) Sync / processed tick / Stop: nothing held back, sink synced after its last write ---------- *)
Lemma dirty_of_app d a b : dirty_of d (a ++ b) = dirty_of (dirty_of d a) b.
Proof. revert d. induction a as [|[p n|] r IH]; intros d; cbn; auto. Qed.
Lemma dirty_sync d b : dirty_of d (sync_evs b) = false.
Proof. unfold sync_evs. now rewrite dirty_of_app. Qed.

Definition FInv (d : bool) (a : bytes * phase) : Prop := snd a = Fresh -> d = false.
Lemma astep_FInv sz a o d : AInv sz a -> FInv d a ->
  let '(a1, r, es) := astep sz a o in FInv (dirty_of d es) a1.
Proof. destruct a as [b p]. intros [_ Hnr] HF. cbn [fst snd] in *. unfold FInv in *. cbn [snd] in *.
  destruct o as [bs| | |]; cbn [astep].
  - cbn [snd]. destruct p; discriminate.
  - cbn [snd]. intros _. apply dirty_sync.
  - destruct (is_running p) eqn:R; cbn [snd]; [intros _; apply dirty_sync|exact HF].
  - destruct p; cbn [snd]; auto; discriminate. Qed.
Lemma arun_FInv sz ops : forall a d, AInv sz a -> FInv d a ->
  let '(a1, tr) := arun sz a ops in FInv (dirty_of d (all_evs tr)) a1 /\ AInv sz a1.
Proof. induction ops as [|o r IH]; intros a d HA HF; cbn [arun]; [cbn; auto|].
  pose proof (astep_FInv sz a o d HA HF) as H. pose proof (astep_AInv sz a o HA) as HA1.
  destruct (astep sz a o) as [[a1 rs] es]. cbn [fst] in HA1. specialize (IH a1 _ HA1 H).
  destruct (arun sz a1 r) as [a2 tr]. unfold all_evs. cbn [map concat snd]. rewrite dirty_of_app. exact IH. Qed.

Lemma astep_sync_post sz a o d : AInv sz a -> FInv d a -> flushing o (is_running (snd a)) = true ->
  let '(a1, r, es) := astep sz a o in fst a1 = [] /\ dirty_of d es = false.
Proof. destruct a as [b p]. intros [_ Hnr] HF Hfl. cbn [fst snd] in *. unfold FInv in HF; cbn [snd] in HF.
  destruct o as [bs| | |]; cbn [astep flushing] in *; try discriminate.
  - cbn. split; [reflexivity|apply dirty_sync].
  - rewrite Hfl. cbn. split; [reflexivity|apply dirty_sync].
  - destruct p; cbn [fst].
    + split; [apply Hnr; discriminate|cbn; auto].
    + split; [reflexivity|apply dirty_sync].
    + split; [apply Hnr; discriminate|reflexivity]. Qed.

Theorem sync_thm c outs ops o : reliable outs = true ->
  let '(s0, tr0) := run (init c outs) ops in
  let '(s1, r, es) := step s0 o in
  flushing o (loop s0) = true -> buf (w s1) = [] /\ dirty_of false (all_evs tr0 ++ es) = false.
Proof. intros Hr. pose proof (run_abs ops (init c outs) (init_RInv c outs Hr)) as H.
  destruct (run (init c outs) ops) as [s0 tr0]. destruct H as (HR & Hc & Ha). cbn [init cfg] in Ha, Hc. rewrite abs_init in Ha.
  pose proof (arun_FInv (eff_size c) ops ([], Fresh) false (AInv_init _) (fun _ => eq_refl)) as H. rewrite Ha in H.
  destruct H as [HF HA]. pose proof (step_abs s0 o HR) as H. destruct (step s0 o) as [[s1 r] es].
  destruct H as (_ & _ & Hs). rewrite Hc in Hs. intros Hfl. rewrite <- (loop_phase s0 HR) in Hfl.
  pose proof (astep_sync_post (eff_size c) (abs s0) o _ HA HF Hfl) as H. rewrite Hs in H. cbn [abs fst] in H.
  rewrite dirty_of_app. exact H. Qed.

(* ---------- whole-write theorem for runs ---------- *)
Theorem whole_thm c outs ops : reliable outs = true ->
  let '(s, tr) := run (init c outs) ops in
  Grp (accepted ops) (received (all_evs tr)) (buf (w s)) /\ length (buf (w s)) <= eff_size c.
Proof. intros Hr. pose proof (run_abs ops (init c outs) (init_RInv c outs Hr)) as H.
  destruct (run (init c outs) ops) as [s tr]. destruct H as (HR & Hc & Ha). cbn [init cfg] in Ha, Hc. rewrite abs_init in Ha.
  split.
  - assert (G0 : Grp [] [] (fst (([] : bytes), Fresh))) by (exists [], []; auto).
    pose proof (arun_Grp (eff_size c) ops ([], Fresh) [] [] G0) as H. rewrite Ha in H. exact H.
  - pose proof (arun_FInv (eff_size c) ops ([], Fresh) false (AInv_init _) (fun _ => eq_refl)) as H. rewrite Ha in H.
    destruct H as [_ [H _]]. exact H. Qed.

(* ---------- results: over a reliable sink nothing fails ---------- *)
Lemma astep_res sz a o : res_ok o (snd (fst (astep sz a o))).
Proof. destruct a as [b p]. destruct o; cbn; auto. destruct (is_running p); cbn; auto. destruct p; cbn; auto. Qed.
Lemma arun_res sz ops : forall a, Forall2 res_ok ops (map fst (snd (arun sz a ops))).
Proof. induction ops as [|o r IH]; intros a; cbn [arun]; [constructor|].
  pose proof (astep_res sz a o) as H. destruct (astep sz a o) as [[a1 rs] es]. specialize (IH a1).
  destruct (arun sz a1 r) as [a2 tr]. cbn in *. constructor; auto. Qed.
Theorem results_thm c outs ops : reliable outs = true ->
  Forall2 res_ok ops (map fst (snd (run (init c outs) ops))).
Proof. intros Hr. pose proof (run_abs ops (init c outs) (init_RInv c outs Hr)) as H.
  destruct (run (init c outs) ops) as [s tr]. destruct H as (_ & _ & Ha). cbn [init cfg] in Ha.
  pose proof (arun_res (eff_size c) ops (abs (init c outs))) as H. rewrite Ha in H. exact H. Qed.

(* ---------- lifecycle ---------- *)
Lemma astep_phase sz a o : snd (fst (fst (astep sz a o))) = phase_step (snd a) o.
Proof. destruct a as [b p]. destruct o; cbn; auto; destruct p; reflexivity. Qed.
Lemma arun_phase sz ops : forall a, snd (fst (arun sz a ops)) = fold_left phase_step ops (snd a).
Proof. induction ops as [|o r IH]; intros a; cbn [arun fold_left]; [reflexivity|].
  pose proof (astep_phase sz a o) as H. destruct (astep sz a o) as [[a1 rs] es]. specialize (IH a1).
  destruct (arun sz a1 r) as [a2 tr]. cbn in *. now rewrite IH, H. Qed.
Theorem lifecycle_thm c outs ops : reliable outs = true ->
  loop (fst (run (init c outs) ops)) = is_running (spec_phase ops).
Proof. intros Hr. pose proof (run_abs ops (init c outs) (init_RInv c outs Hr)) as H.
  destruct (run (init c outs) ops) as [s tr]. destruct H as (HR & _ & Ha). cbn [init cfg fst] in *.
  pose proof (arun_phase (eff_size c) ops (abs (init c outs))) as H. rewrite Ha in H. cbn in H.
  rewrite <- (loop_phase s HR). unfold spec_phase. now rewrite <- H. Qed.
(* ---------- unreliable sink: stream integrity for EVERY outcome script (and both code versions) ---------- *)
Lemma byte_eqb_refl b : Byte.eqb b b = true.
Proof. now apply byte_eqb_eq. Qed.
Lemma is_prefix_app a b : is_prefix a (a ++ b) = true.
Proof. induction a as [|x r IH]; cbn; [reflexivity|]. now rewrite byte_eqb_refl, IH. Qed.
Lemma wdeliver_app p es1 es2 :
  wdeliver p (es1 ++ es2) = match wdeliver p es1 with Some p1 => wdeliver p1 es2 | None => None end.
Proof. revert p. induction es1 as [|[q0 n|] r IH]; intros p; cbn [app wdeliver]; auto.
  destruct ((n <=? length q0) && is_prefix (firstn n q0) p); auto. Qed.
Lemma skipn_app_le {A} n (a b : list A) : n <= length a -> skipn n (a ++ b) = skipn n a ++ b.
Proof. intros H. rewrite skipn_app. replace (n - length a) with 0 by lia. reflexivity. Qed.
Lemma firstn_add {A} n m (l : list A) : firstn (n + m) l = firstn n l ++ firstn m (skipn n l).
Proof. revert l. induction n as [|n IH]; intros l; cbn; [reflexivity|]. destruct l as [|x r]; cbn.
  - now rewrite firstn_nil.
  - now rewrite IH. Qed.

(* one sink write of x[:n] out of pending x ++ y *)
Lemma wdeliver_EW x n y : n <= length x -> wdeliver (x ++ y) [EW x n] = Some (skipn n x ++ y).
Proof. intros H. cbn [wdeliver]. apply Nat.leb_le in H as H'. rewrite H'. cbn [andb].
  rewrite <- (firstn_skipn n x) at 2. rewrite <- app_assoc, is_prefix_app. now rewrite skipn_app_le. Qed.

Lemma sink_write_n k0 p : let '(n, e, es, k1) := sink_write k0 p in n <= length p /\ es = [EW p n].
Proof. unfold sink_write. destruct (o_short (next_out k0)); split; auto; lia. Qed.

Lemma bflush_weak b k0 : let '(e, b1, es, k1) := bflush b k0 in
  forall x, wdeliver (buf b ++ x) es = Some (buf b1 ++ x).
Proof. unfold bflush. destruct (negb (berr b =? 0)); [reflexivity|]. destruct (is_nil (buf b)) eqn:E; [reflexivity|].
  pose proof (sink_write_n k0 (buf b)) as H. destruct (sink_write k0 (buf b)) as [[[n e] es] k1]. destruct H as [Hn ->].
  destruct ((if (n <? length (buf b)) && (e =? 0) then 2 else e) =? 0) eqn:Z; intros x; cbn [set_buf buf].
  - assert (n = length (buf b)).
    { destruct (n <? length (buf b)) eqn:L; [|apply Nat.ltb_ge in L; lia]. exfalso.
      destruct (e =? 0) eqn:Ee; cbn [andb] in Z; [discriminate|]. congruence. }
    subst n. rewrite wdeliver_EW by lia. now rewrite skipn_all.
  - now rewrite wdeliver_EW. Qed.

Lemma bwrite_weak fuel : forall b k0 p, let '(nn, e, b2, es, k2) := bwrite fuel b k0 p in
  nn <= length p /\ forall x, wdeliver (buf b ++ firstn nn p ++ x) es = Some (buf b2 ++ x).
Proof. induction fuel as [|f IH]; intros b k0 p; cbn [bwrite].
  - split; [lia|]. intros x. reflexivity.
  - destruct ((avail b <? length p) && (berr b =? 0)) eqn:C.
    + apply andb_true_iff in C as [C _]. apply Nat.ltb_lt in C. destruct (is_nil (buf b)) eqn:E.
      * apply is_nil_true in E. pose proof (sink_write_n k0 p) as H. destruct (sink_write k0 p) as [[[n e] es] k1].
        destruct H as [Hn ->]. specialize (IH (set_buf b (buf b) e) k1 (skipn n p)).
        destruct (bwrite f (set_buf b (buf b) e) k1 (skipn n p)) as [[[[nn e2] b2] es2] k2]. destruct IH as [Hnn IH].
        rewrite skipn_length in Hnn. split; [lia|]. intros x. cbn [set_buf buf] in IH. rewrite E in *. cbn [app] in *.
        rewrite firstn_add, <- app_assoc. change (EW p n :: es2) with ([EW p n] ++ es2). rewrite wdeliver_app.
        cbn [wdeliver]. apply Nat.leb_le in Hn as Hn'. rewrite Hn', is_prefix_app. cbn [andb].
        rewrite skipn_app_le by (rewrite firstn_length; lia).
        replace (skipn n (firstn n p)) with (@nil byte) by (symmetry; apply skipn_all2; rewrite firstn_length; lia).
        apply IH.
      * set (n := avail b) in *. pose proof (bflush_weak (set_buf b (buf b ++ firstn n p) (berr b)) k0) as H.
        destruct (bflush (set_buf b (buf b ++ firstn n p) (berr b)) k0) as [[[e1 b1] es] k1]. cbn [set_buf buf] in H.
        specialize (IH b1 k1 (skipn n p)). destruct (bwrite f b1 k1 (skipn n p)) as [[[[nn e2] b2] es2] k2].
        destruct IH as [Hnn IH]. rewrite skipn_length in Hnn. split; [lia|]. intros x.
        rewrite firstn_add, <- app_assoc, wdeliver_app, app_assoc, H. apply IH.
    + destruct (negb (berr b =? 0)).
      * split; [lia|]. intros x. reflexivity.
      * split; [lia|]. intros x. rewrite firstn_all. cbn [set_buf buf wdeliver]. now rewrite app_assoc. Qed.

Definition WI (s : st) : Prop := inited s = false -> buf (w s) = [].

Lemma sync_weak s : WI s -> let '(e, s1, es) := bws_sync s in
  WI s1 /\ inited s1 = inited s /\ wdeliver (buf (w s)) es = Some (buf (w s1)).
Proof. intros HW. unfold bws_sync. destruct (inited s) eqn:E.
  - pose proof (bflush_weak (w s) (k s)) as H. destruct (bflush (w s) (k s)) as [[[e1 b1] es1] k1].
    unfold sink_sync. cbn [upd w inited]. split; [unfold WI; cbn; congruence|split; [exact E|]].
    rewrite wdeliver_app. specialize (H []). rewrite !app_nil_r in H. rewrite H. reflexivity.
  - unfold sink_sync. cbn [upd w inited app]. split; [exact HW|split; [exact E|reflexivity]]. Qed.

Lemma step_weak fx s o : WI s -> let '(s1, r, es) := step_gen fx s o in
  WI s1 /\ wstep (buf (w s)) o r es = Some (buf (w s1)).
Proof. intros HW. destruct o as [bs| | |]; cbn [step_gen].
  - (* Write *)
    unfold bws_write. set (s0 := if inited s then s else initialize s).
    assert (H0 : inited s0 = true /\ buf (w s0) = buf (w s)).
    { unfold s0. destruct (inited s) eqn:E; [auto|]. cbn. split; [reflexivity|]. symmetry. now apply HW. }
    destruct H0 as [Hin Hb]. rewrite <- Hb.
    assert (Hupd : forall b1 k1, WI (upd s0 b1 k1)) by (intros; unfold WI; cbn; congruence).
    set (pre := (avail (w s0) <? length bs) && negb (is_nil (buf (w s0)))).
    assert (S1 : let '(e0, b1, es1, k1) := if pre then bflush (w s0) (k s0) else (0, w s0, [], k s0) in
                 forall x, wdeliver (buf (w s0) ++ x) es1 = Some (buf b1 ++ x)).
    { destruct pre; [apply bflush_weak|]. intros x. reflexivity. }
    destruct (if pre then bflush (w s0) (k s0) else (0, w s0, [], k s0)) as [[[e0 b1] es1] k1].
    destruct (negb (e0 =? 0)).
    + split; [apply Hupd|]. cbn [wstep upd w Nat.leb firstn]. specialize (S1 []). now rewrite !app_nil_r in *.
    + pose proof (bwrite_weak (wfuel bs) b1 k1 bs) as S2.
      destruct (bwrite (wfuel bs) b1 k1 bs) as [[[[n e] b2] es2] k2]. destruct S2 as [Hn S2]. apply Nat.leb_le in Hn.
      destruct (fx && stopped s0 && (e =? 0)).
      * pose proof (bflush_weak b2 k2) as S3. destruct (bflush b2 k2) as [[[e3 b3] es3] k3].
        split; [apply Hupd|]. cbn [wstep upd w]. rewrite Hn, wdeliver_app, S1. cbv beta iota.
        specialize (S2 []). rewrite !app_nil_r in S2. rewrite wdeliver_app, S2. cbv beta iota.
        specialize (S3 []). rewrite !app_nil_r in S3. exact S3.
      * split; [apply Hupd|]. cbn [wstep upd w]. rewrite Hn, wdeliver_app, S1. cbv beta iota.
        specialize (S2 []). rewrite !app_nil_r in S2. exact S2.
  - pose proof (sync_weak s HW) as H. destruct (bws_sync s) as [[e s1] es]. destruct H as (H1 & _ & H2). auto.
  - destruct (loop s).
    + pose proof (sync_weak s HW) as H. destruct (bws_sync s) as [[e s1] es]. destruct H as (H1 & _ & H2). auto.
    + auto.
  - unfold bws_stop. destruct (negb (inited s)) eqn:E; [auto|]. destruct (stopped s).
    + destruct fx; [|auto]. unfold sink_sync. cbn [upd w]. split; [exact HW|reflexivity].
    + set (s1 := {| cfg := cfg s; inited := true; stopped := true; loop := false; w := w s; k := k s |}).
      assert (HW1 : WI s1) by (unfold WI, s1; cbn; discriminate).
      pose proof (sync_weak s1 HW1) as H. destruct (bws_sync s1) as [[e s2] es]. destruct H as (H1 & _ & H2). auto. Qed.

Lemma run_weak fx ops : forall s, WI s -> wrun (buf (w s)) ops (snd (run_gen fx s ops)) = true.
Proof. induction ops as [|o r IH]; intros s HW; cbn [run_gen]; [reflexivity|].
  pose proof (step_weak fx s o HW) as H. destruct (step_gen fx s o) as [[s1 rs] es]. destruct H as [HW1 Hs].
  specialize (IH s1 HW1). destruct (run_gen fx s1 r) as [s2 tr]. cbn [snd wrun] in *. now rewrite Hs. Qed.

(* raw bufio (mode 1) *)
Lemma bstep_weak bk o : let '(b2, k2, r, es) := bstep bk (match o with Write bs => Write bs | _ => Sync end) in
  wstep (buf (fst bk)) (match o with Write bs => Write bs | _ => Sync end) r es = Some (buf b2).
Proof. destruct bk as [b k0]. cbn [fst snd].
  assert (F : let '(b2, k2, r, es) := bstep (b, k0) Sync in wstep (buf b) Sync r es = Some (buf b2)).
  { cbn [bstep fst snd]. pose proof (bflush_weak b k0) as H. destruct (bflush b k0) as [[[e b2] es] k2].
    cbn [wstep]. specialize (H []). now rewrite !app_nil_r in H. }
  destruct o as [bs| | |]; try exact F. cbn [bstep fst snd].
  pose proof (bwrite_weak (wfuel bs) b k0 bs) as H. destruct (bwrite (wfuel bs) b k0 bs) as [[[[n e] b2] es] k2].
  destruct H as [Hn H]. cbn [wstep]. apply Nat.leb_le in Hn. rewrite Hn. specialize (H []). now rewrite !app_nil_r in H. Qed.
Lemma brun_weak ops : forall bk, wrun (buf (fst bk)) (bops ops) (brun bk (bops ops)) = true.
Proof. induction ops as [|o r IH]; intros bk; cbn [bops map brun]; [reflexivity|].
  pose proof (bstep_weak bk o) as H. 
  destruct (bstep bk (match o with Write bs => Write bs | _ => Sync end)) as [[[b2 k2] rs] es].
  cbn [wrun]. rewrite H. exact (IH (b2, k2)). Qed.
(* ---------- stream integrity as a statement about the bytes ---------- *)

Lemma is_prefix_split a : forall p, is_prefix a p = true -> p = a ++ skipn (length a) p.
Proof. induction a as [|x r IH]; intros p H; cbn in *; [reflexivity|]. destruct p as [|y p]; [discriminate|].
  apply andb_true_iff in H as [H1 H2]. apply byte_eqb_eq in H1. subst y. cbn. f_equal. now apply IH. Qed.
Lemma wdeliver_sound es : forall p p', wdeliver p es = Some p' -> p = concat (received es) ++ p'.
Proof. induction es as [|[q0 n|] r IH]; intros p p' H; cbn [wdeliver] in H.
  - injection H as ->. reflexivity.
  - destruct ((n <=? length q0) && is_prefix (firstn n q0) p) eqn:C; [|discriminate].
    apply andb_true_iff in C as [C1 C2]. apply Nat.leb_le in C1. apply is_prefix_split in C2.
    rewrite firstn_length, Nat.min_l in C2 by exact C1. apply IH in H.
    unfold received in *. cbn [map concat recv1 app]. rewrite <- !app_assoc. cbn [app]. rewrite <- H. exact C2.
  - apply IH in H. exact H. Qed.
Lemma wstep_sound p o r es p' : wstep p o r es = Some p' ->
  p ++ consumed1 (o, (r, es)) = concat (received es) ++ p'.
Proof. destruct o, r; cbn [wstep consumed1]; try discriminate; intros H;
  try (apply wdeliver_sound in H; now rewrite app_nil_r).
  destruct (n <=? length bs); [|discriminate]. now apply wdeliver_sound in H. Qed.

Theorem stream_thm fx ops : forall s, WI s ->
  let '(s1, tr) := run_gen fx s ops in
  buf (w s) ++ consumed ops tr = concat (received (all_evs tr)) ++ buf (w s1).
Proof. induction ops as [|o r IH]; intros s HW; cbn [run_gen].
  - unfold consumed, all_evs, received. cbn. now rewrite app_nil_r.
  - pose proof (step_weak fx s o HW) as H. destruct (step_gen fx s o) as [[s1 rs] es]. destruct H as [HW1 Hs].
    specialize (IH s1 HW1). destruct (run_gen fx s1 r) as [s2 tr]. apply wstep_sound in Hs.
    unfold consumed, all_evs in *. cbn [combine map concat snd]. rewrite received_app, concat_app, app_assoc, Hs.
    rewrite <- !app_assoc. f_equal. exact IH. Qed.

(* ---------- Stop may be called repeatedly (any sink, both code versions) ---------- *)
Lemma stop_reaches_done fx s : stop_done (fst (fst (step_gen fx s Stop))).
Proof. cbn [step_gen]. unfold bws_stop, stop_done. destruct (inited s) eqn:E; cbn [negb]; [|cbn; auto].
  destruct (stopped s) eqn:St.
  - destruct fx; cbn; auto.
  - unfold bws_sync. cbn [inited w k]. destruct (bflush (w s) (k s)) as [[[e1 b1] es1] k1]. cbn. auto. Qed.
Lemma stop_again fx s : stop_done s ->
  let '(s1, r, es) := step_gen fx s Stop in
  w s1 = w s /\ inited s1 = inited s /\ stopped s1 = stopped s /\ loop s1 = loop s /\
  (es = [] \/ es = [ES]) /\ (reliable (k s) = true -> r = RStop 0).
Proof. intros [H|H]; cbn [step_gen]; unfold bws_stop; rewrite H; cbn [negb].
  - repeat split; auto.
  - destruct (negb (inited s)); [repeat split; auto|]. destruct fx; [|repeat split; auto].
    unfold sink_sync. cbn. repeat split; auto. intros Hr. now destruct (next_out_rel (k s) Hr) as [_ ->]. Qed.

(* ---------- the model can express the failures ---------- *)
Definition bytes_of (l : list byte) : bytes := l.
(* bufio.Writer.Write alone (without zap's flush-before-write rule) splits a caller's write:
   size 4, Write "abc", Write "de" -> the sink gets "abcd" and "e" stays behind *)
Lemma naive_splits :
  let s1 := fst (fst (naive_write (init 4 []) [x61; x62; x63])) in
  naive_write s1 [x64; x65] =
    (upd s1 {| size := 4; buf := [x65]; berr := 0 |} [], RW 2 0, [EW [x61; x62; x63; x64] 4]).
Proof. vm_compute. reflexivity. Qed.
Lemma naive_not_whole : ~ (forall s bs, RInv s ->
  let '(s1, r, es) := naive_write s bs in
  forall acc sw, Grp acc sw (buf (w s)) -> Grp (acc ++ [bs]) (sw ++ received es) (buf (w s1))).
Proof. intros H.
  set (s1 := fst (fst (naive_write (init 4 []) [x61; x62; x63]))).
  assert (HR : RInv s1) by (unfold RInv; vm_compute; repeat split; auto; try lia; discriminate).
  specialize (H s1 [x64; x65] HR). pose proof naive_splits as E. cbv zeta in E. fold s1 in E. rewrite E in H.
  assert (G : Grp [[x61; x62; x63]] [] (buf (w s1))) by (exists [], [[x61; x62; x63]]; vm_compute; auto).
  specialize (H _ _ G). destruct H as (g & r & Ha & Hs & Hb). cbn in Hs, Hb, Ha.
  (* sink writes = ["abcd"] must be map concat g with concat g ++ r = ["abc"; "de"] *)
  destruct g as [|g1 [|g2 g]]; cbn in Hs; try discriminate. injection Hs as Hs. cbn [concat] in Ha. rewrite app_nil_r in Ha.
  destruct g1 as [|a1 g1]; [discriminate|]. cbn in Ha. injection Ha as <- Ha. cbn in Hs.
  destruct g1 as [|a2 g1]; [discriminate|]. cbn in Ha. injection Ha as <- Ha. cbn in Hs. discriminate. Qed.

(* the original code: Write x; Stop; Write y; Stop leaves y in the buffer after Stop has completed *)
Definition sync_full_orig : Prop := forall c ops,
  let '(s, tr) := run_gen false (init c []) (ops ++ [Stop]) in buf (w s) = [].
Lemma stop_flushes_orig_refuted : ~ sync_full_orig.
Proof. intros H. specialize (H 4%Z [Write [x61; x62]; Stop; Write [x63; x64]]). vm_compute in H. discriminate. Qed.
Lemma stop_flushes_orig_witness :
  snd (run_gen false (init 4 []) [Write [x61; x62]; Stop; Write [x63; x64]; Stop]) =
    [(RW 2 0, []); (RStop 0, [EW [x61; x62] 2; ES]); (RW 2 0, []); (RStop 0, [])] /\
  snd (run (init 4 []) [Write [x61; x62]; Stop; Write [x63; x64]; Stop]) =
    [(RW 2 0, []); (RStop 0, [EW [x61; x62] 2; ES]); (RW 2 0, [EW [x63; x64] 2]); (RStop 0, [ES])].
Proof. split; vm_compute; reflexivity. Qed.

(* ---------- lifecycle of the flush goroutine: ANY sink (errors, short writes), both code versions ---------- *)
(* the flags alone: an uninitialised syncer is not stopped and has no loop; an initialised one has
   its loop exactly while it is not stopped.  (A Stop that marked an uninitialised syncer stopped
   would break the first clause: the next Write would start a loop no later Stop ends.) *)
Definition LInv (s : st) : Prop :=
  (inited s = false -> stopped s = false /\ loop s = false) /\
  (inited s = true -> loop s = negb (stopped s)).
Lemma LInv_loop s : LInv s -> loop s = is_running (phase_of s).
Proof. intros [Hu Hi]. unfold phase_of. destruct (inited s) eqn:E; cbn.
  - rewrite (Hi eq_refl). destruct (stopped s); reflexivity.
  - now destruct (Hu eq_refl) as [_ ->]. Qed.
Lemma LInv_init c outs : LInv (init c outs).
Proof. split; cbn; [auto|discriminate]. Qed.

Lemma sync_flags s : inited (snd (fst (bws_sync s))) = inited s /\ stopped (snd (fst (bws_sync s))) = stopped s /\
  loop (snd (fst (bws_sync s))) = loop s.
Proof. unfold bws_sync. destruct (if inited s then bflush (w s) (k s) else (0, w s, [], k s)) as [[[e1 b1] es1] k1].
  unfold sink_sync. cbn. auto. Qed.
Lemma write_flags fx s bs : inited (fst (fst (bws_write fx s bs))) = true /\
  stopped (fst (fst (bws_write fx s bs))) = stopped s /\
  loop (fst (fst (bws_write fx s bs))) = (if inited s then loop s else true).
Proof. unfold bws_write. set (s0 := if inited s then s else initialize s).
  assert (H0 : inited s0 = true /\ stopped s0 = stopped s /\ loop s0 = if inited s then loop s else true).
  { unfold s0. destruct (inited s) eqn:E; cbn; auto. }
  set (pre := (avail (w s0) <? length bs) && negb (is_nil (buf (w s0)))).
  destruct (if pre then bflush (w s0) (k s0) else (0, w s0, [], k s0)) as [[[e0 b1] es1] k1].
  destruct (negb (e0 =? 0)); [exact H0|].
  destruct (bwrite (wfuel bs) b1 k1 bs) as [[[[n e] b2] es2] k2].
  destruct (fx && stopped s0 && (e =? 0)); [|exact H0].
  destruct (bflush b2 k2) as [[[e3 b3] es3] k3]. exact H0. Qed.

Lemma not_running_after_stop p : is_running (phase_step p Stop) = false.
Proof. destruct p; reflexivity. Qed.

Lemma step_life fx s o : LInv s ->
  LInv (fst (fst (step_gen fx s o))) /\ phase_of (fst (fst (step_gen fx s o))) = phase_step (phase_of s) o /\
  tick_ok (phase_of s) o (snd (fst (step_gen fx s o))) (snd (step_gen fx s o)) = true.
Proof. intros HL. pose proof (LInv_loop s HL) as Hlp. destruct HL as [Hu Hi]. destruct o as [bs| | |]; cbn [step_gen].
  - (* Write *)
    destruct (write_flags fx s bs) as (Hin & Hst & Hlo). split; [|split].
    + split; [rewrite Hin; discriminate|]. intros _. rewrite Hlo, Hst. destruct (inited s) eqn:E; [now apply Hi|].
      now destruct (Hu eq_refl) as [-> _].
    + unfold phase_of. rewrite Hin, Hst. cbn [negb]. destruct (inited s) eqn:E; cbn [negb].
      * destruct (stopped s); reflexivity.
      * now destruct (Hu eq_refl) as [-> _].
    + destruct (bws_write fx s bs) as [[s1 r] es]. reflexivity.
  - (* Sync *)
    destruct (sync_flags s) as (Hin & Hst & Hlo). destruct (bws_sync s) as [[e s1] es]. cbn [fst snd] in *.
    split; [|split].
    + unfold LInv. rewrite Hin, Hst, Hlo. auto.
    + unfold phase_of. rewrite Hin, Hst. destruct (inited s), (stopped s); reflexivity.
    + reflexivity.
  - (* Tick *)
    destruct (loop s) eqn:El.
    + destruct (sync_flags s) as (Hin & Hst & Hlo). destruct (bws_sync s) as [[e s1] es]. cbn [fst snd] in *.
      split; [|split].
      * unfold LInv. rewrite Hin, Hst, Hlo, El. auto.
      * unfold phase_of. rewrite Hin, Hst. destruct (inited s), (stopped s); reflexivity.
      * cbn [tick_ok]. rewrite <- Hlp. reflexivity.
    + cbn [fst snd]. split; [unfold LInv; rewrite El; split; assumption|split].
      * destruct (phase_of s); reflexivity.
      * cbn [tick_ok]. rewrite <- Hlp. reflexivity.
  - (* Stop *)
    unfold bws_stop. destruct (inited s) eqn:E; cbn [negb].
    + destruct (stopped s) eqn:St.
      * assert (Hp : phase_of s = Stopped) by (unfold phase_of; rewrite E, St; reflexivity).
        destruct fx; cbn [fst snd].
        -- unfold sink_sync. cbn [fst snd]. split; [|split; [|reflexivity]].
           ++ unfold LInv. cbn [upd inited stopped loop]. rewrite E, St. auto.
           ++ unfold phase_of at 1. cbn [upd inited stopped]. rewrite E, St, Hp. reflexivity.
        -- split; [unfold LInv; rewrite E, St; split; assumption|split; [|reflexivity]]. rewrite Hp. reflexivity.
      * assert (Hp : phase_of s = Running) by (unfold phase_of; rewrite E, St; reflexivity).
        set (s1 := {| cfg := cfg s; inited := true; stopped := true; loop := false; w := w s; k := k s |}).
        destruct (sync_flags s1) as (Hin & Hst & Hlo). destruct (bws_sync s1) as [[e s2] es]. cbn [fst snd] in *.
        split; [|split; [|reflexivity]].
        -- unfold LInv. rewrite Hin, Hst, Hlo. cbn. split; [discriminate|reflexivity].
        -- unfold phase_of at 1. rewrite Hin, Hst, Hp. reflexivity.
    + assert (Hp : phase_of s = Fresh) by (unfold phase_of; rewrite E; reflexivity).
      cbn [fst snd]. split; [unfold LInv; rewrite E; split; assumption|split; [|reflexivity]]. rewrite Hp. reflexivity. Qed.

Lemma run_life fx ops : forall s, LInv s ->
  LInv (fst (run_gen fx s ops)) /\ phase_of (fst (run_gen fx s ops)) = fold_left phase_step ops (phase_of s) /\
  lrun (phase_of s) ops (snd (run_gen fx s ops)) (lives_gen fx s ops) = Some (phase_of (fst (run_gen fx s ops))).
Proof. induction ops as [|o r IH]; intros s HL; cbn [run_gen lives_gen fold_left].
  - cbn. auto.
  - destruct (step_life fx s o HL) as (HL1 & Hp1 & Ht). destruct (step_gen fx s o) as [[s1 rs] es]. cbn [fst snd] in *.
    destruct (IH s1 HL1) as (HL2 & Hp2 & Hr). destruct (run_gen fx s1 r) as [s2 tr]. cbn [fst snd lrun] in *.
    split; [exact HL2|split].
    + rewrite Hp2, Hp1. reflexivity.
    + rewrite Ht, <- Hp1, <- (LInv_loop s1 HL1), eqb_reflx. cbn [andb]. exact Hr. Qed.

(* the flush goroutine runs exactly from the first Write to the first Stop after it: any sink, both versions *)
Theorem lifecycle_any_thm fx c outs ops :
  loop (fst (run_gen fx (init c outs) ops)) = is_running (spec_phase ops).
Proof. destruct (run_life fx ops (init c outs) (LInv_init c outs)) as (HL & Hp & _).
  rewrite (LInv_loop _ HL), Hp. reflexivity. Qed.
(* once any Stop has returned -- first or repeated, before or after the first Write, whatever the sink
   answered -- no flush goroutine is left; and a loop that was running when Stop was called never
   comes back, whatever follows *)
Theorem stop_ends_loop_thm fx c outs ops ops2 :
  loop (fst (run_gen fx (init c outs) (ops ++ [Stop]))) = false /\
  (loop (fst (run_gen fx (init c outs) ops)) = true ->
   loop (fst (run_gen fx (init c outs) (ops ++ Stop :: ops2))) = false).
Proof. rewrite !lifecycle_any_thm. unfold spec_phase. rewrite !fold_left_app. cbn [fold_left]. split.
  - apply not_running_after_stop.
  - destruct (fold_left phase_step ops Fresh); try discriminate. intros _. cbn [phase_step].
    induction ops2 as [|o r IH]; [reflexivity|]. cbn [fold_left]. destruct o; exact IH. Qed.
(* a Stop on a syncer that has not been written to is a no-op: it does not use up the one effective
   Stop -- after a later Write the loop runs and the next Stop ends it *)
Lemma early_stops fx n : forall s, inited s = false -> fst (run_gen fx s (repeat Stop n)) = s.
Proof. induction n as [|n IH]; intros s H; [reflexivity|]. cbn [repeat run_gen step_gen]. unfold bws_stop. rewrite H.
  cbn [negb]. specialize (IH s H). destruct (run_gen fx s (repeat Stop n)) as [s2 tr]. exact IH. Qed.
Theorem early_stop_noop_thm fx c outs n bs ops :
  fst (run_gen fx (init c outs) (repeat Stop n)) = init c outs /\
  loop (fst (run_gen fx (init c outs) (repeat Stop n ++ [Write bs]))) = true /\
  loop (fst (run_gen fx (init c outs) (repeat Stop n ++ Write bs :: ops ++ [Stop]))) = false.
Proof. split; [|split].
  - now apply early_stops.
  - rewrite lifecycle_any_thm. unfold spec_phase. rewrite fold_left_app.
    assert (H : fold_left phase_step (repeat Stop n) Fresh = Fresh) by (induction n as [|m IHm]; [reflexivity|exact IHm]).
    rewrite H. reflexivity.
  - assert (E : repeat Stop n ++ Write bs :: ops ++ [Stop] = (repeat Stop n ++ Write bs :: ops) ++ [Stop])
      by (rewrite <- app_assoc; reflexivity).
    rewrite E. exact (proj1 (stop_ends_loop_thm fx c outs _ [])). Qed.

Theorem life_ok_run c outs ops :
  let '(s, tr) := run (init c outs) ops in life_ok ops tr (lives (init c outs) ops) (loop s) = true.
Proof. destruct (run_life true ops (init c outs) (LInv_init c outs)) as (HL & _ & Hr). unfold run, lives.
  destruct (run_gen true (init c outs) ops) as [s tr]. cbn [fst snd] in *. unfold life_ok.
  change (phase_of (init c outs)) with Fresh in Hr. rewrite Hr, (LInv_loop s HL). apply eqb_reflx. Qed.

(* soundness of the lifecycle oracle, independent of the model: what it accepts -- e.g. liveness
   flags and tick results recorded from the real implementation -- is the documented lifecycle *)
Lemma lrun_sound ops : forall p tr live p', lrun p ops tr live = Some p' ->
  p' = fold_left phase_step ops p /\ live = map is_running (phases p ops) /\
  (forall n d es, nth_error ops n = Some Tick -> nth_error tr n = Some (RT d, es) ->
     d = is_running (fold_left phase_step (firstn n ops) p) /\ (d = false -> es = [])).
Proof. induction ops as [|o r IH]; intros p tr live p' H; destruct tr as [|[rs es0] tr]; destruct live as [|l live];
    cbn [lrun] in H; try discriminate.
  - injection H as <-. split; [reflexivity|split; [reflexivity|]]. intros [|n] d es Hn; discriminate.
  - destruct (Bool.eqb l (is_running (phase_step p o)) && tick_ok p o rs es0) eqn:C; [|discriminate].
    apply andb_true_iff in C. destruct C as [Cl Ct]. apply eqb_prop in Cl.
    destruct (IH _ _ _ _ H) as (Hp & Hlv & Htk). split; [exact Hp|split].
    + cbn [phases map]. now rewrite Cl, Hlv.
    + intros [|n] d es Ho Ht; cbn [nth_error firstn fold_left] in *.
      * injection Ho as ->. injection Ht as -> ->. cbn [tick_ok] in Ct. apply andb_true_iff in Ct.
        destruct Ct as [C1 C2]. apply eqb_prop in C1. split; [exact C1|]. intros ->. cbn [orb] in C2.
        now apply is_nil_true.
      * exact (Htk n d es Ho Ht). Qed.
Lemma stop_flag_false ops : forall p n, nth_error ops n = Some Stop ->
  nth_error (map is_running (phases p ops)) n = Some false.
Proof. induction ops as [|o r IH]; intros p [|n] H; cbn [nth_error phases map] in *; try discriminate.
  - injection H as ->. now rewrite not_running_after_stop.
  - now apply IH. Qed.
Theorem life_oracle_sound ops tr live alive : life_ok ops tr live alive = true ->
  live = map is_running (phases Fresh ops) /\ alive = is_running (spec_phase ops) /\
  (forall n, nth_error ops n = Some Stop -> nth_error live n = Some false) /\
  (forall n d es, nth_error ops n = Some Tick -> nth_error tr n = Some (RT d, es) ->
     d = is_running (spec_phase (firstn n ops)) /\ (d = false -> es = [])).
Proof. unfold life_ok. destruct (lrun Fresh ops tr live) as [p'|] eqn:H; [|discriminate]. intros Ha.
  apply eqb_prop in Ha. destruct (lrun_sound _ _ _ _ _ H) as (Hp & Hlv & Htk).
  split; [exact Hlv|split; [now rewrite Ha, Hp|split; [|exact Htk]]].
  intros n Hn. rewrite Hlv. now apply stop_flag_false. Qed.

(* ---------- wire ---------- *)
Lemma sx_eqb_refl s : sx_eqb s s = true.
Proof. revert s. fix IH 1. intros [z|b|l]; cbn.
  - apply Z.eqb_refl.
  - now apply bytes_eqb_eq.
  - induction l as [|a r IHr]; [reflexivity|]. now rewrite IH, IHr. Qed.
Lemma sx_n_of_nat n : sx_n (of_nat n) = n.
Proof. unfold sx_n, of_nat. cbn. apply Nat2Z.id. Qed.
Lemma sx_bool_of_bool b : sx_bool (of_bool b) = b.
Proof. destruct b; reflexivity. Qed.
(* run-length form of long byte strings: decoding the encoder's output gives the bytes back *)
Lemma unrle_rle_go p : forall b n, unrle (rle_go b n p) = repeat b n ++ p.
Proof. induction p as [|x r IH]; intros b n; cbn [rle_go].
  - cbn [unrle]. unfold run_byte. cbn [sx_b]. now rewrite sx_n_of_nat.
  - destruct (Byte.eqb x b) eqn:E.
    + apply byte_eqb_eq in E. subst x. rewrite IH. cbn [repeat]. rewrite repeat_cons, <- app_assoc. reflexivity.
    + cbn [unrle]. unfold run_byte at 1. cbn [sx_b]. rewrite sx_n_of_nat, IH. reflexivity. Qed.
Lemma unrle_rle p : unrle (rle p) = p.
Proof. destruct p as [|x r]; [reflexivity|]. unfold rle. now rewrite unrle_rle_go. Qed.
Lemma sx_rb_enc_bytes p : sx_rb (enc_bytes p) = p.
Proof. unfold enc_bytes. destruct (length p <=? rle_min); cbn [sx_rb sx_b]; [reflexivity|apply unrle_rle]. Qed.
Lemma dec_enc_ev e : dec_ev (enc_ev e) = e.
Proof. destruct e; cbn [enc_ev]; [|reflexivity]. unfold dec_ev, sx_nth. cbn [sx_l nth sx_z].
  now rewrite sx_rb_enc_bytes, sx_n_of_nat. Qed.
Lemma dec_enc_res r : dec_res (enc_res r) = r.
Proof. destruct r; unfold dec_res; cbn; rewrite ?sx_n_of_nat, ?sx_bool_of_bool; reflexivity. Qed.
Lemma dec_enc_tr tr : dec_tr (enc_tr tr) = tr.
Proof. unfold dec_tr, enc_tr. cbn [sx_l]. rewrite map_map. rewrite <- (map_id tr) at 2. apply map_ext.
  intros [r es]. cbn [fst snd]. unfold sx_nth. cbn [sx_l nth]. rewrite dec_enc_res. cbn [sx_l]. rewrite map_map.
  f_equal. rewrite <- (map_id es) at 2. apply map_ext. apply dec_enc_ev. Qed.

Lemma dec_enc_live l : dec_live (enc_live l) = l.
Proof. unfold dec_live, enc_live. cbn [sx_l]. rewrite map_map. rewrite <- (map_id l) at 2. apply map_ext.
  apply sx_bool_of_bool. Qed.

Theorem spec_model i : spec i (model i) = true.
Proof. unfold spec, model. destruct (dec_case i) as [[c ops] outs]. destruct (mode_of i).
  - unfold sx_nth. cbn [sx_l nth]. rewrite dec_enc_tr, sx_bool_of_bool, dec_enc_live, sx_eqb_refl.
    cbn [andb negb is_nil]. rewrite !andb_true_r. exact (brun_weak ops (_, outs)).
  - pose proof (strong_ok_run c outs ops) as HS. pose proof (run_weak true ops (init c outs) (fun _ => eq_refl)) as HWk.
    pose proof (life_ok_run c outs ops) as HL.
    unfold run in *. destruct (run_gen true (init c outs) ops) as [s tr]. cbn [snd] in HWk.
    unfold sx_nth. cbn [sx_l nth]. rewrite dec_enc_tr, sx_bool_of_bool, dec_enc_live, sx_eqb_refl. cbn [andb].
    rewrite HL. cbn [andb]. destruct (reliable outs); [now apply HS|exact HWk]. Qed.

(* ---------- the fuel of bwrite is enough (so the out-of-fuel default is never observed) ---------- *)
(* a sink never answers (0, nil) to a non-empty write: otherwise bufio.Writer.Write spins *)
Definition out_wf (o : outcome) : bool := match o_short o with Some 0 => o_err o | _ => true end.
Definition outs_wf (k0 : sk) : bool := forallb out_wf k0.
Lemma outs_wf_tl k0 : outs_wf k0 = true -> outs_wf (tl k0) = true.
Proof. destruct k0; cbn; [auto|]. intros H. apply andb_true_iff in H. tauto. Qed.
Lemma bwrite_err f b k0 p : berr b <> 0 -> bwrite f b k0 p = (0, berr b, b, [], k0).
Proof. intros H. apply Nat.eqb_neq in H. destruct f; cbn [bwrite]; [reflexivity|]. now rewrite H, andb_false_r. Qed.
Definition need (b : bufio) (p : bytes) : nat := 2 * length p + (if is_nil (buf b) then 0 else 1) + 1.

Lemma sink_write_wf k0 p : outs_wf k0 = true -> p <> [] ->
  let '(n, e, es, k1) := sink_write k0 p in k1 = tl k0 /\ (e <> 0 \/ 1 <= n).
Proof. intros Hk Hp. unfold sink_write. split; [reflexivity|]. destruct (o_err (next_out k0)) eqn:E; [left; discriminate|right].
  assert (W : out_wf (next_out k0) = true).
  { destruct k0; [reflexivity|]. cbn in *. apply andb_true_iff in Hk. tauto. }
  unfold out_wf in W. destruct p; [congruence|]. destruct (o_short (next_out k0)) as [[|m]|]; cbn; try lia. congruence. Qed.

Lemma bwrite_fuel f : forall b k0 p extra, outs_wf k0 = true -> need b p <= f ->
  bwrite (f + extra) b k0 p = bwrite f b k0 p.
Proof. induction f as [|f IH]; intros b k0 p extra Hk Hn; [unfold need in Hn; lia|].
  cbn [Nat.add bwrite]. destruct ((avail b <? length p) && (berr b =? 0)) eqn:C; [|reflexivity].
  apply andb_true_iff in C as [C1 C2]. apply Nat.ltb_lt in C1. apply Nat.eqb_eq in C2.
  assert (Hp : p <> []) by (destruct p; cbn in C1; [lia|discriminate]).
  unfold need in Hn. destruct (is_nil (buf b)) eqn:E.
  - pose proof (sink_write_wf k0 p Hk Hp) as H. destruct (sink_write k0 p) as [[[n e] es] k1]. destruct H as [-> [He|Hn1]].
    + rewrite !bwrite_err by (cbn; exact He). reflexivity.
    + rewrite IH; [reflexivity|now apply outs_wf_tl|]. unfold need. cbn [set_buf buf]. rewrite E, skipn_length. lia.
  - set (b0 := set_buf b (buf b ++ firstn (avail b) p) (berr b)).
    assert (F : let '(e1, b1, es, k1) := bflush b0 k0 in k1 = tl k0 /\ (berr b1 <> 0 \/ buf b1 = [])).
    { unfold bflush, b0. cbn [set_buf berr buf]. rewrite C2. cbn [Nat.eqb negb].
      destruct (is_nil (buf b ++ firstn (avail b) p)) eqn:E2.
      - apply is_nil_true in E2. apply app_eq_nil in E2 as [E2 _]. apply is_nil_false in E. congruence.
      - unfold sink_write. 
        destruct ((if (_ <? _) && (_ =? 0) then 2 else _) =? 0) eqn:Z; (split; [reflexivity|]); cbn [set_buf berr buf]; [right; reflexivity|left].
        now apply Nat.eqb_neq in Z. }
    destruct (bflush b0 k0) as [[[e1 b1] es] k1]. destruct F as [-> [He|Hb]].
    + rewrite !bwrite_err by exact He. reflexivity.
    + rewrite IH; [reflexivity|now apply outs_wf_tl|]. unfold need. rewrite Hb. cbn [is_nil]. rewrite skipn_length. lia.
Qed.
Corollary wfuel_enough b k0 p extra : outs_wf k0 = true ->
  bwrite (wfuel p + extra) b k0 p = bwrite (wfuel p) b k0 p.
Proof. intros Hk. apply bwrite_fuel; [exact Hk|]. unfold need, wfuel. destruct (is_nil (buf b)); lia. Qed.

(* ---------- corollaries over histories: stream equality, crash points, acknowledged data ---------- *)
Lemma concat_map_concat {A} (g : list (list (list A))) : concat (map (@concat A) g) = concat (concat g).
Proof. induction g as [|a r IH]; cbn; [reflexivity|]. now rewrite concat_app, IH. Qed.
Lemma Grp_stream acc sw b : Grp acc sw b -> concat sw ++ b = concat acc.
Proof. intros (g & r & -> & -> & ->). now rewrite concat_app, concat_map_concat. Qed.

Theorem stream_rel_thm c outs ops : reliable outs = true ->
  let '(s, tr) := run (init c outs) ops in
  concat (received (all_evs tr)) ++ buf (w s) = concat (accepted ops).
Proof. intros Hr. pose proof (whole_thm c outs ops Hr) as H. destruct (run (init c outs) ops) as [s tr].
  destruct H as [H _]. now apply Grp_stream. Qed.

Lemma run_app fx a : forall s b,
  run_gen fx s (a ++ b) =
    let '(s1, t1) := run_gen fx s a in let '(s2, t2) := run_gen fx s1 b in (s2, t1 ++ t2).
Proof. induction a as [|o r IH]; intros s b; cbn [app run_gen].
  - destruct (run_gen fx s b) as [s2 t2]. reflexivity.
  - destruct (step_gen fx s o) as [[s1 rs] es]. rewrite IH. destruct (run_gen fx s1 r) as [s2 t1].
    destruct (run_gen fx s2 b) as [s3 t2]. reflexivity. Qed.
Lemma all_evs_app a b : all_evs (a ++ b) = all_evs a ++ all_evs b.
Proof. unfold all_evs. now rewrite map_app, concat_app. Qed.

(* a crash after any prefix ops1 of any history: what the sink holds then is whole-write aligned
   (whole_thm for ops1) and everything the sink holds later extends it *)
Theorem crash_thm c outs ops1 ops2 : reliable outs = true ->
  let '(s1, tr1) := run (init c outs) ops1 in
  let '(s2, tr2) := run (init c outs) (ops1 ++ ops2) in
  Grp (accepted ops1) (received (all_evs tr1)) (buf (w s1)) /\
  exists more, tr2 = tr1 ++ more /\ received (all_evs tr2) = received (all_evs tr1) ++ received (all_evs more).
Proof. intros Hr. pose proof (whole_thm c outs ops1 Hr) as H. unfold run in *. rewrite run_app.
  destruct (run_gen true (init c outs) ops1) as [s1 tr1]. destruct (run_gen true s1 ops2) as [s2 t2].
  split; [apply H|]. exists t2. split; [reflexivity|]. now rewrite all_evs_app, received_app. Qed.

(* everything accepted before a Sync / processed tick / Stop is in the sink at every later point *)
Theorem acked_thm c outs ops o ops2 : reliable outs = true ->
  flushing o (loop (fst (run (init c outs) ops))) = true ->
  let '(s2, tr2) := run (init c outs) (ops ++ o :: ops2) in
  exists more, concat (received (all_evs tr2)) = concat (accepted ops) ++ more.
Proof. intros Hr Hfl. pose proof (sync_thm c outs ops o Hr) as Hs. pose proof (stream_rel_thm c outs (ops ++ [o]) Hr) as Hst.
  unfold run in *. change (o :: ops2) with ([o] ++ ops2). rewrite app_assoc, run_app, run_app. rewrite run_app in Hst.
  destruct (run_gen true (init c outs) ops) as [s0 tr0]. cbn [fst] in Hfl. cbn [run_gen] in *. unfold step in Hs.
  destruct (step_gen true s0 o) as [[s1 r] es]. destruct (Hs Hfl) as [Hb _].
  destruct (run_gen true s1 ops2) as [s2 t2]. rewrite Hb, app_nil_r in Hst.
  exists (concat (received (all_evs t2))). rewrite all_evs_app, received_app, concat_app, Hst.
  rewrite accepted_app. unfold accepted at 2. destruct o; cbn in Hfl |- *; try discriminate; now rewrite !app_nil_r. Qed.

(* from a fresh syncer, any sink: bytes consumed = bytes in the sink ++ bytes still buffered *)
Theorem faulty_stream_thm fx c outs ops :
  let '(s, tr) := run_gen fx (init c outs) ops in
  consumed ops tr = concat (received (all_evs tr)) ++ buf (w s).
Proof. pose proof (stream_thm fx ops (init c outs) (fun _ => eq_refl)) as H.
  destruct (run_gen fx (init c outs) ops) as [s tr]. exact H. Qed.

Theorem stop_idempotent_thm fx s :
  let s1 := fst (fst (step_gen fx s Stop)) in
  let '(s2, r, es) := step_gen fx s1 Stop in
  w s2 = w s1 /\ inited s2 = inited s1 /\ stopped s2 = stopped s1 /\ loop s2 = loop s1 /\
  (es = [] \/ es = [ES]) /\ (reliable (k s1) = true -> r = RStop 0).
Proof. intros s1. apply stop_again. apply stop_reaches_done. Qed.

(* ---------- soundness of the executable oracle: what "S1" on an observation means ---------- *)
(* independent of the model: if the oracle accepts (ops, trace, alive) -- e.g. the trace recorded
   from the real implementation -- then that trace has the property *)
Lemma strip_sound q0 : forall x q', strip q0 x = Some q' -> exists g, q0 = g ++ q' /\ concat g = x.
Proof. induction q0 as [|b r IH]; intros x q' H.
  - cbn in H. destruct (is_nil x) eqn:E; [|discriminate]. injection H as <-. apply is_nil_true in E. exists []. auto.
  - cbn [strip] in H. destruct (is_nil x) eqn:E.
    + injection H as <-. apply is_nil_true in E. exists []. auto.
    + destruct ((length b <=? length x) && bytes_eqb b (firstn (length b) x)) eqn:C; [|discriminate].
      apply andb_true_iff in C as [_ C]. apply bytes_eqb_eq in C. destruct (IH _ _ H) as (g & -> & Hg).
      exists (b :: g). split; [reflexivity|]. cbn. rewrite Hg. rewrite C at 1. apply firstn_skipn. Qed.

Lemma deliver_sound es : forall q0 d q' d', deliver q0 d es = Some (q', d') ->
  exists gs, q0 = concat gs ++ q' /\ received es = map (@concat byte) gs.
Proof. induction es as [|[p n|] r IH]; intros q0 d q' d' H; cbn [deliver] in H.
  - injection H as <- <-. exists []. auto.
  - destruct (n =? length p) eqn:E; [|discriminate]. apply Nat.eqb_eq in E. destruct (strip q0 p) as [q1|] eqn:S; [|discriminate].
    destruct (strip_sound _ _ _ S) as (g & -> & Hg). destruct (IH _ _ _ _ H) as (gs & -> & Hr).
    exists (g :: gs). cbn [concat map]. split; [now rewrite app_assoc|].
    unfold received in *. cbn [map concat recv1 app]. subst n. now rewrite firstn_all, Hr, Hg.
  - exact (IH _ _ _ _ H). Qed.

(* invariant: accepted so far = groups delivered ++ queue; sink writes = the groups; bound; phase *)
Definition OG (sz : nat) (acc sw : list bytes) (p : phase) (s : ost) : Prop :=
  (exists groups, acc = concat groups ++ q s /\ sw = map (@concat byte) groups) /\ qlen (q s) <= sz /\ ph s = p.

Lemma OG_deliver acc sw qin d es q' d' :
  (exists groups, acc = concat groups ++ qin /\ sw = map (@concat byte) groups) ->
  deliver qin d es = Some (q', d') ->
  exists groups, acc = concat groups ++ q' /\ sw ++ received es = map (@concat byte) groups.
Proof. intros (g & Ha & Hs) H. destruct (deliver_sound _ _ _ _ _ H) as (gs & -> & Hr).
  exists (g ++ gs). rewrite concat_app, map_app, Hs, Hr, Ha. now rewrite app_assoc. Qed.

Lemma flushed_inv o p s' : flushed o p = Some s' ->
  exists q1, o = Some (q1, false) /\ all_empty q1 = true /\ s' = {| q := q1; dirty := false; ph := p |}.
Proof. unfold flushed. destruct o as [[q1 d1]|]; [|discriminate]. destruct (all_empty q1) eqn:E; [|discriminate].
  destruct d1; cbn; [discriminate|]. intros H. injection H as <-. eauto. Qed.

Lemma ostep_sound sz acc sw s o r es s' : OG sz acc sw (ph s) s -> ostep sz s o r es = Some s' ->
  OG sz (acc ++ acc1 o) (sw ++ received es) (phase_step (ph s) o) s' /\ res_ok o r.
Proof. intros (HG & Hl & _) H.
  assert (FL : forall p, flushed (deliver (q s) (dirty s) es) p = Some s' ->
               OG sz (acc ++ []) (sw ++ received es) p s').
  { intros p Hf. destruct (flushed_inv _ _ _ Hf) as (q1 & Hd & He & ->).
    destruct (OG_deliver acc sw _ _ _ _ _ HG Hd) as (g & Ha & Hs). unfold OG; cbn [q ph].
    rewrite app_nil_r. split; [eauto|]. split; [|reflexivity]. apply all_empty_concat in He. unfold qlen. rewrite He. cbn. lia. }
  destruct o as [bs| | |], r; cbn [ostep] in H; try discriminate.
  - destruct ((n =? length bs) && (err =? 0)) eqn:C; [|discriminate]. apply andb_true_iff in C as [C1 C2].
    apply Nat.eqb_eq in C1, C2. destruct (deliver (q s ++ [bs]) (dirty s) es) as [[q1 d1]|] eqn:D; [|discriminate].
    destruct (qlen q1 <=? sz) eqn:L; [|discriminate]. injection H as <-. apply Nat.leb_le in L.
    assert (HG' : exists groups, acc ++ [bs] = concat groups ++ (q s ++ [bs]) /\ sw = map (@concat byte) groups).
    { destruct HG as (g & -> & Hs). exists g. now rewrite app_assoc. }
    destruct (OG_deliver _ sw _ _ _ _ _ HG' D) as (g & Ha & Hs).
    split; [|cbn; auto]. unfold OG; cbn [q ph acc1 phase_step]. split; [eauto|]. split; [exact L|]. destruct (ph s); reflexivity.
  - destruct (err =? 0) eqn:E; [|discriminate]. apply Nat.eqb_eq in E. split; [|exact E]. cbn [acc1 phase_step]. now apply FL.
  - split; [|exact I]. cbn [acc1 phase_step]. destruct (ph s) eqn:P.
    + destruct (negb delivered && is_nil es) eqn:C; [|discriminate]. injection H as <-. apply andb_true_iff in C as [_ C].
      apply is_nil_true in C. subst es. unfold received; cbn. rewrite !app_nil_r. unfold OG. rewrite P. auto.
    + destruct delivered; [|discriminate]. now apply FL.
    + destruct (negb delivered && is_nil es) eqn:C; [|discriminate]. injection H as <-. apply andb_true_iff in C as [_ C].
      apply is_nil_true in C. subst es. unfold received; cbn. rewrite !app_nil_r. unfold OG. rewrite P. auto.
  - destruct (err =? 0) eqn:E; [|discriminate]. apply Nat.eqb_eq in E. split; [|exact E]. cbn [acc1].
    replace (phase_step (ph s) Stop) with (match ph s with Running => Stopped | p => p end) by (destruct (ph s); reflexivity).
    now apply FL.
Qed.

Lemma orun_sound sz ops : forall tr acc sw s s', OG sz acc sw (ph s) s -> orun sz s ops tr = Some s' ->
  OG sz (acc ++ accepted ops) (sw ++ received (all_evs tr)) (fold_left phase_step ops (ph s)) s' /\
  Forall2 res_ok ops (map fst tr).
Proof. induction ops as [|o r IH]; intros tr acc sw s s' HG H; destruct tr as [|[rs es] tr]; cbn [orun] in H; try discriminate.
  - injection H as <-. unfold accepted, all_evs, received. cbn. rewrite !app_nil_r. split; [exact HG|constructor].
  - destruct (ostep sz s o rs es) as [s1|] eqn:S; [|discriminate]. destruct (ostep_sound _ _ _ _ _ _ _ _ HG S) as [HG1 Hr].
    assert (P1 : ph s1 = phase_step (ph s) o) by (destruct HG1 as (_ & _ & ?); assumption).
    rewrite <- P1 in HG1. destruct (IH _ _ _ _ _ HG1 H) as [HG2 Hrs].
    unfold accepted, all_evs in *. cbn [map concat fold_left fst snd]. rewrite received_app, !app_assoc, <- P1.
    split; [exact HG2|constructor; assumption]. Qed.

Theorem oracle_sound c ops tr alive : strong_ok c ops tr alive = true ->
  (exists groups rest, accepted ops = concat groups ++ rest /\ received (all_evs tr) = map (@concat byte) groups /\
                       length (concat rest) <= eff_size c) /\
  Forall2 res_ok ops (map fst tr) /\ alive = is_running (spec_phase ops).
Proof. unfold strong_ok. destruct (orun (eff_size c) oinit ops tr) as [s'|] eqn:H; [|discriminate]. intros Ha.
  assert (G0 : OG (eff_size c) [] [] (ph oinit) oinit).
  { unfold OG, oinit, qlen; cbn. split; [exists []; auto|]. split; [lia|reflexivity]. }
  destruct (orun_sound _ _ _ _ _ _ _ G0 H) as [((g & Hacc & Hsw) & Hl & Hp) Hr]. cbn [app] in *.
  split; [exists g, (q s'); auto|]. split; [exact Hr|]. apply eqb_prop in Ha. rewrite Ha, Hp. reflexivity. Qed.

(* the strong oracle judges EVERY point of the history, not only its end: acceptance is prefix-closed,
   so after each operation the bytes held back are whole writes of at most the configured size *)
Lemma orun_prefix sz ops : forall tr s s' n, orun sz s ops tr = Some s' ->
  exists s1, orun sz s (firstn n ops) (firstn n tr) = Some s1.
Proof. induction ops as [|o r IH]; intros tr s s' n H; destruct tr as [|[rs es] tr]; cbn [orun] in H; try discriminate.
  - rewrite !firstn_nil. exists s. reflexivity.
  - destruct n as [|n]; [exists s; reflexivity|]. cbn [firstn orun].
    destruct (ostep sz s o rs es) as [s1|]; [|discriminate]. exact (IH _ _ _ n H). Qed.

Theorem oracle_sound_every_point c ops tr alive n : strong_ok c ops tr alive = true ->
  exists groups rest, accepted (firstn n ops) = concat groups ++ rest /\
    received (all_evs (firstn n tr)) = map (@concat byte) groups /\ length (concat rest) <= eff_size c.
Proof. unfold strong_ok. destruct (orun (eff_size c) oinit ops tr) as [s'|] eqn:H; [|discriminate]. intros _.
  destruct (orun_prefix _ _ _ _ _ n H) as (s1 & H1).
  assert (G0 : OG (eff_size c) [] [] (ph oinit) oinit).
  { unfold OG, oinit, qlen; cbn. split; [exists []; auto|]. split; [lia|reflexivity]. }
  destruct (orun_sound _ _ _ _ _ _ _ G0 H1) as [((g & Hacc & Hsw) & Hl & _) _]. cbn [app] in *.
  exists g, (q s1). auto. Qed.

(* the bound every theorem and both oracles use IS the configured Size: no rounding, no minimum;
   only Size 0 (zap's default, 256 KiB) and negative sizes (bufio's default, 4096) are replaced *)
Theorem size_configured_thm (c : Z) :
  ((0 < c)%Z -> Z.of_nat (eff_size c) = c) /\ (c = 0%Z -> eff_size c = 256 * 1024) /\ ((c < 0)%Z -> eff_size c = 4096).
Proof. with_strategy transparent [eff_size] unfold eff_size. split; [|split]; intros H.
  - destruct (c =? 0)%Z eqn:E1; [apply Z.eqb_eq in E1; lia|]. destruct (c <? 0)%Z eqn:E2; [apply Z.ltb_lt in E2; lia|].
    apply Z2Nat.id. lia.
  - subst c. reflexivity.
  - destruct (c =? 0)%Z eqn:E1; [apply Z.eqb_eq in E1; lia|]. destruct (c <? 0)%Z eqn:E2; [reflexivity|apply Z.ltb_ge in E2; lia]. Qed.

(* hence, for a positive configured Size, the bytes held back never exceed that very number *)
Theorem held_configured_thm c outs ops : (0 < c)%Z -> reliable outs = true ->
  (Z.of_nat (length (buf (w (fst (run (init c outs) ops))))) <= c)%Z.
Proof. intros Hc Hr. pose proof (whole_thm c outs ops Hr) as H. destruct (run (init c outs) ops) as [s tr].
  destruct H as [_ H]. cbn [fst]. destruct (size_configured_thm c) as [Hs _]. rewrite <- (Hs Hc). lia. Qed.

Theorem weak_oracle_sound ops : forall tr p, wrun p ops tr = true ->
  exists p', p ++ consumed ops tr = concat (received (all_evs tr)) ++ p'.
Proof. induction ops as [|o r IH]; intros tr p H; destruct tr as [|[rs es] tr]; cbn [wrun] in H; try discriminate.
  - exists p. unfold consumed, all_evs, received. cbn. now rewrite app_nil_r.
  - destruct (wstep p o rs es) as [p1|] eqn:S; [|discriminate]. apply wstep_sound in S. destruct (IH _ _ H) as (p' & Hp).
    exists p'. unfold consumed, all_evs in *. cbn [combine map concat snd]. rewrite received_app, concat_app, app_assoc, S.
    rewrite <- !app_assoc. f_equal. exact Hp. Qed.

(* C12 — stub *)
From Zap Require Import Base.Wire C12.Model.

(* C12 -- proofs about the interleaving model C12/Conc.v *)
From Coq Require Import List Bool Arith Lia.
Import ListNotations.
From Zap Require Import C12.Conc.

Lemma nth_upd_same {A} (l : list A) : forall i x y, nth_error l i = Some y -> nth_error (upd_nth l i x) i = Some x.
Proof. induction l as [|a r IH]; intros [|i] x y H; cbn in *; try discriminate; eauto. Qed.
Lemma nth_upd_other {A} (l : list A) : forall i j x, i <> j -> nth_error (upd_nth l i x) j = nth_error l j.
Proof. induction l as [|a r IH]; intros [|i] [|j] x H; cbn; auto; try congruence; try (apply IH; congruence). Qed.

Definition wt (pc : tpc) : Prop := pc = XWon \/ pc = XWait.
Definition TI (s : cst) (i : nat) (t : thread) : Prop :=
  (holds (fst t) = true <-> holder s = Some (OThr i)) /\
  (wt (fst t) -> stp s = true) /\
  (past_wait (fst t) = true -> lp s = LExit) /\
  fst t <> XWaited.
Definition GI (s : cst) : Prop :=
  (holder s = Some OLoop <-> lp s = LHold) /\
  (ini s = false <-> lp s = LNone) /\
  (stp s = true -> ini s = true) /\
  (lp s = LExit -> stp s = true) /\
  (forall i, holder s = Some (OThr i) -> exists t, nth_error (thr s) i = Some t) /\
  (stp s = true -> lp s = LExit \/ exists i t, nth_error (thr s) i = Some t /\ wt (fst t)).
Definition Inv (s : cst) : Prop := GI s /\ forall i t, nth_error (thr s) i = Some t -> TI s i t.

Lemma classic_wt pc : wt pc \/ ~ wt pc.
Proof. unfold wt. destruct pc; try (right; intros [?|?]; discriminate); auto. Qed.

Definition keeps (e : eff) : bool := match e with ENone | EInit | EStopWin => true | _ => false end.

(* one generic preservation lemma for all thread steps *)
Lemma eff_inv s i pc todo pc1 todo1 e :
  Inv s -> nth_error (thr s) i = Some (pc, todo) ->
  (e = ELock -> holder s = None /\ holds pc = false /\ holds pc1 = true) ->
  (e = EUnlock -> holds pc = true /\ holds pc1 = false) ->
  (keeps e = true -> holds pc1 = holds pc) ->
  (e = EInit -> ini s = false) ->
  (e = EStopWin -> ini s = true /\ pc1 = XWon) ->
  (wt pc1 -> stp s = true \/ e = EStopWin) ->
  (past_wait pc1 = true -> lp s = LExit) ->
  pc1 <> XWaited ->
  (wt pc -> ~ wt pc1 -> lp s = LExit) ->
  Inv (apply_eff s i e (pc1, todo1)).
Proof. intros [(Gb & Gc & Gd & Gg & Ga & Gh) HT] Hi HL HU HK HI HS HW HP HX HH.
  pose proof (HT i _ Hi) as (Th & Tw & Tp & Tx). cbn [fst] in *.
  assert (Hnew : nth_error (upd_nth (thr s) i (pc1, todo1)) i = Some (pc1, todo1)) by (eapply nth_upd_same; eauto).
  set (s' := apply_eff s i e (pc1, todo1)).
  assert (Hth : thr s' = upd_nth (thr s) i (pc1, todo1)) by (destruct e; reflexivity).
  assert (Hhold : holder s' = match e with ELock => Some (OThr i) | EUnlock => None | _ => holder s end) by (destruct e; reflexivity).
  assert (Hlp : lp s' = match e with EInit => LSelect | _ => lp s end) by (destruct e; reflexivity).
  assert (Hini : ini s' = match e with EInit => true | _ => ini s end) by (destruct e; reflexivity).
  assert (Hstp : stp s' = match e with EStopWin => true | _ => stp s end) by (destruct e; reflexivity).
  (* facts about the old state implied by the side conditions *)
  assert (FL : e = ELock -> holder s = None /\ lp s <> LHold).
  { intros E. destruct (HL E) as (Hn & _). split; [exact Hn|]. intros H. apply Gb in H. congruence. }
  assert (FU : e = EUnlock -> holder s = Some (OThr i) /\ lp s <> LHold).
  { intros E. destruct (HU E) as (Hp & _). apply Th in Hp. split; [exact Hp|]. intros H. apply Gb in H. congruence. }
  assert (FI : e = EInit -> lp s = LNone /\ stp s = false /\ holder s <> Some OLoop).
  { intros E. specialize (HI E). split; [now apply Gc|]. split.
    - destruct (stp s) eqn:Es; [|reflexivity]. specialize (Gd eq_refl). congruence.
    - intros H. apply Gb in H. apply Gc in HI. congruence. }
  split.
  - (* global part *)
    unfold GI. rewrite Hth, Hhold, Hlp, Hini, Hstp. split; [|split; [|split; [|split; [|split]]]].
    + destruct e; try exact Gb.
      * destruct (FL eq_refl). split; [discriminate|tauto].
      * destruct (FU eq_refl). split; [discriminate|tauto].
      * destruct (FI eq_refl) as (? & ? & ?). split; [tauto|discriminate].
    + destruct e; try exact Gc. split; discriminate.
    + destruct e; auto. intros _. apply (HS eq_refl).
    + destruct e; auto. discriminate.
    + intros k Hk. destruct (Nat.eq_dec k i) as [->|Hne]; [eauto|].
      rewrite nth_upd_other by congruence. apply Ga. destruct e; try exact Hk; try discriminate. congruence.
    + intros Hs'. destruct e.
      4: { destruct (FI eq_refl) as (_ & ? & _). congruence. }
      4: { right. exists i, (pc1, todo1). split; [exact Hnew|]. left. apply (HS eq_refl). }
      all: (destruct (Gh Hs') as [H|(j & t & Hj & Hw)]; [left; exact H|];
        destruct (Nat.eq_dec j i) as [->|Hji];
        [ rewrite Hi in Hj; injection Hj as <-; cbn [fst] in Hw;
          destruct (classic_wt pc1) as [W|W]; [right; exists i, (pc1, todo1); split; [exact Hnew|exact W]|left; now apply HH]
        | right; exists j, t; split; [rewrite nth_upd_other by congruence; exact Hj|exact Hw] ]).
  - (* per-thread part *)
    intros j t Hj. rewrite Hth in Hj. unfold TI. rewrite Hhold, Hlp, Hstp. destruct (Nat.eq_dec j i) as [->|Hji].
    + rewrite Hnew in Hj. injection Hj as <-. cbn [fst]. split; [|split; [|split]].
      * destruct e.
        -- rewrite (HK eq_refl). exact Th.
        -- destruct (HL eq_refl) as (_ & _ & ->). tauto.
        -- destruct (HU eq_refl) as (_ & ->). split; discriminate.
        -- rewrite (HK eq_refl). exact Th.
        -- rewrite (HK eq_refl). exact Th.
      * intros Hw. destruct (HW Hw) as [H| ->]; [|reflexivity]. destruct e; auto.
      * intros Hp. specialize (HP Hp). destruct e; auto. destruct (FI eq_refl) as (? & _). congruence.
      * exact HX.
    + rewrite nth_upd_other in Hj by congruence. pose proof (HT j t Hj) as (Jh & Jw & Jp & Jx).
      split; [|split; [|split]].
      * destruct e; try exact Jh.
        -- destruct (FL eq_refl) as (Hn & _). rewrite Hn in Jh. split; [intros H; apply Jh in H; discriminate|congruence].
        -- destruct (FU eq_refl) as (Hn & _). rewrite Hn in Jh. split; [intros H; apply Jh in H; congruence|discriminate].
      * intros Hw. specialize (Jw Hw). destruct e; auto.
      * intros Hp. specialize (Jp Hp). destruct e; auto. destruct (FI eq_refl) as (? & _). congruence.
      * exact Jx.
Qed.

(* ---------- every move preserves the invariant (the repaired shape: wul = false) ---------- *)
Lemma free_none s : is_free s = true -> holder s = None.
Proof. unfold is_free. destruct (holder s); [discriminate|reflexivity]. Qed.
Lemma exited_eq s : exited s = true -> lp s = LExit.
Proof. unfold exited. destruct (lp s); try discriminate; reflexivity. Qed.

Lemma tstep_inv s i pc todo pc1 todo1 e :
  Inv s -> nth_error (thr s) i = Some (pc, todo) -> tnext false s pc todo = Some (pc1, todo1, e) ->
  Inv (apply_eff s i e (pc1, todo1)).
Proof. intros HI Hi Hn. pose proof HI as [(Gb & Gc & Gd & Gg & Ga & Gh) HT].
  pose proof (HT i _ Hi) as (Th & Tw & Tp & Tx). cbn [fst] in *.
  destruct pc; cbn [tnext] in Hn.
  - (* Idle *) destruct todo as [|c r]; [discriminate|]. destruct (is_free s) eqn:F; [|discriminate].
    apply free_none in F. injection Hn as <- <- <-.
    eapply eff_inv; eauto; try discriminate; unfold wt; destruct c; cbn; intuition discriminate.
  - (* WLocked *) injection Hn as <- <- <-.
    eapply eff_inv; eauto; try discriminate; unfold wt; destruct (ini s) eqn:E; cbn; intuition discriminate.
  - (* WDone *) injection Hn as <- <- <-. eapply eff_inv; eauto; try discriminate; unfold wt; cbn; intuition discriminate.
  - (* SLocked *) injection Hn as <- <- <-. eapply eff_inv; eauto; try discriminate; unfold wt; cbn; intuition discriminate.
  - (* SDone *) injection Hn as <- <- <-. eapply eff_inv; eauto; try discriminate; unfold wt; cbn; intuition discriminate.
  - (* XLocked *) destruct (ini s && negb (stp s)) eqn:C; injection Hn as <- <- <-.
    + apply andb_true_iff in C as [C1 C2]. eapply eff_inv; eauto; try discriminate; unfold wt; cbn; intuition discriminate.
    + eapply eff_inv; eauto; try discriminate; unfold wt; cbn; intuition discriminate.
  - (* XLost *) injection Hn as <- <- <-. eapply eff_inv; eauto; try discriminate; unfold wt; cbn; intuition discriminate.
  - (* XWon *) injection Hn as <- <- <-. assert (stp s = true) by (apply Tw; left; reflexivity).
    eapply eff_inv; eauto; try discriminate; unfold wt; cbn; intuition discriminate.
  - (* XWaited *) congruence.
  - (* XWait *) destruct (exited s) eqn:X; [|discriminate]. apply exited_eq in X. injection Hn as <- <- <-.
    eapply eff_inv; eauto; try discriminate; unfold wt; cbn; intuition discriminate.
  - (* XRelock *) destruct (is_free s) eqn:F; [|discriminate]. apply free_none in F. injection Hn as <- <- <-.
    specialize (Tp eq_refl). eapply eff_inv; eauto; try discriminate; unfold wt; cbn; intuition discriminate.
  - (* XSLocked *) injection Hn as <- <- <-. specialize (Tp eq_refl).
    eapply eff_inv; eauto; try discriminate; unfold wt; cbn; intuition discriminate.
  - (* XSDone *) injection Hn as <- <- <-. eapply eff_inv; eauto; try discriminate; unfold wt; cbn; intuition discriminate.
Qed.

Lemma set_lp_inv s h l :
  Inv s ->
  (h = holder s \/ (holder s = None /\ h = Some OLoop) \/ (holder s = Some OLoop /\ h = None)) ->
  (h = Some OLoop <-> l = LHold) ->
  l <> LNone -> lp s <> LNone -> lp s <> LExit ->
  (l = LExit -> stp s = true) ->
  Inv (set_lp s h l).
Proof. intros [(Gb & Gc & Gd & Gg & Ga & Gh) HT] Hh Hb Hl Hn Hx Hs. split.
  - unfold GI, set_lp; cbn. split; [exact Hb|]. split; [|split; [exact Gd|split; [exact Hs|split]]].
    + split; [intros H; apply Gc in H; congruence|congruence].
    + intros k Hk. apply Ga. destruct Hh as [->|[[_ ->]|[_ ->]]]; [exact Hk|discriminate|discriminate].
    + intros H. destruct (Gh H) as [H'|H']; [congruence|right; exact H'].
  - intros j t Hj. cbn in Hj. destruct (HT j t Hj) as (Jh & Jw & Jp & Jx). unfold TI, set_lp; cbn. split; [|split; [|split]]; auto.
    + destruct Hh as [->|[[Hn' ->]|[Hn' ->]]]; [exact Jh| |]; rewrite Hn' in Jh; split; intros H; try discriminate; apply Jh in H; discriminate.
    + intros Hp. specialize (Jp Hp). congruence.
Qed.

Lemma step_inv s m : Inv s -> Inv (step false s m).
Proof. intros HI. pose proof HI as [(Gb & Gc & Gd & Gg & Ga & Gh) HT]. destruct m as [i| | |]; cbn [step].
  - destruct (nth_error (thr s) i) as [[pc todo]|] eqn:Hi; [|exact HI].
    destruct (tnext false s pc todo) as [[[pc1 todo1] e]|] eqn:Hn; [|exact HI]. eapply tstep_inv; eauto.
  - destruct (lp s) eqn:L; try exact HI. apply set_lp_inv; auto; try congruence.
    split; [intros H; apply Gb in H; congruence|discriminate].
  - destruct (lp s) eqn:L; try exact HI. destruct (stp s) eqn:S; [|exact HI]. apply set_lp_inv; auto; try congruence.
    split; [intros H; apply Gb in H; congruence|discriminate].
  - destruct (lp s) eqn:L; try exact HI.
    + destruct (is_free s) eqn:F; [|exact HI]. apply free_none in F. apply set_lp_inv; auto; try congruence. tauto.
    + assert (holder s = Some OLoop) by (apply Gb; reflexivity). apply set_lp_inv; auto; try congruence.
      split; discriminate.
Qed.

Lemma init_inv progs : Inv (cinit progs).
Proof. split.
  - unfold GI, cinit; cbn. repeat split; try discriminate; auto.
  - intros i t Hi. cbn in Hi. rewrite nth_error_map in Hi. destruct (nth_error progs i); [|discriminate].
    injection Hi as <-. unfold TI, wt; cbn. repeat split; try discriminate; intuition discriminate.
Qed.
Lemma run_inv progs sched : Inv (crun false progs sched).
Proof. unfold crun. generalize (init_inv progs). generalize (cinit progs).
  induction sched as [|m r IH]; intros s HI; cbn; [exact HI|]. apply IH. now apply step_inv. Qed.

(* ---------- progress: from every reachable state the threads can run to completion ---------- *)
Definition cost (c : call) : nat := match c with CStop => 7 | _ => 3 end.
Definition rank (pc : tpc) : nat :=
  match pc with
  | Idle => 0 | WLocked => 2 | WDone => 1 | SLocked => 2 | SDone => 1 | XLocked => 6 | XLost => 1
  | XWon => 5 | XWaited => 4 | XWait => 4 | XRelock => 3 | XSLocked => 2 | XSDone => 1
  end.
Fixpoint csum (l : list call) : nat := match l with [] => 0 | c :: r => cost c + csum r end.
Definition tm (t : thread) : nat := rank (fst t) + csum (snd t).
Definition loopw (l : lpc) : nat := match l with LNone => 0 | LSelect => 1 | LWant => 3 | LHold => 2 | LExit => 0 end.
Fixpoint tsum (l : list thread) : nat := match l with [] => 0 | t :: r => tm t + tsum r end.
Definition measure (s : cst) : nat := 2 * tsum (thr s) + loopw (lp s).

Lemma tsum_upd l : forall i old x, nth_error l i = Some old -> tsum (upd_nth l i x) + tm old = tsum l + tm x.
Proof. induction l as [|a r IH]; intros [|i] old x H; cbn -[tm] in *; try discriminate.
  - injection H as ->. lia.
  - specialize (IH i old x H). lia. Qed.

Lemma tnext_dec wul s pc todo pc1 todo1 e :
  tnext wul s pc todo = Some (pc1, todo1, e) -> tm (pc1, todo1) < tm (pc, todo).
Proof. unfold tm. destruct pc; cbn [tnext fst snd]; intros H.
  - destruct todo as [|c r]; [discriminate|]. destruct (is_free s); [|discriminate]. injection H as <- <- <-.
    destruct c; cbn; lia.
  - injection H as <- <- <-. cbn; lia.
  - injection H as <- <- <-. cbn; lia.
  - injection H as <- <- <-. cbn; lia.
  - injection H as <- <- <-. cbn; lia.
  - destruct (ini s && negb (stp s)); injection H as <- <- <-; cbn; lia.
  - injection H as <- <- <-. cbn; lia.
  - destruct wul; [destruct (exited s); [|discriminate]|]; injection H as <- <- <-; cbn; lia.
  - injection H as <- <- <-. cbn; lia.
  - destruct (exited s); [|discriminate]. injection H as <- <- <-. cbn; lia.
  - destruct (is_free s); [|discriminate]. injection H as <- <- <-. cbn; lia.
  - injection H as <- <- <-. cbn; lia.
  - injection H as <- <- <-. cbn; lia.
Qed.

Lemma measure_tstep wul s i pc todo pc1 todo1 e :
  nth_error (thr s) i = Some (pc, todo) -> tnext wul s pc todo = Some (pc1, todo1, e) ->
  measure (apply_eff s i e (pc1, todo1)) < measure s.
Proof. intros Hi Hn. apply tnext_dec in Hn. pose proof (tsum_upd (thr s) i _ (pc1, todo1) Hi) as Hs.
  unfold measure. assert (thr (apply_eff s i e (pc1, todo1)) = upd_nth (thr s) i (pc1, todo1)) as -> by (destruct e; reflexivity).
  assert (loopw (lp (apply_eff s i e (pc1, todo1))) <= loopw (lp s) + 1) by (destruct e; cbn; lia). lia. Qed.

Lemma not_all_done l : forallb t_done l = false ->
  exists i t, nth_error l i = Some t /\ t_done t = false.
Proof. induction l as [|a r IH]; cbn; [discriminate|]. destruct (t_done a) eqn:E; cbn.
  - intros H. destruct (IH H) as (i & t & Hi & Ht). exists (S i), t. auto.
  - intros _. exists 0, a. auto. Qed.

Lemma progress s : Inv s -> all_done s = false -> exists m, measure (step false s m) < measure s.
Proof. intros [(Gb & Gc & Gd & Gg & Ga & Gh) HT] Hnd. destruct (holder s) as [[i|]|] eqn:Hh.
  - (* a thread holds the mutex: it can always move *)
    destruct (Ga i eq_refl) as ([pc todo] & Hi). destruct (HT i _ Hi) as (Th & Tw & Tp & Tx). cbn [fst] in *.
    assert (Hp : holds pc = true) by (apply Th; exact Hh).
    assert (exists r, tnext false s pc todo = Some r) as [[[pc1 todo1] e] Hn].
    { destruct pc; cbn [tnext holds] in *; try discriminate; try congruence; eauto. destruct (ini s && negb (stp s)); eauto. }
    exists (MT i). cbn [step]. rewrite Hi, Hn. eapply (measure_tstep false); eauto.
  - (* the flush loop holds it *)
    assert (L : lp s = LHold) by (apply Gb; reflexivity). exists MLoop. cbn [step]. rewrite L. unfold measure, set_lp; cbn. rewrite L. cbn. lia.
  - (* free *)
    destruct (not_all_done _ Hnd) as (i & [pc todo] & Hi & Hd). destruct (HT i _ Hi) as (Th & Tw & Tp & Tx). cbn [fst] in *.
    assert (Hp : holds pc = false) by (destruct (holds pc); [assert (holder s = Some (OThr i)) by (now apply Th); congruence|reflexivity]).
    assert (F : is_free s = true) by (unfold is_free; now rewrite Hh).
    destruct pc; cbn [holds] in Hp; try discriminate.
    + destruct todo as [|c r]; [discriminate|]. exists (MT i). cbn [step]. rewrite Hi. cbn [tnext]. rewrite F.
      eapply (measure_tstep false); eauto. cbn [tnext]. now rewrite F.
    + destruct (exited s) eqn:X.
      * exists (MT i). cbn [step]. rewrite Hi. cbn [tnext]. rewrite X. eapply (measure_tstep false); eauto. cbn [tnext]. now rewrite X.
      * assert (S : stp s = true) by (apply Tw; right; reflexivity). specialize (Gd S).
        destruct (lp s) eqn:L.
        -- assert (ini s = false) by (apply Gc; reflexivity). congruence.
        -- exists MStopSel. cbn [step]. rewrite L, S. unfold measure, set_lp; cbn. rewrite L. cbn. lia.
        -- exists MLoop. cbn [step]. rewrite L, F. unfold measure, set_lp; cbn. rewrite L. cbn. lia.
        -- assert (None = Some OLoop) by (apply Gb; reflexivity). discriminate.
        -- unfold exited in X. rewrite L in X. discriminate.
    + exists (MT i). cbn [step]. rewrite Hi. cbn [tnext]. rewrite F. eapply (measure_tstep false); eauto. cbn [tnext]. now rewrite F.
Qed.

Lemma complete n : forall s, measure s <= n -> Inv s -> exists sched', all_done (fold_left (step false) sched' s) = true.
Proof. induction n as [|n IH]; intros s Hm HI.
  - destruct (all_done s) eqn:D; [exists []; exact D|]. destruct (progress s HI D) as (m & Hlt). lia.
  - destruct (all_done s) eqn:D; [exists []; exact D|]. destruct (progress s HI D) as (m & Hlt).
    destruct (IH (step false s m) ltac:(lia) (step_inv s m HI)) as (sched' & H). exists (m :: sched'). exact H. Qed.

Theorem live_thm progs sched : exists sched', all_done (crun false progs (sched ++ sched')) = true.
Proof. destruct (complete _ (crun false progs sched) (le_n _) (run_inv progs sched)) as (s' & H).
  exists s'. unfold crun in *. rewrite fold_left_app. exact H. Qed.

(* ---------- after Stop the flush loop is gone ---------- *)
Theorem exit_after_wait progs sched i pc todo :
  nth_error (thr (crun false progs sched)) i = Some (pc, todo) -> past_wait pc = true ->
  lp (crun false progs sched) = LExit.
Proof. intros Hi Hp. destruct (run_inv progs sched) as [_ HT]. destruct (HT i _ Hi) as (_ & _ & Tp & _). now apply Tp. Qed.

Lemma done_idle l : forallb t_done l = true -> forall i t, nth_error l i = Some t -> fst t = Idle.
Proof. intros H i t Hi. apply nth_error_In in Hi. rewrite forallb_forall in H. specialize (H t Hi).
  destruct t as [[] []]; cbn in *; try discriminate; reflexivity. Qed.
Theorem exit_when_done progs sched : let s := crun false progs sched in
  all_done s = true -> stp s = true -> lp s = LExit.
Proof. intros s D S. destruct (run_inv progs sched) as [(_ & _ & _ & _ & _ & Gh) _]. fold s in Gh.
  destruct (Gh S) as [H|(i & t & Hi & [Hw|Hw])]; [exact H| |]; rewrite (done_idle _ D i t Hi) in Hw; discriminate. Qed.

Theorem exit_stable progs sched m : let s := crun false progs sched in
  lp s = LExit -> lp (step false s m) = LExit.
Proof. intros s L. destruct (run_inv progs sched) as [(Gb & Gc & Gd & Gg & Ga & Gh) HT]. fold s in Gb, Gc, Gd, Gg, Ga, Gh, HT.
  destruct m as [i| | |]; cbn [step]; rewrite ?L; auto.
  destruct (nth_error (thr s) i) as [[pc todo]|]; [|exact L]. destruct (tnext false s pc todo) as [[[pc1 todo1] e]|] eqn:Hn; [|exact L].
  destruct e; cbn; auto. (* EInit needs ini = false, impossible once the loop has exited *)
  assert (Hini : ini s = true) by (apply Gd, Gg, L). exfalso.
  destruct pc; cbn [tnext] in Hn; try rewrite Hini in Hn;
    try (destruct todo as [|c r]; [discriminate|]);
    repeat (match type of Hn with context [if ?c then _ else _] => destruct c end);
    try discriminate; injection Hn as _ _ E; discriminate.
Qed.

(* ---------- the #1428 shape deadlocks ---------- *)
Definition stuck_progs : list (list call) := [[CWrite; CStop]].
Definition stuck_sched : list mv := [MT 0; MT 0; MT 0; MTick; MT 0; MT 0].
Definition stuck_state : cst :=
  {| holder := Some (OThr 0); ini := true; stp := true; lp := LWant; thr := [(XWon, [])] |}.
Lemma stuck_reached : crun true stuck_progs stuck_sched = stuck_state.
Proof. vm_compute. reflexivity. Qed.
Lemma stuck_fix m : step true stuck_state m = stuck_state.
Proof. destruct m as [[|[|i]]| | |]; cbn; reflexivity. Qed.
Theorem lockwait_refuted :
  ~ (forall progs sched, exists sched', all_done (crun true progs (sched ++ sched')) = true).
Proof. intros H. destruct (H stuck_progs stuck_sched) as (sched' & D). unfold crun in D.
  rewrite fold_left_app in D. fold (crun true stuck_progs stuck_sched) in D. rewrite stuck_reached in D.
  assert (F : forall l, fold_left (step true) l stuck_state = stuck_state).
  { induction l as [|m r IH]; cbn; [reflexivity|]. now rewrite stuck_fix. }
  rewrite F in D. discriminate. Qed.
(* the same program and schedule complete under the repaired shape *)
Example stuck_sched_fine : all_done (crun false stuck_progs (stuck_sched ++ [MT 0; MLoop; MLoop; MStopSel; MT 0; MT 0; MT 0; MT 0])) = true.
Proof. vm_compute. reflexivity. Qed.

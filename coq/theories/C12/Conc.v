(* C12 -- interleaving model of BufferedWriteSyncer's synchronisation skeleton
   (zapcore/buffered_write_syncer.go): the mutex s.mu, the lazily started flushLoop goroutine,
   the stop channel (closed by the Stop that wins, under the lock) and the done channel
   (closed by flushLoop when it returns; awaited by that Stop OUTSIDE the lock).

   Any number of threads, each running any sequence of Write / Sync / Stop calls; a schedule
   is a list of moves: one atomic step of a thread, or of the flush loop (receive a tick,
   receive from the closed stop channel, acquire/release the mutex around its Sync).  A move
   that is not enabled (blocked on the mutex or on a channel) leaves the state unchanged.

   [wul = true] is the variant that waits for done while still holding the lock (the shape
   of issue 1428).

   Theorems (for wul = false, every program, every schedule): from every reachable state
   all threads can still run to completion (no deadlock); a thread that got past its wait
   finds the loop exited; when all calls have returned and some Stop took effect the loop
   has exited.  For wul = true a reachable state is exhibited from which nothing moves. *)
From Coq Require Import List Bool Arith Lia.
Import ListNotations.

Inductive call := CWrite | CSync | CStop.
(* program counter of a thread inside the current call *)
Inductive tpc :=
| Idle                      (* between calls *)
| WLocked | WDone           (* Write: holding mu before / after the body *)
| SLocked | SDone           (* Sync *)
| XLocked                   (* Stop: holding mu, before the critical section's decision *)
| XLost                     (* Stop: not initialised or already stopped; about to unlock and return *)
| XWon                      (* Stop: stopped = true, close(stop) done; still holding mu *)
| XWaited                   (* wul only: got past <-done while holding mu *)
| XWait                     (* unlocked, blocked in <-s.done *)
| XRelock                   (* past <-done, about to take mu for the final Sync *)
| XSLocked | XSDone.        (* final Sync under mu *)
Inductive lpc := LNone (* not started *) | LSelect | LWant (* got a tick, wants mu *) | LHold | LExit (* done closed *).
Inductive owner := OThr (i : nat) | OLoop.
Definition thread := (tpc * list call)%type.
Record cst := { holder : option owner; ini : bool; stp : bool; lp : lpc; thr : list thread }.
Inductive mv := MT (i : nat) | MTick | MStopSel | MLoop.

Definition holds (pc : tpc) : bool :=
  match pc with Idle | XWait | XRelock => false | _ => true end.

Fixpoint upd_nth {A} (l : list A) (i : nat) (x : A) : list A :=
  match l, i with
  | [], _ => []
  | _ :: r, 0 => x :: r
  | y :: r, S j => y :: upd_nth r j x
  end.

Inductive eff := ENone | ELock | EUnlock | EInit | EStopWin.
Definition is_free (s : cst) : bool := match holder s with None => true | Some _ => false end.
Definition exited (s : cst) : bool := match lp s with LExit => true | _ => false end.

(* next step of a thread: new pc, remaining calls, effect on the shared state; None = blocked / finished *)
Definition tnext (wul : bool) (s : cst) (pc : tpc) (todo : list call) : option (tpc * list call * eff) :=
  match pc with
  | Idle => match todo with
            | [] => None
            | c :: r => if is_free s
                        then Some (match c with CWrite => WLocked | CSync => SLocked | CStop => XLocked end, r, ELock)
                        else None
            end
  | WLocked => Some (WDone, todo, if ini s then ENone else EInit)       (* if !initialized { initialize() }; write *)
  | SLocked => Some (SDone, todo, ENone)
  | WDone | SDone | XLost | XSDone => Some (Idle, todo, EUnlock)
  | XLocked => if ini s && negb (stp s) then Some (XWon, todo, EStopWin) (* stopped = true; close(stop) *)
               else Some (XLost, todo, ENone)
  | XWon => if wul then (if exited s then Some (XWaited, todo, ENone) else None)   (* <-done under the lock *)
            else Some (XWait, todo, EUnlock)
  | XWaited => Some (XRelock, todo, EUnlock)
  | XWait => if exited s then Some (XRelock, todo, ENone) else None                (* <-done *)
  | XRelock => if is_free s then Some (XSLocked, todo, ELock) else None
  | XSLocked => Some (XSDone, todo, ENone)
  end.

Definition apply_eff (s : cst) (i : nat) (e : eff) (t : thread) : cst :=
  let th := upd_nth (thr s) i t in
  match e with
  | ENone => {| holder := holder s; ini := ini s; stp := stp s; lp := lp s; thr := th |}
  | ELock => {| holder := Some (OThr i); ini := ini s; stp := stp s; lp := lp s; thr := th |}
  | EUnlock => {| holder := None; ini := ini s; stp := stp s; lp := lp s; thr := th |}
  | EInit => {| holder := holder s; ini := true; stp := stp s; lp := LSelect; thr := th |}  (* go s.flushLoop() *)
  | EStopWin => {| holder := holder s; ini := ini s; stp := true; lp := lp s; thr := th |}
  end.
Definition set_lp (s : cst) (h : option owner) (l : lpc) : cst :=
  {| holder := h; ini := ini s; stp := stp s; lp := l; thr := thr s |}.

Definition step (wul : bool) (s : cst) (m : mv) : cst :=
  match m with
  | MT i => match nth_error (thr s) i with
            | Some (pc, todo) => match tnext wul s pc todo with
                                 | Some (pc1, todo1, e) => apply_eff s i e (pc1, todo1)
                                 | None => s
                                 end
            | None => s
            end
  | MTick => match lp s with LSelect => set_lp s (holder s) LWant | _ => s end           (* case <-s.ticker.C *)
  | MStopSel => match lp s with
                | LSelect => if stp s then set_lp s (holder s) LExit else s               (* case <-s.stop: return; close(done) *)
                | _ => s
                end
  | MLoop => match lp s with
             | LWant => if is_free s then set_lp s (Some OLoop) LHold else s              (* s.Sync(): mu.Lock() *)
             | LHold => set_lp s None LSelect                                             (* ... mu.Unlock(); back to select *)
             | _ => s
             end
  end.
Definition cinit (progs : list (list call)) : cst :=
  {| holder := None; ini := false; stp := false; lp := LNone; thr := map (fun p => (Idle, p)) progs |}.
Definition crun (wul : bool) (progs : list (list call)) (sched : list mv) : cst :=
  fold_left (step wul) sched (cinit progs).

Definition t_done (t : thread) : bool :=
  match t with (Idle, []) => true | _ => false end.
Definition all_done (s : cst) : bool := forallb t_done (thr s).
Definition past_wait (pc : tpc) : bool := match pc with XRelock | XSLocked | XSDone => true | _ => false end.

(* C12 -- model of zapcore.BufferedWriteSyncer (zapcore/buffered_write_syncer.go) over a
   model of bufio.Writer (bufio.go: Write, Flush, Available, Buffered, NewWriterSize),
   following the Go text.  The sequential part (this file): Write / Sync / tick / Stop as
   one atomic step each (every one of them runs under s.mu), with the lazily started
   flush goroutine reduced to the flag [loop].  The interleaving model of the lock, the
   stop/done channels and the flush loop is in C12/Conc.v.
   No proofs in this file. *)
From Coq Require Import List ZArith Bool Arith Lia.
From Coq.Strings Require Import Byte.
Import ListNotations.
From Zap Require Import Base.Wire.

Definition is_nil {A} (l : list A) : bool := match l with [] => true | _ => false end.

(* ------------------------------------------------------------------ *)
(* the wrapped WriteSyncer: a script of outcomes, one per call (Write or Sync), and the
   events it records.  An outcome says how many bytes the sink takes (None = all of
   them) and whether it returns an error.  When the script is exhausted the sink is
   reliable. *)
Record outcome := { o_short : option nat; o_err : bool }.
Definition out_ok : outcome := {| o_short := None; o_err := false |}.
Inductive ev := EW (p : bytes) (n : nat) (* Write(p) returned n: the sink holds p[:n] *) | ES (* Sync() *).
Definition sk := list outcome.
Definition next_out (k : sk) : outcome := match k with [] => out_ok | o :: _ => o end.

(* error classes: 0 nil, 1 the sink's own write error, 2 io.ErrShortWrite, +4 the sink's Sync error *)
Definition sink_write (k : sk) (p : bytes) : nat * nat * list ev * sk :=
  let o := next_out k in
  let n := match o_short o with None => length p | Some m => Nat.min m (length p) end in
  (n, if o_err o then 1 else 0, [EW p n], tl k).
Definition sink_sync (k : sk) : nat * list ev * sk :=
  (if o_err (next_out k) then 4 else 0, [ES], tl k).

(* ------------------------------------------------------------------ *)
(* bufio.Writer: buf[0:n] is [buf], len(b.buf) is [size], b.err is [berr] (sticky) *)
Record bufio := { size : nat; buf : bytes; berr : nat }.
Definition avail (b : bufio) : nat := size b - length (buf b).      (* Available() *)
Definition set_buf (b : bufio) (x : bytes) (e : nat) : bufio := {| size := size b; buf := x; berr := e |}.

(* func (b *Writer) Flush() error *)
Definition bflush (b : bufio) (k : sk) : nat * bufio * list ev * sk :=
  if negb (berr b =? 0) then (berr b, b, [], k)
  else if is_nil (buf b) then (0, b, [], k)
  else
    let '(n, e, es, k1) := sink_write k (buf b) in
    let e1 := if (n <? length (buf b)) && (e =? 0) then 2 else e in     (* io.ErrShortWrite *)
    if e1 =? 0 then (0, set_buf b [] 0, es, k1)
    else (e1, set_buf b (skipn n (buf b)) e1, es, k1).                  (* copy down; b.n -= n; b.err = err *)

(* func (b *Writer) Write(p []byte) (nn int, err error)
     for len(p) > b.Available() && b.err == nil {
         if b.Buffered() == 0 { n, b.err = b.wr.Write(p) }            -- large write, empty buffer
         else { n = copy(b.buf[b.n:], p); b.n += n; b.Flush() }        -- fill, flush, continue: SPLITS p
         nn += n; p = p[n:] }
     if b.err != nil { return nn, b.err }
     n := copy(b.buf[b.n:], p); b.n += n; nn += n; return nn, nil
   Every iteration consumes a byte or sets b.err, except one fill of a full buffer and a
   sink that returns (0, nil) (outside io.Writer's contract; the real loop would spin):
   [wfuel p] iterations suffice otherwise (lemma bwrite_fuel_* in Proofs.v). *)
Fixpoint bwrite (fuel : nat) (b : bufio) (k : sk) (p : bytes) : nat * nat * bufio * list ev * sk :=
  match fuel with
  | 0 => (0, berr b, b, [], k)
  | S f =>
      if (avail b <? length p) && (berr b =? 0) then
        if is_nil (buf b) then
          let '(n, e, es, k1) := sink_write k p in
          let '(nn, e2, b2, es2, k2) := bwrite f (set_buf b (buf b) e) k1 (skipn n p) in
          (n + nn, e2, b2, es ++ es2, k2)
        else
          let n := avail b in
          let '(_, b1, es, k1) := bflush (set_buf b (buf b ++ firstn n p) (berr b)) k in
          let '(nn, e2, b2, es2, k2) := bwrite f b1 k1 (skipn n p) in
          (n + nn, e2, b2, es ++ es2, k2)
      else if negb (berr b =? 0) then (0, berr b, b, [], k)
      else (length p, 0, set_buf b (buf b ++ p) 0, [], k)
  end.
Definition wfuel (p : bytes) : nat := S (S (length p + length p)).

(* ------------------------------------------------------------------ *)
(* BufferedWriteSyncer *)
Inductive op := Write (bs : bytes) | Sync | Tick | Stop.
Inductive res := RW (n err : nat) | RS (err : nat) | RT (delivered : bool) | RStop (err : nat).

(* cfg = the Size field; [loop] = the flushLoop goroutine is running *)
Record st := { cfg : Z; inited : bool; stopped : bool; loop : bool; w : bufio; k : sk }.
Definition upd (s : st) (b : bufio) (k1 : sk) : st :=
  {| cfg := cfg s; inited := inited s; stopped := stopped s; loop := loop s; w := b; k := k1 |}.

(* initialize(): size 0 -> _defaultBufferSize; bufio.NewWriterSize: size <= 0 -> 4096 *)
Definition eff_size (c : Z) : nat :=
  if (c =? 0)%Z then 256 * 1024 else if (c <? 0)%Z then 4096 else Z.to_nat c.
Definition initialize (s : st) : st :=
  {| cfg := cfg s; inited := true; stopped := stopped s; loop := true;
     w := {| size := eff_size (cfg s); buf := []; berr := 0 |}; k := k s |}.

(* Sync(): if s.initialized { err = s.writer.Flush() }; return multierr.Append(err, s.WS.Sync()) *)
Definition bws_sync (s : st) : nat * st * list ev :=
  let '(e1, b1, es1, k1) := if inited s then bflush (w s) (k s) else (0, w s, [], k s) in
  let '(e2, es2, k2) := sink_sync k1 in
  (e1 + e2, upd s b1 k2, es1 ++ es2).

(* [fx = true] is the repaired code (fix: commit in the zap worktree), [fx = false] the original:
   originally a Write after Stop was buffered although nothing would ever flush it (the flush
   loop is gone and a repeated Stop returns at once). *)
Definition bws_write (fx : bool) (s : st) (bs : bytes) : st * res * list ev :=
  let s0 := if inited s then s else initialize s in
  let pre := (avail (w s0) <? length bs) && negb (is_nil (buf (w s0))) in
  let '(e0, b1, es1, k1) := if pre then bflush (w s0) (k s0) else (0, w s0, [], k s0) in
  if negb (e0 =? 0) then (upd s0 b1 k1, RW 0 e0, es1)
  else
    let '(n, e, b2, es2, k2) := bwrite (wfuel bs) b1 k1 bs in
    if fx && stopped s0 && (e =? 0) then
      let '(e3, b3, es3, k3) := bflush b2 k2 in
      (upd s0 b3 k3, RW n e3, es1 ++ es2 ++ es3)
    else (upd s0 b2 k2, RW n e, es1 ++ es2).

Definition bws_stop (fx : bool) (s : st) : st * res * list ev :=
  if negb (inited s) then (s, RStop 0, [])
  else if stopped s then
    (if fx then let '(e2, es2, k2) := sink_sync (k s) in (upd s (w s) k2, RStop e2, es2)
     else (s, RStop 0, []))
  else
    (* stopped = true; ticker.Stop(); close(stop); <-done; return s.Sync() *)
    let s1 := {| cfg := cfg s; inited := true; stopped := true; loop := false; w := w s; k := k s |} in
    let '(e, s2, es) := bws_sync s1 in (s2, RStop e, es).

Definition step_gen (fx : bool) (s : st) (o : op) : st * res * list ev :=
  match o with
  | Write bs => bws_write fx s bs
  | Sync => let '(e, s1, es) := bws_sync s in (s1, RS e, es)
  | Tick => if loop s then let '(_, s1, es) := bws_sync s in (s1, RT true, es)   (* _ = s.Sync() *)
            else (s, RT false, [])
  | Stop => bws_stop fx s
  end.
Definition step := step_gen true.
Definition step_orig := step_gen false.

Fixpoint run_gen (fx : bool) (s : st) (ops : list op) : st * list (res * list ev) :=
  match ops with
  | [] => (s, [])
  | o :: r => let '(s1, rs, es) := step_gen fx s o in
              let '(s2, tr) := run_gen fx s1 r in (s2, (rs, es) :: tr)
  end.
Definition run := run_gen true.
(* per operation: is the flush goroutine running once the operation has returned *)
Fixpoint lives_gen (fx : bool) (s : st) (ops : list op) : list bool :=
  match ops with
  | [] => []
  | o :: r => let s1 := fst (fst (step_gen fx s o)) in loop s1 :: lives_gen fx s1 r
  end.
Definition lives := lives_gen true.
Definition init (c : Z) (outs : sk) : st :=
  {| cfg := c; inited := false; stopped := false; loop := false;
     w := {| size := 0; buf := []; berr := 0 |}; k := outs |}.

(* bufio.Writer.Write WITHOUT zap's flush-before-write rule (for the _refuted lemma) *)
Definition naive_write (s : st) (bs : bytes) : st * res * list ev :=
  let s0 := if inited s then s else initialize s in
  let '(n, e, b2, es2, k2) := bwrite (wfuel bs) (w s0) (k s0) bs in (upd s0 b2 k2, RW n e, es2).

(* ------------------------------------------------------------------ *)
(* specification, independent of the model: an executable oracle over
   (operation, result, sink events during the operation) triples.

   Reliable sink.  [q] = accepted writes not yet delivered (in order), [dirty] = the
   sink was written since its last Sync, [ph] = lifecycle by the documentation: the flush
   loop runs from the first Write until the first Stop after it. *)
Inductive phase := Fresh | Running | Stopped.
Record ost := { q : list bytes; dirty : bool; ph : phase }.

(* remove from the front of q a group of WHOLE writes whose concatenation is x *)
Fixpoint strip (q : list bytes) (x : bytes) : option (list bytes) :=
  if is_nil x then Some q
  else match q with
       | [] => None
       | b :: r => if (length b <=? length x) && bytes_eqb b (firstn (length b) x)
                   then strip r (skipn (length b) x) else None
       end.
Fixpoint deliver (q : list bytes) (d : bool) (es : list ev) : option (list bytes * bool) :=
  match es with
  | [] => Some (q, d)
  | ES :: r => deliver q false r
  | EW p n :: r => if n =? length p then
                     match strip q p with Some q1 => deliver q1 true r | None => None end
                   else None
  end.
Definition all_empty (q : list bytes) : bool := forallb (@is_nil byte) q.
Definition qlen (q : list bytes) : nat := length (concat q).
(* after Sync, a processed tick, Stop: nothing held back, sink synced after its last write *)
Definition flushed (o : option (list bytes * bool)) (p : phase) : option ost :=
  match o with
  | Some (q1, d1) => if all_empty q1 && negb d1 then Some {| q := q1; dirty := false; ph := p |} else None
  | None => None
  end.
Definition ostep (sz : nat) (s : ost) (o : op) (r : res) (es : list ev) : option ost :=
  match o, r with
  | Write bs, RW n e =>
      if (n =? length bs) && (e =? 0) then
        match deliver (q s ++ [bs]) (dirty s) es with
        | Some (q1, d1) =>
            if qlen q1 <=? sz
            then Some {| q := q1; dirty := d1; ph := match ph s with Fresh => Running | p => p end |}
            else None
        | None => None
        end
      else None
  | Sync, RS e => if e =? 0 then flushed (deliver (q s) (dirty s) es) (ph s) else None
  | Tick, RT d =>
      match ph s with
      | Running => if d then flushed (deliver (q s) (dirty s) es) Running else None
      | _ => if negb d && is_nil es then Some s else None
      end
  | Stop, RStop e =>
      if e =? 0 then flushed (deliver (q s) (dirty s) es) (match ph s with Running => Stopped | p => p end)
      else None
  | _, _ => None
  end.
Fixpoint orun (sz : nat) (s : ost) (ops : list op) (tr : list (res * list ev)) : option ost :=
  match ops, tr with
  | [], [] => Some s
  | o :: ops1, (r, es) :: tr1 =>
      match ostep sz s o r es with Some s1 => orun sz s1 ops1 tr1 | None => None end
  | _, _ => None
  end.
Definition oinit : ost := {| q := []; dirty := false; ph := Fresh |}.
Definition is_running (p : phase) : bool := match p with Running => true | _ => false end.
Definition strong_ok (c : Z) (ops : list op) (tr : list (res * list ev)) (alive : bool) : bool :=
  match orun (eff_size c) oinit ops tr with
  | Some s => Bool.eqb alive (is_running (ph s))
  | None => false
  end.

(* Lifecycle of the flush goroutine, for ANY sink (reliable or not), by the documentation alone:
   the flush loop runs from the first Write to the first Stop after it.  A Stop before the first
   Write is a no-op and does NOT consume the one effective Stop; every Stop (first, repeated,
   before or after use) leaves no flush goroutine behind; a tick reaches the sink exactly while
   the loop runs.  Judged on three observables that do not depend on the sink's behaviour:
   [live] = per operation, is a flush goroutine present once the operation has returned;
   the result [RT d] of every tick (d = the tick was received and its Sync reached the sink) and
   the sink events during a tick that was not received; [alive] = a tick sent after the whole
   history is still served. *)
Definition phase_step (p : phase) (o : op) : phase :=
  match o, p with Write _, Fresh => Running | Stop, Running => Stopped | _, _ => p end.
Definition spec_phase (ops : list op) : phase := fold_left phase_step ops Fresh.
Fixpoint phases (p : phase) (ops : list op) : list phase :=
  match ops with [] => [] | o :: r => phase_step p o :: phases (phase_step p o) r end.
Definition tick_ok (p : phase) (o : op) (r : res) (es : list ev) : bool :=
  match o, r with
  | Tick, RT d => Bool.eqb d (is_running p) && (d || is_nil es)
  | _, _ => true
  end.
Fixpoint lrun (p : phase) (ops : list op) (tr : list (res * list ev)) (live : list bool) : option phase :=
  match ops, tr, live with
  | [], [], [] => Some p
  | o :: ops1, (r, es) :: tr1, l :: live1 =>
      if Bool.eqb l (is_running (phase_step p o)) && tick_ok p o r es
      then lrun (phase_step p o) ops1 tr1 live1 else None
  | _, _, _ => None
  end.
Definition life_ok (ops : list op) (tr : list (res * list ev)) (live : list bool) (alive : bool) : bool :=
  match lrun Fresh ops tr live with
  | Some p => Bool.eqb alive (is_running p)
  | None => false
  end.

(* Unreliable sink (any outcome script): the bytes the sink holds are, in order and without
   duplication, the bytes the Writes reported as consumed; the rest is still pending.
   [pend] = consumed bytes not yet in the sink. *)
Fixpoint is_prefix (a b : bytes) : bool :=
  match a, b with
  | [], _ => true
  | x :: a1, y :: b1 => Byte.eqb x y && is_prefix a1 b1
  | _, [] => false
  end.
Fixpoint wdeliver (pend : bytes) (es : list ev) : option bytes :=
  match es with
  | [] => Some pend
  | ES :: r => wdeliver pend r
  | EW p n :: r => if (n <=? length p) && is_prefix (firstn n p) pend
                   then wdeliver (skipn n pend) r else None
  end.
Definition wstep (pend : bytes) (o : op) (r : res) (es : list ev) : option bytes :=
  match o, r with
  | Write bs, RW n _ => if n <=? length bs then wdeliver (pend ++ firstn n bs) es else None
  | Sync, RS _ | Tick, RT _ | Stop, RStop _ => wdeliver pend es
  | _, _ => None
  end.
Fixpoint wrun (pend : bytes) (ops : list op) (tr : list (res * list ev)) : bool :=
  match ops, tr with
  | [], [] => true
  | o :: ops1, (r, es) :: tr1 =>
      match wstep pend o r es with Some p1 => wrun p1 ops1 tr1 | None => false end
  | _, _ => false
  end.

(* ------------------------------------------------------------------ *)
(* wire.  input = (size (op ...) (outcome ...));  op = (0 bytes) | (1) | (2) | (3);
   bytes = #hex | (#b n #b n ...) (run-length form, used above 256 bytes);
   outcome = (short err), short = -1 for "takes everything".
   observation = (((res (ev ...)) ...) alive (live ...)); res = (0 n e) | (1 e) | (2 d) | (3 e);
   ev = (0 bytes n) | (1); live = one flag per operation (flush goroutine present after it returned;
   empty in mode 1). *)
(* byte strings on the wire: up to [rle_min] bytes literally (#hex); longer ones run-length encoded
   as a flat list (#b n #b n ...) of maximal runs of one byte, so that histories over buffer sizes of
   several hundred KiB stay small.  The decoder accepts both forms for any length; the encoder
   (observations: the canonical-form check of [spec]) picks the form by the length alone. *)
Definition run_byte (s : sx) : byte := match sx_b s with x :: _ => x | [] => x00 end.
Fixpoint unrle (l : list sx) : bytes :=
  match l with
  | b :: n :: r => repeat (run_byte b) (sx_n n) ++ unrle r
  | _ => []
  end.
Definition sx_rb (s : sx) : bytes := match s with SL l => unrle l | _ => sx_b s end.
Fixpoint rle_go (b : byte) (n : nat) (p : bytes) : list sx :=
  match p with
  | [] => [SB [b]; of_nat n]
  | x :: r => if Byte.eqb x b then rle_go b (S n) r else SB [b] :: of_nat n :: rle_go x 1 r
  end.
Definition rle (p : bytes) : list sx := match p with [] => [] | x :: r => rle_go x 1 r end.
Definition rle_min : nat := 256.
Definition enc_bytes (p : bytes) : sx := if length p <=? rle_min then SB p else SL (rle p).

Definition dec_op (s : sx) : op :=
  match sx_z (sx_nth s 0) with
  | 0%Z => Write (sx_rb (sx_nth s 1))
  | 1%Z => Sync
  | 2%Z => Tick
  | _ => Stop
  end.
Definition dec_out (s : sx) : outcome :=
  let z := sx_z (sx_nth s 0) in
  {| o_short := if (z <? 0)%Z then None else Some (Z.to_nat z); o_err := sx_bool (sx_nth s 1) |}.
Definition dec_case (i : sx) : Z * list op * sk :=
  (sx_z (sx_nth i 0), map dec_op (sx_l (sx_nth i 1)), map dec_out (sx_l (sx_nth i 2))).

Definition enc_ev (e : ev) : sx :=
  match e with EW p n => SL [SZ 0; enc_bytes p; of_nat n] | ES => SL [SZ 1] end.
Definition enc_res (r : res) : sx :=
  match r with
  | RW n e => SL [SZ 0; of_nat n; of_nat e]
  | RS e => SL [SZ 1; of_nat e]
  | RT d => SL [SZ 2; of_bool d]
  | RStop e => SL [SZ 3; of_nat e]
  end.
Definition enc_tr (tr : list (res * list ev)) : sx :=
  SL (map (fun re => SL [enc_res (fst re); SL (map enc_ev (snd re))]) tr).

Definition dec_ev (s : sx) : ev :=
  match sx_z (sx_nth s 0) with
  | 0%Z => EW (sx_rb (sx_nth s 1)) (sx_n (sx_nth s 2))
  | _ => ES
  end.
Definition dec_res (s : sx) : res :=
  match sx_z (sx_nth s 0) with
  | 0%Z => RW (sx_n (sx_nth s 1)) (sx_n (sx_nth s 2))
  | 1%Z => RS (sx_n (sx_nth s 1))
  | 2%Z => RT (sx_bool (sx_nth s 1))
  | _ => RStop (sx_n (sx_nth s 1))
  end.
Definition dec_tr (s : sx) : list (res * list ev) :=
  map (fun x => (dec_res (sx_nth x 0), map dec_ev (sx_l (sx_nth x 1)))) (sx_l s).

(* mode 1: the bufio model on its own (bufio.NewWriterSize(sink, size); Write = Write,
   every other op = Flush), validated against the real bufio.Writer by the harness *)
Definition bsize (c : Z) : nat := if (c <=? 0)%Z then 4096 else Z.to_nat c.
Definition bstep (bk : bufio * sk) (o : op) : bufio * sk * res * list ev :=
  match o with
  | Write bs => let '(n, e, b2, es, k2) := bwrite (wfuel bs) (fst bk) (snd bk) bs in (b2, k2, RW n e, es)
  | _ => let '(e, b2, es, k2) := bflush (fst bk) (snd bk) in (b2, k2, RS e, es)
  end.
Fixpoint brun (bk : bufio * sk) (ops : list op) : list (res * list ev) :=
  match ops with
  | [] => []
  | o :: r => let '(b2, k2, rs, es) := bstep bk o in (rs, es) :: brun (b2, k2) r
  end.
Definition bops (ops : list op) : list op := map (fun o => match o with Write bs => Write bs | _ => Sync end) ops.
Definition mode_of (i : sx) : bool := sx_bool (sx_nth i 3).

Definition enc_live (l : list bool) : sx := SL (map of_bool l).
Definition dec_live (s : sx) : list bool := map sx_bool (sx_l s).

Definition model (i : sx) : sx :=
  let '(c, ops, outs) := dec_case i in
  if mode_of i then
    SL [enc_tr (brun ({| size := bsize c; buf := []; berr := 0 |}, outs) (bops ops)); of_bool false; enc_live []]
  else
    let '(s, tr) := run (init c outs) ops in
    SL [enc_tr tr; of_bool (loop s); enc_live (lives (init c outs) ops)].

Definition is_ok (o : outcome) : bool := match o_short o with None => negb (o_err o) | Some _ => false end.
Definition reliable (outs : sk) : bool := forallb is_ok outs.

(* the observation must be in canonical form (re-encoding the decoded trace gives it back),
   so that nothing the oracle does not look at can differ *)
Definition spec (i o : sx) : bool :=
  let '(c, ops, outs) := dec_case i in
  let tr := dec_tr (sx_nth o 0) in
  let alive := sx_bool (sx_nth o 1) in
  let live := dec_live (sx_nth o 2) in
  sx_eqb o (SL [enc_tr tr; of_bool alive; enc_live live]) &&
  (if mode_of i then wrun [] (bops ops) tr && negb alive && is_nil live
   else life_ok ops tr live alive &&
        (if reliable outs then strong_ok c ops tr alive else wrun [] ops tr)).

(* ------------------------------------------------------------------ *)
(* vocabulary of the theorems in Props/C12.v (specification side; nothing here mentions
   bufio or the implementation's state beyond the observable events) *)
(* what the sink holds, one entry per sink write *)
Definition recv1 (e : ev) : list bytes := match e with EW p n => [firstn n p] | ES => [] end.
Definition received (es : list ev) : list bytes := concat (map recv1 es).
(* the writes handed to Write, in order *)
Definition acc1 (o : op) : list bytes := match o with Write bs => [bs] | _ => [] end.
Definition accepted (ops : list op) : list bytes := concat (map acc1 ops).
(* the accepted writes split into groups already in the sink (one sink write per group) and
   the writes still buffered *)
Definition Grp (acc sw : list bytes) (b : bytes) : Prop :=
  exists groups rest, acc = concat groups ++ rest /\ sw = map (@concat byte) groups /\ b = concat rest.
Definition all_evs (tr : list (res * list ev)) : list ev := concat (map snd tr).
(* was the sink written after its last Sync? *)
Fixpoint dirty_of (d : bool) (es : list ev) : bool :=
  match es with [] => d | EW _ _ :: r => dirty_of true r | ES :: r => dirty_of false r end.
(* operations after which everything accepted must be in the sink and synced *)
Definition flushing (o : op) (alive : bool) : bool :=
  match o with Sync | Stop => true | Tick => alive | Write _ => false end.
(* over a reliable sink nothing fails *)
Definition res_ok (o : op) (r : res) : Prop :=
  match o, r with
  | Write bs, RW n e => n = length bs /\ e = 0
  | Sync, RS e => e = 0
  | Tick, RT _ => True
  | Stop, RStop e => e = 0
  | _, _ => False
  end.
(* [phase_step] / [spec_phase] (lifecycle by the documentation) are defined above, before [spec] *)
(* the bytes the Writes reported as consumed (n of every (n, err)) *)
Definition consumed1 (x : op * (res * list ev)) : bytes :=
  match x with (Write bs, (RW n _, _)) => firstn n bs | _ => [] end.
Definition consumed (ops : list op) (tr : list (res * list ev)) : bytes := concat (map consumed1 (combine ops tr)).
(* Stop has nothing left to do *)
Definition stop_done (s : st) : Prop := inited s = false \/ stopped s = true.

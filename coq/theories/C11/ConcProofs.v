(* C11 — proofs about the atomic-step machine: goroutines inside sampler.Check on one counter cell,
   with Load / Add / Store / CAS of IncCheckReset as separate steps, for every schedule. *)
From Coq Require Import List ZArith Bool Lia Arith Permutation.
Import ListNotations.
From Zap Require Import Base.Wire C11.Model C11.Proofs.
Open Scope Z_scope.

(* ------------------------------------------------------------------ *)
(* list plumbing *)
Lemma set_nth_app {A} (l1 l2 : list A) (t t' : A) :
  set_nth (l1 ++ t :: l2) (length l1) t' = l1 ++ t' :: l2.
Proof. induction l1 as [|x r IH]; cbn [app length set_nth]; [reflexivity|]. now rewrite IH. Qed.

Definition retl (t : thr) : list Z := match t_ret t with Some n => [n] | None => [] end.
Lemma rets_app l1 l2 : rets (l1 ++ l2) = rets l1 ++ rets l2.
Proof. unfold rets. apply flat_map_app. Qed.
Lemma rets_cons t l : rets (t :: l) = retl t ++ rets l.
Proof. reflexivity. Qed.
Lemma rets_length_le l : (length (rets l) <= length l)%nat.
Proof.
  induction l as [|t r IH]; [cbn; lia|]. rewrite rets_cons, app_length. cbn [length].
  unfold retl. destruct (t_ret t); cbn [length]; lia.
Qed.
Lemma zseq_snoc n : forall s, zseq s (S n) = zseq s n ++ [s + Z.of_nat n].
Proof.
  induction n as [|n IH]; intros s.
  - cbn. now rewrite Z.add_0_r.
  - change (zseq s (S (S n))) with (s :: zseq (s + 1) (S n)). rewrite IH. cbn [zseq app].
    do 2 f_equal. rewrite Nat2Z.inj_succ. f_equal. lia.
Qed.
Lemma zseq_length n : forall s, length (zseq s n) = n.
Proof. induction n as [|n IH]; intros s; cbn [zseq length]; [reflexivity|]. now rewrite IH. Qed.

Lemma is_nil_z_true l : is_nil_z l = true -> l = [].
Proof. destruct l; [reflexivity|discriminate]. Qed.
Lemma zlist_eqb_eq a : forall b, zlist_eqb a b = true -> a = b.
Proof.
  induction a as [|x r IH]; intros [|y r2] H; try discriminate; [reflexivity|].
  cbn [zlist_eqb] in H. apply andb_true_iff in H. destruct H as [H1 H2].
  apply Z.eqb_eq in H1. subst. f_equal. now apply IH.
Qed.

(* ------------------------------------------------------------------ *)
(* per-entry accounting, every schedule, any stamps (racing window resets included) *)
Lemma acct_step c s i :
  Forall (fun t => acct_ok c t = true) (g_thr s) ->
  Forall (fun t => acct_ok c t = true) (g_thr (cstep c s i)).
Proof.
  intros HF. unfold cstep. destruct (nth_error (g_thr s) i) as [t|] eqn:E; [|exact HF].
  destruct (nth_error_split _ _ E) as [l1 [l2 [Hl Hi]]]. subst i.
  rewrite Hl in HF |- *. apply Forall_app in HF. destruct HF as [H1 H2].
  pose proof H2 as H2'. apply Forall_cons_iff in H2'. destruct H2' as [Ht H3].
  assert (Hput : forall t', acct_ok c t' = true -> Forall (fun t => acct_ok c t = true) (set_nth (l1 ++ t :: l2) (length l1) t')).
  { intros t' Ht'. rewrite set_nth_app. apply Forall_app. split; [exact H1|]. constructor; assumption. }
  destruct t as [tn p ret hooks fwd]. cbn [t_pc t_tn t_ret t_hooks t_fwd].
  unfold acct_ok in Ht. cbn [t_pc t_ret t_hooks t_fwd] in Ht.
  destruct p as [| |ra|ra|n| |]; cbn [g_thr].
  - destruct ret; [discriminate|]. apply Hput. unfold acct_ok. cbn [t_pc t_ret t_hooks t_fwd].
    destruct (g_reset s >? tn); exact Ht.
  - destruct ret; [discriminate|]. apply Hput. unfold acct_ok. cbn [t_pc t_ret t_hooks t_fwd].
    now rewrite Z.eqb_refl.
  - destruct ret; [discriminate|]. apply Hput. exact Ht.
  - destruct ret; [discriminate|]. destruct (g_reset s =? ra); cbn [g_thr]; apply Hput; unfold acct_ok; cbn [t_pc t_ret t_hooks t_fwd].
    + now rewrite Z.eqb_refl.
    + exact Ht.
  - destruct ret as [m|]; [|discriminate]. rewrite !andb_true_iff in Ht. destruct Ht as [[Hn Hh] Hf].
    apply Z.eqb_eq in Hn. subst m. apply is_nil_z_true in Hh. subst hooks.
    destruct (dropped (s_first c) (s_thereafter c) n) eqn:Ed; cbn [g_thr]; apply Hput; unfold acct_ok;
      cbn [t_pc t_ret t_hooks t_fwd app]; rewrite Ed; cbn [negb zlist_eqb andb]; rewrite Z.eqb_refl; exact Hf.
  - destruct ret as [m|]; [|discriminate]. rewrite !andb_true_iff in Ht. destruct Ht as [[Hd Hh] Hf].
    apply negb_true_iff in Hd. apply Nat.eqb_eq in Hf. subst fwd.
    apply Hput. unfold acct_ok. cbn [t_pc t_ret t_hooks t_fwd]. rewrite Hd, Hh. reflexivity.
  - rewrite Hl. apply Forall_app. split; [exact H1|exact H2].
Qed.

Lemma acct_init c tns : Forall (fun t => acct_ok c t = true) (map thr0 tns).
Proof. induction tns as [|t r IH]; cbn [map]; constructor; [reflexivity|exact IH]. Qed.

Theorem accounting_thm c R cn tns sched :
  Forall (fun t => acct_ok c t = true) (g_thr (crun c (cinit R cn tns) sched)).
Proof.
  unfold crun. assert (H0 : Forall (fun t => acct_ok c t = true) (g_thr (cinit R cn tns))) by apply acct_init.
  revert H0. generalize (cinit R cn tns). induction sched as [|i r IH]; intros s Hs; cbn [fold_left]; [exact Hs|].
  apply IH. now apply acct_step.
Qed.

(* what the accounting means for an entry whose Check call has returned *)
Lemma acct_done c t : acct_ok c t = true -> is_done t = true ->
  exists n, t_ret t = Some n /\ t_hooks t = [decision c n] /\
            t_fwd t = (if dropped (s_first c) (s_thereafter c) n then 0 else 1)%nat.
Proof.
  unfold acct_ok, is_done, decision. destruct (t_pc t); try discriminate. destruct (t_ret t) as [m|]; [|discriminate].
  intros H _. exists m. destruct (dropped (s_first c) (s_thereafter c) m); apply andb_true_iff in H; destruct H as [Hh Hf];
    apply zlist_eqb_eq in Hh; apply Nat.eqb_eq in Hf; auto.
Qed.

(* ------------------------------------------------------------------ *)
(* inside an open window *)
Definition open_pc (t : thr) : bool := match t_pc t with PStore _ | PCas _ => false | _ => true end.
Definition open_ok (c : cfg) (R : Z) (t : thr) : Prop := t_tn t < R /\ acct_ok c t = true /\ open_pc t = true.
Definition OpenInv (c : cfg) (R c0 : Z) (s : cst) : Prop :=
  g_reset s = R /\ Forall (open_ok c R) (g_thr s) /\
  g_cnt s = c0 + Z.of_nat (length (rets (g_thr s))) /\
  Permutation (rets (g_thr s)) (zseq (c0 + 1) (length (rets (g_thr s)))).

Lemma open_step c R c0 s i :
  0 <= c0 -> c0 + Z.of_nat (length (g_thr s)) < two64 ->
  OpenInv c R c0 s -> OpenInv c R c0 (cstep c s i) /\ length (g_thr (cstep c s i)) = length (g_thr s).
Proof.
  intros Hc0 Hlen [HR [HF [Hcnt HP]]]. unfold cstep.
  destruct (nth_error (g_thr s) i) as [t|] eqn:E; [|split; [repeat split; assumption|reflexivity]].
  destruct (nth_error_split _ _ E) as [l1 [l2 [Hl Hi]]]. subst i.
  rewrite Hl in HF, Hcnt, HP, Hlen. apply Forall_app in HF. destruct HF as [H1 H2].
  pose proof H2 as H2'. apply Forall_cons_iff in H2'. destruct H2' as [Ht H3]. destruct Ht as [Htn [Hacct Hopen]].
  rewrite rets_app, rets_cons in Hcnt, HP.
  (* steps that leave the returned value, the counter and resetAt alone *)
  assert (Hsame : forall t', t_ret t' = t_ret t -> open_ok c R t' ->
            OpenInv c R c0 {| g_reset := g_reset s; g_cnt := g_cnt s; g_thr := set_nth (g_thr s) (length l1) t' |} /\
            length (set_nth (g_thr s) (length l1) t') = length (g_thr s)).
  { intros t' Hret Hok. rewrite Hl, set_nth_app. split.
    - unfold OpenInv. cbn [g_reset g_cnt g_thr]. rewrite rets_app, rets_cons. unfold retl. rewrite Hret. fold (retl t).
      repeat split; try assumption. apply Forall_app. split; [exact H1|]. constructor; assumption.
    - rewrite !app_length. reflexivity. }
  destruct t as [tn p ret hooks fwd]. cbn [t_pc t_tn t_ret t_hooks t_fwd] in *.
  unfold open_pc in Hopen. cbn [t_pc] in Hopen.
  destruct p as [| |ra|ra|n| |]; try discriminate Hopen.
  - (* Load: resetAt = R > tn, so the Add branch *)
    assert (Hgt : g_reset s >? tn = true) by (rewrite HR; apply Z.gtb_lt; lia). rewrite Hgt. cbn [g_thr].
    apply Hsame; [reflexivity|]. unfold open_ok. cbn [t_tn t_pc]. repeat split; auto.
  - (* Add *)
    unfold acct_ok in Hacct. cbn [t_pc t_ret t_hooks t_fwd] in Hacct. destruct ret; [discriminate|].
    unfold retl in Hcnt, HP. cbn [t_ret app] in Hcnt, HP.
    set (m := length (rets l1 ++ rets l2)) in *.
    assert (Hm : (m + 1 <= length (l1 ++ {| t_tn := tn; t_pc := PAdd; t_ret := None; t_hooks := hooks; t_fwd := fwd |} :: l2))%nat).
    { unfold m. rewrite !app_length. cbn [length]. pose proof (rets_length_le l1). pose proof (rets_length_le l2). lia. }
    assert (Hn : u64 (g_cnt s + 1) = c0 + Z.of_nat m + 1) by (rewrite Hcnt; apply u64_small; lia).
    rewrite Hn. rewrite Hl, set_nth_app. split; [|cbn [g_thr]; rewrite !app_length; reflexivity].
    unfold OpenInv. cbn [g_reset g_cnt g_thr]. rewrite rets_app, rets_cons. unfold retl. cbn [t_ret].
    assert (Hlen' : length (rets l1 ++ [c0 + Z.of_nat m + 1] ++ rets l2) = S m).
    { unfold m. rewrite !app_length. cbn [length]. lia. }
    rewrite Hlen'. repeat split.
    + exact HR.
    + apply Forall_app. split; [exact H1|]. constructor; [|exact H3].
      unfold open_ok, acct_ok, open_pc. cbn [t_tn t_pc t_ret t_hooks t_fwd]. rewrite Z.eqb_refl. repeat split; auto.
    + rewrite Nat2Z.inj_succ. lia.
    + rewrite zseq_snoc. replace (c0 + 1 + Z.of_nat m) with (c0 + Z.of_nat m + 1) by lia.
      eapply Permutation_trans; [apply Permutation_sym, Permutation_middle|].
      eapply Permutation_trans; [|apply Permutation_cons_append]. apply perm_skip. exact HP.
  - (* Got n: hook *)
    destruct (dropped (s_first c) (s_thereafter c) n) eqn:Ed; cbn [g_thr]; apply Hsame; try reflexivity;
      pose proof (acct_step c {| g_reset := g_reset s; g_cnt := g_cnt s;
                                 g_thr := [{| t_tn := tn; t_pc := PGot n; t_ret := ret; t_hooks := hooks; t_fwd := fwd |}] |} 0%nat) as Hs;
      cbn [cstep g_thr nth_error t_pc set_nth t_tn t_ret t_hooks t_fwd] in Hs; rewrite Ed in Hs; cbn [g_thr] in Hs;
      specialize (Hs ltac:(constructor; [exact Hacct|constructor])); inversion Hs; subst;
      unfold open_ok, open_pc; cbn [t_tn t_pc]; repeat split; auto.
  - (* Fwd *)
    cbn [g_thr]. apply Hsame; [reflexivity|].
    pose proof (acct_step c {| g_reset := g_reset s; g_cnt := g_cnt s;
                               g_thr := [{| t_tn := tn; t_pc := PFwd; t_ret := ret; t_hooks := hooks; t_fwd := fwd |}] |} 0%nat) as Hs.
    cbn [cstep g_thr nth_error t_pc set_nth t_tn t_ret t_hooks t_fwd] in Hs.
    specialize (Hs ltac:(constructor; [exact Hacct|constructor])). inversion Hs; subst.
    unfold open_ok, open_pc. cbn [t_tn t_pc]. repeat split; auto.
  - (* Done: no step *)
    split; [|reflexivity]. unfold OpenInv. rewrite Hl, rets_app, rets_cons. repeat split; try assumption.
    apply Forall_app. split; [exact H1|]. constructor; [|exact H3]. unfold open_ok, open_pc. cbn [t_tn t_pc]. auto.
Qed.

Lemma open_run c R c0 sched : forall s,
  0 <= c0 -> c0 + Z.of_nat (length (g_thr s)) < two64 ->
  OpenInv c R c0 s -> OpenInv c R c0 (crun c s sched) /\ length (g_thr (crun c s sched)) = length (g_thr s).
Proof.
  unfold crun. induction sched as [|i r IH]; intros s Hc0 Hlen HI; cbn [fold_left]; [split; [exact HI|reflexivity]|].
  destruct (open_step c R c0 s i Hc0 Hlen HI) as [HI' Hl'].
  destruct (IH (cstep c s i) Hc0 ltac:(rewrite Hl'; exact Hlen) HI') as [HI'' Hl'']. split; [exact HI''|]. now rewrite Hl''.
Qed.

Lemma rets_init tns : rets (map thr0 tns) = [].
Proof. induction tns as [|t r IH]; [reflexivity|]. cbn [map]. rewrite rets_cons, IH. reflexivity. Qed.

Lemma open_init c R c0 tns : Forall (fun t => t < R) tns -> OpenInv c R c0 (cinit R c0 tns).
Proof.
  intros H. unfold OpenInv, cinit. cbn [g_reset g_cnt g_thr]. rewrite rets_init. cbn [length zseq]. repeat split.
  - induction H as [|t r Ht Hr IH]; cbn [map]; constructor; [|exact IH].
    unfold open_ok, thr0, acct_ok, open_pc. cbn. auto.
  - lia.
  - constructor.
Qed.

(* when every call has returned, each thread holds exactly one returned value, one hook call, and
   is forwarded iff sampled *)
Lemma done_shape c l :
  Forall (fun t => acct_ok c t = true) l -> forallb is_done l = true ->
  length (rets l) = length l /\
  all_hooks l = map (decision c) (rets l) /\
  total_fwd l = length (filter (fun n => negb (dropped (s_first c) (s_thereafter c) n)) (rets l)).
Proof.
  induction l as [|t r IH]; intros HF Hd; [repeat split|].
  inversion HF as [|? ? Ht Hr]; subst. cbn [forallb] in Hd. apply andb_true_iff in Hd. destruct Hd as [Hd1 Hd2].
  destruct (IH Hr Hd2) as [I1 [I2 I3]]. destruct (acct_done c t Ht Hd1) as [n [Hret [Hh Hf]]].
  rewrite rets_cons. unfold retl. rewrite Hret. unfold all_hooks in *. cbn [flat_map app length map total_fwd fold_right filter].
  fold (total_fwd r). rewrite Hh, Hf, I1, I2, I3. repeat split.
  destruct (dropped (s_first c) (s_thereafter c) n); cbn [negb length]; lia.
Qed.

Definition n_sampled (hooks : list Z) : nat := count_occ Z.eq_dec hooks LogSampled.

Lemma decision_keeps c n : wf_cfg c = true -> 0 <= n < two64 ->
  decision c n = if keeps (c_first c) (c_thereafter c) n then LogSampled else LogDropped.
Proof.
  intros Hc Hn. destruct (cfg_bounds c Hc) as [HN HM]. unfold decision, s_first, s_thereafter.
  rewrite keeps_dropped by assumption. destruct (keeps _ _ n); reflexivity.
Qed.

Lemma sampled_zseq c : wf_cfg c = true -> forall k s, 0 <= s -> s + Z.of_nat k <= two64 ->
  n_sampled (map (decision c) (zseq s k)) = count_true (map (keeps (c_first c) (c_thereafter c)) (zseq s k)) /\
  length (filter (fun n => negb (dropped (s_first c) (s_thereafter c) n)) (zseq s k)) =
  count_true (map (keeps (c_first c) (c_thereafter c)) (zseq s k)).
Proof.
  intros Hc. destruct (cfg_bounds c Hc) as [HN HM].
  induction k as [|k IH]; intros s Hs Hk; [split; reflexivity|].
  rewrite Nat2Z.inj_succ in Hk. destruct (IH (s + 1) ltac:(lia) ltac:(lia)) as [I1 I2].
  unfold n_sampled, count_true in *. cbn [zseq map count_occ filter].
  rewrite (decision_keeps c s Hc) by lia. unfold s_first, s_thereafter in *. rewrite keeps_dropped by (try assumption; lia).
  rewrite negb_involutive.
  destruct (keeps (c_first c) (c_thereafter c) s); cbn [length].
  - destruct (Z.eq_dec LogSampled LogSampled) as [_|Hne]; [|contradiction]. rewrite I1, I2. split; reflexivity.
  - destruct (Z.eq_dec LogDropped LogSampled) as [Heq|_]; [discriminate Heq|]. rewrite I1, I2. split; reflexivity.
Qed.

Lemma filter_perm {A} (f : A -> bool) l1 l2 : Permutation l1 l2 -> length (filter f l1) = length (filter f l2).
Proof.
  induction 1 as [|x l l' _ IH|x y l|l l' l'' _ IH1 _ IH2]; cbn [filter].
  - reflexivity.
  - destruct (f x); cbn [length]; now rewrite IH.
  - destruct (f x), (f y); reflexivity.
  - now rewrite IH1.
Qed.

(* C11_atomic_exact *)
Theorem atomic_exact_thm c R c0 tns sched :
  wf_cfg c = true -> 0 <= c0 -> c0 + Z.of_nat (length tns) < two64 ->
  Forall (fun t => t < R) tns ->
  let fin := crun c (cinit R c0 tns) sched in
  all_done fin = true ->
  Permutation (rets (g_thr fin)) (zseq (c0 + 1) (length tns)) /\
  n_sampled (all_hooks (g_thr fin)) =
    count_true (key_decs (c_first c) (c_thereafter c) (c_tick c) (Some (R, c0)) tns) /\
  total_fwd (g_thr fin) = n_sampled (all_hooks (g_thr fin)) /\
  length (all_hooks (g_thr fin)) = length tns /\
  g_reset fin = R /\ g_cnt fin = c0 + Z.of_nat (length tns).
Proof.
  intros Hc Hc0 Hlen Hopen fin Hdone.
  assert (Hl0 : length (g_thr (cinit R c0 tns)) = length tns) by (cbn [cinit g_thr]; apply map_length).
  destruct (open_run c R c0 sched (cinit R c0 tns) Hc0 ltac:(rewrite Hl0; exact Hlen) (open_init c R c0 tns Hopen)) as [[HR [HF [Hcnt HP]]] Hl].
  fold fin in HR, HF, Hcnt, HP, Hl.
  pose proof (accounting_thm c R c0 tns sched) as Hacct. fold fin in Hacct.
  destruct (done_shape c (g_thr fin) Hacct Hdone) as [D1 [D2 D3]].
  rewrite D1, Hl, Hl0 in HP, Hcnt.
  destruct (sampled_zseq c Hc (length tns) (c0 + 1) ltac:(lia) ltac:(lia)) as [S1 S2].
  assert (Hns : n_sampled (all_hooks (g_thr fin)) = count_true (map (keeps (c_first c) (c_thereafter c)) (zseq (c0 + 1) (length tns)))).
  { rewrite D2, <- S1. unfold n_sampled. apply Permutation_count_occ. now apply Permutation_map. }
  repeat split; try assumption.
  - rewrite Hns. now rewrite key_decs_open.
  - rewrite D3, Hns, <- S2. now apply filter_perm.
  - rewrite D2, map_length, D1, Hl, Hl0. reflexivity.
Qed.

(* ------------------------------------------------------------------ *)
(* a lone thread run to completion is the sequential IncCheckReset + predicate + hook + forward *)
Lemma cstep_single c R cn th :
  cstep c {| g_reset := R; g_cnt := cn; g_thr := [th] |} 0 =
  ltac:(let x := eval cbv [cstep nth_error g_thr set_nth g_reset g_cnt] in
                 (cstep c {| g_reset := R; g_cnt := cn; g_thr := [th] |} 0) in exact x).
Proof. reflexivity. Qed.

Theorem solo_refines c R cn t :
  let '(c', n) := inc_check_reset (c_tick c) {| resetAt := R; cnt := cn |} t in
  let fin := crun c (cinit R cn [t]) (repeat 0%nat 5) in
  g_reset fin = resetAt c' /\ g_cnt fin = cnt c' /\
  g_thr fin = [{| t_tn := t; t_pc := PDone; t_ret := Some n; t_hooks := [decision c n];
                  t_fwd := if dropped (s_first c) (s_thereafter c) n then 0%nat else 1%nat |}].
Proof.
  unfold inc_check_reset, decision, crun, cinit. cbn [resetAt cnt repeat fold_left map]. unfold thr0.
  destruct (R >? t) eqn:E.
  - destruct (dropped (s_first c) (s_thereafter c) (u64 (cn + 1))) eqn:Ed;
      do 5 (rewrite cstep_single; cbn [t_pc t_tn t_ret t_hooks t_fwd app]; rewrite ?E, ?Ed, ?Z.eqb_refl;
            cbn [t_pc t_tn t_ret t_hooks t_fwd app]); auto.
  - destruct (dropped (s_first c) (s_thereafter c) 1) eqn:Ed;
      do 5 (rewrite cstep_single; cbn [t_pc t_tn t_ret t_hooks t_fwd app]; rewrite ?E, ?Ed, ?Z.eqb_refl;
            cbn [t_pc t_tn t_ret t_hooks t_fwd app]); auto.
Qed.

(* ------------------------------------------------------------------ *)
(* closed form: of the first L positions of a window, min(L, N) + (L - N) / M are kept *)
Lemma count_true_snoc l b : count_true (l ++ [b]) = (count_true l + (if b then 1 else 0))%nat.
Proof. unfold count_true. rewrite filter_app, app_length. destruct b; reflexivity. Qed.

Lemma div_succ x M : 0 <= x -> 0 < M ->
  (x + 1) / M = x / M + (if (x + 1) mod M =? 0 then 1 else 0).
Proof.
  intros Hx HM.
  pose proof (Z.div_mod x M ltac:(lia)) as E1. pose proof (Z.mod_pos_bound x M HM) as B1.
  pose proof (Z.div_mod (x + 1) M ltac:(lia)) as E2. pose proof (Z.mod_pos_bound (x + 1) M HM) as B2.
  destruct ((x + 1) mod M =? 0) eqn:E.
  - apply Z.eqb_eq in E. nia.
  - apply Z.eqb_neq in E. nia.
Qed.

Theorem kept_count_thm N M (L : nat) : 0 <= N -> 0 <= M ->
  Z.of_nat (count_true (map (keeps N M) (zseq 1 L))) =
  Z.min (Z.of_nat L) N + (if M =? 0 then 0 else Z.max 0 (Z.of_nat L - N) / M).
Proof.
  intros HN HM. induction L as [|L IH].
  - cbn [zseq map count_true filter length Z.of_nat]. destruct (M =? 0) eqn:E0; [lia|].
    apply Z.eqb_neq in E0. rewrite Z.max_l by lia. rewrite Z.div_0_l; lia.
  - rewrite zseq_snoc, map_app. cbn [map]. rewrite count_true_snoc, Nat2Z.inj_add, IH.
    rewrite Nat2Z.inj_succ. set (l := Z.of_nat L) in *. assert (Hl : 0 <= l) by (unfold l; lia).
    unfold keeps. destruct (1 + l <=? N) eqn:E1.
    + apply Z.leb_le in E1. cbn [orb]. rewrite !Z.min_l by lia. rewrite !Z.max_l by lia.
      destruct (M =? 0) eqn:E0; [lia|]. apply Z.eqb_neq in E0. rewrite Z.div_0_l by lia. lia.
    + apply Z.leb_gt in E1. cbn [orb]. rewrite !Z.min_r by lia. rewrite !Z.max_r by lia.
      destruct (M =? 0) eqn:E0; cbn [negb andb]; [lia|].
      apply Z.eqb_neq in E0. replace (Z.succ l - N) with ((l - N) + 1) by lia.
      replace (1 + l - N) with ((l - N) + 1) by lia.
      rewrite (div_succ (l - N) M) by lia. destruct ((l - N + 1) mod M =? 0); lia.
Qed.

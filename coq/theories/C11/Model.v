(* Model of zap's sampling core (zapcore/sampler.go), following the Go text:
     counters.get / fnv32a          -> [bucket], [key_of]
     counter.IncCheckReset          -> [inc_check_reset] (sequential) and the atomic-step machine [cstep]
     sampler.Check                  -> [check]
     sampler.With                   -> [with_]      (copies the *counters pointer)
     NewSamplerWithOptions          -> [new_sampler] (allocates fresh counters)
   plus the specification ([spec_decs]: per key, cut the history into windows, number from 1,
   keep pos <= N or every Mth after) and the wire functions [model] / [spec].
   No proofs in this file. *)
From Coq Require Import List ZArith Bool Lia.
From Coq.Strings Require Import Byte.
Import ListNotations.
From Zap Require Import Base.Wire.
Open Scope Z_scope.

(* ------------------------------------------------------------------ *)
(* Go's fixed-width integers, written explicitly                       *)
Definition two32 : Z := 4294967296.
Definition two63 : Z := 9223372036854775808.
Definition two64 : Z := 18446744073709551616.
Definition min64 : Z := - two63.
Definition max64 : Z := two63 - 1.
Definition u32 (z : Z) : Z := Z.land z (two32 - 1).   (* the low 32 bits: uint32 wrap-around *)
Definition u64 (z : Z) : Z := z mod two64.
Definition i64 (z : Z) : Z := (z + two63) mod two64 - two63.
Definition in_i64 (z : Z) : bool := (min64 <=? z) && (z <=? max64).

Fixpoint zlist_eqb (a b : list Z) : bool :=
  match a, b with
  | [], [] => true
  | x :: a', y :: b' => Z.eqb x y && zlist_eqb a' b'
  | _, _ => false
  end.
Definition is_nil_z (l : list Z) : bool := match l with [] => true | _ => false end.

(* ------------------------------------------------------------------ *)
(* fnv32a(s): hash := offset32; for each byte: hash ^= b; hash *= prime32 (uint32) *)
Definition fnv_offset32 : Z := 2166136261.
Definition fnv_prime32 : Z := 16777619.
Definition fnv_step (h : Z) (b : byte) : Z := u32 (Z.lxor h (Z_of_byte b) * fnv_prime32).
Definition fnv32a (s : bytes) : Z := fold_left fnv_step s fnv_offset32.
Definition counters_per_level : Z := 4096.
Definition bucket (s : bytes) : Z := fnv32a s mod counters_per_level.

(* levels: zapcore.Level is an int8; _minLevel = DebugLevel = -1, _maxLevel = FatalLevel = 5 *)
Definition min_level : Z := -1.
Definition max_level : Z := 5.
Definition level_in_range (l : Z) : bool := (l >=? min_level) && (l <=? max_level).

(* a counter cell is addressed by (counters object, level index, bucket) *)
Definition key : Type := (nat * (Z * Z))%type.
Definition key_eqb (a b : key) : bool :=
  Nat.eqb (fst a) (fst b) && (Z.eqb (fst (snd a)) (fst (snd b)) && Z.eqb (snd (snd a)) (snd (snd b))).

(* ------------------------------------------------------------------ *)
(* counter{resetAt atomic.Int64; counter atomic.Uint64} *)
Record ctr := { resetAt : Z; cnt : Z }.

(* IncCheckReset executed without interference (the CAS then always succeeds);
   [C11_solo_refines] shows this is what the atomic-step machine below does for a lone thread. *)
Definition inc_check_reset (tick : Z) (c : ctr) (tn : Z) : ctr * Z :=
  let resetAfter := resetAt c in
  if resetAfter >? tn then
    let n := u64 (cnt c + 1) in                         (* c.counter.Add(1) *)
    ({| resetAt := resetAfter; cnt := n |}, n)
  else
    (* c.counter.Store(1); newResetAfter := tn + tick.Nanoseconds(); CAS(resetAfter, newResetAfter); return 1 *)
    ({| resetAt := i64 (tn + tick); cnt := 1 |}, 1).

(* n > s.first && (s.thereafter == 0 || (n-s.first)%s.thereafter != 0), all uint64 *)
Definition dropped (first thereafter n : Z) : bool :=
  (n >? first) && ((thereafter =? 0) || negb (u64 (n - first) mod thereafter =? 0)).

(* SamplingDecision bits *)
Definition LogDropped : Z := 1.
Definition LogSampled : Z := 2.

(* configuration as passed to NewSamplerWithOptions(core, tick, first, thereafter int, SamplerHook(h)) *)
Record cfg := { c_first : Z; c_thereafter : Z; c_tick : Z }.
Definition s_first (c : cfg) : Z := u64 (c_first c).            (* uint64(first) *)
Definition s_thereafter (c : cfg) : Z := u64 (c_thereafter c).  (* uint64(thereafter) *)

(* a sampler value: the fields that differ between a sampler and the ones derived from it.
   tick, first, thereafter and hook are copied verbatim by With, so they stay in [cfg]. *)
Record sampler := { s_counts : nat (* which *counters *); s_depth : nat (* fields added to the wrapped core *) }.

(* one Check call: ent.Level, ent.Message, ent.Time.UnixNano(), and the answer of the wrapped
   core's Enabled(ent.Level) at the time of the call (an input: the enabler is not the sampler's code) *)
Record entry := { e_core : nat; e_lvl : Z; e_msg : bytes; e_tn : Z; e_en : bool }.

Record outcome := { o_hooks : list Z (* decisions passed to the hook, in call order *);
                    o_fwd : bool    (* s.Core.Check reached, i.e. the entry goes to the wrapped core *);
                    o_ctx : nat     (* context fields of the wrapped core it reached *) }.

Definition heap : Type := key -> ctr.
Definition upd (h : heap) (k : key) (c : ctr) : heap := fun k' => if key_eqb k' k then c else h k'.

Definition key_of (counts : nat) (lvl : Z) (msg : bytes) : key := (counts, (lvl - min_level, bucket msg)).

(* sampler.Check *)
Definition check (c : cfg) (h : heap) (s : sampler) (e : entry) : heap * outcome :=
  if negb (e_en e) then (h, {| o_hooks := []; o_fwd := false; o_ctx := 0 |})        (* return ce *)
  else if level_in_range (e_lvl e) then
    let k := key_of (s_counts s) (e_lvl e) (e_msg e) in
    let '(c', n) := inc_check_reset (c_tick c) (h k) (e_tn e) in
    if dropped (s_first c) (s_thereafter c) n
    then (upd h k c', {| o_hooks := [LogDropped]; o_fwd := false; o_ctx := 0 |})
    else (upd h k c', {| o_hooks := [LogSampled]; o_fwd := true; o_ctx := s_depth s |})
  else (h, {| o_hooks := []; o_fwd := true; o_ctx := s_depth s |}).                  (* s.Core.Check(ent, ce) *)

Inductive op :=
| Log (e : entry)
| With (parent : nat)     (* cores[parent].With(one field): a new core value *)
| NewRoot.                (* NewSamplerWithOptions over the same wrapped core: fresh counters *)

Record st := { cores : list sampler; nalloc : nat; hp : heap }.

Definition sampler0 : sampler := {| s_counts := 0; s_depth := 0 |}.
Definition with_ (s : sampler) : sampler := {| s_counts := s_counts s; s_depth := S (s_depth s) |}.
Definition new_sampler (n : nat) : sampler := {| s_counts := n; s_depth := 0 |}.

Definition step (c : cfg) (s : st) (o : op) : st * list outcome :=
  match o with
  | Log e =>
      let '(h', oc) := check c (hp s) (nth (e_core e) (cores s) sampler0) e in
      ({| cores := cores s; nalloc := nalloc s; hp := h' |}, [oc])
  | With p =>
      ({| cores := cores s ++ [with_ (nth p (cores s) sampler0)]; nalloc := nalloc s; hp := hp s |}, [])
  | NewRoot =>
      ({| cores := cores s ++ [new_sampler (nalloc s)]; nalloc := S (nalloc s); hp := hp s |}, [])
  end.

Fixpoint run (c : cfg) (s : st) (ops : list op) : list outcome :=
  match ops with
  | [] => []
  | o :: r => let '(s', oc) := step c s o in oc ++ run c s' r
  end.

(* newCounters(): after the fix every cell starts with resetAt = math.MinInt64 ("no window yet");
   the original code left the zero value, i.e. a window ending at the Unix epoch. *)
Definition ctr0 : ctr := {| resetAt := min64; cnt := 0 |}.
Definition ctr0_orig : ctr := {| resetAt := 0; cnt := 0 |}.
Definition init_gen (c0 : ctr) : st := {| cores := [sampler0]; nalloc := 1; hp := fun _ => c0 |}.
Definition init : st := init_gen ctr0.
Definition init_orig : st := init_gen ctr0_orig.

Definition outcomes (c : cfg) (ops : list op) : list outcome := run c init ops.
Definition outcomes_orig (c : cfg) (ops : list op) : list outcome := run c init_orig ops.

(* ------------------------------------------------------------------ *)
(* Specification (does not mention counters, resetAt, or the code's arithmetic)               *)

(* which sampler family a core belongs to: cores derived by With belong to their parent's family *)
Record rentry := { r_root : nat; r_depth : nat; r_lvl : Z; r_msg : bytes; r_tn : Z; r_en : bool }.
Fixpoint resolve_from (fam : list (nat * nat)) (nroots : nat) (ops : list op) : list rentry :=
  match ops with
  | [] => []
  | Log e :: r =>
      let '(root, depth) := nth (e_core e) fam (0%nat, 0%nat) in
      {| r_root := root; r_depth := depth; r_lvl := e_lvl e; r_msg := e_msg e; r_tn := e_tn e; r_en := e_en e |}
      :: resolve_from fam nroots r
  | With p :: r => let '(root, depth) := nth p fam (0%nat, 0%nat) in resolve_from (fam ++ [(root, S depth)]) nroots r
  | NewRoot :: r => resolve_from (fam ++ [(nroots, 0%nat)]) (S nroots) r
  end.
Definition resolve (ops : list op) : list rentry := resolve_from [(0%nat, 0%nat)] 1 ops.

Inductive cls := CSkip | CPass | CKey (k : key).
Definition classify (e : rentry) : cls :=
  if negb (r_en e) then CSkip
  else if level_in_range (r_lvl e) then CKey (r_root e, (r_lvl e - min_level, bucket (r_msg e)))
  else CPass.
(* an entry as the specification sees it: its class (computed once), its stamp, and the context
   depth of the core it was logged through *)
Record sentry := { se_cls : cls; se_tn : Z; se_depth : nat }.
Definition classify_entry (e : rentry) : sentry :=
  {| se_cls := classify e; se_tn := r_tn e; se_depth := r_depth e |}.
Definition has_key (k : key) (e : sentry) : bool :=
  match se_cls e with CKey k' => key_eqb k' k | _ => false end.
(* timestamps of the earlier entries that count against budget [k] *)
Definition hist (k : key) (pre : list sentry) : list Z := map se_tn (filter (has_key k) pre).

(* window state of one budget: None = no window opened yet; Some (end, n) = window ending at [end]
   with n entries so far.  An entry stamped before [end] joins the window, any other opens a new one
   ending one tick after its own stamp. *)
Definition wstep (tick : Z) (w : option (Z * Z)) (t : Z) : option (Z * Z) :=
  match w with
  | Some (e, p) => if t <? e then Some (e, p + 1) else Some (t + tick, 1)
  | None => Some (t + tick, 1)
  end.
Definition wstate (tick : Z) (h : list Z) : option (Z * Z) := fold_left (wstep tick) h None.
Definition wpos (w : option (Z * Z)) : Z := match w with Some (_, p) => p | None => 0 end.
(* position (from 1) of an entry stamped [t] inside its window, given the earlier stamps [h] *)
Definition pos_after (tick : Z) (h : list Z) (t : Z) : Z := wpos (wstep tick (wstate tick h) t).

(* first N, then every Mth (none if M = 0) *)
Definition keeps (N M pos : Z) : bool :=
  (pos <=? N) || (negb (M =? 0) && ((pos - N) mod M =? 0)).

Inductive dec := DSkip | DPass | DKeep | DDrop.
Definition spec_dec (c : cfg) (pre : list sentry) (e : sentry) : dec :=
  match se_cls e with
  | CSkip => DSkip
  | CPass => DPass
  | CKey k => if keeps (c_first c) (c_thereafter c) (pos_after (c_tick c) (hist k pre) (se_tn e)) then DKeep else DDrop
  end.
Fixpoint spec_decs (c : cfg) (pre : list sentry) (es : list sentry) : list dec :=
  match es with
  | [] => []
  | e :: r => spec_dec c pre e :: spec_decs c (pre ++ [e]) r
  end.

(* what each decision means at the two observation points *)
Definition outcome_of (d : dec) (depth : nat) : outcome :=
  match d with
  | DSkip => {| o_hooks := []; o_fwd := false; o_ctx := 0 |}
  | DPass => {| o_hooks := []; o_fwd := true; o_ctx := depth |}
  | DKeep => {| o_hooks := [LogSampled]; o_fwd := true; o_ctx := depth |}
  | DDrop => {| o_hooks := [LogDropped]; o_fwd := false; o_ctx := 0 |}
  end.
Fixpoint outcomes_of (ds : list dec) (es : list sentry) : list outcome :=
  match ds, es with
  | d :: ds', e :: es' => outcome_of d (se_depth e) :: outcomes_of ds' es'
  | _, _ => []
  end.
Definition sentries (ops : list op) : list sentry := map classify_entry (resolve ops).
Definition spec_outcomes (c : cfg) (ops : list op) : list outcome :=
  let es := sentries ops in outcomes_of (spec_decs c [] es) es.

Definition dec_of_bool (b : bool) : dec := if b then DKeep else DDrop.

(* the "cut into windows, number from 1" reading of [wstep], for one budget (see Proofs.spec_window) *)
Fixpoint take_window (end_ : Z) (ts : list Z) : list Z * list Z :=
  match ts with
  | t :: r => if t <? end_ then let '(w, rest) := take_window end_ r in (t :: w, rest) else ([], ts)
  | [] => ([], [])
  end.
Fixpoint number (N M : Z) (pos : Z) (w : list Z) : list bool :=
  match w with [] => [] | _ :: r => keeps N M pos :: number N M (pos + 1) r end.
(* decisions for the stamps [ts] of one budget whose window state is [w] *)
Fixpoint key_decs (N M tick : Z) (w : option (Z * Z)) (ts : list Z) : list bool :=
  match ts with
  | [] => []
  | t :: r => let w' := wstep tick w t in keeps N M (wpos w') :: key_decs N M tick w' r
  end.

(* hypotheses of the theorems: Go's typing of the arguments plus the two no-overflow conditions *)
Definition wf_cfg (c : cfg) : bool :=
  (0 <=? c_first c) && (c_first c <=? max64) && (0 <=? c_thereafter c) && (c_thereafter c <=? max64) && in_i64 (c_tick c).
Definition wf_entry (c : cfg) (e : entry) : bool :=
  in_i64 (e_tn e) && in_i64 (e_tn e + c_tick c).      (* no_overflow: tn + tick fits in int64 *)
Fixpoint wf_ops (c : cfg) (ncores : nat) (ops : list op) : bool :=
  match ops with
  | [] => true
  | Log e :: r => Nat.ltb (e_core e) ncores && wf_entry c e && wf_ops c ncores r
  | With p :: r => Nat.ltb p ncores && wf_ops c (S ncores) r
  | NewRoot :: r => wf_ops c (S ncores) r
  end.
(* the uint64 entry counter cannot wrap: fewer than 2^64 calls *)
Definition wf_len (ops : list op) : bool := Z.of_nat (length ops) <? two64.
Definition wf_run (c : cfg) (ops : list op) : bool := wf_cfg c && wf_ops c 1 ops && wf_len ops.

(* ------------------------------------------------------------------ *)
(* Atomic-step machine for goroutines inside Check on ONE counter cell:
   Load / Add / Store / CAS of IncCheckReset are separate steps; then hook; then forward. *)
Inductive pc :=
| PLoad                (* about to: resetAfter := c.resetAt.Load() *)
| PAdd                 (* about to: return c.counter.Add(1)  (either occurrence) *)
| PStore (ra : Z)      (* about to: c.counter.Store(1) *)
| PCas (ra : Z)        (* about to: c.resetAt.CompareAndSwap(resetAfter, tn + tick) *)
| PGot (n : Z)         (* IncCheckReset returned n; about to evaluate the predicate and call the hook *)
| PFwd                 (* hook(ent, LogSampled) done; about to: s.Core.Check(ent, ce) *)
| PDone.
Record thr := { t_tn : Z; t_pc : pc;
                t_ret : option Z      (* ghost: value returned by IncCheckReset *);
                t_hooks : list Z      (* hook calls made for this entry *);
                t_fwd : nat           (* times this entry reached the wrapped core *) }.
Record cst := { g_reset : Z; g_cnt : Z; g_thr : list thr }.

Fixpoint set_nth {A} (l : list A) (i : nat) (a : A) : list A :=
  match l, i with
  | [], _ => []
  | _ :: r, O => a :: r
  | x :: r, S j => x :: set_nth r j a
  end.

Definition cstep (c : cfg) (s : cst) (i : nat) : cst :=
  match nth_error (g_thr s) i with
  | None => s
  | Some t =>
      let put (t' : thr) := set_nth (g_thr s) i t' in
      let at_pc (p : pc) := {| t_tn := t_tn t; t_pc := p; t_ret := t_ret t; t_hooks := t_hooks t; t_fwd := t_fwd t |} in
      match t_pc t with
      | PLoad =>
          let ra := g_reset s in
          {| g_reset := g_reset s; g_cnt := g_cnt s;
             g_thr := put (at_pc (if ra >? t_tn t then PAdd else PStore ra)) |}
      | PAdd =>
          let n := u64 (g_cnt s + 1) in
          {| g_reset := g_reset s; g_cnt := n;
             g_thr := put {| t_tn := t_tn t; t_pc := PGot n; t_ret := Some n; t_hooks := t_hooks t; t_fwd := t_fwd t |} |}
      | PStore ra =>
          {| g_reset := g_reset s; g_cnt := 1; g_thr := put (at_pc (PCas ra)) |}
      | PCas ra =>
          if g_reset s =? ra
          then {| g_reset := i64 (t_tn t + c_tick c); g_cnt := g_cnt s;
                  g_thr := put {| t_tn := t_tn t; t_pc := PGot 1; t_ret := Some 1; t_hooks := t_hooks t; t_fwd := t_fwd t |} |}
          else {| g_reset := g_reset s; g_cnt := g_cnt s; g_thr := put (at_pc PAdd) |}
      | PGot n =>
          if dropped (s_first c) (s_thereafter c) n
          then {| g_reset := g_reset s; g_cnt := g_cnt s;
                  g_thr := put {| t_tn := t_tn t; t_pc := PDone; t_ret := t_ret t; t_hooks := t_hooks t ++ [LogDropped]; t_fwd := t_fwd t |} |}
          else {| g_reset := g_reset s; g_cnt := g_cnt s;
                  g_thr := put {| t_tn := t_tn t; t_pc := PFwd; t_ret := t_ret t; t_hooks := t_hooks t ++ [LogSampled]; t_fwd := t_fwd t |} |}
      | PFwd =>
          {| g_reset := g_reset s; g_cnt := g_cnt s;
             g_thr := put {| t_tn := t_tn t; t_pc := PDone; t_ret := t_ret t; t_hooks := t_hooks t; t_fwd := S (t_fwd t) |} |}
      | PDone => s
      end
  end.
(* a schedule is the list of thread ids that take the next atomic step *)
Definition crun (c : cfg) (s : cst) (sched : list nat) : cst := fold_left (cstep c) sched s.
Definition thr0 (tn : Z) : thr := {| t_tn := tn; t_pc := PLoad; t_ret := None; t_hooks := []; t_fwd := 0 |}.
Definition cinit (R cn : Z) (tns : list Z) : cst := {| g_reset := R; g_cnt := cn; g_thr := map thr0 tns |}.
Definition is_done (t : thr) : bool := match t_pc t with PDone => true | _ => false end.
Definition all_done (s : cst) : bool := forallb is_done (g_thr s).
Definition rets (l : list thr) : list Z := flat_map (fun t => match t_ret t with Some n => [n] | None => [] end) l.
Definition all_hooks (l : list thr) : list Z := flat_map t_hooks l.
Definition total_fwd (l : list thr) : nat := fold_right (fun t a => (t_fwd t + a)%nat) 0%nat l.
Fixpoint zseq (start : Z) (len : nat) : list Z :=
  match len with O => [] | S n => start :: zseq (start + 1) n end.
Definition count_true (l : list bool) : nat := length (filter (fun b => b) l).
Definition decision (c : cfg) (n : Z) : Z := if dropped (s_first c) (s_thereafter c) n then LogDropped else LogSampled.
(* per-entry accounting: what may be observed of one entry at each point of its Check call *)
Definition acct_ok (c : cfg) (t : thr) : bool :=
  match t_pc t, t_ret t with
  | PLoad, None | PAdd, None | PStore _, None | PCas _, None => is_nil_z (t_hooks t) && Nat.eqb (t_fwd t) 0
  | PGot n, Some m => Z.eqb n m && is_nil_z (t_hooks t) && Nat.eqb (t_fwd t) 0
  | PFwd, Some m => negb (dropped (s_first c) (s_thereafter c) m) && zlist_eqb (t_hooks t) [LogSampled] && Nat.eqb (t_fwd t) 0
  | PDone, Some m =>
      if dropped (s_first c) (s_thereafter c) m
      then zlist_eqb (t_hooks t) [LogDropped] && Nat.eqb (t_fwd t) 0
      else zlist_eqb (t_hooks t) [LogSampled] && Nat.eqb (t_fwd t) 1
  | _, _ => false
  end.

(* ------------------------------------------------------------------ *)
(* Wire.
   sequential case  (0 N M tick (op ...))
   concurrent case  (1 N M tick (op ...) (op ...))   -- prefix run sequentially, then the batch (Log ops of
                                                        one budget, all stamped inside its open window) run by
                                                        concurrent goroutines
   op = (0 core lvl #msg tn en) | (1 parent) | (2)
   observation, sequential: ( ((hook ...) fwd ctx) ... )  one per Log op
   observation, concurrent: ( <prefix observation>  ( ((hook ...) fwd) ... ) )  batch records in canonical
                                                        order (forwarded first): schedule-independent iff the
                                                        per-entry accounting holds and the kept count is exact *)
Definition dec_op (s : sx) : op :=
  match sx_z (sx_nth s 0) with
  | 0 => Log {| e_core := sx_n (sx_nth s 1); e_lvl := sx_z (sx_nth s 2); e_msg := sx_b (sx_nth s 3);
                e_tn := sx_z (sx_nth s 4); e_en := sx_bool (sx_nth s 5) |}
  | 1 => With (sx_n (sx_nth s 1))
  | _ => NewRoot
  end.
Definition dec_cfg (i : sx) : cfg :=
  {| c_first := sx_z (sx_nth i 1); c_thereafter := sx_z (sx_nth i 2); c_tick := sx_z (sx_nth i 3) |}.
Definition dec_ops (s : sx) : list op := map dec_op (sx_l s).
Definition is_conc (i : sx) : bool := sx_z (sx_nth i 0) =? 1.

Definition enc_outcome (o : outcome) : sx := SL [of_zlist (o_hooks o); of_bool (o_fwd o); of_nat (o_ctx o)].
Definition enc_short (o : outcome) : sx := SL [of_zlist (o_hooks o); of_bool (o_fwd o)].
Definition canon (l : list outcome) : list outcome := filter o_fwd l ++ filter (fun o => negb (o_fwd o)) l.
Definition is_log (o : op) : bool := match o with Log _ => true | _ => false end.
Definition n_logs (ops : list op) : nat := length (filter is_log ops).

Definition enc_obs (conc : bool) (npre : nat) (outs : list outcome) : sx :=
  if conc then SL [SL (map enc_outcome (firstn npre outs)); SL (map enc_short (canon (skipn npre outs)))]
  else SL (map enc_outcome outs).

Definition model (i : sx) : sx :=
  let c := dec_cfg i in
  let pre := dec_ops (sx_nth i 4) in
  if is_conc i then enc_obs true (n_logs pre) (outcomes c (pre ++ dec_ops (sx_nth i 5)))
  else enc_obs false 0 (outcomes c pre).

(* the batch lies inside one open window of one budget *)
Definition batch_in_window (c : cfg) (pre batch : list op) : bool :=
  forallb is_log batch &&
  match skipn (n_logs pre) (sentries (pre ++ batch)) with
  | [] => true
  | (e0 :: _) as bes =>
      match se_cls e0 with
      | CKey k =>
          match wstate (c_tick c) (hist k (sentries pre)) with
          | Some (end_, _) => forallb (fun e => has_key k e && (se_tn e <? end_)) bes
          | None => false
          end
      | _ => false
      end
  end.

Definition wf (i : sx) : bool :=
  let c := dec_cfg i in
  let pre := dec_ops (sx_nth i 4) in
  if is_conc i then let batch := dec_ops (sx_nth i 5) in wf_run c (pre ++ batch) && batch_in_window c pre batch
  else wf_run c pre.

(* what the specification prescribes for a concurrent batch inside the open window of budget k:
   as many kept records as the one-pass window numbering keeps for that many further entries
   (C11_atomic_exact: the order of arrival is irrelevant), in canonical order *)
Definition conc_expected (c : cfg) (pre batch : list op) : list outcome :=
  match skipn (n_logs pre) (sentries (pre ++ batch)) with
  | [] => []
  | (e0 :: _) as bes =>
      match se_cls e0 with
      | CKey k =>
          canon (map (fun b => outcome_of (dec_of_bool b) 0)
                     (key_decs (c_first c) (c_thereafter c) (c_tick c)
                               (wstate (c_tick c) (hist k (sentries pre))) (map se_tn bes)))
      | _ => []
      end
  end.

(* the oracle: the observation is what the specification prescribes.  Cases outside the theorems'
   hypotheses (tn + tick overflowing int64 etc.) are only compared model-vs-implementation. *)
Definition spec (i o : sx) : bool :=
  let c := dec_cfg i in
  let pre := dec_ops (sx_nth i 4) in
  if is_conc i then
    let batch := dec_ops (sx_nth i 5) in
    if negb (wf_run c (pre ++ batch)) then true
    else batch_in_window c pre batch &&
         sx_eqb o (SL [SL (map enc_outcome (spec_outcomes c pre)); SL (map enc_short (conc_expected c pre batch))])
  else
    if negb (wf_run c pre) then true
    else sx_eqb o (enc_obs false 0 (spec_outcomes c pre)).

(* C11 — stub *)
From Zap Require Import Base.Wire C11.Model.

(* C11 — proofs about the sequential model of the sampling core (zapcore/sampler.go). *)
From Coq Require Import List ZArith Bool Lia Arith.
From Coq.Strings Require Import Byte.
Import ListNotations.
From Zap Require Import Base.Wire C11.Model.
Open Scope Z_scope.

(* ------------------------------------------------------------------ *)
(* fixed-width arithmetic *)
Lemma two64_pos : 0 < two64. Proof. reflexivity. Qed.
Lemma u64_small z : 0 <= z < two64 -> u64 z = z.
Proof. intros H. unfold u64. apply Z.mod_small. exact H. Qed.
Lemma in_i64_iff z : in_i64 z = true <-> min64 <= z <= max64.
Proof. unfold in_i64. rewrite andb_true_iff, !Z.leb_le. tauto. Qed.
Lemma i64_small z : in_i64 z = true -> i64 z = z.
Proof.
  rewrite in_i64_iff. unfold i64, min64, max64. intros H.
  rewrite Z.mod_small; [lia|]. unfold two63, two64 in *. lia.
Qed.

(* the code's predicate is the negation of "first N, then every Mth" *)
Lemma keeps_dropped N M n :
  0 <= N < two64 -> 0 <= M < two64 -> 0 <= n < two64 ->
  dropped (u64 N) (u64 M) n = negb (keeps N M n).
Proof.
  intros HN HM Hn. unfold dropped, keeps. rewrite (u64_small N HN), (u64_small M HM).
  rewrite Z.gtb_ltb, Z.ltb_antisym.
  destruct (n <=? N) eqn:E; cbn [negb andb orb]; [reflexivity|].
  apply Z.leb_gt in E. rewrite (u64_small (n - N)) by lia.
  destruct (M =? 0); cbn [negb andb orb]; [reflexivity|]. reflexivity.
Qed.

(* ------------------------------------------------------------------ *)
(* keys *)
Lemma key_eqb_eq a b : key_eqb a b = true <-> a = b.
Proof.
  destruct a as [a1 [a2 a3]], b as [b1 [b2 b3]]. unfold key_eqb. cbn [fst snd].
  rewrite !andb_true_iff, Nat.eqb_eq, !Z.eqb_eq. split.
  - intros [-> [-> ->]]. reflexivity.
  - intros [= -> -> ->]. auto.
Qed.
Lemma key_eqb_refl a : key_eqb a a = true.
Proof. now apply key_eqb_eq. Qed.
Lemma key_eqb_sym a b : key_eqb a b = key_eqb b a.
Proof.
  destruct (key_eqb a b) eqn:E1, (key_eqb b a) eqn:E2; try reflexivity.
  - apply key_eqb_eq in E1. subst. now rewrite key_eqb_refl in E2.
  - apply key_eqb_eq in E2. subst. now rewrite key_eqb_refl in E1.
Qed.

(* ------------------------------------------------------------------ *)
(* window states *)
Lemma wstate_snoc tick h t : wstate tick (h ++ [t]) = wstep tick (wstate tick h) t.
Proof. unfold wstate. now rewrite fold_left_app. Qed.

Lemma wstep_pos tick w t : 0 <= wpos w -> 1 <= wpos (wstep tick w t) <= wpos w + 1.
Proof.
  intros H. destruct w as [[e p]|]; cbn [wstep wpos] in *.
  - destruct (t <? e); cbn [wpos]; lia.
  - lia.
Qed.
Lemma wfold_bound tick h : forall w, 0 <= wpos w ->
  0 <= wpos (fold_left (wstep tick) h w) <= wpos w + Z.of_nat (length h).
Proof.
  induction h as [|t r IH]; intros w Hw; cbn [fold_left length].
  - lia.
  - pose proof (wstep_pos tick w t Hw) as H1. specialize (IH (wstep tick w t)).
    rewrite Nat2Z.inj_succ. lia.
Qed.
Lemma wstate_bound tick h : 0 <= wpos (wstate tick h) <= Z.of_nat (length h).
Proof. unfold wstate. pose proof (wfold_bound tick h None). cbn [wpos] in H. lia. Qed.

Lemma filter_len_le {A} (f : A -> bool) l : (length (filter f l) <= length l)%nat.
Proof. induction l as [|x r IH]; cbn [filter length]; [lia|]. destruct (f x); cbn [length]; lia. Qed.
Lemma hist_length k pre : (length (hist k pre) <= length pre)%nat.
Proof. unfold hist. rewrite map_length. apply filter_len_le. Qed.

Lemma hist_snoc k pre e :
  hist k (pre ++ [e]) = hist k pre ++ (if has_key k e then [se_tn e] else []).
Proof.
  unfold hist. rewrite filter_app, map_app. cbn [filter]. destruct (has_key k e); reflexivity.
Qed.

(* ------------------------------------------------------------------ *)
(* one counter cell against one window state *)
Definition Rel (c0 c : ctr) (w : option (Z * Z)) : Prop :=
  match w with
  | None => c = c0
  | Some (e, p) => resetAt c = e /\ cnt c = p
  end.

Lemma inc_step R0 tick c w t :
  Rel {| resetAt := R0; cnt := 0 |} c w ->
  R0 <= t -> in_i64 (t + tick) = true ->
  0 <= wpos w -> wpos w + 1 < two64 ->
  Rel {| resetAt := R0; cnt := 0 |} (fst (inc_check_reset tick c t)) (wstep tick w t) /\
  snd (inc_check_reset tick c t) = wpos (wstep tick w t).
Proof.
  intros HR Ht Hov Hp0 Hp1. unfold inc_check_reset.
  destruct w as [[e p]|]; cbn [Rel wstep wpos] in *.
  - destruct HR as [He Hc]. rewrite He, Hc. rewrite Z.gtb_ltb.
    destruct (t <? e) eqn:E; cbn [fst snd Rel wpos resetAt cnt].
    + rewrite u64_small by lia. auto.
    + rewrite i64_small by exact Hov. auto.
  - subst c. cbn [resetAt cnt]. rewrite Z.gtb_ltb.
    destruct (t <? R0) eqn:E; [apply Z.ltb_lt in E; lia|].
    cbn [fst snd Rel wpos resetAt cnt]. rewrite i64_small by exact Hov. auto.
Qed.

(* ------------------------------------------------------------------ *)
(* the whole run against the specification *)
Definition spair (s : sampler) : nat * nat := (s_counts s, s_depth s).
Definition stamps_ge (R0 : Z) (ops : list op) : bool :=
  forallb (fun o => match o with Log e => R0 <=? e_tn e | _ => true end) ops.

Section Run.
Variable c : cfg.
Variable R0 : Z.
Hypothesis Hcfg : wf_cfg c = true.
Let c0 := {| resetAt := R0; cnt := 0 |}.

Definition Inv (h : heap) (pre : list sentry) : Prop :=
  forall k, Rel c0 (h k) (wstate (c_tick c) (hist k pre)).

Lemma cfg_bounds : 0 <= c_first c < two64 /\ 0 <= c_thereafter c < two64.
Proof.
  unfold wf_cfg in Hcfg. rewrite !andb_true_iff, !Z.leb_le in Hcfg.
  unfold max64, two63, two64 in *. lia.
Qed.

Lemma run_spec_gen : forall ops s fam nroots pre,
  map spair (cores s) = fam -> nalloc s = nroots -> Inv (hp s) pre ->
  wf_ops c (length (cores s)) ops = true -> stamps_ge R0 ops = true ->
  Z.of_nat (length pre) + Z.of_nat (length ops) < two64 ->
  run c s ops =
  let es := map classify_entry (resolve_from fam nroots ops) in outcomes_of (spec_decs c pre es) es.
Proof.
  induction ops as [|o r IH]; intros s fam nroots pre Hfam Hn HI Hwf Hge Hlen; [reflexivity|].
  cbn [length] in Hlen. rewrite Nat2Z.inj_succ in Hlen.
  destruct o as [e|p|].
  - (* Log *)
    cbn [wf_ops] in Hwf. rewrite !andb_true_iff in Hwf. destruct Hwf as [[_ Hwe] Hwr].
    cbn [stamps_ge forallb] in Hge. rewrite andb_true_iff in Hge. destruct Hge as [Hge1 Hger].
    apply Z.leb_le in Hge1.
    unfold wf_entry in Hwe. rewrite andb_true_iff in Hwe. destruct Hwe as [_ Hov].
    cbn [run step resolve_from].
    assert (Hnth : nth (e_core e) fam (0%nat, 0%nat) = spair (nth (e_core e) (cores s) sampler0)).
    { rewrite <- Hfam. change (0%nat, 0%nat) with (spair sampler0). apply map_nth. }
    rewrite Hnth. set (smp := nth (e_core e) (cores s) sampler0). unfold spair. cbn [map].
    set (re := {| r_root := s_counts smp; r_depth := s_depth smp; r_lvl := e_lvl e; r_msg := e_msg e;
                  r_tn := e_tn e; r_en := e_en e |}).
    set (se := classify_entry re).
    assert (Hcls : se_cls se = if negb (e_en e) then CSkip else if level_in_range (e_lvl e)
                               then CKey (key_of (s_counts smp) (e_lvl e) (e_msg e)) else CPass) by reflexivity.
    assert (Htn : se_tn se = e_tn e) by reflexivity.
    assert (Hdp : se_depth se = s_depth smp) by reflexivity.
    clearbody se. clear re.
    cbn [spec_decs outcomes_of]. unfold check, spec_dec. rewrite Hcls, Htn, Hdp.
    destruct (e_en e) eqn:Een; cbn [negb] in *.
    2:{ (* disabled: nothing happens *)
      cbn [app outcome_of]. f_equal.
      apply (IH {| cores := cores s; nalloc := nalloc s; hp := hp s |}); cbn [cores nalloc hp]; auto.
      - intros k. rewrite hist_snoc. unfold has_key. rewrite Hcls, app_nil_r. apply HI.
      - rewrite app_length. cbn [length]. lia. }
    destruct (level_in_range (e_lvl e)) eqn:Erange.
    2:{ (* out of range: forwarded unsampled *)
      cbn [app outcome_of]. f_equal.
      apply (IH {| cores := cores s; nalloc := nalloc s; hp := hp s |}); cbn [cores nalloc hp]; auto.
      - intros k. rewrite hist_snoc. unfold has_key. rewrite Hcls, app_nil_r. apply HI.
      - rewrite app_length. cbn [length]. lia. }
    (* keyed *)
    set (k0 := key_of (s_counts smp) (e_lvl e) (e_msg e)) in *.
    pose proof (wstate_bound (c_tick c) (hist k0 pre)) as Hb.
    pose proof (hist_length k0 pre) as Hhl.
    destruct (inc_step R0 (c_tick c) (hp s k0) _ (e_tn e) (HI k0) Hge1 Hov) as [HR' Hn']; [lia|lia|].
    destruct (inc_check_reset (c_tick c) (hp s k0) (e_tn e)) as [c' n] eqn:Einc. cbn [fst snd] in HR', Hn'.
    pose proof (wstep_pos (c_tick c) (wstate (c_tick c) (hist k0 pre)) (e_tn e) (proj1 Hb)) as Hpos.
    unfold pos_after. rewrite <- Hn' in *.
    destruct cfg_bounds as [HN HM].
    unfold s_first, s_thereafter. rewrite keeps_dropped by (try assumption; lia).
    assert (HI' : Inv (upd (hp s) k0 c') (pre ++ [se])).
    { intros k. rewrite hist_snoc. unfold has_key. rewrite Hcls, Htn.
      unfold upd. rewrite (key_eqb_sym k0 k). destruct (key_eqb k k0) eqn:Ek.
      - apply key_eqb_eq in Ek. subst k. rewrite wstate_snoc. exact HR'.
      - rewrite app_nil_r. apply HI. }
    destruct (keeps (c_first c) (c_thereafter c) n); cbn [negb app outcome_of]; f_equal;
      (apply (IH {| cores := cores s; nalloc := nalloc s; hp := upd (hp s) k0 c' |}); cbn [cores nalloc hp]; auto;
       rewrite app_length; cbn [length]; lia).
  - (* With *)
    cbn [wf_ops] in Hwf. rewrite andb_true_iff in Hwf. destruct Hwf as [_ Hwr].
    cbn [stamps_ge forallb andb] in Hge.
    cbn [run step resolve_from app].
    assert (Hnth : nth p fam (0%nat, 0%nat) = spair (nth p (cores s) sampler0)).
    { rewrite <- Hfam. change (0%nat, 0%nat) with (spair sampler0). apply map_nth. }
    rewrite Hnth. unfold spair at 1.
    apply (IH {| cores := cores s ++ [with_ (nth p (cores s) sampler0)]; nalloc := nalloc s; hp := hp s |});
      cbn [cores nalloc hp]; auto.
    + rewrite map_app, Hfam. reflexivity.
    + rewrite app_length. cbn [length]. rewrite Nat.add_1_r. exact Hwr.
    + lia.
  - (* NewRoot *)
    cbn [wf_ops] in Hwf. cbn [stamps_ge forallb andb] in Hge.
    cbn [run step resolve_from app].
    apply (IH {| cores := cores s ++ [new_sampler (nalloc s)]; nalloc := S (nalloc s); hp := hp s |});
      cbn [cores nalloc hp]; auto.
    + rewrite map_app, Hfam, Hn. reflexivity.
    + rewrite app_length. cbn [length]. rewrite Nat.add_1_r. exact Hwf.
    + lia.
Qed.

Lemma run_spec ops :
  wf_ops c 1 ops = true -> stamps_ge R0 ops = true -> wf_len ops = true ->
  run c (init_gen c0) ops = spec_outcomes c ops.
Proof.
  intros Hwf Hge Hlen. unfold spec_outcomes, sentries, resolve.
  apply (run_spec_gen ops (init_gen c0) [(0%nat, 0%nat)] 1%nat []); auto.
  - intros k. cbn. reflexivity.
  - unfold wf_len in Hlen. apply Z.ltb_lt in Hlen. cbn [length]. lia.
Qed.
End Run.

Lemma wf_stamps_min c ops n : wf_ops c n ops = true -> stamps_ge min64 ops = true.
Proof.
  revert n. induction ops as [|o r IH]; intros n H; [reflexivity|].
  destruct o as [e|p|]; cbn [wf_ops stamps_ge forallb] in *.
  - rewrite !andb_true_iff in H. destruct H as [[_ He] Hr].
    unfold wf_entry in He. rewrite andb_true_iff in He. destruct He as [He _].
    apply in_i64_iff in He. rewrite andb_true_iff. split; [apply Z.leb_le; lia|]. exact (IH n Hr).
  - rewrite andb_true_iff in H. exact (IH _ (proj2 H)).
  - exact (IH _ H).
Qed.

Lemma wf_run_parts c ops : wf_run c ops = true -> wf_cfg c = true /\ wf_ops c 1 ops = true /\ wf_len ops = true.
Proof. unfold wf_run. rewrite !andb_true_iff. tauto. Qed.

(* C11_sequential (fixed code: every cell starts with resetAt = MinInt64) *)
Theorem sequential_thm c ops : wf_run c ops = true -> outcomes c ops = spec_outcomes c ops.
Proof.
  intros H. apply wf_run_parts in H. destruct H as [Hc [Ho Hl]].
  unfold outcomes, init, ctr0. apply run_spec; auto. exact (wf_stamps_min c ops 1 Ho).
Qed.

(* the original code (cells start with resetAt = 0) agrees with the specification only from the epoch on *)
Theorem sequential_orig_partial c ops :
  wf_run c ops = true -> stamps_ge 0 ops = true -> outcomes_orig c ops = spec_outcomes c ops.
Proof.
  intros H Hge. apply wf_run_parts in H. destruct H as [Hc [Ho Hl]].
  unfold outcomes_orig, init_orig, ctr0_orig. apply run_spec; auto.
Qed.

Definition C11_sequential_orig_full : Prop :=
  forall c ops, wf_run c ops = true -> outcomes_orig c ops = spec_outcomes c ops.
(* N = 1, M = 0, tick = 1 s; two entries of one key stamped 10 s and 5 s before the epoch: five ticks
   apart, so each is the first of its window; the original code puts both into a "window" ending at 0
   and drops the second *)
Definition orig_witness_cfg : cfg := {| c_first := 1; c_thereafter := 0; c_tick := 1000000000 |}.
Definition orig_witness_ops : list op :=
  [Log {| e_core := 0; e_lvl := 0; e_msg := [x78]; e_tn := -10000000000; e_en := true |};
   Log {| e_core := 0; e_lvl := 0; e_msg := [x78]; e_tn := -5000000000; e_en := true |}].
Theorem sequential_orig_refuted : ~ C11_sequential_orig_full.
Proof.
  intros H. specialize (H orig_witness_cfg orig_witness_ops eq_refl).
  vm_compute in H. discriminate H.
Qed.

(* ------------------------------------------------------------------ *)
(* the one-pass window state is "cut into windows, number each from 1" *)
Lemma key_decs_window N M tick e p ts :
  key_decs N M tick (Some (e, p)) ts =
  let '(w, rest) := take_window e ts in
  number N M (p + 1) w ++
  match rest with
  | [] => []
  | t :: r => keeps N M 1 :: key_decs N M tick (Some (t + tick, 1)) r
  end.
Proof.
  revert p. induction ts as [|t r IH]; intros p; [reflexivity|].
  cbn [key_decs take_window wstep]. destruct (t <? e) eqn:E.
  - cbn [wpos]. rewrite IH. destruct (take_window e r) as [w rest]. reflexivity.
  - reflexivity.
Qed.
Lemma key_decs_first N M tick t r :
  key_decs N M tick None (t :: r) = keeps N M 1 :: key_decs N M tick (Some (t + tick, 1)) r.
Proof. reflexivity. Qed.

(* inside an open window the decisions are those of consecutive positions, whatever the order of the stamps *)
Lemma key_decs_open N M tick e ts : forall p,
  Forall (fun t => t < e) ts ->
  key_decs N M tick (Some (e, p)) ts = map (keeps N M) (zseq (p + 1) (length ts)).
Proof.
  induction ts as [|t r IH]; intros p H; [reflexivity|].
  inversion H as [|? ? Ht Hr]; subst. cbn [key_decs wstep length zseq map].
  apply Z.ltb_lt in Ht. rewrite Ht. cbn [wpos]. now rewrite IH.
Qed.

(* entries of a single budget: the specification's decisions are [key_decs] of its stamps *)
Lemma spec_decs_one_key c k es : forall pre,
  Forall (fun e => se_cls e = CKey k) es ->
  spec_decs c pre es =
  map dec_of_bool (key_decs (c_first c) (c_thereafter c) (c_tick c) (wstate (c_tick c) (hist k pre)) (map se_tn es)).
Proof.
  induction es as [|e r IH]; intros pre H; [reflexivity|].
  inversion H as [|? ? He Hr]; subst. cbn [spec_decs map key_decs].
  unfold spec_dec. rewrite He. unfold pos_after.
  rewrite (IH (pre ++ [e]) Hr), hist_snoc. unfold has_key. rewrite He, key_eqb_refl, wstate_snoc.
  destruct (keeps _ _ _); reflexivity.
Qed.

(* ------------------------------------------------------------------ *)
(* restricting a history to a set of budgets does not change the decisions inside the set *)
Definition closed (P : sentry -> bool) : Prop :=
  forall x y k, se_cls x = CKey k -> has_key k y = true -> P x = true -> P y = true.

Lemma hist_filter P k pre x :
  closed P -> se_cls x = CKey k -> P x = true -> hist k (filter P pre) = hist k pre.
Proof.
  intros HP Hx HPx. unfold hist. f_equal. induction pre as [|y r IH]; [reflexivity|].
  cbn [filter]. destruct (has_key k y) eqn:Ey.
  - rewrite (HP x y k Hx Ey HPx). cbn [filter]. rewrite Ey. now rewrite IH.
  - destruct (P y); cbn [filter]; [rewrite Ey|]; exact IH.
Qed.

Lemma spec_decs_filter c P : closed P -> forall es pre,
  map snd (filter (fun p => P (fst p)) (combine es (spec_decs c pre es))) =
  spec_decs c (filter P pre) (filter P es).
Proof.
  intros HP. induction es as [|e r IH]; intros pre; [reflexivity|].
  cbn [spec_decs combine filter fst]. destruct (P e) eqn:Ee.
  - cbn [map snd spec_decs]. rewrite IH, filter_app. cbn [filter]. rewrite Ee. f_equal.
    unfold spec_dec. destruct (se_cls e) as [| |k] eqn:Ec; try reflexivity.
    now rewrite (hist_filter P k pre e HP Ec Ee).
  - rewrite IH, filter_app. cbn [filter]. rewrite Ee, app_nil_r. reflexivity.
Qed.

Lemma has_key_closed k : closed (has_key k).
Proof.
  intros x y k' Hx Hy HPx. unfold has_key in *. rewrite Hx in HPx. apply key_eqb_eq in HPx. subst k'.
  exact Hy.
Qed.
Definition counts_budget (e : sentry) : bool := match se_cls e with CSkip => false | _ => true end.
Lemma counts_budget_closed : closed counts_budget.
Proof.
  intros x y k Hx Hy _. unfold counts_budget, has_key in *. destruct (se_cls y); try discriminate; reflexivity.
Qed.

Lemma spec_decs_length c es : forall pre, length (spec_decs c pre es) = length es.
Proof. induction es as [|e r IH]; intros pre; cbn [spec_decs length]; [reflexivity|]. now rewrite IH. Qed.

(* outcomes_of as a map over the combined list *)
Lemma outcomes_of_combine ds es : length ds = length es ->
  outcomes_of ds es = map (fun p => outcome_of (snd p) (se_depth (fst p))) (combine es ds).
Proof.
  revert es. induction ds as [|d r IH]; intros [|e es] H; try discriminate; [reflexivity|].
  cbn [outcomes_of combine map fst snd]. f_equal. apply IH. now injection H.
Qed.

(* model-level form: the outcomes the model gives to the entries selected by a budget-closed predicate
   are those the specification prescribes for the selected subsequence alone *)
Theorem subsequence_thm c P ops : closed P -> wf_run c ops = true ->
  let es := sentries ops in
  map snd (filter (fun p => P (fst p)) (combine es (outcomes c ops))) =
  outcomes_of (spec_decs c [] (filter P es)) (filter P es).
Proof.
  intros HP Hwf es. rewrite (sequential_thm c ops Hwf). unfold spec_outcomes. fold es.
  pose proof (spec_decs_filter c P HP es []) as Hf. cbn [filter] in Hf. rewrite <- Hf. clear Hf.
  pose proof (spec_decs_length c es []) as Hl.
  rewrite outcomes_of_combine by exact Hl.
  revert Hl. generalize (spec_decs c [] es). clear Hwf. induction es as [|e r IH]; intros [|d ds] Hlen; try discriminate; [reflexivity|].
  cbn [combine map filter fst snd]. destruct (P e) eqn:Ee; cbn [map snd combine filter fst outcomes_of].
  - f_equal. apply IH. cbn [length] in Hlen. lia.
  - apply IH. cbn [length] in Hlen. lia.
Qed.

(* entries at disabled levels: no hook call, not forwarded *)
Theorem disabled_silent c ops : wf_run c ops = true ->
  Forall (fun p => se_cls (fst p) = CSkip -> snd p = {| o_hooks := []; o_fwd := false; o_ctx := 0 |})
         (combine (sentries ops) (outcomes c ops)).
Proof.
  intros Hwf. rewrite (sequential_thm c ops Hwf). unfold spec_outcomes.
  generalize (@nil sentry). induction (sentries ops) as [|e r IH]; intros pre; cbn [spec_decs outcomes_of combine]; constructor.
  - cbn [fst snd]. intros He. unfold spec_dec. rewrite He. reflexivity.
  - apply IH.
Qed.
(* entries at enabled out-of-range levels: forwarded, no hook call *)
Theorem out_of_range_pass c ops : wf_run c ops = true ->
  Forall (fun p => se_cls (fst p) = CPass -> snd p = {| o_hooks := []; o_fwd := true; o_ctx := se_depth (fst p) |})
         (combine (sentries ops) (outcomes c ops)).
Proof.
  intros Hwf. rewrite (sequential_thm c ops Hwf). unfold spec_outcomes.
  generalize (@nil sentry). induction (sentries ops) as [|e r IH]; intros pre; cbn [spec_decs outcomes_of combine]; constructor.
  - cbn [fst snd]. intros He. unfold spec_dec. rewrite He. reflexivity.
  - apply IH.
Qed.
(* every entry: at most one hook call, and it carries the decision that was applied *)
Definition hook_matches (o : outcome) : bool :=
  match o_hooks o with
  | [] => true                                   (* undecided: skipped or passed unsampled *)
  | [d] => if o_fwd o then d =? LogSampled else d =? LogDropped
  | _ => false
  end.
Theorem hook_once c ops : wf_run c ops = true -> forallb hook_matches (outcomes c ops) = true.
Proof.
  intros Hwf. rewrite (sequential_thm c ops Hwf). unfold spec_outcomes.
  generalize (@nil sentry). induction (sentries ops) as [|e r IH]; intros pre; cbn [spec_decs outcomes_of forallb]; [reflexivity|].
  rewrite IH, andb_true_r. destruct (spec_dec c pre e); reflexivity.
Qed.

(* ------------------------------------------------------------------ *)
(* hash-colliding messages share a budget: only the bucket of a message matters *)
Definition rename (f : bytes -> bytes) (o : op) : op :=
  match o with
  | Log e => Log {| e_core := e_core e; e_lvl := e_lvl e; e_msg := f (e_msg e); e_tn := e_tn e; e_en := e_en e |}
  | _ => o
  end.
Lemma sentries_rename f : (forall m, bucket (f m) = bucket m) ->
  forall ops fam n, map classify_entry (resolve_from fam n (map (rename f) ops)) = map classify_entry (resolve_from fam n ops).
Proof.
  intros Hf. induction ops as [|o r IH]; intros fam n; [reflexivity|].
  destruct o as [e|p|]; cbn [map rename resolve_from].
  - cbn [e_core e_lvl e_msg e_tn e_en]. destruct (nth (e_core e) fam (0%nat, 0%nat)) as [root depth].
    cbn [map]. rewrite IH. f_equal.
    unfold classify_entry, classify. cbn [r_en r_lvl r_root r_msg r_tn r_depth]. now rewrite Hf.
  - destruct (nth p fam (0%nat, 0%nat)) as [root depth]. apply IH.
  - apply IH.
Qed.
Lemma wf_ops_rename c f : forall ops n, wf_ops c n (map (rename f) ops) = wf_ops c n ops.
Proof.
  induction ops as [|o r IH]; intros n; [reflexivity|].
  destruct o as [e|p|]; cbn [map rename wf_ops]; rewrite IH; reflexivity.
Qed.
Theorem collide_share c f ops : (forall m, bucket (f m) = bucket m) -> wf_run c ops = true ->
  outcomes c (map (rename f) ops) = outcomes c ops.
Proof.
  intros Hf Hwf. rewrite (sequential_thm c ops Hwf). rewrite sequential_thm.
  - unfold spec_outcomes, sentries, resolve. now rewrite (sentries_rename f Hf).
  - unfold wf_run, wf_len in *. now rewrite wf_ops_rename, map_length.
Qed.

(* ------------------------------------------------------------------ *)
(* cores derived by With share their parent's budget: with a single NewSamplerWithOptions, logging
   through any derived core gives the decisions obtained by logging everything through the parent *)
Definition via_parent (o : op) : op :=
  match o with
  | Log e => Log {| e_core := 0; e_lvl := e_lvl e; e_msg := e_msg e; e_tn := e_tn e; e_en := e_en e |}
  | _ => o
  end.
Definition no_new_root (ops : list op) : bool := forallb (fun o => match o with NewRoot => false | _ => true end) ops.
Definition decided (o : outcome) : list Z * bool := (o_hooks o, o_fwd o).
Definition cls_tn (e : sentry) : cls * Z := (se_cls e, se_tn e).

Lemma sentries_via_parent : forall ops fam n,
  Forall (fun p => fst p = 0%nat) fam -> no_new_root ops = true ->
  map cls_tn (map classify_entry (resolve_from fam n (map via_parent ops))) =
  map cls_tn (map classify_entry (resolve_from fam n ops)).
Proof.
  induction ops as [|o r IH]; intros fam n Hfam Hn; [reflexivity|].
  cbn [no_new_root forallb] in Hn. rewrite andb_true_iff in Hn. destruct Hn as [Ho Hr].
  assert (Hnth : forall i, fst (nth i fam (0%nat, 0%nat)) = 0%nat).
  { intros i. destruct (nth_in_or_default i fam (0%nat, 0%nat)) as [Hin | ->]; [|reflexivity].
    rewrite Forall_forall in Hfam. now apply Hfam. }
  destruct o as [e|p|]; cbn [map via_parent resolve_from]; [| |discriminate].
  - cbn [e_core e_lvl e_msg e_tn e_en].
    pose proof (Hnth (e_core e)) as H1. pose proof (Hnth 0%nat) as H2.
    destruct (nth (e_core e) fam (0%nat, 0%nat)) as [root depth].
    destruct (nth 0 fam (0%nat, 0%nat)) as [root' depth']. cbn [fst] in H1, H2. subst root root'.
    cbn [map]. rewrite (IH fam n Hfam Hr). f_equal.
  - pose proof (Hnth p) as H1. destruct (nth p fam (0%nat, 0%nat)) as [root depth]. cbn [fst] in H1. subst root.
    apply IH; [|exact Hr]. apply Forall_app. split; [exact Hfam|]. constructor; [reflexivity|constructor].
Qed.
Lemma wf_ops_via_parent c : forall ops n, (0 < n)%nat -> wf_ops c n ops = true -> wf_ops c n (map via_parent ops) = true.
Proof.
  induction ops as [|o r IH]; intros n Hn H; [reflexivity|].
  destruct o as [e|p|]; cbn [map via_parent wf_ops] in *.
  - rewrite !andb_true_iff in *. destruct H as [[_ He] Hr]. repeat split; auto.
    + apply Nat.ltb_lt. cbn [e_core]. exact Hn.
  - rewrite andb_true_iff in *. destruct H as [Hp Hr]. split; [exact Hp|]. apply IH; [lia|exact Hr].
  - apply IH; [lia|exact H].
Qed.

(* decisions (hooks, forwarded) depend only on the classes and stamps of the entries *)
Lemma spec_decs_cls_tn c : forall es1 es2 pre1 pre2,
  map cls_tn es1 = map cls_tn es2 -> map cls_tn pre1 = map cls_tn pre2 ->
  spec_decs c pre1 es1 = spec_decs c pre2 es2.
Proof.
  assert (Hh : forall k pre1 pre2, map cls_tn pre1 = map cls_tn pre2 -> hist k pre1 = hist k pre2).
  { intros k. induction pre1 as [|x r IH]; intros [|y r2] H; try discriminate; [reflexivity|].
    cbn [map] in H. pose proof (f_equal (@tl _) H) as Hr. pose proof (f_equal (hd (cls_tn x)) H) as Hxy.
    cbn [hd tl] in Hxy, Hr. unfold cls_tn in Hxy. injection Hxy as Hc Ht.
    assert (Hk : has_key k x = has_key k y) by (unfold has_key; now rewrite Hc).
    unfold hist in *. cbn [filter]. rewrite Hk.
    destruct (has_key k y); cbn [map]; rewrite (IH r2 Hr); [now rewrite Ht|reflexivity]. }
  induction es1 as [|x r IH]; intros [|y r2] pre1 pre2 H Hp; try discriminate; [reflexivity|].
  cbn [map] in H. pose proof (f_equal (@tl _) H) as Hr. pose proof (f_equal (hd (cls_tn x)) H) as Hxy.
  cbn [hd tl] in Hxy, Hr. cbn [spec_decs]. f_equal.
  - unfold cls_tn in Hxy. injection Hxy as Hc Ht. unfold spec_dec. rewrite Hc, Ht.
    destruct (se_cls y) as [| |k]; try reflexivity. now rewrite (Hh k pre1 pre2 Hp).
  - apply IH; [exact Hr|]. rewrite !map_app. cbn [map]. now rewrite Hp, Hxy.
Qed.
Lemma decided_outcomes_of ds : forall es1 es2, length es1 = length es2 ->
  map decided (outcomes_of ds es1) = map decided (outcomes_of ds es2).
Proof.
  induction ds as [|d r IH]; intros [|x es1] [|y es2] H; try discriminate; try reflexivity.
  cbn [outcomes_of map]. f_equal; [destruct d; reflexivity|]. apply IH. now injection H.
Qed.

Theorem with_shares c ops : no_new_root ops = true -> wf_run c ops = true ->
  map decided (outcomes c ops) = map decided (outcomes c (map via_parent ops)).
Proof.
  intros Hn Hwf. rewrite (sequential_thm c ops Hwf). rewrite sequential_thm.
  2:{ unfold wf_run, wf_len in *. rewrite !andb_true_iff in *. destruct Hwf as [[Hc Ho] Hl].
      rewrite map_length. repeat split; auto. apply wf_ops_via_parent; [lia|exact Ho]. }
  unfold spec_outcomes, sentries, resolve.
  pose proof (sentries_via_parent ops [(0%nat, 0%nat)] 1%nat) as H.
  specialize (H ltac:(constructor; [reflexivity|constructor]) Hn).
  rewrite (spec_decs_cls_tn c _ _ [] [] (eq_sym H) eq_refl).
  apply decided_outcomes_of.
  apply (f_equal (@length _)) in H. rewrite !map_length in H. rewrite !map_length. now rewrite H.
Qed.

(* ------------------------------------------------------------------ *)
(* wire *)
Lemma sx_eqb_refl s : sx_eqb s s = true.
Proof.
  revert s. fix IH 1. intros [z|b|l]; cbn.
  - apply Z.eqb_refl.
  - now apply bytes_eqb_eq.
  - induction l as [|a r IHr]; [reflexivity|]. now rewrite IH, IHr.
Qed.

(* splitting a history into a prefix and a batch *)
Fixpoint fam_after (fam : list (nat * nat)) (n : nat) (ops : list op) : list (nat * nat) * nat :=
  match ops with
  | [] => (fam, n)
  | Log _ :: r => fam_after fam n r
  | With p :: r => let '(root, depth) := nth p fam (0%nat, 0%nat) in fam_after (fam ++ [(root, S depth)]) n r
  | NewRoot :: r => fam_after (fam ++ [(n, 0%nat)]) (S n) r
  end.
Lemma resolve_from_app a : forall fam n b,
  resolve_from fam n (a ++ b) =
  resolve_from fam n a ++ resolve_from (fst (fam_after fam n a)) (snd (fam_after fam n a)) b.
Proof.
  induction a as [|o r IH]; intros fam n b; [reflexivity|].
  destruct o as [e|p|]; cbn [app resolve_from fam_after].
  - destruct (nth (e_core e) fam (0%nat, 0%nat)) as [root depth]. cbn [app]. now rewrite IH.
  - destruct (nth p fam (0%nat, 0%nat)) as [root depth]. apply IH.
  - apply IH.
Qed.
Lemma resolve_from_length a : forall fam n, length (resolve_from fam n a) = n_logs a.
Proof.
  unfold n_logs. induction a as [|o r IH]; intros fam n; [reflexivity|].
  destruct o as [e|p|]; cbn [resolve_from filter is_log].
  - destruct (nth (e_core e) fam (0%nat, 0%nat)) as [root depth]. cbn [length]. now rewrite IH.
  - destruct (nth p fam (0%nat, 0%nat)) as [root depth]. apply IH.
  - apply IH.
Qed.
Lemma sentries_app pre batch :
  exists X, sentries (pre ++ batch) = sentries pre ++ X /\ length (sentries pre) = n_logs pre.
Proof.
  unfold sentries, resolve. rewrite resolve_from_app, map_app. eexists. split; [reflexivity|].
  rewrite map_length. apply resolve_from_length.
Qed.
Lemma skipn_len_app {A} (l1 l2 : list A) : skipn (length l1) (l1 ++ l2) = l2.
Proof. induction l1 as [|x r IH]; [reflexivity|]. exact IH. Qed.
Lemma firstn_len_app {A} (l1 l2 : list A) : firstn (length l1) (l1 ++ l2) = l1.
Proof. induction l1 as [|x r IH]; cbn [length firstn app]; [now destruct l2|]. now rewrite IH. Qed.
Lemma spec_decs_app c a : forall p b, spec_decs c p (a ++ b) = spec_decs c p a ++ spec_decs c (p ++ a) b.
Proof.
  induction a as [|e r IH]; intros p b; cbn [app spec_decs]; [now rewrite app_nil_r|].
  rewrite IH, <- app_assoc. reflexivity.
Qed.
Lemma outcomes_of_app d1 : forall e1 d2 e2, length d1 = length e1 ->
  outcomes_of (d1 ++ d2) (e1 ++ e2) = outcomes_of d1 e1 ++ outcomes_of d2 e2.
Proof.
  induction d1 as [|d r IH]; intros [|e e1] d2 e2 H; try discriminate; [reflexivity|].
  cbn [app outcomes_of]. f_equal. apply IH. cbn [length] in H. lia.
Qed.
Lemma outcomes_of_length ds : forall es, length ds = length es -> length (outcomes_of ds es) = length es.
Proof.
  induction ds as [|d r IH]; intros [|e es] H; try discriminate; [reflexivity|].
  cbn [outcomes_of length]. f_equal. apply IH. cbn [length] in H. lia.
Qed.
Lemma spec_outcomes_app c pre batch X : sentries (pre ++ batch) = sentries pre ++ X ->
  spec_outcomes c (pre ++ batch) = spec_outcomes c pre ++ outcomes_of (spec_decs c (sentries pre) X) X.
Proof.
  intros H. unfold spec_outcomes. rewrite H, spec_decs_app. cbn [app].
  apply outcomes_of_app. apply spec_decs_length.
Qed.
Lemma spec_outcomes_length c ops : length (spec_outcomes c ops) = length (sentries ops).
Proof. unfold spec_outcomes. apply outcomes_of_length, spec_decs_length. Qed.

Lemma has_key_cls k e : has_key k e = true -> se_cls e = CKey k.
Proof.
  unfold has_key. destruct (se_cls e) as [| |k']; try discriminate. intros H. apply key_eqb_eq in H. now subst.
Qed.
Lemma key_decs_length N M tick ts : forall w, length (key_decs N M tick w ts) = length ts.
Proof. induction ts as [|t r IH]; intros w; cbn [key_decs length]; [reflexivity|]. now rewrite IH. Qed.

(* canonical batch records depend only on (hooks, forwarded) of the records *)
Lemma canon_short l1 : forall l2, map decided l1 = map decided l2 ->
  map enc_short (canon l1) = map enc_short (canon l2).
Proof.
  assert (H : forall (f : outcome -> bool), (forall a b, decided a = decided b -> f a = f b) ->
            forall la lb, map decided la = map decided lb -> map enc_short (filter f la) = map enc_short (filter f lb)).
  { intros f Hf la. induction la as [|a r IH]; intros [|b r2] E; try discriminate; [reflexivity|].
    cbn [map] in E. pose proof (f_equal (@tl _) E) as Er. pose proof (f_equal (hd (decided a)) E) as Eh. cbn [hd tl] in Eh, Er.
    cbn [filter]. rewrite (Hf a b Eh). destruct (f b); cbn [map]; rewrite (IH r2 Er); [|reflexivity].
    f_equal. unfold decided in Eh. injection Eh as E1 E2. unfold enc_short. now rewrite E1, E2. }
  intros l2 E. unfold canon. rewrite !map_app. f_equal; apply H; auto.
  - intros a b Hab. unfold decided in Hab. now injection Hab.
  - intros a b Hab. unfold decided in Hab. injection Hab as _ Hf. now rewrite Hf.
Qed.
Lemma decided_outcomes_bool bs : forall X, length bs = length X ->
  map decided (outcomes_of (map dec_of_bool bs) X) = map decided (map (fun b => outcome_of (dec_of_bool b) 0) bs).
Proof.
  induction bs as [|b r IH]; intros [|x X] H; try discriminate; [reflexivity|].
  cbn [map outcomes_of]. f_equal; [destruct b; reflexivity|]. apply IH. cbn [length] in H. lia.
Qed.

Theorem spec_model i : wf i = true -> spec i (model i) = true.
Proof.
  unfold wf, spec, model. destruct (is_conc i).
  - rewrite andb_true_iff. intros [Hwf Hwin]. rewrite Hwf, Hwin. cbn [negb andb].
    set (c := dec_cfg i) in *. set (pre := dec_ops (sx_nth i 4)) in *. set (batch := dec_ops (sx_nth i 5)) in *.
    rewrite (sequential_thm _ _ Hwf).
    destruct (sentries_app pre batch) as [X [HX Hlen]].
    rewrite (spec_outcomes_app c pre batch X HX). unfold enc_obs.
    assert (Hl : n_logs pre = length (spec_outcomes c pre)) by (rewrite spec_outcomes_length; now rewrite Hlen).
    rewrite Hl, firstn_len_app, skipn_len_app.
    assert (Hb : map enc_short (canon (outcomes_of (spec_decs c (sentries pre) X) X)) = map enc_short (conc_expected c pre batch)).
    { unfold conc_expected, batch_in_window in *. apply andb_true_iff in Hwin. destruct Hwin as [_ Hwin].
      rewrite HX, <- Hlen, skipn_len_app in *. destruct X as [|e0 r]; [reflexivity|].
      destruct (se_cls e0) as [| |k] eqn:Ecls; try discriminate Hwin.
      destruct (wstate (c_tick c) (hist k (sentries pre))) as [[end_ p]|] eqn:Ew; [|discriminate Hwin].
      assert (HF : Forall (fun e => se_cls e = CKey k) (e0 :: r)).
      { rewrite forallb_forall in Hwin. apply Forall_forall. intros e He. specialize (Hwin e He).
        apply andb_true_iff in Hwin. apply has_key_cls. exact (proj1 Hwin). }
      rewrite (spec_decs_one_key c k (e0 :: r) (sentries pre) HF), Ew.
      apply canon_short. apply decided_outcomes_bool. rewrite key_decs_length. apply map_length. }
    rewrite Hb. apply sx_eqb_refl.
  - intros Hwf. rewrite Hwf. cbn [negb]. rewrite (sequential_thm _ _ Hwf). apply sx_eqb_refl.
Qed.

From Coq Require Import ZArith.
From Coq.Strings Require Import Byte.
From Zap Require Import Base.Wire Extract.Dispatch.
Require Extraction.
Require Import ExtrOcamlBasic.
Extraction Language OCaml.
(* ExtrOcamlBasic only: bool, option, unit, list, prod, sumbool, sumor map to
   OCaml's; N/Z/positive/nat/byte stay as extracted inductive datatypes. *)
Extraction "model.ml" Dispatch.dispatch_model Dispatch.dispatch_spec Dispatch.dispatch_wf sx_eqb Z.add Z.mul Z.opp Z.of_nat Z.div_eucl Z.eqb Z.ltb Byte.to_N Byte.of_N Z.of_N Z.to_N.

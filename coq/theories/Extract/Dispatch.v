(* One entry per property: the model's observation and the property's oracle. *)
From Coq Require Import List ZArith Bool.
From Coq.Strings Require Import Byte.
Import ListNotations.
From Zap Require Import Base.Wire.
From Zap Require C17.Model.

Definition dispatch_model (p : Z) (i : sx) : sx :=
  match p with
  | 17%Z => C17.Model.model i
  | _ => SL []
  end.
Definition dispatch_spec (p : Z) (i o : sx) : bool :=
  match p with
  | 17%Z => C17.Model.spec i o
  | _ => false
  end.

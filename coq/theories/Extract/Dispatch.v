(* One entry per property: the model's observation and the property's oracle. *)
From Coq Require Import List ZArith Bool.
From Coq.Strings Require Import Byte.
Import ListNotations.
From Zap Require Import Base.Wire.
From Zap Require C01.Model.
From Zap Require C02.Model.
From Zap Require C03.Model.
From Zap Require C04.Model.
From Zap Require C05.Model.
From Zap Require C06.Model.
From Zap Require C07.Model.
From Zap Require C08.Model.
From Zap Require C09.Model.
From Zap Require C10.Model.
From Zap Require C11.Model.
From Zap Require C12.Model.
From Zap Require C13.Model.
From Zap Require C14.Model.
From Zap Require C15.Model.
From Zap Require C16.Model.
From Zap Require C17.Model.
From Zap Require C18.Model.
From Zap Require C19.Model.
From Zap Require C20.Model.

Definition dispatch_model (p : Z) (i : sx) : sx :=
  match p with
  | 1%Z => C01.Model.model i
  | 2%Z => C02.Model.model i
  | 3%Z => C03.Model.model i
  | 4%Z => C04.Model.model i
  | 5%Z => C05.Model.model i
  | 6%Z => C06.Model.model i
  | 7%Z => C07.Model.model i
  | 8%Z => C08.Model.model i
  | 9%Z => C09.Model.model i
  | 10%Z => C10.Model.model i
  | 11%Z => C11.Model.model i
  | 12%Z => C12.Model.model i
  | 13%Z => C13.Model.model i
  | 14%Z => C14.Model.model i
  | 15%Z => C15.Model.model i
  | 16%Z => C16.Model.model i
  | 17%Z => C17.Model.model i
  | 18%Z => C18.Model.model i
  | 19%Z => C19.Model.model i
  | 20%Z => C20.Model.model i
  | _ => SL []
  end.
Definition dispatch_spec (p : Z) (i o : sx) : bool :=
  match p with
  | 1%Z => C01.Model.spec i o
  | 2%Z => C02.Model.spec i o
  | 3%Z => C03.Model.spec i o
  | 4%Z => C04.Model.spec i o
  | 5%Z => C05.Model.spec i o
  | 6%Z => C06.Model.spec i o
  | 7%Z => C07.Model.spec i o
  | 8%Z => C08.Model.spec i o
  | 9%Z => C09.Model.spec i o
  | 10%Z => C10.Model.spec i o
  | 11%Z => C11.Model.spec i o
  | 12%Z => C12.Model.spec i o
  | 13%Z => C13.Model.spec i o
  | 14%Z => C14.Model.spec i o
  | 15%Z => C15.Model.spec i o
  | 16%Z => C16.Model.spec i o
  | 17%Z => C17.Model.spec i o
  | 18%Z => C18.Model.spec i o
  | 19%Z => C19.Model.spec i o
  | 20%Z => C20.Model.spec i o
  | _ => false
  end.

(* assumption monitors: the well-formedness of the oracle values a case carries *)
Definition dispatch_wf (p : Z) (i : sx) : bool :=
  match p with
  | 1%Z => C01.Model.wf i
  | 2%Z => C02.Model.wf i
  | 10%Z => C10.Model.wf i
  | 16%Z => C16.Model.wf i
  | _ => true
  end.

(* C10 — stub *)
From Zap Require Import Base.Wire C10.Model.

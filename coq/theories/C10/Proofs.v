From Coq Require Import List ZArith Bool Lia.
From Coq.Strings Require Import Byte.
Import ListNotations.
From Zap Require Import Base.Wire Enc.Bytes Enc.Fields Enc.JsonEnc Enc.JsonParse Enc.WireEnc Enc.JsonAst Enc.Wf
  Enc.Refine4 Enc.Parse3 Enc.Parse4 C02.Model C10.Model.

(* ================= field failures: locality on the tree semantics ================= *)
Section F.
Variable c : cfg.

(* a marshaler that returns an error contributes exactly what it contributes when it returns nil,
   followed by one '<key>Error' string member *)
Lemma obj_error k calls msg o :
  ev_fld c (FObject k (Obj calls (Some msg))) o = push (ev_fld c (FObject k (Obj calls None)) o) (str_m (k ++ s_Error) msg).
Proof. rewrite !ev_fld_obj, !ev_obj_eq. reflexivity. Qed.
Lemma inline_error calls msg o :
  ev_fld c (FInline (Obj calls (Some msg))) o = push (ev_fld c (FInline (Obj calls None)) o) (str_m s_Error msg).
Proof. rewrite !ev_fld_inl. reflexivity. Qed.
Lemma arr_error k es msg o :
  snd (ev_elems' c false es) = None ->
  ev_fld c (FArray k (Arr es (Some msg) false)) o = push (ev_fld c (FArray k (Arr es None false)) o) (str_m (k ++ s_Error) msg).
Proof.
  intros H. rewrite !ev_fld_arr, !ev_arr_eq. destruct (ev_elems' c false es) as [vs early]. cbn [snd] in H. subst early. reflexivity.
Qed.
(* a Stringer that panics is replaced by the error member; a nil receiver prints "<nil>" *)
Lemma stringer_panic k m o : ev_fld c (FStringer k (OPanic m)) o = push o (str_m (k ++ s_Error) (panic_err m)).
Proof. reflexivity. Qed.
Lemma stringer_nil k o : ev_fld c (FStringer k ONilPtr) o = push o (str_m k s_nilptr).
Proof. reflexivity. Qed.
(* an error value whose Error() panics / is a nil pointer *)
Lemma error_panic k m v g o : ev_fld c (FError k (ErrV (OPanic m) v g)) o = push o (str_m (k ++ s_Error) (panic_err m)).
Proof. reflexivity. Qed.
Lemma error_nil k v g o : ev_fld c (FError k (ErrV ONilPtr v g)) o = push o (str_m k s_nilptr).
Proof. reflexivity. Qed.
(* a value encoding/json rejects: nothing is written for the key, the error member appears *)
Lemma reflect_fail k m o : ev_fld c (FReflect k (RErr m)) o = push o (str_m (k ++ s_Error) m).
Proof. reflexivity. Qed.

(* siblings: the fields before and after are evaluated exactly as without the failing field *)
Lemma siblings fs1 f fs2 o : ev_flds c (fs1 ++ f :: fs2) o = ev_flds c fs2 (ev_fld c f (ev_flds c fs1 o)).
Proof. unfold ev_flds. rewrite fold_left_app. reflexivity. Qed.
(* a push never disturbs what is already there: every member present before a field is still there, in place *)
Lemma push_keeps o m : frames (push o m) = frames o /\ exists tail, cur (push o m) = cur o ++ tail.
Proof. split; [reflexivity|]. eexists. reflexivity. Qed.
End F.

(* ================= sinks and cores ================= *)
Section ScoreInd.
  Variable P : score -> Prop.
  Hypotheses (HL : forall id outs, P (SLeaf id outs)) (HT : forall l, Forall P l -> P (STee l)) (HW : forall c, P c -> P (SWrap c)).
  Fixpoint score_ind' (c : score) : P c :=
    match c with
    | SLeaf id outs => HL id outs
    | STee l => HT l ((fix go (l : list score) : Forall P l :=
                         match l with [] => Forall_nil _ | x :: r => Forall_cons _ (score_ind' x) (go r) end) l)
    | SWrap c => HW c (score_ind' c)
    end.
End ScoreInd.

Definition leaf_events (hi : bool) (k : nat) (lf : Z * list outcome1) : list ev :=
  match werr (out_at (snd lf) k) with
  | Some _ => [EvW (fst lf)]
  | None => EvW (fst lf) :: (if hi then [EvS (fst lf)] else [])
  end.
Definition leaf_errs (k : nat) (lf : Z * list outcome1) : list bytes :=
  match werr (out_at (snd lf) k) with Some m => [m] | None => [] end.

Definition tee_write (hi : bool) (k : nat) := fix go (l : list score) : list ev * list bytes :=
  match l with
  | [] => ([], [])
  | x :: r => let '(e1, m1) := core_write hi k x in let '(e2, m2) := go r in (e1 ++ e2, m1 ++ m2)
  end.
Definition tee_leaves := fix go (l : list score) := match l with [] => [] | x :: r => leaves x ++ go r end.
Definition tee_accepted := fix go (l : list score) : list score := match l with [] => [] | x :: r => accepted x ++ go r end.

(* Core.Write reaches every sink under the core exactly once, in order, whatever failed before *)
Lemma core_write_spec hi k : forall c,
  core_write hi k c = (flat_map (leaf_events hi k) (leaves c), flat_map (leaf_errs k) (leaves c)).
Proof.
  apply score_ind'.
  - intros id outs. cbn [core_write leaves flat_map]. unfold leaf_events, leaf_errs. cbn [fst snd].
    destruct (werr (out_at outs k)); now rewrite !app_nil_r.
  - intros l Hl. change (core_write hi k (STee l)) with (tee_write hi k l). change (leaves (STee l)) with (tee_leaves l).
    induction Hl as [|x r Hx _ IH]; [reflexivity|]. cbn [tee_write tee_leaves]. rewrite Hx, IH, !flat_map_app. reflexivity.
  - intros c IH. exact IH.
Qed.

Lemma fold_entry hi k l : forall acc,
  fold_left (fun acc x => let '(e, m) := core_write hi k x in (fst acc ++ e, snd acc ++ m)) l acc =
  (fst acc ++ flat_map (fun x => fst (core_write hi k x)) l, snd acc ++ flat_map (fun x => snd (core_write hi k x)) l).
Proof.
  induction l as [|x r IH]; intros [a b]; cbn [fold_left flat_map fst snd]; [now rewrite !app_nil_r|].
  destruct (core_write hi k x) as [e m] eqn:E. rewrite IH. cbn [fst snd]. now rewrite <- !app_assoc.
Qed.
Lemma accepted_leaves hi k : forall c,
  flat_map (fun x => fst (core_write hi k x)) (accepted c) = flat_map (leaf_events hi k) (leaves c) /\
  flat_map (fun x => snd (core_write hi k x)) (accepted c) = flat_map (leaf_errs k) (leaves c).
Proof.
  apply score_ind'.
  - intros id outs. cbn [accepted flat_map]. rewrite (core_write_spec hi k (SLeaf id outs)). cbn [fst snd]. now rewrite !app_nil_r.
  - intros l Hl. change (accepted (STee l)) with (tee_accepted l). change (leaves (STee l)) with (tee_leaves l).
    induction Hl as [|x r [H1 H2] _ [I1 I2]]; [split; reflexivity|]. cbn [tee_accepted tee_leaves].
    rewrite !flat_map_app, H1, H2, I1, I2. split; reflexivity.
  - intros c _. cbn [accepted flat_map]. rewrite (core_write_spec hi k (SWrap c)). cbn [fst snd leaves]. now rewrite !app_nil_r.
Qed.

(* CheckedEntry.Write: every sink of every accepting core is written exactly once, in order,
   regardless of earlier failures; all write errors are collected, in order *)
Theorem sink_events hi k c : fst (entry_write hi k c) = spec_events hi k c.
Proof. unfold entry_write. rewrite fold_entry. cbn [fst app]. exact (proj1 (accepted_leaves hi k c)). Qed.
Theorem sink_errs hi k c : snd (entry_write hi k c) = spec_write_errs k c.
Proof. unfold entry_write. rewrite fold_entry. cbn [snd app]. exact (proj2 (accepted_leaves hi k c)). Qed.

(* the full statement also asks for Sync failures to be reported; ioCore.Write drops them *)
Definition sink_full : Prop := forall hi k c, snd (entry_write hi k c) = spec_write_errs k c ++ spec_sync_errs hi k c.
Lemma sink_full_refuted : ~ sink_full.
Proof.
  intros H. specialize (H true 0 (SLeaf 0 [{| werr := None; serr := Some [x53] |}])). vm_compute in H. discriminate.
Qed.
Fixpoint no_sync_fault (c : score) {struct c} : bool :=
  match c with
  | SLeaf _ outs => forallb (fun o => match serr o with Some _ => false | None => true end) outs
  | STee l => (fix go (l : list score) := match l with [] => true | x :: r => no_sync_fault x && go r end) l
  | SWrap c => no_sync_fault c
  end.
Lemma out_at_serr outs k : forallb (fun o => match serr o with Some _ => false | None => true end) outs = true ->
  serr (out_at outs k) = None.
Proof.
  unfold out_at. revert k. induction outs as [|o r IH]; intros k H; [destruct k; reflexivity|].
  cbn [forallb] in H. apply andb_true_iff in H as [H1 H2]. destruct k as [|k]; cbn [nth]; [destruct (serr o); [discriminate|reflexivity]|now apply IH].
Qed.
Lemma no_sync_errs hi k : forall c, no_sync_fault c = true -> spec_sync_errs hi k c = [].
Proof.
  intros c H. unfold spec_sync_errs. destruct hi; [|reflexivity].
  revert c H. apply (score_ind' (fun c => no_sync_fault c = true ->
    flat_map (fun lf => match werr (out_at (snd lf) k), serr (out_at (snd lf) k) with None, Some m => [m] | _, _ => [] end) (leaves c) = [])).
  - intros id outs H. cbn [leaves flat_map snd]. rewrite (out_at_serr outs k H). destruct (werr _); reflexivity.
  - intros l Hl H. change (leaves (STee l)) with (tee_leaves l).
    induction Hl as [|x r Hx _ IH]; [reflexivity|]. cbn [no_sync_fault] in H. apply andb_true_iff in H as [H1 H2].
    cbn [tee_leaves]. rewrite flat_map_app, (Hx H1), (IH H2). reflexivity.
  - intros c IH H. exact (IH H).
Qed.
Theorem sink_reported_partial hi k c : no_sync_fault c = true ->
  snd (entry_write hi k c) = spec_write_errs k c ++ spec_sync_errs hi k c.
Proof. intros H. rewrite sink_errs, (no_sync_errs hi k c H). now rewrite app_nil_r. Qed.

(* ================= wire level ================= *)
From Zap Require C17.Proofs C02.Proofs.
Definition case_ok (i : sx) : Prop :=
  match sx_z (sx_nth i 0) with
  | 0%Z => C02.Model.wf (sx_nth i 1) = true
  | _ => no_sync_fault (dec_score (sx_size (sx_nth i 2)) (sx_nth i 2)) = true
  end.
Theorem wire_thm i : case_ok i -> spec i (model i) = true.
Proof.
  unfold case_ok, spec, model. destruct (sx_z (sx_nth i 0)) eqn:E.
  - intros Hw. pose proof (C02.Proofs.wire_line (sx_nth i 1) Hw) as H.
    unfold C02.Model.model in *. destruct (encode_entry _ _ _ _ _); [|discriminate H]. exact H.
  - intros H. unfold spec_sink, model_sink. cbn [sx_nth sx_l nth]. rewrite C17.Proofs.sx_eqb_refl. cbn [andb].
    set (c := dec_score _ _) in *. set (hi := sx_bool _). set (n := sx_n _).
    assert (G : forall l, map (fun r : list ev * list bytes => SL [SL (map enc_ev (fst r)); SL (map SB (snd r)); SZ (if is_nil (snd r) then 0 else 1)]) (map (fun k => entry_write hi k c) l) =
                          map (fun k => let errs := spec_write_errs k c ++ spec_sync_errs hi k c in
                                        SL [SL (map enc_ev (spec_events hi k c)); SL (map SB errs); SZ (if is_nil errs then 0 else 1)]) l).
    { induction l as [|k r IH]; [reflexivity|]. cbn [map]. rewrite IH. f_equal.
      rewrite sink_events, (sink_reported_partial hi k c H). reflexivity. }
    unfold run_sink. rewrite G. apply C17.Proofs.sx_eqb_refl.
  - intros H. unfold spec_sink, model_sink. cbn [sx_nth sx_l nth]. rewrite C17.Proofs.sx_eqb_refl. cbn [andb].
    set (c := dec_score _ _) in *. set (hi := sx_bool _). set (n := sx_n _).
    assert (G : forall l, map (fun r : list ev * list bytes => SL [SL (map enc_ev (fst r)); SL (map SB (snd r)); SZ (if is_nil (snd r) then 0 else 1)]) (map (fun k => entry_write hi k c) l) =
                          map (fun k => let errs := spec_write_errs k c ++ spec_sync_errs hi k c in
                                        SL [SL (map enc_ev (spec_events hi k c)); SL (map SB errs); SZ (if is_nil errs then 0 else 1)]) l).
    { induction l as [|k r IH]; [reflexivity|]. cbn [map]. rewrite IH. f_equal.
      rewrite sink_events, (sink_reported_partial hi k c H). reflexivity. }
    unfold run_sink. rewrite G. apply C17.Proofs.sx_eqb_refl.
Qed.

From Coq Require Import List ZArith Bool Lia.
From Coq.Strings Require Import Byte.
Import ListNotations.
From Zap Require Import Base.Wire Enc.Bytes Enc.Fields Enc.JsonEnc Enc.JsonParse Enc.WireEnc Enc.JsonAst Enc.Wf
  Enc.Refine4 Enc.Parse3 Enc.Parse4 Enc.Console Enc.ConsoleProof C02.Model C10.Model.

(* ================= field failures: locality on the tree semantics ================= *)
Section F.
Variable c : cfg.

(* a marshaler that returns an error contributes exactly what it contributes when it returns nil,
   followed by one '<key>Error' string member *)
Lemma obj_error k calls msg o :
  ev_fld c (FObject k (Obj calls (Some msg))) o = push (ev_fld c (FObject k (Obj calls None)) o) (str_m (k ++ s_Error) msg).
Proof. rewrite !ev_fld_obj, !ev_obj_eq. reflexivity. Qed.
Lemma inline_error calls msg o :
  ev_fld c (FInline (Obj calls (Some msg))) o = push (ev_fld c (FInline (Obj calls None)) o) (str_m s_Error msg).
Proof. rewrite !ev_fld_inl. reflexivity. Qed.
Lemma arr_error k es msg o :
  snd (ev_elems' c false es) = None ->
  ev_fld c (FArray k (Arr es (Some msg) false)) o = push (ev_fld c (FArray k (Arr es None false)) o) (str_m (k ++ s_Error) msg).
Proof.
  intros H. rewrite !ev_fld_arr, !ev_arr_eq. destruct (ev_elems' c false es) as [vs early]. cbn [snd] in H. subst early. reflexivity.
Qed.
(* a Stringer that panics is replaced by the error member; a nil receiver prints "<nil>" *)
Lemma stringer_panic k m o : ev_fld c (FStringer k (OPanic m)) o = push o (str_m (k ++ s_Error) (panic_err m)).
Proof. reflexivity. Qed.
Lemma stringer_nil k o : ev_fld c (FStringer k ONilPtr) o = push o (str_m k s_nilptr).
Proof. reflexivity. Qed.
(* an error value whose Error() panics / is a nil pointer *)
Lemma error_panic k m v g o : ev_fld c (FError k (ErrV (OPanic m) v g)) o = push o (str_m (k ++ s_Error) (panic_err m)).
Proof. reflexivity. Qed.
Lemma error_nil k v g o : ev_fld c (FError k (ErrV ONilPtr v g)) o = push o (str_m k s_nilptr).
Proof. reflexivity. Qed.
(* a value encoding/json rejects: nothing is written for the key, the error member appears *)
Lemma reflect_fail k m o : ev_fld c (FReflect k (RErr m)) o = push o (str_m (k ++ s_Error) m).
Proof. reflexivity. Qed.

(* siblings: the fields before and after are evaluated exactly as without the failing field *)
Lemma siblings fs1 f fs2 o : ev_flds c (fs1 ++ f :: fs2) o = ev_flds c fs2 (ev_fld c f (ev_flds c fs1 o)).
Proof. unfold ev_flds. rewrite fold_left_app. reflexivity. Qed.
(* a push never disturbs what is already there: every member present before a field is still there, in place *)
Lemma push_keeps o m : frames (push o m) = frames o /\ exists tail, cur (push o m) = cur o ++ tail.
Proof. split; [reflexivity|]. eexists. reflexivity. Qed.
End F.

(* ================= sinks and cores ================= *)
Section ScoreInd.
  Variable P : score -> Prop.
  Hypotheses (HL : forall id con outs, P (SLeaf id con outs)) (HT : forall l, Forall P l -> P (STee l)) (HW : forall c, P c -> P (SWrap c)).
  Fixpoint score_ind' (c : score) : P c :=
    match c with
    | SLeaf id con outs => HL id con outs
    | STee l => HT l ((fix go (l : list score) : Forall P l :=
                         match l with [] => Forall_nil _ | x :: r => Forall_cons _ (score_ind' x) (go r) end) l)
    | SWrap c => HW c (score_ind' c)
    end.
End ScoreInd.

Definition leaf_events (line : bool -> bytes) (hi : bool) (k : nat) (l : lf) : list ev :=
  match werr (out_at (l_outs l) k) with
  | Some _ => [EvW (l_id l) (line (l_con l))]
  | None => EvW (l_id l) (line (l_con l)) :: (if hi then [EvS (l_id l)] else [])
  end.
Definition leaf_errs (k : nat) (l : lf) : list bytes :=
  match werr (out_at (l_outs l) k) with Some m => [m] | None => [] end.

Definition tee_write (line : bool -> bytes) (hi : bool) (k : nat) := fix go (l : list score) : list ev * list bytes :=
  match l with
  | [] => ([], [])
  | x :: r => let '(e1, m1) := core_write line hi k x in let '(e2, m2) := go r in (e1 ++ e2, m1 ++ m2)
  end.
Definition tee_leaves := fix go (l : list score) := match l with [] => [] | x :: r => leaves x ++ go r end.
Definition tee_accepted := fix go (l : list score) : list score := match l with [] => [] | x :: r => accepted x ++ go r end.

(* Core.Write reaches every sink under the core exactly once, in order, whatever failed before,
   and hands it the line of that core's own encoder *)
Lemma core_write_spec line hi k : forall c,
  core_write line hi k c = (flat_map (leaf_events line hi k) (leaves c), flat_map (leaf_errs k) (leaves c)).
Proof.
  apply score_ind'.
  - intros id con outs. cbn [core_write leaves flat_map]. unfold leaf_events, leaf_errs. cbn [l_id l_con l_outs].
    destruct (werr (out_at outs k)); now rewrite !app_nil_r.
  - intros l Hl. change (core_write line hi k (STee l)) with (tee_write line hi k l). change (leaves (STee l)) with (tee_leaves l).
    induction Hl as [|x r Hx _ IH]; [reflexivity|]. cbn [tee_write tee_leaves]. rewrite Hx, IH, !flat_map_app. reflexivity.
  - intros c IH. exact IH.
Qed.

Lemma fold_entry line hi k l : forall acc,
  fold_left (fun acc x => let '(e, m) := core_write line hi k x in (fst acc ++ e, snd acc ++ m)) l acc =
  (fst acc ++ flat_map (fun x => fst (core_write line hi k x)) l, snd acc ++ flat_map (fun x => snd (core_write line hi k x)) l).
Proof.
  induction l as [|x r IH]; intros [a b]; cbn [fold_left flat_map fst snd]; [now rewrite !app_nil_r|].
  destruct (core_write line hi k x) as [e m] eqn:E. rewrite IH. cbn [fst snd]. now rewrite <- !app_assoc.
Qed.
Lemma accepted_leaves line hi k : forall c,
  flat_map (fun x => fst (core_write line hi k x)) (accepted c) = flat_map (leaf_events line hi k) (leaves c) /\
  flat_map (fun x => snd (core_write line hi k x)) (accepted c) = flat_map (leaf_errs k) (leaves c).
Proof.
  apply score_ind'.
  - intros id con outs. cbn [accepted flat_map]. rewrite (core_write_spec line hi k (SLeaf id con outs)). cbn [fst snd]. now rewrite !app_nil_r.
  - intros l Hl. change (accepted (STee l)) with (tee_accepted l). change (leaves (STee l)) with (tee_leaves l).
    induction Hl as [|x r [H1 H2] _ [I1 I2]]; [split; reflexivity|]. cbn [tee_accepted tee_leaves].
    rewrite !flat_map_app, H1, H2, I1, I2. split; reflexivity.
  - intros c _. cbn [accepted flat_map]. rewrite (core_write_spec line hi k (SWrap c)). cbn [fst snd leaves]. now rewrite !app_nil_r.
Qed.

(* CheckedEntry.Write: every sink of every accepting core is written exactly once, in order,
   regardless of earlier failures, with the line of its own encoder; all write errors are collected, in order *)
Theorem sink_events line hi k c : fst (entry_write line hi k c) = spec_events line hi k c.
Proof. unfold entry_write. rewrite fold_entry. cbn [fst app]. exact (proj1 (accepted_leaves line hi k c)). Qed.
Theorem sink_errs line hi k c : snd (entry_write line hi k c) = spec_write_errs k c.
Proof. unfold entry_write. rewrite fold_entry. cbn [snd app]. exact (proj2 (accepted_leaves line hi k c)). Qed.

(* the full statement also asks for Sync failures to be reported; ioCore.Write drops them *)
Definition sink_full : Prop := forall line hi k c, snd (entry_write line hi k c) = spec_write_errs k c ++ spec_sync_errs hi k c.
Lemma sink_full_refuted : ~ sink_full.
Proof.
  intros H. specialize (H no_line true 0%nat (SLeaf 0 false [{| werr := None; serr := Some [x53] |}])). vm_compute in H. discriminate.
Qed.
Fixpoint no_sync_fault (c : score) {struct c} : bool :=
  match c with
  | SLeaf _ _ outs => forallb (fun o => match serr o with Some _ => false | None => true end) outs
  | STee l => (fix go (l : list score) := match l with [] => true | x :: r => no_sync_fault x && go r end) l
  | SWrap c => no_sync_fault c
  end.
Lemma out_at_serr outs k : forallb (fun o => match serr o with Some _ => false | None => true end) outs = true ->
  serr (out_at outs k) = None.
Proof.
  unfold out_at. revert k. induction outs as [|o r IH]; intros k H; [destruct k; reflexivity|].
  cbn [forallb] in H. apply andb_true_iff in H as [H1 H2]. destruct k as [|k]; cbn [nth]; [destruct (serr o); [discriminate|reflexivity]|now apply IH].
Qed.
Lemma no_sync_errs hi k : forall c, no_sync_fault c = true -> spec_sync_errs hi k c = [].
Proof.
  intros c H. unfold spec_sync_errs. destruct hi; [|reflexivity].
  revert c H. apply (score_ind' (fun c => no_sync_fault c = true ->
    flat_map (fun l => match werr (out_at (l_outs l) k), serr (out_at (l_outs l) k) with None, Some m => [m] | _, _ => [] end) (leaves c) = [])).
  - intros id con outs H. cbn [leaves flat_map l_outs]. rewrite (out_at_serr outs k H). destruct (werr _); reflexivity.
  - intros l Hl H. change (leaves (STee l)) with (tee_leaves l).
    induction Hl as [|x r Hx _ IH]; [reflexivity|]. cbn [no_sync_fault] in H. apply andb_true_iff in H as [H1 H2].
    cbn [tee_leaves]. rewrite flat_map_app, (Hx H1), (IH H2). reflexivity.
  - intros c IH H. exact (IH H).
Qed.
Theorem sink_reported_partial line hi k c : no_sync_fault c = true ->
  snd (entry_write line hi k c) = spec_write_errs k c ++ spec_sync_errs hi k c.
Proof. intros H. rewrite sink_errs, (no_sync_errs hi k c H). now rewrite app_nil_r. Qed.

(* ================= what the sinks receive ================= *)
From Zap Require C17.Proofs C02.Proofs.
Section Line.
Variables (c : cfg) (ctxs : list (list fld)) (ent : entry) (fs : list fld).
Hypotheses (Qg : q_nil_caller_guard c = true) (Ql : q_layout_escaped c = true)
  (Wc : forallb wf_flds ctxs = true) (Wf' : wf_flds fs = true) (We : wf_entry ent = true).

(* the line a JSON ioCore hands to its sink decodes to exactly the reference members of the entry *)
Lemma line_json : line_obj (resolved_le c) (entry_line c ctxs ent fs false) = Some (jv_mem (entry_members c ctxs ent fs)).
Proof.
  unfold entry_line. destruct (entry_valid_wf c ctxs ent fs Qg Ql Wc Wf' We) as (out & E & L). rewrite E. exact L.
Qed.
(* the line a console ioCore hands to its sink is exactly the documented shape *)
Lemma line_console : entry_line c ctxs ent fs true = console_spec c ctxs ent fs.
Proof. unfold entry_line. exact (console_shape c ctxs ent fs Wc Wf'). Qed.
Lemma line_ok con : payload_ok c ctxs ent fs con (entry_line c ctxs ent fs con) = true.
Proof.
  unfold payload_ok. destruct con.
  - rewrite line_console, (proj2 (bytes_eqb_eq _ _) eq_refl). cbn [andb].
    pose proof (tpre_close _ (ev_flds_pre c Ql fs (wf_owf_flds _ Wf') _ (with_chain_pre c Ql ctxs (wf_owf_ctxs _ Wc)))) as Hp.
    destruct (close (ev_flds c fs (ev_with_chain c ctxs))) as [|m r] eqn:E; [reflexivity|].
    destruct (context_same _ Hp) as [H1 H2]. rewrite H1, H2. reflexivity.
  - rewrite line_json. apply C02.Proofs.jv_eqb_refl.
Qed.
End Line.

Lemma firstn_wf ctxs d : forallb wf_flds ctxs = true -> forallb wf_flds (firstn d ctxs) = true.
Proof.
  revert d. induction ctxs as [|x r IH]; intros [|d] H; try reflexivity. cbn [forallb] in H. apply andb_true_iff in H as [H1 H2].
  cbn [firstn forallb]. now rewrite H1, IH.
Qed.

(* sequences: the k-th entry of any sequence reaches every sink of the tree, in order, as that entry's
   own line, and exactly its write failures are collected - whatever happened to the entries before it *)
Lemma mapi_nth {A B} (f : nat -> A -> B) : forall l k0 k e, nth_error l k = Some e ->
  nth_error (mapi_from f k0 l) k = Some (f (k0 + k)%nat e).
Proof.
  induction l as [|x r IH]; intros k0 [|k] e H; try discriminate.
  - cbn in H. injection H as ->. cbn. now rewrite Nat.add_0_r.
  - cbn [nth_error mapi_from] in *. rewrite (IH (S k0) k e H). f_equal. f_equal. lia.
Qed.
Theorem seq_entry c ctxs t es k e : nth_error es k = Some e ->
  nth_error (run_seq c ctxs t es) k = Some (spec_events (pent_line c ctxs e) (p_hi e) k t, spec_write_errs k t).
Proof.
  intros H. unfold run_seq. rewrite (mapi_nth _ es 0 k e H). cbn [Nat.add]. f_equal.
  rewrite <- sink_events, <- (sink_errs (pent_line c ctxs e) (p_hi e) k t). now destruct (entry_write _ _ _ _).
Qed.
(* and each of those lines is the entry, intact *)
Theorem seq_entry_intact c ctxs e con : q_nil_caller_guard c = true -> q_layout_escaped c = true ->
  forallb wf_flds ctxs = true -> wf_pent e = true ->
  payload_ok c (firstn (p_d e) ctxs) (p_ent e) (p_fs e) con (pent_line c ctxs e con) = true.
Proof.
  intros Qg Ql Wc We. unfold wf_pent in We. apply andb_true_iff in We as [W1 W2].
  unfold pent_line. apply line_ok; try assumption. now apply firstn_wf.
Qed.

(* ================= wire level ================= *)
Definition case_ok (i : sx) : Prop :=
  match sx_z (sx_nth i 0) with
  | 0%Z => C02.Model.wf (sx_nth i 1) = true
  | 1%Z => no_sync_fault (dec_score (sx_size (sx_nth i 2)) (sx_nth i 2)) = true
  | _ => C10.Model.wf i = true /\ no_sync_fault (seq_tree i) = true
  end.

Lemma sink_wire i : no_sync_fault (dec_score (sx_size (sx_nth i 2)) (sx_nth i 2)) = true -> spec_sink i (model_sink i) = true.
Proof.
  intros H. unfold spec_sink, model_sink. cbn [sx_nth sx_l nth]. rewrite C17.Proofs.sx_eqb_refl. cbn [andb].
  set (c := dec_score _ _) in *. set (hi := sx_bool _). set (n := sx_n _).
  assert (G : forall l, map (fun r : list ev * list bytes => SL [SL (map enc_ev (fst r)); SL (map SB (snd r)); SZ (if is_nil (snd r) then 0 else 1)]) (map (fun k => entry_write no_line hi k c) l) =
                        map (fun k => let errs := spec_write_errs k c ++ spec_sync_errs hi k c in
                                      SL [SL (map enc_ev (spec_events no_line hi k c)); SL (map SB errs); SZ (if is_nil errs then 0 else 1)]) l).
  { induction l as [|k r IH]; [reflexivity|]. cbn [map]. rewrite IH. f_equal.
    rewrite sink_events, (sink_reported_partial no_line hi k c H). reflexivity. }
  unfold run_sink. rewrite G. apply C17.Proofs.sx_eqb_refl.
Qed.

(* the matcher accepts the events the specification lists when every line is acceptable *)
Lemma match_events_spec ok line hi k : (forall con, ok con (line con) = true) -> forall ls,
  match_events ok hi k ls (map enc_evp (flat_map (leaf_events line hi k) ls)) = true.
Proof.
  intros Hok. induction ls as [|l r IH]; [reflexivity|].
  cbn [flat_map]. unfold leaf_events at 1. cbn [match_events].
  destruct (werr (out_at (l_outs l) k)) as [m|] eqn:E.
  - cbn [app map enc_evp sx_nth sx_l nth sx_z]. rewrite !Z.eqb_refl, Hok. cbn [andb]. exact IH.
  - destruct hi; cbn [app map enc_evp sx_nth sx_l nth sx_z]; rewrite !Z.eqb_refl, Hok; cbn [andb].
    + rewrite C17.Proofs.sx_eqb_refl. exact IH.
    + exact IH.
Qed.
Lemma seq_rows c ctxs t : q_nil_caller_guard c = true -> q_layout_escaped c = true -> forallb wf_flds ctxs = true ->
  no_sync_fault t = true -> forall es k, forallb wf_pent es = true ->
  match_rows c ctxs t k es (map enc_row (mapi_from (fun k e => entry_write (pent_line c ctxs e) (p_hi e) k t) k es)) = true.
Proof.
  intros Qg Ql Wc Hs. induction es as [|e r IH]; intros k We; [reflexivity|].
  cbn [forallb] in We. apply andb_true_iff in We as [W1 W2].
  cbn [mapi_from map match_rows]. rewrite (IH (S k) W2), andb_true_r.
  unfold enc_row. cbn [sx_nth sx_l nth].
  rewrite sink_events, (sink_reported_partial _ (p_hi e) k t Hs), !C17.Proofs.sx_eqb_refl, !andb_true_r.
  apply (match_events_spec _ (pent_line c ctxs e)). intros con. now apply seq_entry_intact.
Qed.
Lemma seq_wire i : C10.Model.wf i = true -> sx_z (sx_nth i 0) <> 0%Z -> sx_z (sx_nth i 0) <> 1%Z ->
  no_sync_fault (seq_tree i) = true -> spec_seq i (model_seq i) = true.
Proof.
  intros Hw N0 N1 Hs. unfold C10.Model.wf in Hw.
  destruct (sx_z (sx_nth i 0)) as [|p|p] eqn:E; [congruence| |].
  - destruct p; try congruence; apply andb_true_iff in Hw as [Wc We];
      unfold spec_seq, model_seq; cbn [sx_nth sx_l nth]; rewrite C17.Proofs.sx_eqb_refl; cbn [andb];
      now apply seq_rows.
  - apply andb_true_iff in Hw as [Wc We].
    unfold spec_seq, model_seq; cbn [sx_nth sx_l nth]; rewrite C17.Proofs.sx_eqb_refl; cbn [andb].
    now apply seq_rows.
Qed.

Theorem wire_thm i : case_ok i -> spec i (model i) = true.
Proof.
  unfold case_ok, spec, model. destruct (sx_z (sx_nth i 0)) as [|p|p] eqn:E.
  - intros Hw. pose proof (C02.Proofs.wire_line (sx_nth i 1) Hw) as H.
    unfold C02.Model.model in *. destruct (encode_entry _ _ _ _ _); [|discriminate H]. exact H.
  - destruct p; try (intros [Hw Hs]; apply seq_wire; [exact Hw|rewrite E; discriminate|rewrite E; discriminate|exact Hs]).
    apply sink_wire.
  - intros [Hw Hs]; apply seq_wire; [exact Hw|rewrite E; discriminate|rewrite E; discriminate|exact Hs].
Qed.

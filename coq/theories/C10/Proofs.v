From Coq Require Import List ZArith Bool Lia.
From Coq.Strings Require Import Byte.
Import ListNotations.
From Zap Require Import Base.Wire Enc.Bytes Enc.Fields Enc.JsonEnc Enc.JsonParse Enc.WireEnc Enc.JsonAst Enc.Wf
  Enc.Refine4 Enc.Parse3 Enc.Parse4 Enc.Console Enc.ConsoleProof C02.Model C10.Model.

(* ================= field failures: locality on the tree semantics ================= *)
Section F.
Variable c : cfg.

(* a marshaler that returns an error contributes exactly what it contributes when it returns nil,
   followed by one '<key>Error' string member *)
Lemma obj_error k calls msg o :
  ev_fld c (FObject k (Obj calls (Some msg))) o = push (ev_fld c (FObject k (Obj calls None)) o) (str_m (k ++ s_Error) msg).
Proof. rewrite !ev_fld_obj, !ev_obj_eq. reflexivity. Qed.
Lemma inline_error calls msg o :
  ev_fld c (FInline (Obj calls (Some msg))) o = push (ev_fld c (FInline (Obj calls None)) o) (str_m s_Error msg).
Proof. rewrite !ev_fld_inl. reflexivity. Qed.
Lemma arr_error k es msg o :
  snd (ev_elems' c false es) = None ->
  ev_fld c (FArray k (Arr es (Some msg) false)) o = push (ev_fld c (FArray k (Arr es None false)) o) (str_m (k ++ s_Error) msg).
Proof.
  intros H. rewrite !ev_fld_arr, !ev_arr_eq. destruct (ev_elems' c false es) as [vs early]. cbn [snd] in H. subst early. reflexivity.
Qed.
(* a Stringer that panics is replaced by the error member; a nil receiver prints "<nil>" *)
Lemma stringer_panic k m o : ev_fld c (FStringer k (OPanic m)) o = push o (str_m (k ++ s_Error) (panic_err m)).
Proof. reflexivity. Qed.
Lemma stringer_nil k o : ev_fld c (FStringer k ONilPtr) o = push o (str_m k s_nilptr).
Proof. reflexivity. Qed.
(* an error value whose Error() panics / is a nil pointer *)
Lemma error_panic k m v g o : ev_fld c (FError k (ErrV (OPanic m) v g)) o = push o (str_m (k ++ s_Error) (panic_err m)).
Proof. reflexivity. Qed.
Lemma error_nil k v g o : ev_fld c (FError k (ErrV ONilPtr v g)) o = push o (str_m k s_nilptr).
Proof. reflexivity. Qed.
(* a value encoding/json rejects: nothing is written for the key, the error member appears *)
Lemma reflect_fail k m o : ev_fld c (FReflect k (RErr m)) o = push o (str_m (k ++ s_Error) m).
Proof. reflexivity. Qed.

(* siblings: the fields before and after are evaluated exactly as without the failing field *)
Lemma siblings fs1 f fs2 o : ev_flds c (fs1 ++ f :: fs2) o = ev_flds c fs2 (ev_fld c f (ev_flds c fs1 o)).
Proof. unfold ev_flds. rewrite fold_left_app. reflexivity. Qed.
(* a push never disturbs what is already there: every member present before a field is still there, in place *)
Lemma push_keeps o m : frames (push o m) = frames o /\ exists tail, cur (push o m) = cur o ++ tail.
Proof. split; [reflexivity|]. eexists. reflexivity. Qed.
End F.

(* ================= sinks, combinators and cores ================= *)
Section ScoreInd.
  Variable P : score -> Prop.
  Hypotheses (HL : forall con w, P (SLeaf con w)) (HT : forall l, Forall P l -> P (STee l)) (HW : forall c, P c -> P (SWrap c)).
  Fixpoint score_ind' (c : score) : P c :=
    match c with
    | SLeaf con w => HL con w
    | STee l => HT l ((fix go (l : list score) : Forall P l :=
                         match l with [] => Forall_nil _ | x :: r => Forall_cons _ (score_ind' x) (go r) end) l)
    | SWrap c => HW c (score_ind' c)
    end.
End ScoreInd.
Section WsyInd.
  Variable P : wsy -> Prop.
  Hypotheses (HS : forall id outs, P (WSink id outs)) (HP : forall w, P w -> P (WPass w)) (HN : forall w, P w -> P (WNoSync w))
    (HM : forall l, Forall P l -> P (WMulti l)) (HB : forall w, P w -> P (WBuf w)).
  Fixpoint wsy_ind' (w : wsy) : P w :=
    match w with
    | WSink id outs => HS id outs
    | WPass w => HP w (wsy_ind' w)
    | WNoSync w => HN w (wsy_ind' w)
    | WMulti l => HM l ((fix go (l : list wsy) : Forall P l :=
                           match l with [] => Forall_nil _ | x :: r => Forall_cons _ (wsy_ind' x) (go r) end) l)
    | WBuf w => HB w (wsy_ind' w)
    end.
End WsyInd.

(* ---- the first index at which something holds ---- *)
Lemma find_agree (f g : nat -> bool) : forall n s, (forall j, (j < s)%nat -> g j = false) ->
  (forall j, (forall j', (j' < j)%nat -> g j' = false) -> f j = g j) -> find f (seq s n) = find g (seq s n).
Proof.
  induction n as [|n IH]; intros s Hs H; [reflexivity|]. cbn [seq find]. rewrite (H s Hs).
  destruct (g s) eqn:E; [reflexivity|]. apply IH; [|exact H].
  intros j Hj. destruct (Nat.eq_dec j s) as [->|Ne]; [exact E|apply Hs; lia].
Qed.
Lemma find_seq_some (g : nat -> bool) : forall n s j, find g (seq s n) = Some j ->
  (forall j', (s <= j' < j)%nat -> g j' = false) /\ g j = true /\ (s <= j < s + n)%nat.
Proof.
  induction n as [|n IH]; intros s j H; [discriminate|]. cbn [seq find] in H. destruct (g s) eqn:E.
  - injection H as <-. split; [intros j' Hj; lia|]. split; [exact E|lia].
  - destruct (IH (S s) j H) as (H1 & H2 & H3). split; [|split; [exact H2|lia]].
    intros j' Hj. destruct (Nat.eq_dec j' s) as [->|Ne]; [exact E|apply H1; lia].
Qed.
Lemma find_seq_none (g : nat -> bool) : forall n s, find g (seq s n) = None -> forall j, (s <= j < s + n)%nat -> g j = false.
Proof.
  induction n as [|n IH]; intros s H j Hj; [lia|]. cbn [seq find] in H. destruct (g s) eqn:E; [discriminate|].
  destruct (Nat.eq_dec j s) as [->|Ne]; [exact E|apply (IH (S s) H); lia].
Qed.
Lemma find_seq_none_intro (g : nat -> bool) : forall n s, (forall j, (s <= j < s + n)%nat -> g j = false) -> find g (seq s n) = None.
Proof.
  induction n as [|n IH]; intros s H; [reflexivity|]. cbn [seq find]. rewrite (H s) by lia. apply IH. intros j Hj. apply H. lia.
Qed.

(* ---- what the sinks behind a combinator return when all of them are reached ---- *)
Definition raw_all (g : list (list outcome1)) (j : nat) : list bytes := flat_map (fun outs => raw_err outs j) g.
Definition ws_raw (j : nat) (w : wsy) : list bytes := raw_all (ws_outs w) j.
Definition multi_errs (k : nat) := fix go (l : list wsy) : list bytes := match l with [] => [] | x :: r => ws_errs k x ++ go r end.
Definition multi_writes (p : bytes) (k : nat) := fix go (l : list wsy) : list ev := match l with [] => [] | x :: r => ws_writes p k x ++ go r end.
Definition multi_syncs := fix go (l : list wsy) : list ev := match l with [] => [] | x :: r => ws_syncs x ++ go r end.
Definition multi_outs := fix go (l : list wsy) := match l with [] => [] | x :: r => ws_outs x ++ go r end.
Definition multi_sinks (g : option (list (list outcome1))) (sync : bool) := fix go (l : list wsy) := match l with [] => [] | x :: r => ws_sinks g sync x ++ go r end.

Lemma fails_at_raw g j : fails_at g j = nonnil (raw_all g j).
Proof.
  unfold fails_at, raw_all, nonnil. induction g as [|outs r IH]; [reflexivity|]. cbn [existsb flat_map]. unfold raw_err at 1.
  destruct (werr (out_at outs j)); [reflexivity|]. cbn [orb app]. exact IH.
Qed.
Lemma raw_all_app g1 g2 j : raw_all (g1 ++ g2) j = raw_all g1 j ++ raw_all g2 j.
Proof. unfold raw_all. apply flat_map_app. Qed.

(* as long as no sink behind w has failed in an earlier round, every combinator is transparent:
   Write returns exactly the errors of this round's sink calls ... *)
Lemma ws_errs_fresh : forall w k, (forall j, (j < k)%nat -> ws_raw j w = []) -> ws_errs k w = ws_raw k w.
Proof.
  apply (wsy_ind' (fun w => forall k, (forall j, (j < k)%nat -> ws_raw j w = []) -> ws_errs k w = ws_raw k w)).
  - intros id outs k _. unfold ws_raw, raw_all. cbn [ws_errs ws_outs flat_map]. now rewrite app_nil_r.
  - intros w IH k H. exact (IH k H).
  - intros w IH k H. exact (IH k H).
  - intros l Hl k H. change (ws_errs k (WMulti l)) with (multi_errs k l). unfold ws_raw in *. change (ws_outs (WMulti l)) with (multi_outs l) in *.
    induction Hl as [|x r Hx _ IH]; [reflexivity|]. cbn [multi_errs multi_outs] in *. rewrite raw_all_app.
    assert (H1 : forall j, (j < k)%nat -> raw_all (ws_outs x) j = [] /\ raw_all (multi_outs r) j = []).
    { intros j Hj. specialize (H j Hj). rewrite raw_all_app in H. now apply app_eq_nil in H. }
    rewrite (Hx k (fun j Hj => proj1 (H1 j Hj))), (IH (fun j Hj => proj2 (H1 j Hj))). reflexivity.
  - intros w IH k H. cbn [ws_errs]. change (ws_raw k (WBuf w)) with (ws_raw k w).
    assert (Hf : find (fun j => nonnil (ws_errs j w)) (seq 0 k) = None).
    { apply find_seq_none_intro. intros j Hj. rewrite (IH j) by (intros j' Hj'; apply (H j'); lia).
      change (ws_raw j w) with (ws_raw j (WBuf w)). rewrite (H j) by lia. reflexivity. }
    rewrite Hf. exact (IH k H).
Qed.
(* ... and every sink behind it is written *)
Fixpoint ws_ids (w : wsy) {struct w} : list Z :=
  match w with
  | WSink id _ => [id]
  | WPass w => ws_ids w
  | WNoSync w => ws_ids w
  | WMulti l => (fix go (l : list wsy) := match l with [] => [] | x :: r => ws_ids x ++ go r end) l
  | WBuf w => ws_ids w
  end.
Definition multi_ids := fix go (l : list wsy) := match l with [] => [] | x :: r => ws_ids x ++ go r end.
Lemma ws_writes_fresh p : forall w k, (forall j, (j < k)%nat -> ws_raw j w = []) -> ws_writes p k w = map (fun id => EvW id p) (ws_ids w).
Proof.
  apply (wsy_ind' (fun w => forall k, (forall j, (j < k)%nat -> ws_raw j w = []) -> ws_writes p k w = map (fun id => EvW id p) (ws_ids w))).
  - reflexivity.
  - intros w IH k H. exact (IH k H).
  - intros w IH k H. exact (IH k H).
  - intros l Hl k H. change (ws_writes p k (WMulti l)) with (multi_writes p k l). change (ws_ids (WMulti l)) with (multi_ids l).
    unfold ws_raw in *. change (ws_outs (WMulti l)) with (multi_outs l) in *.
    induction Hl as [|x r Hx _ IH]; [reflexivity|]. cbn [multi_writes multi_outs multi_ids] in *. rewrite map_app.
    assert (H1 : forall j, (j < k)%nat -> raw_all (ws_outs x) j = [] /\ raw_all (multi_outs r) j = []).
    { intros j Hj. specialize (H j Hj). rewrite raw_all_app in H. now apply app_eq_nil in H. }
    rewrite (Hx k (fun j Hj => proj1 (H1 j Hj))), (IH (fun j Hj => proj2 (H1 j Hj))). reflexivity.
  - intros w IH k H. cbn [ws_writes ws_ids].
    assert (Hf : find (fun j => nonnil (ws_errs j w)) (seq 0 k) = None).
    { apply find_seq_none_intro. intros j Hj. rewrite (ws_errs_fresh w j) by (intros j' Hj'; apply (H j'); lia).
      change (ws_raw j w) with (ws_raw j (WBuf w)). rewrite (H j) by lia. reflexivity. }
    rewrite Hf. exact (IH k H).
Qed.
(* the first round in which a write behind a BufferedWriteSyncer fails is the first round in which
   one of the sinks behind it fails *)
Lemma buf_find w k : find (fun j => nonnil (ws_errs j w)) (seq 0 k) = find (fails_at (ws_outs w)) (seq 0 k).
Proof.
  apply find_agree; [intros j Hj; lia|]. intros j Hj. rewrite fails_at_raw. f_equal. apply ws_errs_fresh.
  intros j' Hj'. specialize (Hj j' Hj'). rewrite fails_at_raw in Hj. unfold ws_raw. destruct (raw_all (ws_outs w) j'); [reflexivity|discriminate].
Qed.
Lemma first_fail_fresh g k j : find (fails_at g) (seq 0 k) = Some j -> forall j', (j' < j)%nat -> raw_all g j' = [].
Proof.
  intros H j' Hj'. destruct (find_seq_some _ _ _ _ H) as (H1 & _ & _). specialize (H1 j' ltac:(lia)). rewrite fails_at_raw in H1.
  destruct (raw_all g j'); [reflexivity|discriminate].
Qed.
Lemma no_fail_fresh g k : find (fails_at g) (seq 0 k) = None -> forall j', (j' < k)%nat -> raw_all g j' = [].
Proof.
  intros H j' Hj'. pose proof (find_seq_none _ _ _ H j' ltac:(lia)) as H1. rewrite fails_at_raw in H1.
  destruct (raw_all g j'); [reflexivity|discriminate].
Qed.

(* the round whose outcomes a sink answers with *)
Definition eff (g : option (list (list outcome1))) (k : nat) : nat :=
  match g with Some g => match find (fails_at g) (seq 0 k) with Some j => j | None => k end | None => k end.
Definition reached (g : option (list (list outcome1))) (k : nat) : bool :=
  match g with Some g => match find (fails_at g) (seq 0 k) with Some _ => false | None => true end | None => true end.
Definition sk_w (p : bytes) (k : nat) (s : sk) : list ev := if sk_reached k s then [EvW (s_id s) p] else [].
Definition sk_s (s : sk) : list ev := if s_sync s then [EvS (s_id s)] else [].

(* sinks behind an outer buffer: all of them answer with the same round *)
Lemma guarded_errs g k : forall w sync, flat_map (sk_errs k) (ws_sinks (Some g) sync w) = ws_raw (eff (Some g) k) w.
Proof.
  apply (wsy_ind' (fun w => forall sync, flat_map (sk_errs k) (ws_sinks (Some g) sync w) = ws_raw (eff (Some g) k) w)).
  - intros id outs sync. unfold ws_raw, raw_all. cbn [ws_sinks ws_outs flat_map]. reflexivity.
  - intros w IH sync. exact (IH sync).
  - intros w IH sync. exact (IH false).
  - intros l Hl sync. change (ws_sinks (Some g) sync (WMulti l)) with (multi_sinks (Some g) sync l).
    unfold ws_raw. change (ws_outs (WMulti l)) with (multi_outs l).
    induction Hl as [|x r Hx _ IH]; [reflexivity|]. cbn [multi_sinks multi_outs]. rewrite flat_map_app, raw_all_app, (Hx sync), IH. reflexivity.
  - intros w IH sync. exact (IH sync).
Qed.
Lemma guarded_writes p g k : forall w sync,
  flat_map (sk_w p k) (ws_sinks (Some g) sync w) = if reached (Some g) k then map (fun id => EvW id p) (ws_ids w) else [].
Proof.
  apply (wsy_ind' (fun w => forall sync, flat_map (sk_w p k) (ws_sinks (Some g) sync w) = if reached (Some g) k then map (fun id => EvW id p) (ws_ids w) else [])).
  - intros id outs sync. cbn [ws_sinks flat_map ws_ids map]. unfold sk_w, sk_reached, frozen, reached. cbn [s_guard s_id].
    destruct (find (fails_at g) (seq 0 k)); reflexivity.
  - intros w IH sync. exact (IH sync).
  - intros w IH sync. exact (IH false).
  - intros l Hl sync. change (ws_sinks (Some g) sync (WMulti l)) with (multi_sinks (Some g) sync l). change (ws_ids (WMulti l)) with (multi_ids l).
    induction Hl as [|x r Hx _ IH]; [now destruct (reached (Some g) k)|]. cbn [multi_sinks multi_ids]. rewrite flat_map_app, (Hx sync), IH.
    destruct (reached (Some g) k); [now rewrite map_app|reflexivity].
  - intros w IH sync. exact (IH sync).
Qed.

(* Write through any stack of combinators = the property's reading over the flattened sinks *)
Lemma ws_errs_spec k : forall w sync, ws_errs k w = flat_map (sk_errs k) (ws_sinks None sync w).
Proof.
  apply (wsy_ind' (fun w => forall sync, ws_errs k w = flat_map (sk_errs k) (ws_sinks None sync w))).
  - intros id outs sync. cbn [ws_errs ws_sinks flat_map]. unfold sk_errs, frozen. cbn [s_guard s_outs]. now rewrite app_nil_r.
  - intros w IH sync. exact (IH sync).
  - intros w IH sync. exact (IH false).
  - intros l Hl sync. change (ws_errs k (WMulti l)) with (multi_errs k l). change (ws_sinks None sync (WMulti l)) with (multi_sinks None sync l).
    induction Hl as [|x r Hx _ IH]; [reflexivity|]. cbn [multi_errs multi_sinks]. rewrite flat_map_app, <- (Hx sync), <- IH. reflexivity.
  - intros w _ sync. cbn [ws_errs ws_sinks]. rewrite guarded_errs, buf_find. unfold eff.
    destruct (find (fails_at (ws_outs w)) (seq 0 k)) as [j|] eqn:E.
    + apply ws_errs_fresh. exact (first_fail_fresh _ _ _ E).
    + apply ws_errs_fresh. exact (no_fail_fresh _ _ E).
Qed.
Lemma ws_writes_spec p k : forall w sync, ws_writes p k w = flat_map (sk_w p k) (ws_sinks None sync w).
Proof.
  apply (wsy_ind' (fun w => forall sync, ws_writes p k w = flat_map (sk_w p k) (ws_sinks None sync w))).
  - intros id outs sync. reflexivity.
  - intros w IH sync. exact (IH sync).
  - intros w IH sync. exact (IH false).
  - intros l Hl sync. change (ws_writes p k (WMulti l)) with (multi_writes p k l). change (ws_sinks None sync (WMulti l)) with (multi_sinks None sync l).
    induction Hl as [|x r Hx _ IH]; [reflexivity|]. cbn [multi_writes multi_sinks]. rewrite flat_map_app, <- (Hx sync), <- IH. reflexivity.
  - intros w _ sync. cbn [ws_writes ws_sinks]. rewrite guarded_writes, buf_find. unfold reached.
    destruct (find (fails_at (ws_outs w)) (seq 0 k)) as [j|] eqn:E; [reflexivity|].
    apply ws_writes_fresh. exact (no_fail_fresh _ _ E).
Qed.
Lemma ws_syncs_spec : forall w g sync, flat_map sk_s (ws_sinks g sync w) = if sync then ws_syncs w else [].
Proof.
  apply (wsy_ind' (fun w => forall g sync, flat_map sk_s (ws_sinks g sync w) = if sync then ws_syncs w else [])).
  - intros id outs g sync. cbn [ws_sinks flat_map ws_syncs]. unfold sk_s. cbn [s_sync s_id]. now destruct sync.
  - intros w IH g sync. exact (IH g sync).
  - intros w IH g sync. cbn [ws_sinks ws_syncs]. rewrite (IH g false). now destruct sync.
  - intros l Hl g sync. change (ws_sinks g sync (WMulti l)) with (multi_sinks g sync l). change (ws_syncs (WMulti l)) with (multi_syncs l).
    induction Hl as [|x r Hx _ IH]; [now destruct sync|]. cbn [multi_sinks multi_syncs]. rewrite flat_map_app, (Hx g sync), IH. now destruct sync.
  - intros w IH g sync. cbn [ws_sinks ws_syncs]. apply IH.
Qed.

Definition leaf_events (line : bool -> bytes) (hi : bool) (k : nat) (l : lf) : list ev := map (xev_ev line) (leaf_shape hi k l).
Lemma map_flat_map {A B C} (f : B -> C) (g : A -> list B) l : map f (flat_map g l) = flat_map (fun x => map f (g x)) l.
Proof. induction l as [|x r IH]; [reflexivity|]. cbn [flat_map]. now rewrite map_app, IH. Qed.
Lemma leaf_events_eq line hi k l :
  leaf_events line hi k l = flat_map (sk_w (line (l_con l)) k) (l_sinks l) ++ (if is_nil (leaf_errs k l) && hi then flat_map sk_s (l_sinks l) else []).
Proof.
  unfold leaf_events, leaf_shape. rewrite map_app, map_flat_map. f_equal.
  - apply flat_map_ext. intros s. unfold sk_w. now destruct (sk_reached k s).
  - destruct (is_nil (leaf_errs k l) && hi); [|reflexivity]. rewrite map_flat_map. apply flat_map_ext. intros s. unfold sk_s. now destruct (s_sync s).
Qed.

Definition tee_write (line : bool -> bytes) (hi : bool) (k : nat) := fix go (l : list score) : list ev * list bytes :=
  match l with
  | [] => ([], [])
  | x :: r => let '(e1, m1) := core_write line hi k x in let '(e2, m2) := go r in (e1 ++ e2, m1 ++ m2)
  end.
Definition tee_leaves := fix go (l : list score) := match l with [] => [] | x :: r => leaves x ++ go r end.
Definition tee_accepted := fix go (l : list score) : list score := match l with [] => [] | x :: r => accepted x ++ go r end.

(* Core.Write reaches every sink under the core exactly once, in order, whatever failed before,
   and hands it the line of that core's own encoder *)
Lemma core_write_spec line hi k : forall c,
  core_write line hi k c = (flat_map (leaf_events line hi k) (leaves c), flat_map (leaf_errs k) (leaves c)).
Proof.
  apply score_ind'.
  - intros con w. cbn [core_write leaves flat_map]. rewrite leaf_events_eq. unfold leaf_errs. cbn [l_con l_sinks].
    rewrite <- (ws_errs_spec k w true), <- (ws_writes_spec (line con) k w true), (ws_syncs_spec w None true), !app_nil_r.
    destruct (ws_errs k w); cbn [is_nil andb]; [reflexivity|now rewrite app_nil_r].
  - intros l Hl. change (core_write line hi k (STee l)) with (tee_write line hi k l). change (leaves (STee l)) with (tee_leaves l).
    induction Hl as [|x r Hx _ IH]; [reflexivity|]. cbn [tee_write tee_leaves]. rewrite Hx, IH, !flat_map_app. reflexivity.
  - intros c IH. exact IH.
Qed.

Lemma fold_entry line hi k l : forall acc,
  fold_left (fun acc x => let '(e, m) := core_write line hi k x in (fst acc ++ e, snd acc ++ m)) l acc =
  (fst acc ++ flat_map (fun x => fst (core_write line hi k x)) l, snd acc ++ flat_map (fun x => snd (core_write line hi k x)) l).
Proof.
  induction l as [|x r IH]; intros [a b]; cbn [fold_left flat_map fst snd]; [now rewrite !app_nil_r|].
  destruct (core_write line hi k x) as [e m] eqn:E. rewrite IH. cbn [fst snd]. now rewrite <- !app_assoc.
Qed.
Lemma accepted_leaves line hi k : forall c,
  flat_map (fun x => fst (core_write line hi k x)) (accepted c) = flat_map (leaf_events line hi k) (leaves c) /\
  flat_map (fun x => snd (core_write line hi k x)) (accepted c) = flat_map (leaf_errs k) (leaves c).
Proof.
  apply score_ind'.
  - intros con w. cbn [accepted flat_map]. rewrite (core_write_spec line hi k (SLeaf con w)). cbn [fst snd]. now rewrite !app_nil_r.
  - intros l Hl. change (accepted (STee l)) with (tee_accepted l). change (leaves (STee l)) with (tee_leaves l).
    induction Hl as [|x r [H1 H2] _ [I1 I2]]; [split; reflexivity|]. cbn [tee_accepted tee_leaves].
    rewrite !flat_map_app, H1, H2, I1, I2. split; reflexivity.
  - intros c _. cbn [accepted flat_map]. rewrite (core_write_spec line hi k (SWrap c)). cbn [fst snd leaves]. now rewrite !app_nil_r.
Qed.

(* CheckedEntry.Write: every sink of every accepting core is written exactly once, in order,
   regardless of earlier failures, with the line of its own encoder; all write errors are collected, in order *)
Theorem sink_events line hi k c : fst (entry_write line hi k c) = spec_events line hi k c.
Proof.
  unfold entry_write. rewrite fold_entry. cbn [fst app]. rewrite (proj1 (accepted_leaves line hi k c)).
  unfold spec_events, spec_shape. now rewrite map_flat_map.
Qed.
Theorem sink_errs line hi k c : snd (entry_write line hi k c) = spec_write_errs k c.
Proof. unfold entry_write. rewrite fold_entry. cbn [snd app]. exact (proj2 (accepted_leaves line hi k c)). Qed.

(* a failure is contained: a sink that is not behind a BufferedWriteSyncer - whatever Lock, AddSync,
   multi-WriteSyncer, CombineWriteSyncers or Open stand between it and its core - is written for every
   entry, whatever failed in earlier rounds or fails elsewhere in this one; a buffered sink is written
   as long as no write behind its buffer has failed *)
Lemma unbuffered_reached k s : s_guard s = None -> sk_reached k s = true.
Proof. intros H. unfold sk_reached, frozen. now rewrite H. Qed.
Lemma buffered_reached k s g : s_guard s = Some g -> (forall j, (j < k)%nat -> fails_at g j = false) -> sk_reached k s = true.
Proof.
  intros H Hg. unfold sk_reached, frozen. rewrite H. rewrite (find_seq_none_intro (fails_at g) k 0); [reflexivity|].
  intros j Hj. apply Hg. lia.
Qed.
Theorem sink_reached line hi k c l s : In l (leaves c) -> In s (l_sinks l) -> sk_reached k s = true ->
  In (EvW (s_id s) (line (l_con l))) (fst (entry_write line hi k c)).
Proof.
  intros Hl Hs Hr. rewrite sink_events. unfold spec_events, spec_shape. apply in_map_iff. exists (XW (s_id s) (l_con l)). split; [reflexivity|].
  apply in_flat_map. exists l. split; [exact Hl|]. unfold leaf_shape. apply in_or_app. left.
  apply in_flat_map. exists s. split; [exact Hs|]. rewrite Hr. now left.
Qed.

Theorem sink_unbuffered_written line hi k c l s : In l (leaves c) -> In s (l_sinks l) -> s_guard s = None ->
  In (EvW (s_id s) (line (l_con l))) (fst (entry_write line hi k c)).
Proof. intros Hl Hs Hg. apply sink_reached; [exact Hl|exact Hs|now apply unbuffered_reached]. Qed.
Theorem sink_buffered_written line hi k c l s g : In l (leaves c) -> In s (l_sinks l) -> s_guard s = Some g ->
  (forall j, (j < k)%nat -> fails_at g j = false) ->
  In (EvW (s_id s) (line (l_con l))) (fst (entry_write line hi k c)).
Proof. intros Hl Hs Hg Hn. apply sink_reached; [exact Hl|exact Hs|now apply (buffered_reached k s g)]. Qed.
(* and what the error output is told about a sink that is not buffered is this round's outcome only *)
Lemma unbuffered_errs k s : s_guard s = None -> sk_errs k s = raw_err (s_outs s) k.
Proof. intros H. unfold sk_errs, frozen. now rewrite H. Qed.

(* the full statement also asks for Sync failures to be reported; ioCore.Write drops them *)
Definition sink_full : Prop := forall line hi k c, snd (entry_write line hi k c) = spec_write_errs k c ++ spec_sync_errs hi k c.
Lemma sink_full_refuted : ~ sink_full.
Proof.
  intros H. specialize (H no_line true 0%nat (SLeaf false (WSink 0 [{| werr := None; serr := Some [x53] |}]))). vm_compute in H. discriminate.
Qed.
Definition no_serr (outs : list outcome1) : bool := forallb (fun o => match serr o with Some _ => false | None => true end) outs.
Definition no_sync_fault (c : score) : bool := forallb (fun l => forallb (fun s => no_serr (s_outs s)) (l_sinks l)) (leaves c).
Lemma out_at_serr outs k : no_serr outs = true -> serr (out_at outs k) = None.
Proof.
  unfold out_at, no_serr. revert k. induction outs as [|o r IH]; intros k H; [destruct k; reflexivity|].
  cbn [forallb] in H. apply andb_true_iff in H as [H1 H2]. destruct k as [|k]; cbn [nth]; [destruct (serr o); [discriminate|reflexivity]|now apply IH].
Qed.
Lemma no_sync_errs hi k c : no_sync_fault c = true -> spec_sync_errs hi k c = [].
Proof.
  intros H. unfold spec_sync_errs. destruct hi; [|reflexivity]. unfold no_sync_fault in H.
  induction (leaves c) as [|l r IH]; [reflexivity|]. cbn [forallb] in H. apply andb_true_iff in H as [H1 H2].
  cbn [flat_map]. rewrite (IH H2), app_nil_r. destruct (is_nil (leaf_errs k l)); [|reflexivity].
  induction (l_sinks l) as [|s q IHs]; [reflexivity|]. cbn [forallb] in H1. apply andb_true_iff in H1 as [G1 G2].
  cbn [flat_map]. rewrite (IHs G2), app_nil_r. destruct (s_sync s); [|reflexivity]. now rewrite (out_at_serr _ k G1).
Qed.
Theorem sink_reported_partial line hi k c : no_sync_fault c = true ->
  snd (entry_write line hi k c) = spec_write_errs k c ++ spec_sync_errs hi k c.
Proof. intros H. rewrite sink_errs, (no_sync_errs hi k c H). now rewrite app_nil_r. Qed.

(* ================= what the sinks receive ================= *)
From Zap Require C17.Proofs C02.Proofs.
Section Line.
Variables (c : cfg) (ctxs : list (list fld)) (ent : entry) (fs : list fld).
Hypotheses (Qg : q_nil_caller_guard c = true) (Ql : q_layout_escaped c = true)
  (Wc : forallb wf_flds ctxs = true) (Wf' : wf_flds fs = true) (We : wf_entry ent = true).

(* the line a JSON ioCore hands to its sink decodes to exactly the reference members of the entry *)
Lemma line_json : line_obj (resolved_le c) (entry_line c ctxs ent fs false) = Some (jv_mem (entry_members c ctxs ent fs)).
Proof.
  unfold entry_line. destruct (entry_valid_wf c ctxs ent fs Qg Ql Wc Wf' We) as (out & E & L). rewrite E. exact L.
Qed.
(* the line a console ioCore hands to its sink is exactly the documented shape *)
Lemma line_console : entry_line c ctxs ent fs true = console_spec c ctxs ent fs.
Proof. unfold entry_line. exact (console_shape c ctxs ent fs Wc Wf'). Qed.
Lemma line_ok con : payload_ok c ctxs ent fs con (entry_line c ctxs ent fs con) = true.
Proof.
  unfold payload_ok. destruct con.
  - rewrite line_console, (proj2 (bytes_eqb_eq _ _) eq_refl). cbn [andb].
    pose proof (tpre_close _ (ev_flds_pre c Ql fs (wf_owf_flds _ Wf') _ (with_chain_pre c Ql ctxs (wf_owf_ctxs _ Wc)))) as Hp.
    destruct (close (ev_flds c fs (ev_with_chain c ctxs))) as [|m r] eqn:E; [reflexivity|].
    destruct (context_same _ Hp) as [H1 H2]. rewrite H1, H2. reflexivity.
  - rewrite line_json. apply C02.Proofs.jv_eqb_refl.
Qed.
End Line.

Lemma firstn_wf ctxs d : forallb wf_flds ctxs = true -> forallb wf_flds (firstn d ctxs) = true.
Proof.
  revert d. induction ctxs as [|x r IH]; intros [|d] H; try reflexivity. cbn [forallb] in H. apply andb_true_iff in H as [H1 H2].
  cbn [firstn forallb]. now rewrite H1, IH.
Qed.

(* sequences: the k-th entry of any sequence reaches every sink of the tree, in order, as that entry's
   own line, and exactly its write failures are collected - whatever happened to the entries before it *)
Lemma mapi_nth {A B} (f : nat -> A -> B) : forall l k0 k e, nth_error l k = Some e ->
  nth_error (mapi_from f k0 l) k = Some (f (k0 + k)%nat e).
Proof.
  induction l as [|x r IH]; intros k0 [|k] e H; try discriminate.
  - cbn in H. injection H as ->. cbn. now rewrite Nat.add_0_r.
  - cbn [nth_error mapi_from] in *. rewrite (IH (S k0) k e H). f_equal. f_equal. lia.
Qed.
Theorem seq_entry c ctxs t es k e : nth_error es k = Some e ->
  nth_error (run_seq c ctxs t es) k = Some (spec_events (pent_line c ctxs e) (p_hi e) k t, spec_write_errs k t).
Proof.
  intros H. unfold run_seq. rewrite (mapi_nth _ es 0 k e H). cbn [Nat.add]. f_equal.
  rewrite <- sink_events, <- (sink_errs (pent_line c ctxs e) (p_hi e) k t). now destruct (entry_write _ _ _ _).
Qed.
(* and each of those lines is the entry, intact *)
Theorem seq_entry_intact c ctxs e con : q_nil_caller_guard c = true -> q_layout_escaped c = true ->
  forallb wf_flds ctxs = true -> wf_pent e = true ->
  payload_ok c (firstn (p_d e) ctxs) (p_ent e) (p_fs e) con (pent_line c ctxs e con) = true.
Proof.
  intros Qg Ql Wc We. unfold wf_pent in We. apply andb_true_iff in We as [W1 W2].
  unfold pent_line. apply line_ok; try assumption. now apply firstn_wf.
Qed.

(* ================= wire level ================= *)
Definition case_ok (i : sx) : Prop :=
  match sx_z (sx_nth i 0) with
  | 0%Z => C02.Model.wf (sx_nth i 1) = true
  | 1%Z => no_sync_fault (dec_score (sx_size (sx_nth i 2)) (sx_nth i 2)) = true
  | _ => C10.Model.wf i = true /\ no_sync_fault (seq_tree i) = true
  end.

Lemma sink_wire i : no_sync_fault (dec_score (sx_size (sx_nth i 2)) (sx_nth i 2)) = true -> spec_sink i (model_sink i) = true.
Proof.
  intros H. unfold spec_sink, model_sink. cbn [sx_nth sx_l nth]. rewrite C17.Proofs.sx_eqb_refl. cbn [andb].
  set (c := dec_score _ _) in *. set (hi := sx_bool _). set (n := sx_n _).
  assert (G : forall l, map (fun r : list ev * list bytes => SL [SL (map enc_ev (fst r)); SL (map SB (snd r)); SZ (if is_nil (snd r) then 0 else 1)]) (map (fun k => entry_write no_line hi k c) l) =
                        map (fun k => let errs := spec_write_errs k c ++ spec_sync_errs hi k c in
                                      SL [SL (map enc_ev (spec_events no_line hi k c)); SL (map SB errs); SZ (if is_nil errs then 0 else 1)]) l).
  { induction l as [|k r IH]; [reflexivity|]. cbn [map]. rewrite IH. f_equal.
    rewrite sink_events, (sink_reported_partial no_line hi k c H). reflexivity. }
  unfold run_sink. rewrite G. apply C17.Proofs.sx_eqb_refl.
Qed.

(* the matcher accepts the events the specification lists when every line is acceptable *)
Lemma match_shape_spec ok line : (forall con, ok con (line con) = true) -> forall xs,
  match_shape ok xs (map enc_evp (map (xev_ev line) xs)) = true.
Proof.
  intros Hok. induction xs as [|x r IH]; [reflexivity|]. destruct x as [id con|id]; cbn [map xev_ev enc_evp match_shape sx_nth sx_l nth sx_z].
  - rewrite !Z.eqb_refl, Hok. cbn [andb]. exact IH.
  - rewrite C17.Proofs.sx_eqb_refl. exact IH.
Qed.
Lemma seq_rows c ctxs t : q_nil_caller_guard c = true -> q_layout_escaped c = true -> forallb wf_flds ctxs = true ->
  no_sync_fault t = true -> forall es k, forallb wf_pent es = true ->
  match_rows c ctxs t k es (map enc_row (mapi_from (fun k e => entry_write (pent_line c ctxs e) (p_hi e) k t) k es)) = true.
Proof.
  intros Qg Ql Wc Hs. induction es as [|e r IH]; intros k We; [reflexivity|].
  cbn [forallb] in We. apply andb_true_iff in We as [W1 W2].
  cbn [mapi_from map match_rows]. rewrite (IH (S k) W2), andb_true_r.
  unfold enc_row. cbn [sx_nth sx_l nth].
  rewrite sink_events, (sink_reported_partial _ (p_hi e) k t Hs), !C17.Proofs.sx_eqb_refl, !andb_true_r.
  unfold spec_events. apply (match_shape_spec _ (pent_line c ctxs e)). intros con. now apply seq_entry_intact.
Qed.
Lemma seq_wire i : C10.Model.wf i = true -> sx_z (sx_nth i 0) <> 0%Z -> sx_z (sx_nth i 0) <> 1%Z ->
  no_sync_fault (seq_tree i) = true -> spec_seq i (model_seq i) = true.
Proof.
  intros Hw N0 N1 Hs. unfold C10.Model.wf in Hw.
  destruct (sx_z (sx_nth i 0)) as [|p|p] eqn:E; [congruence| |].
  - destruct p; try congruence; apply andb_true_iff in Hw as [Wc We];
      unfold spec_seq, model_seq; cbn [sx_nth sx_l nth]; rewrite C17.Proofs.sx_eqb_refl; cbn [andb];
      now apply seq_rows.
  - apply andb_true_iff in Hw as [Wc We].
    unfold spec_seq, model_seq; cbn [sx_nth sx_l nth]; rewrite C17.Proofs.sx_eqb_refl; cbn [andb].
    now apply seq_rows.
Qed.

Theorem wire_thm i : case_ok i -> spec i (model i) = true.
Proof.
  unfold case_ok, spec, model. destruct (sx_z (sx_nth i 0)) as [|p|p] eqn:E.
  - intros Hw. pose proof (C02.Proofs.wire_line (sx_nth i 1) Hw) as H.
    unfold C02.Model.model in *. destruct (encode_entry _ _ _ _ _); [|discriminate H]. exact H.
  - destruct p; try (intros [Hw Hs]; apply seq_wire; [exact Hw|rewrite E; discriminate|rewrite E; discriminate|exact Hs]).
    apply sink_wire.
  - intros [Hw Hs]; apply seq_wire; [exact Hw|rewrite E; discriminate|rewrite E; discriminate|exact Hs].
Qed.

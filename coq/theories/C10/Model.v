(* C10 — field and sink failures are contained and reported; the entry is never lost.
   Three kinds of cases:
   (0 enccase)  a field tree with one injected fault (marshaler error, Stringer/Error()
                panic or nil receiver, value encoding/json rejects); observation (line);
   (1 hi cores entries)  a logger over a tree of cores whose sinks fail according to
                per-entry outcome lists; observation (events errout returned);
   (2 cfg ctxs cores ((hi depth entry fields) ...))  the same trees, the leaves being JSON or
                console ioCores over one EncoderConfig, fed a sequence of full entries (any field
                tree, any With-chain prefix); every sink call is observed WITH the bytes it was
                handed: what the surviving cores receive after a failure is the entry, intact.
   In kinds 1 and 2 a leaf's sink may stand behind zap's WriteSyncer combinators (zapcore.Lock, AddSync,
   NewMultiWriteSyncer, zap.CombineWriteSyncers, zap.Open, BufferedWriteSyncer); the last component of the
   observation is 1 when every logging call returned (0: one panicked, 2: one did not return - blocked).
   No proofs in this file. *)
From Coq Require Import List ZArith Bool.
From Coq.Strings Require Import Byte.
Import ListNotations.
From Zap Require Import Base.Wire Enc.Bytes Enc.Fields Enc.JsonEnc Enc.JsonParse Enc.WireEnc Enc.JsonAst Enc.Wf Enc.Parse3 Enc.Console C02.Model.

(* ---------------- sinks, WriteSyncer combinators and cores ---------------- *)
(* one sink call outcome for one entry: Write's error (the count is ignored by ioCore.Write),
   and Sync's error *)
Record outcome1 := { werr : option bytes; serr : option bytes }.
(* the WriteSyncer an ioCore was given: a (recording) sink, or one of zap's combinators over others *)
Inductive wsy :=
| WSink (id : Z) (outs : list outcome1)      (* the sink itself; outcome for the k-th entry *)
| WPass (w : wsy)                            (* zapcore.Lock (and AddSync of a WriteSyncer): lock; forward; unlock *)
| WNoSync (w : wsy)                          (* zapcore.AddSync of a plain io.Writer: Write forwarded, Sync a no-op *)
| WMulti (l : list wsy)                      (* zapcore.NewMultiWriteSyncer; zap.CombineWriteSyncers and zap.Open are
                                                WPass (WMulti _) *)
| WBuf (w : wsy).                            (* &zapcore.BufferedWriteSyncer{WS: w, Size: 1}: every line (2 bytes or
                                                more) bypasses the buffer; bufio.Writer keeps its first error *)
Inductive score :=
| SLeaf (con : bool) (w : wsy)               (* an ioCore over WriteSyncer w with its own encoder (con: console,
                                                otherwise JSON) *)
| STee (l : list score)                      (* zapcore.NewTee *)
| SWrap (c : score).                         (* a wrapper forwarding Write to the wrapped core (hooked core) *)
(* a sink call: Write with the bytes handed to it, or Sync *)
Inductive ev := EvW (id : Z) (p : bytes) | EvS (id : Z).

Definition out_at (outs : list outcome1) (k : nat) : outcome1 := nth k outs {| werr := None; serr := None |}.
Definition raw_err (outs : list outcome1) (k : nat) : list bytes :=
  match werr (out_at outs k) with Some m => [m] | None => [] end.
Definition nonnil {A} (l : list A) : bool := negb (is_nil l).

(* WriteSyncer.Write for entry number k (the entries 0..k-1 were written before it).
   The error returned, as the list of the parts of the multierr:
   lockedWriteSyncer.Write: Lock; n, err := ws.Write(bs); Unlock; return n, err.
   writerWrapper: the embedded Write.
   multiWriteSyncer.Write: every syncer is written, the errors appended.
   BufferedWriteSyncer.Write (buffer of one byte, so empty; lines longer than that): bufio.Writer.Write
   hands the line to the underlying writer unless an earlier write failed; it keeps the first error
   it saw and from then on returns it without calling the underlying writer. *)
Fixpoint ws_errs (k : nat) (w : wsy) {struct w} : list bytes :=
  match w with
  | WSink _ outs => raw_err outs k
  | WPass w => ws_errs k w
  | WNoSync w => ws_errs k w
  | WMulti l => (fix go (l : list wsy) : list bytes := match l with [] => [] | x :: r => ws_errs k x ++ go r end) l
  | WBuf w => match find (fun j => nonnil (ws_errs j w)) (seq 0 k) with
              | Some j => ws_errs j w
              | None => ws_errs k w
              end
  end.
(* the sink calls that Write makes, with the bytes p *)
Fixpoint ws_writes (p : bytes) (k : nat) (w : wsy) {struct w} : list ev :=
  match w with
  | WSink id _ => [EvW id p]
  | WPass w => ws_writes p k w
  | WNoSync w => ws_writes p k w
  | WMulti l => (fix go (l : list wsy) : list ev := match l with [] => [] | x :: r => ws_writes p k x ++ go r end) l
  | WBuf w => match find (fun j => nonnil (ws_errs j w)) (seq 0 k) with
              | Some _ => []
              | None => ws_writes p k w
              end
  end.
(* WriteSyncer.Sync: lockedWriteSyncer and multiWriteSyncer forward it, writerWrapper does nothing,
   BufferedWriteSyncer flushes (nothing is buffered) and syncs the underlying WriteSyncer *)
Fixpoint ws_syncs (w : wsy) {struct w} : list ev :=
  match w with
  | WSink id _ => [EvS id]
  | WPass w => ws_syncs w
  | WNoSync _ => []
  | WMulti l => (fix go (l : list wsy) : list ev := match l with [] => [] | x :: r => ws_syncs x ++ go r end) l
  | WBuf w => ws_syncs w
  end.

(* Core.Write for entry number k; hi = the entry's level is above Error; line con = what an encoder
   of that kind (with this core's accumulated context) produces for the entry.
   ioCore.Write: buf := enc.EncodeEntry; out.Write(buf.Bytes()); buf.Free(); on error return it;
   otherwise Sync (error ignored) when hi.
   multiCore.Write: every core, errors appended.  Returns sink events and the errors in order. *)
Fixpoint core_write (line : bool -> bytes) (hi : bool) (k : nat) (c : score) {struct c} : list ev * list bytes :=
  match c with
  | SLeaf con w =>
      match ws_errs k w with
      | [] => (ws_writes (line con) k w ++ (if hi then ws_syncs w else []), [])
      | errs => (ws_writes (line con) k w, errs)
      end
  | STee l =>
      (fix go (l : list score) : list ev * list bytes :=
         match l with
         | [] => ([], [])
         | x :: r => let '(e1, m1) := core_write line hi k x in let '(e2, m2) := go r in (e1 ++ e2, m1 ++ m2)
         end) l
  | SWrap c => core_write line hi k c
  end.

(* CheckedEntry.Write over the cores that accepted the entry (Check: a tee lets each of its
   cores add itself; a wrapper adds itself): all of them are written, the errors are combined and
   reported in ONE line on the error output, then the call returns *)
Fixpoint accepted (c : score) {struct c} : list score :=
  match c with
  | SLeaf _ _ => [c]
  | STee l => (fix go (l : list score) : list score := match l with [] => [] | x :: r => accepted x ++ go r end) l
  | SWrap _ => [c]
  end.
Definition entry_write (line : bool -> bytes) (hi : bool) (k : nat) (c : score) : list ev * list bytes :=
  fold_left (fun acc x => let '(e, m) := core_write line hi k x in (fst acc ++ e, snd acc ++ m)) (accepted c) ([], []).

(* the property's reading, written independently: every sink of the tree, in order, each with what
   stands between it and its core.
   s_sync: a Sync of the core reaches the sink (no AddSync-of-a-Writer above it);
   s_guard: the outcome lists of all the sinks behind the OUTERMOST BufferedWriteSyncer above the sink
   (None: the sink is not buffered) *)
Record sk := { s_id : Z; s_outs : list outcome1; s_sync : bool; s_guard : option (list (list outcome1)) }.
Fixpoint ws_outs (w : wsy) {struct w} : list (list outcome1) :=
  match w with
  | WSink _ outs => [outs]
  | WPass w => ws_outs w
  | WNoSync w => ws_outs w
  | WMulti l => (fix go (l : list wsy) := match l with [] => [] | x :: r => ws_outs x ++ go r end) l
  | WBuf w => ws_outs w
  end.
Fixpoint ws_sinks (g : option (list (list outcome1))) (sync : bool) (w : wsy) {struct w} : list sk :=
  match w with
  | WSink id outs => [{| s_id := id; s_outs := outs; s_sync := sync; s_guard := g |}]
  | WPass w => ws_sinks g sync w
  | WNoSync w => ws_sinks g false w
  | WMulti l => (fix go (l : list wsy) := match l with [] => [] | x :: r => ws_sinks g sync x ++ go r end) l
  | WBuf w => ws_sinks (match g with Some _ => g | None => Some (ws_outs w) end) sync w
  end.
Record lf := { l_con : bool; l_sinks : list sk }.
Fixpoint leaves (c : score) {struct c} : list lf :=
  match c with
  | SLeaf con w => [{| l_con := con; l_sinks := ws_sinks None true w |}]
  | STee l => (fix go (l : list score) := match l with [] => [] | x :: r => leaves x ++ go r end) l
  | SWrap c => leaves c
  end.
(* a buffered sink stops being written once a write behind its buffer has failed: from the first
   round j in which one of the guarded sinks failed, the buffer answers every later write with the
   errors of round j (they are reported again), and the sinks behind it are not called any more.
   The failure of a sink that is NOT behind a buffer has no effect on any later round. *)
Definition fails_at (g : list (list outcome1)) (j : nat) : bool :=
  existsb (fun outs => match werr (out_at outs j) with Some _ => true | None => false end) g.
Definition frozen (s : sk) (k : nat) : option nat :=
  match s_guard s with Some g => find (fails_at g) (seq 0 k) | None => None end.
Definition sk_reached (k : nat) (s : sk) : bool := match frozen s k with Some _ => false | None => true end.
Definition sk_errs (k : nat) (s : sk) : list bytes :=
  raw_err (s_outs s) (match frozen s k with Some j => j | None => k end).
Definition leaf_errs (k : nat) (l : lf) : list bytes := flat_map (sk_errs k) (l_sinks l).
(* the shape of the sink calls of one entry: a Write per reached sink, carrying the line of the
   core's encoder, then - when every write of this core succeeded and hi - a Sync per sink that a
   Sync reaches *)
Inductive xev := XW (id : Z) (con : bool) | XS (id : Z).
Definition leaf_shape (hi : bool) (k : nat) (l : lf) : list xev :=
  flat_map (fun s => if sk_reached k s then [XW (s_id s) (l_con l)] else []) (l_sinks l) ++
  (if is_nil (leaf_errs k l) && hi then flat_map (fun s => if s_sync s then [XS (s_id s)] else []) (l_sinks l) else []).
Definition spec_shape (hi : bool) (k : nat) (c : score) : list xev := flat_map (leaf_shape hi k) (leaves c).
Definition xev_ev (line : bool -> bytes) (x : xev) : ev := match x with XW id con => EvW id (line con) | XS id => EvS id end.
(* every sink is written once, in order, with the line of its own encoder for THIS entry - whatever
   failed before - and synced after a successful write when hi *)
Definition spec_events (line : bool -> bytes) (hi : bool) (k : nat) (c : score) : list ev :=
  map (xev_ev line) (spec_shape hi k c).
Definition spec_write_errs (k : nat) (c : score) : list bytes := flat_map (leaf_errs k) (leaves c).
(* sync failures of sinks that were synced: the statement asks for these to be reported too *)
Definition spec_sync_errs (hi : bool) (k : nat) (c : score) : list bytes :=
  if hi then flat_map (fun l => if is_nil (leaf_errs k l)
                                then flat_map (fun s => if s_sync s then match serr (out_at (s_outs s) k) with Some m => [m] | None => [] end else []) (l_sinks l)
                                else []) (leaves c)
  else [].

(* ---------------- the entries the sinks receive ---------------- *)
(* what the encoder of an ioCore (JSON or console, built from cfg c, after the With chain ctxs)
   hands to its sink for one entry *)
Definition entry_line (c : cfg) (ctxs : list (list fld)) (ent : entry) (fs : list fld) (con : bool) : bytes :=
  if con then console_encode c (with_chain c true ctxs) ent fs
  else match encode_entry c false (with_chain c false ctxs) ent fs with Some out => out | None => [] end.
(* the property's reading of "receives the entry": a JSON line decodes to exactly the reference
   members of the entry (C01/C02); a console line is exactly the documented shape with a valid
   JSON context (C16) *)
Definition payload_ok (c : cfg) (ctxs : list (list fld)) (ent : entry) (fs : list fld) (con : bool) (p : bytes) : bool :=
  if con then
    bytes_eqb p (console_spec c ctxs ent fs) &&
    (let ms := close (ev_flds c fs (ev_with_chain c ctxs)) in
     match ms with
     | [] => true
     | _ => match parse (pv true (TObj ms)), parse (pv false (TObj ms)) with
            | Some (JObj _), Some (JObj _) => true
            | _, _ => false
            end
     end)
  else
    match line_obj (resolved_le c) p with
    | Some ms => jv_eqb (JObj ms) (JObj (jv_mem (entry_members c ctxs ent fs)))
    | None => false
    end.

(* one logged entry of a sequence: above Error?, how many With calls deep the logger it is logged
   through was derived (a prefix of the chain), the entry, the call-site fields *)
Record pent := { p_hi : bool; p_d : nat; p_ent : entry; p_fs : list fld }.
Fixpoint mapi_from {A B} (f : nat -> A -> B) (k : nat) (l : list A) : list B :=
  match l with [] => [] | x :: r => f k x :: mapi_from f (S k) r end.
Definition pent_line (c : cfg) (ctxs : list (list fld)) (e : pent) : bool -> bytes :=
  entry_line c (firstn (p_d e) ctxs) (p_ent e) (p_fs e).
(* the sequence: the k-th entry is written to the tree with the outcomes of round k *)
Definition run_seq (c : cfg) (ctxs : list (list fld)) (t : score) (es : list pent) : list (list ev * list bytes) :=
  mapi_from (fun k e => entry_write (pent_line c ctxs e) (p_hi e) k t) 0 es.

(* ---------------- wire ---------------- *)
Definition dec_out (s : sx) : outcome1 := {| werr := dec_optb (sx_nth s 0); serr := dec_optb (sx_nth s 1) |}.
(* a WriteSyncer: (0 id outs) a sink | (1 w) zapcore.Lock | (2 w) zapcore.AddSync of a plain io.Writer |
   (3 (w ...)) zapcore.NewMultiWriteSyncer | (4 (w ...)) zap.CombineWriteSyncers | (5 (w ...)) zap.Open of
   registered sinks | (6 w) BufferedWriteSyncer{Size: 1} | (7 w) zapcore.AddSync of a WriteSyncer *)
Fixpoint dec_wsy (fuel : nat) (s : sx) : wsy :=
  match fuel with
  | O => WMulti []
  | S f =>
      match sx_z (sx_nth s 0) with
      | 0%Z => WSink (sx_z (sx_nth s 1)) (map dec_out (sx_l (sx_nth s 2)))
      | 1%Z => WPass (dec_wsy f (sx_nth s 1))
      | 2%Z => WNoSync (dec_wsy f (sx_nth s 1))
      | 3%Z => WMulti (map (dec_wsy f) (sx_l (sx_nth s 1)))
      | 4%Z => WPass (WMulti (map (dec_wsy f) (sx_l (sx_nth s 1))))
      | 5%Z => WPass (WMulti (map (dec_wsy f) (sx_l (sx_nth s 1))))
      | 6%Z => WBuf (dec_wsy f (sx_nth s 1))
      | _ => WPass (dec_wsy f (sx_nth s 1))
      end
  end.
Fixpoint dec_score (fuel : nat) (s : sx) : score :=
  match fuel with
  | O => STee []
  | S f =>
      match sx_z (sx_nth s 0) with
      | 0%Z => SLeaf (sx_bool (sx_nth s 3)) (WSink (sx_z (sx_nth s 1)) (map dec_out (sx_l (sx_nth s 2))))
      | 1%Z => STee (map (dec_score f) (sx_l (sx_nth s 1)))
      | 3%Z => SLeaf (sx_bool (sx_nth s 1)) (dec_wsy f (sx_nth s 3))
      | _ => SWrap (dec_score f (sx_nth s 1))
      end
  end.
(* a leaf over a bare sink is (0 id outs) in kind 1 and (0 id outs console? nests?) in kind 2; a leaf over
   combinators is (3 console? nests? writesyncer) in both; "nests" (the test sinks log through an unrelated
   core during Write) is environment the code must be indifferent to: ignored.
   kind 1 does not observe the bytes; kind 2 does *)
Definition enc_ev (e : ev) : sx := match e with EvW id _ => SL [SZ 0; SZ id] | EvS id => SL [SZ 1; SZ id] end.
Definition enc_evp (e : ev) : sx := match e with EvW id p => SL [SZ 0; SZ id; SB p] | EvS id => SL [SZ 1; SZ id] end.

(* sink case: (1 hi core n_entries) ; observation: ((per entry: (events errcount)) ...) returned
   errcount = number of lines the error output received for that entry *)
Definition no_line : bool -> bytes := fun _ => [].
Definition run_sink (hi : bool) (c : score) (n : nat) : list (list ev * list bytes) :=
  map (fun k => entry_write no_line hi k c) (seq 0 n).
Definition model_sink (i : sx) : sx :=
  let hi := sx_bool (sx_nth i 1) in
  let c := dec_score (sx_size (sx_nth i 2)) (sx_nth i 2) in
  let n := sx_n (sx_nth i 3) in
  SL [SL (map (fun r => SL [SL (map enc_ev (fst r)); SL (map SB (snd r)); SZ (if is_nil (snd r) then 0 else 1)]) (run_sink hi c n)); SZ 1].
(* oracle: per entry, every sink is written exactly once in order (synced after a successful write
   when hi), the reported errors are exactly the failures of that entry (write AND sync failures),
   and the call returned *)
Definition spec_sink (i o : sx) : bool :=
  let hi := sx_bool (sx_nth i 1) in
  let c := dec_score (sx_size (sx_nth i 2)) (sx_nth i 2) in
  let n := sx_n (sx_nth i 3) in
  sx_eqb (sx_nth o 1) (SZ 1) &&
  sx_eqb (sx_nth o 0)
    (SL (map (fun k => let errs := spec_write_errs k c ++ spec_sync_errs hi k c in
                       SL [SL (map enc_ev (spec_events no_line hi k c)); SL (map SB errs); SZ (if is_nil errs then 0 else 1)]) (seq 0 n))).

(* sequence case: (2 cfg ctxs core ((hi depth entry fields) ...));
   observation: ((per entry: (events-with-bytes errors errcount)) ...) returned *)
Definition dec_pent (s : sx) : pent :=
  {| p_hi := sx_bool (sx_nth s 0); p_d := sx_n (sx_nth s 1); p_ent := dec_entry (sx_nth s 2); p_fs := dec_fields (sx_nth s 3) |}.
Definition seq_cfg (i : sx) : cfg := dec_cfg (sx_nth i 1).
Definition seq_ctxs (i : sx) : list (list fld) := map dec_fields (sx_l (sx_nth i 2)).
Definition seq_tree (i : sx) : score := dec_score (sx_size (sx_nth i 3)) (sx_nth i 3).
Definition seq_ents (i : sx) : list pent := map dec_pent (sx_l (sx_nth i 4)).
Definition enc_row (r : list ev * list bytes) : sx :=
  SL [SL (map enc_evp (fst r)); SL (map SB (snd r)); SZ (if is_nil (snd r) then 0 else 1)].
Definition model_seq (i : sx) : sx :=
  SL [SL (map enc_row (run_seq (seq_cfg i) (seq_ctxs i) (seq_tree i) (seq_ents i))); SZ 1].
(* the observed sink calls of one entry against the shape the property asks for: one Write per
   reached sink whose bytes are the entry (ok), in order, the Syncs where they belong; nothing else *)
Fixpoint match_shape (ok : bool -> bytes -> bool) (xs : list xev) (evs : list sx) {struct xs} : bool :=
  match xs, evs with
  | [], [] => true
  | XW id con :: xs', e :: evs' =>
      Z.eqb (sx_z (sx_nth e 0)) 0 && Z.eqb (sx_z (sx_nth e 1)) id &&
      (match sx_nth e 2 with SB p => ok con p | _ => false end) && match_shape ok xs' evs'
  | XS id :: xs', e :: evs' => sx_eqb e (SL [SZ 1; SZ id]) && match_shape ok xs' evs'
  | _, _ => false
  end.
Fixpoint match_rows (c : cfg) (ctxs : list (list fld)) (t : score) (k : nat) (es : list pent) (rows : list sx) {struct es} : bool :=
  match es, rows with
  | [], [] => true
  | e :: es', row :: rows' =>
      (let errs := spec_write_errs k t ++ spec_sync_errs (p_hi e) k t in
       match_shape (payload_ok c (firstn (p_d e) ctxs) (p_ent e) (p_fs e)) (spec_shape (p_hi e) k t) (sx_l (sx_nth row 0)) &&
       sx_eqb (sx_nth row 1) (SL (map SB errs)) &&
       sx_eqb (sx_nth row 2) (SZ (if is_nil errs then 0 else 1))) &&
      match_rows c ctxs t (S k) es' rows'
  | _, _ => false
  end.
(* oracle: per entry of the sequence, every sink receives the entry intact exactly once in order,
   the reported errors are exactly that entry's failures, and every call returned *)
Definition spec_seq (i o : sx) : bool :=
  sx_eqb (sx_nth o 1) (SZ 1) &&
  match_rows (seq_cfg i) (seq_ctxs i) (seq_tree i) 0 (seq_ents i) (sx_l (sx_nth o 0)).

Definition model (i : sx) : sx :=
  match sx_z (sx_nth i 0) with
  | 0%Z => match C02.Model.model (sx_nth i 1) with SL (x :: _) => SL [x] | y => y end
  | 1%Z => model_sink i
  | _ => model_seq i
  end.
Definition spec (i o : sx) : bool :=
  match sx_z (sx_nth i 0) with
  | 0%Z => C02.Model.spec_line (sx_nth i 1) o
  | 1%Z => spec_sink i o
  | _ => spec_seq i o
  end.

(* assumption monitors on the oracle values the case carries *)
Definition wf_pent (e : pent) : bool := wf_flds (p_fs e) && wf_entry (p_ent e).
Definition wf (i : sx) : bool :=
  match sx_z (sx_nth i 0) with
  | 0%Z => C02.Model.wf (sx_nth i 1)
  | 1%Z => true
  | _ => forallb wf_flds (seq_ctxs i) && forallb wf_pent (seq_ents i)
  end.

(* C10 — field and sink failures are contained and reported; the entry is never lost.
   Two kinds of cases:
   (0 enccase)  a field tree with one injected fault (marshaler error, Stringer/Error()
                panic or nil receiver, value encoding/json rejects); observation (line);
   (1 hi cores entries)  a logger over a tree of cores whose sinks fail according to
                per-entry outcome lists; observation (events errout returned).
   No proofs in this file. *)
From Coq Require Import List ZArith Bool.
From Coq.Strings Require Import Byte.
Import ListNotations.
From Zap Require Import Base.Wire Enc.Bytes Enc.Fields Enc.JsonEnc Enc.JsonParse Enc.WireEnc Enc.JsonAst Enc.Wf Enc.Parse3 C02.Model.

(* ---------------- sinks and cores ---------------- *)
(* one sink call outcome for one entry: Write's error (the count is ignored by ioCore.Write),
   and Sync's error *)
Record outcome1 := { werr : option bytes; serr : option bytes }.
Inductive score :=
| SLeaf (id : Z) (outs : list outcome1)      (* an ioCore over sink id; outcome for the k-th entry *)
| STee (l : list score)                      (* zapcore.NewTee *)
| SWrap (c : score).                         (* a wrapper forwarding Write to the wrapped core (hooked core) *)
Inductive ev := EvW (id : Z) | EvS (id : Z).

Definition out_at (outs : list outcome1) (k : nat) : outcome1 := nth k outs {| werr := None; serr := None |}.

(* Core.Write for entry number k; hi = the entry's level is above Error.
   ioCore.Write: encode, out.Write; on error return it; otherwise Sync (error ignored) when hi.
   multiCore.Write: every core, errors appended.  Returns sink events and the errors in order. *)
Fixpoint core_write (hi : bool) (k : nat) (c : score) {struct c} : list ev * list bytes :=
  match c with
  | SLeaf id outs =>
      match werr (out_at outs k) with
      | Some m => ([EvW id], [m])
      | None => (EvW id :: (if hi then [EvS id] else []), [])
      end
  | STee l =>
      (fix go (l : list score) : list ev * list bytes :=
         match l with
         | [] => ([], [])
         | x :: r => let '(e1, m1) := core_write hi k x in let '(e2, m2) := go r in (e1 ++ e2, m1 ++ m2)
         end) l
  | SWrap c => core_write hi k c
  end.

(* CheckedEntry.Write over the cores that accepted the entry (Check: a tee lets each of its
   cores add itself; a wrapper adds itself): all of them are written, the errors are combined and
   reported in ONE line on the error output, then the call returns *)
Fixpoint accepted (c : score) {struct c} : list score :=
  match c with
  | SLeaf _ _ => [c]
  | STee l => (fix go (l : list score) : list score := match l with [] => [] | x :: r => accepted x ++ go r end) l
  | SWrap _ => [c]
  end.
Definition entry_write (hi : bool) (k : nat) (c : score) : list ev * list bytes :=
  fold_left (fun acc x => let '(e, m) := core_write hi k x in (fst acc ++ e, snd acc ++ m)) (accepted c) ([], []).

(* the property's reading, written independently: every sink of the tree, in order *)
Fixpoint leaves (c : score) {struct c} : list (Z * list outcome1) :=
  match c with
  | SLeaf id outs => [(id, outs)]
  | STee l => (fix go (l : list score) := match l with [] => [] | x :: r => leaves x ++ go r end) l
  | SWrap c => leaves c
  end.
Definition spec_events (hi : bool) (k : nat) (c : score) : list ev :=
  flat_map (fun lf => match werr (out_at (snd lf) k) with
                      | Some _ => [EvW (fst lf)]
                      | None => EvW (fst lf) :: (if hi then [EvS (fst lf)] else [])
                      end) (leaves c).
Definition spec_write_errs (k : nat) (c : score) : list bytes :=
  flat_map (fun lf => match werr (out_at (snd lf) k) with Some m => [m] | None => [] end) (leaves c).
(* sync failures of sinks that were synced: the statement asks for these to be reported too *)
Definition spec_sync_errs (hi : bool) (k : nat) (c : score) : list bytes :=
  if hi then flat_map (fun lf => match werr (out_at (snd lf) k), serr (out_at (snd lf) k) with
                                 | None, Some m => [m] | _, _ => [] end) (leaves c)
  else [].

(* ---------------- wire ---------------- *)
Definition dec_out (s : sx) : outcome1 := {| werr := dec_optb (sx_nth s 0); serr := dec_optb (sx_nth s 1) |}.
Fixpoint dec_score (fuel : nat) (s : sx) : score :=
  match fuel with
  | O => STee []
  | S f =>
      match sx_z (sx_nth s 0) with
      | 0%Z => SLeaf (sx_z (sx_nth s 1)) (map dec_out (sx_l (sx_nth s 2)))
      | 1%Z => STee (map (dec_score f) (sx_l (sx_nth s 1)))
      | _ => SWrap (dec_score f (sx_nth s 1))
      end
  end.
Definition enc_ev (e : ev) : sx := match e with EvW id => SL [SZ 0; SZ id] | EvS id => SL [SZ 1; SZ id] end.

(* sink case: (1 hi core n_entries) ; observation: ((per entry: (events errcount)) ...) returned
   errcount = number of lines the error output received for that entry *)
Definition run_sink (hi : bool) (c : score) (n : nat) : list (list ev * list bytes) :=
  map (fun k => entry_write hi k c) (seq 0 n).
Definition model_sink (i : sx) : sx :=
  let hi := sx_bool (sx_nth i 1) in
  let c := dec_score (sx_size (sx_nth i 2)) (sx_nth i 2) in
  let n := sx_n (sx_nth i 3) in
  SL [SL (map (fun r => SL [SL (map enc_ev (fst r)); SL (map SB (snd r)); SZ (if is_nil (snd r) then 0 else 1)]) (run_sink hi c n)); SZ 1].
(* oracle: per entry, every sink is written exactly once in order (synced after a successful write
   when hi), the reported errors are exactly the failures of that entry (write AND sync failures),
   and the call returned *)
Definition spec_sink (i o : sx) : bool :=
  let hi := sx_bool (sx_nth i 1) in
  let c := dec_score (sx_size (sx_nth i 2)) (sx_nth i 2) in
  let n := sx_n (sx_nth i 3) in
  sx_eqb (sx_nth o 1) (SZ 1) &&
  sx_eqb (sx_nth o 0)
    (SL (map (fun k => let errs := spec_write_errs k c ++ spec_sync_errs hi k c in
                       SL [SL (map enc_ev (spec_events hi k c)); SL (map SB errs); SZ (if is_nil errs then 0 else 1)]) (seq 0 n))).

Definition model (i : sx) : sx :=
  match sx_z (sx_nth i 0) with
  | 0%Z => match C02.Model.model (sx_nth i 1) with SL (x :: _) => SL [x] | y => y end
  | _ => model_sink i
  end.
Definition spec (i o : sx) : bool :=
  match sx_z (sx_nth i 0) with
  | 0%Z => C02.Model.spec_line (sx_nth i 1) o
  | _ => spec_sink i o
  end.

Definition wf (i : sx) : bool :=
  match sx_z (sx_nth i 0) with 0%Z => C02.Model.wf (sx_nth i 1) | _ => true end.

(* C18 — stub *)
From Zap Require Import Base.Wire C18.Model.

(* C18 -- proofs.  Plan:
     1. convert (the fixed convertAttrToField) denotes exactly the contract's attr semantics,
        and is Skip exactly when that semantics is empty          (convert_sem)
     2. the Handle/WithAttrs loop with deferred namespaces           (loop_sem)
     3. invariant tying a handler (ctx fields, pending groups in the heap) to its
        derivation sequence, for every continuation                  (hinv)
     4. programs: any derivation tree, any interleaving              (program_thm)
     5. corollaries: semantics of chains, isolation, levels, enabled, wire
     5b. the core's level moves: handling follows the enabler in force   (level_current_only),
        the snapshot variant does not                                   (snapshot_refuted)
     6. the code before the fix: refutations                         (the _refuted lemmas) *)
From Coq Require Import List ZArith Bool Lia.
From Coq.Strings Require Import Byte.
Import ListNotations.
From Zap Require Import Base.Wire C18.Model.
Local Open Scope Z_scope.

(* ------------------------------------------------------------------ *)
(* 0. generalities                                                     *)
(* ------------------------------------------------------------------ *)
Lemma sx_eqb_refl s : sx_eqb s s = true.
Proof.
  revert s. fix IH 1. intros [z|b|l]; cbn.
  - apply Z.eqb_refl.
  - now apply bytes_eqb_eq.
  - induction l as [|a r IHr]; [reflexivity|]. now rewrite IH, IHr.
Qed.

Lemma is_nil_true {A} (l : list A) : is_nil l = true <-> l = [].
Proof. destruct l; cbn; split; congruence. Qed.
Lemma is_nil_false {A} (l : list A) : is_nil l = false <-> l <> [].
Proof. destruct l; cbn; split; congruence. Qed.
Lemma is_nil_app {A} (a b : list A) : is_nil (a ++ b) = is_nil a && is_nil b.
Proof. destruct a; reflexivity. Qed.

Section value_induction.
  Variable P : value -> Prop.
  Hypothesis HS : forall k t, P (VScalar k t).
  Hypothesis HA : forall b t, P (VAny b t).
  Hypothesis HG : forall l, Forall (fun kv => P (snd kv)) l -> P (VGroup l).
  Hypothesis HL : forall v, P v -> P (VLogValuer v).
  Fixpoint value_ind' (v : value) : P v :=
    match v with
    | VScalar k t => HS k t
    | VAny b t => HA b t
    | VGroup l => HG l ((fix go (l : list (bytes * value)) : Forall (fun kv => P (snd kv)) l :=
                           match l with
                           | [] => Forall_nil _
                           | kv :: r => Forall_cons kv (value_ind' (snd kv)) (go r)
                           end) l)
    | VLogValuer v' => HL v' (value_ind' v')
    end.
End value_induction.

(* named versions of the inner fixpoints (convertible with them) *)
Definition conv_list :=
  fix go (l : list (bytes * value)) : list field :=
    match l with
    | [] => []
    | (k', v') :: r => let f := convert k' v' in if is_skip f then go r else f :: go r
    end.
Definition conv_list_orig :=
  fix go (l : list (bytes * value)) : list field :=
    match l with [] => [] | (k', v') :: r => convert_orig k' v' :: go r end.
Definition res_list :=
  fix go (l : list (bytes * value)) : list (bytes * rvalue) :=
    match l with [] => [] | (k, v') :: r => (k, resolve_all v') :: go r end.
Definition rsem_list :=
  fix go (l : list (bytes * rvalue)) : otree :=
    match l with [] => [] | (k', v') :: r => rattr_sem k' v' ++ go r end.

Definition group_field (k : bytes) (fs : list field) : field :=
  if is_nil fs then FSkip else if is_nil k then FInline fs else FObject k fs.

Lemma convert_group k l : convert k (VGroup l) = group_field k (conv_list l).
Proof. destruct k; reflexivity. Qed.
Lemma convert_orig_group k l :
  convert_orig k (VGroup l) = if is_nil k then FInline (conv_list_orig l) else FObject k (conv_list_orig l).
Proof. destruct k; reflexivity. Qed.
Lemma convert_scalar k kd txt : convert k (VScalar kd txt) = FScalar (ztype_of kd) k txt.
Proof. destruct k; reflexivity. Qed.
Lemma convert_logvaluer k v : convert k (VLogValuer v) = convert k v.
Proof. destruct k; reflexivity. Qed.
Lemma convert_any k b t : convert k (VAny b t) = if is_nil k && b then FSkip else FAny k t.
Proof. destruct k, b; reflexivity. Qed.

Lemma denote_f_object k fs tail : denote_f (FObject k fs) tail = (k, Node (denote fs)) :: tail.
Proof. reflexivity. Qed.
Lemma denote_f_inline fs tail : denote_f (FInline fs) tail = fold_right denote_f tail fs.
Proof. reflexivity. Qed.

Lemma resolve_group l : resolve_all (VGroup l) = RGroup (res_list l).
Proof. reflexivity. Qed.
Lemma rattr_group k l :
  rattr_sem k (RGroup l) =
  if is_nil (rsem_list l) then [] else if is_nil k then rsem_list l else [(k, Node (rsem_list l))].
Proof. reflexivity. Qed.
Lemma rsem_res l : rsem_list (res_list l) = attrs_sem l.
Proof.
  induction l as [|[k v] r IH]; [reflexivity|].
  cbn [res_list rsem_list attrs_sem flat_map]. unfold attr_sem at 1. cbn [fst snd].
  fold res_list. fold rsem_list. rewrite IH. reflexivity.
Qed.
Lemma attr_sem_group k l :
  attr_sem (k, VGroup l) =
  if is_nil (attrs_sem l) then [] else if is_nil k then attrs_sem l else [(k, Node (attrs_sem l))].
Proof. unfold attr_sem. cbn [fst snd]. rewrite resolve_group, rattr_group, rsem_res. reflexivity. Qed.

(* Value.Resolve: strip every LogValuer layer.  The code resolves and recurses; the model
   recurses layer by layer: same function. *)
Fixpoint resolve (v : value) : value := match v with VLogValuer v' => resolve v' | _ => v end.
Lemma convert_resolve k v : convert k (VLogValuer v) = convert k (resolve v).
Proof.
  rewrite convert_logvaluer. induction v as [kd t|b t|l|v IH]; try reflexivity.
  cbn [resolve]. rewrite convert_logvaluer. exact IH.
Qed.
Lemma convert_orig_resolve k v : convert_orig k (VLogValuer v) = convert_orig k (resolve v).
Proof.
  assert (E : forall v, convert_orig k (VLogValuer v) = convert_orig k v) by (intro; destruct k; reflexivity).
  rewrite E. induction v as [kd t|b t|l|v IH]; try reflexivity.
  cbn [resolve]. rewrite E. exact IH.
Qed.

(* ------------------------------------------------------------------ *)
(* 1. convert = the contract's attr semantics                          *)
(* ------------------------------------------------------------------ *)
Definition conv_ok (k : bytes) (v : value) : Prop :=
  (forall tail, denote_f (convert k v) tail = attr_sem (k, v) ++ tail) /\
  is_skip (convert k v) = is_nil (attr_sem (k, v)).

Lemma conv_list_sem l :
  Forall (fun kv => forall k, conv_ok k (snd kv)) l ->
  (forall tail, fold_right denote_f tail (conv_list l) = attrs_sem l ++ tail) /\
  is_nil (conv_list l) = is_nil (attrs_sem l).
Proof.
  intro HF. induction HF as [|[k v] r Hkv _ IH]; [split; reflexivity|].
  destruct IH as [IHd IHn]. destruct (Hkv k) as [Hd Hs]. cbn [snd] in Hd, Hs.
  cbn [conv_list attrs_sem flat_map]. fold conv_list. fold (attrs_sem r).
  destruct (is_skip (convert k v)) eqn:Esk.
  - symmetry in Hs. apply is_nil_true in Hs. rewrite Hs. cbn [app]. split; assumption.
  - symmetry in Hs. split.
    + intro tail. cbn [fold_right]. rewrite Hd, IHd, app_assoc. reflexivity.
    + rewrite is_nil_app, Hs. reflexivity.
Qed.

Lemma convert_sem v : forall k, conv_ok k v.
Proof.
  induction v as [kd txt|b t|l IH|v IH] using value_ind'; intro k.
  - unfold conv_ok. rewrite convert_scalar. split; reflexivity.
  - unfold conv_ok. rewrite convert_any. unfold attr_sem. cbn [fst snd resolve_all rattr_sem].
    destruct (is_nil k && b); split; reflexivity.
  - destruct (conv_list_sem l IH) as [Hd Hn].
    unfold conv_ok. rewrite convert_group, attr_sem_group. unfold group_field. rewrite Hn.
    destruct (is_nil (attrs_sem l)) eqn:En; [split; reflexivity|].
    destruct (is_nil k) eqn:Ek.
    + split; [intro tail; rewrite denote_f_inline; apply Hd|cbn [is_skip]; now rewrite En].
    + split; [|reflexivity]. intro tail. rewrite denote_f_object. unfold denote.
      rewrite Hd, app_nil_r. reflexivity.
  - unfold conv_ok. rewrite convert_logvaluer. exact (IH k).
Qed.

Lemma convert_denote k v tail : denote_f (convert k v) tail = attr_sem (k, v) ++ tail.
Proof. apply convert_sem. Qed.
Lemma convert_skip k v : is_skip (convert k v) = is_nil (attr_sem (k, v)).
Proof. apply convert_sem. Qed.

(* ------------------------------------------------------------------ *)
(* 2. the attr loop                                                    *)
(* ------------------------------------------------------------------ *)
Definition nest (gs : list bytes) (c : otree) : otree := fold_right (fun g c => [(g, Node c)]) c gs.
(* pending groups show only if something appears inside *)
Definition wrapg (gs : list bytes) (c : otree) : otree := if is_nil c then [] else nest gs c.

Lemma denote_namespaces gs tail : fold_right denote_f tail (map FNamespace gs) = nest gs tail.
Proof. induction gs as [|g r IH]; [reflexivity|]. cbn [map fold_right nest denote_f]. fold (nest r tail). now rewrite IH. Qed.

Lemma nest_app gs n c : nest (gs ++ [n]) c = nest gs [(n, Node c)].
Proof. unfold nest. rewrite fold_right_app. reflexivity. Qed.
Lemma nest_nonnil gs c : c <> [] -> nest gs c <> [].
Proof. destruct gs; cbn; [auto|discriminate]. Qed.

Lemma attr_loop_acc cv gs attrs : forall fields added,
  attr_loop cv gs attrs fields added =
  (fields ++ fst (attr_loop cv gs attrs [] added), snd (attr_loop cv gs attrs [] added)).
Proof.
  induction attrs as [|[k v] r IH]; intros fields added.
  - cbn. now rewrite app_nil_r.
  - cbn [attr_loop].
    destruct (negb added && negb (is_nil gs) && negb (is_skip (cv k v))) eqn:E.
    + rewrite IH. rewrite (IH (([] ++ map FNamespace gs) ++ [cv k v])). cbn [fst snd app].
      rewrite <- !app_assoc. reflexivity.
    + rewrite IH. rewrite (IH ([] ++ [cv k v])). cbn [fst snd app].
      rewrite <- !app_assoc. reflexivity.
Qed.

Definition conv_attr (a : attr) : field := convert (fst a) (snd a).

Lemma map_conv_denote attrs tail : fold_right denote_f tail (map conv_attr attrs) = attrs_sem attrs ++ tail.
Proof.
  induction attrs as [|[k v] r IH]; [reflexivity|].
  cbn [map fold_right attrs_sem flat_map]. fold (attrs_sem r). unfold conv_attr at 1. cbn [fst snd].
  rewrite convert_denote, IH, app_assoc. reflexivity.
Qed.

(* once the namespaces are out (or when there are none) the loop is a map *)
Lemma attr_loop_plain gs attrs added :
  added = true \/ gs = [] ->
  attr_loop convert gs attrs [] added = (map conv_attr attrs, added).
Proof.
  intro H. induction attrs as [|[k v] r IH]; [reflexivity|].
  cbn [attr_loop].
  assert (E : negb added && negb (is_nil gs) && negb (is_skip (convert k v)) = false).
  { destruct H as [-> | ->]; [reflexivity|]. cbn. now rewrite andb_false_r. }
  rewrite E, attr_loop_acc, IH. reflexivity.
Qed.

Lemma loop_sem gs attrs F added :
  attr_loop convert gs attrs [] false = (F, added) ->
  added = negb (is_nil gs) && negb (is_nil (attrs_sem attrs)) /\
  forall T, fold_right denote_f T F = if added then nest gs (attrs_sem attrs ++ T) else attrs_sem attrs ++ T.
Proof.
  destruct (is_nil gs) eqn:Egs.
  - apply is_nil_true in Egs. subst gs. rewrite attr_loop_plain by (right; reflexivity).
    intros [= <- <-]. split; [reflexivity|]. intro T. apply map_conv_denote.
  - revert F added. induction attrs as [|[k v] r IH]; intros F added.
    + cbn. intros [= <- <-]. split; reflexivity.
    + cbn [attr_loop negb andb]. rewrite Egs. cbn [negb andb].
      cbn [attrs_sem flat_map]. fold (attrs_sem r).
      pose proof (convert_skip k v) as Hs. pose proof (convert_denote k v) as Hd.
      destruct (is_skip (convert k v)) eqn:Esk; cbn [negb].
      * symmetry in Hs. apply is_nil_true in Hs. rewrite Hs. cbn [app].
        rewrite attr_loop_acc. intros [= <- <-].
        destruct (attr_loop convert gs r [] false) as [F' a'] eqn:EL.
        destruct (IH F' a' eq_refl) as [Ha HT]. cbn [fst snd]. split; [exact Ha|].
        intro T. cbn [app fold_right]. rewrite Hd, Hs. cbn [app]. apply HT.
      * symmetry in Hs. rewrite attr_loop_acc.
        rewrite attr_loop_plain by (left; reflexivity). cbn [fst snd]. intros [= <- <-].
        rewrite is_nil_app, Hs. cbn [andb negb]. split; [reflexivity|].
        intro T. cbn [app]. rewrite !fold_right_app. cbn [fold_right].
        rewrite denote_namespaces, map_conv_denote, Hd, app_assoc. reflexivity.
Qed.

(* ------------------------------------------------------------------ *)
(* 3. handler invariant                                                *)
(* ------------------------------------------------------------------ *)
(* the contract as a context: what the derivation sequence does to the contribution c of
   whatever comes after it *)
Fixpoint spec_k (ops : list op) (c : otree) : otree :=
  match ops with
  | [] => c
  | OAttrs a :: r => attrs_sem a ++ spec_k r c
  | OGroup n :: r =>
      let c' := spec_k r c in
      if is_nil n then c' else if is_nil c' then [] else [(n, Node c')]
  end.
Lemma spec_sem_k ops rec : spec_sem ops rec = spec_k ops (attrs_sem rec).
Proof. induction ops as [|[n|a] r IH]; cbn [spec_sem spec_k]; now rewrite ?IH. Qed.
Lemma spec_k_app ops o c : spec_k (ops ++ [o]) c = spec_k ops (spec_k [o] c).
Proof. induction ops as [|[n|a] r IH]; cbn [app spec_k]; now rewrite ?IH. Qed.

Definition svalid (hp : heap) (s : gslice) : Prop :=
  match s with None => True | Some (a, _) => (a < length hp)%nat end.

Definition hinv (name : bytes) (hp : heap) (h : handler) (ops : list op) : Prop :=
  h_name h = name /\ svalid hp (h_groups h) /\
  forall c, fold_right denote_f (wrapg (read_groups hp (h_groups h)) c) (h_ctx h) = spec_k ops c.

Lemma read_groups_ext hp ext s : svalid hp s -> read_groups (hp ++ ext) s = read_groups hp s.
Proof. destruct s as [[a n]|]; [|reflexivity]. cbn. intro H. now rewrite app_nth1. Qed.
Lemma svalid_ext hp ext s : svalid hp s -> svalid (hp ++ ext) s.
Proof. destruct s as [[a n]|]; [|auto]. cbn. rewrite app_length. lia. Qed.
Lemma hinv_ext name hp ext h ops : hinv name hp h ops -> hinv name (hp ++ ext) h ops.
Proof.
  intros (Hn & Hv & Hc). split; [exact Hn|]. split; [now apply svalid_ext|].
  intro c. rewrite read_groups_ext by exact Hv. apply Hc.
Qed.

Lemma hinv_root name hp : hinv name hp (root name) [].
Proof. split; [reflexivity|]. split; [exact I|]. intro c. cbn. unfold wrapg. destruct c; reflexivity. Qed.

Lemma wrapg_nil c : wrapg [] c = c.
Proof. unfold wrapg. destruct c; reflexivity. Qed.
Lemma wrapg_app gs n c : n <> [] -> wrapg (gs ++ [n]) c = wrapg gs (spec_k [OGroup n] c).
Proof.
  intro Hn. cbn [spec_k]. apply is_nil_false in Hn. rewrite Hn. unfold wrapg.
  destruct (is_nil c) eqn:Ec; [reflexivity|]. cbn [is_nil]. apply nest_app.
Qed.

(* make(len+1); copy; newGroups[len] = name  builds old ++ [name] *)
Lemma set_nth_app {A} (l : list A) x y : set_nth (length l) (l ++ [x]) y = l ++ [y].
Proof. induction l as [|a r IH]; [reflexivity|]. cbn. now rewrite IH. Qed.
Lemma go_copy_zero {A} (d : A) (old : list A) : go_copy (repeat d (S (length old))) old = old ++ [d].
Proof.
  unfold go_copy. rewrite repeat_length.
  rewrite firstn_all2 by (apply Nat.le_succ_diag_r).
  f_equal. induction old as [|a r IH]; [reflexivity|]. cbn [length]. exact IH.
Qed.
Lemma new_groups_array (old : list bytes) name :
  set_nth (length old) (go_copy (repeat [] (S (length old))) old) name = old ++ [name].
Proof. rewrite go_copy_zero. apply set_nth_app. Qed.

Lemma with_group_orig_read hp h name :
  let '(hp', h') := with_group_orig hp h name in
  hp' = hp ++ [read_groups hp (h_groups h) ++ [name]] /\
  read_groups hp' (h_groups h') = read_groups hp (h_groups h) ++ [name] /\
  svalid hp' (h_groups h') /\ h_ctx h' = h_ctx h /\ h_name h' = h_name h.
Proof.
  unfold with_group_orig. rewrite new_groups_array. cbn [h_groups h_ctx h_name].
  split; [reflexivity|]. split.
  - cbn [read_groups]. rewrite app_nth2, Nat.sub_diag by (apply Nat.le_refl). cbn [nth].
    apply firstn_all2. rewrite app_length. cbn [length]. rewrite Nat.add_1_r. apply Nat.le_refl.
  - split; [|split; reflexivity]. cbn. rewrite app_length. cbn. lia.
Qed.

Lemma hinv_with_group name hp h ops g :
  hinv name hp h ops ->
  let '(hp', h') := with_group hp h g in
  (exists ext, hp' = hp ++ ext) /\ hinv name hp' h' (ops ++ [OGroup g]).
Proof.
  intros (Hn & Hv & Hc). unfold with_group. destruct (is_nil g) eqn:Eg.
  - split; [exists []; now rewrite app_nil_r|].
    split; [exact Hn|]. split; [exact Hv|]. intro c. rewrite spec_k_app. cbn [spec_k]. rewrite Eg. apply Hc.
  - pose proof (with_group_orig_read hp h g) as H.
    destruct (with_group_orig hp h g) as [hp' h'].
    destruct H as (Ehp & Er & Hv' & Ectx & Ename).
    split; [eexists; exact Ehp|].
    split; [congruence|]. split; [exact Hv'|].
    intro c. rewrite Er, Ectx, spec_k_app, wrapg_app by (now apply is_nil_false). apply Hc.
Qed.

Lemma hinv_with_attrs name hp h ops a :
  hinv name hp h ops -> hinv name hp (with_attrs convert hp h a) (ops ++ [OAttrs a]).
Proof.
  intros (Hn & Hv & Hc). unfold with_attrs.
  destruct (attr_loop convert (read_groups hp (h_groups h)) a [] false) as [F added] eqn:EL.
  destruct (loop_sem _ _ _ _ EL) as [Ea HT].
  unfold hinv. cbn [h_ctx h_name h_groups]. split; [exact Hn|]. split; [destruct added; [exact I|exact Hv]|].
  intro c. rewrite fold_right_app, HT, spec_k_app. cbn [spec_k]. rewrite <- Hc. f_equal.
  destruct added.
  - cbn [read_groups]. rewrite wrapg_nil.
    symmetry in Ea. apply andb_true_iff in Ea. destruct Ea as [_ Ea].
    unfold wrapg. rewrite is_nil_app. apply negb_true_iff in Ea. rewrite Ea. reflexivity.
  - symmetry in Ea. apply andb_false_iff in Ea. destruct Ea as [Ea|Ea]; apply negb_false_iff in Ea; apply is_nil_true in Ea.
    + rewrite Ea, !wrapg_nil. reflexivity.
    + rewrite Ea. reflexivity.
Qed.

Lemma hinv_handle name hp h ops rec F added :
  hinv name hp h ops ->
  attr_loop convert (read_groups hp (h_groups h)) rec [] false = (F, added) ->
  denote (h_ctx h ++ F) = spec_sem ops rec.
Proof.
  intros (Hn & Hv & Hc) EL. destruct (loop_sem _ _ _ _ EL) as [Ea HT].
  unfold denote. rewrite fold_right_app, HT, spec_sem_k, <- Hc. f_equal.
  rewrite app_nil_r. destruct added.
  - symmetry in Ea. apply andb_true_iff in Ea. destruct Ea as [_ Ea]. apply negb_true_iff in Ea.
    unfold wrapg. now rewrite Ea.
  - symmetry in Ea. apply andb_false_iff in Ea. destruct Ea as [Ea|Ea]; apply negb_false_iff in Ea; apply is_nil_true in Ea.
    + rewrite Ea, wrapg_nil. reflexivity.
    + rewrite Ea. reflexivity.
Qed.

(* ------------------------------------------------------------------ *)
(* levels                                                              *)
(* ------------------------------------------------------------------ *)
Lemma level_spec l : convert_slog_level l = spec_level l.
Proof.
  unfold convert_slog_level, spec_level.
  destruct (8 <=? l) eqn:E8; destruct (4 <=? l) eqn:E4; destruct (0 <=? l) eqn:E0;
  destruct (l <? 0) eqn:F0; destruct (l <? 4) eqn:F4; destruct (l <? 8) eqn:F8; try reflexivity; lia.
Qed.

Lemma level_monotone l1 l2 : l1 <= l2 -> convert_slog_level l1 <= convert_slog_level l2.
Proof.
  intro H. unfold convert_slog_level.
  destruct (8 <=? l1) eqn:A8; destruct (4 <=? l1) eqn:A4; destruct (0 <=? l1) eqn:A0;
  destruct (8 <=? l2) eqn:B8; destruct (4 <=? l2) eqn:B4; destruct (0 <=? l2) eqn:B0; lia.
Qed.

Lemma level_thresholds l :
  (convert_slog_level l = 2 <-> 8 <= l) /\
  (convert_slog_level l = 1 <-> 4 <= l < 8) /\
  (convert_slog_level l = 0 <-> 0 <= l < 4) /\
  (convert_slog_level l = -1 <-> l < 0).
Proof.
  unfold convert_slog_level.
  destruct (8 <=? l) eqn:A8; destruct (4 <=? l) eqn:A4; destruct (0 <=? l) eqn:A0; lia.
Qed.

Lemma level_range l : -1 <= convert_slog_level l <= 2.
Proof.
  unfold convert_slog_level.
  destruct (8 <=? l); destruct (4 <=? l); destruct (0 <=? l); lia.
Qed.

(* ------------------------------------------------------------------ *)
(* 4. programs                                                         *)
(* ------------------------------------------------------------------ *)
Definition winv (name : bytes) (hp : heap) (st : list handler) (paths : list (list op)) : Prop :=
  Forall2 (hinv name hp) st paths.

Lemma winv_ext name hp ext st paths : winv name hp st paths -> winv name (hp ++ ext) st paths.
Proof. intro H. induction H; constructor; [now apply hinv_ext|assumption]. Qed.

Lemma winv_nth name hp st paths i :
  winv name hp st paths -> hinv name hp (nth i st (root name)) (nth i paths []).
Proof.
  intro H. revert i. induction H as [|h ops st paths Hh _ IH]; intro i.
  - destruct i; apply hinv_root.
  - destruct i; [exact Hh|apply IH].
Qed.

Lemma winv_snoc name hp st paths h ops :
  winv name hp st paths -> hinv name hp h ops -> winv name hp (st ++ [h]) (paths ++ [ops]).
Proof. intros H Hh. apply Forall2_app; [exact H|]. constructor; [exact Hh|constructor]. Qed.

Lemma handle_observe name en hp h ops l m rec :
  hinv name hp h ops ->
  observe (enabled en l, handle convert en hp h l m rec) = spec_out en name ops l m rec.
Proof.
  intro Hh. unfold observe, spec_out, enabled, handle. cbn [fst snd]. rewrite level_spec.
  destruct (en (spec_level l)) eqn:Een; [|reflexivity].
  destruct (attr_loop convert (read_groups hp (h_groups h)) rec [] false) as [F added] eqn:EL.
  cbn [e_level e_msg e_name e_fields].
  rewrite (hinv_handle _ _ _ _ _ _ _ Hh EL). destruct Hh as (Hn & _). rewrite Hn. reflexivity.
Qed.

(* the Logger front end asks Enabled first; Handle asks the core again: same answer *)
Lemma logger_log_handle cv en hp h l m rec : logger_log cv en hp h l m rec = handle cv en hp h l m rec.
Proof. unfold logger_log, enabled, handle. destruct (en (convert_slog_level l)); reflexivity. Qed.

Lemma program_gen name p : forall en hp st paths,
  winv name hp st paths ->
  map observe (run convert with_group en name hp st p) = spec_run en name paths p.
Proof.
  induction p as [|c r IH]; intros en hp st paths HW; [reflexivity|].
  destruct c as [par g|par a|i l m rec|en'|i l m rec]; cbn [run spec_run].
  - pose proof (hinv_with_group name hp _ _ g (winv_nth _ _ _ _ par HW)) as H.
    destruct (with_group hp (nth par st (root name)) g) as [hp' h'].
    destruct H as [[ext ->] Hh]. apply IH.
    apply winv_snoc; [now apply winv_ext|exact Hh].
  - apply IH. apply winv_snoc; [exact HW|]. apply hinv_with_attrs. now apply winv_nth.
  - cbn [map]. rewrite (IH en hp st paths HW). f_equal.
    apply handle_observe. now apply winv_nth.
  - apply IH. exact HW.
  - cbn [map]. rewrite (IH en hp st paths HW). f_equal.
    rewrite logger_log_handle. apply handle_observe. now apply winv_nth.
Qed.

Theorem program_thm en name p :
  map observe (run_fixed en name p) = spec_run en name [[]] p.
Proof.
  unfold run_fixed. apply program_gen. constructor; [apply hinv_root|constructor].
Qed.

(* ------------------------------------------------------------------ *)
(* 5. corollaries                                                      *)
(* ------------------------------------------------------------------ *)
Lemma spec_run_chain en name l m rec ops : forall paths base i,
  length paths = S i -> nth i paths [] = base ->
  spec_run en name paths (chain_from i ops ++ [CHandle (i + length ops) l m rec]) =
  [spec_out en name (base ++ ops) l m rec].
Proof.
  induction ops as [|o r IH]; intros paths base i HL HB.
  - cbn [chain_from app length spec_run]. rewrite Nat.add_0_r, HB, app_nil_r. reflexivity.
  - assert (HL' : length (paths ++ [base ++ [o]]) = S (S i)) by (rewrite app_length; cbn; lia).
    assert (HB' : nth (S i) (paths ++ [base ++ [o]]) [] = base ++ [o])
      by (rewrite app_nth2 by lia; rewrite HL, Nat.sub_diag; reflexivity).
    specialize (IH _ _ _ HL' HB').
    replace (i + length (o :: r))%nat with (S i + length r)%nat by (cbn; lia).
    rewrite <- app_assoc in IH. cbn [app] in IH.
    destruct o as [g|a]; cbn [chain_from app spec_run]; rewrite HB; exact IH.
Qed.

Theorem semantics_thm en name ops l m rec :
  map observe (run_fixed en name (chain ops l m rec)) = [spec_out en name ops l m rec].
Proof.
  rewrite program_thm. unfold chain.
  exact (spec_run_chain en name l m rec ops [[]] [] 0%nat eq_refl eq_refl).
Qed.

(* the field list itself, for an enabled core: its denotation is the contract's tree *)
Theorem semantics_fields name ops l m rec :
  exists e, run_fixed (fun _ => true) name (chain ops l m rec) = [(true, Some e)] /\
            denote (e_fields e) = spec_sem ops rec /\
            e_level e = spec_level l /\ e_msg e = m /\ e_name e = name.
Proof.
  pose proof (semantics_thm (fun _ => true) name ops l m rec) as H.
  destruct (run_fixed (fun _ => true) name (chain ops l m rec)) as [|[b [e|]] [|? ?]]; try discriminate H.
  unfold spec_out in H. cbn in H. injection H as Hb He1 He2 He3 He4.
  exists e. subst b. repeat split; assumption.
Qed.

Lemma spec_run_paths name p : forall en paths,
  spec_run en name paths p =
  map (fun x : hitem => match x with (en', ops, l, m, rec) => spec_out en' name ops l m rec end)
      (handled_paths en paths p).
Proof.
  induction p as [|c r IH]; intros en paths; [reflexivity|].
  destruct c as [par g|par a|i l m rec|en'|i l m rec]; cbn [spec_run handled_paths map]; now rewrite IH.
Qed.

(* every Handle / Log of any program gives what the same handler gives when it is derived
   alone from a fresh root on a core that has had the enabler now in force all along: nothing
   done to parents, siblings or children matters, and no earlier level of the core does *)
Theorem isolated_thm en name p :
  map observe (run_fixed en name p) =
  flat_map (fun x : hitem => match x with (en', ops, l, m, rec) => map observe (run_fixed en' name (chain ops l m rec)) end)
           (handled_paths en [[]] p).
Proof.
  rewrite program_thm, spec_run_paths.
  induction (handled_paths en [[]] p) as [|[[[[en' ops] l] m] rec] r IH]; [reflexivity|].
  cbn [map flat_map]. rewrite semantics_thm, IH. reflexivity.
Qed.

(* Enabled and Handle, for any handler whatsoever (hence after any derivation) *)
Theorem enabled_thm cv en hp h l m rec :
  enabled en l = en (convert_slog_level l) /\
  (handle cv en hp h l m rec <> None <-> en (convert_slog_level l) = true) /\
  (forall e, handle cv en hp h l m rec = Some e -> e_level e = convert_slog_level l /\ e_msg e = m /\ e_name e = h_name h).
Proof.
  unfold enabled, handle. split; [reflexivity|].
  destruct (en (convert_slog_level l)); destruct (attr_loop cv (read_groups hp (h_groups h)) rec [] false) as [F a].
  - split; [split; [reflexivity|discriminate]|]. intros e [= <-]. repeat split.
  - split; [split; [congruence|discriminate]|]. discriminate.
Qed.

Lemma run_enabled cv wg name p : forall en hp st,
  Forall (fun o : out => fst o = match snd o with Some _ => true | None => false end) (run cv wg en name hp st p).
Proof.
  induction p as [|c r IH]; intros en hp st; [constructor|].
  destruct c as [par g|par a|i l m rec|en'|i l m rec]; cbn [run].
  - destruct (wg hp (nth par st (root name)) g) as [hp' h']. apply IH.
  - apply IH.
  - constructor; [|apply IH]. cbn [fst snd]. unfold enabled, handle.
    destruct (en (convert_slog_level l)); [|reflexivity].
    destruct (attr_loop cv (read_groups hp (h_groups (nth i st (root name)))) rec [] false). reflexivity.
  - apply IH.
  - constructor; [|apply IH]. cbn [fst snd]. rewrite logger_log_handle. unfold enabled, handle.
    destruct (en (convert_slog_level l)); [|reflexivity].
    destruct (attr_loop cv (read_groups hp (h_groups (nth i st (root name)))) rec [] false). reflexivity.
Qed.

(* wire *)
Theorem spec_model i : spec i (model i) = true.
Proof.
  unfold spec, model. destruct (dec_case i) as [[mask name] p].
  rewrite <- program_thm, map_map. apply sx_eqb_refl.
Qed.

(* ------------------------------------------------------------------ *)
(* 5b. the core's level moves while handlers exist                     *)
(* ------------------------------------------------------------------ *)
Lemma spec_run_app name p q : forall en paths,
  spec_run en name paths (p ++ q) =
  spec_run en name paths p ++ spec_run (cur_en en p) name (paths_after paths p) q.
Proof.
  induction p as [|c r IH]; intros en paths; [reflexivity|].
  destruct c as [par g|par a|i l m rec|en'|i l m rec]; cbn [app spec_run cur_en paths_after]; now rewrite IH.
Qed.

Lemma cur_en_app p q : forall en, cur_en en (p ++ q) = cur_en (cur_en en p) q.
Proof.
  induction p as [|c r IH]; intro en; [reflexivity|].
  destruct c; cbn [app cur_en]; apply IH.
Qed.
Lemma cur_en_fixed q : forall en, no_level_change q = true -> cur_en en q = en.
Proof.
  unfold no_level_change. induction q as [|c r IH]; intros en H; [reflexivity|].
  cbn [forallb] in H. apply andb_true_iff in H. destruct H as [Hc Hr].
  destruct c; try discriminate Hc; cbn [cur_en]; now apply IH.
Qed.
(* the enabler in force is the one set last, whatever was set before *)
Lemma cur_en_last en pre e q : no_level_change q = true -> cur_en en (pre ++ CEnabler e :: q) = e.
Proof. intro H. rewrite cur_en_app. cbn [cur_en]. now apply cur_en_fixed. Qed.

(* derivation sequences know nothing of the level moves *)
Definition strip_levels (p : list cmd) : list cmd :=
  filter (fun c => match c with CEnabler _ => false | _ => true end) p.
Lemma paths_after_strip p : forall paths, paths_after paths (strip_levels p) = paths_after paths p.
Proof.
  induction p as [|c r IH]; intro paths; [reflexivity|].
  destruct c; cbn [strip_levels filter paths_after]; apply IH.
Qed.

(* after ANY history (derivations before and after any number of level moves in either
   direction, any records already logged), a record is handled according to the enabler in
   force now, through Handle and through a slog.Logger alike *)
Theorem level_current en name pre i l m rec :
  let expect := spec_out (cur_en en pre) name (nth i (paths_after [[]] pre) []) l m rec in
  map observe (run_fixed en name (pre ++ [CHandle i l m rec])) = map observe (run_fixed en name pre) ++ [expect] /\
  map observe (run_fixed en name (pre ++ [CLog i l m rec])) = map observe (run_fixed en name pre) ++ [expect].
Proof.
  cbv zeta. rewrite !program_thm, !spec_run_app. split; reflexivity.
Qed.

Lemma spec_out_iff en name ops l m rec :
  fst (spec_out en name ops l m rec) = en (spec_level l) /\
  (snd (spec_out en name ops l m rec) <> None <-> en (spec_level l) = true).
Proof.
  unfold spec_out. cbn [fst snd]. split; [reflexivity|].
  destruct (en (spec_level l)); split; congruence.
Qed.

(* ... hence according to the LAST enabler set, and to nothing else of the level history:
   neither the enabler the root handler was built on ([en]) nor any enabler of [pre] occurs
   in what is expected, and the derivation sequence is that of the program without its level
   moves *)
Theorem level_current_only en name pre e q i l m rec :
  no_level_change q = true ->
  let hist := pre ++ CEnabler e :: q in
  let expect := spec_out e name (nth i (paths_after [[]] (strip_levels hist)) []) l m rec in
  (map observe (run_fixed en name (hist ++ [CHandle i l m rec])) = map observe (run_fixed en name hist) ++ [expect] /\
   map observe (run_fixed en name (hist ++ [CLog i l m rec])) = map observe (run_fixed en name hist) ++ [expect]) /\
  fst expect = e (convert_slog_level l) /\
  (snd expect <> None <-> e (convert_slog_level l) = true).
Proof.
  intro Hq. cbv zeta. rewrite paths_after_strip, level_spec.
  split; [|apply spec_out_iff].
  pose proof (level_current en name (pre ++ CEnabler e :: q) i l m rec) as H. cbv zeta in H.
  rewrite (cur_en_last en pre e q Hq) in H. exact H.
Qed.

(* the snapshot variant: Enabled keeps answering from the core's level at NewHandler time *)
Definition follows_level_snapshot : Prop :=
  forall en name p, map observe (run_snapshot en name p) = spec_run en name [[]] p.

Definition all_on (_ : Z) : bool := true.
Definition kx : bytes := [x78].   (* "x" *)
Definition kg : bytes := [x67].   (* "g" *)
Definition one : value := VScalar KInt64 [x31].
Definition vnull : value := VAny true (Leaf [x6e; x75; x6c; x6c]).

(* NewHandler on a core at error; WithGroup("g"); the core is lowered to debug;
   Handle and Log of x=1 at info on the derived handler *)
Definition snap_prog : list cmd :=
  [CGroup 0 kg; CEnabler all_on; CHandle 1 0 [] [(kx, one)]; CLog 1 0 [] [(kx, one)]].

Lemma snapshot_witness :
  map observe (run_snapshot (en_of_mask 8) [] snap_prog) =
    [(false, Some (0, [], [], [(kg, Node [(kx, Leaf [x31])])])); (false, None)] /\
  spec_run (en_of_mask 8) [] [[]] snap_prog =
    [(true, Some (0, [], [], [(kg, Node [(kx, Leaf [x31])])])); (true, Some (0, [], [], [(kg, Node [(kx, Leaf [x31])])]))] /\
  map observe (run_fixed (en_of_mask 8) [] snap_prog) = spec_run (en_of_mask 8) [] [[]] snap_prog.
Proof. repeat split; vm_compute; reflexivity. Qed.

Theorem snapshot_refuted : ~ follows_level_snapshot.
Proof.
  intro H. specialize (H (en_of_mask 8) [] snap_prog).
  destruct snapshot_witness as (E1 & E2 & _). rewrite E1, E2 in H. discriminate H.
Qed.

(* ... and it takes a level move to see it: on a core whose enabler never changes the
   snapshot variant and the code give the same outputs on every program (which is why a
   correspondence run over fixed-level cores cannot tell them apart) *)
Lemma enabled_snap_fixed en l : enabled_snap (level_of en) en l = enabled en l.
Proof.
  unfold enabled_snap, enabled. pose proof (level_range l) as R.
  remember (convert_slog_level l) as zl eqn:Hzl. clear Hzl.
  destruct (zl <? level_of en) eqn:E; [|reflexivity].
  apply Z.ltb_lt in E. unfold level_of in E.
  assert (C : zl = -1 \/ zl = 0 \/ zl = 1 \/ zl = 2) by lia.
  destruct C as [ -> | [ -> | [ -> | -> ] ] ];
    destruct (en (-1)), (en 0), (en 1), (en 2); cbv iota in E; try reflexivity; lia.
Qed.

Lemma run_snap_fixed en name p : forall hp st,
  no_level_change p = true ->
  run_snap (level_of en) en name hp st p = run convert with_group en name hp st p.
Proof.
  unfold no_level_change. induction p as [|c r IH]; intros hp st H; [reflexivity|].
  cbn [forallb] in H. apply andb_true_iff in H. destruct H as [Hc Hr].
  destruct c as [par g|par a|i l m rec|en'|i l m rec]; try discriminate Hc; cbn [run_snap run].
  - destruct (with_group hp (nth par st (root name)) g) as [hp' h']. now apply IH.
  - now apply IH.
  - rewrite enabled_snap_fixed, IH by exact Hr. reflexivity.
  - rewrite enabled_snap_fixed, IH by exact Hr. reflexivity.
Qed.

Theorem snapshot_same_at_fixed_level en name p :
  no_level_change p = true -> run_snapshot en name p = run_fixed en name p.
Proof. intro H. unfold run_snapshot, run_fixed. now apply run_snap_fixed. Qed.

(* ------------------------------------------------------------------ *)
(* 6. the code before the fix, and the aliasing variant                *)
(* ------------------------------------------------------------------ *)
Definition semantics_orig : Prop :=
  forall en name ops l m rec,
    map observe (run_orig en name (chain ops l m rec)) = [spec_out en name ops l m rec].

(* WithGroup("") then Handle(x=1): the code before the fix shows {"":{"x":1}} *)
Lemma withgroup_empty_refuted :
  map observe (run_orig all_on [] (chain [OGroup []] 0 [] [(kx, one)])) =
    [(true, Some (0, [], [], [([], Node [(kx, Leaf [x31])])]))] /\
  spec_out all_on [] [OGroup []] 0 [] [(kx, one)] = (true, Some (0, [], [], [(kx, Leaf [x31])])).
Proof. split; vm_compute; reflexivity. Qed.

(* WithAttrs(g = group with no attrs) then Handle(): {"g":{}} *)
Lemma empty_group_refuted :
  map observe (run_orig all_on [] (chain [OAttrs [(kg, VGroup [])]] 0 [] [])) =
    [(true, Some (0, [], [], [(kg, Node [])]))] /\
  spec_out all_on [] [OAttrs [(kg, VGroup [])]] 0 [] [] = (true, Some (0, [], [], [])).
Proof. split; vm_compute; reflexivity. Qed.

(* the same through a LogValuer inside a group of the record: {"x":{"g":{}}} *)
Lemma empty_group_logvaluer_refuted :
  map observe (run_orig all_on [] (chain [] 0 [] [(kx, VGroup [(kg, VLogValuer (VGroup []))])])) =
    [(true, Some (0, [], [], [(kx, Node [(kg, Node [])])]))] /\
  spec_out all_on [] [] 0 [] [(kx, VGroup [(kg, VLogValuer (VGroup []))])] = (true, Some (0, [], [], [])).
Proof. split; vm_compute; reflexivity. Qed.

(* WithGroup("g") then Handle(inline group holding only an empty Attr): {"g":{}} *)
Lemma inline_empties_refuted :
  map observe (run_orig all_on [] (chain [OGroup kg] 0 [] [([], VGroup [([], vnull)])])) =
    [(true, Some (0, [], [], [(kg, Node [])]))] /\
  spec_out all_on [] [OGroup kg] 0 [] [([], VGroup [([], vnull)])] = (true, Some (0, [], [], [])).
Proof. split; vm_compute; reflexivity. Qed.

Theorem semantics_orig_refuted : ~ semantics_orig.
Proof.
  intro H. specialize (H all_on [] [OGroup []] 0 [] [(kx, one)]).
  destruct withgroup_empty_refuted as [E1 E2]. rewrite E1, E2 in H. discriminate H.
Qed.

(* isolation is a fact about the slice copy: with append instead of make+copy, a sibling
   derived later overwrites the group name of an earlier one *)
Definition isolated_append : Prop :=
  forall en name p,
    map observe (run_append en name p) =
    flat_map (fun x : hitem => match x with (en', ops, l, m, rec) => map observe (run_append en' name (chain ops l m rec)) end)
             (handled_paths en [[]] p).

Definition ka : bytes := [x61].
Definition kb : bytes := [x62].
Definition kc : bytes := [x63].
Definition ky : bytes := [x79].
(* root -a-> 1 -b-> 2 -c-> 3 (len 3, cap 4); 3 -x-> 4 and 3 -y-> 5 share slot 3 *)
Definition alias_prog : list cmd :=
  [CGroup 0 ka; CGroup 1 kb; CGroup 2 kc; CGroup 3 kx; CGroup 3 ky; CHandle 4 0 [] [(kx, one)]].

Theorem isolated_append_refuted : ~ isolated_append.
Proof.
  intro H. specialize (H all_on [] alias_prog). vm_compute in H. discriminate H.
Qed.

(* the code (make + copy) on the same program: handler 4 still nests under a.b.c.x *)
Lemma alias_prog_fixed :
  map observe (run_fixed all_on [] alias_prog) =
  [(true, Some (0, [], [], [(ka, Node [(kb, Node [(kc, Node [(kx, Node [(kx, Leaf [x31])])])])])]))].
Proof. vm_compute. reflexivity. Qed.

(* ------------------------------------------------------------------ *)
(* 7. isolation on the raw entries, whatever the conversion function   *)
(*    (holds for the code before the fix as well): a handler is, up to *)
(*    heap addresses, a pure value determined by its own derivation    *)
(* ------------------------------------------------------------------ *)
Record qh := { q_ctx : list field; q_name : bytes; q_groups : list bytes }.
Definition abs (hp : heap) (h : handler) : qh :=
  {| q_ctx := h_ctx h; q_name := h_name h; q_groups := read_groups hp (h_groups h) |}.
Definition q_with_attrs (cv : bytes -> value -> field) (q : qh) (a : list attr) : qh :=
  let '(F, added) := attr_loop cv (q_groups q) a [] false in
  {| q_ctx := q_ctx q ++ F; q_name := q_name q; q_groups := if added then [] else q_groups q |}.
Definition q_with_group_orig (q : qh) (g : bytes) : qh :=
  {| q_ctx := q_ctx q; q_name := q_name q; q_groups := q_groups q ++ [g] |}.
Definition q_with_group (q : qh) (g : bytes) : qh := if is_nil g then q else q_with_group_orig q g.
Definition q_handle (cv : bytes -> value -> field) (en : Z -> bool) (q : qh) (l : Z) (m : bytes) (rec : list attr) : option entry :=
  let zl := convert_slog_level l in
  if en zl then
    let '(F, _) := attr_loop cv (q_groups q) rec [] false in
    Some {| e_level := zl; e_msg := m; e_name := q_name q; e_fields := q_ctx q ++ F |}
  else None.
Definition q_apply cv (qwg : qh -> bytes -> qh) (q : qh) (o : op) : qh :=
  match o with OGroup g => qwg q g | OAttrs a => q_with_attrs cv q a end.
Definition q_root (name : bytes) : qh := {| q_ctx := []; q_name := name; q_groups := [] |}.
Definition q_derive cv qwg (name : bytes) (ops : list op) : qh := fold_left (q_apply cv qwg) ops (q_root name).

Definition wg_ok (wg : heap -> handler -> bytes -> heap * handler) (qwg : qh -> bytes -> qh) : Prop :=
  forall hp h g, svalid hp (h_groups h) ->
    let '(hp', h') := wg hp h g in
    (exists ext, hp' = hp ++ ext) /\ svalid hp' (h_groups h') /\ abs hp' h' = qwg (abs hp h) g.

Lemma wg_ok_orig : wg_ok with_group_orig q_with_group_orig.
Proof.
  intros hp h g Hv. pose proof (with_group_orig_read hp h g) as H.
  destruct (with_group_orig hp h g) as [hp' h']. destruct H as (Ehp & Er & Hv' & Ectx & Ename).
  split; [eexists; exact Ehp|]. split; [exact Hv'|].
  unfold abs, q_with_group_orig. cbn [q_ctx q_name q_groups]. now rewrite Er, Ectx, Ename.
Qed.
Lemma wg_ok_fixed : wg_ok with_group q_with_group.
Proof.
  intros hp h g Hv. unfold with_group, q_with_group. destruct (is_nil g).
  - split; [exists []; now rewrite app_nil_r|]. split; [exact Hv|reflexivity].
  - apply wg_ok_orig. exact Hv.
Qed.

Lemma abs_with_attrs cv hp h a : abs hp (with_attrs cv hp h a) = q_with_attrs cv (abs hp h) a.
Proof.
  unfold with_attrs, q_with_attrs, abs. cbn [q_groups q_ctx q_name].
  destruct (attr_loop cv (read_groups hp (h_groups h)) a [] false) as [F added].
  cbn [h_ctx h_name h_groups]. destruct added; reflexivity.
Qed.
Lemma svalid_with_attrs cv hp h a : svalid hp (h_groups h) -> svalid hp (h_groups (with_attrs cv hp h a)).
Proof.
  intro Hv. unfold with_attrs.
  destruct (attr_loop cv (read_groups hp (h_groups h)) a [] false) as [F added].
  cbn [h_groups]. destruct added; [exact I|exact Hv].
Qed.
Lemma handle_abs cv en hp h l m rec : handle cv en hp h l m rec = q_handle cv en (abs hp h) l m rec.
Proof. reflexivity. Qed.
Lemma abs_ext hp ext h : svalid hp (h_groups h) -> abs (hp ++ ext) h = abs hp h.
Proof. intro Hv. unfold abs. now rewrite read_groups_ext. Qed.

Section raw_isolation.
  Variable cv : bytes -> value -> field.
  Variable wg : heap -> handler -> bytes -> heap * handler.
  Variable qwg : qh -> bytes -> qh.
  Hypothesis Hwg : wg_ok wg qwg.
  Variable name : bytes.

  Definition qinv (hp : heap) (h : handler) (ops : list op) : Prop :=
    svalid hp (h_groups h) /\ abs hp h = q_derive cv qwg name ops.
  Definition q_out (x : hitem) : out :=
    match x with (en, ops, l, m, rec) => (enabled en l, q_handle cv en (q_derive cv qwg name ops) l m rec) end.

  Lemma qinv_root hp : qinv hp (root name) [].
  Proof. split; [exact I|reflexivity]. Qed.
  Lemma qinv_ext hp ext h ops : qinv hp h ops -> qinv (hp ++ ext) h ops.
  Proof. intros [Hv Ha]. split; [now apply svalid_ext|]. now rewrite abs_ext. Qed.
  Lemma qinv_nth hp st paths i :
    Forall2 (qinv hp) st paths -> qinv hp (nth i st (root name)) (nth i paths []).
  Proof.
    intro H. revert i. induction H as [|h ops st paths Hh _ IH]; intro i.
    - destruct i; apply qinv_root.
    - destruct i; [exact Hh|apply IH].
  Qed.
  Lemma q_derive_snoc ops o : q_derive cv qwg name (ops ++ [o]) = q_apply cv qwg (q_derive cv qwg name ops) o.
  Proof. unfold q_derive. now rewrite fold_left_app. Qed.

  Lemma run_raw p : forall en hp st paths,
    Forall2 (qinv hp) st paths ->
    run cv wg en name hp st p = map q_out (handled_paths en paths p).
  Proof.
    induction p as [|c r IH]; intros en hp st paths HW; [reflexivity|].
    destruct c as [par g|par a|i l m rec|en'|i l m rec]; cbn [run handled_paths].
    - destruct (qinv_nth _ _ _ par HW) as [Hv Ha].
      pose proof (Hwg hp (nth par st (root name)) g Hv) as H.
      destruct (wg hp (nth par st (root name)) g) as [hp' h'].
      destruct H as ([ext ->] & Hv' & Ha'). apply IH.
      apply Forall2_app.
      + clear -HW. induction HW; constructor; [now apply qinv_ext|assumption].
      + constructor; [|constructor]. split; [exact Hv'|].
        rewrite Ha', Ha, q_derive_snoc. reflexivity.
    - destruct (qinv_nth _ _ _ par HW) as [Hv Ha]. apply IH.
      apply Forall2_app; [exact HW|]. constructor; [|constructor].
      split; [now apply svalid_with_attrs|].
      rewrite abs_with_attrs, Ha, q_derive_snoc. reflexivity.
    - cbn [map]. rewrite (IH en hp st paths HW). f_equal.
      destruct (qinv_nth _ _ _ i HW) as [Hv Ha].
      unfold q_out. now rewrite handle_abs, Ha.
    - apply IH. exact HW.
    - cbn [map]. rewrite (IH en hp st paths HW). f_equal.
      destruct (qinv_nth _ _ _ i HW) as [Hv Ha].
      unfold q_out. now rewrite logger_log_handle, handle_abs, Ha.
  Qed.

  Lemma handled_paths_chain en l m rec ops : forall paths base i,
    length paths = S i -> nth i paths [] = base ->
    handled_paths en paths (chain_from i ops ++ [CHandle (i + length ops) l m rec]) = [(en, base ++ ops, l, m, rec)].
  Proof.
    induction ops as [|o r IH]; intros paths base i HL HB.
    - cbn [chain_from app length handled_paths]. rewrite Nat.add_0_r, HB, app_nil_r. reflexivity.
    - assert (HL' : length (paths ++ [base ++ [o]]) = S (S i)) by (rewrite app_length; cbn; lia).
      assert (HB' : nth (S i) (paths ++ [base ++ [o]]) [] = base ++ [o])
        by (rewrite app_nth2 by lia; rewrite HL, Nat.sub_diag; reflexivity).
      specialize (IH _ _ _ HL' HB').
      replace (i + length (o :: r))%nat with (S i + length r)%nat by (cbn; lia).
      rewrite <- app_assoc in IH. cbn [app] in IH.
      destruct o as [g|a]; cbn [chain_from app handled_paths]; rewrite HB; exact IH.
  Qed.

  Theorem isolated_raw en p :
    run cv wg en name [] [root name] p =
    flat_map (fun x : hitem => match x with (en', ops, l, m, rec) => run cv wg en' name [] [root name] (chain ops l m rec) end)
             (handled_paths en [[]] p).
  Proof.
    assert (H0 : Forall2 (qinv []) [root name] [[]]) by (constructor; [apply qinv_root|constructor]).
    rewrite (run_raw p _ _ _ _ H0).
    induction (handled_paths en [[]] p) as [|[[[[en' ops] l] m] rec] r IH]; [reflexivity|].
    cbn [map flat_map]. rewrite IH. f_equal.
    rewrite (run_raw (chain ops l m rec) _ _ _ _ H0). unfold chain.
    pose proof (handled_paths_chain en' l m rec ops [[]] [] 0%nat eq_refl eq_refl) as HC.
    cbn [Nat.add app] in HC. rewrite HC. reflexivity.
  Qed.
End raw_isolation.

Theorem isolated_raw_fixed en name p :
  run_fixed en name p =
  flat_map (fun x : hitem => match x with (en', ops, l, m, rec) => run_fixed en' name (chain ops l m rec) end)
           (handled_paths en [[]] p).
Proof. exact (isolated_raw convert with_group q_with_group wg_ok_fixed name en p). Qed.
Theorem isolated_raw_orig en name p :
  run_orig en name p =
  flat_map (fun x : hitem => match x with (en', ops, l, m, rec) => run_orig en' name (chain ops l m rec) end)
           (handled_paths en [[]] p).
Proof. exact (isolated_raw convert_orig with_group_orig q_with_group_orig wg_ok_orig name en p). Qed.

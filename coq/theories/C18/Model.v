(* C18 -- model of exp/zapslog/handler.go (+ options.go: WithName), following the Go text:

     convertAttrToField  ->  [convert]        (fixed code)   /  [convert_orig]     (code before the fix)
     convertSlogLevel    ->  [convert_slog_level]
     Handler.Handle / WithAttrs loop  ->  [attr_loop]  (deferred namespace emission on the first field <> Skip)
     appendGroups        ->  [map FNamespace groups]
     WithAttrs           ->  [with_attrs]
     WithGroup           ->  [with_group]     (fixed code)   /  [with_group_orig]  (code before the fix)
     Enabled / Handle    ->  [enabled] / [handle]
     slog.Logger.LogAttrs ->  [logger_log]     (the front end: Handle is called only when Enabled says so)

   The core's LevelEnabler may CHANGE while handlers exist (zap.AtomicLevel.SetLevel, a
   dynamic LevelEnablerFunc): the current enabler is part of the state threaded through a
   program ([CEnabler]), it belongs to the core and not to the handler: the [handler] record
   has no level component and [with_attrs] / [with_group] do not see the enabler, as in the
   code (Handler has no level field; Enabled and Handle ask h.core each time).
   [run_snap] is the variant (NOT the code) in which NewHandler caches the core's minimum
   level and Enabled consults the cache first; kept to show that the model can express a
   handler that does not follow the core's level.

   Handler.groups is a Go slice: it is modelled with an explicit heap of backing arrays
   ([heap], [gslice]) so that "deriving a handler never affects its parent or siblings" is a
   statement about aliasing and not a triviality of a pure model; [with_group_append] is the
   aliasing variant (newGroups := append(h.groups, group)) kept to show that the model can
   express the failure.

   The zap core is modelled by what the handler hands to it: the fields accumulated by
   core.With (a flat list: ioCore.With adds them to a cloned encoder, namespaces stay open)
   followed by the fields of Write, and a LevelEnabler [en : Z -> bool].  The field list is
   interpreted by [denote] (a namespace nests everything after it; an object closes its own
   namespaces) into an ordered tree; that is what the JSON core of the harness shows.

   Standard library = oracle: the JSON text of every scalar / the JSON tree of every KindAny
   value travels with the case; slog.Value construction (GroupValue dropping empty groups,
   Record.AddAttrs dropping empty groups) has already happened when the case is read back
   from the slog values; Value.Resolve = strip the LogValuer layers (chains shorter than
   slog's limit of 100, LogValue does not panic).

   No proofs in this file. *)
From Coq Require Import List ZArith Bool Lia.
From Coq.Strings Require Import Byte.
Import ListNotations.
From Zap Require Import Base.Wire.
Local Open Scope Z_scope.

Definition is_nil {A} (l : list A) : bool := match l with [] => true | _ => false end.

(* ------------------------------------------------------------------ *)
(* slog values, as the handler receives them                           *)
(* ------------------------------------------------------------------ *)
Inductive kind := KBool | KDuration | KFloat64 | KInt64 | KString | KTime | KUint64.

(* ordered JSON-like trees; duplicates kept.  A leaf carries canonical JSON text. *)
Inductive tree := Leaf (txt : bytes) | Node (kvs : list (bytes * tree)).
Definition otree := list (bytes * tree).

Inductive value :=
| VScalar (k : kind) (txt : bytes)          (* Kind() in Bool..Uint64; txt = oracle: its JSON text *)
| VAny (isnil : bool) (t : tree)            (* KindAny; isnil <-> Value.Any() == nil (the zero Value); t = oracle: what zap.Any encodes *)
| VGroup (l : list (bytes * value))         (* KindGroup: Value.Group() *)
| VLogValuer (v : value).                   (* KindLogValuer; v = what LogValue() returns WHEN THIS USE resolves it *)
Definition attr := (bytes * value)%type.

(* ------------------------------------------------------------------ *)
(* zap fields, as handed to the core                                   *)
(* ------------------------------------------------------------------ *)
Inductive ztype := ZBool | ZDuration | ZFloat64 | ZInt64 | ZString | ZTime | ZUint64.
Inductive field :=
| FSkip
| FNamespace (k : bytes)
| FScalar (t : ztype) (k : bytes) (txt : bytes)
| FAny (k : bytes) (t : tree)               (* zap.Any(key, v) *)
| FObject (k : bytes) (fs : list field)     (* zap.Object(key, groupObject) : the fields its MarshalLogObject adds *)
| FInline (fs : list field).                (* zap.Inline(groupObject) *)

Definition is_skip (f : field) : bool := match f with FSkip => true | _ => false end.

(* attr.Equal(slog.Attr{}) : empty key and the zero Value *)
Definition is_empty_attr (k : bytes) (v : value) : bool :=
  is_nil k && match v with VAny true _ => true | _ => false end.

Definition ztype_of (k : kind) : ztype :=
  match k with
  | KBool => ZBool | KDuration => ZDuration | KFloat64 => ZFloat64 | KInt64 => ZInt64
  | KString => ZString | KTime => ZTime | KUint64 => ZUint64
  end.

(* convertAttrToField BEFORE the fix (kept as documentation; see C18_*_refuted).
   groupObject(attrs).MarshalLogObject converts each attr at encoding time; the conversion
   is pure, so the model performs it when the field is built (same function, same order).
   KindLogValuer: the code calls Resolve() (strips every LogValuer layer) and recurses; the
   model recurses once per layer, which is the same function (lemma convert_resolve). *)
Fixpoint convert_orig (k : bytes) (v : value) : field :=
  if is_empty_attr k v then FSkip else
  match v with
  | VScalar kd txt => FScalar (ztype_of kd) k txt
  | VGroup l =>
      let fs := (fix go (l : list (bytes * value)) : list field :=
                   match l with [] => [] | (k', v') :: r => convert_orig k' v' :: go r end) l in
      if is_nil k then FInline fs else FObject k fs
  | VLogValuer v' => convert_orig k v'
  | VAny _ t => FAny k t
  end.

(* convertAttrToField AFTER the fix: convertGroup converts the attrs of a group eagerly and
   drops the Skip fields; a group left without fields is itself Skip. *)
Fixpoint convert (k : bytes) (v : value) : field :=
  if is_empty_attr k v then FSkip else
  match v with
  | VScalar kd txt => FScalar (ztype_of kd) k txt
  | VGroup l =>
      let fs := (fix go (l : list (bytes * value)) : list field :=
                   match l with
                   | [] => []
                   | (k', v') :: r => let f := convert k' v' in if is_skip f then go r else f :: go r
                   end) l in
      if is_nil fs then FSkip else
      if is_nil k then FInline fs else FObject k fs
  | VLogValuer v' => convert k v'
  | VAny _ t => FAny k t
  end.

(* convertSlogLevel: switch { case l >= LevelError(8); case l >= LevelWarn(4); case l >= LevelInfo(0); default } *)
Definition convert_slog_level (l : Z) : Z :=
  if 8 <=? l then 2 else if 4 <=? l then 1 else if 0 <=? l then 0 else -1.

(* ------------------------------------------------------------------ *)
(* Handler                                                             *)
(* ------------------------------------------------------------------ *)
Definition heap := list (list bytes).              (* backing arrays of []string; cap = length *)
Definition gslice := option (nat * nat).           (* nil | (array, len) *)
Definition read_groups (hp : heap) (s : gslice) : list bytes :=
  match s with None => [] | Some (a, n) => firstn n (nth a hp []) end.

Record handler := { h_ctx : list field;           (* fields given to core.With so far *)
                    h_name : bytes;
                    h_groups : gslice }.

(* the loop shared by Handle (record.Attrs) and WithAttrs:
     f := convertAttrToField(attr)
     if !addedNamespace && len(h.groups) > 0 && f != zap.Skip() { fields = h.appendGroups(fields); addedNamespace = true }
     fields = append(fields, f) *)
Fixpoint attr_loop (cv : bytes -> value -> field) (gs : list bytes) (attrs : list attr)
         (fields : list field) (added : bool) : list field * bool :=
  match attrs with
  | [] => (fields, added)
  | (k, v) :: r =>
      let f := cv k v in
      if negb added && negb (is_nil gs) && negb (is_skip f)
      then attr_loop cv gs r ((fields ++ map FNamespace gs) ++ [f]) true
      else attr_loop cv gs r (fields ++ [f]) added
  end.

Definition with_attrs (cv : bytes -> value -> field) (hp : heap) (h : handler) (attrs : list attr) : handler :=
  let '(fields, added) := attr_loop cv (read_groups hp (h_groups h)) attrs [] false in
  {| h_ctx := h_ctx h ++ fields;                  (* cloned.core = h.core.With(fields) *)
     h_name := h_name h;
     h_groups := if added then None else h_groups h |}.

Fixpoint set_nth {A} (n : nat) (l : list A) (x : A) : list A :=
  match l, n with
  | [], _ => []
  | _ :: r, O => x :: r
  | y :: r, S n' => y :: set_nth n' r x
  end.
(* copy(dst, src) *)
Definition go_copy {A} (dst src : list A) : list A :=
  firstn (length dst) src ++ skipn (length src) dst.

(* WithGroup BEFORE the fix: make(len+1); copy; newGroups[len] = group -- whatever the name *)
Definition with_group_orig (hp : heap) (h : handler) (name : bytes) : heap * handler :=
  let old := read_groups hp (h_groups h) in
  let n := length old in
  let arr := set_nth n (go_copy (repeat [] (S n)) old) name in
  (hp ++ [arr], {| h_ctx := h_ctx h; h_name := h_name h; h_groups := Some (length hp, S n) |}).

(* WithGroup AFTER the fix: if group == "" { return h } *)
Definition with_group (hp : heap) (h : handler) (name : bytes) : heap * handler :=
  if is_nil name then (hp, h) else with_group_orig hp h name.

(* aliasing variant (NOT the code): newGroups := append(h.groups, group) *)
Definition with_group_append (hp : heap) (h : handler) (name : bytes) : heap * handler :=
  match h_groups h with
  | None => (hp ++ [[name]], {| h_ctx := h_ctx h; h_name := h_name h; h_groups := Some (length hp, 1%nat) |})
  | Some (a, n) =>
      let arr := nth a hp [] in
      if Nat.ltb n (length arr)
      then (firstn a hp ++ [set_nth n arr name] ++ skipn (S a) hp,   (* written in place *)
            {| h_ctx := h_ctx h; h_name := h_name h; h_groups := Some (a, S n) |})
      else (hp ++ [firstn n arr ++ name :: repeat [] (Nat.pred n)],  (* grown: cap doubles *)
            {| h_ctx := h_ctx h; h_name := h_name h; h_groups := Some (length hp, S n) |})
  end.

Record entry := { e_level : Z; e_msg : bytes; e_name : bytes; e_fields : list field }.

(* Enabled: h.core.Enabled(convertSlogLevel(level)) *)
Definition enabled (en : Z -> bool) (level : Z) : bool := en (convert_slog_level level).

(* Handle: ce := core.Check(ent, nil) (ioCore: non-nil iff Enabled(ent.Level)); fields loop; ce.Write(fields...)
   [en] is the core's enabler AT THE TIME OF THE CALL *)
Definition handle (cv : bytes -> value -> field) (en : Z -> bool) (hp : heap) (h : handler)
           (level : Z) (msg : bytes) (rec : list attr) : option entry :=
  let zl := convert_slog_level level in
  if en zl then
    let '(fields, _) := attr_loop cv (read_groups hp (h_groups h)) rec [] false in
    Some {| e_level := zl; e_msg := msg; e_name := h_name h; e_fields := h_ctx h ++ fields |}
  else None.

(* slog.Logger.LogAttrs(ctx, level, msg, attrs...):
     if !l.Enabled(ctx, level) { return } ; r := NewRecord(...); r.AddAttrs(attrs...); l.Handler().Handle(ctx, r) *)
Definition logger_log (cv : bytes -> value -> field) (en : Z -> bool) (hp : heap) (h : handler)
           (level : Z) (msg : bytes) (rec : list attr) : option entry :=
  if enabled en level then handle cv en hp h level msg rec else None.

(* ------------------------------------------------------------------ *)
(* Programs: any derivation tree, any interleaving, any level moves    *)
(* ------------------------------------------------------------------ *)
(* handler 0 is NewHandler(core, WithName(name)); every CGroup/CAttrs creates the next id.
   CEnabler: the LevelEnabler of the core (shared by every core derived with With) now
   answers [en] -- AtomicLevel.SetLevel in either direction, or any other dynamic enabler.
   CLog: the record goes through slog.New(handlers[h]).LogAttrs instead of Handle directly. *)
Inductive cmd :=
| CGroup (parent : nat) (name : bytes)
| CAttrs (parent : nat) (attrs : list attr)
| CHandle (h : nat) (level : Z) (msg : bytes) (rec : list attr)
| CEnabler (en : Z -> bool)
| CLog (h : nat) (level : Z) (msg : bytes) (rec : list attr).

Definition out := (bool * option entry)%type.     (* Enabled(level), what Handle(record) gave the core *)

Definition root (name : bytes) : handler := {| h_ctx := []; h_name := name; h_groups := None |}.

Fixpoint run (cv : bytes -> value -> field) (wg : heap -> handler -> bytes -> heap * handler)
         (en : Z -> bool) (name : bytes) (hp : heap) (st : list handler) (p : list cmd) : list out :=
  match p with
  | [] => []
  | CGroup par g :: r =>
      let '(hp', h') := wg hp (nth par st (root name)) g in run cv wg en name hp' (st ++ [h']) r
  | CAttrs par a :: r =>
      run cv wg en name hp (st ++ [with_attrs cv hp (nth par st (root name)) a]) r
  | CHandle i l m rec :: r =>
      let h := nth i st (root name) in
      (enabled en l, handle cv en hp h l m rec) :: run cv wg en name hp st r
  | CEnabler en' :: r => run cv wg en' name hp st r
  | CLog i l m rec :: r =>
      let h := nth i st (root name) in
      (enabled en l, logger_log cv en hp h l m rec) :: run cv wg en name hp st r
  end.

Definition run_fixed en name p := run convert with_group en name [] [root name] p.
Definition run_orig en name p := run convert_orig with_group_orig en name [] [root name] p.
Definition run_append en name p := run convert with_group_append en name [] [root name] p.

(* snapshot variant (NOT the code): NewHandler stores minLevel := zapcore.LevelOf(core), every
   derivation copies it (cloned := *h), and Enabled answers false below it before asking the
   core.  LevelOf = the lowest enabled level (6 = InvalidLevel when the four mapped levels
   are all disabled: above every mapped level). *)
Definition level_of (en : Z -> bool) : Z :=
  if en (-1) then -1 else if en 0 then 0 else if en 1 then 1 else if en 2 then 2 else 6.
Definition enabled_snap (snap : Z) (en : Z -> bool) (level : Z) : bool :=
  let zl := convert_slog_level level in
  if zl <? snap then false else en zl.
Fixpoint run_snap (snap : Z) (en : Z -> bool) (name : bytes) (hp : heap) (st : list handler) (p : list cmd) : list out :=
  match p with
  | [] => []
  | CGroup par g :: r =>
      let '(hp', h') := with_group hp (nth par st (root name)) g in run_snap snap en name hp' (st ++ [h']) r
  | CAttrs par a :: r =>
      run_snap snap en name hp (st ++ [with_attrs convert hp (nth par st (root name)) a]) r
  | CHandle i l m rec :: r =>
      let h := nth i st (root name) in
      (enabled_snap snap en l, handle convert en hp h l m rec) :: run_snap snap en name hp st r
  | CEnabler en' :: r => run_snap snap en' name hp st r
  | CLog i l m rec :: r =>
      let h := nth i st (root name) in
      (enabled_snap snap en l, if enabled_snap snap en l then handle convert en hp h l m rec else None)
        :: run_snap snap en name hp st r
  end.
Definition run_snapshot en name p := run_snap (level_of en) en name [] [root name] p.

(* ------------------------------------------------------------------ *)
(* Interpretation of a field list (independent nesting semantics)      *)
(* ------------------------------------------------------------------ *)
(* [denote_f f tail] : the members contributed by f when [tail] is what everything after f
   contributes at the same level *)
Fixpoint denote_f (f : field) (tail : otree) : otree :=
  match f with
  | FSkip => tail
  | FNamespace k => [(k, Node tail)]
  | FScalar _ k txt => (k, Leaf txt) :: tail
  | FAny k t => (k, t) :: tail
  | FObject k fs =>
      (k, Node ((fix go (fs : list field) : otree :=
                   match fs with [] => [] | f' :: r => denote_f f' (go r) end) fs)) :: tail
  | FInline fs =>
      (fix go (fs : list field) : otree :=
         match fs with [] => tail | f' :: r => denote_f f' (go r) end) fs
  end.
Definition denote (fs : list field) : otree := fold_right denote_f [] fs.

(* ------------------------------------------------------------------ *)
(* Specification: the slog.Handler contract, written on trees          *)
(* ------------------------------------------------------------------ *)
(* "Attr's values should be resolved": first stage, everywhere in the tree *)
Inductive rvalue :=
| RScalar (txt : bytes)
| RAny (isnil : bool) (t : tree)
| RGroup (l : list (bytes * rvalue)).

Fixpoint resolve_all (v : value) : rvalue :=
  match v with
  | VScalar _ txt => RScalar txt
  | VAny b t => RAny b t
  | VGroup l => RGroup ((fix go (l : list (bytes * value)) : list (bytes * rvalue) :=
                           match l with [] => [] | (k, v') :: r => (k, resolve_all v') :: go r end) l)
  | VLogValuer v' => resolve_all v'
  end.

(* - an Attr whose key and value are both zero is ignored
   - a group with an empty key is inlined
   - a group that has no Attrs (nothing to show) is ignored, even with a non-empty key *)
Fixpoint rattr_sem (k : bytes) (v : rvalue) : otree :=
  match v with
  | RScalar txt => [(k, Leaf txt)]
  | RAny isnil t => if is_nil k && isnil then [] else [(k, t)]
  | RGroup l =>
      let c := (fix go (l : list (bytes * rvalue)) : otree :=
                  match l with [] => [] | (k', v') :: r => rattr_sem k' v' ++ go r end) l in
      if is_nil c then [] else if is_nil k then c else [(k, Node c)]
  end.
Definition attr_sem (a : attr) : otree := rattr_sem (fst a) (resolve_all (snd a)).
Definition attrs_sem (l : list attr) : otree := flat_map attr_sem l.

(* a handler = the derivation sequence that made it *)
Inductive op := OGroup (name : bytes) | OAttrs (attrs : list attr).

(* - WithAttrs: the attrs come before whatever follows, at the current nesting
   - WithGroup(name): everything that follows is qualified by name; an empty name opens
     nothing; a group in which nothing appears is not shown *)
Fixpoint spec_sem (ops : list op) (rec : list attr) : otree :=
  match ops with
  | [] => attrs_sem rec
  | OAttrs a :: r => attrs_sem a ++ spec_sem r rec
  | OGroup n :: r =>
      let c := spec_sem r rec in
      if is_nil n then c else if is_nil c then [] else [(n, Node c)]
  end.

(* Debug below Info(0); Info up to Warn(4); Warn up to Error(8); Error from 8 *)
Definition spec_level (l : Z) : Z :=
  if l <? 0 then -1 else if l <? 4 then 0 else if l <? 8 then 1 else 2.

(* what one Handle must show *)
Definition sout := (bool * option (Z * bytes * bytes * otree))%type.
Definition spec_out (en : Z -> bool) (name : bytes) (ops : list op) (l : Z) (m : bytes) (rec : list attr) : sout :=
  let zl := spec_level l in
  (en zl, if en zl then Some (zl, m, name, spec_sem ops rec) else None).

(* the derivation sequence of every handler of a program, then the expected outputs.
   The only thing remembered about a handler is its derivation sequence; the enabler asked
   is the one in force when the record is logged ("a record is handled if and only if the
   core enables the mapped level"), whether the record arrives through Handle or through a
   slog.Logger *)
Fixpoint spec_run (en : Z -> bool) (name : bytes) (paths : list (list op)) (p : list cmd) : list sout :=
  match p with
  | [] => []
  | CGroup par g :: r => spec_run en name (paths ++ [nth par paths [] ++ [OGroup g]]) r
  | CAttrs par a :: r => spec_run en name (paths ++ [nth par paths [] ++ [OAttrs a]]) r
  | CHandle i l m rec :: r => spec_out en name (nth i paths []) l m rec :: spec_run en name paths r
  | CEnabler en' :: r => spec_run en' name paths r
  | CLog i l m rec :: r => spec_out en name (nth i paths []) l m rec :: spec_run en name paths r
  end.

(* projection of the model's output onto the observable *)
Definition observe (o : out) : sout :=
  (fst o, match snd o with
          | Some e => Some (e_level e, e_msg e, e_name e, denote (e_fields e))
          | None => None
          end).

(* the linear program of one handler: derive op after op, then Handle *)
Fixpoint chain_from (i : nat) (ops : list op) : list cmd :=
  match ops with
  | [] => []
  | OGroup g :: r => CGroup i g :: chain_from (S i) r
  | OAttrs a :: r => CAttrs i a :: chain_from (S i) r
  end.
Definition chain (ops : list op) (l : Z) (m : bytes) (rec : list attr) : list cmd :=
  chain_from 0 ops ++ [CHandle (length ops) l m rec].

(* (enabler in force, path, level, msg, record) of every Handle / Log of a program *)
Definition hitem := ((Z -> bool) * list op * Z * bytes * list attr)%type.
Fixpoint handled_paths (en : Z -> bool) (paths : list (list op)) (p : list cmd) : list hitem :=
  match p with
  | [] => []
  | CGroup par g :: r => handled_paths en (paths ++ [nth par paths [] ++ [OGroup g]]) r
  | CAttrs par a :: r => handled_paths en (paths ++ [nth par paths [] ++ [OAttrs a]]) r
  | CHandle i l m rec :: r => (en, nth i paths [], l, m, rec) :: handled_paths en paths r
  | CEnabler en' :: r => handled_paths en' paths r
  | CLog i l m rec :: r => (en, nth i paths [], l, m, rec) :: handled_paths en paths r
  end.

(* the state a program leaves behind: the enabler in force and the derivation sequences *)
Fixpoint cur_en (en : Z -> bool) (p : list cmd) : Z -> bool :=
  match p with
  | [] => en
  | CEnabler en' :: r => cur_en en' r
  | _ :: r => cur_en en r
  end.
Fixpoint paths_after (paths : list (list op)) (p : list cmd) : list (list op) :=
  match p with
  | [] => paths
  | CGroup par g :: r => paths_after (paths ++ [nth par paths [] ++ [OGroup g]]) r
  | CAttrs par a :: r => paths_after (paths ++ [nth par paths [] ++ [OAttrs a]]) r
  | _ :: r => paths_after paths r
  end.
Definition no_level_change (p : list cmd) : bool :=
  forallb (fun c => match c with CEnabler _ => false | _ => true end) p.

(* ------------------------------------------------------------------ *)
(* Wire                                                                *)
(* ------------------------------------------------------------------ *)
(* case   = (mask #name (cmd ...) [enabler-kind])     enabler-kind: how the harness realises the
                                                       dynamic enabler (not seen by the model)
   cmd    = (0 parent #group) | (1 parent (attr ...)) | (2 handler level #msg (attr ...))
          | (3 mask)                                   the core's enabler becomes [mask]
          | (4 handler level #msg (attr ...))          through slog.Logger
   attr   = (#key value)
   value  = (0 kind #txt) | (1 isnil tree) | (2 (attr ...)) | (3 value [id k])
            (3 v id k): LogValuer number id of the program, whose LogValue() answers differently at
            each call; v = what its k-th call returns.  A LogValuer is a function of the resolution
            count: every conversion resolves afresh, so the attrs of each command carry the values
            of the resolutions made during THAT command (the same caller-owned attribute used in
            several commands appears with k increasing); id and k are not read by the model
   tree   = #leaftext | ((#key tree) ...)
   mask   : bit (l+1) set <-> the core enables zap level l  (l in -1..2)
   observation = (out ...) one per Handle / Log, out = (enabled 1 zaplevel #msg #logger tree) | (enabled 0) *)
Fixpoint dec_tree (s : sx) : tree :=
  match s with
  | SB b => Leaf b
  | SZ _ => Leaf []
  | SL l => Node ((fix go (l : list sx) : otree :=
                     match l with
                     | [] => []
                     | SL (SB k :: t :: _) :: r => (k, dec_tree t) :: go r
                     | _ :: r => go r
                     end) l)
  end.

Definition dec_kind (z : Z) : kind :=
  match z with
  | 0 => KBool | 1 => KDuration | 2 => KFloat64 | 3 => KInt64 | 4 => KString | 5 => KTime | _ => KUint64
  end.

Fixpoint dec_value (s : sx) : value :=
  match s with
  | SL (SZ 0 :: SZ kd :: SB txt :: _) => VScalar (dec_kind kd) txt
  | SL (SZ 1 :: SZ b :: t :: _) => VAny (negb (Z.eqb b 0)) (dec_tree t)
  | SL (SZ 2 :: SL l :: _) =>
      VGroup ((fix go (l : list sx) : list (bytes * value) :=
                 match l with
                 | [] => []
                 | SL (SB k :: v :: _) :: r => (k, dec_value v) :: go r
                 | _ :: r => go r
                 end) l)
  | SL (SZ 3 :: v :: _) => VLogValuer (dec_value v)
  | _ => VAny true (Leaf [])
  end.

Definition dec_attr (s : sx) : attr := (sx_b (sx_nth s 0), dec_value (sx_nth s 1)).
Definition dec_attrs (s : sx) : list attr := map dec_attr (sx_l s).

Definition en_of_mask (m : Z) (l : Z) : bool := Z.testbit m (l + 1).

Definition dec_cmd (s : sx) : cmd :=
  match sx_z (sx_nth s 0) with
  | 0 => CGroup (sx_n (sx_nth s 1)) (sx_b (sx_nth s 2))
  | 1 => CAttrs (sx_n (sx_nth s 1)) (dec_attrs (sx_nth s 2))
  | 3 => CEnabler (en_of_mask (sx_z (sx_nth s 1)))
  | 4 => CLog (sx_n (sx_nth s 1)) (sx_z (sx_nth s 2)) (sx_b (sx_nth s 3)) (dec_attrs (sx_nth s 4))
  | _ => CHandle (sx_n (sx_nth s 1)) (sx_z (sx_nth s 2)) (sx_b (sx_nth s 3)) (dec_attrs (sx_nth s 4))
  end.

Definition dec_case (i : sx) : Z * bytes * list cmd :=
  (sx_z (sx_nth i 0), sx_b (sx_nth i 1), map dec_cmd (sx_l (sx_nth i 2))).

Fixpoint enc_tree (t : tree) : sx :=
  match t with
  | Leaf b => SB b
  | Node kvs => SL ((fix go (l : otree) : list sx :=
                       match l with [] => [] | (k, t') :: r => SL [SB k; enc_tree t'] :: go r end) kvs)
  end.

Definition enc_sout (o : sout) : sx :=
  match snd o with
  | Some (zl, m, n, t) => SL [of_bool (fst o); SZ 1; SZ zl; SB m; SB n; enc_tree (Node t)]
  | None => SL [of_bool (fst o); SZ 0]
  end.

Definition model (i : sx) : sx :=
  let '(mask, name, p) := dec_case i in
  SL (map (fun o => enc_sout (observe o)) (run_fixed (en_of_mask mask) name p)).

(* the oracle: independent of the handler model (no fields, no pending groups, no heap) *)
Definition spec (i o : sx) : bool :=
  let '(mask, name, p) := dec_case i in
  sx_eqb o (SL (map enc_sout (spec_run (en_of_mask mask) name [[]] p))).

(* the same wire functions for the code before the fix (used by the _refuted lemmas) *)
Definition model_orig (i : sx) : sx :=
  let '(mask, name, p) := dec_case i in
  SL (map (fun o => enc_sout (observe o)) (run_orig (en_of_mask mask) name p)).

(* Specification side: RFC 8259 JSON texts as an AST and a fuel-based
   recursive-descent parser.  Independent of the encoder model.  Strings are
   decoded (escapes resolved, \uXXXX to UTF-8, lone surrogates to U+FFFD as
   encoding/json does) and raw bytes >= 0x80 must form well-formed UTF-8;
   numbers keep their text.  Insignificant whitespace (space, \t, \n, \r) is
   accepted where the RFC allows it. *)
From Coq Require Import List ZArith NArith Bool.
From Coq.Strings Require Import Byte.
Import ListNotations.
From Zap Require Import Base.Wire Enc.Bytes Enc.Utf8.
Local Open Scope N_scope.

Inductive jv :=
| JNull | JBool (b : bool) | JNum (raw : bytes) | JStr (s : bytes)
| JArr (l : list jv) | JObj (l : list (bytes * jv)).

Definition is_ws (b : byte) : bool := Byte.eqb b SPACE || Byte.eqb b TAB || Byte.eqb b NL || Byte.eqb b CR.
Fixpoint skip_ws (s : bytes) : bytes :=
  match s with b :: r => if is_ws b then skip_ws r else s | [] => [] end.

Definition is_digit (b : byte) : bool := (48 <=? bN b) && (bN b <=? 57).
Definition hexv (b : byte) : option N :=
  let n := bN b in
  if (48 <=? n) && (n <=? 57) then Some (n - 48)
  else if (97 <=? n) && (n <=? 102) then Some (n - 87)
  else if (65 <=? n) && (n <=? 70) then Some (n - 55)
  else None.
Definition hex4 (s : bytes) : option (N * bytes) :=
  match s with
  | a :: b :: c :: d :: r =>
      match hexv a, hexv b, hexv c, hexv d with
      | Some x, Some y, Some z, Some w => Some (x * 4096 + y * 256 + z * 16 + w, r)
      | _, _, _, _ => None
      end
  | _ => None
  end.
Definition byteN (n : N) : byte := match Byte.of_N n with Some b => b | None => x00 end.
Definition utf8_encode (cp : N) : bytes :=
  if cp <? 0x80 then [byteN cp]
  else if cp <? 0x800 then [byteN (0xC0 + cp / 64); byteN (0x80 + cp mod 64)]
  else if cp <? 0x10000 then [byteN (0xE0 + cp / 4096); byteN (0x80 + (cp / 64) mod 64); byteN (0x80 + cp mod 64)]
  else [byteN (0xF0 + cp / 262144); byteN (0x80 + (cp / 4096) mod 64); byteN (0x80 + (cp / 64) mod 64); byteN (0x80 + cp mod 64)].
Definition REPL : bytes := [xef; xbf; xbd].

(* after the opening quote: decoded content and the rest after the closing quote.
   One step of the scanner: done (content, rest), or continue with (rest, accumulator). *)
Definition ps_step (s : bytes) (acc : bytes) : option (sum (bytes * bytes) (bytes * bytes)) :=
  match s with
  | [] => None
  | b :: r =>
      if Byte.eqb b QUOTE then Some (inl (rev acc, r))
      else if Byte.eqb b BSLASH then
        match r with
        | e :: r' =>
            if Byte.eqb e QUOTE || Byte.eqb e BSLASH || Byte.eqb e x2f then Some (inr (r', e :: acc))
            else if Byte.eqb e x62 then Some (inr (r', x08 :: acc))
            else if Byte.eqb e x66 then Some (inr (r', x0c :: acc))
            else if Byte.eqb e x6e then Some (inr (r', NL :: acc))
            else if Byte.eqb e x72 then Some (inr (r', CR :: acc))
            else if Byte.eqb e x74 then Some (inr (r', TAB :: acc))
            else if Byte.eqb e x75 then
              match hex4 r' with
              | Some (cp, r'') =>
                  if (0xD800 <=? cp) && (cp <=? 0xDBFF) then
                    (* high surrogate: combine with a following \uDC00-\uDFFF, else U+FFFD *)
                    match r'' with
                    | b1 :: b2 :: r3 =>
                        if Byte.eqb b1 BSLASH && Byte.eqb b2 x75 then
                          match hex4 r3 with
                          | Some (lo, r4) =>
                              if (0xDC00 <=? lo) && (lo <=? 0xDFFF)
                              then Some (inr (r4, rev (utf8_encode (0x10000 + (cp - 0xD800) * 1024 + (lo - 0xDC00))) ++ acc))
                              else Some (inr (r'', rev REPL ++ acc))
                          | None => Some (inr (r'', rev REPL ++ acc))
                          end
                        else Some (inr (r'', rev REPL ++ acc))
                    | _ => Some (inr (r'', rev REPL ++ acc))
                    end
                  else if (0xDC00 <=? cp) && (cp <=? 0xDFFF) then Some (inr (r'', rev REPL ++ acc))
                  else Some (inr (r'', rev (utf8_encode cp) ++ acc))
              | None => None
              end
            else None
        | [] => None
        end
      else if bN b <? 0x20 then None
      else if bN b <? 0x80 then Some (inr (r, b :: acc))
      else match decode_multi s with
           | Some n => Some (inr (skipn n s, rev (firstn n s) ++ acc))
           | None => None
           end
  end.
Fixpoint p_string (fuel : nat) (s : bytes) (acc : bytes) : option (bytes * bytes) :=
  match fuel with
  | O => None
  | S f =>
      match ps_step s acc with
      | Some (inl res) => Some res
      | Some (inr (s', acc')) => p_string f s' acc'
      | None => None
      end
  end.

Fixpoint take_digits (s : bytes) : bytes * bytes :=
  match s with
  | b :: r => if is_digit b then let '(d, r') := take_digits r in (b :: d, r') else ([], s)
  | [] => ([], [])
  end.
(* number grammar: optional minus, integer part without leading zeros, optional fraction, optional exponent *)
Definition p_sign (s : bytes) : bytes * bytes :=
  match s with b :: r => if Byte.eqb b x2d then ([b], r) else ([], s) | [] => ([], s) end.
Definition p_frac (s2 : bytes) : bytes * bytes :=
  match s2 with
  | b :: r => if Byte.eqb b x2e then let '(d, r') := take_digits r in (b :: d, r') else ([], s2)
  | [] => ([], s2)
  end.
Definition p_exp (s3 : bytes) : option (bytes * bool) * bytes :=
  match s3 with
  | b :: r =>
      if Byte.eqb b x65 || Byte.eqb b x45 then
        let '(sg, r1) := match r with b' :: r'' => if Byte.eqb b' x2b || Byte.eqb b' x2d then ([b'], r'') else ([], r) | [] => ([], r) end in
        let '(d, r2) := take_digits r1 in
        (Some (b :: sg ++ d, is_nil d), r2)
      else (None, s3)
  | [] => (None, s3)
  end.
Definition p_number (s : bytes) : option (bytes * bytes) :=
  let '(sign, s1) := p_sign s in
  let '(ip, s2) := take_digits s1 in
  match ip with
  | [] => None
  | dh :: dr =>
      if Byte.eqb dh x30 && negb (is_nil dr) then None else
      let '(fp, s3) := p_frac s2 in
      if (match fp with [_] => true | _ => false end) then None else
      let '(ep, s4) := p_exp s3 in
      match ep with
      | Some (_, true) => None
      | Some (e, false) => Some (sign ++ ip ++ fp ++ e, s4)
      | None => Some (sign ++ ip ++ fp, s4)
      end
  end.

Fixpoint strip_prefix (p s : bytes) : option bytes :=
  match p, s with
  | [], _ => Some s
  | a :: p', b :: s' => if Byte.eqb a b then strip_prefix p' s' else None
  | _, [] => None
  end.

Fixpoint p_value (fuel : nat) (s : bytes) {struct fuel} : option (jv * bytes) :=
  match fuel with
  | O => None
  | S f =>
      match skip_ws s with
      | [] => None
      | b :: r =>
          if Byte.eqb b LBRACE then
            match skip_ws r with
            | b' :: r' => if Byte.eqb b' RBRACE then Some (JObj [], r')
                          else match p_members f r [] with Some (ms, r'') => Some (JObj ms, r'') | None => None end
            | [] => None
            end
          else if Byte.eqb b LBRACK then
            match skip_ws r with
            | b' :: r' => if Byte.eqb b' RBRACK then Some (JArr [], r')
                          else match p_elems f r [] with Some (vs, r'') => Some (JArr vs, r'') | None => None end
            | [] => None
            end
          else if Byte.eqb b QUOTE then
            match p_string (S (length r)) r [] with Some (str, r') => Some (JStr str, r') | None => None end
          else if Byte.eqb b x74 then match strip_prefix s_true (b :: r) with Some r' => Some (JBool true, r') | None => None end
          else if Byte.eqb b x66 then match strip_prefix s_false (b :: r) with Some r' => Some (JBool false, r') | None => None end
          else if Byte.eqb b x6e then match strip_prefix s_null (b :: r) with Some r' => Some (JNull, r') | None => None end
          else match p_number (b :: r) with Some (raw, r') => Some (JNum raw, r') | None => None end
      end
  end
with p_members (fuel : nat) (s : bytes) (acc : list (bytes * jv)) {struct fuel} : option (list (bytes * jv) * bytes) :=
  match fuel with
  | O => None
  | S f =>
      match skip_ws s with
      | b :: r =>
          if Byte.eqb b QUOTE then
            match p_string (S (length r)) r [] with
            | Some (k, r1) =>
                match skip_ws r1 with
                | cb :: r2 =>
                    if Byte.eqb cb COLON then
                      match p_value f r2 with
                      | Some (v, r3) =>
                          match skip_ws r3 with
                          | d :: r4 => if Byte.eqb d COMMA then p_members f r4 ((k, v) :: acc)
                                       else if Byte.eqb d RBRACE then Some (rev ((k, v) :: acc), r4) else None
                          | [] => None
                          end
                      | None => None
                      end
                    else None
                | [] => None
                end
            | None => None
            end
          else None
      | [] => None
      end
  end
with p_elems (fuel : nat) (s : bytes) (acc : list jv) {struct fuel} : option (list jv * bytes) :=
  match fuel with
  | O => None
  | S f =>
      match p_value f s with
      | Some (v, r3) =>
          match skip_ws r3 with
          | d :: r4 => if Byte.eqb d COMMA then p_elems f r4 (v :: acc)
                       else if Byte.eqb d RBRACK then Some (rev (v :: acc), r4) else None
          | [] => None
          end
      | None => None
      end
  end.

Definition parse (s : bytes) : option jv :=
  match p_value (S (length s)) s with
  | Some (v, r) => if is_nil r then Some v else None
  | None => None
  end.

(* one line of output: exactly one JSON object, then the line ending; no byte
   below 0x20 (control character or line break) inside the object *)
Definition no_ctl (s : bytes) : bool := forallb (fun b => negb (bN b <? 0x20)) s.
Definition split_suffix (s : bytes) (n : nat) : bytes * bytes := (firstn (length s - n) s, skipn (length s - n) s).
Definition line_obj (le out : bytes) : option (list (bytes * jv)) :=
  let '(obj, tail) := split_suffix out (length le) in
  if bytes_eqb tail le && no_ctl obj then
    match parse obj with Some (JObj ms) => Some ms | _ => None end
  else None.
Definition line_ok (le out : bytes) : bool := match line_obj le out with Some _ => true | None => false end.

(* The parser is stable under more fuel and under extension of its input by a
   delimited suffix.  This turns the executable stand-alone checks of the oracle
   texts (a float text is one JSON number; a reflected text parses) into the
   in-context facts the tree theorem needs - no assumption about strconv or
   encoding/json remains beyond what the monitors check on every case. *)
From Coq Require Import List ZArith NArith Bool Lia.
From Coq.Strings Require Import Byte.
Import ListNotations.
From Zap Require Import Base.Wire Enc.Bytes Enc.Utf8 Enc.Fields Enc.JsonEnc Enc.JsonParse Enc.JsonAst Enc.Wf
  Enc.Refine1 Enc.Parse1 Enc.Parse2 Enc.Parse3.

Definition hd_delim (rest : bytes) : Prop := delim rest.
Lemma delim_head_cases rest : delim rest -> rest = [] \/ exists b x, rest = b :: x /\ (b = COMMA \/ b = RBRACE \/ b = RBRACK).
Proof. destruct rest as [|b x]; [now left|]. intros H. right. eauto. Qed.

(* ---------- small scanners ---------- *)
Lemma skip_ws_ext s b r rest : skip_ws s = b :: r -> skip_ws (s ++ rest) = b :: r ++ rest.
Proof.
  induction s as [|x s IH]; [discriminate|]. cbn [skip_ws app]. destruct (is_ws x); [exact IH|].
  intros [= -> ->]. reflexivity.
Qed.
Lemma strip_prefix_ext p : forall s r rest, strip_prefix p s = Some r -> strip_prefix p (s ++ rest) = Some (r ++ rest).
Proof.
  induction p as [|a p IH]; intros s r rest; cbn [strip_prefix]; [now intros [= ->]|].
  destruct s as [|b s]; [discriminate|]. cbn [app]. destruct (Byte.eqb a b); [apply IH|discriminate].
Qed.
Lemma take_digits_split s : s = fst (take_digits s) ++ snd (take_digits s).
Proof.
  induction s as [|b r IH]; [reflexivity|]. simpl. destruct (is_digit b); [|reflexivity].
  destruct (take_digits r) as [d r']. cbn [fst snd] in *. cbn [app]. now f_equal.
Qed.
Lemma take_digits_ext s rest : delim rest ->
  take_digits (s ++ rest) = (fst (take_digits s), snd (take_digits s) ++ rest).
Proof.
  intros Hr. induction s as [|b r IH].
  - cbn [app]. destruct rest as [|x y]; [reflexivity|]. simpl. pose proof (delim_nondigit _ Hr) as H. cbn in H. now rewrite H.
  - simpl. destruct (is_digit b); [|reflexivity]. simpl in IH. rewrite IH. destruct (take_digits r). reflexivity.
Qed.
Lemma p_sign_ext s rest : s <> [] -> p_sign (s ++ rest) = (fst (p_sign s), snd (p_sign s) ++ rest).
Proof. destruct s as [|b r]; [congruence|]. intros _. cbn [app p_sign]. destruct (Byte.eqb b x2d); reflexivity. Qed.
Lemma p_frac_ext s rest : delim rest -> p_frac (s ++ rest) = (fst (p_frac s), snd (p_frac s) ++ rest).
Proof.
  intros Hr. destruct s as [|b r].
  - cbn [app]. now rewrite p_frac_delim.
  - cbn [app p_frac]. destruct (Byte.eqb b x2e); [|reflexivity].
    rewrite (take_digits_ext r rest Hr). destruct (take_digits r). reflexivity.
Qed.
Lemma p_exp_ext s rest : delim rest -> p_exp (s ++ rest) = (fst (p_exp s), snd (p_exp s) ++ rest).
Proof.
  intros Hr. destruct s as [|b r].
  - cbn [app]. now rewrite p_exp_delim.
  - cbn [app p_exp]. destruct (Byte.eqb b x65 || Byte.eqb b x45); [|reflexivity].
    destruct r as [|b' r''].
    + cbn [app]. destruct (delim_head_cases rest Hr) as [->|(x1 & y & -> & [->|[->| ->]])]; reflexivity.
    + cbn [app]. destruct (Byte.eqb b' x2b || Byte.eqb b' x2d).
      * rewrite (take_digits_ext r'' rest Hr). destruct (take_digits r''). reflexivity.
      * pose proof (take_digits_ext (b' :: r'') rest Hr) as H. cbn [app] in H. rewrite H. destruct (take_digits (b' :: r'')). reflexivity.
Qed.
Lemma p_number_ext s raw r rest : delim rest -> p_number s = Some (raw, r) -> p_number (s ++ rest) = Some (raw, r ++ rest).
Proof.
  intros Hr. unfold p_number. destruct s as [|b0 s0].
  - cbn. discriminate.
  - rewrite (p_sign_ext (b0 :: s0) rest ltac:(discriminate)). destruct (p_sign (b0 :: s0)) as [sign s1]. cbn [fst snd].
    rewrite (take_digits_ext s1 rest Hr). destruct (take_digits s1) as [ip s2]. cbn [fst snd].
    destruct ip as [|dh dr]; [discriminate|]. destruct (Byte.eqb dh x30 && negb (is_nil dr)); [discriminate|].
    rewrite (p_frac_ext s2 rest Hr). destruct (p_frac s2) as [fp s3]. cbn [fst snd].
    destruct (match fp with [_] => true | _ => false end); [discriminate|].
    rewrite (p_exp_ext s3 rest Hr). destruct (p_exp s3) as [ep s4]. cbn [fst snd].
    destruct ep as [[e [|]]|]; try discriminate; now intros [= <- <-].
Qed.
Lemma p_number_raw s raw r : p_number s = Some (raw, r) -> s = raw ++ r.
Proof.
  unfold p_number. assert (Hs : s = fst (p_sign s) ++ snd (p_sign s)) by (destruct s as [|b x]; [reflexivity|cbn [p_sign]; destruct (Byte.eqb b x2d); reflexivity]).
  destruct (p_sign s) as [sign s1]. cbn [fst snd] in Hs. pose proof (take_digits_split s1) as H1.
  destruct (take_digits s1) as [ip s2]. cbn [fst snd] in H1. destruct ip as [|dh dr]; [discriminate|].
  destruct (Byte.eqb dh x30 && negb (is_nil dr)); [discriminate|].
  assert (H2 : s2 = fst (p_frac s2) ++ snd (p_frac s2)).
  { destruct s2 as [|b x]; [reflexivity|]. cbn [p_frac]. destruct (Byte.eqb b x2e); [|reflexivity].
    pose proof (take_digits_split x) as H. destruct (take_digits x). cbn [fst snd] in *. cbn [app]. now f_equal. }
  destruct (p_frac s2) as [fp s3]. cbn [fst snd] in H2. destruct (match fp with [_] => true | _ => false end); [discriminate|].
  assert (H3 : s3 = match fst (p_exp s3) with Some (e, _) => e | None => [] end ++ snd (p_exp s3)).
  { destruct s3 as [|b x]; [reflexivity|]. cbn [p_exp]. destruct (Byte.eqb b x65 || Byte.eqb b x45); [|reflexivity].
    destruct x as [|b' x'].
    - reflexivity.
    - destruct (Byte.eqb b' x2b || Byte.eqb b' x2d).
      + pose proof (take_digits_split x') as H. destruct (take_digits x'). cbn [fst snd] in *. cbn [app]. now rewrite <- H.
      + pose proof (take_digits_split (b' :: x')) as H. destruct (take_digits (b' :: x')). cbn [fst snd] in *. cbn [app]. now rewrite <- H. }
  destruct (p_exp s3) as [ep s4]. cbn [fst snd] in H3.
  destruct ep as [[e [|]]|]; try discriminate; intros [= <- <-]; rewrite Hs, H1, H2, H3; cbn [app]; rewrite <- ?app_assoc; cbn [app]; rewrite <- ?app_assoc; reflexivity.
Qed.

(* ---------- strings ---------- *)
Lemma hex4_ext s n r rest : hex4 s = Some (n, r) -> hex4 (s ++ rest) = Some (n, r ++ rest).
Proof.
  unfold hex4. destruct s as [|a [|b [|c [|d x]]]]; try discriminate. cbn [app].
  destruct (hexv a), (hexv b), (hexv c), (hexv d); try discriminate. now intros [= <- <-].
Qed.
Lemma hexv_delim b : b = COMMA \/ b = RBRACE \/ b = RBRACK -> hexv b = None.
Proof. intros [->|[->| ->]]; reflexivity. Qed.
Lemma hex4_ext_none s rest : delim rest -> hex4 s = None -> hex4 (s ++ rest) = None.
Proof.
  intros Hr. unfold hex4.
  destruct (delim_head_cases rest Hr) as [->|(x & y & -> & Hx)]; [now rewrite app_nil_r|].
  pose proof (hexv_delim x Hx) as Hn.
  destruct s as [|a [|b [|c [|d z]]]]; cbn [app]; intros H.
  - destruct y as [|? [|? [|? ?]]]; try reflexivity. now rewrite Hn.
  - destruct y as [|? [|? ?]]; try reflexivity. rewrite Hn. destruct (hexv a); reflexivity.
  - destruct y as [|? ?]; try reflexivity. rewrite Hn. destruct (hexv a), (hexv b); reflexivity.
  - rewrite Hn. destruct (hexv a), (hexv b), (hexv c); reflexivity.
  - destruct (hexv a), (hexv b), (hexv c), (hexv d); try discriminate H; reflexivity.
Qed.
Lemma decode_multi_ext s k rest : decode_multi s = Some k ->
  decode_multi (s ++ rest) = Some k /\ skipn k (s ++ rest) = skipn k s ++ rest /\ firstn k (s ++ rest) = firstn k s.
Proof.
  intros H. destruct (decode_multi_prefix s k H) as (Hlen & _ & Hpre).
  assert (Hk : k <= length s) by (pose proof (firstn_length k s); lia).
  assert (Hs : s ++ rest = firstn k s ++ (skipn k s ++ rest)) by (now rewrite app_assoc, firstn_skipn).
  split; [rewrite Hs; apply Hpre|]. split.
  - rewrite skipn_app. replace (k - length s) with 0 by lia. reflexivity.
  - rewrite firstn_app. replace (k - length s) with 0 by lia. cbn [firstn]. now rewrite app_nil_r.
Qed.

Definition ext_res (rest : bytes) (x : sum (bytes * bytes) (bytes * bytes)) : sum (bytes * bytes) (bytes * bytes) :=
  match x with inl (str, r) => inl (str, r ++ rest) | inr (s', acc) => inr (s' ++ rest, acc) end.
Lemma ps_step_ext s acc x rest : delim rest -> ps_step s acc = Some x -> ps_step (s ++ rest) acc = Some (ext_res rest x).
Proof.
  intros Hr. unfold ps_step. destruct s as [|b r]; [discriminate|]. cbn [app].
  destruct (Byte.eqb b QUOTE); [now intros [= <-]|].
  destruct (Byte.eqb b BSLASH).
  - destruct r as [|e r']; [discriminate|]. cbn [app].
    destruct (Byte.eqb e QUOTE || Byte.eqb e BSLASH || Byte.eqb e x2f); [now intros [= <-]|].
    destruct (Byte.eqb e x62); [now intros [= <-]|]. destruct (Byte.eqb e x66); [now intros [= <-]|].
    destruct (Byte.eqb e x6e); [now intros [= <-]|]. destruct (Byte.eqb e x72); [now intros [= <-]|].
    destruct (Byte.eqb e x74); [now intros [= <-]|]. destruct (Byte.eqb e x75); [|discriminate].
    destruct (hex4 r') as [[cp r'']|] eqn:Eh; [|discriminate]. rewrite (hex4_ext _ _ _ rest Eh).
    destruct ((55296 <=? cp)%N && (cp <=? 56319)%N).
    + (* high surrogate: the look-ahead sees the same bytes, or a delimiter *)
      destruct r'' as [|b1 [|b2 r3]].
      * cbn [app]. intros [= <-]. destruct (delim_head_cases rest Hr) as [->|(x1 & y & -> & Hx)]; [reflexivity|].
        destruct y as [|y1 y2]; [reflexivity|]. assert (Byte.eqb x1 BSLASH = false) by (destruct Hx as [->|[->| ->]]; reflexivity).
        rewrite H. reflexivity.
      * cbn [app]. intros [= <-]. destruct (delim_head_cases rest Hr) as [->|(x1 & y & -> & Hx)]; [reflexivity|].
        assert (Byte.eqb x1 x75 = false) by (destruct Hx as [->|[->| ->]]; reflexivity). rewrite H, andb_false_r. reflexivity.
      * cbn [app]. destruct (Byte.eqb b1 BSLASH && Byte.eqb b2 x75); [|now intros [= <-]].
        destruct (hex4 r3) as [[lo r4]|] eqn:E3.
        -- rewrite (hex4_ext _ _ _ rest E3). destruct ((56320 <=? lo)%N && (lo <=? 57343)%N); now intros [= <-].
        -- rewrite (hex4_ext_none r3 rest Hr E3). now intros [= <-].
    + destruct ((56320 <=? cp)%N && (cp <=? 57343)%N); now intros [= <-].
  - destruct (bN b <? 32)%N; [discriminate|]. destruct (bN b <? 128)%N; [now intros [= <-]|].
    destruct (decode_multi (b :: r)) as [k|] eqn:Ed; [|discriminate].
    destruct (decode_multi_ext (b :: r) k rest Ed) as (H1 & H2 & H3). cbn [app] in H1, H2, H3.
    rewrite H1, H2, H3. now intros [= <-].
Qed.
Lemma p_string_ext f : forall s acc str r rest, delim rest ->
  p_string f s acc = Some (str, r) -> p_string f (s ++ rest) acc = Some (str, r ++ rest).
Proof.
  induction f as [|f IH]; intros s acc str r rest Hr; [discriminate|]. cbn [p_string].
  destruct (ps_step s acc) as [x|] eqn:E; [|discriminate]. rewrite (ps_step_ext s acc x rest Hr E).
  destruct x as [[str' r']|[s' acc']]; cbn [ext_res].
  - now intros [= <- <-].
  - apply IH. exact Hr.
Qed.
Lemma p_string_mono f : forall f' s acc x, f <= f' -> p_string f s acc = Some x -> p_string f' s acc = Some x.
Proof.
  induction f as [|f IH]; intros f' s acc x Hf; [discriminate|]. destruct f' as [|f']; [lia|]. cbn [p_string].
  destruct (ps_step s acc) as [[res|[s' acc']]|]; auto. apply IH. lia.
Qed.

(* ---------- values ---------- *)
Lemma p_value_S f s : p_value (S f) s =
  match skip_ws s with
  | [] => None
  | b :: r =>
      if Byte.eqb b LBRACE then
        match skip_ws r with
        | b' :: r' => if Byte.eqb b' RBRACE then Some (JObj [], r')
                      else match p_members f r [] with Some (ms, r'') => Some (JObj ms, r'') | None => None end
        | [] => None
        end
      else if Byte.eqb b LBRACK then
        match skip_ws r with
        | b' :: r' => if Byte.eqb b' RBRACK then Some (JArr [], r')
                      else match p_elems f r [] with Some (vs, r'') => Some (JArr vs, r'') | None => None end
        | [] => None
        end
      else if Byte.eqb b QUOTE then
        match p_string (S (length r)) r [] with Some (str, r') => Some (JStr str, r') | None => None end
      else if Byte.eqb b x74 then match strip_prefix s_true (b :: r) with Some r' => Some (JBool true, r') | None => None end
      else if Byte.eqb b x66 then match strip_prefix s_false (b :: r) with Some r' => Some (JBool false, r') | None => None end
      else if Byte.eqb b x6e then match strip_prefix s_null (b :: r) with Some r' => Some (JNull, r') | None => None end
      else match p_number (b :: r) with Some (raw, r') => Some (JNum raw, r') | None => None end
  end.
Proof. reflexivity. Qed.
Lemma p_members_S f s acc : p_members (S f) s acc =
  match skip_ws s with
  | b :: r =>
      if Byte.eqb b QUOTE then
        match p_string (S (length r)) r [] with
        | Some (k, r1) =>
            match skip_ws r1 with
            | cb :: r2 =>
                if Byte.eqb cb COLON then
                  match p_value f r2 with
                  | Some (v, r3) =>
                      match skip_ws r3 with
                      | d :: r4 => if Byte.eqb d COMMA then p_members f r4 ((k, v) :: acc)
                                   else if Byte.eqb d RBRACE then Some (rev ((k, v) :: acc), r4) else None
                      | [] => None
                      end
                  | None => None
                  end
                else None
            | [] => None
            end
        | None => None
        end
      else None
  | [] => None
  end.
Proof. reflexivity. Qed.

Definition Mono (f : nat) : Prop :=
  (forall f' s x, f <= f' -> p_value f s = Some x -> p_value f' s = Some x) /\
  (forall f' s acc x, f <= f' -> p_members f s acc = Some x -> p_members f' s acc = Some x) /\
  (forall f' s acc x, f <= f' -> p_elems f s acc = Some x -> p_elems f' s acc = Some x).
Lemma mono_all : forall f, Mono f.
Proof.
  induction f as [|f (IHv & IHm & IHe)]; [repeat split; intros; discriminate|]. repeat split.
  - intros f' s x Hf. destruct f' as [|f']; [lia|]. rewrite !p_value_S.
    destruct (skip_ws s) as [|b r]; [discriminate|].
    destruct (Byte.eqb b LBRACE).
    { destruct (skip_ws r) as [|b' r']; [discriminate|]. destruct (Byte.eqb b' RBRACE); [auto|].
      destruct (p_members f r []) as [[ms r'']|] eqn:E; [|discriminate]. rewrite (IHm f' r [] _ ltac:(lia) E). auto. }
    destruct (Byte.eqb b LBRACK).
    { destruct (skip_ws r) as [|b' r']; [discriminate|]. destruct (Byte.eqb b' RBRACK); [auto|].
      destruct (p_elems f r []) as [[vs r'']|] eqn:E; [|discriminate]. rewrite (IHe f' r [] _ ltac:(lia) E). auto. }
    auto.
  - intros f' s acc x Hf. destruct f' as [|f']; [lia|]. rewrite !p_members_S.
    destruct (skip_ws s) as [|b r]; [discriminate|]. destruct (Byte.eqb b QUOTE); [|discriminate].
    destruct (p_string (S (length r)) r []) as [[k r1]|]; [|discriminate].
    destruct (skip_ws r1) as [|cb r2]; [discriminate|]. destruct (Byte.eqb cb COLON); [|discriminate].
    destruct (p_value f r2) as [[v r3]|] eqn:E; [|discriminate]. rewrite (IHv f' r2 _ ltac:(lia) E).
    destruct (skip_ws r3) as [|d r4]; [discriminate|]. destruct (Byte.eqb d COMMA); [apply IHm; lia|auto].
  - intros f' s acc x Hf. destruct f' as [|f']; [lia|]. rewrite !pe_step.
    destruct (p_value f s) as [[v r3]|] eqn:E; [|discriminate]. rewrite (IHv f' s _ ltac:(lia) E).
    destruct (skip_ws r3) as [|d r4]; [discriminate|]. destruct (Byte.eqb d COMMA); [apply IHe; lia|auto].
Qed.

Definition Ext (f : nat) : Prop :=
  (forall s j r rest, delim rest -> p_value f s = Some (j, r) -> p_value f (s ++ rest) = Some (j, r ++ rest)) /\
  (forall s acc ms r rest, delim rest -> p_members f s acc = Some (ms, r) -> p_members f (s ++ rest) acc = Some (ms, r ++ rest)) /\
  (forall s acc vs r rest, delim rest -> p_elems f s acc = Some (vs, r) -> p_elems f (s ++ rest) acc = Some (vs, r ++ rest)).
Lemma ext_all : forall f, Ext f.
Proof.
  induction f as [|f (IHv & IHm & IHe)]; [repeat split; intros; discriminate|]. repeat split.
  - intros s j r0 rest Hr. rewrite !p_value_S.
    destruct (skip_ws s) as [|b r] eqn:Es; [discriminate|]. rewrite (skip_ws_ext s b r rest Es).
    destruct (Byte.eqb b LBRACE).
    { destruct (skip_ws r) as [|b' r'] eqn:E1; [discriminate|]. rewrite (skip_ws_ext r b' r' rest E1).
      destruct (Byte.eqb b' RBRACE); [now intros [= <- <-]|].
      destruct (p_members f r []) as [[ms r'']|] eqn:E; [|discriminate]. rewrite (IHm r [] ms r'' rest Hr E). now intros [= <- <-]. }
    destruct (Byte.eqb b LBRACK).
    { destruct (skip_ws r) as [|b' r'] eqn:E1; [discriminate|]. rewrite (skip_ws_ext r b' r' rest E1).
      destruct (Byte.eqb b' RBRACK); [now intros [= <- <-]|].
      destruct (p_elems f r []) as [[vs r'']|] eqn:E; [|discriminate]. rewrite (IHe r [] vs r'' rest Hr E). now intros [= <- <-]. }
    destruct (Byte.eqb b QUOTE).
    { destruct (p_string (S (length r)) r []) as [[str r']|] eqn:E; [|discriminate].
      pose proof (p_string_mono (S (length r)) (S (length (r ++ rest))) r [] _ ltac:(rewrite app_length; lia) E) as E'.
      rewrite (p_string_ext _ r [] str r' rest Hr E'). now intros [= <- <-]. }
    destruct (Byte.eqb b x74).
    { change (b :: r ++ rest) with ((b :: r) ++ rest). destruct (strip_prefix s_true (b :: r)) as [r'|] eqn:E; [|discriminate].
      rewrite (strip_prefix_ext _ _ _ rest E). now intros [= <- <-]. }
    destruct (Byte.eqb b x66).
    { change (b :: r ++ rest) with ((b :: r) ++ rest). destruct (strip_prefix s_false (b :: r)) as [r'|] eqn:E; [|discriminate].
      rewrite (strip_prefix_ext _ _ _ rest E). now intros [= <- <-]. }
    destruct (Byte.eqb b x6e).
    { change (b :: r ++ rest) with ((b :: r) ++ rest). destruct (strip_prefix s_null (b :: r)) as [r'|] eqn:E; [|discriminate].
      rewrite (strip_prefix_ext _ _ _ rest E). now intros [= <- <-]. }
    change (b :: r ++ rest) with ((b :: r) ++ rest). destruct (p_number (b :: r)) as [[raw r']|] eqn:E; [|discriminate].
    rewrite (p_number_ext _ _ _ rest Hr E). now intros [= <- <-].
  - intros s acc ms r0 rest Hr. rewrite !p_members_S.
    destruct (skip_ws s) as [|b r] eqn:Es; [discriminate|]. rewrite (skip_ws_ext s b r rest Es).
    destruct (Byte.eqb b QUOTE); [|discriminate].
    destruct (p_string (S (length r)) r []) as [[k r1]|] eqn:E; [|discriminate].
    pose proof (p_string_mono (S (length r)) (S (length (r ++ rest))) r [] _ ltac:(rewrite app_length; lia) E) as E'.
    rewrite (p_string_ext _ r [] k r1 rest Hr E').
    destruct (skip_ws r1) as [|cb r2] eqn:E1; [discriminate|]. rewrite (skip_ws_ext r1 cb r2 rest E1).
    destruct (Byte.eqb cb COLON); [|discriminate].
    destruct (p_value f r2) as [[v r3]|] eqn:E2; [|discriminate]. rewrite (IHv r2 v r3 rest Hr E2).
    destruct (skip_ws r3) as [|d r4] eqn:E3; [discriminate|]. rewrite (skip_ws_ext r3 d r4 rest E3).
    destruct (Byte.eqb d COMMA); [apply IHm; exact Hr|]. destruct (Byte.eqb d RBRACE); [now intros [= <- <-]|discriminate].
  - intros s acc vs r0 rest Hr. rewrite !pe_step.
    destruct (p_value f s) as [[v r3]|] eqn:E2; [|discriminate]. rewrite (IHv s v r3 rest Hr E2).
    destruct (skip_ws r3) as [|d r4] eqn:E3; [discriminate|]. rewrite (skip_ws_ext r3 d r4 rest E3).
    destruct (Byte.eqb d COMMA); [apply IHe; exact Hr|]. destruct (Byte.eqb d RBRACK); [now intros [= <- <-]|discriminate].
Qed.

(* ---------- consequences for the oracle texts ---------- *)
(* a reflected text: the monitor checks that it parses with fuel = its length *)
Definition raw_strict_okb (t : bytes) : bool :=
  match p_value (length t) t with Some (_, []) => true | _ => false end.
Lemma raw_parses t j : p_value (length t) t = Some (j, []) -> parses_as (length t) t j.
Proof.
  intros H rest f Hr Hf. pose proof (proj1 (mono_all (length t)) f t _ Hf H) as H1.
  exact (proj1 (ext_all f) t j [] rest Hr H1).
Qed.
Lemma num_parses t : num_okb t = true -> match t with b :: _ => is_digit b = true \/ b = x2d | [] => False end ->
  parses_as 1 t (JNum t).
Proof.
  unfold num_okb. destruct (p_number t) as [[raw r]|] eqn:E; [|discriminate]. destruct r; [|discriminate]. intros _ Hh rest f Hr Hf.
  destruct f as [|f]; [lia|]. pose proof (p_number_raw t raw [] E) as Ht. rewrite app_nil_r in Ht. subst raw.
  apply p_value_number; [exact Hh|]. exact (p_number_ext t t [] rest Hr E).
Qed.

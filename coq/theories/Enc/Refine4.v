(* Refinement for field trees: one Field.AddTo step on the byte state is one ev_fld
   step on the tree context. *)
From Coq Require Import List ZArith NArith Bool Lia.
From Coq.Strings Require Import Byte.
Import ListNotations.
From Zap Require Import Base.Wire Enc.Bytes Enc.Decimal Enc.Base64 Enc.Fields Enc.JsonEnc Enc.JsonParse Enc.JsonAst Enc.Wf Enc.Refine1 Enc.Refine2 Enc.Refine3.

Section S.
Variable c : cfg.
Variable sp : bool.
Notation pctx := (pctx sp).
Notation pv := (pv sp).
Notation add_key := (add_key sp).
Notation add_sep := (add_sep sp).
Notation pelems := (pelems sp).
Notation R := (R sp).

(* named loops and unfolding equations *)
Definition enc_flds' := fix go (l : list fld) (s : st) {struct l} : st :=
  match l with [] => s | f :: r => go r (enc_fld c sp f s) end.
Definition ev_flds' := fix go (l : list fld) (o : octx) {struct l} : octx :=
  match l with [] => o | f :: r => go r (ev_fld c f o) end.
Definition enc_elems' (stop : bool) := fix go (l : list elem) (s : st) {struct l} : st * option bytes :=
  match l with
  | [] => (s, None)
  | e :: r => let '(s', err) := enc_elem c sp e s in
              match err with Some m => if stop then (s', Some m) else go r s' | None => go r s' end
  end.
Definition consopt (v : option jt) (vs : list jt) : list jt := match v with Some x => x :: vs | None => vs end.
Definition ev_elems' (stop : bool) := fix go (l : list elem) {struct l} : list jt * option bytes :=
  match l with
  | [] => ([], None)
  | e :: r => let '(v, err) := ev_elem c e in
              match err with
              | Some m => if stop then (consopt v [], Some m) else let '(vs, e2) := go r in (consopt v vs, e2)
              | None => let '(vs, e2) := go r in (consopt v vs, e2)
              end
  end.
Lemma enc_obj_eq calls ret s : enc_obj c sp (Obj calls ret) s =
  ({| buf := buf (close_ns (app_buf (enc_flds' calls {| buf := add_sep (buf s) ++ [LBRACE]; ns := 0 |}) [RBRACE])); ns := ns s |}, ret).
Proof. reflexivity. Qed.
Lemma enc_inl_eq calls ret s : enc_inl c sp (Obj calls ret) s = (enc_flds' calls s, ret).
Proof. reflexivity. Qed.
Lemma ev_obj_eq calls ret : ev_obj c (Obj calls ret) = (TObj (close (ev_flds' calls octx0)), ret).
Proof. reflexivity. Qed.
Lemma enc_arr_eq elems ret stop s : enc_arr c sp (Arr elems ret stop) s =
  (let '(s2, early) := enc_elems' stop elems {| buf := add_sep (buf s) ++ [LBRACK]; ns := ns s |} in
   (app_buf s2 [RBRACK], match early with Some m => Some m | None => ret end)).
Proof. reflexivity. Qed.
Lemma ev_arr_eq elems ret stop : ev_arr c (Arr elems ret stop) =
  (let '(vs, early) := ev_elems' stop elems in (TArr vs, match early with Some m => Some m | None => ret end)).
Proof. reflexivity. Qed.
Lemma enc_flds_eq fs s : enc_flds c sp fs s = enc_flds' fs s.
Proof. unfold enc_flds. revert s. induction fs as [|f r IH]; intros s; [reflexivity|]. cbn. apply IH. Qed.
Lemma ev_flds_eq fs o : ev_flds c fs o = ev_flds' fs o.
Proof. unfold ev_flds. revert o. induction fs as [|f r IH]; intros o; [reflexivity|]. cbn. apply IH. Qed.

Lemma enc_fld_obj k m s : enc_fld c sp (FObject k m) s =
  (let '(s1, err) := enc_obj c sp m {| buf := add_key k (buf s); ns := ns s |} in err_field sp k err s1).
Proof. reflexivity. Qed.
Lemma enc_fld_inl m s : enc_fld c sp (FInline m) s = (let '(s1, err) := enc_inl c sp m s in err_field sp [] err s1).
Proof. reflexivity. Qed.
Lemma enc_fld_arr k a s : enc_fld c sp (FArray k a) s =
  (let '(s1, err) := enc_arr c sp a {| buf := add_key k (buf s); ns := ns s |} in err_field sp k err s1).
Proof. reflexivity. Qed.
Lemma ev_fld_obj k m o : ev_fld c (FObject k m) o = (let '(v, err) := ev_obj c m in err_m k err (push o (k, v))).
Proof. reflexivity. Qed.
Lemma ev_fld_inl calls ret o : ev_fld c (FInline (Obj calls ret)) o = err_m [] ret (ev_flds' calls o).
Proof. reflexivity. Qed.
Lemma ev_fld_arr k a o : ev_fld c (FArray k a) o = (let '(v, err) := ev_arr c a in err_m k err (push o (k, v))).
Proof. reflexivity. Qed.
Lemma enc_elem_obj m s : enc_elem c sp (EObj m) s = enc_obj c sp m s.
Proof. reflexivity. Qed.
Lemma enc_elem_arr a s : enc_elem c sp (EArr a) s = enc_arr c sp a s.
Proof. reflexivity. Qed.
Lemma ev_elem_obj m : ev_elem c (EObj m) = (let '(v, err) := ev_obj c m in (Some v, err)).
Proof. reflexivity. Qed.
Lemma ev_elem_arr a : ev_elem c (EArr a) = (let '(v, err) := ev_arr c a in (Some v, err)).
Proof. reflexivity. Qed.

Definition Pf (f : fld) : Prop := wf_fld f = true -> forall p o base s, pre_ok p -> R p o base s ->
  R p (ev_fld c f o) base (enc_fld c sp f s).
Definition Po (m : objm) : Prop := wf_objm m = true ->
  (forall s, enc_obj c sp m s = ({| buf := add_sep (buf s) ++ pv (fst (ev_obj c m)); ns := ns s |}, snd (ev_obj c m))) /\
  (forall p o base s, pre_ok p -> R p o base s ->
     match m with Obj calls ret => R p (ev_flds' calls o) base (fst (enc_inl c sp m s)) /\ snd (enc_inl c sp m s) = ret end).
Definition Pa (a : arrm) : Prop := wf_arrm a = true ->
  forall s, enc_arr c sp a s = ({| buf := add_sep (buf s) ++ pv (fst (ev_arr c a)); ns := ns s |}, snd (ev_arr c a)).
Definition Pe (e : elem) : Prop := wf_elem e = true ->
  (forall s, enc_elem c sp e s =
     (match fst (ev_elem c e) with Some v => {| buf := add_sep (buf s) ++ pv v; ns := ns s |} | None => s end, snd (ev_elem c e))) /\
  (forall v, fst (ev_elem c e) = Some v -> tail_ok (pv v)).

Lemma wf_calls_forall calls :
  (fix go (l : list fld) : bool := match l with [] => true | f :: r => wf_fld f && go r end) calls = true ->
  Forall (fun f => wf_fld f = true) calls.
Proof. induction calls as [|f r IH]; intros H; [constructor|]. apply andb_true_iff in H as [H1 H2]. constructor; auto. Qed.
Lemma wf_elems_forall es :
  (fix go (l : list elem) : bool := match l with [] => true | e :: r => wf_elem e && go r end) es = true ->
  Forall (fun e => wf_elem e = true) es.
Proof. induction es as [|e r IH]; intros H; [constructor|]. apply andb_true_iff in H as [H1 H2]. constructor; auto. Qed.

Lemma fold_flds calls : Forall Pf calls -> Forall (fun f => wf_fld f = true) calls ->
  forall p o base s, pre_ok p -> R p o base s -> R p (ev_flds' calls o) base (enc_flds' calls s).
Proof.
  induction 1 as [|f r Hf _ IH]; intros Hw p o base s Hp HR; [exact HR|].
  inversion Hw as [|? ? Hwf Hwr]; subst. cbn [ev_flds' enc_flds']. apply IH; [exact Hwr|exact Hp|]. now apply Hf.
Qed.

Lemma elems_loop stop es : Forall Pe es -> Forall (fun e => wf_elem e = true) es ->
  forall p' vs s, pre_ok p' -> arr_inv sp p' vs (buf s) ->
    arr_inv sp p' (vs ++ fst (ev_elems' stop es)) (buf (fst (enc_elems' stop es s))) /\
    ns (fst (enc_elems' stop es s)) = ns s /\ snd (enc_elems' stop es s) = snd (ev_elems' stop es).
Proof.
  induction 1 as [|e r He _ IH]; intros Hw p' vs s Hp Hinv.
  - cbn. rewrite app_nil_r. auto.
  - inversion Hw as [|? ? Hwe Hwr]; subst. destruct (He Hwe) as [Heq Htail].
    cbn [enc_elems' ev_elems']. rewrite (Heq s).
    destruct (ev_elem c e) as [v err] eqn:E. cbn [fst snd] in *.
    set (s' := match v with Some v0 => {| buf := add_sep (buf s) ++ pv v0; ns := ns s |} | None => s end).
    assert (Hinv' : arr_inv sp p' (vs ++ consopt v []) (buf s') /\ ns s' = ns s).
    { unfold s'. destruct v as [x|]; cbn [consopt buf ns].
      - split; [|reflexivity]. apply elem_step; [exact Hp|exact Hinv|now apply Htail].
      - rewrite app_nil_r. auto. }
    destruct Hinv' as [Hinv' Hns'].
    assert (Hcont : arr_inv sp p' (vs ++ fst (let '(vs0, e2) := ev_elems' stop r in (consopt v vs0, e2)))
                      (buf (fst (enc_elems' stop r s'))) /\
                    ns (fst (enc_elems' stop r s')) = ns s /\
                    snd (enc_elems' stop r s') = snd (let '(vs0, e2) := ev_elems' stop r in (consopt v vs0, e2))).
    { destruct (IH Hwr p' (vs ++ consopt v []) s' Hp Hinv') as (H1 & H2 & H3).
      destruct (ev_elems' stop r) as [ws e2]. cbn [fst snd] in *. rewrite <- app_assoc in H1.
      replace (consopt v [] ++ ws) with (consopt v ws) in H1 by (destruct v; reflexivity). rewrite H2. auto. }
    destruct err as [m|]; [destruct stop|]; try exact Hcont.
    cbn [fst snd]. auto.
Qed.

Theorem refine_all : forall f, Pf f.
Proof.
  apply (fld_ind' Pf Po Pa Pe).
  - (* FBool *) intros k b _ p o base s Hp HR. cbn [enc_fld ev_fld]. unfold ap_bool.
    assert (E : (if b then s_true else s_false) = atxt (bool_atom b)) by (destruct b; reflexivity).
    apply (step_atom sp p o base s k (bool_atom b) _ Hp HR E). rewrite E. apply bool_tail.
  - (* FInt *) intros k z _ p o base s Hp HR. cbn [enc_fld ev_fld]. unfold ap_int.
    apply (step_atom sp p o base s k (ANum (print_Z z)) _ Hp HR eq_refl). apply print_Z_tail.
  - (* FUint *) intros k z _ p o base s Hp HR. cbn [enc_fld ev_fld]. unfold ap_int.
    apply (step_atom sp p o base s k (ANum (print_Z z)) _ Hp HR eq_refl). apply print_Z_tail.
  - (* FFloat *) intros k f Hw p o base s Hp HR. cbn [enc_fld ev_fld wf_fld] in *. unfold ap_float.
    apply (step_atom sp p o base s k (float_atom f) _ Hp HR (eq_sym (float_atom_txt f))). now apply float_tail.
  - (* FString *) intros k v _ p o base s Hp HR. cbn [enc_fld ev_fld]. now apply step_string.
  - (* FByteString *) intros k v _ p o base s Hp HR. cbn [enc_fld ev_fld]. now apply step_string.
  - (* FBinary *) intros k v _ p o base s Hp HR. cbn [enc_fld ev_fld]. now apply step_string.
  - (* FComplex *) intros k re im g _ p o base s Hp HR. cbn [enc_fld ev_fld].
    rewrite cplx_eq, (add_sep_pre sp _ (add_key_pre sp k (buf s))).
    apply (step_member sp p o base s k (TA (cplx_atom re im g)) Hp HR). apply aq_tail.
  - (* FDuration *) intros k d Hw p o base s Hp HR. cbn [enc_fld ev_fld wf_fld] in *.
    rewrite (ap_dur_eq c sp d _ Hw), (add_sep_pre sp _ (add_key_pre sp k (buf s))).
    apply (step_member sp p o base s k (TA (dur_atom c d)) Hp HR). now apply dur_tail.
  - (* FTime *) intros k t Hw p o base s Hp HR. cbn [enc_fld ev_fld wf_fld] in *.
    rewrite (ap_time_eq c sp t _ Hw), (add_sep_pre sp _ (add_key_pre sp k (buf s))).
    apply (step_member sp p o base s k (TA (time_atom c t)) Hp HR). now apply time_tail.
  - (* FReflect *) intros k r Hw p o base s Hp HR. cbn [enc_fld ev_fld wf_fld] in *.
    destruct r as [|t|m]; cbn [refl_txt refl_atom].
    + apply (step_member sp p o base s k (TA (ARaw s_null)) Hp HR). apply null_tail.
    + apply (step_member sp p o base s k (TA (ARaw t)) Hp HR). now apply raw_tail.
    + exact (step_err sp p o base s k (Some m) Hp HR).
  - (* FNamespace *) intros k _ p o base s Hp (Hb & Hn & Hc). cbn [enc_fld ev_fld]. repeat split; cbn [buf ns].
    + rewrite Hb, (add_key_step sp p o k Hp Hc), pctx_open. now rewrite <- !app_assoc.
    + unfold open_ns; cbn [frames]. rewrite Hn, app_length. cbn. lia.
    + unfold ctx_ok, open_ns; cbn [cur]. constructor.
  - (* FSkip *) intros _ p o base s _ HR. exact HR.
  - (* FStringer *) intros k out _ p o base s Hp HR. cbn [enc_fld ev_fld]. destruct out as [v|m|].
    + now apply step_string.
    + exact (step_err sp p o base s k (Some (panic_err m)) Hp HR).
    + now apply step_string.
  - (* FError *) intros k e _ p o base s Hp HR. cbn [enc_fld ev_fld].
    destruct (perr_all sp e k p o base s Hp HR) as [HR1 He].
    destruct (enc_err sp k e s) as [s1 err]. destruct (ev_err k e o) as [o1 err']. cbn [fst snd] in *. subst err.
    exact (step_err sp p o1 base s1 k err' Hp HR1).
  - (* FObject *) intros k m Hm Hw p o base s Hp HR. rewrite enc_fld_obj, ev_fld_obj. cbn [wf_fld] in Hw.
    destruct (Hm Hw) as [Hobj _]. rewrite (Hobj {| buf := add_key k (buf s); ns := ns s |}).
    destruct (ev_obj c m) as [v e'] eqn:E'. cbn [fst snd buf ns].
    rewrite (add_sep_pre sp _ (add_key_pre sp k (buf s))).
    assert (Hv : tail_ok (pv v)).
    { destruct m as [calls ret]. rewrite ev_obj_eq in E'. injection E' as <- _. apply pv_obj_tail. }
    pose proof (step_member sp p o base s k v Hp HR Hv) as HR2.
    exact (step_err sp p _ base _ k e' Hp HR2).
  - (* FInline *) intros m Hm Hw p o base s Hp HR. destruct m as [calls ret]. rewrite enc_fld_inl, ev_fld_inl. cbn [wf_fld] in Hw.
    destruct (Hm Hw) as [_ Hinl]. specialize (Hinl p o base s Hp HR).
    destruct (enc_inl c sp (Obj calls ret) s) as [s2 e] eqn:E. cbn [fst snd] in Hinl. destruct Hinl as [HR2 ->].
    exact (step_err sp p _ base _ [] ret Hp HR2).
  - (* FArray *) intros k a Ha Hw p o base s Hp HR. rewrite enc_fld_arr, ev_fld_arr. cbn [wf_fld] in Hw.
    rewrite (Ha Hw {| buf := add_key k (buf s); ns := ns s |}).
    destruct (ev_arr c a) as [v e'] eqn:E'. cbn [fst snd buf ns].
    rewrite (add_sep_pre sp _ (add_key_pre sp k (buf s))).
    assert (Hv : tail_ok (pv v)).
    { destruct a as [es ret stop]. rewrite ev_arr_eq in E'. destruct (ev_elems' stop es). injection E' as <- _. apply pv_arr_tail. }
    pose proof (step_member sp p o base s k v Hp HR Hv) as HR2.
    exact (step_err sp p _ base _ k e' Hp HR2).
  - (* Obj *) intros cs r Hcs Hw. cbn [wf_objm] in Hw. apply wf_calls_forall in Hw. split.
    + intros s. rewrite enc_obj_eq, ev_obj_eq. cbn [fst snd]. f_equal. f_equal.
      set (q := add_sep (buf s)).
      assert (Hp : pre_ok (q ++ [LBRACE])) by (apply pre_ok_snoc; reflexivity).
      pose proof (fold_flds cs Hcs Hw (q ++ [LBRACE]) octx0 0 {| buf := q ++ [LBRACE]; ns := 0 |} Hp (R_octx0 sp _)) as HF.
      exact (obj_value sp q _ _ HF).
    + intros p o base s Hp HR. rewrite enc_inl_eq. cbn [fst snd]. split; [|reflexivity].
      exact (fold_flds cs Hcs Hw p o base s Hp HR).
  - (* Arr *) intros es r stop Hes Hw s. cbn [wf_arrm] in Hw. apply wf_elems_forall in Hw.
    rewrite enc_arr_eq, ev_arr_eq.
    set (q := add_sep (buf s)).
    assert (Hp : pre_ok (q ++ [LBRACK])) by (apply pre_ok_snoc; reflexivity).
    destruct (elems_loop stop es Hes Hw (q ++ [LBRACK]) [] {| buf := q ++ [LBRACK]; ns := ns s |} Hp (arr_inv_init sp _)) as ([H1 _] & H2 & H3).
    destruct (enc_elems' stop es _) as [s2 early]. destruct (ev_elems' stop es) as [vs early']. cbn [fst snd app buf ns] in *. subst early.
    f_equal. unfold app_buf. f_equal; [|exact H2]. rewrite H1, pv_arr. now rewrite <- !app_assoc.
  - (* elems *) intros b _. split; [intros s; destruct b; reflexivity|intros v [= <-]; apply bool_tail].
  - intros z _. split; [intros s; reflexivity|intros v [= <-]; apply print_Z_tail].
  - intros z _. split; [intros s; reflexivity|intros v [= <-]; apply print_Z_tail].
  - intros f Hw. cbn [wf_elem] in Hw. split.
    + intros s. cbn [enc_elem ev_elem fst snd JsonAst.pv]. unfold ap_float, ap_raw. now rewrite float_atom_txt.
    + intros v [= <-]. cbn [JsonAst.pv]. rewrite float_atom_txt. now apply float_tail.
  - intros v _. split; [intros s; reflexivity|intros w [= <-]; apply quoted_tail].
  - intros v _. split; [intros s; reflexivity|intros w [= <-]; apply quoted_tail].
  - intros re im g _. split; [intros s; cbn [enc_elem ev_elem fst snd]; now rewrite cplx_eq|intros w [= <-]; apply aq_tail].
  - intros d Hw. cbn [wf_elem] in Hw. split.
    + intros s. cbn [enc_elem ev_elem fst snd]. now rewrite (ap_dur_eq c sp d _ Hw).
    + intros v [= <-]. now apply dur_tail.
  - intros t Hw. cbn [wf_elem] in Hw. split.
    + intros s. cbn [enc_elem ev_elem fst snd]. now rewrite (ap_time_eq c sp t _ Hw).
    + intros v [= <-]. now apply time_tail.
  - intros r Hw. cbn [wf_elem] in Hw. destruct r as [|t|m]; (split; [intros s; reflexivity|]).
    + intros v [= <-]. apply null_tail.
    + intros v [= <-]. now apply raw_tail.
    + intros v [=].
  - intros m Hm Hw. cbn [wf_elem] in Hw. destruct (Hm Hw) as [Hobj _]. split.
    + intros s. rewrite enc_elem_obj, ev_elem_obj. rewrite (Hobj s). destruct (ev_obj c m). reflexivity.
    + intros v. rewrite ev_elem_obj. destruct m as [calls ret]. rewrite ev_obj_eq. intros [= <-]. apply pv_obj_tail.
  - intros a Ha Hw. cbn [wf_elem] in Hw. split.
    + intros s. rewrite enc_elem_arr, ev_elem_arr. rewrite (Ha Hw s). destruct (ev_arr c a). reflexivity.
    + intros v. rewrite ev_elem_arr. destruct a as [es ret stop]. rewrite ev_arr_eq. destruct (ev_elems' stop es). intros [= <-]. apply pv_arr_tail.
  - intros msg _. split; [intros s; reflexivity|intros v [=]].
Qed.

Corollary refine_flds fs : wf_flds fs = true -> forall p o base s, pre_ok p -> R p o base s ->
  R p (ev_flds c fs o) base (enc_flds c sp fs s).
Proof.
  intros Hw p o base s Hp HR. rewrite enc_flds_eq, ev_flds_eq. apply fold_flds; auto.
  - apply Forall_forall. intros f _. apply refine_all.
  - unfold wf_flds in Hw. rewrite forallb_forall in Hw. now apply Forall_forall.
Qed.
End S.

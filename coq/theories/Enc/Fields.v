(* The inputs of the encoders: zapcore.Field values after construction, with
   user marshalers as scripts (a marshaler can only act through the encoder
   interface, so it IS a finite sequence of interface calls followed by nil or an
   error) and standard-library answers (strconv, time, fmt, encoding/json,
   String()/Error() outcomes) carried as oracle values. *)
From Coq Require Import List ZArith NArith Bool.
From Coq.Strings Require Import Byte.
Import ListNotations.
From Zap Require Import Base.Wire.

(* a float: its class and strconv.AppendFloat(_, v, 'f', -1, bitSize) *)
Inductive fclass := FNaN | FPInf | FNInf | FFin.
Record fv := { fcls : fclass; ftxt : bytes }.

(* what the configured Time/Duration encoder appends for one value *)
Inductive rend := RFloat (f : fv) | RInt (z : Z) | RStr (s : bytes) | RLayout (s : bytes).
Record tv := { t_nanos : Z (* UnixNano *); t_rend : rend }.
Record dv := { d_nanos : Z (* int64(d) *); d_rend : rend }.

(* reflection fallback: encoding/json of the value (HTML escaping off, trailing newline trimmed) *)
Inductive rv := RNil | ROk (txt : bytes) | RErr (msg : bytes).
(* String() / Error() outcome; OPanic carries fmt.Sprint of the panic value *)
Inductive outcome := OOk (s : bytes) | OPanic (msg : bytes) | ONilPtr.
(* an error value: Error() outcome, "%+v" text if it is a fmt.Formatter, causes if it is an errorGroup *)
Inductive errv := ErrV (msg : outcome) (verbose : option bytes) (group : option (list (option errv))).

Inductive fld :=
| FBool (k : bytes) (b : bool)
| FInt (k : bytes) (z : Z)            (* Int64/32/16/8Type: the int64 the encoder receives *)
| FUint (k : bytes) (z : Z)           (* Uint64/32/16/8/UintptrType *)
| FFloat (k : bytes) (f : fv)         (* Float64/Float32Type, text at its own bit size *)
| FString (k s : bytes)
| FByteString (k s : bytes)
| FBinary (k s : bytes)
| FComplex (k : bytes) (re im : fv) (im_ge0 : bool)
| FDuration (k : bytes) (d : dv)
| FTime (k : bytes) (t : tv)
| FReflect (k : bytes) (r : rv)
| FNamespace (k : bytes)
| FSkip
| FStringer (k : bytes) (o : outcome)
| FError (k : bytes) (e : errv)
| FObject (k : bytes) (m : objm)
| FInline (m : objm)
| FArray (k : bytes) (a : arrm)
with objm := Obj (calls : list fld) (ret : option bytes)
with arrm := Arr (elems : list elem) (ret : option bytes) (stop_on_err : bool)
with elem :=
| EBool (b : bool) | EInt (z : Z) | EUint (z : Z) | EFloat (f : fv)
| EStr (s : bytes) | EBStr (s : bytes) | ECplx (re im : fv) (im_ge0 : bool)
| EDur (d : dv) | ETime (t : tv) | ERefl (r : rv)
| EObj (m : objm) | EArr (a : arrm)
| EFail (msg : bytes).   (* an element call that appends nothing and fails in every encoder: a panicking String() inside zap.Stringers *)

(* sub-encoders of EncoderConfig, as far as the properties quantify over them:
   nil, a user encoder that appends nothing, or a built-in that appends once *)
Inductive senc := SNil | SNoop | SActive.

Record cfg := {
  k_message : bytes; k_level : bytes; k_time : bytes; k_name : bytes;
  k_caller : bytes; k_function : bytes; k_stack : bytes;
  skip_line_ending : bool; line_ending : bytes;
  e_level : senc; e_time : senc; e_duration : senc; e_caller : senc; e_name : senc;
  console_sep : bytes;
  (* the two repaired defects, kept switchable so that the pre-fix behaviour stays expressible:
     q_layout_escaped = AppendTimeLayout escapes the formatted text (fix) / writes it raw (orig);
     q_nil_caller_guard = a nil EncodeCaller omits the caller (fix) / is called and panics (orig) *)
  q_layout_escaped : bool; q_nil_caller_guard : bool
}.

Record entry := {
  lvl_text : bytes;        (* what the active LevelEncoder passes to AppendString *)
  lvl_string : bytes;      (* Level.String(), the fallback *)
  time_zero : bool; time_val : tv;
  time_col : bytes;        (* console: fmt.Fprint of what the TimeEncoder appended *)
  name : bytes;
  caller_defined : bool;
  caller_text : bytes;     (* what the active CallerEncoder passes to AppendString *)
  caller_string : bytes;   (* EntryCaller.String(), the fallback *)
  func : bytes; message : bytes; stack : bytes
}.

(* base64.StdEncoding.EncodeToString, modelled. *)
From Coq Require Import List ZArith NArith Bool Lia.
From Coq.Strings Require Import Byte.
Import ListNotations.
From Zap Require Import Base.Wire Enc.Bytes.
Local Open Scope N_scope.

Definition b64char (n : N) : byte :=
  let c := if n <? 26 then 65 + n else if n <? 52 then 97 + (n - 26) else if n <? 62 then 48 + (n - 52)
           else if n =? 62 then 43 else 47 in
  match Byte.of_N c with Some b => b | None => x00 end.
Definition PAD : byte := x3d.

Fixpoint encode64 (s : bytes) : bytes :=
  match s with
  | [] => []
  | [a] => let x := bN a in [b64char (x / 4); b64char ((x mod 4) * 16); PAD; PAD]
  | [a; b] => let x := bN a in let y := bN b in
      [b64char (x / 4); b64char ((x mod 4) * 16 + y / 16); b64char ((y mod 16) * 4); PAD]
  | a :: b :: c :: r => let x := bN a in let y := bN b in let z := bN c in
      b64char (x / 4) :: b64char ((x mod 4) * 16 + y / 16) :: b64char ((y mod 16) * 4 + z / 64) :: b64char (z mod 64) :: encode64 r
  end.

(* C02 round trips of the modelled codecs: decimal integers (every integer, hence the
   full 64-bit range) and base64. *)
From Coq Require Import List ZArith NArith Bool Lia Decimal DecimalN DecimalPos ZifyN ZifyBool.
From Coq.Strings Require Import Byte.
Import ListNotations.
From Zap Require Import Base.Wire Enc.Bytes Enc.Decimal Enc.Base64.

(* ---- decimal ---- *)
Fixpoint bytes_uint (s : bytes) : option Decimal.uint :=
  match s with
  | [] => Some Nil
  | b :: r =>
      match bytes_uint r with
      | None => None
      | Some d =>
          match b with
          | x30 => Some (D0 d) | x31 => Some (D1 d) | x32 => Some (D2 d) | x33 => Some (D3 d) | x34 => Some (D4 d)
          | x35 => Some (D5 d) | x36 => Some (D6 d) | x37 => Some (D7 d) | x38 => Some (D8 d) | x39 => Some (D9 d)
          | _ => None
          end
      end
  end.
Definition parse_Z (s : bytes) : option Z :=
  match s with
  | [] => None
  | b :: r =>
      if Byte.eqb b x2d then option_map (fun d => Z.opp (Z.of_N (N.of_uint d))) (bytes_uint r)
      else option_map (fun d => Z.of_N (N.of_uint d)) (bytes_uint s)
  end.
Lemma bytes_uint_inv d : bytes_uint (uint_bytes d) = Some d.
Proof. induction d; cbn [uint_bytes bytes_uint]; rewrite ?IHd; reflexivity. Qed.
Lemma uint_bytes_head d : d <> Nil -> exists b r, uint_bytes d = b :: r /\ Byte.eqb b x2d = false.
Proof. destruct d; [congruence| | | | | | | | | |]; intros _; cbn [uint_bytes]; eexists; eexists; split; reflexivity. Qed.
Theorem int_roundtrip z : parse_Z (print_Z z) = Some z.
Proof.
  destruct z as [|p|p]; cbn [print_Z]; [reflexivity| |].
  - unfold print_N. cbn [N.to_uint].
    destruct (uint_bytes_head (Pos.to_uint p) (DecimalPos.Unsigned.to_uint_nonnil p)) as (b & r & E & Hb).
    unfold parse_Z. rewrite E, Hb, <- E, bytes_uint_inv. cbn [option_map].
    now rewrite DecimalPos.Unsigned.of_to.
  - unfold print_N, parse_Z. cbn [N.to_uint]. change (Byte.eqb x2d x2d) with true. cbv iota.
    rewrite bytes_uint_inv. cbn [option_map]. now rewrite DecimalPos.Unsigned.of_to.
Qed.

(* ---- base64 (standard alphabet, padded) ---- *)
Local Open Scope N_scope.
Definition b64val (b : byte) : option N :=
  let n := bN b in
  if (65 <=? n) && (n <=? 90) then Some (n - 65)
  else if (97 <=? n) && (n <=? 122) then Some (n - 71)
  else if (48 <=? n) && (n <=? 57) then Some (n + 4)
  else if n =? 43 then Some 62 else if n =? 47 then Some 63 else None.
Definition byteN (n : N) : byte := match Byte.of_N n with Some b => b | None => x00 end.
Fixpoint decode64 (s : bytes) : option bytes :=
  match s with
  | [] => Some []
  | a :: b :: c :: d :: r =>
      match b64val a, b64val b with
      | Some x, Some y =>
          if Byte.eqb d PAD then
            match r with
            | [] =>
                if Byte.eqb c PAD then Some [byteN (x * 4 + y / 16)]
                else match b64val c with
                     | Some z => Some [byteN (x * 4 + y / 16); byteN ((y mod 16) * 16 + z / 4)]
                     | None => None
                     end
            | _ => None
            end
          else
            match b64val c, b64val d, decode64 r with
            | Some z, Some w, Some rest =>
                Some (byteN (x * 4 + y / 16) :: byteN ((y mod 16) * 16 + z / 4) :: byteN ((z mod 4) * 64 + w) :: rest)
            | _, _, _ => None
            end
      | _, _ => None
      end
  | _ => None
  end.

Lemma b64val_char n : n < 64 -> b64val (b64char n) = Some n /\ Byte.eqb (b64char n) PAD = false.
Proof.
  intros H. destruct n as [|p]; [split; reflexivity|].
  destruct p as [[[[[[p|p|]|[p|p|]|]|[[p|p|]|[p|p|]|]|]|[[[p|p|]|[p|p|]|]|[[p|p|]|[p|p|]|]|]|]|[[[[p|p|]|[p|p|]|]|[[p|p|]|[p|p|]|]|]|[[[p|p|]|[p|p|]|]|[[p|p|]|[p|p|]|]|]|]|]|[[[[[p|p|]|[p|p|]|]|[[p|p|]|[p|p|]|]|]|[[[p|p|]|[p|p|]|]|[[p|p|]|[p|p|]|]|]|]|[[[[p|p|]|[p|p|]|]|[[p|p|]|[p|p|]|]|]|[[[p|p|]|[p|p|]|]|[[p|p|]|[p|p|]|]|]|]|]|];
    try (split; reflexivity); exfalso; lia.
Qed.
Lemma byteN_bN a : byteN (bN a) = a.
Proof. unfold byteN, bN. now rewrite Byte.of_to_N. Qed.
Lemma bN_lt a : bN a < 256.
Proof. destruct a; reflexivity. Qed.

Ltac Zify.zify_post_hook ::= Z.div_mod_to_equations.
Lemma group3 x y z : x < 256 -> y < 256 -> z < 256 ->
  let c0 := x / 4 in let c1 := (x mod 4) * 16 + y / 16 in let c2 := (y mod 16) * 4 + z / 64 in let c3 := z mod 64 in
  c0 < 64 /\ c1 < 64 /\ c2 < 64 /\ c3 < 64 /\
  c0 * 4 + c1 / 16 = x /\ (c1 mod 16) * 16 + c2 / 4 = y /\ (c2 mod 4) * 64 + c3 = z.
Proof. intros. cbv zeta. repeat split; lia. Qed.

Theorem base64_roundtrip : forall s, decode64 (encode64 s) = Some s.
Proof.
  fix IH 1. intros s. destruct s as [|a [|b [|c r]]].
  - reflexivity.
  - cbn [encode64]. pose proof (bN_lt a) as Ha.
    destruct (group3 (bN a) 0 0 Ha ltac:(lia) ltac:(lia)) as (H0 & H1 & _ & _ & E0 & _ & _). cbv zeta in *.
    rewrite N.div_0_l, N.add_0_r in H1, E0 by lia.
    cbn [decode64]. destruct (b64val_char _ H0) as [-> _]. destruct (b64val_char _ H1) as [-> _].
    change (Byte.eqb PAD PAD) with true. cbv iota. now rewrite E0, byteN_bN.
  - cbn [encode64]. pose proof (bN_lt a) as Ha. pose proof (bN_lt b) as Hb.
    destruct (group3 (bN a) (bN b) 0 Ha Hb ltac:(lia)) as (H0 & H1 & H2 & _ & E0 & E1 & _). cbv zeta in *.
    rewrite N.div_0_l, N.add_0_r in H2, E1 by lia.
    cbn [decode64]. destruct (b64val_char _ H0) as [-> _]. destruct (b64val_char _ H1) as [-> _].
    destruct (b64val_char _ H2) as [V2 P2]. change (Byte.eqb PAD PAD) with true. cbv iota. rewrite P2, V2.
    replace (bN b mod 16 * 4 / 4) with (bN b mod 16) by lia.
    replace (bN b mod 16 * 4 / 4) with (bN b mod 16) in E1 by lia.
    now rewrite E0, E1, !byteN_bN.
  - cbn [encode64]. pose proof (bN_lt a) as Ha. pose proof (bN_lt b) as Hb. pose proof (bN_lt c) as Hc.
    destruct (group3 (bN a) (bN b) (bN c) Ha Hb Hc) as (H0 & H1 & H2 & H3 & E0 & E1 & E2). cbv zeta in *.
    cbn [decode64]. destruct (b64val_char _ H0) as [-> _]. destruct (b64val_char _ H1) as [-> _].
    destruct (b64val_char _ H2) as [-> _]. destruct (b64val_char _ H3) as [-> ->].
    rewrite (IH r), E0, E1, E2, !byteN_bN. reflexivity.
Qed.

(* Numbers and literals: what print_Z, true/false and quoted plain bodies parse to,
   in any delimited context. *)
From Coq Require Import List ZArith NArith Bool Lia Decimal DecimalFacts DecimalPos DecimalN.
From Coq.Strings Require Import Byte.
Import ListNotations.
From Zap Require Import Base.Wire Enc.Bytes Enc.Utf8 Enc.Decimal Enc.Fields Enc.JsonEnc Enc.JsonParse Enc.Parse1.

(* what may follow a value in printed output *)
Definition delim (rest : bytes) : Prop :=
  match rest with [] => True | b :: _ => b = COMMA \/ b = RBRACE \/ b = RBRACK end.

Lemma take_digits_app ds rest : forallb is_digit ds = true ->
  match rest with [] => True | b :: _ => is_digit b = false end ->
  take_digits (ds ++ rest) = (ds, rest).
Proof.
  induction ds as [|d r IH]; intros Hd Hr.
  - cbn [app]. destruct rest as [|b x]; [reflexivity|]. simpl. now rewrite Hr.
  - cbn [forallb] in Hd. apply andb_true_iff in Hd as [H1 H2]. simpl. rewrite H1. simpl in IH. rewrite (IH H2 Hr). reflexivity.
Qed.
Lemma delim_nondigit rest : delim rest -> match rest with [] => True | b :: _ => is_digit b = false end.
Proof. destruct rest as [|b x]; [auto|]. intros [->|[->| ->]]; reflexivity. Qed.

Lemma uint_bytes_digits d : forallb is_digit (uint_bytes d) = true.
Proof. induction d; cbn [uint_bytes forallb]; rewrite ?IHd; reflexivity. Qed.

(* Pos.to_uint is normalised: no leading zero *)
Lemma nzhead_not_D0 u w : nzhead u <> D0 w.
Proof. induction u; cbn [nzhead]; try discriminate. exact IHu. Qed.
Lemma pos_to_uint_head p : match Pos.to_uint p with D0 _ => False | Nil => False | _ => True end.
Proof.
  pose proof (DecimalPos.Unsigned.to_of (Pos.to_uint p)) as H.
  rewrite DecimalPos.Unsigned.of_to in H. cbn [N.to_uint] in H.
  pose proof (DecimalPos.Unsigned.to_uint_nonzero p) as Hz.
  pose proof (DecimalPos.Unsigned.to_uint_nonnil p) as Hn.
  destruct (Pos.to_uint p) as [|d'|d'|d'|d'|d'|d'|d'|d'|d'|d'] eqn:E; auto.
  unfold unorm in H. cbn [nzhead] in H. destruct (nzhead d') eqn:En.
  - apply Hz. exact H.
  - exact (nzhead_not_D0 d' _ En).
  - discriminate.
  - discriminate.
  - discriminate.
  - discriminate.
  - discriminate.
  - discriminate.
  - discriminate.
  - discriminate.
  - discriminate.
Qed.

Lemma p_frac_delim rest : delim rest -> p_frac rest = ([], rest).
Proof. destruct rest as [|b x]; [reflexivity|]. intros [->|[->| ->]]; reflexivity. Qed.
Lemma p_exp_delim rest : delim rest -> p_exp rest = (None, rest).
Proof. destruct rest as [|b x]; [reflexivity|]. intros [->|[->| ->]]; reflexivity. Qed.
Lemma p_sign_digit ds rest : match ds with dh :: _ => is_digit dh = true | [] => False end ->
  p_sign (ds ++ rest) = ([], ds ++ rest).
Proof. destruct ds as [|dh dr]; [tauto|]. intros H. cbn [app p_sign]. destruct dh; try discriminate; reflexivity. Qed.

Lemma p_number_digits (neg : bool) ds rest :
  ds <> [] -> forallb is_digit ds = true ->
  match ds with dh :: dr => Byte.eqb dh x30 && negb (is_nil dr) = false | [] => True end ->
  delim rest ->
  p_number ((if neg then [x2d] else []) ++ ds ++ rest) = Some ((if neg then [x2d] else []) ++ ds, rest).
Proof.
  intros Hn Hd Hz Hr. unfold p_number.
  assert (Hs : p_sign ((if neg then [x2d] else []) ++ ds ++ rest) = ((if neg then [x2d] else []), ds ++ rest)).
  { destruct neg; [reflexivity|]. cbn [app]. apply (p_sign_digit ds rest). destruct ds as [|dh dr]; [congruence|].
    cbn [forallb] in Hd. now apply andb_true_iff in Hd as [H0 _]. }
  rewrite Hs, (take_digits_app ds rest Hd (delim_nondigit rest Hr)).
  destruct ds as [|dh dr]; [congruence|]. rewrite Hz, (p_frac_delim rest Hr), (p_exp_delim rest Hr).
  now rewrite !List.app_nil_r.
Qed.

Lemma print_Z_parses z rest : delim rest -> p_number (print_Z z ++ rest) = Some (print_Z z, rest).
Proof.
  intros Hr. destruct z as [|p|p]; cbn [print_Z].
  - exact (p_number_digits false [x30] rest ltac:(discriminate) eq_refl eq_refl Hr).
  - unfold print_N. cbn [N.to_uint]. pose proof (pos_to_uint_head p) as Hh.
    apply (p_number_digits false (uint_bytes (Pos.to_uint p)) rest); [| apply uint_bytes_digits | | exact Hr];
      destruct (Pos.to_uint p); cbn [uint_bytes]; try contradiction; try discriminate; reflexivity.
  - unfold print_N. cbn [N.to_uint]. pose proof (pos_to_uint_head p) as Hh.
    apply (p_number_digits true (uint_bytes (Pos.to_uint p)) rest); [| apply uint_bytes_digits | | exact Hr];
      destruct (Pos.to_uint p); cbn [uint_bytes]; try contradiction; try discriminate; reflexivity.
Qed.

(* p_value on a number token whose first byte is '-' or a digit *)
Lemma p_value_number f t raw rest : 
  match t with b :: _ => is_digit b = true \/ b = x2d | [] => False end ->
  p_number (t ++ rest) = Some (raw, rest) ->
  p_value (S f) (t ++ rest) = Some (JNum raw, rest).
Proof.
  destruct t as [|b r]; [tauto|]. intros Hb Hp. cbn [app] in *. cbn [p_value].
  assert (Hws : skip_ws (b :: r ++ rest) = b :: r ++ rest).
  { cbn [skip_ws]. destruct Hb as [Hb| ->]; [destruct b; try discriminate; reflexivity|reflexivity]. }
  change ((b :: r) ++ rest) with (b :: r ++ rest). rewrite Hws.
  assert (Hne : Byte.eqb b LBRACE = false /\ Byte.eqb b LBRACK = false /\ Byte.eqb b QUOTE = false /\
                Byte.eqb b x74 = false /\ Byte.eqb b x66 = false /\ Byte.eqb b x6e = false).
  { destruct Hb as [Hb| ->]; [destruct b; try discriminate; repeat split; reflexivity|repeat split; reflexivity]. }
  destruct Hne as (-> & -> & -> & -> & -> & ->). change ((b :: r) ++ rest) with (b :: r ++ rest) in Hp. now rewrite Hp.
Qed.
Lemma print_Z_head z : match print_Z z with b :: _ => is_digit b = true \/ b = x2d | [] => False end.
Proof.
  destruct z as [|p|p]; cbn [print_Z]; [left; reflexivity| |right; reflexivity].
  unfold print_N. cbn [N.to_uint]. pose proof (pos_to_uint_head p). destruct (Pos.to_uint p); cbn [uint_bytes]; try contradiction; left; reflexivity.
Qed.


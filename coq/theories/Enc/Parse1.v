(* Strings: the parser decodes what safeAppendStringLike wrote to exactly the
   original bytes with every byte that is not part of a well-formed UTF-8 sequence
   replaced by U+FFFD (C02: strings byte-for-byte). *)
From Coq Require Import List ZArith NArith Bool Lia.
From Coq.Strings Require Import Byte.
Import ListNotations.
From Zap Require Import Base.Wire Enc.Bytes Enc.Utf8 Enc.Fields Enc.JsonEnc Enc.JsonParse.

(* the documented result of sanitising: invalid bytes become EF BF BD, everything else is kept *)
Fixpoint sanitize_fuel (fuel : nat) (s : bytes) : bytes :=
  match fuel with
  | O => []
  | S f =>
      match s with
      | [] => []
      | b :: r =>
          if (0x80 <=? bN b)%N then
            match decode_multi s with
            | Some n => firstn n s ++ sanitize_fuel f (skipn n s)
            | None => REPL ++ sanitize_fuel f r
            end
          else b :: sanitize_fuel f r
      end
  end.
Definition sanitize (s : bytes) : bytes := sanitize_fuel (S (length s)) s.

(* ---- one-step computation rules of p_string, by exhaustion over the first byte ---- *)
Lemma ps_plain b f X acc :
  (0x20 <=? bN b)%N = true -> (0x80 <=? bN b)%N = false -> Byte.eqb b BSLASH = false -> Byte.eqb b QUOTE = false ->
  p_string (S f) (b :: X) acc = p_string f X (b :: acc).
Proof. destruct b; intros H1 H2 H3 H4; try discriminate; reflexivity. Qed.
Lemma ps_esc b f X acc :
  (0x80 <=? bN b)%N = false ->
  ((0x20 <=? bN b)%N && negb (Byte.eqb b BSLASH) && negb (Byte.eqb b QUOTE)) = false ->
  p_string (S f) (esc_byte b ++ X) acc = p_string f X (b :: acc).
Proof. destruct b; intros H1 H2; try discriminate; reflexivity. Qed.
Lemma ps_repl f X acc : p_string (S f) (s_ufffd ++ X) acc = p_string f X (rev REPL ++ acc).
Proof. reflexivity. Qed.
Lemma ps_quote f X acc : p_string (S f) (QUOTE :: X) acc = Some (rev acc, X).
Proof. reflexivity. Qed.
Lemma ps_multi b r f acc : (0x80 <=? bN b)%N = true ->
  p_string (S f) (b :: r) acc =
  match decode_multi (b :: r) with
  | Some n => p_string f (skipn n (b :: r)) (rev (firstn n (b :: r)) ++ acc)
  | None => None
  end.
Proof.
  intros H.
  assert (E : ps_step (b :: r) acc =
              match decode_multi (b :: r) with
              | Some n => Some (inr (skipn n (b :: r), rev (firstn n (b :: r)) ++ acc))
              | None => None
              end) by (destruct b; try discriminate H; reflexivity).
  cbn [p_string]. rewrite E. destruct (decode_multi (b :: r)); reflexivity.
Qed.

(* decode_multi looks only at the bytes it accepts *)
Lemma decode_multi_prefix s k : decode_multi s = Some k ->
  length (firstn k s) = k /\ 2 <= k /\ forall X, decode_multi (firstn k s ++ X) = Some k.
Proof.
  unfold decode_multi. destruct s as [|b0 r]; [discriminate|].
  destruct (in_rng 194 223 b0) eqn:E1.
  - destruct r as [|b1 r1]; [discriminate|]. destruct (cont b1) eqn:C1; [|discriminate]. intros [= <-].
    split; [reflexivity|]. split; [lia|]. intros X. cbn [firstn app]. now rewrite E1, C1.
  - destruct (in_rng 224 239 b0) eqn:E2.
    + destruct r as [|b1 [|b2 r2]]; try discriminate.
      destruct (in_rng _ _ b1 && cont b2) eqn:C; [|discriminate]. intros [= <-].
      split; [reflexivity|]. split; [lia|]. intros X. cbn [firstn app]. now rewrite E1, E2, C.
    + destruct (in_rng 240 244 b0) eqn:E3; [|discriminate].
      destruct r as [|b1 [|b2 [|b3 r3]]]; try discriminate.
      destruct (in_rng _ _ b1 && cont b2 && cont b3) eqn:C; [|discriminate]. intros [= <-].
      split; [reflexivity|]. split; [lia|]. intros X. cbn [firstn app]. now rewrite E1, E2, E3, C.
Qed.

Lemma skipn_firstn_app {A} k (s X : list A) : length (firstn k s) = k -> skipn k (firstn k s ++ X) = X.
Proof. intros H. rewrite skipn_app, H, Nat.sub_diag. rewrite <- H at 1. rewrite skipn_all. reflexivity. Qed.
Lemma firstn_firstn_app {A} k (s X : list A) : length (firstn k s) = k -> firstn k (firstn k s ++ X) = firstn k s.
Proof. intros H. rewrite firstn_app, H, Nat.sub_diag. cbn [firstn]. rewrite app_nil_r. rewrite <- H at 1. apply firstn_all. Qed.

Lemma escape_parse n : forall s X acc f, length s < n -> length (escape_fuel n s) < f ->
  p_string f (escape_fuel n s ++ QUOTE :: X) acc = Some (rev acc ++ sanitize_fuel n s, X).
Proof.
  induction n as [|n IH]; intros s X acc f Hs Hf; [lia|].
  destruct s as [|b r].
  - cbn [escape_fuel sanitize_fuel app]. destruct f as [|f]; [cbn in Hf; lia|]. rewrite ps_quote. now rewrite app_nil_r.
  - cbn [escape_fuel sanitize_fuel] in *. cbn [length] in Hs.
    destruct (0x80 <=? bN b)%N eqn:Hhi.
    + destruct (decode_multi (b :: r)) as [k|] eqn:Hd.
      * destruct (decode_multi_prefix _ _ Hd) as (Hlen & Hk & Hpre).
        rewrite app_length, Hlen in Hf. destruct f as [|f]; [lia|].
        rewrite <- app_assoc.
        assert (Hfirst : firstn k (b :: r) = b :: tl (firstn k (b :: r))) by (destruct k; [lia|reflexivity]).
        rewrite Hfirst at 1. cbn [app]. rewrite ps_multi by exact Hhi.
        change (b :: tl (firstn k (b :: r)) ++ escape_fuel n (skipn k (b :: r)) ++ QUOTE :: X)
          with ((b :: tl (firstn k (b :: r))) ++ escape_fuel n (skipn k (b :: r)) ++ QUOTE :: X).
        rewrite <- Hfirst. rewrite Hpre, (skipn_firstn_app k _ _ Hlen), (firstn_firstn_app k _ _ Hlen).
        rewrite IH; [|rewrite skipn_length; cbn [length]; lia|lia].
        rewrite rev_app_distr, rev_involutive, <- app_assoc. reflexivity.
      * rewrite app_length in Hf. cbn [length s_ufffd] in Hf. destruct f as [|f]; [lia|].
        rewrite <- app_assoc, ps_repl. rewrite IH; [|lia|lia].
        rewrite rev_app_distr, rev_involutive, <- app_assoc. reflexivity.
    + destruct ((0x20 <=? bN b)%N && negb (Byte.eqb b BSLASH) && negb (Byte.eqb b QUOTE)) eqn:Hp.
      * apply andb_true_iff in Hp as [Hp H3]. apply andb_true_iff in Hp as [H1 H2].
        apply negb_true_iff in H2, H3. cbn [length app] in *. destruct f as [|f]; [lia|].
        rewrite ps_plain by assumption. rewrite IH; [|lia|lia]. cbn [rev]. now rewrite <- app_assoc.
      * rewrite app_length in Hf. destruct f as [|f]; [lia|].
        rewrite <- app_assoc, ps_esc by assumption.
        assert (1 <= length (esc_byte b)) by (unfold esc_byte; repeat (destruct (Byte.eqb _ _) || destruct (_ || _)); cbn; lia).
        rewrite IH; [|lia|lia]. cbn [rev]. now rewrite <- app_assoc.
Qed.

(* C02_string_roundtrip: decoding the escaped form gives the sanitised original *)
Theorem string_roundtrip s X : forall f, length (escape s) < f ->
  p_string f (escape s ++ QUOTE :: X) [] = Some (sanitize s, X).
Proof. intros f Hf. unfold escape, sanitize in *. rewrite escape_parse; [reflexivity|lia|exact Hf]. Qed.

(* sanitize is the identity on bytes that need no replacement: plain ASCII *)
Lemma sanitize_fuel_ascii n : forall s, length s < n ->
  forallb (fun b => negb (0x80 <=? bN b)%N) s = true -> sanitize_fuel n s = s.
Proof.
  induction n as [|n IH]; intros s Hl H; [lia|].
  destruct s as [|b r]; [reflexivity|]. cbn [forallb] in H. apply andb_true_iff in H as [H1 H2].
  apply negb_true_iff in H1. cbn [sanitize_fuel]. rewrite H1. f_equal. apply IH; [cbn in Hl; lia|exact H2].
Qed.
Lemma sanitize_ascii s : forallb (fun b => negb (0x80 <=? bN b)%N) s = true -> sanitize s = s.
Proof. intros H. unfold sanitize. apply sanitize_fuel_ascii; [lia|exact H]. Qed.

(* the escaped form contains no control character and no raw quote *)
Lemma escape_no_ctl n : forall s, no_ctl (escape_fuel n s) = true.
Proof.
  induction n as [|n IH]; intros s; [reflexivity|]. destruct s as [|b r]; [reflexivity|]. cbn [escape_fuel].
  destruct (0x80 <=? bN b)%N eqn:Hhi.
  - destruct (decode_multi (b :: r)) as [k|] eqn:Hd.
    + unfold no_ctl in *. rewrite forallb_app, IH, andb_true_r.
      (* every byte of an accepted multi-byte sequence is >= 0x80 *)
      revert Hd. unfold decode_multi.
      destruct (in_rng 194 223 b) eqn:E1.
      * destruct r as [|b1 r1]; [discriminate|]. destruct (cont b1) eqn:C1; [|discriminate]. intros [= <-]. cbn [firstn forallb].
        destruct b; try discriminate; destruct b1; try discriminate; reflexivity.
      * destruct (in_rng 224 239 b) eqn:E2.
        -- destruct r as [|b1 [|b2 r2]]; try discriminate. destruct (in_rng _ _ b1 && cont b2) eqn:C; [|discriminate]. intros [= <-].
           apply andb_true_iff in C as [C1 C2]. cbn [firstn forallb].
           assert (G : forall x lo hi, (0x80 <=? lo)%N = true -> in_rng lo hi x = true -> negb (bN x <? 32)%N = true).
           { intros x lo hi Hlo Hx. unfold in_rng in Hx. apply andb_true_iff in Hx as [Hx _]. apply negb_true_iff, N.ltb_ge.
             apply N.leb_le in Hlo, Hx. lia. }
           rewrite (G b 224%N 239%N eq_refl E2), (G b2 128%N 191%N eq_refl C2).
           assert (H1 : negb (bN b1 <? 32)%N = true)
             by (revert C1; destruct (bN b =? 224)%N, (bN b =? 237)%N; intros C1; (eapply G; [|exact C1]); reflexivity).
           now rewrite H1.
        -- destruct (in_rng 240 244 b) eqn:E3; [|discriminate].
           destruct r as [|b1 [|b2 [|b3 r3]]]; try discriminate. destruct (in_rng _ _ b1 && cont b2 && cont b3) eqn:C; [|discriminate]. intros [= <-].
           apply andb_true_iff in C as [C C3]. apply andb_true_iff in C as [C1 C2]. cbn [firstn forallb].
           assert (G : forall x lo hi, (0x80 <=? lo)%N = true -> in_rng lo hi x = true -> negb (bN x <? 32)%N = true).
           { intros x lo hi Hlo Hx. unfold in_rng in Hx. apply andb_true_iff in Hx as [Hx _]. apply negb_true_iff, N.ltb_ge.
             apply N.leb_le in Hlo, Hx. lia. }
           rewrite (G b 240%N 244%N eq_refl E3), (G b2 128%N 191%N eq_refl C2), (G b3 128%N 191%N eq_refl C3).
           assert (H1 : negb (bN b1 <? 32)%N = true)
             by (revert C1; destruct (bN b =? 240)%N, (bN b =? 244)%N; intros C1; (eapply G; [|exact C1]); reflexivity).
           now rewrite H1.
    + unfold no_ctl in *. rewrite forallb_app, IH. reflexivity.
  - destruct ((0x20 <=? bN b)%N && negb (Byte.eqb b BSLASH) && negb (Byte.eqb b QUOTE)) eqn:Hp.
    + unfold no_ctl in *. cbn [forallb]. rewrite IH, andb_true_r.
      apply andb_true_iff in Hp as [Hp _]. apply andb_true_iff in Hp as [H1 _]. apply negb_true_iff, N.ltb_ge. apply N.leb_le in H1. exact H1.
    + unfold no_ctl in *. rewrite forallb_app, IH, andb_true_r. destruct b; try discriminate; reflexivity.
Qed.

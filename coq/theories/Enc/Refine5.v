(* Whole entries: EncodeEntry (metadata, accumulated context, call-site fields,
   namespace closing, stack trace, line ending) prints the tree-level entry. *)
From Coq Require Import List ZArith NArith Bool Lia.
From Coq.Strings Require Import Byte.
Import ListNotations.
From Zap Require Import Base.Wire Enc.Bytes Enc.Decimal Enc.Base64 Enc.Fields Enc.JsonEnc Enc.JsonParse Enc.JsonAst Enc.Wf Enc.Refine1 Enc.Refine2 Enc.Refine3 Enc.Refine4.

(* members placed in front of an open context *)
Definition prepend (ms : list member) (o : octx) : octx :=
  match frames o with
  | [] => {| frames := []; cur := ms ++ cur o |}
  | (m0, k) :: r => {| frames := (ms ++ m0, k) :: r; cur := cur o |}
  end.
Lemma push_prepend ms o m : push (prepend ms o) m = prepend ms (push o m).
Proof. unfold prepend, push. destruct (frames o) as [|[m0 k] r]; cbn [frames cur]; [now rewrite app_assoc|reflexivity]. Qed.
Lemma open_prepend ms o k : open_ns (prepend ms o) k = prepend ms (open_ns o k).
Proof. unfold prepend, open_ns. destruct (frames o) as [|[m0 k0] r]; cbn [frames cur app]; reflexivity. Qed.
Lemma err_m_prepend ms o k e : err_m k e (prepend ms o) = prepend ms (err_m k e o).
Proof. destruct e; cbn [err_m]; [apply push_prepend|reflexivity]. Qed.
Lemma close_prepend ms o : close (prepend ms o) = ms ++ close o.
Proof.
  unfold close, prepend. destruct (frames o) as [|[m0 k] r]; cbn [frames cur close_frames]; [reflexivity|].
  now rewrite <- app_assoc.
Qed.
Lemma ev_err_prepend ms k e o :
  ev_err k e (prepend ms o) = (prepend ms (fst (ev_err k e o)), snd (ev_err k e o)).
Proof.
  destruct e as [msg verbose group]. rewrite !ev_err_eq. destruct msg as [basic|m|]; cbn [fst snd].
  - destruct group as [causes|].
    + cbn zeta. destruct (ev_causes causes) as [vs err]. cbn [fst snd]. now rewrite !push_prepend.
    + destruct verbose as [v|]; [destruct (bytes_eqb v basic)|]; cbn [fst snd]; now rewrite ?push_prepend.
  - reflexivity.
  - now rewrite push_prepend.
Qed.

Section Commute.
Variable c : cfg.
Variable ms : list member.
Lemma ev_fld_prepend : forall f o, ev_fld c f (prepend ms o) = prepend ms (ev_fld c f o).
Proof.
  apply (fld_ind' (fun f => forall o, ev_fld c f (prepend ms o) = prepend ms (ev_fld c f o))
                  (fun m => match m with Obj calls _ => forall o, ev_flds' c calls (prepend ms o) = prepend ms (ev_flds' c calls o) end)
                  (fun _ => True) (fun _ => True)); try (intros; exact I);
    try (intros; cbn [ev_fld]; now rewrite ?push_prepend, ?open_prepend).
  - intros k r o. cbn [ev_fld]. destruct (refl_atom r); [apply push_prepend|apply err_m_prepend].
  - intros k out o. cbn [ev_fld]. destruct out; now rewrite ?push_prepend, ?err_m_prepend.
  - intros k e o. cbn [ev_fld]. rewrite ev_err_prepend. destruct (ev_err k e o) as [o1 err]. cbn [fst snd]. apply err_m_prepend.
  - intros k m _ o. rewrite !ev_fld_obj. destruct (ev_obj c m). now rewrite push_prepend, err_m_prepend.
  - intros [calls ret] H o. rewrite !ev_fld_inl, H. apply err_m_prepend.
  - intros k a _ o. rewrite !ev_fld_arr. destruct (ev_arr c a). now rewrite push_prepend, err_m_prepend.
  - intros cs r H. induction H as [|f l Hf _ IH]; intros o; [reflexivity|]. cbn [ev_flds']. now rewrite Hf, IH.
Qed.
Lemma ev_flds_prepend fs o : ev_flds c fs (prepend ms o) = prepend ms (ev_flds c fs o).
Proof. unfold ev_flds. revert o. induction fs as [|f r IH]; intros o; [reflexivity|]. cbn [fold_left]. now rewrite ev_fld_prepend, IH. Qed.
End Commute.

Section S.
Variable c : cfg.
Variable sp : bool.
Notation pctx := (pctx sp).
Notation pv := (pv sp).
Notation popen := (popen sp).
Notation R := (R sp).

Lemma join_app sep a b : a <> [] -> b <> [] -> join sep (a ++ b) = join sep a ++ sep ++ join sep b.
Proof.
  intros Ha Hb. induction a as [|x [|y r] IH]; [congruence| |].
  - cbn [app join]. destruct b; [congruence|reflexivity].
  - change (join sep ((x :: y :: r) ++ b)) with (x ++ sep ++ join sep ((y :: r) ++ b)).
    rewrite IH by discriminate. change (join sep (x :: y :: r)) with (x ++ sep ++ join sep (y :: r)).
    now rewrite <- !app_assoc.
Qed.
Lemma popen_app a b : popen (a ++ b) = popen a ++ (if is_nil a || is_nil b then [] else sepb sp) ++ popen b.
Proof.
  unfold JsonAst.popen. rewrite map_app. destruct a as [|x a']; [reflexivity|]. destruct b as [|y b'].
  - cbn [map is_nil orb app join]. now rewrite !app_nil_r.
  - cbn [is_nil orb]. rewrite join_app by discriminate. reflexivity.
Qed.
Lemma popen_nil_iff ms : popen ms = [] -> ms = [].
Proof.
  destruct ms as [|m r]; [reflexivity|]. intros H. exfalso.
  destruct (exists_last (l := m :: r) ltac:(discriminate)) as [l [x E]]. rewrite E, popen_snoc in H.
  apply app_eq_nil in H as [_ H]. apply app_eq_nil in H as [_ H]. unfold pm, quoted in H. cbn in H. discriminate.
Qed.
Lemma pframe_nonnil f : pframe sp f <> [].
Proof. unfold pframe. intros H. apply (f_equal (@length _)) in H. rewrite !app_length in H. cbn in H. lia. Qed.
Lemma pctx_nil_iff o : pctx o = [] -> frames o = [] /\ cur o = [].
Proof.
  unfold Refine1.pctx. intros H. apply app_eq_nil in H as [H1 H2]. split; [|now apply popen_nil_iff].
  destruct (frames o) as [|f r]; [reflexivity|]. cbn [map concat] in H1. apply app_eq_nil in H1 as [H1 _].
  now apply pframe_nonnil in H1.
Qed.
Lemma pframe_prepend ms m0 k :
  pframe sp (ms ++ m0, k) = popen ms ++ (if is_nil ms then [] else sepb sp) ++ pframe sp (m0, k).
Proof.
  unfold pframe; cbn [fst snd]. rewrite popen_app. destruct ms as [|m ms']; [reflexivity|]. cbn [is_nil orb].
  destruct m0 as [|y ys]; cbn [is_nil sepif app]; rewrite <- ?app_assoc; reflexivity.
Qed.
Lemma is_nil_app_l {A} (a b : list A) : a <> [] -> is_nil (a ++ b) = false.
Proof. destruct a; [congruence|reflexivity]. Qed.
Lemma pctx_prepend ms o :
  pctx (prepend ms o) = popen ms ++ (if is_nil ms || is_nil (pctx o) then [] else sepb sp) ++ pctx o.
Proof.
  unfold prepend, Refine1.pctx. destruct (frames o) as [|[m0 k] r] eqn:Ef; cbn [frames cur map concat app].
  - rewrite popen_app. destruct ms as [|m ms']; [reflexivity|]. cbn [is_nil orb].
    destruct (cur o) as [|x xs]; [reflexivity|]. cbn [is_nil].
    destruct (popen (x :: xs)) eqn:E; [apply popen_nil_iff in E; discriminate|reflexivity].
  - rewrite pframe_prepend. rewrite <- (app_assoc (pframe sp (m0, k))).
    rewrite (is_nil_app_l (pframe sp (m0, k))) by apply pframe_nonnil.
    rewrite orb_false_r. now rewrite <- !app_assoc.
Qed.

Lemma ctx_ok_prepend ms o : Forall (mem_ok sp) ms -> ctx_ok sp o -> ctx_ok sp (prepend ms o).
Proof.
  unfold ctx_ok, prepend. intros Hm Ho. destruct (frames o) as [|[m0 k] r]; cbn [cur]; [|exact Ho].
  apply Forall_app. auto.
Qed.

(* ---- the With chain ---- *)
Lemma with_chain_R ctxs : forallb wf_flds ctxs = true ->
  R [] (ev_with_chain c ctxs) 0 (with_chain c sp ctxs).
Proof.
  unfold ev_with_chain, with_chain.
  assert (G : forall ctxs o s, forallb wf_flds ctxs = true -> R [] o 0 s ->
            R [] (fold_left (fun o fs => ev_flds c fs o) ctxs o) 0 (fold_left (fun s fs => enc_flds c sp fs s) ctxs s)).
  { induction ctxs0 as [|fs r IH]; intros o s Hw HR; [exact HR|]. cbn [forallb] in Hw. apply andb_true_iff in Hw as [H1 H2].
    cbn [fold_left]. apply IH; [exact H2|]. apply refine_flds; [exact H1|now left|exact HR]. }
  intros Hw. apply G; [exact Hw|]. exact (R_octx0 sp []).
Qed.

(* ---- metadata stages: each appends its members to the open top-level object ---- *)
Definition Rm (ms : list member) (b : bytes) : Prop := R [LBRACE] {| frames := []; cur := ms |} 0 {| buf := b; ns := 0 |}.
Lemma lb_pre : pre_ok [LBRACE].
Proof. right. exists LBRACE. split; reflexivity. Qed.
Lemma Rm_string ms b k v : Rm ms b -> Rm (ms ++ [str_m k v]) (ap_string sp v (add_key sp k b)).
Proof. intros H. exact (step_string sp [LBRACE] _ 0 _ k v lb_pre H). Qed.
Lemma Rm_init : Rm [] [LBRACE].
Proof. repeat split; cbn; constructor. Qed.

Lemma st_level_R ent ms b : Rm ms b ->
  Rm (ms ++ (if negb (is_nil (k_level c)) && negb (match e_level c with SNil => true | _ => false end)
             then [str_m (k_level c) (match e_level c with SActive => lvl_text ent | _ => lvl_string ent end)] else []))
     (st_level c sp ent b).
Proof.
  intros H. unfold st_level. destruct (negb (is_nil (k_level c)) && negb _) eqn:C; [|now rewrite app_nil_r].
  destruct (e_level c) eqn:E; cbn zeta.
  - cbn in C. rewrite andb_false_r in C. discriminate.
  - rewrite grew_same. now apply Rm_string.
  - unfold ap_string at 1, ap_raw. rewrite grew_app; [now apply Rm_string|]. unfold quoted. discriminate.
Qed.
Lemma st_time_R ent ms b : wf_entry ent = true -> Rm ms b ->
  Rm (ms ++ (if negb (is_nil (k_time c)) && negb (time_zero ent) then [(k_time c, TA (time_atom c (time_val ent)))] else []))
     (st_time c sp ent b).
Proof.
  intros Hw H. unfold st_time. destruct (negb (is_nil (k_time c)) && negb (time_zero ent)); [|now rewrite app_nil_r].
  rewrite (ap_time_eq c sp _ _ Hw), (add_sep_pre sp _ (add_key_pre sp _ _)).
  apply (step_member sp [LBRACE] _ 0 _ (k_time c) (TA (time_atom c (time_val ent))) lb_pre H). now apply time_tail.
Qed.
Lemma st_name_R ent ms b : Rm ms b ->
  Rm (ms ++ (if negb (is_nil (name ent)) && negb (is_nil (k_name c)) then [str_m (k_name c) (name ent)] else []))
     (st_name c sp ent b).
Proof.
  intros H. unfold st_name. destruct (negb (is_nil (name ent)) && negb (is_nil (k_name c))); [|now rewrite app_nil_r].
  cbn zeta. assert (G : grew (add_key sp (k_name c) b) (ap_string sp (name ent) (add_key sp (k_name c) b)) = true).
  { unfold ap_string, ap_raw. apply grew_app. unfold quoted. discriminate. }
  destruct (e_name c); rewrite ?G, ?grew_same; now apply Rm_string.
Qed.
Lemma st_caller_R ent ms b : q_nil_caller_guard c = true -> Rm ms b ->
  exists b', st_caller c sp ent b = Some b' /\
  Rm (ms ++ (if caller_defined ent then
               (if negb (is_nil (k_caller c)) then
                  match e_caller c with
                  | SNil => []
                  | SNoop => [str_m (k_caller c) (caller_string ent)]
                  | SActive => [str_m (k_caller c) (caller_text ent)]
                  end else []) ++
               (if negb (is_nil (k_function c)) then [str_m (k_function c) (func ent)] else [])
             else [])) b'.
Proof.
  intros Hq H. unfold st_caller. destruct (caller_defined ent); [|exists b; now rewrite app_nil_r].
  assert (G : exists bc, (if negb (is_nil (k_caller c)) then
                match e_caller c with
                | SNil => if q_nil_caller_guard c then Some b else None
                | SNoop => Some (ap_string sp (caller_string ent) (add_key sp (k_caller c) b))
                | SActive => Some (ap_string sp (caller_text ent) (add_key sp (k_caller c) b))
                end else Some b) = Some bc /\
              Rm (ms ++ (if negb (is_nil (k_caller c)) then
                  match e_caller c with
                  | SNil => []
                  | SNoop => [str_m (k_caller c) (caller_string ent)]
                  | SActive => [str_m (k_caller c) (caller_text ent)]
                  end else [])) bc).
  { destruct (negb (is_nil (k_caller c))); [|exists b; now rewrite app_nil_r].
    destruct (e_caller c).
    - rewrite Hq. exists b. now rewrite app_nil_r.
    - eexists. split; [reflexivity|]. now apply Rm_string.
    - eexists. split; [reflexivity|]. now apply Rm_string. }
  destruct G as (bc & -> & Hbc). eexists. split; [reflexivity|]. rewrite app_assoc.
  destruct (negb (is_nil (k_function c))); [now apply Rm_string|now rewrite app_nil_r].
Qed.
Lemma st_message_R ent ms b : Rm ms b ->
  Rm (ms ++ (if negb (is_nil (k_message c)) then [str_m (k_message c) (message ent)] else [])) (st_message c sp ent b).
Proof.
  intros H. unfold st_message. destruct (negb (is_nil (k_message c))); [now apply Rm_string|now rewrite app_nil_r].
Qed.

Lemma meta_R ent : q_nil_caller_guard c = true -> wf_entry ent = true ->
  exists b4, st_caller c sp ent (st_name c sp ent (st_time c sp ent (st_level c sp ent [LBRACE]))) = Some b4 /\
             Rm (meta_members c ent) (st_message c sp ent b4).
Proof.
  intros Hq Hw.
  pose proof (st_level_R ent [] _ Rm_init) as H1. cbn [app] in H1.
  pose proof (st_time_R ent _ _ Hw H1) as H2.
  pose proof (st_name_R ent _ _ H2) as H3.
  destruct (st_caller_R ent _ _ Hq H3) as (b4 & E & H4).
  exists b4. split; [exact E|].
  pose proof (st_message_R ent _ _ H4) as H5.
  unfold meta_members. rewrite <- !app_assoc in H5. exact H5.
Qed.

(* ---- the whole entry ---- *)
Lemma Rm_buf ms b : Rm ms b -> b = [LBRACE] ++ popen ms /\ Forall (mem_ok sp) ms.
Proof. intros (Hb & _ & Hc). cbn in Hb. split; [exact Hb|exact Hc]. Qed.

Lemma members_tail ms : ms <> [] -> Forall (mem_ok sp) ms -> sep_ok ([LBRACE] ++ popen ms).
Proof. intros Hn Hf. apply popen_tail; assumption. Qed.

Lemma close_tail o : ctx_ok sp o -> close o <> [] -> sep_ok ([LBRACE] ++ popen (close o)).
Proof.
  unfold close. intros Hc Hn. destruct (frames o) as [|[ms k] r]; cbn [close_frames] in *.
  - now apply popen_tail.
  - rewrite popen_snoc. unfold pm; cbn [fst snd]. rewrite !app_assoc. apply pv_obj_tail.
Qed.

Theorem entry_bytes ctxs ent fs :
  q_nil_caller_guard c = true -> forallb wf_flds ctxs = true -> wf_flds fs = true -> wf_entry ent = true ->
  encode_entry c sp (with_chain c sp ctxs) ent fs =
    Some (pv (TObj (entry_members c ctxs ent fs)) ++ resolved_le c).
Proof.
  intros Hq Hwc Hwf Hwe. unfold encode_entry.
  destruct (meta_R ent Hq Hwe) as (b4 & -> & Hm).
  set (meta := meta_members c ent) in *. set (b5 := st_message c sp ent b4) in *.
  destruct (Rm_buf _ _ Hm) as [Hb5 Hmok].
  pose proof (with_chain_R ctxs Hwc) as (Hcb & Hcn & Hcc).
  set (octx := ev_with_chain c ctxs) in *. set (ctx := with_chain c sp ctxs) in *.
  cbn [app] in Hcb.
  (* the state after the context bytes were copied *)
  assert (H6 : R [LBRACE] (prepend meta octx) 0
                 {| buf := if negb (is_nil (buf ctx)) then add_sep sp b5 ++ buf ctx else b5; ns := ns ctx |}).
  { repeat split; cbn [buf ns].
    - rewrite pctx_prepend, <- Hcb, Hb5. destruct (buf ctx) as [|x xs] eqn:Ebc; cbn [is_nil negb].
      + rewrite orb_true_r. now rewrite !app_nil_r.
      + rewrite orb_false_r. destruct meta as [|m ms] eqn:Em; cbn [is_nil].
        * cbn [JsonAst.popen map join app]. reflexivity.
        * rewrite (add_sep_value sp); [now rewrite <- !app_assoc|]. apply members_tail; [discriminate|exact Hmok].
    - rewrite Hcn. unfold prepend. destruct (frames octx) as [|[m0 k] r]; reflexivity.
    - now apply ctx_ok_prepend. }
  pose proof (refine_flds c sp fs Hwf [LBRACE] _ 0 _ lb_pre H6) as (H7b & H7n & H7c).
  rewrite ev_flds_prepend in H7b, H7n, H7c.
  set (of := ev_flds c fs octx) in *.
  set (s7 := enc_flds c sp fs _) in *.
  (* closing the namespaces *)
  assert (H8 : buf (close_ns s7) = [LBRACE] ++ popen (meta ++ close of)).
  { unfold close_ns; cbn [buf]. rewrite H7b, H7n. cbn [plus]. rewrite <- close_prepend. unfold close.
    rewrite popen_close. unfold Refine1.pctx. now rewrite <- !app_assoc. }
  unfold entry_members. fold meta. fold octx. fold of. rewrite H8.
  f_equal. rewrite pv_obj. unfold st_stack, stack_members.
  destruct (negb (is_nil (stack ent)) && negb (is_nil (k_stack c))).
  - (* with a stack member *)
    set (ms := meta ++ close of) in *.
    assert (Hms : ms = [] \/ sep_ok ([LBRACE] ++ popen ms)).
    { destruct ms as [|m0 r0] eqn:Ems; [now left|right]. rewrite <- Ems. unfold ms. rewrite <- close_prepend.
      apply close_tail; [exact H7c|]. rewrite close_prepend. fold ms. rewrite Ems. discriminate. }
    unfold ap_string. rewrite ap_raw_key. unfold add_key.
    change ([COLON] ++ (if sp then [SPACE] else [])) with (colb sp).
    rewrite (app_assoc meta). fold ms.
    rewrite popen_snoc. unfold pm, str_m; cbn [fst snd JsonAst.pv atxt].
    destruct Hms as [->|Hs].
    + cbn [JsonAst.popen map join sepif app]. rewrite (add_sep_pre sp [LBRACE] lb_pre). cbn [app]. now rewrite <- !app_assoc.
    + rewrite (add_sep_value sp _ Hs). destruct ms as [|m0 r0]; [cbn in Hs; discriminate|]. cbn [sepif]. now rewrite <- !app_assoc.
  - rewrite app_nil_r. now rewrite <- !app_assoc.
Qed.
End S.

(* Model of zapcore.MapObjectEncoder / sliceArrayEncoder (zapcore/memory_encoder.go):
   a map with a current-namespace pointer, last write wins.  Maps are
   insertion-ordered association lists (a write to an existing key replaces the
   value in place); the current-namespace pointer is a zipper of the maps on the
   path.  Leaves are the typed Go values the encoder stores.  No proofs here. *)
From Coq Require Import List ZArith NArith Bool.
From Coq.Strings Require Import Byte.
Import ListNotations.
From Zap Require Import Base.Wire Enc.Bytes Enc.Decimal Enc.Base64 Enc.Fields Enc.JsonEnc Enc.JsonAst.

Inductive leaf :=
| LBool (b : bool) | LInt (z : Z) | LUint (z : Z) | LFloat (f : fv)
| LStr (s : bytes) | LBin (s : bytes) | LCplx (re im : fv) (g : bool)
| LDur (d : dv) | LTime (t : tv) | LRefl (r : rv).

Inductive mtree (A : Type) :=
| ML (a : A) | MA (l : list (mtree A)) | MO (l : list (bytes * mtree A)).
Arguments ML {A} a. Arguments MA {A} l. Arguments MO {A} l.
Definition massoc (A : Type) := list (bytes * mtree A).

Fixpoint mset {A} (m : massoc A) (k : bytes) (v : mtree A) : massoc A :=
  match m with
  | [] => [(k, v)]
  | (k', v') :: r => if bytes_eqb k' k then (k, v) :: r else (k', v') :: mset r k v
  end.

Record mst (A : Type) := { mframes : list (massoc A * bytes); mcur : massoc A }.
Arguments mframes {A} m. Arguments mcur {A} m.
Definition mst0 {A} : mst A := {| mframes := []; mcur := [] |}.
Definition madd {A} (s : mst A) (k : bytes) (v : mtree A) : mst A :=
  {| mframes := mframes s; mcur := mset (mcur s) k v |}.
Definition mopen {A} (s : mst A) (k : bytes) : mst A :=
  {| mframes := mframes s ++ [(mcur s, k)]; mcur := [] |}.
Fixpoint mclose {A} (fs : list (massoc A * bytes)) (inner : massoc A) : massoc A :=
  match fs with
  | [] => inner
  | (ms, k) :: r => mset ms k (MO (mclose r inner))
  end.
Definition mroot {A} (s : mst A) : massoc A := mclose (mframes s) (mcur s).

Definition ocons {A} (v : option A) (l : list A) : list A := match v with Some x => x :: l | None => l end.
Definition mstr (s : mst leaf) (k v : bytes) : mst leaf := madd s k (ML (LStr v)).
Definition merr (k : bytes) (e : option bytes) (s : mst leaf) : mst leaf :=
  match e with None => s | Some msg => mstr s (k ++ s_Error) msg end.

(* encodeError on a MapObjectEncoder *)
Fixpoint mm_err (k : bytes) (e : errv) (s : mst leaf) {struct e} : mst leaf * option bytes :=
  match e with
  | ErrV msg verbose group =>
      match msg with
      | ONilPtr => (mstr s k s_nilptr, None)
      | OPanic m => (s, Some (panic_err m))
      | OOk basic =>
          let s1 := mstr s k basic in
          match group with
          | Some causes =>
              let '(vs, err) :=
                (fix go (l : list (option errv)) {struct l} : list (mtree leaf) * option bytes :=
                   match l with
                   | [] => ([], None)
                   | None :: r => go r
                   | Some ce :: r =>
                       let '(sc, e1) := mm_err s_error ce mst0 in
                       let v := MO (mroot sc) in
                       match e1 with
                       | Some m => ([v], Some m)
                       | None => let '(vs, e2) := go r in (v :: vs, e2)
                       end
                   end) causes in
              (madd s1 (k ++ s_Causes) (MA vs), err)
          | None =>
              match verbose with
              | Some v => if bytes_eqb v basic then (s1, None) else (mstr s1 (k ++ s_Verbose) v, None)
              | None => (s1, None)
              end
          end
      end
  end.

Fixpoint mm_fld (f : fld) (s : mst leaf) {struct f} : mst leaf :=
  match f with
  | FBool k v => madd s k (ML (LBool v))
  | FInt k z => madd s k (ML (LInt z))
  | FUint k z => madd s k (ML (LUint z))
  | FFloat k v => madd s k (ML (LFloat v))
  | FString k v | FByteString k v => madd s k (ML (LStr v))
  | FBinary k v => madd s k (ML (LBin v))
  | FComplex k re im g => madd s k (ML (LCplx re im g))
  | FDuration k d => madd s k (ML (LDur d))
  | FTime k t => madd s k (ML (LTime t))
  | FReflect k r => madd s k (ML (LRefl r))          (* AddReflected stores the value and never fails *)
  | FNamespace k => mopen s k
  | FSkip => s
  | FStringer k out =>
      match out with
      | OOk v => mstr s k v
      | ONilPtr => mstr s k s_nilptr
      | OPanic m => merr k (Some (panic_err m)) s
      end
  | FError k e => let '(s1, err) := mm_err k e s in merr k err s1
  | FObject k m => let '(v, err) := mm_obj m in merr k err (madd s k v)
  | FInline m =>
      match m with
      | Obj calls ret =>
          merr [] ret ((fix go (l : list fld) (s : mst leaf) {struct l} : mst leaf :=
                          match l with [] => s | f :: r => go r (mm_fld f s) end) calls s)
      end
  | FArray k a => let '(v, err) := mm_arr a in merr k err (madd s k v)
  end
with mm_obj (m : objm) {struct m} : mtree leaf * option bytes :=      (* a fresh MapObjectEncoder *)
  match m with
  | Obj calls ret =>
      (MO (mroot ((fix go (l : list fld) (s : mst leaf) {struct l} : mst leaf :=
                     match l with [] => s | f :: r => go r (mm_fld f s) end) calls mst0)), ret)
  end
with mm_arr (a : arrm) {struct a} : mtree leaf * option bytes :=      (* a fresh sliceArrayEncoder *)
  match a with
  | Arr elems ret stop =>
      let '(vs, early) :=
        (fix go (l : list elem) {struct l} : list (mtree leaf) * option bytes :=
           match l with
           | [] => ([], None)
           | e :: r =>
               let '(v, err) := mm_elem e in
               match err with
               | Some m => if stop then (ocons v [], Some m) else let '(vs, e2) := go r in (ocons v vs, e2)
               | None => let '(vs, e2) := go r in (ocons v vs, e2)
               end
           end) elems in
      (MA vs, match early with Some m => Some m | None => ret end)
  end
with mm_elem (e : elem) {struct e} : option (mtree leaf) * option bytes :=
  match e with
  | EBool v => (Some (ML (LBool v)), None)
  | EInt z => (Some (ML (LInt z)), None)
  | EUint z => (Some (ML (LUint z)), None)
  | EFloat v => (Some (ML (LFloat v)), None)
  | EStr v | EBStr v => (Some (ML (LStr v)), None)
  | ECplx re im g => (Some (ML (LCplx re im g)), None)
  | EDur d => (Some (ML (LDur d)), None)
  | ETime t => (Some (ML (LTime t)), None)
  | ERefl r => (Some (ML (LRefl r)), None)
  | EObj m => let '(v, err) := mm_obj m in (Some v, err)
  | EArr a => let '(v, err) := mm_arr a in (Some v, err)
  | EFail msg => (None, Some msg)
  end.

Definition mm_flds (fs : list fld) (s : mst leaf) : mst leaf := fold_left (fun s f => mm_fld f s) fs s.
Definition map_encode (fs : list fld) : massoc leaf := mroot (mm_flds fs mst0).

(* ---- the documented JSON representation of a typed leaf ---- *)
Section Repr.
Variable c : cfg.
Definition leaf_atom (l : leaf) : atom :=
  match l with
  | LBool b => bool_atom b
  | LInt z | LUint z => ANum (print_Z z)
  | LFloat f => float_atom f
  | LStr s => AStr s
  | LBin s => AStr (encode64 s)
  | LCplx re im g => cplx_atom re im g
  | LDur d => dur_atom c d
  | LTime t => time_atom c t
  | LRefl r => match r with RNil => ARaw s_null | ROk t => ARaw t | RErr m => AStr m end
  end.
End Repr.
Fixpoint mmap {A B} (f : A -> B) (t : mtree A) {struct t} : mtree B :=
  match t with
  | ML a => ML (f a)
  | MA l => MA ((fix go (l : list (mtree A)) := match l with [] => [] | x :: r => mmap f x :: go r end) l)
  | MO l => MO ((fix go (l : list (bytes * mtree A)) := match l with [] => [] | (k, x) :: r => (k, mmap f x) :: go r end) l)
  end.

(* ---- the last-write-wins view of a JSON tree ---- *)
Fixpoint viewT (v : jt) {struct v} : mtree atom :=
  match v with
  | TA a => ML a
  | TArr l => MA ((fix go (l : list jt) := match l with [] => [] | x :: r => viewT x :: go r end) l)
  | TObj l => MO ((fix go (l : list member) (acc : massoc atom) := match l with [] => acc | (k, x) :: r => go r (mset acc k (viewT x)) end) l [])
  end.

(* ---- canonical form for comparison with Go maps: keys sorted ---- *)
Fixpoint bytes_ltb (a b : bytes) : bool :=
  match a, b with
  | [], [] => false
  | [], _ => true
  | _, [] => false
  | x :: a', y :: b' => if (bN x <? bN y)%N then true else if (bN y <? bN x)%N then false else bytes_ltb a' b'
  end.
Fixpoint insert_sorted {A} (k : bytes) (v : A) (l : list (bytes * A)) : list (bytes * A) :=
  match l with
  | [] => [(k, v)]
  | (k', v') :: r => if bytes_ltb k k' then (k, v) :: l else (k', v') :: insert_sorted k v r
  end.
Fixpoint msort {A} (t : mtree A) {struct t} : mtree A :=
  match t with
  | ML a => ML a
  | MA l => MA ((fix go (l : list (mtree A)) := match l with [] => [] | x :: r => msort x :: go r end) l)
  | MO l => MO ((fix go (l : list (bytes * mtree A)) := match l with [] => [] | (k, x) :: r => insert_sorted k (msort x) (go r) end) l)
  end.

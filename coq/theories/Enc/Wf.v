(* Well-formedness of the oracle values a case carries (assumption monitors):
   what the proofs need from strconv / encoding/json / time.  Executable, so the
   driver evaluates it on every case; a failure is a broken standard-library
   assumption, never a zap violation. *)
From Coq Require Import List ZArith NArith Bool.
From Coq.Strings Require Import Byte.
Import ListNotations.
From Zap Require Import Base.Wire Enc.Bytes Enc.Fields Enc.JsonEnc Enc.JsonParse.

(* a token the separator logic can follow: non-empty, last byte is a value byte *)
Definition tok_okb (t : bytes) : bool := match lastb t with Some b => negb (nosep b) | None => false end.
(* the text of a finite float is exactly one JSON number *)
Definition num_okb (t : bytes) : bool :=
  match p_number t with Some (_, []) => true | _ => false end.
(* characters strconv may produce for NaN/Inf/finite floats inside a quoted complex number: no quote, backslash, control or non-ASCII byte *)
Definition plain_okb (t : bytes) : bool :=
  forallb (fun b => (0x20 <=? bN b)%N && (bN b <? 0x80)%N && negb (Byte.eqb b QUOTE) && negb (Byte.eqb b BSLASH)) t.
(* a reflected text is one JSON value, without control bytes *)
(* first byte: not whitespace, not a closing bracket *)
Definition start_okb (t : bytes) : bool :=
  match t with b :: _ => negb (is_ws b) && negb (Byte.eqb b RBRACK) | [] => false end.
Definition raw_okb (t : bytes) : bool :=
  tok_okb t && no_ctl t && start_okb t &&
  match p_value (length t) t with Some (_, []) => true | _ => false end.
Definition num_head_okb (t : bytes) : bool :=
  match t with b :: _ => is_digit b || Byte.eqb b x2d | [] => false end.

Definition wf_fv (f : fv) : bool :=
  plain_okb (ftxt f) && match fcls f with FFin => tok_okb (ftxt f) && num_okb (ftxt f) && num_head_okb (ftxt f) | _ => true end.
Definition wf_rend (r : rend) : bool := match r with RFloat f => wf_fv f | _ => true end.
Definition wf_tv (t : tv) : bool := wf_rend (t_rend t).
Definition wf_dv (d : dv) : bool := wf_rend (d_rend d).
Definition wf_rv (r : rv) : bool := match r with ROk t => raw_okb t | _ => true end.

Fixpoint wf_fld (f : fld) {struct f} : bool :=
  match f with
  | FFloat _ v => wf_fv v
  | FComplex _ re im _ => wf_fv re && wf_fv im
  | FDuration _ d => wf_dv d
  | FTime _ t => wf_tv t
  | FReflect _ r => wf_rv r
  | FObject _ m | FInline m => wf_objm m
  | FArray _ a => wf_arrm a
  | _ => true
  end
with wf_objm (m : objm) {struct m} : bool :=
  match m with Obj calls _ => (fix go (l : list fld) : bool := match l with [] => true | f :: r => wf_fld f && go r end) calls end
with wf_arrm (a : arrm) {struct a} : bool :=
  match a with Arr elems _ _ => (fix go (l : list elem) : bool := match l with [] => true | e :: r => wf_elem e && go r end) elems end
with wf_elem (e : elem) {struct e} : bool :=
  match e with
  | EFloat v => wf_fv v
  | ECplx re im _ => wf_fv re && wf_fv im
  | EDur d => wf_dv d
  | ETime t => wf_tv t
  | ERefl r => wf_rv r
  | EObj m => wf_objm m
  | EArr a => wf_arrm a
  | _ => true
  end.
Definition wf_flds (fs : list fld) : bool := forallb wf_fld fs.
Definition wf_entry (e : entry) : bool := wf_tv (time_val e).

(* The refinement: the byte-level encoder (whose separator logic looks only at the
   last byte written, and whose namespace logic is a counter) prints exactly the
   tree-level semantics, for every field tree, every nesting of objects, arrays,
   inline marshalers and namespaces left open, every error return. *)
From Coq Require Import List ZArith NArith Bool Lia.
From Coq.Strings Require Import Byte.
Import ListNotations.
From Zap Require Import Base.Wire Enc.Bytes Enc.Decimal Enc.Base64 Enc.Fields Enc.JsonEnc Enc.JsonParse Enc.JsonAst Enc.Wf Enc.Refine1 Enc.Refine2.

(* ---- induction principles for the nested types ---- *)
Definition opt_all (P : errv -> Prop) (oe : option errv) : Prop := match oe with Some e => P e | None => True end.
Definition grp_all (P : errv -> Prop) (g : option (list (option errv))) : Prop :=
  match g with Some l => Forall (opt_all P) l | None => True end.
Section ErrInd.
  Variable P : errv -> Prop.
  Hypothesis H : forall msg verbose group, grp_all P group -> P (ErrV msg verbose group).
  Fixpoint errv_ind' (e : errv) : P e :=
    match e with
    | ErrV msg verbose group =>
        H msg verbose group
          (match group as g return grp_all P g with
           | Some l => (fix go (l : list (option errv)) : Forall (opt_all P) l :=
                          match l with
                          | [] => Forall_nil _
                          | None :: r => Forall_cons (P := opt_all P) None I (go r)
                          | Some e :: r => Forall_cons (P := opt_all P) (Some e) (errv_ind' e) (go r)
                          end) l
           | None => I
           end)
    end.
End ErrInd.

Section FldInd.
  Variables (P : fld -> Prop) (Po : objm -> Prop) (Pa : arrm -> Prop) (Pe : elem -> Prop).
  Hypotheses
    (HBool : forall k b, P (FBool k b)) (HInt : forall k z, P (FInt k z)) (HUint : forall k z, P (FUint k z))
    (HFloat : forall k f, P (FFloat k f)) (HString : forall k s, P (FString k s)) (HBStr : forall k s, P (FByteString k s))
    (HBin : forall k s, P (FBinary k s)) (HCplx : forall k re im g, P (FComplex k re im g))
    (HDur : forall k d, P (FDuration k d)) (HTime : forall k t, P (FTime k t)) (HRefl : forall k r, P (FReflect k r))
    (HNs : forall k, P (FNamespace k)) (HSkip : P FSkip) (HStr : forall k o, P (FStringer k o))
    (HErr : forall k e, P (FError k e))
    (HObj : forall k m, Po m -> P (FObject k m)) (HInl : forall m, Po m -> P (FInline m))
    (HArr : forall k a, Pa a -> P (FArray k a))
    (HO : forall cs r, Forall P cs -> Po (Obj cs r))
    (HA : forall es r st, Forall Pe es -> Pa (Arr es r st))
    (HEB : forall b, Pe (EBool b)) (HEI : forall z, Pe (EInt z)) (HEU : forall z, Pe (EUint z)) (HEF : forall f, Pe (EFloat f))
    (HES : forall s, Pe (EStr s)) (HEBS : forall s, Pe (EBStr s)) (HEC : forall re im g, Pe (ECplx re im g))
    (HED : forall d, Pe (EDur d)) (HET : forall t, Pe (ETime t)) (HER : forall r, Pe (ERefl r))
    (HEO : forall m, Po m -> Pe (EObj m)) (HEA : forall a, Pa a -> Pe (EArr a)) (HEFail : forall msg, Pe (EFail msg)).
  Fixpoint fld_ind' (f : fld) : P f :=
    match f with
    | FBool k b => HBool k b | FInt k z => HInt k z | FUint k z => HUint k z | FFloat k v => HFloat k v
    | FString k s => HString k s | FByteString k s => HBStr k s | FBinary k s => HBin k s
    | FComplex k re im g => HCplx k re im g | FDuration k d => HDur k d | FTime k t => HTime k t
    | FReflect k r => HRefl k r | FNamespace k => HNs k | FSkip => HSkip | FStringer k o => HStr k o
    | FError k e => HErr k e
    | FObject k m => HObj k m (objm_ind' m) | FInline m => HInl m (objm_ind' m)
    | FArray k a => HArr k a (arrm_ind' a)
    end
  with objm_ind' (m : objm) : Po m :=
    match m with Obj cs r => HO cs r ((fix go (l : list fld) : Forall P l :=
        match l with [] => Forall_nil _ | x :: t => Forall_cons _ (fld_ind' x) (go t) end) cs) end
  with arrm_ind' (a : arrm) : Pa a :=
    match a with Arr es r st => HA es r st ((fix go (l : list elem) : Forall Pe l :=
        match l with [] => Forall_nil _ | x :: t => Forall_cons _ (elem_ind' x) (go t) end) es) end
  with elem_ind' (e : elem) : Pe e :=
    match e with
    | EBool b => HEB b | EInt z => HEI z | EUint z => HEU z | EFloat f => HEF f | EStr s => HES s | EBStr s => HEBS s
    | ECplx re im g => HEC re im g | EDur d => HED d | ETime t => HET t | ERefl r => HER r
    | EObj m => HEO m (objm_ind' m) | EArr a => HEA a (arrm_ind' a) | EFail msg => HEFail msg
    end.
End FldInd.

Section S.
Variable c : cfg.
Variable sp : bool.
Notation pctx := (pctx sp).
Notation pv := (pv sp).
Notation add_key := (add_key sp).
Notation add_sep := (add_sep sp).
Notation pelems := (pelems sp).

Definition R (p : bytes) (o : octx) (base : nat) (s : st) : Prop :=
  buf s = p ++ pctx o /\ ns s = base + length (frames o) /\ ctx_ok sp o.

Lemma ctx_ok_push o m : ctx_ok sp o -> mem_ok sp m -> ctx_ok sp (push o m).
Proof. unfold ctx_ok, push; cbn [cur]. intros H Hm. apply Forall_app. split; [exact H|]. now constructor. Qed.

Lemma step_member p o base s k v : pre_ok p -> R p o base s -> tail_ok (pv v) ->
  R p (push o (k, v)) base {| buf := add_key k (buf s) ++ pv v; ns := ns s |}.
Proof.
  intros Hp (Hb & Hn & Hc) Hv. repeat split; cbn [buf ns].
  - rewrite Hb, (add_key_step sp p o k Hp Hc), pctx_push. unfold pm; cbn [fst snd]. now rewrite <- !app_assoc.
  - exact Hn.
  - apply ctx_ok_push; [exact Hc|exact Hv].
Qed.
Lemma step_atom p o base s k a t : pre_ok p -> R p o base s -> t = atxt a -> tail_ok t ->
  R p (push o (k, TA a)) base {| buf := ap_raw sp t (add_key k (buf s)); ns := ns s |}.
Proof. intros Hp HR -> Ht. rewrite ap_raw_key. exact (step_member p o base s k (TA a) Hp HR Ht). Qed.
Lemma step_string p o base s k v : pre_ok p -> R p o base s ->
  R p (push o (str_m k v)) base (add_string sp k v s).
Proof.
  intros Hp HR. unfold add_string, ap_string, str_m.
  exact (step_atom p o base s k (AStr v) (quoted v) Hp HR eq_refl (quoted_tail v)).
Qed.
Lemma step_err p o base s k e : pre_ok p -> R p o base s -> R p (err_m k e o) base (err_field sp k e s).
Proof. intros Hp HR. destruct e as [msg|]; [|exact HR]. exact (step_string p o base s _ msg Hp HR). Qed.

(* closing an object opened at [q ++ "{"] *)
Lemma obj_value q o s2 : R (q ++ [LBRACE]) o 0 s2 ->
  buf (close_ns (app_buf s2 [RBRACE])) = q ++ pv (TObj (close o)).
Proof.
  intros (Hb & Hn & _). unfold close_ns, app_buf; cbn [buf ns]. rewrite Hb, Hn, pv_obj. unfold close.
  rewrite popen_close. unfold Refine1.pctx. cbn [plus].
  rewrite <- !app_assoc. cbn [app]. do 3 f_equal. f_equal.
  change (RBRACE :: repeat RBRACE (length (frames o))) with ([RBRACE] ++ repeat RBRACE (length (frames o))).
  cbn [app]. now rewrite (repeat_cons_snoc RBRACE).
Qed.

(* appending one element to an array opened at p' *)
Definition arr_inv (p' : bytes) (vs : list jt) (b : bytes) : Prop :=
  b = p' ++ pelems vs /\ (vs = [] \/ sep_ok b).
Lemma elem_step p' vs b v : pre_ok p' -> arr_inv p' vs b -> tail_ok (pv v) ->
  arr_inv p' (vs ++ [v]) (add_sep b ++ pv v).
Proof.
  intros Hp [Hb Hs] Hv. split.
  - rewrite pelems_snoc. destruct vs as [|a r].
    + unfold JsonAst.pelems in *; cbn [map join sepif app] in *. rewrite app_nil_r in Hb. subst b. now rewrite (add_sep_pre sp _ Hp).
    + destruct Hs as [Hs|Hs]; [discriminate|]. rewrite (add_sep_value sp _ Hs), Hb. cbn [sepif]. now rewrite <- !app_assoc.
  - right. apply Hv.
Qed.
Lemma arr_inv_init p' : arr_inv p' [] p'.
Proof. split; [cbn; now rewrite app_nil_r|now left]. Qed.

(* ---- errors ---- *)
Definition enc_causes :=
  fix go (l : list (option errv)) (s : st) {struct l} : st * option bytes :=
    match l with
    | [] => (s, None)
    | None :: r => go r s
    | Some ce :: r =>
        let old := ns s in
        let s' := {| buf := add_sep (buf s) ++ [LBRACE]; ns := 0 |} in
        let '(s'', err) := enc_err sp s_error ce s' in
        let s''' := {| buf := buf (close_ns (app_buf s'' [RBRACE])); ns := old |} in
        match err with Some m => (s''', Some m) | None => go r s''' end
    end.
Definition ev_causes :=
  fix go (l : list (option errv)) {struct l} : list jt * option bytes :=
    match l with
    | [] => ([], None)
    | None :: r => go r
    | Some ce :: r =>
        let '(oc, e1) := ev_err s_error ce octx0 in
        let v := TObj (close oc) in
        match e1 with
        | Some m => ([v], Some m)
        | None => let '(vs, e2) := go r in (v :: vs, e2)
        end
    end.
Lemma enc_err_eq k msg verbose group s :
  enc_err sp k (ErrV msg verbose group) s =
  match msg with
  | ONilPtr => (add_string sp k s_nilptr s, None)
  | OPanic m => (s, Some (panic_err m))
  | OOk basic =>
      let s1 := add_string sp k basic s in
      match group with
      | Some causes =>
          let s2 := {| buf := add_sep (add_key (k ++ s_Causes) (buf s1)) ++ [LBRACK]; ns := ns s1 |} in
          let '(s3, err) := enc_causes causes s2 in (app_buf s3 [RBRACK], err)
      | None =>
          match verbose with
          | Some v => if bytes_eqb v basic then (s1, None) else (add_string sp (k ++ s_Verbose) v s1, None)
          | None => (s1, None)
          end
      end
  end.
Proof. reflexivity. Qed.
Lemma ev_err_eq k msg verbose group o :
  ev_err k (ErrV msg verbose group) o =
  match msg with
  | ONilPtr => (push o (str_m k s_nilptr), None)
  | OPanic m => (o, Some (panic_err m))
  | OOk basic =>
      let o1 := push o (str_m k basic) in
      match group with
      | Some causes => let '(vs, err) := ev_causes causes in (push o1 (k ++ s_Causes, TArr vs), err)
      | None =>
          match verbose with
          | Some v => if bytes_eqb v basic then (o1, None) else (push o1 (str_m (k ++ s_Verbose) v), None)
          | None => (o1, None)
          end
      end
  end.
Proof. reflexivity. Qed.

Definition Perr (e : errv) : Prop := forall k p o base s, pre_ok p -> R p o base s ->
  R p (fst (ev_err k e o)) base (fst (enc_err sp k e s)) /\ snd (enc_err sp k e s) = snd (ev_err k e o).

Lemma R_octx0 p : R p octx0 0 {| buf := p; ns := 0 |}.
Proof. repeat split; cbn; [now rewrite app_nil_r|constructor]. Qed.

Lemma causes_loop causes : Forall (opt_all Perr) causes ->
  forall p' vs s, pre_ok p' -> arr_inv p' vs (buf s) ->
    arr_inv p' (vs ++ fst (ev_causes causes)) (buf (fst (enc_causes causes s))) /\
    ns (fst (enc_causes causes s)) = ns s /\ snd (enc_causes causes s) = snd (ev_causes causes).
Proof.
  induction 1 as [|oe r Hoe _ IH]; intros p' vs s Hp Hinv.
  - cbn. rewrite app_nil_r. auto.
  - destruct oe as [ce|]; [|cbn [enc_causes ev_causes]; now apply IH].
    cbn [enc_causes ev_causes].
    set (q := add_sep (buf s)). set (s' := {| buf := q ++ [LBRACE]; ns := 0 |}).
    assert (Hq : pre_ok (q ++ [LBRACE])) by (apply pre_ok_snoc; reflexivity).
    destruct (Hoe s_error (q ++ [LBRACE]) octx0 0 s' Hq (R_octx0 _)) as [HR Herr].
    destruct (enc_err sp s_error ce s') as [s'' err] eqn:E1.
    destruct (ev_err s_error ce octx0) as [oc e1] eqn:E2. cbn [fst snd] in HR, Herr. subst err.
    pose proof (obj_value q oc s'' HR) as Hbuf.
    pose proof (elem_step p' vs (buf s) (TObj (close oc)) Hp Hinv (pv_obj_tail sp _)) as Hstep. fold q in Hstep.
    destruct e1 as [m|].
    + cbn [fst snd buf ns]. rewrite Hbuf. auto.
    + set (s3 := {| buf := buf (close_ns (app_buf s'' [RBRACE])); ns := ns s |}).
      assert (Hinv3 : arr_inv p' (vs ++ [TObj (close oc)]) (buf s3)) by (unfold s3; cbn [buf]; now rewrite Hbuf).
      destruct (IH p' (vs ++ [TObj (close oc)]) s3 Hp Hinv3) as (H1 & H2 & H3).
      destruct (ev_causes r) as [ws e2]. cbn [fst snd] in *. rewrite <- app_assoc in H1. cbn [app] in H1. auto.
Qed.

Lemma perr_all : forall e, Perr e.
Proof.
  apply errv_ind'. intros msg verbose group IHg k p o base s Hp HR.
  rewrite enc_err_eq, ev_err_eq. destruct msg as [basic|m|].
  - pose proof (step_string p o base s k basic Hp HR) as HR1.
    set (s1 := add_string sp k basic s) in *. set (o1 := push o (str_m k basic)) in *.
    destruct group as [causes|].
    + cbn zeta.
      set (B := add_key (k ++ s_Causes) (buf s1)).
      assert (HB : add_sep B = B) by (apply add_sep_pre, add_key_pre).
      rewrite HB.
      assert (Hp' : pre_ok (B ++ [LBRACK])) by (apply pre_ok_snoc; reflexivity).
      destruct (causes_loop causes IHg (B ++ [LBRACK]) [] {| buf := B ++ [LBRACK]; ns := ns s1 |} Hp' (arr_inv_init _)) as ([H1 _] & H2 & H3).
      destruct (enc_causes causes _) as [s3 err]. destruct (ev_causes causes) as [vs e']. cbn [fst snd app] in *. subst err.
      split; [|reflexivity].
      assert (Hmem : R p (push o1 (k ++ s_Causes, TArr vs)) base {| buf := add_key (k ++ s_Causes) (buf s1) ++ pv (TArr vs); ns := ns s1 |})
        by (apply step_member; [exact Hp|exact HR1|apply pv_arr_tail]).
      destruct Hmem as (Mb & Mn & Mc). repeat split; cbn [buf ns app_buf] in *; [|congruence|exact Mc].
      rewrite <- Mb, H1, pv_arr. fold B. now rewrite <- !app_assoc.
    + destruct verbose as [v|]; [|split; [exact HR1|reflexivity]].
      destruct (bytes_eqb v basic); cbn [fst snd]; (split; [|reflexivity]); [exact HR1|].
      exact (step_string p o1 base s1 _ v Hp HR1).
  - cbn [fst snd]. auto.
  - cbn [fst snd]. split; [|reflexivity]. exact (step_string p o base s k s_nilptr Hp HR).
Qed.
End S.

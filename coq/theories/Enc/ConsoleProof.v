(* C16: the console encoder's line has the documented shape, and its context is the
   spaced print of the same tree the JSON encoder emits. *)
From Coq Require Import List ZArith NArith Bool Lia.
From Coq.Strings Require Import Byte.
Import ListNotations.
From Zap Require Import Base.Wire Enc.Bytes Enc.Fields Enc.JsonEnc Enc.JsonParse Enc.JsonAst Enc.Wf Enc.Console
  Enc.Refine1 Enc.Refine3 Enc.Refine4 Enc.Refine5 Enc.Parse3 Enc.Parse4.

Section S.
Variable c : cfg.

Lemma print_elems_false l : print_elems c l false = match l with [] => [] | _ => csep c ++ joinb (csep c) l end.
Proof.
  induction l as [|x r IH]; [reflexivity|]. cbn [print_elems]. rewrite IH. destruct r as [|y r']; cbn [joinb].
  - now rewrite app_nil_r.
  - reflexivity.
Qed.
Lemma print_elems_join l : print_elems c l true = joinb (csep c) l.
Proof.
  destruct l as [|x r]; [reflexivity|]. cbn [print_elems app]. rewrite print_elems_false.
  destruct r as [|y r']; cbn [joinb]; [now rewrite app_nil_r|reflexivity].
Qed.
Lemma sep_glue a b : sep_if_nonempty c a ++ b = glue c a b.
Proof. unfold sep_if_nonempty, glue. destruct a; cbn [is_nil]; [reflexivity|now rewrite <- app_assoc]. Qed.

(* the context the console encoder renders *)
Lemma context_bytes ctxs fs : forallb wf_flds ctxs = true -> wf_flds fs = true ->
  buf (close_ns (enc_flds c true fs (with_chain c true ctxs))) =
    popen true (close (ev_flds c fs (ev_with_chain c ctxs))).
Proof.
  intros Hc Hf. pose proof (with_chain_R c true ctxs Hc) as HR.
  pose proof (refine_flds c true fs Hf [] _ 0 _ (or_introl eq_refl) HR) as (Hb & Hn & _).
  unfold close_ns; cbn [buf]. rewrite Hb, Hn. cbn [app plus]. unfold close. rewrite popen_close. unfold pctx. now rewrite <- app_assoc.
Qed.
Lemma popen_nil_eq ms : is_nil (popen true ms) = is_nil ms.
Proof.
  destruct ms as [|m r]; [reflexivity|]. cbn [is_nil]. destruct (popen true (m :: r)) eqn:E; [|reflexivity].
  apply popen_nil_iff in E. discriminate.
Qed.

Theorem console_shape ctxs ent fs : forallb wf_flds ctxs = true -> wf_flds fs = true ->
  console_encode c (with_chain c true ctxs) ent fs = console_spec c ctxs ent fs.
Proof.
  intros Hc Hf. unfold console_encode, console_spec. rewrite (context_bytes ctxs fs Hc Hf), print_elems_join.
  set (cols := joinb (csep c) (col_elems c ent)).
  set (ms := close (ev_flds c fs (ev_with_chain c ctxs))).
  assert (Hhead : (if negb (is_nil (k_message c)) then sep_if_nonempty c cols ++ message ent else cols) =
                  (if negb (is_nil (k_message c)) then glue c cols (message ent) else cols))
    by (destruct (negb (is_nil (k_message c))); [apply sep_glue|reflexivity]).
  rewrite Hhead. set (head := if negb (is_nil (k_message c)) then glue c cols (message ent) else cols).
  rewrite popen_nil_eq. destruct ms as [|m r] eqn:Ems; cbn [is_nil]; [reflexivity|].
  rewrite sep_glue, pv_obj. reflexivity.
Qed.

(* the context object is valid JSON and decodes to the same members as the JSON encoder's (compact) form *)
Theorem context_same v : tpre v -> parse (pv true v) = Some (jv_of v) /\ parse (pv false v) = Some (jv_of v).
Proof. intros H. split; now apply parse_printed. Qed.
End S.
